import QuantemModel.Props.C02
import QuantemModel.Model.ForwardExt2
/-!
C02 — growth round 6 (listed in `EXTRA_PROPS` of harness/props/c02.py).

* the CHUNKED loop of `_set_patch_indices` (`Model/ForwardExt2.lean`): for every chunk size and every
  number of positions the concatenated per-chunk indices are the position-by-position indices the
  theorems of Props/C02.lean speak about — in particular for the library's `min(1000, n)` and scans
  with more than 1000 positions whose count is not a multiple of 1000;
* sign of the sub-pixel offset on both sides of the half pixel;
* end-to-end compositions: thickness history → rebuilt propagators → forward → preprocessing → loss,
  and position history → cached indices → forward = specification.
-/
namespace QuantemModel.Props.C02
open QuantemModel QuantemModel.PtychoOps QuantemModel.Forward QuantemModel.ForwardState QuantemModel.ForwardExt2

section Ext

/-! ## 1. the chunked loop of `_set_patch_indices` -/

private theorem flatten_chunks_take {α : Type} (xs : List α) (c : ℕ) (m : ℕ) :
    ((List.range m).map fun k => chunkAt xs c (k * c)).flatten = xs.take (m * c) := by
  induction m with
  | zero => simp
  | succ m ih =>
    rw [List.range_succ, List.map_append, List.flatten_append, ih]
    simp only [List.map_cons, List.map_nil, List.flatten_cons, List.flatten_nil, List.append_nil]
    rw [Nat.succ_mul, List.take_add]
    rfl

private theorem le_ceil_mul (n : ℕ) {c : ℕ} (hc : 0 < c) : n ≤ (n + c - 1) / c * c := by
  have h := Nat.lt_mul_div_succ (n + c - 1) hc
  have h2 : c * ((n + c - 1) / c + 1) = (n + c - 1) / c * c + c := by rw [Nat.mul_add, Nat.mul_one, Nat.mul_comm]
  omega

/-- **the chunks tile the list**: whatever the chunk size `c > 0` and the length (a multiple of `c`, one
more, one less, smaller than `c`), the slices `xs[i : min(i + c, n)]` for `i` in `range(0, n, c)`
concatenate to `xs` — nothing dropped, nothing repeated, order kept -/
theorem chunks_tile {α : Type} (xs : List α) {c : ℕ} (hc : 0 < c) : (chunks c xs).flatten = xs := by
  unfold chunks chunkStarts
  rw [List.map_map]
  have h := flatten_chunks_take xs c ((xs.length + c - 1) / c)
  have hfun : (chunkAt xs c ∘ fun x => x * c) = fun k => chunkAt xs c (k * c) := rfl
  rw [hfun, h]
  exact List.take_of_length_le (le_ceil_mul xs.length hc)

/-- number of loop iterations `⌈n / c⌉` and the length `min(c, n − k·c)` of the `k`-th chunk (the last
one is shorter unless `n` is a multiple of `c`) -/
theorem chunk_count_and_lengths {α : Type} (xs : List α) (c : ℕ) :
    (chunks c xs).length = (xs.length + c - 1) / c
      ∧ ∀ k, (chunkAt xs c (k * c)).length = min c (xs.length - k * c) := by
  refine ⟨by simp [chunks, chunkStarts], fun k => ?_⟩
  simp [chunkAt, List.length_take, List.length_drop]

/-- **chunking is invisible**: for EVERY chunk size `c > 0` the concatenated per-chunk patch indices of
`_set_patch_indices` are the indices computed position by position (`indicesOf`, the object of
`patch_indices_window`, `patch_index_cache_fresh` and `forward_eq_spec`) -/
theorem chunked_patch_indices_eq {c : ℕ} (hc : 0 < c) (H W R0 R1 : ℕ) (ps : List (ℚ × ℚ)) :
    setPatchIndicesChunked c H W R0 R1 ps = indicesOf H W R0 R1 ps := by
  unfold setPatchIndicesChunked
  have h : ((chunks c ps).map (indicesOf H W R0 R1)).flatten = indicesOf H W R0 R1 (chunks c ps).flatten := by
    unfold indicesOf
    rw [List.map_flatten]
  rw [h, chunks_tile ps hc]

/-- **`_set_patch_indices` with the library's chunk size `min(1000, n)`**: for every non-empty scan — 1, 999,
1000, 1001, 1073, 2000, 2021 … positions — it stores exactly `indicesOf`; only the empty scan raises
(`range()` with step 0) -/
theorem set_patch_indices_exact (H W R0 R1 : ℕ) (ps : List (ℚ × ℚ)) :
    (ps ≠ [] → setPatchIndices H W R0 R1 ps = .ok (indicesOf H W R0 R1 ps))
      ∧ setPatchIndices H W R0 R1 [] = .error "ValueError" := by
  refine ⟨fun hne => ?_, rfl⟩
  have hl : 0 < ps.length := List.length_pos_iff.2 hne
  have hc : 0 < libChunk ps.length := by unfold libChunk; omega
  unfold setPatchIndices
  rw [if_neg (by omega), chunked_patch_indices_eq hc]

-- non-vacuity: 1073 positions are visited as a chunk of 1000 and a chunk of 73; 2000 as two full chunks
example : chunkStarts 1073 (libChunk 1073) = [0, 1000] ∧ chunkStarts 2000 (libChunk 2000) = [0, 1000]
    ∧ chunkStarts 2001 (libChunk 2001) = [0, 1000, 2000] ∧ chunkStarts 7 (libChunk 7) = [0] := by decide
example : (chunks 3 [10, 11, 12, 13, 14, 15, 16]) = [[10, 11, 12], [13, 14, 15], [16]] := by decide
example : setPatchIndices 8 8 2 2 [(5 / 2, 3)] = .ok (indicesOf 8 8 2 2 [(5 / 2, 3)]) :=
  (set_patch_indices_exact 8 8 2 2 _).1 (by simp)

/-! ## 2. sign of the sub-pixel offset -/

/-- **both sides of the half pixel**: a position whose fractional part is BELOW ½ is cut around `⌊p⌋` and
the probe is shifted by the non-negative `p − ⌊p⌋`; ABOVE ½ it is cut around `⌊p⌋ + 1` and the probe is
shifted by the NEGATIVE `p − ⌊p⌋ − 1` (exact ties: `round_ties_to_even`) -/
theorem subpixel_offset_sign (q : ℚ) :
    (q - (q.floor : ℚ) < 1 / 2 → roundHalfEven q = q.floor ∧ fracPos q = q - (q.floor : ℚ) ∧ 0 ≤ fracPos q)
      ∧ (1 / 2 < q - (q.floor : ℚ) →
          roundHalfEven q = q.floor + 1 ∧ fracPos q = q - (q.floor : ℚ) - 1 ∧ fracPos q < 0) := by
  have h1 : (q.floor : ℚ) ≤ q := Int.floor_le q
  have h2 : q < (q.floor : ℚ) + 1 := Int.lt_floor_add_one q
  constructor
  · intro h
    have hr : roundHalfEven q = q.floor := by
      unfold roundHalfEven; dsimp only; rw [if_pos h]
    refine ⟨hr, ?_, ?_⟩ <;> (unfold fracPos; rw [hr])
    linarith
  · intro h
    have hr : roundHalfEven q = q.floor + 1 := by
      unfold roundHalfEven; dsimp only; rw [if_neg (by linarith), if_pos h]
    refine ⟨hr, ?_, ?_⟩ <;> (unfold fracPos; rw [hr]; push_cast)
    · ring
    · linarith

example : roundHalfEven (27 / 8 : ℚ) = 3 ∧ fracPos (27 / 8) = 3 / 8 ∧ roundHalfEven (29 / 8 : ℚ) = 4 ∧ fracPos (29 / 8) = -3 / 8 := by
  decide +kernel

/-! ## 3. end-to-end compositions -/

/-- **thickness history → propagators → forward → preprocessing → loss**: after ANY history of
slice-thickness assignments (both entry points, every input form, accepted or refused) and rebuilds, the
propagators the next `reconstruct` / `preprocess` / `reset_recon` builds make the forward pipeline at the
ground truth reproduce the data simulated with the LAST ACCEPTED thicknesses, and both intensity losses
against the `no_shift`-preprocessed data are exactly zero — for every ROI size, number of slices and
modes, batch of in-box positions, mask and batch fraction -/
theorem end_to_end_after_thickness_history (g : PropGeom ℝ) (hr : 0 < g.nr) (hc : 0 < g.nc) (H W : ℕ)
    (t : List (List (Cx ℝ))) (probesC : List (Img ℝ)) (hp : ∀ psi ∈ probesC, Rect g.nr g.nc psi) (hne : probesC ≠ [])
    (s : Slab ℝ) (hs : ValidThick s.numSlices s.thick) (ops : List (ThickOp ℝ))
    (batch : List (ℚ × ℚ)) (hpos : ∀ p ∈ batch, InBox H W p)
    (lt : LossType) (hlt : lt.isAmplitude = false) (mask : RImg ℝ) (n : ℕ) (meanI : ℝ)
    (ks : List (Img ℝ))
    (hks : ks = Spec.kernels g.nr g.nc g.sr g.sc g.energy ((lastAccepted s.numSlices ops).getD s.thick)) :
    forward H W g.nr g.nc t (probesC.map ifftshift2) (s.run g (ops ++ [.rebuild])).props batch
        = Spec.simulate H W g.nr g.nc t probesC ks batch
      ∧ lossBatch lt (forward H W g.nr g.nc t (probesC.map ifftshift2) (s.run g (ops ++ [.rebuild])).props batch)
          ((Spec.simulate H W g.nr g.nc t probesC ks batch).map fun I =>
            target lt I (comFit .noShift (Spec.simulate H W g.nr g.nc t probesC ks batch) g.nr g.nc).1
              (comFit .noShift (Spec.simulate H W g.nr g.nc t probesC ks batch) g.nr g.nc).2) mask n meanI = 0 := by
  have hk : ∀ K ∈ ks, Rect g.nr g.nc K := by
    intro K hK
    rw [hks] at hK
    obtain ⟨dz, _, rfl⟩ := List.mem_map.1 hK
    exact rect_fresnelKernel ..
  have hprops : (s.run g (ops ++ [.rebuild])).props = ks.map ifftshift2 := by
    rw [hks]; exact history_propagators_eq_spec g s hs ops
  rw [hprops]
  exact ⟨forward_eq_spec hr hc H W t probesC ks hp hk batch hpos,
    loss_zero hr hc H W t probesC ks hp hk hne batch hpos lt hlt mask n meanI⟩

/-- **position history → cached indices → forward = specification**: from a coherent state, after ANY
history of scan-position assignments (accepted or refused), forward passes and refreshes, the patterns
predicted from the CACHED patch indices and the sub-pixel offsets that the next `dset.forward` returns
are the specification's patterns at the current (clipped) positions — served from the cache or not -/
theorem cached_indices_forward_eq_spec (s : PosState) (hs : s.Coherent) (hr : 0 < s.R0) (hc : 0 < s.R1)
    (t : List (List (Cx ℝ))) (probesC kernels : List (Img ℝ)) (hp : ∀ psi ∈ probesC, Rect s.R0 s.R1 psi)
    (hk : ∀ K ∈ kernels, Rect s.R0 s.R1 K) (ops : List PosOp) :
    let u := s.run (ops ++ [.forward])
    List.zipWith (fun ix p => forwardPattern t ix (probesC.map ifftshift2) (kernels.map ifftshift2)
        (Num.ofRat (fracPos p.1)) (Num.ofRat (fracPos p.2))) u.idx u.pos
      = Spec.simulate s.H s.W s.R0 s.R1 t probesC kernels u.pos := by
  intro u
  obtain ⟨hidx, _, hrun⟩ := patch_index_cache_fresh s hs ops
  have hu : u.idx = indicesOf s.H s.W s.R0 s.R1 u.pos := by
    show (s.run (ops ++ [.forward])).idx = indicesOf s.H s.W s.R0 s.R1 (s.run (ops ++ [.forward])).pos
    rw [hrun]; exact hidx
  rw [hu]
  unfold indicesOf Spec.simulate
  rw [List.zipWith_map_left, List.zipWith_self]
  apply List.map_congr_left
  intro p _
  exact pattern_eq_spec hr hc s.H s.W t probesC kernels hp hk p

/-- the two compositions chained with the chunked loop: the indices `_set_patch_indices` stores for a
non-empty scan, gathered and pushed through the pipeline, give the specification's data set -/
theorem chunked_indices_forward_eq_spec {R0 R1 : ℕ} (hr : 0 < R0) (hc : 0 < R1) (H W : ℕ) (t : List (List (Cx ℝ)))
    (probesC kernels : List (Img ℝ)) (hp : ∀ psi ∈ probesC, Rect R0 R1 psi) (hk : ∀ K ∈ kernels, Rect R0 R1 K)
    (ps : List (ℚ × ℚ)) (hne : ps ≠ []) :
    ∃ idx, setPatchIndices H W R0 R1 ps = .ok idx
      ∧ List.zipWith (fun ix p => forwardPattern t ix (probesC.map ifftshift2) (kernels.map ifftshift2)
          (Num.ofRat (fracPos p.1)) (Num.ofRat (fracPos p.2))) idx ps
        = Spec.simulate H W R0 R1 t probesC kernels ps := by
  refine ⟨indicesOf H W R0 R1 ps, (set_patch_indices_exact H W R0 R1 ps).1 hne, ?_⟩
  unfold indicesOf Spec.simulate
  rw [List.zipWith_map_left, List.zipWith_self]
  apply List.map_congr_left
  intro p _
  exact pattern_eq_spec hr hc H W t probesC kernels hp hk p

-- non-vacuity: a coherent 2 × 2-ROI state, a valid 3-slice thickness list
example : ({ H := 8, W := 8, R0 := 2, R1 := 2, n := 1, pos := [(5 / 2, 3)], last := [(5 / 2, 3)],
             idx := indicesOf 8 8 2 2 [(5 / 2, 3)] } : PosState).Coherent := rfl
example : ValidThick 3 [6, 13] := ⟨rfl, by intro x hx; simp at hx; rcases hx with rfl | rfl <;> norm_num⟩

end Ext

end QuantemModel.Props.C02
