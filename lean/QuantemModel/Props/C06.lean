import QuantemModel.Lemmas.Resample
import QuantemModel.Lemmas.ResampleSpectral
import QuantemModel.Lemmas.ResampleNd
import QuantemModel.Lemmas.ResampleCalib
import QuantemModel.Lemmas.ResampleReal
import QuantemModel.Lemmas.ResampleArgs
/-!
C06 — binning, Fourier resampling, padding and cropping obey conservation laws.
Theorems about `Model/Resample.lean` (the array and calibration arithmetic of
`Dataset.bin / pad / crop / fourier_resample`).  Only property theorems and non-vacuity
examples live here.
-/
namespace QuantemModel.Props.C06
open QuantemModel QuantemModel.Nd QuantemModel.Dft QuantemModel.Resample Complex
open QuantemModel.ResampleArgs

/-! ### binning -/

/-- **block sums (N-D)**: the binned array has `n / f` entries per axis and each entry is the sum
of exactly the pixels `j * f + t` (`t` ranging over the block) of the input — for every
shape, every factor list, every element type with an addition. -/
theorem bin_block {α : Type} [Inhabited α] [Add α] [Zero α] (a : Arr α) (facs : List Nat) :
    (binNd a facs).shape = List.zipWith (fun n f => n / f) a.shape facs ∧
    ∀ j, InBox (binShape a.shape facs) j →
      (binNd a facs).get j = ((allIdx facs).map fun t => a.get (binSrc j facs t)).sum :=
  ⟨rfl, fun _ hj => build_get _ _ hj⟩

/-- **only the trailing remainder is dropped**: every pixel a block reads lies in the region
`i_axis < f * (n / f)`; conversely every pixel of that region is read by exactly one
(block, offset) pair; and the region misses fewer than `f` entries per axis. -/
theorem bin_covered {shape facs : List Nat} (hl : shape.length = facs.length)
    (hf : ∀ f ∈ facs, 0 < f) :
    (∀ j t, InBox (binShape shape facs) j → InBox facs t →
        InBox (coveredShape shape facs) (binSrc j facs t)) ∧
    (∀ i, InBox (coveredShape shape facs) i →
        ∃ j t, InBox (binShape shape facs) j ∧ InBox facs t ∧ binSrc j facs t = i ∧
          ∀ j' t', InBox (binShape shape facs) j' → InBox facs t' → binSrc j' facs t' = i →
            j' = j ∧ t' = t) ∧
    List.Forall₂ (fun c n => c ≤ n ∧ ∃ f ∈ facs, n < c + f) (coveredShape shape facs) shape := by
  refine ⟨fun j t hj ht => binSrc_inBox hl hj ht, ?_, covered_le hl hf⟩
  intro i hi
  obtain ⟨h1, h2, h3⟩ := binSrc_div_mod hl hf hi
  refine ⟨_, _, h1, h2, h3, ?_⟩
  intro j' t' hj' ht' h
  have hlen : (binShape shape facs).length = facs.length := by simp [binShape, hl]
  exact binSrc_inj ht' h2 (by rw [hj'.length_eq, hlen]) (by rw [h1.length_eq, hlen]) (h.trans h3.symm)

/-- **counts over the covered region are preserved (N-D)**: the sum of all binned values equals
the sum of the input over the covered region `i_axis < f·(n/f)` — for every shape, every
factor list and every commutative additive monoid of values (integers, reals, complex). -/
theorem bin_total {α : Type} [AddCommMonoid α] [Inhabited α] (a : Arr α) (facs : List Nat)
    (hl : a.shape.length = facs.length) :
    (binNd a facs).data.sum = ((allIdx (coveredShape a.shape facs)).map a.get).sum := by
  unfold binNd build
  exact sum_bin_blocks a.shape facs hl a.get

/-- **block-centre coordinates are preserved**: with the new calibration
`(origin + (f-1)/2·sampling, f·sampling)` the coordinate of binned pixel `j` is the mean
coordinate of the `f` input pixels of block `j`; in particular the new origin is the mean
coordinate of the first block and the sampling is multiplied by the factor. -/
theorem bin_coords (o s : Rat) (f : Nat) (hf : 0 < f) (j : Nat) :
    (binMeta o s f).2 = s * f ∧
    (binMeta o s f).1 + (j : Rat) * (binMeta o s f).2
      = (∑ i ∈ Finset.range f, (o + (((j * f + i : Nat) : Rat)) * s)) / (f : Rat) := by
  refine ⟨rfl, ?_⟩
  rw [block_mean_coord o s f hf j]
  simp only [binMeta]
  ring

/-! ### padding and cropping -/

/-- **symmetric floor/ceil padding**: the widths `Dataset.pad(output_shape=…)` uses add up to
`max(0, out - n)`, the trailing one being the larger by at most one. -/
theorem pad_widths (out : Int) (n : Nat) :
    ((padWidths out n).1 + (padWidths out n).2 : Nat) = (out - n).toNat ∧
      (padWidths out n).1 ≤ (padWidths out n).2 ∧ (padWidths out n).2 ≤ (padWidths out n).1 + 1 :=
  padWidths_sum out n

/-- **padded array (N-D)**: inside the original block the padded array holds the original
values at offset `before`, zero elsewhere. -/
theorem pad_get {α : Type} [Inhabited α] (zero : α) (a : Arr α) (w : List (Nat × Nat)) :
    (padNd zero a w).shape = padShape a.shape w ∧
    ∀ j, InBox (padShape a.shape w) j →
      (padNd zero a w).get j = match padSrc a.shape w j with
        | some i => a.get i
        | none => zero :=
  ⟨rfl, fun _ hj => build_get _ _ hj⟩

/-- **cropping the pad widths undoes the pad, axis by axis**: on an axis of length `n` padded
by `(before, after)`, the slice `Dataset.crop` builds from `(before, -after)` — with
`after = 0 ↦ None` — is `start = before, step = 1, length = n`, and reading the padded axis
through it returns original position `t` for every `t < n`. -/
theorem pad_crop_axis (b n e : Nat) :
    sliceIndices (b + n + e) (some (b : Int)) (if (-(e : Int)) ≠ 0 then some (-(e : Int)) else none) none
      = some ((b : Int), 1, n) ∧
    ∀ t, t < n → padSrc [n] [(b, e)] [(Sel.rng (b : Int) 1 n).at t] = some [t] := by
  refine ⟨crop_slice_of_pad b n e, ?_⟩
  intro t ht
  have h1 : (Sel.rng (b : Int) 1 n).at t = b + t := by simp only [Sel.at]; omega
  rw [h1]
  simp only [padSrc]
  rw [if_pos (by omega)]
  simp

/-- **pad then crop the pad widths returns the original array (N-D)**: reading the padded array
through the per-axis selections `start = before, step = 1, length = n` (which is what
`Dataset.crop` makes of `(before, -after)` by `pad_crop_axis`) gives back the array, for every
shape, every width list and every element type. -/
theorem pad_crop {α : Type} [Inhabited α] (zero : α) (a : Arr α) (w : List (Nat × Nat))
    (hw : w.length = a.shape.length) (ha : a.data.length = prod a.shape) :
    applyPlan (padNd zero a w) (padCropPlan a.shape w) = a :=
  pad_crop_nd zero a w hw ha

/-- **`pad` followed by `crop` of the pad widths returns the original data (N-D, through the
model of `Dataset.crop`)**: on the padded array, the index expression `Dataset.crop` builds for
`crop_widths = ((before, -after), …)` (all axes; `after = 0 ↦ None`) is accepted by the NumPy
index normalisation and applying it gives back the original array — for every shape, width
list (in particular the floor/ceil widths of `pad(output_shape=…)`) and element type. -/
theorem pad_then_crop {α : Type} [Inhabited α] (zero : α) (a : Arr α) (w : List (Nat × Nat))
    (hw : w.length = a.shape.length) (ha : a.data.length = prod a.shape) :
    ∃ p, plan (padNd zero a w).shape (cropIxOfPad w) = .ok p ∧ applyPlan (padNd zero a w) p = a := by
  refine ⟨_, plan_crop_of_pad a.shape w hw, ?_⟩
  exact pad_crop_nd zero a w hw ha

/-! ### Fourier resampling: the frequency bookkeeping -/

/-- the executable index map has one entry per output bin -/
theorem freqMap_length (n m : Nat) : (freqMap n m).length = m := length_freqMap n m

/-- **the data path is the index map**: running `ifftshift ∘ centred crop/zero-pad ∘ fftshift`
on any spectrum `F` of length `n` puts `F[k]` where `freqMap` says `some k` and zero where it
says `none`. -/
theorem spectrum_follows_freqMap {β : Type} (z : β) (n m : Nat) (F : List β) (hF : F.length = n)
    (k' : Nat) (hk : k' < m) :
    ∃ o, (freqMap n m)[k']? = some o ∧
      (spectrumMap z n m F)[k']? = match o with
        | some k => F[k]?
        | none => some z :=
  ⟨srcBin n m k', getElem?_freqMap n m k' hk, getElem?_spectrumMap z n m F hF k' hk⟩

/-- **signed frequency is preserved**: a coefficient lands in the output bin with the same
signed frequency `fftfreq·N`, for all sizes, odd or even, up- or down-sampling. -/
theorem freqMap_preserves_frequency {n m k' k : Nat} (hn : 1 ≤ n) (hm : 1 ≤ m) (hk : k' < m)
    (h : (freqMap n m)[k']? = some (some k)) : k < n ∧ fftfreqInt n k = fftfreqInt m k' := by
  rw [getElem?_freqMap n m k' hk] at h
  simp only [Option.some.injEq] at h
  exact ⟨srcBin_lt hk h, srcBin_freq hn hm hk h⟩

/-- **injective**: no two output bins receive the same input coefficient. -/
theorem freqMap_injective {n m k1 k2 k : Nat} (hn : 1 ≤ n) (hm : 1 ≤ m) (h1k : k1 < m) (h2k : k2 < m)
    (h1 : (freqMap n m)[k1]? = some (some k)) (h2 : (freqMap n m)[k2]? = some (some k)) : k1 = k2 := by
  rw [getElem?_freqMap n m _ h1k] at h1
  rw [getElem?_freqMap n m _ h2k] at h2
  simp only [Option.some.injEq] at h1 h2
  exact srcBin_inj hn hm h1k h2k h1 h2

/-- **a bin is zero-filled exactly when its frequency is outside the input band**
`-(n/2) ≤ s ≤ n-1-n/2`: nothing inside the band is lost, nothing is invented. -/
theorem freqMap_band {n m k' : Nat} (hn : 1 ≤ n) (hm : 1 ≤ m) (hk : k' < m) :
    (freqMap n m)[k']? = some none ↔
      (fftfreqInt m k' < -((n / 2 : Nat) : Int) ∨ ((n - 1 - n / 2 : Nat) : Int) < fftfreqInt m k') := by
  rw [getElem?_freqMap n m k' hk]
  simp only [Option.some.injEq]
  exact srcBin_none_iff hn hm hk

/-- **identity when the shape is unchanged**: every bin maps to itself. -/
theorem freqMap_identity {n k : Nat} (hk : k < n) : (freqMap n n)[k]? = some (some k) := by
  rw [getElem?_freqMap n n k hk, srcBin_self hk]

/-- **DC stays DC** (what mean preservation rests on), for all sizes. -/
theorem freqMap_dc {n m : Nat} (hn : 1 ≤ n) (hm : 1 ≤ m) : (freqMap n m)[0]? = some (some 0) := by
  rw [getElem?_freqMap n m 0 (by omega), srcBin_dc hn hm]

/-- **up then down loses nothing** (index level): for `m ≥ n` every input bin `k` is placed in
some output bin `k'` by the up-sampling map, and the down-sampling map `m → n` brings exactly
that bin back to `k`. -/
theorem freqMap_up_down {n m k : Nat} (hn : 1 ≤ n) (hnm : n ≤ m) (hk : k < n) :
    ∃ k', k' < m ∧ (freqMap n m)[k']? = some (some k) ∧ (freqMap m n)[k]? = some (some k') := by
  obtain ⟨k', hk', h1, h2⟩ := srcBin_up_down hn hnm hk
  exact ⟨k', hk', by rw [getElem?_freqMap n m k' hk', h1], by rw [getElem?_freqMap m n k hk, h2]⟩

/-! ### Fourier resampling: calibration -/

/-- **physical centre preserved**: `o' + (m-1)/2·s' = o + (n-1)/2·s`. -/
theorem resample_centre (o s : Rat) (n m : Nat) :
    (resampleMeta o s n m).1 + ((m : Rat) - 1) / 2 * (resampleMeta o s n m).2
      = o + ((n : Rat) - 1) / 2 * s := by
  simp only [resampleMeta]; ring

/-- **extent of the field of view preserved**: `m·s' = n·s`. -/
theorem resample_extent (o s : Rat) (n m : Nat) (hn : 0 < n) (hm : 0 < m) :
    (m : Rat) * (resampleMeta o s n m).2 = (n : Rat) * s := by
  have h1 : (n : Rat) ≠ 0 := by exact_mod_cast Nat.pos_iff_ne_zero.mp hn
  have h2 : (m : Rat) ≠ 0 := by exact_mod_cast Nat.pos_iff_ne_zero.mp hm
  simp only [resampleMeta]
  field_simp

/-- unchanged shape leaves the calibration unchanged. -/
theorem resample_meta_identity (o s : Rat) (n : Nat) (hn : 0 < n) : resampleMeta o s n n = (o, s) := by
  have h1 : (n : Rat) ≠ 0 := by exact_mod_cast Nat.pos_iff_ne_zero.mp hn
  simp only [resampleMeta, div_self h1, div_one]
  ext <;> simp

/-! ### Fourier resampling: the operator over ℝ (carrier = ℝ, DFT = the defining sums of
`Core/Dft.lean`; `toC` reads the model's complex pairs as Mathlib complex numbers) -/

/-- **the model computes band-limited DFT resampling**: output sample `j` of the 1-D operator is
`(m/n)·(1/m)·Σ_{k'} Ŷ[k']·ζ_m^{k'j}` with `Ŷ[k'] = X̂[srcBin k']` (or 0) and
`X̂[k] = Σ_i x[i]·ζ_n^{-ki}` — the dense oracle the harness evaluates on the real code. -/
theorem resample1_formula (x : List (Cx ℝ)) (m j : ℕ) (hj : j < m) :
    (resample1 m x).length = m ∧ vecC (resample1 m x) j = resampleC x.length m (vecC x) j :=
  ⟨length_resample1 x m, resample1_getD x m j hj⟩

/-- **the array mean is preserved**, for every input length `n ≥ 1` and output length `m ≥ 1`
(odd or even, up or down): `Σ y / m = Σ x / n`. -/
theorem resample_mean (x : List (Cx ℝ)) (m : ℕ) (hn : x.length ≠ 0) (hm : m ≠ 0) :
    toC (Cx.sum (resample1 m x)) / (m : ℂ) = toC (Cx.sum x) / (x.length : ℂ) := by
  rw [resample1_sum x m hn hm]
  have h1 : (x.length : ℂ) ≠ 0 := by exact_mod_cast hn
  have h2 : (m : ℂ) ≠ 0 := by exact_mod_cast hm
  field_simp

/-- **linear**: `R(a·x + y) = a·R(x) + R(y)` for complex `a` and signals of equal length. -/
theorem resample_linear (a : Cx ℝ) (x y : List (Cx ℝ)) (m : ℕ) (h : x.length = y.length) :
    resample1 m (List.zipWith (· + ·) (x.map (a * ·)) y)
      = List.zipWith (· + ·) ((resample1 m x).map (a * ·)) (resample1 m y) :=
  resample1_linear a x y m h

/-- **identity when the shape is unchanged** (exact over ℝ). -/
theorem resample_identity (x : List (Cx ℝ)) (hn : x.length ≠ 0) : resample1 x.length x = x :=
  resample1_same x hn

/-- **up-sampling then down-sampling back returns the original data**, for every complex
signal and every `m ≥ n ≥ 1`.  (For complex data the code never takes a real part, so no
Nyquist exclusion is needed; `resample_roundtrip_real` is the statement for real input.) -/
theorem resample_roundtrip (x : List (Cx ℝ)) (m : ℕ) (hn : 1 ≤ x.length) (hnm : x.length ≤ m) :
    resample1 x.length (resample1 m x) = x :=
  resample1_up_down x m hn hnm

/-- **real input stays real**: for a real signal up-sampled to `m ≥ n` — without
Nyquist-frequency content when `n` is even and `m > n` — every output sample of the complex
operator is real, so the `.real` that `fourier_resample` applies to real arrays is a no-op. -/
theorem resample_real_output (x : List (Cx ℝ)) (m : ℕ) (hn : 1 ≤ x.length) (hnm : x.length ≤ m)
    (hx : IsRealList x) (hny : x.length < m → NoNyquist x) : IsRealList (resample1 m x) :=
  resample1_real x m hn hnm hx hny

/-- **up-sampling followed by down-sampling back returns the original data, for any real
signal without Nyquist-frequency content** — the operator exactly as the code runs it on real
arrays (`takeReal` = `.real` after each inverse FFT), for every `m ≥ n ≥ 1`, odd or even. -/
theorem resample_roundtrip_real (x : List (Cx ℝ)) (m : ℕ) (hn : 1 ≤ x.length) (hnm : x.length ≤ m)
    (hx : IsRealList x) (hny : x.length < m → NoNyquist x) :
    takeReal (resample1 x.length (takeReal (resample1 m x))) = x :=
  resample1_up_down_real x m hn hnm hx hny

/-! ### Fourier resampling in N dimensions: the model's N-D operator `resampleNd` is the fold
`resampleFold` of the 1-D operator over the (axis, new length) pairs followed by the single
`N_out/N_in` rescale; the 1-D laws lift by induction over the axis list.  (That NumPy's
`fftn`/`ifftn` is this separable composition is what the Float correspondence measures.) -/

/-- **N-D element access**: along one axis, output element `j` is entry `j[ax]` of the 1-D
operator applied to the line of the input through `j`. -/
theorem resampleNd_axis_get (a : Arr (Cx ℝ)) (ax m : ℕ) {j : List ℕ} (hj : InBox (a.shape.set ax m) j) :
    (alongAxis a ax m (resample1U m)).get j = (resample1U m (line a ax j)).getD (j.getD ax 0) default :=
  alongAxis_get a ax m _ hj

/-- **N-D mean preservation**: for every shape, every list of distinct valid axes and output
lengths `≥ 1` (non-empty axes), the mean of the resampled array equals the mean of the input;
equivalently the sum grows by exactly `N_out/N_in`. -/
theorem resampleNd_mean (a : Arr (Cx ℝ)) (ha : WFArr a) (axes outs : List ℕ) (hnd : axes.Nodup)
    (hl : axes.length = outs.length) (h : PairsOk a.shape (axes.zip outs))
    (hv : ∀ ax ∈ axes, ax < a.shape.length) :
    total (resampleNd a axes outs false)
        = (((prod outs : ℕ) : ℂ) / ((prod (axes.map fun ax => a.shape.getD ax 1) : ℕ) : ℂ)) * total a ∧
    total (resampleNd a axes outs false) / ((prod (resampleNd a axes outs false).shape : ℕ) : ℂ)
        = total a / ((prod a.shape : ℕ) : ℂ) :=
  ⟨total_resampleNd a ha axes outs h, mean_resampleNd a ha axes outs hnd hl h hv⟩

/-- **N-D linearity**: `R(c·x + y) = c·R(x) + R(y)` for arrays of equal shape, any axes. -/
theorem resampleNd_linear (c : Cx ℝ) (x y : Arr (Cx ℝ)) (axes outs : List ℕ) (hs : x.shape = y.shape)
    (hx : WFArr x) (hy : WFArr y) (h : PairsOk x.shape (axes.zip outs)) :
    resampleNd (linArr c x y) axes outs false
      = linArr c (resampleNd x axes outs false) (resampleNd y axes outs false) :=
  resampleNd_lin c x y axes outs hs hx hy h

/-- **N-D identity when the shape is unchanged** (any axes, repeated or not). -/
theorem resampleNd_identity (a : Arr (Cx ℝ)) (ha : WFArr a) (axes : List ℕ)
    (hv : ∀ ax ∈ axes, ax < a.shape.length) (hne : prod (axes.map fun ax => a.shape.getD ax 1) ≠ 0) :
    resampleNd a axes (axes.map fun ax => a.shape.getD ax 1) false = a :=
  resampleNd_same a ha axes hv hne

/-- **N-D round trip of the fold**: up-sampling along any list of axes (each to a length not
smaller than its current one) and then bringing the axes back in reverse order returns the
original array — by induction over the axis list from the 1-D round trip. -/
theorem resampleNd_roundtrip_fold (a : Arr (Cx ℝ)) (ha : WFArr a) (up : List (ℕ × ℕ))
    (h : UpOk a.shape up) : resampleFold (resampleFold a up) (downPairs a.shape up) = a :=
  resampleFold_up_down a ha up h

/-- **N-D round trip of `fourier_resample` (complex data, rescales included)**: up-sampling any
distinct axes and resampling the same axes back to their original lengths returns the
original array. -/
theorem resampleNd_roundtrip (a : Arr (Cx ℝ)) (ha : WFArr a) (axes outs : List ℕ) (hnd : axes.Nodup)
    (hl : axes.length = outs.length) (hv : ∀ ax ∈ axes, ax < a.shape.length)
    (h : UpOk a.shape (axes.zip outs)) (hok : PairsOk a.shape (axes.zip outs)) :
    resampleNd (resampleNd a axes outs false) axes.reverse
      (axes.map fun ax => a.shape.getD ax 1).reverse false = a :=
  resampleNd_up_down a ha axes outs hnd hl hv h hok

/-- **N-D calibration**: after `fourier_resample` along distinct axes, every resampled axis
`ax` (old length `n`, new length `m ≥ 1`, `n ≥ 1`) keeps its physical centre
`o' + (m-1)/2·s' = o + (n-1)/2·s` and its extent `m·s' = n·s`, and every other axis keeps
its origin and sampling. -/
theorem resampleNd_calibration (shape : List ℕ) (o s : List Rat) (pairs : List (ℕ × ℕ))
    (hnd : (pairs.map Prod.fst).Nodup) :
    (∀ p ∈ pairs, p.1 < o.length → p.1 < s.length → 0 < shape.getD p.1 0 → 0 < p.2 →
      (Dataset.resampleCalib shape o s pairs).1.getD p.1 0
          + ((p.2 : Rat) - 1) / 2 * (Dataset.resampleCalib shape o s pairs).2.getD p.1 0
        = o.getD p.1 0 + ((shape.getD p.1 0 : Rat) - 1) / 2 * s.getD p.1 0 ∧
      (p.2 : Rat) * (Dataset.resampleCalib shape o s pairs).2.getD p.1 0
        = (shape.getD p.1 0 : Rat) * s.getD p.1 0) ∧
    (∀ ax, (∀ p ∈ pairs, p.1 ≠ ax) →
      (Dataset.resampleCalib shape o s pairs).1.getD ax 0 = o.getD ax 0 ∧
      (Dataset.resampleCalib shape o s pairs).2.getD ax 0 = s.getD ax 0) := by
  constructor
  · intro p hp h1 h2 hn hm
    rw [Dataset.resampleCalib_eq]
    obtain ⟨e1, e2⟩ := Dataset.calibFold_mem shape o s pairs (o, s) hnd p hp h1 h2
    rw [e1, e2]
    exact ⟨resample_centre _ _ _ _, resample_extent _ _ _ _ hn hm⟩
  · intro ax h
    rw [Dataset.resampleCalib_eq]
    exact Dataset.calibFold_other shape o s ax pairs (o, s) h

/-- **N-D round trip on real arrays, exactly as the code runs it** (`isReal = true`: real part
after each inverse transform, rescales included): for a real array, distinct axes, every axis
enlarged or kept, and no Nyquist-frequency content in the lines of an enlarged axis at the
stage it is resampled (`RealUp`), up-sampling and resampling back returns the original
array; the up-sampled array itself is real (`resampleFold_real`). -/
theorem resampleNd_roundtrip_real (a : Arr (Cx ℝ)) (ha : WFArr a) (hr : IsRealArr a) (axes outs : List ℕ)
    (hnd : axes.Nodup) (hl : axes.length = outs.length) (hv : ∀ ax ∈ axes, ax < a.shape.length)
    (h : RealUp a (axes.zip outs)) :
    IsRealArr (resampleFold a (axes.zip outs)) ∧
    resampleNd (resampleNd a axes outs true) axes.reverse
      (axes.map fun ax => a.shape.getD ax 1).reverse true = a :=
  ⟨resampleFold_real _ a hr h, resampleNd_up_down_real a ha hr axes outs hnd hl hv h⟩

/-! ### the mean reducer, padding to a smaller shape -/

/-- **mean reducer**: `bin(..., reducer="mean")` returns every block sum divided by the block
volume `vol` (the product of the bin factors, as `Dataset.bin` passes it): the result is the
block-sum array of `bin_block` / `bin_total` with every entry divided by `vol`, i.e. element
`j` is `(Σ_block a) / vol` — counts over the covered region are preserved up to exactly that
factor. -/
theorem bin_mean (d : Dataset.Ds) (dat : List Dataset.Val) (hd : d.data = some dat) (facs : List ℕ) (vol : ℕ) :
    ∃ out, Dataset.binData d facs true vol = some out ∧
      out = (binNd (⟨d.shape, dat⟩ : Arr Dataset.Val) facs).data.map (·.divNat vol) ∧
      out.length = prod (binShape d.shape facs) ∧
      ∀ j, InBox (binShape d.shape facs) j →
        (⟨binShape d.shape facs, out⟩ : Arr Dataset.Val).get j
          = (((allIdx facs).map fun t => (⟨d.shape, dat⟩ : Arr Dataset.Val).get (binSrc j facs t)).sum).divNat vol := by
  refine ⟨_, by simp [Dataset.binData, hd], rfl, by simp [binNd, build_data_length], ?_⟩
  intro j hj
  have hb := (bin_block (⟨d.shape, dat⟩ : Arr Dataset.Val) facs).2 j hj
  rw [← hb]
  unfold Arr.get
  have hlt : ravel (binShape d.shape facs) j < (binNd (⟨d.shape, dat⟩ : Arr Dataset.Val) facs).data.length := by
    rw [show (binNd (⟨d.shape, dat⟩ : Arr Dataset.Val) facs).data.length = prod (binShape d.shape facs) from
      build_data_length _ _]
    exact ravel_lt hj
  simp [List.getD_eq_getElem?_getD, List.getElem?_map, binNd, build, allIdx_getElem?_ravel hj]

/-- **padding to an output shape that is not larger** (`out ≤ n` on an axis) pads nothing on
that axis: both widths are 0, so `pad` leaves such axes (and, if all are, the whole array)
unchanged. -/
theorem pad_smaller (out : Int) (n : ℕ) (h : out ≤ n) : padWidths out n = (0, 0) := by
  unfold padWidths
  simp only
  have h1 : (max 0 ((out - (n : Int)) / 2)).toNat = 0 := by omega
  have h2 : (max 0 ((out - (n : Int) + 1) / 2)).toNat = 0 := by omega
  rw [h1, h2]

/-! ### growth round 5: the real-input path in every direction, any padding mode, factor entry
point, histories of bin calls, the argument layer and histories with raising calls -/

/-- **N-D mean preservation as the code runs it on REAL arrays** (`isReal = true`: real part of the
inverse transform, then the rescale), for every direction — up, down (where the complex result is
not real: an unpaired Nyquist bin survives the crop) and mixed: the sum grows by exactly
`N_out/N_in` and the mean is preserved. -/
theorem resampleNd_mean_real (a : Arr (Cx ℝ)) (ha : WFArr a) (hr : IsRealArr a) (axes outs : List ℕ)
    (hnd : axes.Nodup) (hl : axes.length = outs.length) (h : PairsOk a.shape (axes.zip outs))
    (hv : ∀ ax ∈ axes, ax < a.shape.length) :
    total (resampleNd a axes outs true)
        = (((prod outs : ℕ) : ℂ) / ((prod (axes.map fun ax => a.shape.getD ax 1) : ℕ) : ℂ)) * total a ∧
    total (resampleNd a axes outs true) / ((prod (resampleNd a axes outs true).shape : ℕ) : ℂ)
        = total a / ((prod a.shape : ℕ) : ℂ) :=
  ⟨total_resampleNd_real a ha hr axes outs h, mean_resampleNd_real a ha hr axes outs hnd hl h hv⟩

/-- **N-D linearity on the real path**: `R(c·x + y) = c·R(x) + R(y)` for every REAL scalar `c`
(`c.im = 0`) and arrays of equal shape (real or not), any axes, any direction — the `.real` step
commutes with real linear combinations.  (Over complex scalars the law is `resampleNd_linear`, for
the path complex dtypes take: the dtype, not the values, selects the path.) -/
theorem resampleNd_linear_real (c : Cx ℝ) (hc : c.im = 0) (x y : Arr (Cx ℝ)) (axes outs : List ℕ)
    (hs : x.shape = y.shape) (hx : WFArr x) (hy : WFArr y) (h : PairsOk x.shape (axes.zip outs)) :
    resampleNd (linArr c x y) axes outs true
      = linArr c (resampleNd x axes outs true) (resampleNd y axes outs true) :=
  resampleNd_lin_real c hc x y axes outs hs hx hy h

/-- **N-D identity on the real path** when the shape is unchanged. -/
theorem resampleNd_identity_real (a : Arr (Cx ℝ)) (ha : WFArr a) (hr : IsRealArr a) (axes : List ℕ)
    (hv : ∀ ax ∈ axes, ax < a.shape.length) (hne : prod (axes.map fun ax => a.shape.getD ax 1) ≠ 0) :
    resampleNd a axes (axes.map fun ax => a.shape.getD ax 1) true = a := by
  rw [resampleNd_real_eq]
  · exact resampleNd_same a ha axes hv hne
  · rw [resampleFold_same a ha]
    · exact hr
    · intro p hp
      rw [List.zip_map_right] at hp
      simp only [List.mem_map] at hp
      obtain ⟨q, hq, rfl⟩ := hp
      have hq' := List.of_mem_zip hq
      have : q.1 = q.2 := by
        have := List.mem_iff_getElem.mp hq
        obtain ⟨i, hi, rfl⟩ := this
        simp
      exact ⟨hv _ hq'.1, by simp [this]⟩

/-- **pad in ANY mode, then crop the pad widths, returns the original array (N-D)**: whatever rule
fills the padding (`mode="constant"` with any `constant_values`, `"edge"`, `"wrap"`, `"reflect"`,
`"symmetric"`, a function — everything `Dataset.pad` hands on to `np.pad` through `**kwargs`), the
index expression `Dataset.crop` builds for `((before, -after), …)` is accepted and gives back the
original array, for every shape, width list and element type. -/
theorem pad_then_crop_any_mode {α : Type} [Inhabited α] (fill : List Nat → α) (a : Arr α) (w : List (Nat × Nat))
    (hw : w.length = a.shape.length) (ha : a.data.length = prod a.shape) :
    ∃ p, plan (padNdWith fill a w).shape (cropIxOfPad w) = .ok p ∧ applyPlan (padNdWith fill a w) p = a := by
  refine ⟨_, plan_crop_of_pad a.shape w hw, ?_⟩
  exact pad_crop_nd_with fill a w hw ha

/-- the modes that read the padding from the array (`edge`, `wrap`, `reflect`, `symmetric`, as
modelled by `padNdRule` and compared with `np.pad` on every run) are instances. -/
theorem pad_rule_then_crop {α : Type} [Inhabited α] (r : PadRule) (a : Arr α) (w : List (Nat × Nat))
    (hw : w.length = a.shape.length) (ha : a.data.length = prod a.shape) :
    ∃ p, plan (padNdRule r a w).shape (cropIxOfPad w) = .ok p ∧ applyPlan (padNdRule r a w) p = a :=
  pad_then_crop_any_mode _ a w hw ha

/-- **the `factors=` entry point preserves the extent exactly**: whatever factor is requested and
however `round(n·f)` falls (ties to even, clamped to 1), the realised length `m = max(1, round(n·f))`
is `≥ 1` and the new sampling satisfies `m·s' = n·s` — because the calibration uses the realised
ratio `m/n`, not the requested factor. -/
theorem resample_extent_factors (o s q : Rat) (n : Nat) (hn : 0 < n) :
    0 < (outLen n q).toNat ∧
    (((outLen n q).toNat : Nat) : Rat) * (resampleMeta o s n (outLen n q).toNat).2 = (n : Rat) * s := by
  have h1 : 1 ≤ outLen n q := by unfold outLen; omega
  have h2 : 0 < (outLen n q).toNat := by omega
  exact ⟨h2, resample_extent o s n _ hn h2⟩

/-- **block-centre coordinates over a HISTORY of bin calls**: after binning one axis by the
factors `fs` in turn (any number of calls, each factor `≥ 1`), the calibration is the one of a
single binning by the product `F = Π fs`, so pixel `j` sits at the mean coordinate of the `F`
original pixels it covers and the sampling is `F·s`. -/
theorem bin_history_coords (o s : Rat) (fs : List Nat) (hf : ∀ f ∈ fs, 0 < f) (j : Nat) :
    let c := fs.foldl (fun (p : Rat × Rat) f => binMeta p.1 p.2 f) (o, s)
    let F : Nat := fs.foldl (· * ·) 1
    c.2 = s * (F : Rat) ∧
    c.1 + (j : Rat) * c.2 = (∑ i ∈ Finset.range F, (o + (((j * F + i : Nat) : Rat)) * s)) / (F : Rat) := by
  intro c F
  have hc : c = binMeta o s F := binMeta_foldl fs o s
  have hF : 0 < F := by
    have gen : ∀ (l : List Nat) (k : Nat), 0 < k → (∀ f ∈ l, 0 < f) → 0 < l.foldl (· * ·) k := by
      intro l
      induction l with
      | nil => intro k hk _; exact hk
      | cons f t ih =>
        intro k hk h
        exact ih (k * f) (Nat.mul_pos hk (h f (by simp))) (fun g hg => h g (by simp [hg]))
    exact gen fs 1 Nat.one_pos hf
  rw [hc]
  exact bin_coords o s F hF j

/-- **a call that raises is a no-op on the object, over every history**: for any sequence of
`bin / crop / pad / fourier_resample` calls on one dataset, in any argument form, raising or not,
the final state is the state reached by running only the calls that returned normally (and running
those again, none of them raises). -/
theorem rejected_calls_are_noops (d : Dataset.Ds) (cs : List Call) :
    runObj d cs = runObj d (okCalls d cs) ∧ okCalls d (okCalls d cs) = okCalls d cs :=
  ⟨runObj_okCalls cs d, okCalls_none_raise cs d⟩

/-- one raising call leaves array and calibration as they were -/
theorem rejected_call_keeps_object (d : Dataset.Ds) (c : Call) (h : raises d c = true) : stepObj d c = d :=
  stepObj_of_raises h

/-- **the forms of the `axes` argument agree**: `a`, `float(a)`, `(a,)`, `[a]`, `(np.int64(a),)`,
`(float(a),)` select the same axis (or raise the same error), `None` selects all axes in order, and
a negative axis counts from the end. -/
theorem axes_forms_agree (nd : Nat) :
    (∀ a : Int,
      normalizeAxes nd (.sc (.float (a : Rat))) = normalizeAxes nd (.sc (.int a)) ∧
      normalizeAxes nd (.tuple [.int a]) = normalizeAxes nd (.sc (.int a)) ∧
      normalizeAxes nd (.list [.int a]) = normalizeAxes nd (.sc (.int a)) ∧
      normalizeAxes nd (.tuple [.npInt a]) = normalizeAxes nd (.sc (.int a)) ∧
      normalizeAxes nd (.tuple [.float (a : Rat)]) = normalizeAxes nd (.sc (.int a))) ∧
    normalizeAxes nd (.sc .none) = .ok (List.range nd) ∧
    (∀ a : Nat, a < nd → axisOf nd (.int ((a : Int) - nd)) = .ok a ∧ axisOf nd (.int a) = .ok a) :=
  ⟨fun a => normalizeAxes_scalar_forms nd a, rfl, fun a h => axisOf_negative nd a h⟩

/-- **the keyword defaults of `bin`**: `ds.bin(f)` is `ds.bin(f, axes=None, modify_in_place=False,
reducer="sum")`, i.e. the block SUM over ALL axes returned as a NEW dataset; the reducer name is
matched without regard to letter case. -/
theorem bin_defaults (d : Dataset.Ds) (f : Py) :
    callBin d { factors := f }
      = Dataset.bin d (facArgOf f) (.many ((List.range d.ndim).map Int.ofNat)) false false false ∧
    reducerOf (.str "SUM") = some false ∧ reducerOf (.str "Mean") = some true ∧
    reducerOf (.str "median") = none ∧ reducerOf .none = none := by
  refine ⟨?_, by with_unfolding_all rfl, by with_unfolding_all rfl, by with_unfolding_all rfl, rfl⟩
  have h : reducerOf (.str "sum") = some false := by with_unfolding_all rfl
  simp only [callBin, h, normalizeAxes, axesArg]

/-! ### non-vacuity -/

example : freqMap 4 7 = [some 0, some 1, none, none, none, some 2, some 3] := by decide
example : freqMap 7 4 = [some 0, some 1, some 5, some 6] := by decide
example : freqMap 6 3 = [some 0, some 1, some 5] := by decide
example : (freqMap 4 7)[5]? = some (some 2) ∧ fftfreqInt 4 2 = -2 ∧ fftfreqInt 7 5 = -2 := by decide
example : binShape [7, 5] [2, 3] = [3, 1] ∧ coveredShape [7, 5] [2, 3] = [6, 3] := by decide
example : InBox (binShape [7, 5] [2, 3]) [2, 0] ∧ InBox [2, 3] [1, 2] ∧ binSrc [2, 0] [2, 3] [1, 2] = [5, 2] := by
  simp [binShape, InBox, binSrc]
example : padWidths 8 5 = (1, 2) ∧ padWidths 3 5 = (0, 0) := by decide
example : (binNd (⟨[5], [1, 2, 3, 4, 5]⟩ : Arr Int) [2]).data = [3, 7] := by decide

-- hypotheses of the real round trip are satisfiable: an odd-length real signal, and an
-- even-length real signal whose Nyquist coefficient vanishes
example : IsRealList [(⟨1, 0⟩ : Cx ℝ), ⟨2, 0⟩, ⟨5, 0⟩] ∧ NoNyquist [(⟨1, 0⟩ : Cx ℝ), ⟨2, 0⟩, ⟨5, 0⟩] := by
  constructor
  · intro z hz; simp at hz; rcases hz with rfl | rfl | rfl <;> rfl
  · intro h; simp at h

example : NoNyquist [(⟨3, 0⟩ : Cx ℝ), ⟨3, 0⟩] := by
  intro _
  show toC ((dft [(⟨3, 0⟩ : Cx ℝ), ⟨3, 0⟩]).getD 1 Cx.zero) = 0
  rw [toC_dft_getD _ 1 (by simp)]
  have hz : zeta 2 = -1 := by
    unfold zeta
    rw [show (2 : ℂ) * (Real.pi : ℂ) * I / ((2 : ℕ) : ℂ) = (Real.pi : ℂ) * I by push_cast; ring]
    exact Complex.exp_pi_mul_I
  simp [Finset.sum_range_succ, hz, toC]

-- hypotheses of the N-D theorems are satisfiable
example : PairsOk [3, 4] ([0, 1].zip [5, 2]) ∧ UpOk [3, 4] [(1, 6), (0, 3)] ∧
    downPairs [3, 4] [(1, 6), (0, 3)] = [(0, 3), (1, 4)] := by
  simp [PairsOk, UpOk, downPairs]

-- growth round 5: hypotheses satisfiable / definitions compute
example : padAxisSrc .reflect 4 2 0 = 2 ∧ padAxisSrc .symmetric 4 2 0 = 1 ∧ padAxisSrc .edge 4 2 0 = 0 ∧
    padAxisSrc .wrap 4 2 0 = 2 ∧ padAxisSrc .reflect 1 3 0 = 0 := by decide
example : (padNdRule .edge (⟨[3], [1, 2, 3]⟩ : Arr Int) [(2, 1)]).data = [1, 1, 1, 2, 3, 3] := by decide
example : outLen 7 (1 / 2) = 4 ∧ outLen 5 (1 / 2) = 2 ∧ outLen 1 (1 / 4) = 1 :=
  ⟨by with_unfolding_all rfl, by with_unfolding_all rfl, by with_unfolding_all rfl⟩
example : [2, 3].foldl (fun (p : Rat × Rat) f => binMeta p.1 p.2 f) (0, 1) = binMeta 0 1 6 := by
  simp [binMeta]; norm_num
example : ∃ d : Dataset.Ds, ∃ c : Call, raises d c = true :=
  ⟨default, .bin { factors := .sc (.int 2), reducer := .str "median" }, by with_unfolding_all rfl⟩
example : normalizeAxes 3 (.tuple [.int (-1), .npInt 0]) = .ok [2, 0] := by decide
example : IsRealArr (⟨[2], [⟨1, 0⟩, ⟨2, 0⟩]⟩ : Arr (Cx ℝ)) := by
  intro z hz; simp at hz; rcases hz with rfl | rfl <;> rfl

end QuantemModel.Props.C06
