import QuantemModel.Props.C10
import QuantemModel.Model.ConstraintsExt2
/-!
C10 — growth round 6 (listed in `EXTRA_PROPS` of harness/props/c10.py).

* the three Gram–Schmidt clauses composed END TO END into one deterministic specification: the intensities of
  the modes handed out are the DESCENDING SORT of the raw mode intensities — whatever order (ascending, unsorted,
  tied) the optimiser left them in — and every PAIR of output modes (by index, any number of modes) is orthogonal;
* order independence: permuting the raw modes does not change the list of output intensities;
* the mode count is kept for EVERY stack (no hypothesis);
* the constrained read of the probe (`ProbeConstraints.apply_hard_constraints`, `orthogonalize_probe` on) as one
  admissibility statement;
* single-slice objects: `identical_slices` does nothing (`num_slices > 1` guard), so the pure-phase and the
  idempotence clauses hold there without the "slice tying off" hypothesis;
* a constrained read has no memory: the object model as a state machine (constraints / type / raw parameter /
  mask written between reads, reads under `torch.no_grad()` without an optimiser step) — every read returns
  `apply_hard_constraints` of the CURRENT state, for every history;
* `center_probe` (Model/ConstraintsExt2.lean, not modelled before): the per-mode Fourier shift is unitary, so with
  `center_probe` on the probe handed out still carries the descending sort of the raw mode intensities.
-/
namespace QuantemModel.Props.C10
open QuantemModel QuantemModel.Constraints

/-! ## Gram–Schmidt, end to end -/

/-- descending order on intensities, as a decidable relation for `mergeSort` -/
noncomputable def geB (a b : ℝ) : Bool := decide (b ≤ a)

/-- a list sorted in descending order that is a permutation of `l` IS the descending sort of `l` -/
theorem desc_sorted_perm_unique {l₁ l₂ : List ℝ} (h₁ : l₁.Pairwise (fun a b => b ≤ a))
    (h₂ : l₂.Pairwise (fun a b => b ≤ a)) (hp : l₁.Perm l₂) : l₁ = l₂ :=
  List.Perm.eq_of_pairwise (le := fun a b => b ≤ a) (fun _ _ _ _ hab hba => le_antisymm hba hab) h₁ h₂ hp

/-- the descending `mergeSort` of a list of reals is sorted and a permutation of the list -/
theorem sortDesc_spec (l : List ℝ) :
    (l.mergeSort geB).Pairwise (fun a b => b ≤ a) ∧ (l.mergeSort geB).Perm l := by
  refine ⟨?_, List.mergeSort_perm l geB⟩
  have h := List.pairwise_mergeSort (le := geB)
    (fun a b c hab hbc => by
      simp only [geB, decide_eq_true_eq] at *; exact le_trans hbc hab)
    (fun a b => by
      simp only [geB, Bool.or_eq_true, decide_eq_true_eq]
      rcases le_total a b with h | h
      · exact Or.inr h
      · exact Or.inl h)
    l
  exact h.imp (fun h => by simpa [geB] using h)

/-- **orthogonalisation, end to end**: the intensities of the modes returned by
`_probe_orthogonalization_constraint` are EXACTLY the descending sort of the raw mode intensities — the same
multiset, largest first — for any number of modes and whatever order (ascending, unsorted, with ties) the raw
intensities come in.  (Composition of `gs_intensities` and `gs_sorted`.) -/
theorem gs_intensities_eq_sorted (P : Nat) (vs : List (Vec ℝ)) (hlen : ∀ v ∈ vs, v.length = P)
    (hc : ClampInactive [] vs) :
    (gramSchmidt vs).map intensity = (vs.map intensity).mergeSort geB := by
  obtain ⟨hs, hp⟩ := sortDesc_spec (vs.map intensity)
  exact desc_sorted_perm_unique (gs_sorted vs) hs ((gs_intensities P vs hlen hc).trans hp.symm)

/-- **order independence**: two raw stacks that are permutations of each other (the optimiser may leave the
modes in any order) come back with the SAME list of intensities, position by position. -/
theorem gs_intensities_order_independent (P : Nat) (vs ws : List (Vec ℝ)) (hperm : vs.Perm ws)
    (hlen : ∀ v ∈ vs, v.length = P) (hc : ClampInactive [] vs) (hc' : ClampInactive [] ws) :
    (gramSchmidt vs).map intensity = (gramSchmidt ws).map intensity := by
  have hlen' : ∀ v ∈ ws, v.length = P := fun v hv => hlen v (hperm.symm.subset hv)
  apply desc_sorted_perm_unique (gs_sorted vs) (gs_sorted ws)
  exact (gs_intensities P vs hlen hc).trans ((hperm.map intensity).trans (gs_intensities P ws hlen' hc').symm)

/-- **the mode count is kept** — every stack, no hypothesis (clamp active or not). -/
theorem gs_length (vs : List (Vec ℝ)) : (gramSchmidt vs).length = vs.length := by
  unfold gramSchmidt
  rw [List.length_mergeSort]
  unfold gsUnsorted rescale
  rw [List.length_zipWith, orthoLoop_length]
  simp

/-- **every pair of output modes is orthogonal**, by index: for any number of modes, modes `i ≠ j` of the
result satisfy `torch.sum(p_i.conj() * p_j) = 0` (the first with the third as well as neighbours). -/
theorem gs_orthogonal_every_pair (P : Nat) (vs : List (Vec ℝ)) (hlen : ∀ v ∈ vs, v.length = P)
    (hc : ClampInactive [] vs) (i j : Nat) (hi : i < (gramSchmidt vs).length)
    (hj : j < (gramSchmidt vs).length) (hij : i ≠ j) :
    cdot (gramSchmidt vs)[i] (gramSchmidt vs)[j] = Cx.zero := by
  have h := List.pairwise_iff_getElem.mp (gs_orthogonal P vs hlen hc)
  rcases Nat.lt_or_gt_of_ne hij with hlt | hgt
  · exact (h i j hi hj hlt).1
  · exact (h j i hj hi hgt).2

/-- **the probe handed to the forward model** (`ProbeConstraints.apply_hard_constraints`, `orthogonalize_probe`
on, `center_probe` off) in one statement: as many modes as the raw stack, every pair orthogonal, intensities =
the descending sort of the raw intensities. -/
theorem probe_read_admissible (P : Nat) (vs : List (Vec ℝ)) (hlen : ∀ v ∈ vs, v.length = P)
    (hc : ClampInactive [] vs) :
    (probeApplyHard true vs).length = vs.length ∧
    (probeApplyHard true vs).Pairwise (fun p q => cdot p q = Cx.zero ∧ cdot q p = Cx.zero) ∧
    (probeApplyHard true vs).map intensity = (vs.map intensity).mergeSort geB := by
  rw [probe_apply_hard_on]
  exact ⟨gs_length vs, gs_orthogonal P vs hlen hc, gs_intensities_eq_sorted P vs hlen hc⟩

/-- non-vacuity: the two-mode stack of Props/C10.lean satisfies the hypotheses in EITHER order is not needed —
one order suffices to show they are satisfiable together with a non-trivial permutation (the identity on a
two-element list and its swap are both permutations). -/
example : ([[⟨1, 0⟩, ⟨0, 0⟩], [⟨1, 0⟩, ⟨1, 0⟩]] : List (Vec ℝ)).Perm [[⟨1, 0⟩, ⟨1, 0⟩], [⟨1, 0⟩, ⟨0, 0⟩]] :=
  List.Perm.swap _ _ _

/-- the descending sort on a literal list with a tie and ascending input -/
example : ([1, 2, 2, 5] : List ℝ).mergeSort geB = [5, 2, 2, 1] := by
  apply desc_sorted_perm_unique (sortDesc_spec _).1
  · simp only [List.pairwise_cons, List.mem_cons, List.not_mem_nil, or_false, forall_eq_or_imp, forall_eq,
      List.Pairwise.nil, and_true, IsEmpty.forall_iff, implies_true]
    norm_num
  · refine (sortDesc_spec _).2.trans ?_
    simpa using (List.reverse_perm ([1, 2, 2, 5] : List ℝ)).symm

/-! ## single-slice objects -/

/-- `identical_slices` does nothing to an object of at most one slice (`if self.num_slices > 1`) -/
theorem tieSlicesC_single (b : Bool) (obj2 : List (List (Cx ℝ))) (h : obj2.length ≤ 1) :
    tieSlicesC b obj2 = obj2 := by
  unfold tieSlicesC
  have : ¬ (1 < obj2.length) := by omega
  simp [this]

theorem mapMasked_length_le {α β : Type} (f : Option ℝ → α → β) (mask : Option (List (List ℝ)))
    (obj : List (List α)) : (mapMasked f mask obj).length ≤ obj.length := by
  unfold mapMasked
  cases mask with
  | none => simp
  | some m => simp only [List.length_zipWith]; omega

/-- **pure-phase, single slice: amplitude exactly one whatever `identical_slices` says** (drops the
"slice tying off" hypothesis of `purephase_amp_eq_one` where the code's `num_slices > 1` guard makes it moot). -/
theorem purephase_amp_eq_one_single_slice (c : ObjCons ℝ) (mask : Option (List (List ℝ)))
    (obj : List (List (Cx ℝ))) (hS : obj.length ≤ 1) :
    ∀ row ∈ applyHardCx .purePhase c mask obj, ∀ z ∈ row, Cx.abs z = 1 := by
  have h := purephase_amp_eq_one { c with identicalSlices := false } mask obj rfl
  have e : applyHardCx .purePhase c mask obj
      = applyHardCx .purePhase { c with identicalSlices := false } mask obj := by
    rw [applyHardCx_eq, applyHardCx_eq]
    rw [tieSlicesC_single _ _ (le_trans (mapMasked_length_le _ _ _) hS),
        tieSlicesC_single _ _ (le_trans (mapMasked_length_le _ _ _) hS)]
  rw [e]; exact h

/-- **amplitude idempotence, single slice, whatever `identical_slices` says** -/
theorem amp_idempotent_single_slice (t : CxType) (c : ObjCons ℝ) (mask : Option (List (List ℝ)))
    (obj : List (List (Cx ℝ))) (hS : obj.length ≤ 1)
    (hmask : t = .purePhase ∨ MaskAll (fun x => x = 0 ∨ x = 1) (effMask c.applyFovMask mask)) :
    ampArr (applyHardCx t c mask (applyHardCx t c mask obj)) = ampArr (applyHardCx t c mask obj) := by
  have e : ∀ o : List (List (Cx ℝ)), o.length ≤ 1 → applyHardCx t c mask o
      = applyHardCx t { c with identicalSlices := false } mask o := by
    intro o ho
    rw [applyHardCx_eq, applyHardCx_eq]
    rw [tieSlicesC_single _ _ (le_trans (mapMasked_length_le _ _ _) ho),
        tieSlicesC_single _ _ (le_trans (mapMasked_length_le _ _ _) ho)]
  have h1 : (applyHardCx t { c with identicalSlices := false } mask obj).length ≤ 1 := by
    rw [applyHardCx_eq]
    simp only [tieSlicesC, Bool.and_false, Bool.false_eq_true, if_false]
    exact le_trans (mapMasked_length_le _ _ _) hS
  rw [e obj hS, e _ h1]
  exact amp_idempotent t { c with identicalSlices := false } mask obj rfl hmask

example : ([[⟨3, 4⟩, ⟨0, 0⟩]] : List (List (Cx ℝ))).length ≤ 1 := by simp

/-! ## a constrained read has no memory

`ObjectPixelated.obj` is `apply_hard_constraints(self._obj, mask=self.mask)` evaluated on every access; the
state it reads is written by the `constraints` setter / `add_constraint`, the `obj_type` setter, the optimiser
(or `reset()` / assignment: the raw parameter) and the `mask` setter.  The model keeps that state and lets a
read return the constrained object; reads do not write. -/

structure ObjState where
  t : CxType
  cons : ObjCons ℝ
  mask : Option (List (List ℝ))
  raw : List (List (Cx ℝ))

inductive ObjOp where
  /-- `m.constraints = {...}` / `add_constraint` (already resolved to the entries the hard constraints read) -/
  | setCons : ObjCons ℝ → ObjOp
  /-- `m.obj_type = t` -/
  | setType : CxType → ObjOp
  /-- an optimiser step / `reset()` / `_initialize_obj` : the raw parameter changes -/
  | setRaw : List (List (Cx ℝ)) → ObjOp
  /-- `m.mask = mask` -/
  | setMask : Option (List (List ℝ)) → ObjOp
  /-- `m.obj` (under `torch.no_grad()`): no write -/
  | read : ObjOp

/-- one operation: new state and, for a read, the object handed out -/
noncomputable def objStep (s : ObjState) : ObjOp → ObjState × Option (List (List (Cx ℝ)))
  | .setCons c => ({ s with cons := c }, none)
  | .setType t => ({ s with t := t }, none)
  | .setRaw r => ({ s with raw := r }, none)
  | .setMask m => ({ s with mask := m }, none)
  | .read => (s, some (applyHardCx s.t s.cons s.mask s.raw))

noncomputable def runObj (s : ObjState) (ops : List ObjOp) : ObjState := ops.foldl (fun st op => (objStep st op).1) s

/-- the history with its reads removed -/
def dropReads : List ObjOp → List ObjOp
  | [] => []
  | .read :: rest => dropReads rest
  | op :: rest => op :: dropReads rest

/-- **reads do not write**: the state after any history is the state after the same history without its reads -/
theorem reads_do_not_write (ops : List ObjOp) : ∀ s : ObjState, runObj s ops = runObj s (dropReads ops) := by
  induction ops with
  | nil => intro s; rfl
  | cons op rest ih =>
    intro s
    cases op <;> simp only [runObj, List.foldl_cons, dropReads, objStep] <;> exact ih _

/-- **a read after ANY history returns the constraint of the CURRENT configuration** — the one reached by the
writes alone; earlier reads (under whatever configuration was current then) leave no trace.  In particular
read, reconfigure / retype, read again without an optimiser step gives the object of the NEW configuration. -/
theorem read_has_no_memory (s : ObjState) (ops : List ObjOp) :
    (objStep (runObj s ops) .read).2 =
      some (applyHardCx (runObj s (dropReads ops)).t (runObj s (dropReads ops)).cons
              (runObj s (dropReads ops)).mask (runObj s (dropReads ops)).raw) := by
  rw [reads_do_not_write]; rfl

/-- **… and is admissible for the current type**: after any history ending in a switch to `complex` (mask values
in [0,1]) the object read has amplitude at most one; ending in a switch to `pure_phase` with slice tying off it
has amplitude exactly one — whatever was read before the switch. -/
theorem read_after_retype_admissible (s : ObjState) (ops : List ObjOp) :
    (∀ o, (objStep (runObj s (ops ++ [.setType .complex])) .read).2 = some o →
      MaskAll (fun x => 0 ≤ x ∧ x ≤ 1)
        (effMask (runObj s (ops ++ [.setType .complex])).cons.applyFovMask (runObj s (ops ++ [.setType .complex])).mask) →
      ∀ row ∈ o, ∀ z ∈ row, Cx.abs z ≤ 1) ∧
    (∀ o, (objStep (runObj s (ops ++ [.setType .purePhase])) .read).2 = some o →
      (runObj s (ops ++ [.setType .purePhase])).cons.identicalSlices = false →
      ∀ row ∈ o, ∀ z ∈ row, Cx.abs z = 1) := by
  have ht : ∀ t, (runObj s (ops ++ [.setType t])).t = t := by
    intro t; simp [runObj, List.foldl_append, objStep]
  constructor
  · intro o ho hm
    simp only [objStep, Option.some.injEq] at ho
    subst ho
    rw [ht]
    exact complex_amp_le_one _ _ _ hm
  · intro o ho hid
    simp only [objStep, Option.some.injEq] at ho
    subst ho
    rw [ht]
    exact purephase_amp_eq_one _ _ _ hid

/-- non-vacuity: read, retype, read — the second read is the pure-phase object of the same raw parameter -/
example (s : ObjState) :
    (objStep (runObj s [.read, .setType .purePhase, .read]) .read).2
      = some (applyHardCx .purePhase s.cons s.mask s.raw) := by
  rw [read_has_no_memory]; rfl

/-! ## `center_probe`: the centre-of-mass recentring keeps every mode intensity

`_probe_center_of_mass_constraint` Fourier-shifts every mode by its own centre-of-mass offset
(Model/ConstraintsExt2.lean: `comShift`, `centerMode`, through `PtychoOps.fourierShift`).  The phase ramp has unit
modulus, so by Parseval (both directions, Lemmas/PtychoOpsForward.lean: `energy_propagate`) the real-space intensity
of every mode is unchanged, whatever the offset (any sign, any size, `H > W` or `H < W`).  NOT claimed (and false
in general, measured by the harness): that modes shifted by DIFFERENT offsets stay orthogonal. -/

/-- the Fourier shift of `ptycho_utils.fourier_shift_expand` keeps `Σ|x|²`, for every (real) shift -/
theorem energy_fourierShift {nr nc : ℕ} (hr : 0 < nr) (hc : 0 < nc) {x : Img ℝ} (hx : PtychoOps.Rect nr nc x)
    (r c : ℝ) : PtychoOps.energy (PtychoOps.fourierShift x r c) = PtychoOps.energy x := by
  have hn : PtychoOps.nrows x = nr := hx.1
  have hcn : PtychoOps.ncols x = nc := by
    obtain ⟨g, rfl⟩ := hx.cx_build
    exact PtychoOps.ncols_build hr nc g
  unfold PtychoOps.fourierShift
  rw [hn, hcn, PtychoOps.translationOperator_eq]
  have hu : PtychoOps.UnitModulus
      (PtychoOps.build nr nc (fun k l => PtychoOps.rampC nr r k * PtychoOps.rampC nc c l)) := by
    rw [PtychoOps.unitModulus_build]
    intro k _ l _
    rw [PtychoOps.abs2_mul, PtychoOps.abs2_rampC, PtychoOps.abs2_rampC]; norm_num
  exact PtychoOps.energy_propagate hr hc hx (PtychoOps.rect_build _ _ _) hu

/-- **centring keeps the intensity of a mode** (any non-empty `nr × nc` image, rows and columns in either role) -/
theorem center_keeps_mode_intensity {nr nc : Nat} (p : Img ℝ) (h : RectImg nr nc p) :
    energy (centerMode p) = energy p := by
  obtain ⟨hr, hc, hlen, hrows⟩ := h
  rw [energy_eq_ptycho, energy_eq_ptycho]
  exact energy_fourierShift hr hc ⟨hlen, hrows⟩ _ _

/-- **… of every mode of the stack, in place**: the list of mode intensities is unchanged by `center_probe`, so
the multiset AND the descending order established by the orthogonalisation survive it. -/
theorem center_probe_keeps_intensities (ps : List (Img ℝ)) (h : ∀ p ∈ ps, ∃ nr nc, RectImg nr nc p) :
    (centerProbe ps).map energy = ps.map energy := by
  unfold centerProbe
  rw [List.map_map]
  apply List.map_congr_left
  intro p hp
  obtain ⟨nr, nc, h'⟩ := h p hp
  exact center_keeps_mode_intensity p h'

theorem toImg_spec (w : Nat) : ∀ (h : Nat) (v : List (Cx ℝ)), v.length = h * w →
    (toImg w v h).length = h ∧ (∀ row ∈ toImg w v h, row.length = w) ∧ (toImg w v h).flatten = v := by
  intro h
  induction h with
  | zero =>
    intro v hv
    have : v = [] := List.length_eq_zero_iff.mp (by simpa using hv)
    subst this
    simp [toImg]
  | succ h ih =>
    intro v hv
    have hd : (v.drop w).length = h * w := by
      rw [List.length_drop, hv, Nat.succ_mul]; omega
    obtain ⟨h1, h2, h3⟩ := ih (v.drop w) hd
    have hw : w ≤ v.length := by rw [hv, Nat.succ_mul]; omega
    refine ⟨by simp [toImg, h1], ?_, ?_⟩
    · intro row hrow
      simp only [toImg, List.mem_cons] at hrow
      rcases hrow with rfl | hrow
      · simp [List.length_take, hw]
      · exact h2 row hrow
    · simp only [toImg, List.flatten_cons, h3, List.take_append_drop]

theorem length_flatten_rect {nr nc : Nat} (p : Img ℝ) (hlen : p.length = nr) (hrows : ∀ row ∈ p, row.length = nc) :
    p.flatten.length = nr * nc := by
  subst hlen
  induction p with
  | nil => simp
  | cons r rs ih =>
    have := ih (fun row hrow => hrows row (by simp [hrow]))
    simp only [List.flatten_cons, List.length_append, List.length_cons, this, hrows r (by simp), Nat.succ_mul]
    omega

/-- every mode returned by the orthogonalisation has the pixel count of the input modes -/
theorem gs_mode_length (P : Nat) (vs : List (Vec ℝ)) (hlen : ∀ v ∈ vs, v.length = P) (hc : ClampInactive [] vs) :
    ∀ q ∈ gramSchmidt vs, q.length = P := by
  intro q hq
  unfold gramSchmidt at hq
  rw [(List.mergeSort_perm _ _).mem_iff] at hq
  unfold gsUnsorted rescale at hq
  obtain ⟨a, ha, n, _, rfl⟩ := mem_zipWith_imp _ _ _ _ hq
  rw [List.length_map]
  exact (orthoLoop_orthoNormal P vs [] (OrthoNormal.nil P) hlen hc).len a ha

/-- **the probe handed to the forward model, `center_probe` on OR off** (`orthogonalize_probe` on): for every stack
of `H × W` modes (either of `H`, `W` the larger) the mode intensities are exactly the descending sort of the raw
mode intensities — same multiset, largest first. -/
theorem probe_read_centered_intensities (H W : Nat) (hH : 0 < H) (hW : 0 < W) (ps : List (Img ℝ))
    (hne : ps ≠ []) (hrect : ∀ p ∈ ps, RectImg H W p) (hc : ClampInactive [] (ps.map ofImg)) (center : Bool) :
    (probeApplyHard2 true center ps).map energy = (ps.map energy).mergeSort geB := by
  have hP : ∀ v ∈ ps.map ofImg, v.length = H * W := by
    intro v hv
    simp only [List.mem_map] at hv
    obtain ⟨p, hp, rfl⟩ := hv
    obtain ⟨_, _, hl, hr⟩ := hrect p hp
    exact length_flatten_rect p hl hr
  obtain ⟨p0, rest, rfl⟩ := List.exists_cons_of_ne_nil hne
  obtain ⟨_, _, hl0, hr0⟩ := hrect p0 (by simp)
  have hn0 : PtychoOps.nrows p0 = H := hl0
  have hc0 : PtychoOps.ncols p0 = W := by
    unfold PtychoOps.ncols
    cases p0 with
    | nil => simp at hl0; omega
    | cons r rs => simpa using hr0 r (by simp)
  have hsorted := gs_intensities_eq_sorted (H * W) _ hP hc
  have hE : ((p0 :: rest).map ofImg).map intensity = (p0 :: rest).map energy := by
    rw [List.map_map]; rfl
  rw [hE] at hsorted
  have hq := gs_mode_length (H * W) _ hP hc
  have h1 : ((gramSchmidt ((p0 :: rest).map ofImg)).map (toImg W · H)).map energy
      = (gramSchmidt ((p0 :: rest).map ofImg)).map intensity := by
    rw [List.map_map]
    apply List.map_congr_left
    intro q hq'
    show intensity (ofImg (toImg W q H)) = intensity q
    unfold ofImg
    rw [(toImg_spec W H q (hq q hq')).2.2]
  have hrect1 : ∀ p ∈ (gramSchmidt ((p0 :: rest).map ofImg)).map (toImg W · H), ∃ nr nc, RectImg nr nc p := by
    intro p hp
    simp only [List.mem_map] at hp
    obtain ⟨q, hq', rfl⟩ := hp
    obtain ⟨a, b, _⟩ := toImg_spec W H q (hq q hq')
    exact ⟨H, W, hH, hW, a, b⟩
  unfold probeApplyHard2
  simp only [List.headD_cons, hn0, hc0, if_true]
  cases center with
  | false => simp only [Bool.false_eq_true, if_false]; rw [h1, hsorted]
  | true => simp only [if_true]; rw [center_probe_keeps_intensities _ hrect1, h1, hsorted]

/-- non-vacuity: a 1×2 and a 2×1 image are both admissible shapes -/
example : RectImg 1 2 ([[⟨1, 0⟩, ⟨0, 2⟩]] : Img ℝ) ∧ RectImg 2 1 ([[⟨1, 0⟩], [⟨0, 2⟩]] : Img ℝ) := by
  refine ⟨⟨by norm_num, by norm_num, rfl, by simp⟩, ⟨by norm_num, by norm_num, rfl, ?_⟩⟩
  intro row hrow
  simp only [List.mem_cons, List.not_mem_nil, or_false] at hrow
  rcases hrow with rfl | rfl <;> rfl

end QuantemModel.Props.C10
