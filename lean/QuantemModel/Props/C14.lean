import QuantemModel.Props.C01
import QuantemModel.Lemmas.SerializeInd
import QuantemModel.Lemmas.SerializeSkipExt
/-!
C14 — serializer skip lists, for the executable model of serialize.py.
Only property theorems and non-vacuity examples live here.
-/
namespace QuantemModel.Props.C14
open QuantemModel.Serialize QuantemModel.Props.C01

def isObj : Val → Bool
  | .obj .. => true
  | _ => false

/-- the decoder of a non-object attribute never looks at the skip lists -/
theorem decodeAttr_skip_irrelevant (sk : Skip) (v : Val) (h : isObj v = false) :
    decodeAttr sk (encode {} v) = decodeAttr {} (encode {} v) := by
  cases v with
  | obj c a => simp [isObj] at h
  | ndarray dt sh d =>
      simp only [encode, writeNdarray]
      split
      · simp [decodeAttr]
      · split <;> simp [decodeAttr]
  | list xs => simp only [encode, encodeSeq]; split <;> simp [decodeAttr]
  | tuple xs => simp only [encode, encodeSeq]; split <;> simp [decodeAttr]
  | set xs =>
      simp only [encode, encodeSeq]
      by_cases hf : (xs.all isNumeric && !xs.isEmpty) = true <;> simp [hf, decodeAttr]
  | scalar s => simp [encode, decodeAttr]
  | npScalar dt s => simp [encode, decodeAttr]
  | path p => simp [encode, decodeAttr]
  | torch k c t => cases k <;> simp [encode, decodeAttr, torchFlag, ftrue, fget]
  | fallback c t => simp [encode, decodeAttr]
  | rawBytes p => cases p; simp [encode, decodeAttr]
  | npRng b => simp [encode, decodeAttr, ftrue, fget]
  | torchRng => simp [encode, decodeAttr, ftrue, fget]
  | pyLogger n l => simp [encode, decodeAttr, ftrue, fget]
  | dict kvs => simp [encode, decodeAttr, ftrue, fget]

theorem nonobj_facts (ns : List String) (v : Val) (h : isObj v = false) :
    attrNested v = noObj v ∧ stripA ns v = v := by
  cases v <;> simp [isObj] at h <;> simp [attrNested, stripA]

private theorem step_nonobj (ns : List String) (k : String) (v : Val) (rest : List (String × Val))
    (hno : isObj v = false) (hw : wfA v = true)
    (ih : decodeAttrs ⟨ns, []⟩ (encodeAttrs {} rest) = .ok (canonKvs (stripAttrs ns rest))) :
    decodeAttrs ⟨ns, []⟩ (encodeAttrs {} ((k, v) :: rest)) = .ok (canonKvs (stripAttrs ns ((k, v) :: rest))) := by
  have hs := (nonobj_facts ns v hno).2
  by_cases hk : k ∈ ns
  · simp [encodeAttrs, decodeAttrs, stripAttrs, hk, ih]
  · simp [encodeAttrs, decodeAttrs, stripAttrs, hk, ih, decodeAttr_skip_irrelevant _ v hno,
      roundtrip_attr v hw, canonKvs, hs, bind, Except.bind, nsOf_encode]

/-- **skipping by name at load time** removes exactly the named attributes at every
attribute-nested object level and loads everything else as without skipping -/
theorem decode_skip_names (ns : List String) : ∀ (attrs : List (String × Val)),
    wfAttrs attrs = true → attrNestedAttrs attrs = true →
    decodeAttrs ⟨ns, []⟩ (encodeAttrs {} attrs) = .ok (canonKvs (stripAttrs ns attrs))
  | [], _, _ => by simp [encodeAttrs, decodeAttrs, stripAttrs, canonKvs]
  | (k, .obj cls sub) :: rest, hw, ha => by
      have hw' : wfAttrs sub = true ∧ wfAttrs rest = true := by simpa [wfAttrs, wfA] using hw
      have ha' : attrNestedAttrs sub = true ∧ attrNestedAttrs rest = true := by
        simpa [attrNestedAttrs, attrNested] using ha
      have ih1 := decode_skip_names ns sub hw'.1 ha'.1
      have ih2 := decode_skip_names ns rest hw'.2 ha'.2
      by_cases hk : k ∈ ns
      · simp [encodeAttrs, decodeAttrs, stripAttrs, hk, ih2]
      · simp [encodeAttrs, decodeAttrs, stripAttrs, hk, ih2, encode, decodeAttr, ftrue, fget, ih1,
          canonKvs, stripA, canon, nsOf, nsVal, bind, Except.bind, dropTypes, filter_true_eq]
  | (k, .scalar s) :: rest, hw, ha =>
      step_nonobj ns k _ rest rfl (by simp [wfA]) (decode_skip_names ns rest (by simpa [wfAttrs, wfA] using hw) (by simpa [attrNestedAttrs, attrNested, noObj] using ha))
  | (k, .npScalar dt s) :: rest, hw, ha =>
      step_nonobj ns k _ rest rfl (by simp [wfA]) (decode_skip_names ns rest (by simpa [wfAttrs, wfA] using hw) (by simpa [attrNestedAttrs, attrNested, noObj] using ha))
  | (k, .path p) :: rest, hw, ha =>
      step_nonobj ns k _ rest rfl (by simp [wfA]) (decode_skip_names ns rest (by simpa [wfAttrs, wfA] using hw) (by simpa [attrNestedAttrs, attrNested, noObj] using ha))
  | (k, .ndarray dt sh d) :: rest, hw, ha =>
      have h' : wfA (.ndarray dt sh d) = true ∧ wfAttrs rest = true := by simpa [wfAttrs] using hw
      step_nonobj ns k _ rest rfl h'.1 (decode_skip_names ns rest h'.2 (by simpa [attrNestedAttrs, attrNested, noObj] using ha))
  | (k, .torch tk c t) :: rest, hw, ha =>
      step_nonobj ns k _ rest rfl (by simp [wfA]) (decode_skip_names ns rest (by simpa [wfAttrs, wfA] using hw) (by simpa [attrNestedAttrs, attrNested, noObj] using ha))
  | (k, .fallback c t) :: rest, hw, ha =>
      step_nonobj ns k _ rest rfl (by simp [wfA]) (decode_skip_names ns rest (by simpa [wfAttrs, wfA] using hw) (by simpa [attrNestedAttrs, attrNested, noObj] using ha))
  | (k, .rawBytes p) :: rest, hw, ha =>
      step_nonobj ns k _ rest rfl (by simp [wfA]) (decode_skip_names ns rest (by simpa [wfAttrs, wfA] using hw) (by simpa [attrNestedAttrs, attrNested, noObj] using ha))
  | (k, .npRng b) :: rest, hw, ha =>
      step_nonobj ns k _ rest rfl (by simp [wfA]) (decode_skip_names ns rest (by simpa [wfAttrs, wfA] using hw) (by simpa [attrNestedAttrs, attrNested, noObj] using ha))
  | (k, .torchRng) :: rest, hw, ha =>
      step_nonobj ns k _ rest rfl (by simp [wfA]) (decode_skip_names ns rest (by simpa [wfAttrs, wfA] using hw) (by simpa [attrNestedAttrs, attrNested, noObj] using ha))
  | (k, .pyLogger n l) :: rest, hw, ha =>
      step_nonobj ns k _ rest rfl (by simp [wfA]) (decode_skip_names ns rest (by simpa [wfAttrs, wfA] using hw) (by simpa [attrNestedAttrs, attrNested, noObj] using ha))
  | (k, .list xs) :: rest, hw, ha =>
      have h' : wfA (.list xs) = true ∧ wfAttrs rest = true := by simpa [wfAttrs] using hw
      have a' : attrNested (.list xs) = true ∧ attrNestedAttrs rest = true := by simpa [attrNestedAttrs] using ha
      step_nonobj ns k _ rest rfl h'.1 (decode_skip_names ns rest h'.2 a'.2)
  | (k, .tuple xs) :: rest, hw, ha =>
      have h' : wfA (.tuple xs) = true ∧ wfAttrs rest = true := by simpa [wfAttrs] using hw
      have a' : attrNested (.tuple xs) = true ∧ attrNestedAttrs rest = true := by simpa [attrNestedAttrs] using ha
      step_nonobj ns k _ rest rfl h'.1 (decode_skip_names ns rest h'.2 a'.2)
  | (k, .set xs) :: rest, hw, ha =>
      have h' : wfA (.set xs) = true ∧ wfAttrs rest = true := by simpa [wfAttrs] using hw
      have a' : attrNested (.set xs) = true ∧ attrNestedAttrs rest = true := by simpa [attrNestedAttrs] using ha
      step_nonobj ns k _ rest rfl h'.1 (decode_skip_names ns rest h'.2 a'.2)
  | (k, .dict kvs) :: rest, hw, ha =>
      have h' : wfA (.dict kvs) = true ∧ wfAttrs rest = true := by simpa [wfAttrs] using hw
      have a' : attrNested (.dict kvs) = true ∧ attrNestedAttrs rest = true := by simpa [attrNestedAttrs] using ha
      step_nonobj ns k _ rest rfl h'.1 (decode_skip_names ns rest h'.2 a'.2)

/-- induction over attribute lists that descends into attribute-nested objects -/
theorem attrs_induction (P : List (String × Val) → Prop) (hnil : P [])
    (hobj : ∀ k cls sub rest, P sub → P rest → P ((k, .obj cls sub) :: rest))
    (hother : ∀ k v rest, isObj v = false → P rest → P ((k, v) :: rest)) :
    ∀ attrs, P attrs
  | [] => hnil
  | (k, .obj cls sub) :: rest =>
      hobj k cls sub rest (attrs_induction P hnil hobj hother sub) (attrs_induction P hnil hobj hother rest)
  | (k, .scalar s) :: rest => hother k _ rest rfl (attrs_induction P hnil hobj hother rest)
  | (k, .npScalar dt s) :: rest => hother k _ rest rfl (attrs_induction P hnil hobj hother rest)
  | (k, .path p) :: rest => hother k _ rest rfl (attrs_induction P hnil hobj hother rest)
  | (k, .ndarray dt sh d) :: rest => hother k _ rest rfl (attrs_induction P hnil hobj hother rest)
  | (k, .torch tk c t) :: rest => hother k _ rest rfl (attrs_induction P hnil hobj hother rest)
  | (k, .fallback c t) :: rest => hother k _ rest rfl (attrs_induction P hnil hobj hother rest)
  | (k, .rawBytes p) :: rest => hother k _ rest rfl (attrs_induction P hnil hobj hother rest)
  | (k, .npRng b) :: rest => hother k _ rest rfl (attrs_induction P hnil hobj hother rest)
  | (k, .torchRng) :: rest => hother k _ rest rfl (attrs_induction P hnil hobj hother rest)
  | (k, .pyLogger n l) :: rest => hother k _ rest rfl (attrs_induction P hnil hobj hother rest)
  | (k, .list xs) :: rest => hother k _ rest rfl (attrs_induction P hnil hobj hother rest)
  | (k, .tuple xs) :: rest => hother k _ rest rfl (attrs_induction P hnil hobj hother rest)
  | (k, .set xs) :: rest => hother k _ rest rfl (attrs_induction P hnil hobj hother rest)
  | (k, .dict kvs) :: rest => hother k _ rest rfl (attrs_induction P hnil hobj hother rest)

theorem encode_noObj (sk : Skip) :
    (∀ v, noObj v = true → encode sk v = encode {} v) ∧
    (∀ xs, noObjList xs = true → encodeItems sk xs = encodeItems {} xs) ∧
    (∀ kvs, noObjKvs kvs = true → encodeKids sk kvs = encodeKids {} kvs) := by
  apply vals_induction
  · intro v hv _
    cases v <;> simp at hv <;> simp [encode]
  · intro xs ih h
    have := ih (by simpa [noObj] using h)
    simp [encode, encodeSeq, this]
  · intro xs ih h
    have := ih (by simpa [noObj] using h)
    simp [encode, encodeSeq, this]
  · intro xs ih h
    have := ih (by simpa [noObj] using h)
    simp [encode, encodeSeq, this]
  · intro kvs ih h
    have := ih (by simpa [noObj] using h)
    simp [encode, this]
  · intro cls kvs _ h
    simp [noObj] at h
  · intro _; simp [encodeItems]
  · intro v xs ihv ihs h
    have h' : noObj v = true ∧ noObjList xs = true := by simpa [noObjList] using h
    simp [encodeItems, ihv h'.1, ihs h'.2]
  · intro _; simp [encodeKids]
  · intro k v kvs ihv ihs h
    have h' : noObj v = true ∧ noObjKvs kvs = true := by simpa [noObjKvs] using h
    simp [encodeKids, ihv h'.1, ihs h'.2]

/-- skipping names at save time writes exactly the tree of the stripped graph -/
theorem encodeAttrs_skip_names (ns : List String) : ∀ attrs, attrNestedAttrs attrs = true →
    encodeAttrs ⟨ns, []⟩ attrs = encodeAttrs {} (stripAttrs ns attrs) := by
  apply attrs_induction
  · intro _; simp [encodeAttrs, stripAttrs]
  · intro k cls sub rest ih1 ih2 h
    have h' : attrNestedAttrs sub = true ∧ attrNestedAttrs rest = true := by
      simpa [attrNestedAttrs, attrNested] using h
    by_cases hk : k ∈ ns
    · simp [encodeAttrs, stripAttrs, hk, ih2 h'.2]
    · simp [encodeAttrs, stripAttrs, hk, ih2 h'.2, encode, ih1 h'.1, stripA]
  · intro k v rest hno ih h
    have hf := nonobj_facts ns v hno
    have h' : noObj v = true ∧ attrNestedAttrs rest = true := by
      rw [← hf.1]; simpa [attrNestedAttrs] using h
    by_cases hk : k ∈ ns
    · simp [encodeAttrs, stripAttrs, hk, ih h'.2]
    · simp [encodeAttrs, stripAttrs, hk, ih h'.2, hf.2, (encode_noObj ⟨ns, []⟩).1 v h'.1]

theorem wf_strip (ns : List String) : ∀ attrs, wfAttrs attrs = true → wfAttrs (stripAttrs ns attrs) = true := by
  apply attrs_induction
  · intro _; simp [stripAttrs, wfAttrs]
  · intro k cls sub rest ih1 ih2 h
    have h' : wfAttrs sub = true ∧ wfAttrs rest = true := by simpa [wfAttrs, wfA] using h
    by_cases hk : k ∈ ns <;> simp [stripAttrs, hk, wfAttrs, wfA, stripA, ih1 h'.1, ih2 h'.2]
  · intro k v rest hno ih h
    have h' : wfA v = true ∧ wfAttrs rest = true := by simpa [wfAttrs] using h
    by_cases hk : k ∈ ns <;> simp [stripAttrs, hk, wfAttrs, (nonobj_facts ns v hno).2, h'.1, ih h'.2]

theorem attrNested_strip (ns : List String) : ∀ attrs, attrNestedAttrs attrs = true →
    attrNestedAttrs (stripAttrs ns attrs) = true := by
  apply attrs_induction
  · intro _; simp [stripAttrs, attrNestedAttrs]
  · intro k cls sub rest ih1 ih2 h
    have h' : attrNestedAttrs sub = true ∧ attrNestedAttrs rest = true := by
      simpa [attrNestedAttrs, attrNested] using h
    by_cases hk : k ∈ ns <;> simp [stripAttrs, hk, attrNestedAttrs, attrNested, stripA, ih1 h'.1, ih2 h'.2]
  · intro k v rest hno ih h
    have h' : attrNested v = true ∧ attrNestedAttrs rest = true := by simpa [attrNestedAttrs] using h
    by_cases hk : k ∈ ns <;> simp [stripAttrs, hk, attrNestedAttrs, (nonobj_facts ns v hno).2, h'.1, ih h'.2]

/-- skipping the same names twice changes nothing more (absent names are no-ops) -/
theorem strip_idempotent (ns : List String) : ∀ attrs, stripAttrs ns (stripAttrs ns attrs) = stripAttrs ns attrs := by
  apply attrs_induction
  · simp [stripAttrs]
  · intro k cls sub rest ih1 ih2
    by_cases hk : k ∈ ns <;> simp [stripAttrs, hk, stripA, ih1, ih2]
  · intro k v rest hno ih
    by_cases hk : k ∈ ns <;> simp [stripAttrs, hk, (nonobj_facts ns v hno).2, ih]

/-- **C14 clause 1 — names skipped at save time**: the loaded object is exactly the graph with
the named attributes removed at every attribute-nested level; every other attribute loads as
it would without skipping (`canon`, C01) -/
theorem skip_names_at_save (ns : List String) (cls : String) (attrs : List (String × Val))
    (hw : wfA (.obj cls attrs) = true) (ha : attrNested (.obj cls attrs) = true) :
    load {} (save ⟨ns, []⟩ (.obj cls attrs)) = .ok (canon (stripA ns (.obj cls attrs))) := by
  have hw' : wfAttrs attrs = true := by simpa [wfA] using hw
  have ha' : attrNestedAttrs attrs = true := by simpa [attrNested] using ha
  have h1 := encodeAttrs_skip_names ns attrs ha'
  have h2 := decode_skip_names ns (stripAttrs ns attrs) (wf_strip ns attrs hw') (attrNested_strip ns attrs ha')
  rw [strip_idempotent] at h2
  simp [load, save, encode, fget, h1, h2, canon, stripA, bind, Except.bind, dropTypes, filter_true_eq]

/-- **C14 clause 2 — names skipped at load time** -/
theorem skip_names_at_load (ns : List String) (cls : String) (attrs : List (String × Val))
    (hw : wfA (.obj cls attrs) = true) (ha : attrNested (.obj cls attrs) = true) :
    load ⟨ns, []⟩ (save {} (.obj cls attrs)) = .ok (canon (stripA ns (.obj cls attrs))) := by
  have hw' : wfAttrs attrs = true := by simpa [wfA] using hw
  have ha' : attrNestedAttrs attrs = true := by simpa [attrNested] using ha
  have h2 := decode_skip_names ns attrs hw' ha'
  simp [load, save, encode, fget, h2, canon, stripA, bind, Except.bind, dropTypes, filter_true_eq]

/-- **skipping by name at load time gives the same object as skipping the same names at save
time** (and as doing both) -/
theorem skip_load_eq_save (ns : List String) (cls : String) (attrs : List (String × Val))
    (hw : wfA (.obj cls attrs) = true) (ha : attrNested (.obj cls attrs) = true) :
    load ⟨ns, []⟩ (save {} (.obj cls attrs)) = load {} (save ⟨ns, []⟩ (.obj cls attrs)) := by
  rw [skip_names_at_load ns cls attrs hw ha, skip_names_at_save ns cls attrs hw ha]

/-- **recorded skip lists are honoured without being repeated**: loading with no skip
argument and loading with the same lists again give the same object, for every value and
every name/type lists -/
theorem file_skip_honoured (sk : Skip) (v : Val) : load {} (save sk v) = load sk (save sk v) := by
  have hn : sk.names.filter (fun n => !sk.names.contains n) = [] := by
    simp [List.filter_eq_nil_iff]
  have ht : sk.types.filter (fun n => !sk.types.contains n) = [] := by
    simp [List.filter_eq_nil_iff]
  have hn0 : sk.names.filter (fun n => !([] : List String).contains n) = sk.names := by
    simp [filter_true_eq]
  have ht0 : sk.types.filter (fun n => !([] : List String).contains n) = sk.types := by
    simp [filter_true_eq]
  unfold load save
  simp only [hn, ht, hn0, ht0, List.nil_append, List.append_nil]

/-- **absent names are no-ops**: a name that occurs nowhere is ignored -/
theorem skip_absent_noop (ns : List String) (cls : String) (attrs : List (String × Val))
    (hw : wfA (.obj cls attrs) = true) (ha : attrNested (.obj cls attrs) = true)
    (habs : stripAttrs ns attrs = attrs) :
    load {} (save ⟨ns, []⟩ (.obj cls attrs)) = load {} (save {} (.obj cls attrs)) := by
  rw [skip_names_at_save ns cls attrs hw ha, roundtrip cls attrs hw]
  simp [stripA, habs]

/-! ### skipping by type at save time -/

/-- the exact-type test of `load` on a restored array / group value can only succeed when
the saved value was an instance of that type -/
theorem exactType_canon_isInstance (v : Val) (t : String) (hns : nsVal v ≠ .attr)
    (h : exactType (canon v) t = true) : isInstance v t = true := by
  cases v with
  | scalar s => simp [nsVal] at hns
  | npScalar dt s => simp [nsVal] at hns
  | path p => simp [nsVal] at hns
  | ndarray dt sh d => simpa [canon, exactType, isInstance] using h
  | torch k c tok =>
      cases k <;> simp [canon, exactType, isInstance] at h ⊢ <;> simp [h]
  | fallback c tok => simpa [canon, exactType, isInstance] using h
  | rawBytes p => simpa [canon, exactType, isInstance] using h
  | npRng b => simpa [canon, exactType, isInstance] using h
  | torchRng => simpa [canon, exactType, isInstance] using h
  | pyLogger n l => simpa [canon, exactType, isInstance] using h
  | list xs => simp only [canon] at h; split at h <;> simpa [exactType, isInstance] using h
  | tuple xs => simp only [canon] at h; split at h <;> simpa [exactType, isInstance] using h
  | set xs => simp only [canon] at h; split at h <;> simpa [exactType, isInstance] using h
  | dict kvs => simpa [canon, exactType, isInstance] using h
  | obj c a => simp [canon, exactType, isInstance] at h ⊢; simp [h]

theorem isInstance_stripT (ts : List String) (v : Val) (t : String) :
    isInstance (stripT ts v) t = isInstance v t := by
  cases v <;> simp [stripT, isInstance]

theorem nonobj_stripT (ts : List String) (v : Val) (h : isObj v = false) :
    stripT ts v = v ∧ typeFree ts v = true := by
  cases v <;> simp [isObj] at h <;> simp [stripT, typeFree]

private theorem any_exact_false (ts : List String) (v : Val) (hns : nsVal v ≠ .attr)
    (hfree : ts.any (isInstance v) = false) : ts.any (exactType (canon v)) = false := by
  rw [List.any_eq_false] at hfree ⊢
  intro t ht he
  exact hfree t ht (exactType_canon_isInstance v t hns he)

/-- loading a tree that holds no instance of the listed types, with those types in the skip
list, is loading it without them -/
theorem decode_skip_types_free (ts : List String) : ∀ (attrs : List (String × Val)),
    wfAttrs attrs = true → attrNestedAttrs attrs = true → typeFreeAttrs ts attrs = true →
    decodeAttrs ⟨[], ts⟩ (encodeAttrs {} attrs) = .ok (canonKvs attrs) ∧
    dropTypes ts (canonKvs attrs) = canonKvs attrs := by
  apply attrs_induction
  · intro _ _ _; simp [encodeAttrs, decodeAttrs, canonKvs, dropTypes]
  · intro k cls sub rest ih1 ih2 hw ha hf
    have hw' : wfAttrs sub = true ∧ wfAttrs rest = true := by simpa [wfAttrs, wfA] using hw
    have ha' : attrNestedAttrs sub = true ∧ attrNestedAttrs rest = true := by
      simpa [attrNestedAttrs, attrNested] using ha
    have hf' : ts.any (isInstance (.obj cls sub)) = false ∧ typeFreeAttrs ts sub = true ∧ typeFreeAttrs ts rest = true := by
      simpa [typeFreeAttrs, typeFree, Bool.and_assoc] using hf
    obtain ⟨i1a, i1b⟩ := ih1 hw'.1 ha'.1 hf'.2.1
    obtain ⟨i2a, i2b⟩ := ih2 hw'.2 ha'.2 hf'.2.2
    have hx := any_exact_false ts (.obj cls sub) (by simp [nsVal]) hf'.1
    constructor
    · simp [encodeAttrs, decodeAttrs, encode, decodeAttr, ftrue, fget, i1a, i1b, i2a, canonKvs, canon,
        nsOf, nsVal, bind, Except.bind]
    · simp only [canonKvs, dropTypes, List.filter_cons]
      simp only [dropTypes] at i2b
      simp [hx, i2b, nsVal]
  · intro k v rest hno ih hw ha hf
    have hw' : wfA v = true ∧ wfAttrs rest = true := by simpa [wfAttrs] using hw
    have ha' : attrNested v = true ∧ attrNestedAttrs rest = true := by simpa [attrNestedAttrs] using ha
    have hf' : ts.any (isInstance v) = false ∧ typeFree ts v = true ∧ typeFreeAttrs ts rest = true := by
      simpa [typeFreeAttrs, Bool.and_assoc] using hf
    obtain ⟨i2a, i2b⟩ := ih hw'.2 ha'.2 hf'.2.2
    constructor
    · simp [encodeAttrs, decodeAttrs, decodeAttr_skip_irrelevant _ v hno, roundtrip_attr v hw'.1, i2a,
        canonKvs, bind, Except.bind, nsOf_encode]
    · simp only [canonKvs, dropTypes, List.filter_cons]
      simp only [dropTypes] at i2b
      by_cases hns : nsVal v = .attr
      · simp [hns, i2b]
      · have hx := any_exact_false ts v hns hf'.1
        simp [hx, i2b]

/-- skipping types at save time writes exactly the tree of the stripped graph -/
theorem encodeAttrs_skip_types (ts : List String) : ∀ attrs, attrNestedAttrs attrs = true →
    encodeAttrs ⟨[], ts⟩ attrs = encodeAttrs {} (stripTAttrs ts attrs) := by
  apply attrs_induction
  · intro _; simp [encodeAttrs, stripTAttrs]
  · intro k cls sub rest ih1 ih2 h
    have h' : attrNestedAttrs sub = true ∧ attrNestedAttrs rest = true := by
      simpa [attrNestedAttrs, attrNested] using h
    by_cases hk : ts.any (isInstance (.obj cls sub)) = true
    · simp [encodeAttrs, stripTAttrs, hk, ih2 h'.2]
    · simp [encodeAttrs, stripTAttrs, hk, ih2 h'.2, encode, ih1 h'.1, stripT]
  · intro k v rest hno ih h
    have hf := nonobj_facts [] v hno
    have h' : noObj v = true ∧ attrNestedAttrs rest = true := by
      rw [← hf.1]; simpa [attrNestedAttrs] using h
    by_cases hk : ts.any (isInstance v) = true
    · simp [encodeAttrs, stripTAttrs, hk, ih h'.2]
    · simp [encodeAttrs, stripTAttrs, hk, ih h'.2, (nonobj_stripT ts v hno).1, (encode_noObj ⟨[], ts⟩).1 v h'.1]

theorem stripT_facts (ts : List String) : ∀ attrs, wfAttrs attrs = true → attrNestedAttrs attrs = true →
    wfAttrs (stripTAttrs ts attrs) = true ∧ attrNestedAttrs (stripTAttrs ts attrs) = true ∧
    typeFreeAttrs ts (stripTAttrs ts attrs) = true := by
  apply attrs_induction
  · intro _ _; simp [stripTAttrs, wfAttrs, attrNestedAttrs, typeFreeAttrs]
  · intro k cls sub rest ih1 ih2 hw ha
    have hw' : wfAttrs sub = true ∧ wfAttrs rest = true := by simpa [wfAttrs, wfA] using hw
    have ha' : attrNestedAttrs sub = true ∧ attrNestedAttrs rest = true := by
      simpa [attrNestedAttrs, attrNested] using ha
    obtain ⟨a1, a2, a3⟩ := ih1 hw'.1 ha'.1
    obtain ⟨b1, b2, b3⟩ := ih2 hw'.2 ha'.2
    by_cases hk : ts.any (isInstance (.obj cls sub)) = true
    · simp [stripTAttrs, hk, b1, b2, b3]
    · have hk' : ts.any (isInstance (stripT ts (.obj cls sub))) = false := by
        simpa [isInstance_stripT] using hk
      simp only [stripT] at hk'
      simp [stripTAttrs, hk, wfAttrs, wfA, attrNestedAttrs, attrNested, typeFreeAttrs, typeFree, stripT,
        a1, a2, a3, b1, b2, b3, hk']
  · intro k v rest hno ih hw ha
    have hw' : wfA v = true ∧ wfAttrs rest = true := by simpa [wfAttrs] using hw
    have ha' : attrNested v = true ∧ attrNestedAttrs rest = true := by simpa [attrNestedAttrs] using ha
    obtain ⟨b1, b2, b3⟩ := ih hw'.2 ha'.2
    have hs := nonobj_stripT ts v hno
    by_cases hk : ts.any (isInstance v) = true
    · simp [stripTAttrs, hk, b1, b2, b3]
    · simp [stripTAttrs, hk, wfAttrs, attrNestedAttrs, typeFreeAttrs, hs.1, hs.2, hw'.1, ha'.1, b1, b2, b3]

/-- **C14 clause — types skipped at save time**: the loaded object is the graph with every
attribute that is an instance of a listed type removed (at every attribute-nested level);
the type list recorded in the file removes nothing more at load time, and every other
attribute loads as it would without skipping -/
theorem skip_types_at_save (ts : List String) (cls : String) (attrs : List (String × Val))
    (hw : wfA (.obj cls attrs) = true) (ha : attrNested (.obj cls attrs) = true) :
    load {} (save ⟨[], ts⟩ (.obj cls attrs)) = .ok (canon (stripT ts (.obj cls attrs))) := by
  have hw' : wfAttrs attrs = true := by simpa [wfA] using hw
  have ha' : attrNestedAttrs attrs = true := by simpa [attrNested] using ha
  have h1 := encodeAttrs_skip_types ts attrs ha'
  obtain ⟨f1, f2, f3⟩ := stripT_facts ts attrs hw' ha'
  obtain ⟨h2, h3⟩ := decode_skip_types_free ts (stripTAttrs ts attrs) f1 f2 f3
  simp [load, save, encode, fget, h1, h2, h3, canon, stripT, bind, Except.bind, filter_true_eq]

/-! ### non-vacuity -/
private def sample : Val :=
  .obj "SA" [("count", .scalar (.int 5)), ("arr", .ndarray "float64" [2] [.float 0, .float 1]),
    ("child", .obj "SB" [("count", .scalar (.int 1)), ("flag", .scalar (.bool true)),
        ("l", .list [.scalar (.str "count"), .dict [("count", .scalar (.int 3))]])])]

example : wfA sample = true ∧ attrNested sample = true := by decide
example : stripT ["int", "SB"] sample = .obj "SA" [("arr", .ndarray "float64" [2] [.float 0, .float 1])] := by rfl
example : stripA ["count", "zz"] sample =
    .obj "SA" [("arr", .ndarray "float64" [2] [.float 0, .float 1]),
      ("child", .obj "SB" [("flag", .scalar (.bool true)),
        ("l", .list [.scalar (.str "count"), .dict [("count", .scalar (.int 3))]])])] := by
  rfl

/-! ## growth round 5: the extended model (Model/SerializeSkipExt.lean)

`saveG inst` / `loadX` / `normSkip` / `sstep`: the `skip` argument in its call forms, `isinstance`
as a parameter (abstract base classes with virtual subclasses included), a save that raises
part-way, the load-time type test exactly where the code has it, and histories of calls. -/
section Growth5
open QuantemModel.SerializeSkip

/-- what the theorems need from an `isinstance` relation: it contains the exact-type match the
loader applies to restored array / group values, and it looks at the class of an object only -/
structure InstOk (inst : Val → String → Bool) : Prop where
  exact : ∀ v t, nsVal v ≠ .attr → isRng v = false → exactType (canon v) t = true → inst v t = true
  objCls : ∀ cls a a' t, inst (.obj cls a) t = inst (.obj cls a') t

theorem instOk_isInstance : InstOk isInstance where
  exact := fun v t hns _ h => exactType_canon_isInstance v t hns h
  objCls := by intro cls a a' t; simp [isInstance]

/-- the relation with abstract base classes (`numbers.Real`, `collections.abc.Mapping`, `os.PathLike`,
`object`, …) qualifies as well -/
theorem instOk_isInstanceX : InstOk isInstanceX where
  exact := fun v t hns _ h => by simp [isInstanceX, exactType_canon_isInstance v t hns h]
  objCls := by intro cls a a' t; simp [isInstanceX, isInstance, abcInstance]

/-- at the base relation the parametric `save` is the `save` of Model/Serialize.lean -/
theorem saveG_isInstance (sk : Skip) (v : Val) : saveG isInstance sk v = save sk v := by
  simp [saveG, save, (encodeG_isInstance sk).1 v]

/-! ### the `skip` argument -/

/-- a bare name / a bare type is the one-element list -/
theorem normSkip_bare (s : String) :
    normSkip (.bareName s) = normSkip (.seq [.name s]) ∧ normSkip (.bareType s) = normSkip (.seq [.type s]) := by
  simp [normSkip, SkipArg.items]

/-- exactly the listed names and the listed types reach the filter: nothing is added, nothing
dropped, whatever else the sequence contains and in whatever order -/
theorem normSkip_mem (a : SkipArg) (s : String) :
    (s ∈ (normSkip a).names ↔ SkipItem.name s ∈ a.items) ∧ (s ∈ (normSkip a).types ↔ SkipItem.type s ∈ a.items) := by
  constructor
  · simp only [normSkip, List.mem_filterMap]
    constructor
    · rintro ⟨x, hx, hn⟩
      cases x <;> simp [nameOf] at hn
      subst hn; exact hx
    · intro h; exact ⟨_, h, rfl⟩
  · simp only [normSkip, List.mem_filterMap]
    constructor
    · rintro ⟨x, hx, hn⟩
      cases x <;> simp [typeOf] at hn
      subst hn; exact hx
    · intro h; exact ⟨_, h, rfl⟩

/-- entries that are neither `str` nor `type` are ignored -/
theorem normSkip_other (xs ys : List SkipItem) : normSkip (.seq (xs ++ .other :: ys)) = normSkip (.seq (xs ++ ys)) := by
  have h1 : nameOf .other = none := rfl
  have h2 : typeOf .other = none := rfl
  simp [normSkip, SkipArg.items, List.filterMap_append, List.filterMap_cons, h1, h2]

/-- **`Ptychography.save`** hands over exactly the caller's names and types, plus `_dset` / `dset`
unless `save_raw_data`; nothing is carried from one call to the next (the list is a function of
this call's arguments only) -/
theorem ptychoSkip_spec (a : SkipArg) (raw : Bool) :
    (normSkip (ptychoSkipArg a raw)).names = (normSkip a).names ++ (if raw then [] else ["_dset", "dset"]) ∧
    (normSkip (ptychoSkipArg a raw)).types = (normSkip a).types := by
  cases raw <;> simp [normSkip, ptychoSkipArg, SkipArg.items, List.filterMap_append, nameOf, typeOf]

/-! ### save side -/

/-- skipping names and types at save time writes exactly the tree of the stripped graph -/
theorem encodeAttrsG_strip (inst : Val → String → Bool) (ns ts : List String) : ∀ attrs, attrNestedAttrs attrs = true →
    encodeAttrsG inst ⟨ns, ts⟩ attrs = encodeAttrs {} (stripAttrsG inst ns ts attrs) := by
  apply attrs_ind
  · intro _; simp [encodeAttrsG, encodeAttrs, stripAttrsG]
  · intro k cls sub rest ih1 ih2 h
    have h' : attrNestedAttrs sub = true ∧ attrNestedAttrs rest = true := by
      simpa [attrNestedAttrs, attrNested] using h
    by_cases hk : (k ∈ ns ∨ ∃ x, x ∈ ts ∧ inst (.obj cls sub) x = true)
    · simp [encodeAttrsG, stripAttrsG, hk, ih2 h'.2]
    · simp [encodeAttrsG, encodeAttrs, stripAttrsG, hk, ih2 h'.2, encodeG, encode, ih1 h'.1, stripG]
  · intro k v rest hno ih h
    have hf := nonobj_stripG inst ns ts v hno
    have h' : noObj v = true ∧ attrNestedAttrs rest = true := by
      rw [← hf.2.2.1]; simpa [attrNestedAttrs] using h
    by_cases hk : (k ∈ ns ∨ ∃ x, x ∈ ts ∧ inst v x = true)
    · simp [encodeAttrsG, stripAttrsG, hk, ih h'.2]
    · simp [encodeAttrsG, encodeAttrs, stripAttrsG, hk, ih h'.2, hf.1, (encodeG_noObj inst ⟨ns, ts⟩).1 v h'.1]

/-- a save raises part-way exactly when the stripped graph still holds an unpicklable value:
naming the offending attributes (by name or by type) is what makes the retry succeed -/
theorem raises_iff_stripped (inst : Val → String → Bool) (ns ts : List String) : ∀ attrs, attrNestedAttrs attrs = true →
    raisesAttrsG inst ⟨ns, ts⟩ attrs = raisesAttrsG inst {} (stripAttrsG inst ns ts attrs) := by
  apply attrs_ind
  · intro _; simp [raisesAttrsG, stripAttrsG]
  · intro k cls sub rest ih1 ih2 h
    have h' : attrNestedAttrs sub = true ∧ attrNestedAttrs rest = true := by
      simpa [attrNestedAttrs, attrNested] using h
    by_cases hk : (k ∈ ns ∨ ∃ x, x ∈ ts ∧ inst (.obj cls sub) x = true)
    · simp [raisesAttrsG, stripAttrsG, hk, ih2 h'.2]
    · simp [raisesAttrsG, stripAttrsG, hk, ih2 h'.2, raisesG, ih1 h'.1, stripG]
  · intro k v rest hno ih h
    have hf := nonobj_stripG inst ns ts v hno
    have h' : noObj v = true ∧ attrNestedAttrs rest = true := by
      rw [← hf.2.2.1]; simpa [attrNestedAttrs] using h
    by_cases hk : (k ∈ ns ∨ ∃ x, x ∈ ts ∧ inst v x = true)
    · simp [raisesAttrsG, stripAttrsG, hk, ih h'.2]
    · simp [raisesAttrsG, stripAttrsG, hk, ih h'.2, hf.1, (raisesG_noObj inst ⟨ns, ts⟩).1 v h'.1]

theorem stripG_facts (inst : Val → String → Bool) (hI : InstOk inst) (ns ts : List String) : ∀ attrs,
    wfAttrs attrs = true → attrNestedAttrs attrs = true →
    wfAttrs (stripAttrsG inst ns ts attrs) = true ∧ attrNestedAttrs (stripAttrsG inst ns ts attrs) = true ∧
    typeFreeAttrsG inst ts (stripAttrsG inst ns ts attrs) = true := by
  apply attrs_ind
  · intro _ _; simp [stripAttrsG, wfAttrs, attrNestedAttrs, typeFreeAttrsG]
  · intro k cls sub rest ih1 ih2 hw ha
    have hw' : wfAttrs sub = true ∧ wfAttrs rest = true := by simpa [wfAttrs, wfA] using hw
    have ha' : attrNestedAttrs sub = true ∧ attrNestedAttrs rest = true := by
      simpa [attrNestedAttrs, attrNested] using ha
    obtain ⟨a1, a2, a3⟩ := ih1 hw'.1 ha'.1
    obtain ⟨b1, b2, b3⟩ := ih2 hw'.2 ha'.2
    by_cases hk : (k ∈ ns ∨ ∃ x, x ∈ ts ∧ inst (.obj cls sub) x = true)
    · simp [stripAttrsG, hk, b1, b2, b3]
    · have hk' : ∀ x, x ∈ ts → inst (.obj cls (stripAttrsG inst ns ts sub)) x = false := by
        intro x hx
        rw [hI.objCls cls _ sub x]
        by_cases hx' : inst (.obj cls sub) x = true
        · exact absurd (Or.inr ⟨x, hx, hx'⟩) hk
        · simpa using hx'
      simp [stripAttrsG, hk, wfAttrs, wfA, attrNestedAttrs, attrNested, typeFreeAttrsG, typeFreeG, stripG,
        a1, a2, a3, b1, b2, b3]
      exact hk'
  · intro k v rest hno ih hw ha
    have hw' : wfA v = true ∧ wfAttrs rest = true := by simpa [wfAttrs] using hw
    have ha' : attrNested v = true ∧ attrNestedAttrs rest = true := by simpa [attrNestedAttrs] using ha
    obtain ⟨b1, b2, b3⟩ := ih hw'.2 ha'.2
    have hs := nonobj_stripG inst ns ts v hno
    by_cases hk : (k ∈ ns ∨ ∃ x, x ∈ ts ∧ inst v x = true)
    · simp [stripAttrsG, hk, b1, b2, b3]
    · have hk' : ∀ x, x ∈ ts → inst v x = false := by
        intro x hx
        by_cases hx' : inst v x = true
        · exact absurd (Or.inr ⟨x, hx, hx'⟩) hk
        · simpa using hx'
      simp [stripAttrsG, hk, wfAttrs, attrNestedAttrs, typeFreeAttrsG, hs.1, hs.2.1, hw'.1, ha'.1, b1, b2, b3]
      exact hk'

/-! ### load side -/

theorem isRng_canon (v : Val) : isRng (canon v) = isRng v := by
  cases v with
  | list xs => simp only [canon]; split <;> rfl
  | tuple xs => simp only [canon]; split <;> rfl
  | set xs => simp only [canon]; split <;> rfl
  | _ => simp [canon, isRng]

/-- the extended decoder of a non-object attribute is the base decoder (skip lists irrelevant) -/
theorem decodeAttrX_nonobj (sk : Skip) (v : Val) (h : isObjV v = false) :
    decodeAttrX sk (encode {} v) = decodeAttr {} (encode {} v) := by
  have hb := decodeAttr_skip_irrelevant sk v (by cases v <;> simp_all [isObjV, isObj])
  rw [← hb]
  cases v with
  | obj c a => simp [isObjV] at h
  | ndarray dt sh d =>
      simp only [encode, writeNdarray]
      split
      · simp [decodeAttrX]
      · split <;> simp [decodeAttrX]
  | list xs => simp only [encode, encodeSeq]; split <;> simp [decodeAttrX]
  | tuple xs => simp only [encode, encodeSeq]; split <;> simp [decodeAttrX]
  | set xs =>
      simp only [encode, encodeSeq]
      by_cases hf : (xs.all isNumeric && !xs.isEmpty) = true <;> simp [hf, decodeAttrX]
  | scalar s => simp [encode, decodeAttrX]
  | npScalar dt s => simp [encode, decodeAttrX]
  | path p => simp [encode, decodeAttrX]
  | torch k c t => cases k <;> simp [encode, decodeAttrX, torchFlag, ftrue, fget]
  | fallback c t => simp [encode, decodeAttrX]
  | rawBytes p => cases p; simp [encode, decodeAttrX]
  | npRng b => simp [encode, decodeAttrX, ftrue, fget]
  | torchRng => simp [encode, decodeAttrX, ftrue, fget]
  | pyLogger n l => simp [encode, decodeAttrX, ftrue, fget]
  | dict kvs => simp [encode, decodeAttrX, ftrue, fget]

private theorem any_exact_false_G (inst : Val → String → Bool) (hI : InstOk inst) (ts : List String) (v : Val)
    (hns : nsVal v ≠ .attr) (hr : isRng v = false)
    (hfree : ∀ x, x ∈ ts → inst v x = false) : ts.any (exactType (canon v)) = false := by
  rw [List.any_eq_false]
  intro t ht he
  have := hI.exact v t hns hr (by simpa using he)
  rw [hfree t ht] at this
  exact absurd this (by simp)

/-- **the loader on the tree of a graph that holds no instance of the listed types**: names are
removed at every attribute-nested level, the type list removes nothing, everything else loads as
without skipping -/
theorem decodeX_strip (inst : Val → String → Bool) (hI : InstOk inst) (N ts : List String) : ∀ (attrs : List (String × Val)),
    wfAttrs attrs = true → attrNestedAttrs attrs = true → typeFreeAttrsG inst ts attrs = true →
    decodeAttrsX ⟨N, ts⟩ (encodeAttrs {} attrs) = .ok (canonKvs (stripAttrs N attrs)) ∧
    ∀ x ∈ canonKvs (stripAttrs N attrs), keepX ts x = true := by
  apply attrs_ind
  · intro _ _ _; simp [encodeAttrs, decodeAttrsX, stripAttrs, canonKvs]
  · intro k cls sub rest ih1 ih2 hw ha hf
    have hw' : wfAttrs sub = true ∧ wfAttrs rest = true := by simpa [wfAttrs, wfA] using hw
    have ha' : attrNestedAttrs sub = true ∧ attrNestedAttrs rest = true := by
      simpa [attrNestedAttrs, attrNested] using ha
    have hf' : (∀ x, x ∈ ts → inst (.obj cls sub) x = false) ∧ typeFreeAttrsG inst ts sub = true ∧ typeFreeAttrsG inst ts rest = true := by
      simpa [typeFreeAttrsG, typeFreeG, and_assoc] using hf
    obtain ⟨i1a, i1b⟩ := ih1 hw'.1 ha'.1 hf'.2.1
    obtain ⟨i2a, i2b⟩ := ih2 hw'.2 ha'.2 hf'.2.2
    have hx := any_exact_false_G inst hI ts (.obj cls sub) (by simp [nsVal]) (by simp [isRng]) hf'.1
    have hx' : ∀ X, ts.any (exactType (.obj cls X)) = false := by
      intro X
      simpa [canon, exactType] using hx
    by_cases hk : k ∈ N
    · simp only [encodeAttrs, stripAttrs]
      simp [decodeAttrsX, hk, i2a]
      exact fun a b c h => i2b (a, b, c) h
    · constructor
      · simp [encodeAttrs, decodeAttrsX, stripAttrs, hk, encode, decodeAttrX, ftrue, fget, i1a, dropTypesX_eq_self ts _ i1b, i2a,
          canonKvs, canon, stripA, nsOf, nsVal, bind, Except.bind]
      · intro x hxm
        have hxm' : x = (k, nsVal (stripA N (.obj cls sub)), canon (stripA N (.obj cls sub))) ∨ x ∈ canonKvs (stripAttrs N rest) := by
          simpa [stripAttrs, hk, canonKvs] using hxm
        rcases hxm' with rfl | hm
        · simp [keepX, stripA, canon, hx']
        · exact i2b x hm
  · intro k v rest hno ih hw ha hf
    have hw' : wfA v = true ∧ wfAttrs rest = true := by simpa [wfAttrs] using hw
    have ha' : attrNested v = true ∧ attrNestedAttrs rest = true := by simpa [attrNestedAttrs] using ha
    have hf' : (∀ x, x ∈ ts → inst v x = false) ∧ typeFreeG inst ts v = true ∧ typeFreeAttrsG inst ts rest = true := by
      simpa [typeFreeAttrsG, and_assoc] using hf
    obtain ⟨i2a, i2b⟩ := ih hw'.2 ha'.2 hf'.2.2
    have hs := (nonobj_stripG inst N ts v hno).2.2.2
    by_cases hk : k ∈ N
    · simp only [encodeAttrs, stripAttrs]
      simp [decodeAttrsX, hk, i2a]
      exact fun a b c h => i2b (a, b, c) h
    · constructor
      · simp [encodeAttrs, decodeAttrsX, stripAttrs, hk, decodeAttrX_nonobj _ v hno, roundtrip_attr v hw'.1, i2a,
          canonKvs, hs, bind, Except.bind, nsOf_encode]
      · intro x hxm
        have hxm' : x = (k, nsVal v, canon v) ∨ x ∈ canonKvs (stripAttrs N rest) := by
          simpa [stripAttrs, hk, canonKvs, hs] using hxm
        rcases hxm' with rfl | hm
        · by_cases hns : nsVal v = .attr
          · simp [keepX, hns]
          · by_cases hr : isRng v = true
            · simp [keepX, isRng_canon, hr]
            · have hx := any_exact_false_G inst hI ts v hns (by simpa using hr) hf'.1
              simp [keepX, hx]
        · exact i2b x hm

/-- **C14, all clauses in one statement.**  For every instance relation `inst` (the generator's
universe, or the one with abstract base classes), names `ns1` and types `ts` given at save time
and names `ns2` given at load time: the loaded object is exactly the graph with every attribute
removed — at every attribute-nested level — whose name is in `ns1` or `ns2` or which is an instance
of a type in `ts`; the lists recorded in the file are what the loader merges in (nothing has to be
repeated); every other attribute loads as it would without skipping (`canon`, C01). -/
theorem skip_general (inst : Val → String → Bool) (hI : InstOk inst) (ns1 ns2 ts : List String)
    (cls : String) (attrs : List (String × Val))
    (hw : wfA (.obj cls attrs) = true) (ha : attrNested (.obj cls attrs) = true) :
    loadX ⟨ns2, []⟩ (saveG inst ⟨ns1, ts⟩ (.obj cls attrs)) =
      .ok (canon (stripG inst (ns2 ++ ns1) ts (.obj cls attrs))) := by
  have hw' : wfAttrs attrs = true := by simpa [wfA] using hw
  have ha' : attrNestedAttrs attrs = true := by simpa [attrNested] using ha
  have h1 := encodeAttrsG_strip inst ns1 ts attrs ha'
  obtain ⟨f1, f2, f3⟩ := stripG_facts inst hI ns1 ts attrs hw' ha'
  obtain ⟨h2, h3⟩ := decodeX_strip inst hI (ns2 ++ ns1.filter (fun n => !ns2.contains n)) ts
    (stripAttrsG inst ns1 ts attrs) f1 f2 f3
  have hN : ∀ k, k ∈ ns2 ++ ns1.filter (fun n => !ns2.contains n) ↔ (k ∈ ns2 ∨ k ∈ ns1) := by
    intro k
    by_cases h2 : k ∈ ns2 <;> simp [h2]
  have h4 := strip_strip inst _ ns1 ns2 ts hN attrs
  rw [h4] at h2 h3
  have h5 := dropTypesX_eq_self ts _ h3
  simp only [saveG, encodeG, h1]
  rw [loadX_obj, h2]
  simp only [h5, canon, stripG]

/-- the same for the base `save` of Model/Serialize.lean (the one C01 / C08 use) -/
theorem skip_general_base (ns1 ns2 ts : List String) (cls : String) (attrs : List (String × Val))
    (hw : wfA (.obj cls attrs) = true) (ha : attrNested (.obj cls attrs) = true) :
    loadX ⟨ns2, []⟩ (save ⟨ns1, ts⟩ (.obj cls attrs)) =
      .ok (canon (stripG isInstance (ns2 ++ ns1) ts (.obj cls attrs))) := by
  rw [← saveG_isInstance]
  exact skip_general isInstance instOk_isInstance ns1 ns2 ts cls attrs hw ha

/-- **names at load time = names at save time, also next to a type list and other names** -/
theorem skip_load_eq_save_general (inst : Val → String → Bool) (hI : InstOk inst) (ns ns' ts : List String)
    (cls : String) (attrs : List (String × Val))
    (hw : wfA (.obj cls attrs) = true) (ha : attrNested (.obj cls attrs) = true) :
    loadX ⟨ns, []⟩ (saveG inst ⟨ns', ts⟩ (.obj cls attrs)) = loadX {} (saveG inst ⟨ns ++ ns', ts⟩ (.obj cls attrs)) := by
  rw [skip_general inst hI ns' ns ts cls attrs hw ha, skip_general inst hI (ns ++ ns') [] ts cls attrs hw ha]
  simp

/-- **names given at both times** are the names given once; the order and multiplicity of the
entries is irrelevant -/
theorem skip_both_eq_once (inst : Val → String → Bool) (hI : InstOk inst) (ns ns' ts : List String)
    (hperm : ∀ k, k ∈ ns' ↔ k ∈ ns) (cls : String) (attrs : List (String × Val))
    (hw : wfA (.obj cls attrs) = true) (ha : attrNested (.obj cls attrs) = true) :
    loadX ⟨ns', []⟩ (saveG inst ⟨ns, ts⟩ (.obj cls attrs)) = loadX {} (saveG inst ⟨ns, ts⟩ (.obj cls attrs)) := by
  rw [skip_general inst hI ns ns' ts cls attrs hw ha, skip_general inst hI ns [] ts cls attrs hw ha]
  have : stripAttrsG inst (ns' ++ ns) ts attrs = stripAttrsG inst ([] ++ ns) ts attrs :=
    stripAttrsG_congr inst _ _ ts (by intro k; simp [hperm k]) attrs
  simp only [stripG, this]

/-! ### histories, including calls that are rejected or raise part-way -/

/-- a call that raises leaves every target as it was -/
theorem sstep_raised_noop (inst : Val → String → Bool) (pool : List Val) (fs : SFs) (op : SOp) (e : String)
    (h : (sstep inst pool fs op).2 = .raised e) : (sstep inst pool fs op).1 = fs := by
  cases op with
  | load p a =>
      simp only [sstep]
      split
      · rfl
      · split <;> rfl
  | save c =>
      cases hb : c.badLevel
      · cases hex : ((sfsGet fs c.path).isSome && !c.overwrite)
        · cases hp : pool[c.obj]? with
          | none => simp [sstep, hb, hex, hp]
          | some v =>
              cases hs : saveE inst (normSkip c.skip) v with
              | error e' => simp [sstep, hb, hex, hp, hs]
              | ok s => simp [sstep, hb, hex, hp, hs] at h
        · simp [sstep, hb, hex]
      · simp [sstep, hb]

theorem sstep_frame (inst : Val → String → Bool) (pool : List Val) (fs : SFs) (op : SOp) (p : String)
    (hq : SerializeSkip.quietOn p op = true) : sfsGet (sstep inst pool fs op).1 p = sfsGet fs p := by
  cases op with
  | load q a =>
      simp only [sstep]
      split
      · rfl
      · split <;> rfl
  | save c =>
      have hne : c.path ≠ p := by simpa [SerializeSkip.quietOn] using hq
      cases hb : c.badLevel
      · cases hex : ((sfsGet fs c.path).isSome && !c.overwrite)
        · cases hp : pool[c.obj]? with
          | none => simp [sstep, hb, hex, hp]
          | some v =>
              cases hs : saveE inst (normSkip c.skip) v with
              | error e' => simp [sstep, hb, hex, hp, hs]
              | ok s => simp [sstep, hb, hex, hp, hs, sfsGet_sfsSet, hne]
        · simp [sstep, hb, hex]
      · simp [sstep, hb]

theorem srun_frame (inst : Val → String → Bool) (pool : List Val) (p : String) : ∀ (ops : List SOp) (fs : SFs),
    (∀ op ∈ ops, SerializeSkip.quietOn p op = true) → sfsGet (srun inst pool fs ops).1 p = sfsGet fs p
  | [], fs, _ => by simp [srun]
  | op :: rest, fs, h => by
      simp only [srun]
      rw [srun_frame inst pool p rest _ (fun o ho => h o (List.mem_cons_of_mem _ ho))]
      exact sstep_frame inst pool fs op p (h op (List.mem_cons_self ..))

/-- **C14 over histories.**  Whatever calls came before (`pre`: saves that completed, were rejected
— bad compression level, existing target without `mode="o"` — or raised part-way on an unpicklable
attribute, and loads) and whatever calls that do not write `c.path` come after (`post`, again
including failing ones): once a save of a live object with skip argument `c.skip` has completed, a
later `load(c.path, skip=a)` returns exactly the stripped graph of THAT object for THAT call's lists
merged with the load-time names. -/
theorem skip_history (inst : Val → String → Bool) (hI : InstOk inst) (pool : List Val) (fs0 : SFs)
    (pre post : List SOp) (c : SaveCall) (a : SkipArg) (cls : String) (attrs : List (String × Val))
    (hv : pool[c.obj]? = some (.obj cls attrs))
    (hw : wfA (.obj cls attrs) = true) (ha : attrNested (.obj cls attrs) = true)
    (hlevel : c.badLevel = false)
    (hfree : (sfsGet (srun inst pool fs0 pre).1 c.path).isSome = true → c.overwrite = true)
    (hsave : raisesG inst (normSkip c.skip) (.obj cls attrs) = false)
    (hpost : ∀ op ∈ post, SerializeSkip.quietOn c.path op = true)
    (hty : (normSkip a).types = []) :
    (sstep inst pool (srun inst pool fs0 (pre ++ [.save c] ++ post)).1 (.load c.path a)).2 =
      .loaded (canon (stripG inst ((normSkip a).names ++ (normSkip c.skip).names) (normSkip c.skip).types (.obj cls attrs))) := by
  have hstep : (sstep inst pool (srun inst pool fs0 pre).1 (.save c)).1 =
      sfsSet (srun inst pool fs0 pre).1 c.path (saveG inst (normSkip c.skip) (.obj cls attrs)) := by
    simp only [sstep, hlevel, hv, saveE, hsave]
    by_cases hex : (sfsGet (srun inst pool fs0 pre).1 c.path).isSome = true
    · simp [hex, hfree hex]
    · simp [hex]
  have hget : sfsGet (srun inst pool fs0 (pre ++ [.save c] ++ post)).1 c.path =
      some (saveG inst (normSkip c.skip) (.obj cls attrs)) := by
    rw [srun_append, srun_append]
    simp only [srun]
    rw [srun_frame inst pool c.path post _ hpost, hstep, sfsGet_sfsSet]
    simp
  have hload := skip_general inst hI (normSkip c.skip).names (normSkip a).names (normSkip c.skip).types cls attrs hw ha
  have ha' : normSkip a = ⟨(normSkip a).names, []⟩ := by
    cases hn : normSkip a with
    | mk n t => simp [hn] at hty; simp [hty]
  simp only [sstep, hget]
  rw [ha', hload]

/-- a save that is rejected or raises part-way (any number of them, in any order) changes no later outcome:
a history with the failing calls removed loads the same object -/
theorem failed_calls_invisible (inst : Val → String → Bool) (pool : List Val) (fs : SFs) (op : SOp) (rest : List SOp) (e : String)
    (h : (sstep inst pool fs op).2 = .raised e) :
    (srun inst pool fs (op :: rest)).1 = (srun inst pool fs rest).1 ∧
    (srun inst pool fs (op :: rest)).2 = .raised e :: (srun inst pool fs rest).2 := by
  simp [srun, sstep_raised_noop inst pool fs op e h, h]

/-- the base loader differs from the code for a load-time type list that names a random-generator
class: `_recursive_load` has no type test in its two generator branches (the witness is replayed on
the real code by the `x-load` stream) -/
theorem load_rng_type_counterexample :
    load ⟨[], ["Generator"]⟩ (save {} (.obj "SA" [("g", .npRng "PCG64"), ("n", .scalar (.int 1))])) =
      .ok (.obj "SA" [("n", .scalar (.int 1))]) ∧
    loadX ⟨[], ["Generator"]⟩ (save {} (.obj "SA" [("g", .npRng "PCG64"), ("n", .scalar (.int 1))])) =
      .ok (.obj "SA" [("n", .scalar (.int 1)), ("g", .npRng "PCG64")]) := by
  constructor
  · simp [load, save, encode, encodeAttrs, decodeAttrs, decodeAttr, fget, ftrue, reorder, dropTypes, exactType, isInstance,
      nsOf, attrVal, bind, Except.bind]
  · simp [loadX, save, encode, encodeAttrs, decodeAttrsX, decodeAttrX, decodeAttr, fget, ftrue, reorder, dropTypesX, isRng,
      exactType, isInstance, nsOf, attrVal, bind, Except.bind]

/-! ### non-vacuity of the round-5 statements -/
private def sampleX : Val :=
  .obj "SD" [("count", .scalar (.int 5)), ("meta", .dict [("k", .scalar (.int 1))]), ("handle", .fallback "unpicklable" 0),
    ("child", .obj "SB" [("count", .scalar (.float 0)), ("p", .path "a/b"), ("arr", .ndarray "float64" [1] [.float 0])])]

example : wfA sampleX = true ∧ attrNested sampleX = true := by decide
-- an abstract base class removes its virtual instances at both levels; `object` removes everything
example : stripG isInstanceX ["handle"] ["Real", "Mapping"] sampleX =
    .obj "SD" [("child", .obj "SB" [("p", .path "a/b"), ("arr", .ndarray "float64" [1] [.float 0])])] := by rfl
example : stripG isInstanceX [] ["object"] sampleX = .obj "SD" [] := by rfl
-- the save raises unless the unpicklable attribute is named (or its type listed)
example : raisesG isInstanceX ⟨["count"], []⟩ sampleX = true ∧ raisesG isInstanceX ⟨["handle"], []⟩ sampleX = false ∧
    raisesG isInstanceX ⟨[], ["unpicklable"]⟩ sampleX = false := by decide
-- a history: failing save, rejected save, the retry, a load
example : (srun isInstanceX [sampleX] []
      [.save ⟨0, "p", false, false, .seq []⟩, .save ⟨0, "p", false, true, .bareName "handle"⟩,
       .save ⟨0, "p", false, false, .bareName "handle"⟩, .save ⟨0, "p", false, false, .bareName "handle"⟩]).2.map
      (fun o => match o with | .raised e => e | .saved => "saved" | .loaded _ => "loaded") =
    ["TypeError", "ValueError", "saved", "FileExistsError"] := by decide
example : (normSkip (ptychoSkipArg (.bareType "ndarray") false)).names = ["_dset", "dset"] ∧
    (normSkip (ptychoSkipArg (.seq [.name "a", .other, .type "Tensor"]) true)).names = ["a"] ∧
    (normSkip (ptychoSkipArg (.seq [.name "a", .other, .type "Tensor"]) true)).types = ["Tensor"] := by decide

end Growth5

end QuantemModel.Props.C14
