import QuantemModel.Props.C01
import QuantemModel.Lemmas.SerializeInd
/-!
C14 — serializer skip lists, for the executable model of serialize.py.
Only property theorems and non-vacuity examples live here.
-/
namespace QuantemModel.Props.C14
open QuantemModel.Serialize QuantemModel.Props.C01

def isObj : Val → Bool
  | .obj .. => true
  | _ => false

/-- the decoder of a non-object attribute never looks at the skip lists -/
theorem decodeAttr_skip_irrelevant (sk : Skip) (v : Val) (h : isObj v = false) :
    decodeAttr sk (encode {} v) = decodeAttr {} (encode {} v) := by
  cases v with
  | obj c a => simp [isObj] at h
  | ndarray dt sh d =>
      simp only [encode, writeNdarray]
      split
      · simp [decodeAttr]
      · split <;> simp [decodeAttr]
  | list xs => simp only [encode, encodeSeq]; split <;> simp [decodeAttr]
  | tuple xs => simp only [encode, encodeSeq]; split <;> simp [decodeAttr]
  | set xs =>
      simp only [encode, encodeSeq]
      by_cases hf : (xs.all isNumeric && !xs.isEmpty) = true <;> simp [hf, decodeAttr]
  | scalar s => simp [encode, decodeAttr]
  | npScalar dt s => simp [encode, decodeAttr]
  | path p => simp [encode, decodeAttr]
  | torch k c t => cases k <;> simp [encode, decodeAttr, torchFlag, ftrue, fget]
  | fallback c t => simp [encode, decodeAttr]
  | rawBytes p => cases p; simp [encode, decodeAttr]
  | npRng b => simp [encode, decodeAttr, ftrue, fget]
  | torchRng => simp [encode, decodeAttr, ftrue, fget]
  | pyLogger n l => simp [encode, decodeAttr, ftrue, fget]
  | dict kvs => simp [encode, decodeAttr, ftrue, fget]

theorem nonobj_facts (ns : List String) (v : Val) (h : isObj v = false) :
    attrNested v = noObj v ∧ stripA ns v = v := by
  cases v <;> simp [isObj] at h <;> simp [attrNested, stripA]

private theorem step_nonobj (ns : List String) (k : String) (v : Val) (rest : List (String × Val))
    (hno : isObj v = false) (hw : wfA v = true)
    (ih : decodeAttrs ⟨ns, []⟩ (encodeAttrs {} rest) = .ok (canonKvs (stripAttrs ns rest))) :
    decodeAttrs ⟨ns, []⟩ (encodeAttrs {} ((k, v) :: rest)) = .ok (canonKvs (stripAttrs ns ((k, v) :: rest))) := by
  have hs := (nonobj_facts ns v hno).2
  by_cases hk : k ∈ ns
  · simp [encodeAttrs, decodeAttrs, stripAttrs, hk, ih]
  · simp [encodeAttrs, decodeAttrs, stripAttrs, hk, ih, decodeAttr_skip_irrelevant _ v hno,
      roundtrip_attr v hw, canonKvs, hs, bind, Except.bind, nsOf_encode]

/-- **skipping by name at load time** removes exactly the named attributes at every
attribute-nested object level and loads everything else as without skipping -/
theorem decode_skip_names (ns : List String) : ∀ (attrs : List (String × Val)),
    wfAttrs attrs = true → attrNestedAttrs attrs = true →
    decodeAttrs ⟨ns, []⟩ (encodeAttrs {} attrs) = .ok (canonKvs (stripAttrs ns attrs))
  | [], _, _ => by simp [encodeAttrs, decodeAttrs, stripAttrs, canonKvs]
  | (k, .obj cls sub) :: rest, hw, ha => by
      have hw' : wfAttrs sub = true ∧ wfAttrs rest = true := by simpa [wfAttrs, wfA] using hw
      have ha' : attrNestedAttrs sub = true ∧ attrNestedAttrs rest = true := by
        simpa [attrNestedAttrs, attrNested] using ha
      have ih1 := decode_skip_names ns sub hw'.1 ha'.1
      have ih2 := decode_skip_names ns rest hw'.2 ha'.2
      by_cases hk : k ∈ ns
      · simp [encodeAttrs, decodeAttrs, stripAttrs, hk, ih2]
      · simp [encodeAttrs, decodeAttrs, stripAttrs, hk, ih2, encode, decodeAttr, ftrue, fget, ih1,
          canonKvs, stripA, canon, nsOf, nsVal, bind, Except.bind, dropTypes, filter_true_eq]
  | (k, .scalar s) :: rest, hw, ha =>
      step_nonobj ns k _ rest rfl (by simp [wfA]) (decode_skip_names ns rest (by simpa [wfAttrs, wfA] using hw) (by simpa [attrNestedAttrs, attrNested, noObj] using ha))
  | (k, .npScalar dt s) :: rest, hw, ha =>
      step_nonobj ns k _ rest rfl (by simp [wfA]) (decode_skip_names ns rest (by simpa [wfAttrs, wfA] using hw) (by simpa [attrNestedAttrs, attrNested, noObj] using ha))
  | (k, .path p) :: rest, hw, ha =>
      step_nonobj ns k _ rest rfl (by simp [wfA]) (decode_skip_names ns rest (by simpa [wfAttrs, wfA] using hw) (by simpa [attrNestedAttrs, attrNested, noObj] using ha))
  | (k, .ndarray dt sh d) :: rest, hw, ha =>
      have h' : wfA (.ndarray dt sh d) = true ∧ wfAttrs rest = true := by simpa [wfAttrs] using hw
      step_nonobj ns k _ rest rfl h'.1 (decode_skip_names ns rest h'.2 (by simpa [attrNestedAttrs, attrNested, noObj] using ha))
  | (k, .torch tk c t) :: rest, hw, ha =>
      step_nonobj ns k _ rest rfl (by simp [wfA]) (decode_skip_names ns rest (by simpa [wfAttrs, wfA] using hw) (by simpa [attrNestedAttrs, attrNested, noObj] using ha))
  | (k, .fallback c t) :: rest, hw, ha =>
      step_nonobj ns k _ rest rfl (by simp [wfA]) (decode_skip_names ns rest (by simpa [wfAttrs, wfA] using hw) (by simpa [attrNestedAttrs, attrNested, noObj] using ha))
  | (k, .rawBytes p) :: rest, hw, ha =>
      step_nonobj ns k _ rest rfl (by simp [wfA]) (decode_skip_names ns rest (by simpa [wfAttrs, wfA] using hw) (by simpa [attrNestedAttrs, attrNested, noObj] using ha))
  | (k, .npRng b) :: rest, hw, ha =>
      step_nonobj ns k _ rest rfl (by simp [wfA]) (decode_skip_names ns rest (by simpa [wfAttrs, wfA] using hw) (by simpa [attrNestedAttrs, attrNested, noObj] using ha))
  | (k, .torchRng) :: rest, hw, ha =>
      step_nonobj ns k _ rest rfl (by simp [wfA]) (decode_skip_names ns rest (by simpa [wfAttrs, wfA] using hw) (by simpa [attrNestedAttrs, attrNested, noObj] using ha))
  | (k, .pyLogger n l) :: rest, hw, ha =>
      step_nonobj ns k _ rest rfl (by simp [wfA]) (decode_skip_names ns rest (by simpa [wfAttrs, wfA] using hw) (by simpa [attrNestedAttrs, attrNested, noObj] using ha))
  | (k, .list xs) :: rest, hw, ha =>
      have h' : wfA (.list xs) = true ∧ wfAttrs rest = true := by simpa [wfAttrs] using hw
      have a' : attrNested (.list xs) = true ∧ attrNestedAttrs rest = true := by simpa [attrNestedAttrs] using ha
      step_nonobj ns k _ rest rfl h'.1 (decode_skip_names ns rest h'.2 a'.2)
  | (k, .tuple xs) :: rest, hw, ha =>
      have h' : wfA (.tuple xs) = true ∧ wfAttrs rest = true := by simpa [wfAttrs] using hw
      have a' : attrNested (.tuple xs) = true ∧ attrNestedAttrs rest = true := by simpa [attrNestedAttrs] using ha
      step_nonobj ns k _ rest rfl h'.1 (decode_skip_names ns rest h'.2 a'.2)
  | (k, .set xs) :: rest, hw, ha =>
      have h' : wfA (.set xs) = true ∧ wfAttrs rest = true := by simpa [wfAttrs] using hw
      have a' : attrNested (.set xs) = true ∧ attrNestedAttrs rest = true := by simpa [attrNestedAttrs] using ha
      step_nonobj ns k _ rest rfl h'.1 (decode_skip_names ns rest h'.2 a'.2)
  | (k, .dict kvs) :: rest, hw, ha =>
      have h' : wfA (.dict kvs) = true ∧ wfAttrs rest = true := by simpa [wfAttrs] using hw
      have a' : attrNested (.dict kvs) = true ∧ attrNestedAttrs rest = true := by simpa [attrNestedAttrs] using ha
      step_nonobj ns k _ rest rfl h'.1 (decode_skip_names ns rest h'.2 a'.2)

/-- induction over attribute lists that descends into attribute-nested objects -/
theorem attrs_induction (P : List (String × Val) → Prop) (hnil : P [])
    (hobj : ∀ k cls sub rest, P sub → P rest → P ((k, .obj cls sub) :: rest))
    (hother : ∀ k v rest, isObj v = false → P rest → P ((k, v) :: rest)) :
    ∀ attrs, P attrs
  | [] => hnil
  | (k, .obj cls sub) :: rest =>
      hobj k cls sub rest (attrs_induction P hnil hobj hother sub) (attrs_induction P hnil hobj hother rest)
  | (k, .scalar s) :: rest => hother k _ rest rfl (attrs_induction P hnil hobj hother rest)
  | (k, .npScalar dt s) :: rest => hother k _ rest rfl (attrs_induction P hnil hobj hother rest)
  | (k, .path p) :: rest => hother k _ rest rfl (attrs_induction P hnil hobj hother rest)
  | (k, .ndarray dt sh d) :: rest => hother k _ rest rfl (attrs_induction P hnil hobj hother rest)
  | (k, .torch tk c t) :: rest => hother k _ rest rfl (attrs_induction P hnil hobj hother rest)
  | (k, .fallback c t) :: rest => hother k _ rest rfl (attrs_induction P hnil hobj hother rest)
  | (k, .rawBytes p) :: rest => hother k _ rest rfl (attrs_induction P hnil hobj hother rest)
  | (k, .npRng b) :: rest => hother k _ rest rfl (attrs_induction P hnil hobj hother rest)
  | (k, .torchRng) :: rest => hother k _ rest rfl (attrs_induction P hnil hobj hother rest)
  | (k, .pyLogger n l) :: rest => hother k _ rest rfl (attrs_induction P hnil hobj hother rest)
  | (k, .list xs) :: rest => hother k _ rest rfl (attrs_induction P hnil hobj hother rest)
  | (k, .tuple xs) :: rest => hother k _ rest rfl (attrs_induction P hnil hobj hother rest)
  | (k, .set xs) :: rest => hother k _ rest rfl (attrs_induction P hnil hobj hother rest)
  | (k, .dict kvs) :: rest => hother k _ rest rfl (attrs_induction P hnil hobj hother rest)

theorem encode_noObj (sk : Skip) :
    (∀ v, noObj v = true → encode sk v = encode {} v) ∧
    (∀ xs, noObjList xs = true → encodeItems sk xs = encodeItems {} xs) ∧
    (∀ kvs, noObjKvs kvs = true → encodeKids sk kvs = encodeKids {} kvs) := by
  apply vals_induction
  · intro v hv _
    cases v <;> simp at hv <;> simp [encode]
  · intro xs ih h
    have := ih (by simpa [noObj] using h)
    simp [encode, encodeSeq, this]
  · intro xs ih h
    have := ih (by simpa [noObj] using h)
    simp [encode, encodeSeq, this]
  · intro xs ih h
    have := ih (by simpa [noObj] using h)
    simp [encode, encodeSeq, this]
  · intro kvs ih h
    have := ih (by simpa [noObj] using h)
    simp [encode, this]
  · intro cls kvs _ h
    simp [noObj] at h
  · intro _; simp [encodeItems]
  · intro v xs ihv ihs h
    have h' : noObj v = true ∧ noObjList xs = true := by simpa [noObjList] using h
    simp [encodeItems, ihv h'.1, ihs h'.2]
  · intro _; simp [encodeKids]
  · intro k v kvs ihv ihs h
    have h' : noObj v = true ∧ noObjKvs kvs = true := by simpa [noObjKvs] using h
    simp [encodeKids, ihv h'.1, ihs h'.2]

/-- skipping names at save time writes exactly the tree of the stripped graph -/
theorem encodeAttrs_skip_names (ns : List String) : ∀ attrs, attrNestedAttrs attrs = true →
    encodeAttrs ⟨ns, []⟩ attrs = encodeAttrs {} (stripAttrs ns attrs) := by
  apply attrs_induction
  · intro _; simp [encodeAttrs, stripAttrs]
  · intro k cls sub rest ih1 ih2 h
    have h' : attrNestedAttrs sub = true ∧ attrNestedAttrs rest = true := by
      simpa [attrNestedAttrs, attrNested] using h
    by_cases hk : k ∈ ns
    · simp [encodeAttrs, stripAttrs, hk, ih2 h'.2]
    · simp [encodeAttrs, stripAttrs, hk, ih2 h'.2, encode, ih1 h'.1, stripA]
  · intro k v rest hno ih h
    have hf := nonobj_facts ns v hno
    have h' : noObj v = true ∧ attrNestedAttrs rest = true := by
      rw [← hf.1]; simpa [attrNestedAttrs] using h
    by_cases hk : k ∈ ns
    · simp [encodeAttrs, stripAttrs, hk, ih h'.2]
    · simp [encodeAttrs, stripAttrs, hk, ih h'.2, hf.2, (encode_noObj ⟨ns, []⟩).1 v h'.1]

theorem wf_strip (ns : List String) : ∀ attrs, wfAttrs attrs = true → wfAttrs (stripAttrs ns attrs) = true := by
  apply attrs_induction
  · intro _; simp [stripAttrs, wfAttrs]
  · intro k cls sub rest ih1 ih2 h
    have h' : wfAttrs sub = true ∧ wfAttrs rest = true := by simpa [wfAttrs, wfA] using h
    by_cases hk : k ∈ ns <;> simp [stripAttrs, hk, wfAttrs, wfA, stripA, ih1 h'.1, ih2 h'.2]
  · intro k v rest hno ih h
    have h' : wfA v = true ∧ wfAttrs rest = true := by simpa [wfAttrs] using h
    by_cases hk : k ∈ ns <;> simp [stripAttrs, hk, wfAttrs, (nonobj_facts ns v hno).2, h'.1, ih h'.2]

theorem attrNested_strip (ns : List String) : ∀ attrs, attrNestedAttrs attrs = true →
    attrNestedAttrs (stripAttrs ns attrs) = true := by
  apply attrs_induction
  · intro _; simp [stripAttrs, attrNestedAttrs]
  · intro k cls sub rest ih1 ih2 h
    have h' : attrNestedAttrs sub = true ∧ attrNestedAttrs rest = true := by
      simpa [attrNestedAttrs, attrNested] using h
    by_cases hk : k ∈ ns <;> simp [stripAttrs, hk, attrNestedAttrs, attrNested, stripA, ih1 h'.1, ih2 h'.2]
  · intro k v rest hno ih h
    have h' : attrNested v = true ∧ attrNestedAttrs rest = true := by simpa [attrNestedAttrs] using h
    by_cases hk : k ∈ ns <;> simp [stripAttrs, hk, attrNestedAttrs, (nonobj_facts ns v hno).2, h'.1, ih h'.2]

/-- skipping the same names twice changes nothing more (absent names are no-ops) -/
theorem strip_idempotent (ns : List String) : ∀ attrs, stripAttrs ns (stripAttrs ns attrs) = stripAttrs ns attrs := by
  apply attrs_induction
  · simp [stripAttrs]
  · intro k cls sub rest ih1 ih2
    by_cases hk : k ∈ ns <;> simp [stripAttrs, hk, stripA, ih1, ih2]
  · intro k v rest hno ih
    by_cases hk : k ∈ ns <;> simp [stripAttrs, hk, (nonobj_facts ns v hno).2, ih]

/-- **C14 clause 1 — names skipped at save time**: the loaded object is exactly the graph with
the named attributes removed at every attribute-nested level; every other attribute loads as
it would without skipping (`canon`, C01) -/
theorem skip_names_at_save (ns : List String) (cls : String) (attrs : List (String × Val))
    (hw : wfA (.obj cls attrs) = true) (ha : attrNested (.obj cls attrs) = true) :
    load {} (save ⟨ns, []⟩ (.obj cls attrs)) = .ok (canon (stripA ns (.obj cls attrs))) := by
  have hw' : wfAttrs attrs = true := by simpa [wfA] using hw
  have ha' : attrNestedAttrs attrs = true := by simpa [attrNested] using ha
  have h1 := encodeAttrs_skip_names ns attrs ha'
  have h2 := decode_skip_names ns (stripAttrs ns attrs) (wf_strip ns attrs hw') (attrNested_strip ns attrs ha')
  rw [strip_idempotent] at h2
  simp [load, save, encode, fget, h1, h2, canon, stripA, bind, Except.bind, dropTypes, filter_true_eq]

/-- **C14 clause 2 — names skipped at load time** -/
theorem skip_names_at_load (ns : List String) (cls : String) (attrs : List (String × Val))
    (hw : wfA (.obj cls attrs) = true) (ha : attrNested (.obj cls attrs) = true) :
    load ⟨ns, []⟩ (save {} (.obj cls attrs)) = .ok (canon (stripA ns (.obj cls attrs))) := by
  have hw' : wfAttrs attrs = true := by simpa [wfA] using hw
  have ha' : attrNestedAttrs attrs = true := by simpa [attrNested] using ha
  have h2 := decode_skip_names ns attrs hw' ha'
  simp [load, save, encode, fget, h2, canon, stripA, bind, Except.bind, dropTypes, filter_true_eq]

/-- **skipping by name at load time gives the same object as skipping the same names at save
time** (and as doing both) -/
theorem skip_load_eq_save (ns : List String) (cls : String) (attrs : List (String × Val))
    (hw : wfA (.obj cls attrs) = true) (ha : attrNested (.obj cls attrs) = true) :
    load ⟨ns, []⟩ (save {} (.obj cls attrs)) = load {} (save ⟨ns, []⟩ (.obj cls attrs)) := by
  rw [skip_names_at_load ns cls attrs hw ha, skip_names_at_save ns cls attrs hw ha]

/-- **recorded skip lists are honoured without being repeated**: loading with no skip
argument and loading with the same lists again give the same object, for every value and
every name/type lists -/
theorem file_skip_honoured (sk : Skip) (v : Val) : load {} (save sk v) = load sk (save sk v) := by
  have hn : sk.names.filter (fun n => !sk.names.contains n) = [] := by
    simp [List.filter_eq_nil_iff]
  have ht : sk.types.filter (fun n => !sk.types.contains n) = [] := by
    simp [List.filter_eq_nil_iff]
  have hn0 : sk.names.filter (fun n => !([] : List String).contains n) = sk.names := by
    simp [filter_true_eq]
  have ht0 : sk.types.filter (fun n => !([] : List String).contains n) = sk.types := by
    simp [filter_true_eq]
  unfold load save
  simp only [hn, ht, hn0, ht0, List.nil_append, List.append_nil]

/-- **absent names are no-ops**: a name that occurs nowhere is ignored -/
theorem skip_absent_noop (ns : List String) (cls : String) (attrs : List (String × Val))
    (hw : wfA (.obj cls attrs) = true) (ha : attrNested (.obj cls attrs) = true)
    (habs : stripAttrs ns attrs = attrs) :
    load {} (save ⟨ns, []⟩ (.obj cls attrs)) = load {} (save {} (.obj cls attrs)) := by
  rw [skip_names_at_save ns cls attrs hw ha, roundtrip cls attrs hw]
  simp [stripA, habs]

/-! ### skipping by type at save time -/

/-- the exact-type test of `load` on a restored array / group value can only succeed when
the saved value was an instance of that type -/
theorem exactType_canon_isInstance (v : Val) (t : String) (hns : nsVal v ≠ .attr)
    (h : exactType (canon v) t = true) : isInstance v t = true := by
  cases v with
  | scalar s => simp [nsVal] at hns
  | npScalar dt s => simp [nsVal] at hns
  | path p => simp [nsVal] at hns
  | ndarray dt sh d => simpa [canon, exactType, isInstance] using h
  | torch k c tok =>
      cases k <;> simp [canon, exactType, isInstance] at h ⊢ <;> simp [h]
  | fallback c tok => simpa [canon, exactType, isInstance] using h
  | rawBytes p => simpa [canon, exactType, isInstance] using h
  | npRng b => simpa [canon, exactType, isInstance] using h
  | torchRng => simpa [canon, exactType, isInstance] using h
  | pyLogger n l => simpa [canon, exactType, isInstance] using h
  | list xs => simp only [canon] at h; split at h <;> simpa [exactType, isInstance] using h
  | tuple xs => simp only [canon] at h; split at h <;> simpa [exactType, isInstance] using h
  | set xs => simp only [canon] at h; split at h <;> simpa [exactType, isInstance] using h
  | dict kvs => simpa [canon, exactType, isInstance] using h
  | obj c a => simp [canon, exactType, isInstance] at h ⊢; simp [h]

theorem isInstance_stripT (ts : List String) (v : Val) (t : String) :
    isInstance (stripT ts v) t = isInstance v t := by
  cases v <;> simp [stripT, isInstance]

theorem nonobj_stripT (ts : List String) (v : Val) (h : isObj v = false) :
    stripT ts v = v ∧ typeFree ts v = true := by
  cases v <;> simp [isObj] at h <;> simp [stripT, typeFree]

private theorem any_exact_false (ts : List String) (v : Val) (hns : nsVal v ≠ .attr)
    (hfree : ts.any (isInstance v) = false) : ts.any (exactType (canon v)) = false := by
  rw [List.any_eq_false] at hfree ⊢
  intro t ht he
  exact hfree t ht (exactType_canon_isInstance v t hns he)

/-- loading a tree that holds no instance of the listed types, with those types in the skip
list, is loading it without them -/
theorem decode_skip_types_free (ts : List String) : ∀ (attrs : List (String × Val)),
    wfAttrs attrs = true → attrNestedAttrs attrs = true → typeFreeAttrs ts attrs = true →
    decodeAttrs ⟨[], ts⟩ (encodeAttrs {} attrs) = .ok (canonKvs attrs) ∧
    dropTypes ts (canonKvs attrs) = canonKvs attrs := by
  apply attrs_induction
  · intro _ _ _; simp [encodeAttrs, decodeAttrs, canonKvs, dropTypes]
  · intro k cls sub rest ih1 ih2 hw ha hf
    have hw' : wfAttrs sub = true ∧ wfAttrs rest = true := by simpa [wfAttrs, wfA] using hw
    have ha' : attrNestedAttrs sub = true ∧ attrNestedAttrs rest = true := by
      simpa [attrNestedAttrs, attrNested] using ha
    have hf' : ts.any (isInstance (.obj cls sub)) = false ∧ typeFreeAttrs ts sub = true ∧ typeFreeAttrs ts rest = true := by
      simpa [typeFreeAttrs, typeFree, Bool.and_assoc] using hf
    obtain ⟨i1a, i1b⟩ := ih1 hw'.1 ha'.1 hf'.2.1
    obtain ⟨i2a, i2b⟩ := ih2 hw'.2 ha'.2 hf'.2.2
    have hx := any_exact_false ts (.obj cls sub) (by simp [nsVal]) hf'.1
    constructor
    · simp [encodeAttrs, decodeAttrs, encode, decodeAttr, ftrue, fget, i1a, i1b, i2a, canonKvs, canon,
        nsOf, nsVal, bind, Except.bind]
    · simp only [canonKvs, dropTypes, List.filter_cons]
      simp only [dropTypes] at i2b
      simp [hx, i2b, nsVal]
  · intro k v rest hno ih hw ha hf
    have hw' : wfA v = true ∧ wfAttrs rest = true := by simpa [wfAttrs] using hw
    have ha' : attrNested v = true ∧ attrNestedAttrs rest = true := by simpa [attrNestedAttrs] using ha
    have hf' : ts.any (isInstance v) = false ∧ typeFree ts v = true ∧ typeFreeAttrs ts rest = true := by
      simpa [typeFreeAttrs, Bool.and_assoc] using hf
    obtain ⟨i2a, i2b⟩ := ih hw'.2 ha'.2 hf'.2.2
    constructor
    · simp [encodeAttrs, decodeAttrs, decodeAttr_skip_irrelevant _ v hno, roundtrip_attr v hw'.1, i2a,
        canonKvs, bind, Except.bind, nsOf_encode]
    · simp only [canonKvs, dropTypes, List.filter_cons]
      simp only [dropTypes] at i2b
      by_cases hns : nsVal v = .attr
      · simp [hns, i2b]
      · have hx := any_exact_false ts v hns hf'.1
        simp [hx, i2b]

/-- skipping types at save time writes exactly the tree of the stripped graph -/
theorem encodeAttrs_skip_types (ts : List String) : ∀ attrs, attrNestedAttrs attrs = true →
    encodeAttrs ⟨[], ts⟩ attrs = encodeAttrs {} (stripTAttrs ts attrs) := by
  apply attrs_induction
  · intro _; simp [encodeAttrs, stripTAttrs]
  · intro k cls sub rest ih1 ih2 h
    have h' : attrNestedAttrs sub = true ∧ attrNestedAttrs rest = true := by
      simpa [attrNestedAttrs, attrNested] using h
    by_cases hk : ts.any (isInstance (.obj cls sub)) = true
    · simp [encodeAttrs, stripTAttrs, hk, ih2 h'.2]
    · simp [encodeAttrs, stripTAttrs, hk, ih2 h'.2, encode, ih1 h'.1, stripT]
  · intro k v rest hno ih h
    have hf := nonobj_facts [] v hno
    have h' : noObj v = true ∧ attrNestedAttrs rest = true := by
      rw [← hf.1]; simpa [attrNestedAttrs] using h
    by_cases hk : ts.any (isInstance v) = true
    · simp [encodeAttrs, stripTAttrs, hk, ih h'.2]
    · simp [encodeAttrs, stripTAttrs, hk, ih h'.2, (nonobj_stripT ts v hno).1, (encode_noObj ⟨[], ts⟩).1 v h'.1]

theorem stripT_facts (ts : List String) : ∀ attrs, wfAttrs attrs = true → attrNestedAttrs attrs = true →
    wfAttrs (stripTAttrs ts attrs) = true ∧ attrNestedAttrs (stripTAttrs ts attrs) = true ∧
    typeFreeAttrs ts (stripTAttrs ts attrs) = true := by
  apply attrs_induction
  · intro _ _; simp [stripTAttrs, wfAttrs, attrNestedAttrs, typeFreeAttrs]
  · intro k cls sub rest ih1 ih2 hw ha
    have hw' : wfAttrs sub = true ∧ wfAttrs rest = true := by simpa [wfAttrs, wfA] using hw
    have ha' : attrNestedAttrs sub = true ∧ attrNestedAttrs rest = true := by
      simpa [attrNestedAttrs, attrNested] using ha
    obtain ⟨a1, a2, a3⟩ := ih1 hw'.1 ha'.1
    obtain ⟨b1, b2, b3⟩ := ih2 hw'.2 ha'.2
    by_cases hk : ts.any (isInstance (.obj cls sub)) = true
    · simp [stripTAttrs, hk, b1, b2, b3]
    · have hk' : ts.any (isInstance (stripT ts (.obj cls sub))) = false := by
        simpa [isInstance_stripT] using hk
      simp only [stripT] at hk'
      simp [stripTAttrs, hk, wfAttrs, wfA, attrNestedAttrs, attrNested, typeFreeAttrs, typeFree, stripT,
        a1, a2, a3, b1, b2, b3, hk']
  · intro k v rest hno ih hw ha
    have hw' : wfA v = true ∧ wfAttrs rest = true := by simpa [wfAttrs] using hw
    have ha' : attrNested v = true ∧ attrNestedAttrs rest = true := by simpa [attrNestedAttrs] using ha
    obtain ⟨b1, b2, b3⟩ := ih hw'.2 ha'.2
    have hs := nonobj_stripT ts v hno
    by_cases hk : ts.any (isInstance v) = true
    · simp [stripTAttrs, hk, b1, b2, b3]
    · simp [stripTAttrs, hk, wfAttrs, attrNestedAttrs, typeFreeAttrs, hs.1, hs.2, hw'.1, ha'.1, b1, b2, b3]

/-- **C14 clause — types skipped at save time**: the loaded object is the graph with every
attribute that is an instance of a listed type removed (at every attribute-nested level);
the type list recorded in the file removes nothing more at load time, and every other
attribute loads as it would without skipping -/
theorem skip_types_at_save (ts : List String) (cls : String) (attrs : List (String × Val))
    (hw : wfA (.obj cls attrs) = true) (ha : attrNested (.obj cls attrs) = true) :
    load {} (save ⟨[], ts⟩ (.obj cls attrs)) = .ok (canon (stripT ts (.obj cls attrs))) := by
  have hw' : wfAttrs attrs = true := by simpa [wfA] using hw
  have ha' : attrNestedAttrs attrs = true := by simpa [attrNested] using ha
  have h1 := encodeAttrs_skip_types ts attrs ha'
  obtain ⟨f1, f2, f3⟩ := stripT_facts ts attrs hw' ha'
  obtain ⟨h2, h3⟩ := decode_skip_types_free ts (stripTAttrs ts attrs) f1 f2 f3
  simp [load, save, encode, fget, h1, h2, h3, canon, stripT, bind, Except.bind, filter_true_eq]

/-! ### non-vacuity -/
private def sample : Val :=
  .obj "SA" [("count", .scalar (.int 5)), ("arr", .ndarray "float64" [2] [.float 0, .float 1]),
    ("child", .obj "SB" [("count", .scalar (.int 1)), ("flag", .scalar (.bool true)),
        ("l", .list [.scalar (.str "count"), .dict [("count", .scalar (.int 3))]])])]

example : wfA sample = true ∧ attrNested sample = true := by decide
example : stripT ["int", "SB"] sample = .obj "SA" [("arr", .ndarray "float64" [2] [.float 0, .float 1])] := by rfl
example : stripA ["count", "zz"] sample =
    .obj "SA" [("arr", .ndarray "float64" [2] [.float 0, .float 1]),
      ("child", .obj "SB" [("flag", .scalar (.bool true)),
        ("l", .list [.scalar (.str "count"), .dict [("count", .scalar (.int 3))]])])] := by
  rfl

end QuantemModel.Props.C14
