import QuantemModel.Props.C20
import QuantemModel.Model.NormAlias
import Mathlib.Data.List.Sort
/-!
C20 — growth round 6: theorems for clauses that were only measured so far.

* a normalisation object whose limits were FROZEN from a frame `A` (`data=A` at construction / `_set_limits(A)`, also the
  boolean short-cut) and is then applied to ANY other frame `B` — with NaN, with `-inf` only, `+inf` only, both — never
  raises, masks every NaN, keeps every finite pixel a number in [0, 1], is non-decreasing, sends `-inf`/`+inf` to 0/1
  (`frozen_any_frame_spec`, `bool_frozen_spec`, `create_frozen_any_frame_spec`);
* `A` after NaNs were written in place: pixels that were not overwritten keep exactly their displayed value, the
  overwritten ones come back masked (`frozen_inplace_nan`);
* the limits of every interval type do not depend on the ORDER of the pixels (`ravel()` of any shape / memory layout,
  a transposed or flipped image, descending data): `getLimits_perm`; hence the whole call is equivariant under any
  rearrangement of the pixels (`call_perm`).
-/
namespace QuantemModel.Props.C20Ext
open QuantemModel QuantemModel.Norm QuantemModel.Generated.Stretch QuantemModel.StretchSpec
open QuantemModel.NormLemmas QuantemModel.NormHistory QuantemModel.Props.C20

/-- what the property says about one pixel, limits `lo ≤ hi` known -/
def PixelSpec (s : Stretch ℝ) (lo hi : ℝ) : Prop :=
  normPixel s lo hi .nan = none ∧
  (∀ x, ∃ y, normPixel s lo hi (.fin x) = some y ∧ 0 ≤ y ∧ y ≤ 1) ∧
  (∀ x x' y y', x ≤ x' → normPixel s lo hi (.fin x) = some y → normPixel s lo hi (.fin x') = some y' → y ≤ y') ∧
  normPixel s lo hi .posInf = some 1 ∧ normPixel s lo hi .negInf = some 0

theorem pixelSpec_of_le (s : Stretch ℝ) (h : Admissible s) {lo hi : ℝ} (hl : lo ≤ hi) : PixelSpec s lo hi :=
  ⟨norm_nan_masked s lo hi, fun x => norm_finite_range s h lo hi x,
    fun _ _ _ _ hx hy hy' => norm_mono s h hl hx hy hy', (norm_inf s h hl).1, (norm_inf s h hl).2⟩

/-- a call on an object with frozen (explicit manual) limits never raises and is the pixel map, whatever the frame -/
theorem call_of_frozen (n : Norm.Norm ℝ) (lo hi : ℝ) (hi' : ∀ d, n.interval.getLimits d = .ok (lo, hi))
    (B : List (Ext ℝ)) : n.call B = .ok (B.map (normPixel n.stretch lo hi)) := by
  unfold Norm.call
  rw [hi' B]
  rfl

/-- limits frozen from frame `A`, object applied to ANY frame `B` (NaN / -inf / +inf in any combination, any length):
the call returns, and every pixel obeys the property with the limits of `A` -/
theorem frozen_any_frame_spec (n n' : Norm.Norm ℝ) (hadm : Admissible n.stretch) (A : List (Ext ℝ))
    (hok : IntervalOK n.interval A) (h : n.setLimits false A = .ok n') :
    ∃ lo hi, lo ≤ hi ∧ n.interval.getLimits A = .ok (lo, hi) ∧ n'.vmin = some lo ∧ n'.vmax = some hi ∧
      PixelSpec n'.stretch lo hi ∧
      ∀ B : List (Ext ℝ), n'.call B = .ok (B.map (normPixel n'.stretch lo hi)) := by
  obtain ⟨lo, hi, hl, hvmin, hvmax, hst, hall⟩ := frozen_limits n n' A h
  have hle := getLimits_ordered n.interval A lo hi hok hl
  refine ⟨lo, hi, hle, hl, hvmin, hvmax, ?_, fun B => call_of_frozen n' lo hi hall B⟩
  rw [hst]
  exact pixelSpec_of_le _ hadm hle

/-- the limits clause for the frozen object: when `A`'s limits are distinct, `lo ↦ 0` and `hi ↦ 1` in EVERY later frame -/
theorem frozen_any_frame_limits (n n' : Norm.Norm ℝ) (hadm : Admissible n.stretch) (A : List (Ext ℝ))
    (lo hi : ℝ) (hl : n.interval.getLimits A = .ok (lo, hi)) (hlt : lo < hi) (h : n.setLimits false A = .ok n')
    (pre post : List (Ext ℝ)) :
    n'.call (pre ++ [.fin lo, .fin hi] ++ post) =
      .ok (pre.map (normPixel n'.stretch lo hi) ++ [some 0, some 1] ++ post.map (normPixel n'.stretch lo hi)) := by
  obtain ⟨lo', hi', hl', _, _, hst, hall⟩ := frozen_limits n n' A h
  rw [hl] at hl'
  cases hl'
  rw [call_of_frozen n' lo hi hall]
  have := norm_limits n'.stretch (hst ▸ hadm) hlt
  simp [this.1, this.2]

/-- boolean frame: `_set_limits` short-cut freezes (0, 1); any later frame is mapped with these limits -/
theorem bool_frozen_spec (n n' : Norm.Norm ℝ) (hadm : Admissible n.stretch) (A : List (Ext ℝ))
    (h : n.setLimits true A = .ok n') :
    n'.vmin = some 0 ∧ n'.vmax = some 1 ∧ PixelSpec n'.stretch 0 1 ∧
      normPixel n'.stretch 0 1 (.fin 0) = some 0 ∧ normPixel n'.stretch 0 1 (.fin 1) = some 1 ∧
      ∀ B : List (Ext ℝ), n'.call B = .ok (B.map (normPixel n'.stretch 0 1)) := by
  unfold Norm.setLimits at h
  simp only [if_true] at h
  cases h
  have h01 : (0 : ℝ) < 1 := by norm_num
  have hlim := norm_limits n.stretch hadm h01
  refine ⟨by simp, by simp, pixelSpec_of_le _ hadm h01.le, hlim.1, hlim.2, fun B => ?_⟩
  have := call_of_frozen
    ({ n with vmin := some (Num.ofRat 0), vmax := some (Num.ofRat 1),
              interval := .manual (some (Num.ofRat 0)) (some (Num.ofRat 1)) } : Norm.Norm ℝ)
    (Num.ofRat 0) (Num.ofRat 1) (fun _ => rfl) B
  simpa using this

/-- front end + freezing + call, end to end: `CustomNormalization(cfg, data=A)` applied to any frame `B` -/
theorem create_frozen_any_frame_spec (c : Config ℝ) (A : List (Ext ℝ)) (n' : Norm.Norm ℝ)
    (hc : Norm.create c (some (false, A)) = .ok n')
    (hok : ∀ n, Norm.init c = .ok n → IntervalOK n.interval A) :
    ∃ lo hi, lo ≤ hi ∧ n'.vmin = some lo ∧ n'.vmax = some hi ∧ PixelSpec n'.stretch lo hi ∧
      ∀ B : List (Ext ℝ), n'.call B = .ok (B.map (normPixel n'.stretch lo hi)) := by
  unfold Norm.create at hc
  cases hinit : Norm.init c with
  | error e => rw [hinit] at hc; cases hc
  | ok n =>
    rw [hinit] at hc
    have hs : n.setLimits false A = .ok n' := hc
    obtain ⟨lo, hi, hle, _, hvmin, hvmax, hp, hall⟩ :=
      frozen_any_frame_spec n n' (init_admissible c n hinit) A (hok n hinit) hs
    exact ⟨lo, hi, hle, hvmin, hvmax, hp, hall⟩

/-- `A` after values were overwritten in place (e.g. by NaN), limits frozen before: a pixel that was not touched keeps
exactly its displayed value, a pixel overwritten by NaN comes back masked -/
theorem frozen_inplace_nan (n n' : Norm.Norm ℝ) (F : List (Ext ℝ)) (b : Bool) (h : n.setLimits b F = .ok n')
    (A B : List (Ext ℝ)) :
    ∃ outA outB, n'.call A = .ok outA ∧ n'.call B = .ok outB ∧ outB.length = B.length ∧
      ∀ i : Nat, (B[i]? = A[i]? → outB[i]? = outA[i]?) ∧ (B[i]? = some Ext.nan → outB[i]? = some none) := by
  have key : ∃ lo hi, ∀ d, n'.interval.getLimits d = .ok (lo, hi) := by
    cases b with
    | false =>
      obtain ⟨lo, hi, _, _, _, _, hall⟩ := frozen_limits n n' F h
      exact ⟨lo, hi, hall⟩
    | true =>
      unfold Norm.setLimits at h
      simp only [if_true] at h
      cases h
      exact ⟨_, _, fun _ => rfl⟩
  obtain ⟨lo, hi, hall⟩ := key
  refine ⟨_, _, call_of_frozen n' lo hi hall A, call_of_frozen n' lo hi hall B, by simp, fun i => ⟨?_, ?_⟩⟩
  · intro hi'
    simp [List.getElem?_map, hi']
  · intro hi'
    simp [List.getElem?_map, hi', norm_nan_masked]

/-! ### … and why the limits must be frozen for that -/

/-- the min-max object as the constructor builds it without `data=` (lazy limits) -/
noncomputable def lazyMinMax : Norm.Norm ℝ := ⟨.manual none none, .linear LinearStretch.default, none, none⟩

theorem lazyMinMax_pixel (lo hi x : ℝ) :
    normPixel lazyMinMax.stretch lo hi (.fin x) =
      some (if hi - lo ≠ 0 then clip01 ((x - lo) / (hi - lo)) else clip01 (x - lo)) := by
  rw [normPixel_fin, intervalFin_eq]
  show some ((LinearStretch.default : LinearStretch ℝ).call _) = _
  rw [linear_call_eq, linear_default_eq]
  simp [linearS]

/-- WITHOUT frozen limits `frozen_inplace_nan` fails: a lazy min-max object shows the pixel 1 of `[0, 1, 2]` at 1/2, and at 1
after the pixel 2 was overwritten by NaN (the limits are recomputed from the argument) -/
theorem lazy_inplace_nan_counterexample :
    lazyMinMax.call [.fin 0, .fin 1, .fin 2] = .ok [some 0, some (1 / 2), some 1] ∧
    lazyMinMax.call [.fin 0, .fin 1, .nan] = .ok [some 0, some 1, none] := by
  have hA : lazyMinMax.interval.getLimits [.fin 0, .fin 1, .fin 2] = .ok ((0 : ℝ), 2) := by
    norm_num [lazyMinMax, Interval.getLimits, manualLimits, finiteVals, minL, maxL, orValueError, bind, Except.bind, pure, Except.pure]
  have hB : lazyMinMax.interval.getLimits [.fin 0, .fin 1, .nan] = .ok ((0 : ℝ), 1) := by
    simp [lazyMinMax, Interval.getLimits, manualLimits, finiteVals, minL, maxL, orValueError, bind, Except.bind, pure, Except.pure]
  constructor
  · unfold Norm.call
    rw [hA]
    simp only [bind, Except.bind, pure, Except.pure, List.map_cons, List.map_nil, lazyMinMax_pixel]
    norm_num [clip01]
  · unfold Norm.call
    rw [hB]
    simp only [bind, Except.bind, pure, Except.pure, List.map_cons, List.map_nil, lazyMinMax_pixel, norm_nan_masked]
    norm_num [clip01]


/-! ## order independence of the limits -/

theorem finiteVals_eq_filterMap (d : List (Ext ℝ)) :
    finiteVals d = d.filterMap (fun e => match e with | .fin x => some x | _ => none) := by
  induction d with
  | nil => rfl
  | cons e t ih => cases e <;> simp [finiteVals, ih]

theorem finiteVals_perm {d d' : List (Ext ℝ)} (hp : d.Perm d') : (finiteVals d).Perm (finiteVals d') := by
  rw [finiteVals_eq_filterMap, finiteVals_eq_filterMap]
  exact hp.filterMap _

theorem foldl_min_mem (t : List ℝ) : ∀ x : ℝ,
    t.foldl (fun m y => if Num.ltb y m then y else m) x ∈ x :: t := by
  induction t with
  | nil => intro x; simp
  | cons a t ih =>
    intro x
    simp only [List.foldl_cons]
    by_cases hb : Num.ltb a x = true
    · rw [if_pos hb]
      have := ih a
      simp only [List.mem_cons] at this ⊢
      rcases this with h | h
      · exact Or.inr (Or.inl h)
      · exact Or.inr (Or.inr h)
    · rw [if_neg hb]
      have := ih x
      simp only [List.mem_cons] at this ⊢
      rcases this with h | h
      · exact Or.inl h
      · exact Or.inr (Or.inr h)

theorem foldl_max_mem (t : List ℝ) : ∀ x : ℝ,
    t.foldl (fun m y => if Num.ltb m y then y else m) x ∈ x :: t := by
  induction t with
  | nil => intro x; simp
  | cons a t ih =>
    intro x
    simp only [List.foldl_cons]
    by_cases hb : Num.ltb x a = true
    · rw [if_pos hb]
      have := ih a
      simp only [List.mem_cons] at this ⊢
      rcases this with h | h
      · exact Or.inr (Or.inl h)
      · exact Or.inr (Or.inr h)
    · rw [if_neg hb]
      have := ih x
      simp only [List.mem_cons] at this ⊢
      rcases this with h | h
      · exact Or.inl h
      · exact Or.inr (Or.inr h)

theorem minL_mem {f : List ℝ} {m : ℝ} (h : minL f = some m) : m ∈ f := by
  cases f with
  | nil => simp [minL] at h
  | cons x t =>
    simp only [minL, Option.some.injEq] at h
    subst h
    exact foldl_min_mem t x

theorem maxL_mem {f : List ℝ} {m : ℝ} (h : maxL f = some m) : m ∈ f := by
  cases f with
  | nil => simp [maxL] at h
  | cons x t =>
    simp only [maxL, Option.some.injEq] at h
    subst h
    exact foldl_max_mem t x

/-- `np.min` does not depend on the order of the pixels -/
theorem minL_perm {f f' : List ℝ} (hp : f.Perm f') : minL f = minL f' := by
  cases hf : minL f with
  | none =>
    cases f with
    | nil => have := hp.nil_eq; subst this; rfl
    | cons x t => simp [minL] at hf
  | some m =>
    cases hf' : minL f' with
    | none =>
      cases f' with
      | nil => rw [hp.eq_nil] at hf; simp [minL] at hf
      | cons x t => simp [minL] at hf'
    | some m' =>
      have h1 : m ≤ m' := minL_le hf m' (hp.mem_iff.mpr (minL_mem hf'))
      have h2 : m' ≤ m := minL_le hf' m (hp.mem_iff.mp (minL_mem hf))
      rw [le_antisymm h1 h2]

/-- `np.max` does not depend on the order of the pixels -/
theorem maxL_perm {f f' : List ℝ} (hp : f.Perm f') : maxL f = maxL f' := by
  cases hf : maxL f with
  | none =>
    cases f with
    | nil => have := hp.nil_eq; subst this; rfl
    | cons x t => simp [maxL] at hf
  | some m =>
    cases hf' : maxL f' with
    | none =>
      cases f' with
      | nil => rw [hp.eq_nil] at hf; simp [maxL] at hf
      | cons x t => simp [maxL] at hf'
    | some m' =>
      have h1 : m' ≤ m := le_maxL hf m' (hp.mem_iff.mpr (maxL_mem hf'))
      have h2 : m ≤ m' := le_maxL hf' m (hp.mem_iff.mp (maxL_mem hf))
      rw [le_antisymm h2 h1]

/-- the sorted finite values do not depend on the order of the pixels -/
theorem sortedFinite_perm {f f' : List ℝ} (hp : f.Perm f') :
    f.mergeSort (fun a b => Num.leb a b) = f'.mergeSort (fun a b => Num.leb a b) := by
  have h1 := sortedFinite_pairwise f
  have h2 := sortedFinite_pairwise f'
  have hperm : (f.mergeSort (fun a b => Num.leb a b)).Perm (f'.mergeSort (fun a b => Num.leb a b)) :=
    (List.mergeSort_perm f _).trans (hp.trans (List.mergeSort_perm f' _).symm)
  exact hperm.eq_of_pairwise' h1 h2

/-- EVERY interval type: the limits computed from an array do not depend on the order of its pixels — shape, memory
layout, transposition, flipping, ascending / descending data give the same `(vmin, vmax)` (or the same error) -/
theorem getLimits_perm (i : Interval ℝ) {d d' : List (Ext ℝ)} (hp : d.Perm d') :
    i.getLimits d = i.getLimits d' := by
  have hf := finiteVals_perm hp
  cases i with
  | quantile a b =>
    simp only [Interval.getLimits, quantileLimits]
    rw [sortedFinite_perm hf]
  | manual a b =>
    cases a <;> cases b <;> simp only [Interval.getLimits, manualLimits] <;>
      (try rw [minL_perm hf]) <;> (try rw [maxL_perm hf])
  | centered c half =>
    cases half with
    | some h => rfl
    | none =>
      simp only [Interval.getLimits, centeredLimits]
      rw [minL_perm hf, maxL_perm hf]

/-- the whole call is equivariant under any rearrangement of the pixels: same limits, every pixel the same value -/
theorem call_perm (n : Norm.Norm ℝ) {d d' : List (Ext ℝ)} (hp : d.Perm d') (out : List (Option ℝ))
    (h : n.call d = .ok out) :
    ∃ lo hi, n.interval.getLimits d = .ok (lo, hi) ∧ out = d.map (normPixel n.stretch lo hi) ∧
      n.call d' = .ok (d'.map (normPixel n.stretch lo hi)) ∧ out.Perm (d'.map (normPixel n.stretch lo hi)) := by
  obtain ⟨lo, hi, hl, hout⟩ := norm_call_pointwise n d out h
  refine ⟨lo, hi, hl, hout, ?_, ?_⟩
  · unfold Norm.call
    rw [← getLimits_perm n.interval hp, hl]
    rfl
  · rw [hout]
    exact hp.map _


/-! ## masked exactly for NaN -/

/-- "NaNs come back masked" with its converse: a pixel is masked IF AND ONLY IF it is NaN — finite pixels and ±inf pixels
always come back as numbers, for every stretch and all limits -/
theorem norm_masked_iff_nan (s : Stretch ℝ) (lo hi : ℝ) (x : Ext ℝ) : normPixel s lo hi x = none ↔ x = .nan := by
  cases x with
  | nan => simp [norm_nan_masked]
  | fin x => simp [normPixel_fin]
  | posInf => by_cases h : hi < lo <;>
      simp [normPixel, intervalExt, stretchExt, maskInvalid, isFiniteB_real, h]
  | negInf => by_cases h : hi < lo <;>
      simp [normPixel, intervalExt, stretchExt, maskInvalid, isFiniteB_real, h]

/-- whole arrays: the mask of the result is exactly the NaN pattern of the argument -/
theorem call_mask_iff_nan (n : Norm.Norm ℝ) (data : List (Ext ℝ)) (out : List (Option ℝ)) (h : n.call data = .ok out) :
    out.length = data.length ∧ ∀ i : Nat, out[i]? = some none ↔ data[i]? = some Ext.nan := by
  obtain ⟨lo, hi, _, rfl⟩ := norm_call_pointwise n data out h
  refine ⟨by simp, fun i => ?_⟩
  rw [List.getElem?_map]
  cases hd : data[i]? with
  | none => simp
  | some x => simp [norm_masked_iff_nan]

/-! ## aliasing: `copy=False` and the discarded return value -/

/-- `S(values, copy=False)`: afterwards the caller's array holds exactly what the call returned, and that is the stretch
of every element -/
theorem callBuf_nocopy (s : Stretch ℝ) (v : List ℝ) :
    (s.callBuf false v).buf = (s.callBuf false v).ret ∧ (s.callBuf false v).ret = v.map s.call := ⟨rfl, rfl⟩

/-- `S(values, copy=True)`: the caller's array is untouched -/
theorem callBuf_copy (s : Stretch ℝ) (v : List ℝ) :
    (s.callBuf true v).buf = v ∧ (s.callBuf true v).ret = v.map s.call := ⟨rfl, rfl⟩

/-- discarding the stretch's return value in `CustomNormalization.__call__` is sound: reading the buffer after
`stretch(values, copy=False)` gives the pixel-wise composition the other theorems are about -/
theorem callViaBuffer_eq_call (n : Norm.Norm ℝ) (v : List (Ext ℝ)) : n.callViaBuffer false v = n.call v := by
  unfold Norm.callViaBuffer Norm.call
  cases n.interval.getLimits v with
  | error e => rfl
  | ok p =>
    obtain ⟨lo, hi⟩ := p
    simp [stretchBufExt, normPixel, List.map_map, bind, Except.bind, pure, Except.pure, Function.comp_def]

/-- … and only with `copy=False`: with a copying stretch the buffer would hold the interval's output, the stretch lost -/
theorem callViaBuffer_copy_drops_stretch (n : Norm.Norm ℝ) (v : List (Ext ℝ)) (lo hi : ℝ)
    (h : n.interval.getLimits v = .ok (lo, hi)) :
    n.callViaBuffer true v = .ok (v.map (fun x => maskInvalid (intervalExt lo hi x))) := by
  unfold Norm.callViaBuffer
  rw [h]
  simp [stretchBufExt, List.map_map, bind, Except.bind, pure, Except.pure, Function.comp_def]

/-! ## non-vacuity -/

example : ∃ n n' : Norm.Norm ℝ, Admissible n.stretch ∧ IntervalOK n.interval [.fin 1, .fin 2] ∧
    n.setLimits false [.fin 1, .fin 2] = .ok n' := by
  refine ⟨⟨.manual (some 0) (some 4), .power ⟨2⟩, none, none⟩, _, ?_, ?_, rfl⟩
  · simp [Admissible]
  · simp [IntervalOK]

example : ∃ n n' : Norm.Norm ℝ, Admissible n.stretch ∧ n.setLimits true [] = .ok n' :=
  ⟨⟨.quantile 0 1, .power ⟨2⟩, none, none⟩, _, by simp [Admissible], rfl⟩

/-- a flipped (descending instead of ascending) image is a rearrangement -/
example (d : List (Ext ℝ)) : d.Perm d.reverse := (List.reverse_perm d).symm

example : ∃ (n : Norm.Norm ℝ) (lo hi : ℝ), n.interval.getLimits [.fin 1, .nan] = .ok (lo, hi) :=
  ⟨⟨.manual (some 0) (some 4), .power ⟨2⟩, none, none⟩, 0, 4, rfl⟩

end QuantemModel.Props.C20Ext
