import QuantemModel.Lemmas.Radon
import QuantemModel.Lemmas.RadonLinear
import QuantemModel.Lemmas.RadonPad
import QuantemModel.Lemmas.RadonSymmetry
import QuantemModel.Lemmas.RadonLists
import QuantemModel.Lemmas.RadonPadSpec
import QuantemModel.Lemmas.RadonFilterSk
import QuantemModel.Lemmas.Radon180
import QuantemModel.Lemmas.RadonGeometry
import QuantemModel.Lemmas.RadonExt
/-!
C07 — the torch Radon transform / filtered back-projection (Model/Radon.lean: `radonTorch*`,
`fourierFilterTorch`, `iradonTorch`) is the same real function as the scikit-image reference
it ports (`radonSk*`, `fourierFilterSk`, `iradonSk`), for every size, angle and filter; both
transforms are linear, a batched call is the per-image call, and the 0° projection is the
column sum of the disc-masked image.  All statements are over ℝ (IEEE rounding is measured
by the correspondence run, not proved).  The conventions the code had *before* the `fix:`
commits are kept as `…Legacy` definitions with their exact agreement domain and a literal
counterexample each.  Only property theorems and non-vacuity examples live here.
-/
namespace QuantemModel.Props.C07
open QuantemModel QuantemModel.Radon

/-! ## 1. Radon transform: sampling coordinates and sinograms -/

/-- **coords_agree**: for every size `N ≥ 2`, every angle and every output pixel, radon_torch
(rotation about `N//2`, [-1,1] grid normalisation undone by grid_sample) samples the image at
exactly the point scikit-image's warp matrix does. -/
theorem coords_agree (N : Nat) (hN : 2 ≤ N) (θ : ℝ) (x y : Nat) :
    torchCoord N θ x y = skCoord N θ x y :=
  torchCoord_eq_skCoord N hN θ x y

example : torchCoord 16 (37 : ℝ) 3 0 = skCoord 16 37 3 0 := coords_agree 16 (by norm_num) _ _ _

/-- **radon_agree**: every sinogram sample of radon_torch on `f` equals scikit-image's radon
(circle mode) on the disc-masked image — odd and even sizes alike. -/
theorem radon_agree (f : Int → Int → ℝ) (N : Nat) (hN : 2 ≤ N) (θ : ℝ) (x : Nat) :
    radonTorchAt f N θ x = radonSkAt (masked f N) N θ x :=
  radonTorchAt_eq_sk f N hN θ x

/-- the pre-fix rotation `[[cos,-sin],[-sin,-cos]]` sampled scikit-image's point of the row
reflected about the centre, `y ↦ 2*(N//2) - y` … -/
theorem coords_legacy_reflect (N : Nat) (hN : 2 ≤ N) (θ : ℝ) (x y y' : Nat) (h : y + y' = 2 * (N / 2)) :
    torchCoordLegacy N θ x y = skCoord N θ x y' :=
  torchCoordLegacy_eq_reflect N hN θ x y y' h

/-- … which for odd `N` is a permutation of the rows `0..N-1` (same sampling set) … -/
theorem coords_legacy_odd (N : Nat) (hN : 2 ≤ N) (hodd : N % 2 = 1) (θ : ℝ) (x y : Nat) (hy : y < N) :
    torchCoordLegacy N θ x y = skCoord N θ x (N - 1 - y) ∧ N - 1 - y < N :=
  ⟨torchCoordLegacy_eq_reflect N hN θ x y (N - 1 - y) (by omega), by omega⟩

/-- … so for odd `N` the pre-fix transform was the same sum in reverse order: it agreed
(`radon_legacy_agree_odd`; the measured 3e-7 on odd sizes) … -/
theorem radon_legacy_agree_odd (f : Int → Int → ℝ) (N : Nat) (hN : 2 ≤ N) (hodd : N % 2 = 1) (θ : ℝ) (x : Nat) :
    radonLegacyAt f N θ x = radonSkAt (masked f N) N θ x :=
  radonLegacyAt_eq_sk_odd f N hN hodd θ x

/-- … and for even `N` maps row 0 to row `N`, outside the rows scikit-image sums, while
scikit-image's row 0 is never sampled: the exact difference set. -/
theorem coords_legacy_even (N : Nat) (hN : 2 ≤ N) (heven : N % 2 = 0) (θ : ℝ) (x y : Nat) (hy : y < N) :
    torchCoordLegacy N θ x y = skCoord N θ x (N - y) ∧ 1 ≤ N - y ∧ (y = 0 → N - y = N) :=
  ⟨torchCoordLegacy_eq_reflect N hN θ x y (N - y) (by omega), by omega, by intro h; omega⟩

/-- `radon_legacy_counterexample` (N = 2, one bright pixel at (0,1), θ = 0): the pre-fix
transform returned 0 where scikit-image (and the column sum) give 1. -/
theorem radon_legacy_counterexample :
    radonLegacyAt pin 2 (0 : ℝ) 1 = 0 ∧ radonSkAt (masked pin 2) 2 (0 : ℝ) 1 = 1 :=
  radon_legacy_counter

/-- **radon_agree_list**: the two executables the driver runs agree on list images — the whole
sinogram `[angles][N]` of radon_torch on `img` is scikit-image's sinogram of the disc-masked
image, for every size `N ≥ 2` and every angle list. -/
theorem radon_agree_list (img : List (List ℝ)) (hN : 2 ≤ img.length) (thetas : List ℝ) :
    radonTorch img thetas = radonSk (maskImg img) thetas :=
  radonTorch_eq_radonSk img hN thetas

example : radonTorch [[0, 1], [2, 3]] [0, (45 : ℝ)] = radonSk (maskImg [[0, 1], [2, 3]]) [0, 45] :=
  radon_agree_list _ (by simp) _

/-! ## 1b. Symmetries of the transform -/

/-- **radon_mask_idempotent**: radon_torch masks the image itself, so masking first changes
nothing (the sinogram depends only on the disc-masked image). -/
theorem radon_mask_idempotent (f : Int → Int → ℝ) (N : Nat) (θ : ℝ) (x : Nat) :
    radonTorchAt (masked f N) N θ x = radonTorchAt f N θ x :=
  radonTorchAt_masked f N θ x

/-- the shared bilinear primitive commutes with transposition and with reflection of the rows
about any integer (the upper/lower neighbours and their weights swap). -/
theorem bilinear_symmetries (f : Int → Int → ℝ) (K : ℤ) (u v : ℝ) :
    bilinear f u v = bilinear (fun i j => f j i) v u ∧
    bilinear f ((K : ℝ) - u) v = bilinear (fun i j => f (K - i) j) u v :=
  ⟨bilinear_transpose f u v, bilinear_reflect_row f K u v⟩

/-- **radon_rot90** (reference, every size): the transform at `θ + 90°` is the transform at `θ`
of the image rotated by 90° about `(N//2, N//2)` — the sinogram of the rotated image is the
sinogram shifted by 90° in angle. -/
theorem radon_rot90 (f : Int → Int → ℝ) (N : Nat) (θ : ℝ) (x : Nat) :
    radonSkAt f N (θ + 90) x = radonSkAt (rot90 N f) N θ x :=
  radonSkAt_add_90 f N θ x

/-- **radon_rot90_torch**: the same for the torch port, where the disc mask is applied before
the rotation … -/
theorem radon_rot90_torch (f : Int → Int → ℝ) (N : Nat) (hN : 2 ≤ N) (θ : ℝ) (x : Nat) :
    radonTorchAt f N (θ + 90) x = radonSkAt (rot90 N (masked f N)) N θ x :=
  radonTorchAt_add_90 f N hN θ x

/-- … and for odd `N`, where the disc mask is invariant under the rotation, radon_torch of the
rotated image is radon_torch shifted by 90°. -/
theorem radon_rot90_torch_odd (f : Int → Int → ℝ) (N : Nat) (hN : 2 ≤ N) (hodd : N % 2 = 1) (θ : ℝ) (x : Nat) :
    radonTorchAt f N (θ + 90) x = radonTorchAt (rot90 N f) N θ x :=
  radonTorchAt_add_90_odd f N hN hodd θ x

example : radonTorchAt pin 3 ((37 : ℝ) + 90) 1 = radonTorchAt (rot90 3 pin) 3 37 1 :=
  radon_rot90_torch_odd pin 3 (by norm_num) (by norm_num) _ _

/-- `mask_rot90_even_counterexample`: for even `N` the disc mask is *not* invariant under the
rotation about `N//2` (N = 2: pixel (1,0) is in the disc, its image (2,1) is outside the
array), which is why the odd-size statement above needs its hypothesis. -/
theorem mask_rot90_even_counterexample :
    inDisc 2 1 0 = true ∧ inDisc 2 (2 * ((2 / 2 : Nat) : ℤ) - 0) 1 = false :=
  inDisc_rot90_even_counter

/-! ## 2. Fourier filters -/

/-- **filters_agree**: for each of the six filter names, every size `P ≥ 2` and every bin,
the factor get_fourier_filter_torch applies (torch window formulas, `linspace(0,π,P+1)[:-1]`)
equals scikit-image's (numpy window formulas, `linspace(endpoint=False)`). -/
theorem filters_agree (name : FilterName) (P k : Nat) (hP : 2 ≤ P) :
    (windowTorch name P k : ℝ) = windowSk name P k :=
  window_agree name P k hP

/-- … hence the whole filters coincide (the ramp `2·Re(fft(f))` is built identically). -/
theorem fourier_filter_agree (name : FilterName) (P : Nat) (hP : 2 ≤ P) :
    (fourierFilterTorch name P : List ℝ) = fourierFilterSk name P :=
  fourierFilter_agree name P hP

example : (windowTorch .hamming 64 5 : ℝ) = windowSk .hamming 64 5 := filters_agree _ _ _ (by norm_num)

/-- `filters_cosine_legacy_counterexample`, for **every** even size `2m`: at the
zero-frequency bin scikit-image's cosine window is `sin(π/2) = 1`, the pre-fix window
(`torch.linspace(0, π, size)`, end point included) is `sin(π·m/(2m-1)) ≠ 1`. -/
theorem filters_cosine_legacy_counterexample (m : Nat) (hm : 1 ≤ m) :
    (windowSk .cosine (2 * m) 0 : ℝ) = 1 ∧ (cosineWindowLegacy (2 * m) 0 : ℝ) ≠ 1 :=
  ⟨cosine_sk_zero m hm, cosine_legacy_zero_ne m hm⟩

example : (cosineWindowLegacy 64 0 : ℝ) ≠ 1 := (filters_cosine_legacy_counterexample 32 (by norm_num)).2

/-! ## 2b. The `n` array and the size check, for every size -/

/-- **nlist_agree_even**: for every even size — `size % 4 = 0` and `size % 4 = 2` alike —
scikit-image's `n` (float bounds `size/2`, `dtype=int`, NumPy's length and truncation rules) is
the port's integer `n` (`size // 2`), including the shared quirk for `size % 4 = 2`. -/
theorem nlist_agree_even (P : Nat) (hP : P % 2 = 0) :
    nListSk P = (nList P).map fun (m : Nat) => (m : Int) :=
  nListSk_even P hP

/-- the quirk itself: for `size % 4 = 2` the second half of `n` is even (`n = [1, 3, 2]` for size
6), so the spatial kernel is *not* the symmetric `min(j, size - j)`; both sources share it. -/
theorem nlist_mod4_two_example : nList 6 = [1, 3, 2] ∧ nListSk 6 = [1, 3, 2] ∧ nList 8 = [1, 3, 3, 1] := by
  decide

/-- **filter_sk_literal_even**: for every even size and every filter name scikit-image's literal
construction (its own `n`, broadcasting, size check) is the closed form `fourierFilterSk` that
`fourier_filter_agree` is about. -/
theorem filter_sk_literal_even (P : Nat) (hP : P % 2 = 0) (h0 : P ≠ 0) (name : String) (nm : FilterName)
    (hnm : parseFilter name = some nm) :
    (fourierFilterSkE P name : Except String (List ℝ)) = .ok (fourierFilterSk nm P) :=
  fourierFilterSkE_even P hP h0 name nm hnm

/-- **filter_odd_size_rejected**: every odd size ≥ 3 is rejected by both with a ValueError — the
port by its explicit check, scikit-image because its `n` has `size//2 + 1` elements and cannot
be broadcast into `f[1::2]`. -/
theorem filter_odd_size_rejected (P : Nat) (hP : P % 2 = 1) (h3 : 3 ≤ P) (name : String) :
    (fourierFilterTorchE P name : Except String (List ℝ)) = .error "ValueError" ∧
    (fourierFilterSkE P name : Except String (List ℝ)) = .error "ValueError" :=
  fourierFilter_odd_rejected P hP h3 name

/-- **filters_every_size_agree**: the outcome (filter or ValueError) of the two constructions is
the same for every size except 0 and 1 and every filter name. -/
theorem filters_every_size_agree (P : Nat) (hP0 : P ≠ 0) (hP1 : P ≠ 1) (name : String) (nm : FilterName)
    (hnm : parseFilter name = some nm) :
    (fourierFilterTorchE P name : Except String (List ℝ)) = fourierFilterSkE P name :=
  fourierFilterE_agree P hP0 hP1 name nm hnm

example : (fourierFilterTorchE 6 "hann" : Except String (List ℝ)) = fourierFilterSkE 6 "hann" :=
  filters_every_size_agree 6 (by norm_num) (by norm_num) "hann" .hann rfl

/-- `filter_size_zero_counterexample` (growth 5; degenerate size, outside "size must be even ≥ 2"):
both constructions reject size 0 for every name, but with different exception classes — the port
in `torch.arange(-1, 0, -2)` (RuntimeError), scikit-image in `f[0] = 0.25` (IndexError).  Replayed
on the real code by the filter witness `size = 0`. -/
theorem filter_size_zero_counterexample (name : String) :
    (fourierFilterTorchE 0 name : Except String (List ℝ)) = .error "RuntimeError" ∧
    (fourierFilterSkE 0 name : Except String (List ℝ)) = .error "IndexError" :=
  fourierFilter_size_zero name

/-- `filter_size_one_counterexample` (outside the documented domain "size must be even"): the port
rejects size 1, NumPy broadcasts the one-element `n` into the empty slice and scikit-image
returns a one-element filter. -/
theorem filter_size_one_counterexample :
    (fourierFilterTorchE 1 "ramp" : Except String (List ℝ)) = .error "ValueError" ∧
    (match (fourierFilterSkE 1 "ramp" : Except String (List ℝ)) with
      | .ok f => f.length = 1
      | .error _ => False) :=
  fourierFilter_size_one

/-! ## 3. Filtered back-projection -/

/-- **interp_agree**: iradon_torch's interpolant (floor, clamp(0, N-2), linear blend, zero
outside the detector) at `t + N//2` is `np.interp(t, arange(N) - N//2, v, left=0, right=0)`,
for every detector size and every real position `t`. -/
theorem interp_agree (N : Nat) (v : Int → ℝ) (t : ℝ) :
    interpTorch N v (t + ((N / 2 : Nat) : ℝ)) = npInterp N v t :=
  Radon.interp_agree N v t

/-- **iradon_agree**: on the model, iradon_torch = skimage.transform.iradon for every
sinogram, angle set (given or default), filter name and circle flag (same circle-to-square
padding, padded filter size, filter, interpolant, mask and scaling). -/
theorem iradon_agree (sino : List (List ℝ)) (thetas : Option (List ℝ)) (name : FilterName) (circle : Bool) :
    iradonTorch sino thetas name circle = iradonSk sino thetas name circle :=
  Radon.iradon_agree sino thetas name circle

/-- the pre-fix interpolant (no mask: linear extrapolation from the clamped pair) agrees
exactly where the position is inside the detector, `0 ≤ u ≤ N-1` … -/
theorem interp_legacy_agree_inside (N : Nat) (v : Int → ℝ) (u : ℝ) (h0 : 0 ≤ u) (h1 : u ≤ ((N : ℤ) - 1 : ℤ)) :
    interpTorchLegacy N v u = interpTorch N v u :=
  interp_legacy_inside N v u h0 h1

example : interpTorchLegacy 4 (fun i => (i : ℝ)) (3 / 2) = interpTorch 4 (fun i => (i : ℝ)) (3 / 2) :=
  interp_legacy_agree_inside 4 _ _ (by norm_num) (by norm_num)

/-- … and not outside (`interp_legacy_counterexample`: detector [0, 1], position 2 — the
pre-fix code extrapolated to 2, the reference and the fixed code give 0). -/
theorem interp_legacy_counterexample :
    interpTorchLegacy 2 (fun i => if i = 1 then (1 : ℝ) else 0) 2 = 2 ∧
    interpTorch 2 (fun i => if i = 1 then (1 : ℝ) else 0) 2 = 0 :=
  interp_legacy_counter

/-! ## 3b. Padded FFT size, zero padding, shapes -/

/-- **padded_size_spec**: `paddedSize N` (`max(64, 2**ceil(log2(2N)))`) is a power of two, at
least 64, at least `2N` (so the `P - N` appended zeros are a genuine padding of at least the
row length), and the smallest such (it is 64 or its half is below `2N`). -/
theorem padded_size_spec (N : Nat) :
    (∃ k, paddedSize N = 2 ^ k) ∧ 64 ≤ paddedSize N ∧ 2 * N ≤ paddedSize N ∧
      (paddedSize N = 64 ∨ paddedSize N < 4 * N) :=
  ⟨paddedSize_pow2 N, paddedSize_ge N, paddedSize_ge_two_mul N, paddedSize_minimal N⟩

example : paddedSize 33 = 128 ∧ paddedSize 47 = 128 ∧ paddedSize 5 = 64 := by decide

/-- **padded_size_unique**: the specification determines the value — any implementation of "least
power of two ≥ max(64, 2N)" (torch's float32 `2**ceil(log2(2N))`, NumPy's float64 one, an
integer loop) returns `paddedSize N`, for every N. -/
theorem padded_size_unique (N P : Nat) (hP : IsPaddedSize N P) : P = paddedSize N :=
  isPaddedSize_unique hP (isPaddedSize_paddedSize N)

/-- **padded_size_formula**: for ALL `N` the model's doubling loop equals the closed form both
libraries write, `max(64, 2 ** ceil(log2(2 N)))` — with the integer ceiling logarithm and with
the real logarithm. -/
theorem padded_size_formula (N : Nat) :
    paddedSize N = max 64 (2 ^ Nat.clog 2 (2 * N)) ∧
    paddedSize N = max 64 (2 ^ ⌈Real.logb 2 ((2 * N : Nat) : ℝ)⌉₊) :=
  ⟨paddedSize_eq_clog N, paddedSize_eq_real_formula N⟩

/-- **padded_size_bitlength_differs_iff**: the integer shortcut `max(64, 1 << (2N).bit_length())`
(least power of two *strictly* above `2N`) differs from the padded size exactly when `2N` is
itself a power of two ≥ 64 — the exact difference set, for every N. -/
theorem padded_size_bitlength_differs_iff (N : Nat) :
    paddedSizeBitLength N ≠ paddedSize N ↔ ∃ k, 6 ≤ k ∧ 2 * N = 2 ^ k :=
  paddedSizeBitLength_ne_iff N

/-- literal witness: detector size 32 (`2N = 64`): 64 vs 128. -/
theorem padded_size_bitlength_counterexample : paddedSize 32 = 64 ∧ paddedSizeBitLength 32 = 128 := by
  refine ⟨by decide, ?_⟩
  unfold paddedSizeBitLength
  have : Nat.size (2 * 32) = 7 := by
    have := @Nat.size_pow 6
    norm_num at this ⊢
    exact this
  rw [this]; norm_num

/-- **filter_step_agree**: the torch and scikit-image filtering steps are the same function of the
detector row — same padded size (`paddedSize D` for both), same filter (`fourier_filter_agree`
at that size), same `real(ifft(fft(pad row)·H))[:D]` — for every detector size and filter name. -/
theorem filter_step_agree (name : FilterName) (D : Nat) (row : List ℝ) :
    filterRow (fourierFilterTorch name (paddedSize D)) (paddedSize D) D row
      = filterRow (fourierFilterSk name (paddedSize D)) (paddedSize D) D row :=
  filterRow_agree name D row

/-- **filter_step_spectral**: the executable list DFT step of Core/Dft.lean *is* the Fourier
filtering over ℂ: entry `n < N` of `filterRow` is the real part of Mathlib-ℂ
`idft(fft(pad x) · H)` (Lemmas/Spectral.lean), for every padded size `P ≥ N`, `P ≠ 0`. -/
theorem filter_step_spectral (filt : List ℝ) (P N : Nat) (row : List ℝ) (hr : row.length = N) (hf : filt.length = P)
    (hP : N ≤ P) (hP0 : P ≠ 0) (n : Nat) (hn : n < N) :
    (filterRow filt P N row).getD n 0
      = (Spectral.idft P (fun k => ((filt.getD k 0 : ℝ) : ℂ) *
          Spectral.dft P (fun j => ((row.getD j 0 : ℝ) : ℂ)) k) n).re :=
  filterRow_spectral filt P N row hr hf hP hP0 n hn

example : (filterRow [1, 2, 3, 4] 4 2 [5, 6]).getD 1 0
    = (Spectral.idft 4 (fun k => ((([1, 2, 3, 4] : List ℝ).getD k 0 : ℝ) : ℂ) *
        Spectral.dft 4 (fun j => ((([5, 6] : List ℝ).getD j 0 : ℝ) : ℂ)) k) 1).re :=
  filter_step_spectral _ 4 2 _ rfl rfl (by norm_num) (by norm_num) 1 (by norm_num)

/-- the Fourier filter has exactly the padded size, and filtering a detector row of length `N`
with a filter of length `P ≥ N` returns a row of length `N` (`[:N]` after the inverse FFT). -/
theorem filter_lengths (name : FilterName) (P N : Nat) (row : List ℝ) (hr : row.length = N) (hP : N ≤ P) :
    (fourierFilterTorch name P : List ℝ).length = P ∧
    (filterRow (fourierFilterTorch name P) P N row).length = N :=
  ⟨fourierFilterTorch_length name P, filterRow_length_eq _ P N row hr (fourierFilterTorch_length name P) hP⟩

/-- **iradon_output_shape**: the reconstruction is `out × out` with the default output size
(`N` in circle mode, `floor(sqrt(N²/2))` otherwise). -/
theorem iradon_output_shape (sino : List (List ℝ)) (thetas : Option (List ℝ)) (name : FilterName) (circle : Bool) :
    (iradonTorch sino thetas name circle).length = outputSize (R := ℝ) (sino.headD []).length circle ∧
    ∀ row ∈ iradonTorch sino thetas name circle, row.length = outputSize (R := ℝ) (sino.headD []).length circle :=
  iradonTorch_shape sino thetas name circle

/-! ## 4. Linearity, batching, the 0° projection -/

/-- **radon_linear** (torch port), every size and angle. -/
theorem radon_linear (f g : Int → Int → ℝ) (a b : ℝ) (N : Nat) (θ : ℝ) (x : Nat) :
    radonTorchAt (fun i j => a * f i j + b * g i j) N θ x
      = a * radonTorchAt f N θ x + b * radonTorchAt g N θ x :=
  radonTorchAt_linear f g a b N θ x

/-- the reference is linear too. -/
theorem radon_sk_linear (f g : Int → Int → ℝ) (a b : ℝ) (N : Nat) (θ : ℝ) (x : Nat) :
    radonSkAt (fun i j => a * f i j + b * g i j) N θ x
      = a * radonSkAt f N θ x + b * radonSkAt g N θ x :=
  radonSkAt_linear f g a b N θ x

/-- **radon_linear_list**: radon_torch is linear on list images of equal shape (whole
sinograms, every angle list) … -/
theorem radon_linear_list (a b : ℝ) (X Y : List (List ℝ)) (h : SameShape X Y) (thetas : List ℝ) :
    radonTorch (linRows a b X Y) thetas = linRows a b (radonTorch X thetas) (radonTorch Y thetas) :=
  radonTorch_linear a b X Y h thetas

/-- … and so is the reference. -/
theorem radon_sk_linear_list (a b : ℝ) (X Y : List (List ℝ)) (h : SameShape X Y) (thetas : List ℝ) :
    radonSk (linRows a b X Y) thetas = linRows a b (radonSk X thetas) (radonSk Y thetas) :=
  radonSk_linear a b X Y h thetas

/-- **filter_step_linear**: the FFT filtering step `real(ifft(fft(pad row) * filter))[:N]` is
linear on detector rows of equal length, for every filter list and every padded size. -/
theorem filter_step_linear (filt : List ℝ) (P N : Nat) (a b : ℝ) (x y : List ℝ) (h : x.length = y.length) :
    filterRow filt P N (linRow a b x y) = linRow a b (filterRow filt P N x) (filterRow filt P N y) :=
  filterRow_linear filt P N a b x y h

/-- **iradon_linear** (full): `iradonTorch (a•s₁ + b•s₂) = a•iradonTorch s₁ + b•iradonTorch s₂`
for sinograms of equal shape — circle-to-square padding, FFT filtering, interpolation,
accumulation, mask and scaling — for every shape, angle set (given or default), filter name
and circle flag. -/
theorem iradon_linear (a b : ℝ) (s1 s2 : List (List ℝ)) (h : SameShape s1 s2)
    (thetas : Option (List ℝ)) (name : FilterName) (circle : Bool) :
    iradonTorch (linRows a b s1 s2) thetas name circle
      = linRows a b (iradonTorch s1 thetas name circle) (iradonTorch s2 thetas name circle) :=
  iradonTorch_linear a b s1 s2 h thetas name circle

/-- the reference is linear too. -/
theorem iradon_sk_linear (a b : ℝ) (s1 s2 : List (List ℝ)) (h : SameShape s1 s2)
    (thetas : Option (List ℝ)) (name : FilterName) (circle : Bool) :
    iradonSk (linRows a b s1 s2) thetas name circle
      = linRows a b (iradonSk s1 thetas name circle) (iradonSk s2 thetas name circle) :=
  iradonSk_linear a b s1 s2 h thetas name circle

example : iradonTorch (linRows 2 3 [[1, 2], [3, 4]] [[0, 1], [1, 0]]) none .hann true
    = linRows 2 3 (iradonTorch [[1, 2], [3, 4]] none .hann true) (iradonTorch [[0, 1], [1, 0]] none .hann true) :=
  by
  apply iradon_linear
  exact List.Forall₂.cons (by simp) (List.Forall₂.cons (by simp) List.Forall₂.nil)

/-- **backprojection_linear** (formerly `iradon_linear_partial`; the accessor-level core of
`iradon_linear`): interpolation + accumulation over every angle set and every pixel is linear
in the filtered rows, for the torch interpolant … -/
theorem backprojection_linear (D : Nat) (l : List ((Int → ℝ) × (Int → ℝ) × ℝ)) (a b : ℝ) (radius r c : Nat) :
    backprojAt (fun D v t => interpTorch D v (t + Num.ofNat (D / 2))) D
        (l.map fun q => (fun i => a * q.1 i + b * q.2.1 i, q.2.2)) radius r c
      = a * backprojAt (fun D v t => interpTorch D v (t + Num.ofNat (D / 2))) D (l.map fun q => (q.1, q.2.2)) radius r c
        + b * backprojAt (fun D v t => interpTorch D v (t + Num.ofNat (D / 2))) D (l.map fun q => (q.2.1, q.2.2)) radius r c :=
  backprojAt_linear (fun D v t => interpTorch D v (t + Num.ofNat (D / 2)))
    (fun D v w a b _ => interp_linear D v w a b _) D l a b radius r c

/-- … and for the reference interpolant. -/
theorem backprojection_sk_linear (D : Nat) (l : List ((Int → ℝ) × (Int → ℝ) × ℝ)) (a b : ℝ) (radius r c : Nat) :
    backprojAt npInterp D (l.map fun q => (fun i => a * q.1 i + b * q.2.1 i, q.2.2)) radius r c
      = a * backprojAt npInterp D (l.map fun q => (q.1, q.2.2)) radius r c
        + b * backprojAt npInterp D (l.map fun q => (q.2.1, q.2.2)) radius r c :=
  backprojAt_linear _ (fun D v w a b t => npInterp_linear D v w a b t) D l a b radius r c

/-- **batched_eq_single**: item `b` of a batched radon_torch call is the call on image `b`. -/
theorem batched_eq_single (imgs : List (List (List ℝ))) (thetas : List ℝ) (b : Nat) :
    (radonTorchBatch imgs thetas)[b]? = (imgs[b]?).map fun img => radonTorch img thetas := by
  unfold radonTorchBatch; simp

theorem iradon_batched_eq_single (sinos : List (List (List ℝ))) (thetas : Option (List ℝ)) (name : FilterName)
    (circle : Bool) (b : Nat) :
    (iradonTorchBatch sinos thetas name circle)[b]? = (sinos[b]?).map fun s => iradonTorch s thetas name circle := by
  unfold iradonTorchBatch; simp

/-- **proj0_colsum**: at 0° the projection of radon_torch is the column sum of the
disc-masked image, for every size `N ≥ 2` (odd or even) and every detector pixel. -/
theorem proj0_colsum (f : Int → Int → ℝ) (N : Nat) (hN : 2 ≤ N) (x : Nat) :
    radonTorchAt f N (0 : ℝ) x = ((List.range N).map fun y : Nat => masked f N (y : Int) (x : Int)).sum := by
  rw [radonTorchAt_eq_sk f N hN, radonSkAt_zero]

example : radonTorchAt pin 2 (0 : ℝ) 1 = 1 := by
  rw [proj0_colsum pin 2 (by norm_num) 1]
  have hr : List.range 2 = [0, 1] := by decide
  rw [hr]
  simp [masked, inDisc, pin]

/-! ## 5. The half turn, exactly -/

/-- **radon_180**: at 180° every sample is a grid point — the pixel reflected through the centre
`(N//2, N//2)`; no interpolation (reference, every size). -/
theorem radon_180 (f : Int → Int → ℝ) (N : Nat) (x : Nat) :
    radonSkAt f N (180 : ℝ) x
      = ((List.range N).map fun y : Nat =>
          f (2 * ((N / 2 : Nat) : ℤ) - (y : ℤ)) (2 * ((N / 2 : Nat) : ℤ) - (x : ℤ))).sum :=
  radonSkAt_180 f N x

/-- **radon_180_odd**: odd `N` — the 180° projection is the 0° projection flipped, for both
implementations. -/
theorem radon_180_odd (f : Int → Int → ℝ) (N : Nat) (hN : 2 ≤ N) (hodd : N % 2 = 1) (x : Nat) (hx : x < N) :
    radonSkAt f N (180 : ℝ) x = radonSkAt f N (0 : ℝ) (N - 1 - x) ∧
    radonTorchAt f N (180 : ℝ) x = radonTorchAt f N (0 : ℝ) (N - 1 - x) :=
  ⟨radonSkAt_180_odd f N hodd x hx, radonTorchAt_180_odd f N hN hodd x hx⟩

/-- **radon_180_even**: even `N` — the flip is shifted by one bin (`x ↦ N - x`; bin 0 reads column
`N`, outside the image) and by one row (row 0 is not summed, row `N` is): the reference for any
accessor, the torch port with its disc mask (row `N` is masked to zero). -/
theorem radon_180_even (f : Int → Int → ℝ) (N : Nat) (hN : 2 ≤ N) (heven : N % 2 = 0) (x : Nat) (hx : x ≤ N) :
    radonSkAt f N (180 : ℝ) x
      = radonSkAt f N (0 : ℝ) (N - x) - f 0 ((N - x : Nat) : ℤ) + f (N : ℤ) ((N - x : Nat) : ℤ) ∧
    radonTorchAt f N (180 : ℝ) x
      = radonTorchAt f N (0 : ℝ) (N - x) - masked f N 0 ((N - x : Nat) : ℤ) :=
  ⟨radonSkAt_180_even f N heven x hx, radonTorchAt_180_even f N hN heven x hx⟩

/-- `radon_180_even_flip_counterexample` (N = 2, bright pixel (0,1)): the "mirrored 0° projection"
shortcut is wrong for even sizes — bin 0 at 180° is 0, the flipped 0° projection gives 1. -/
theorem radon_180_even_flip_counterexample :
    radonTorchAt pin 2 (180 : ℝ) 0 = 0 ∧ radonTorchAt pin 2 (0 : ℝ) (2 - 1 - 0) = 1 := by
  have hr : List.range 2 = [0, 1] := by decide
  constructor
  · rw [(radon_180_even pin 2 (by norm_num) (by norm_num) 0 (by norm_num)).2,
      proj0_colsum pin 2 (by norm_num), hr]
    simp [masked, inDisc]
  · rw [proj0_colsum pin 2 (by norm_num), hr]
    simp [masked, inDisc, pin]

/-! ## 6. Geometry of the reconstruction (circle on and off) -/

/-- **output_size_spec**: the default output size is `N` in circle mode and, with `circle=False`,
the integer square root of `N²/2`: `2 m² ≤ N² < 2 (m+1)²`, for every `N`. -/
theorem output_size_spec (N : Nat) :
    outputSize (R := ℝ) N true = N ∧
    2 * (outputSize (R := ℝ) N false) ^ 2 ≤ N ^ 2 ∧ N ^ 2 < 2 * (outputSize (R := ℝ) N false + 1) ^ 2 :=
  ⟨outputSize_circle N, outputSize_nocircle_spec N⟩

/-- **diag_size_spec**: the circle-mode detector padding target `D = ceil(sqrt(2)·N)` satisfies
`D - 1 < sqrt(2)·N ≤ D` and `N ≤ D`, for every `N`. -/
theorem diag_size_spec (N : Nat) :
    ((diagSize (R := ℝ) N : ℕ) : ℝ) - 1 < Real.sqrt 2 * N ∧ Real.sqrt 2 * N ≤ (diagSize (R := ℝ) N : ℕ) ∧
      N ≤ diagSize (R := ℝ) N :=
  diagSize_spec N

/-- **circle_to_square_alignment**: the padded row has length `D`, detector bin `i` of the sinogram
sits at bin `i + (D//2 - N//2)` (the rotation axis `N//2` lands on `D//2`), every other bin is 0. -/
theorem circle_to_square_alignment (D N : Nat) (row : List ℝ) (hr : row.length = N) (hD : N ≤ D) (j : Nat) :
    (circleToSquare D N row).length = D ∧
    (circleToSquare D N row).getD j 0
      = if D / 2 - N / 2 ≤ j ∧ j < D / 2 - N / 2 + N then row.getD (j - (D / 2 - N / 2)) 0 else 0 :=
  ⟨circleToSquare_length_eq D N row hr hD, circleToSquare_getD D N row hr j⟩

example : (circleToSquare 5 3 [7, 8, 9] : List ℝ).getD (3 / 2 + (5 / 2 - 3 / 2)) 0 = ([7, 8, 9] : List ℝ).getD (3 / 2) 0 := by
  rw [(circle_to_square_alignment 5 3 [7, 8, 9] rfl (by norm_num) _).2]
  norm_num

/-- **backprojection_axis**: the rotation-axis pixel `(out//2, out//2)` reads detector coordinate 0
(bin `D//2`) at every angle. -/
theorem backprojection_axis (radius : Nat) (θ : ℝ) : detT radius θ radius radius = 0 :=
  detT_centre radius θ

/-- **backprojection_reads_inside** — where the back-projection reads the detector, for every
angle: in circle mode a pixel inside the reconstruction circle stays within `radius = N//2` of
the axis (inside the diagonal padding); with `circle=False` every pixel of the
`floor(sqrt(N²/2))`² output stays within `N/2` of the axis. -/
theorem backprojection_reads_inside (N : Nat) (θ : ℝ) (r c : Nat) :
    (outsideCircle (N / 2) r c = false → (detT (N / 2) θ r c) ^ 2 ≤ ((N / 2 : Nat) : ℝ) ^ 2) ∧
    (r < outputSize (R := ℝ) N false → c < outputSize (R := ℝ) N false →
      (detT (outputSize (R := ℝ) N false / 2) θ r c) ^ 2 ≤ ((N : ℝ) / 2) ^ 2) :=
  ⟨detT_circle_bound (N / 2) θ r c, detT_nocircle_bound N θ r c⟩

/-! ## 7. The optional `output_size` argument -/

/-- **iradon_output_size_agree**: with an explicit `output_size` (any value: smaller, equal or
larger than the sinogram width; circle on or off) iradon_torch is still skimage's iradon on the
model — same grid radius `output_size // 2`, which is also the radius of the circle mask. -/
theorem iradon_output_size_agree (sino : List (List ℝ)) (thetas : Option (List ℝ)) (name : FilterName)
    (circle : Bool) (out : Nat) :
    iradonTorchOut sino thetas name circle out = iradonSkOut sino thetas name circle out :=
  iradonOut_agree sino thetas name circle out

/-- the default-size functions are the explicit ones at the default output size. -/
theorem iradon_default_output_size (sino : List (List ℝ)) (thetas : Option (List ℝ)) (name : FilterName) (circle : Bool) :
    iradonTorch sino thetas name circle
      = iradonTorchOut sino thetas name circle (outputSize (R := ℝ) (sino.headD []).length circle) ∧
    iradonSk sino thetas name circle
      = iradonSkOut sino thetas name circle (outputSize (R := ℝ) (sino.headD []).length circle) :=
  ⟨rfl, rfl⟩

/-- **iradon_output_size_linear / shape**: linear in the sinogram and `out × out` for every
explicit output size, both implementations. -/
theorem iradon_output_size_linear (a b : ℝ) (s1 s2 : List (List ℝ)) (h : SameShape s1 s2)
    (thetas : Option (List ℝ)) (name : FilterName) (circle : Bool) (out : Nat) :
    iradonTorchOut (linRows a b s1 s2) thetas name circle out
      = linRows a b (iradonTorchOut s1 thetas name circle out) (iradonTorchOut s2 thetas name circle out) ∧
    iradonSkOut (linRows a b s1 s2) thetas name circle out
      = linRows a b (iradonSkOut s1 thetas name circle out) (iradonSkOut s2 thetas name circle out) :=
  ⟨iradonTorchOut_linear a b s1 s2 h thetas name circle out, iradonSkOut_linear a b s1 s2 h thetas name circle out⟩

theorem iradon_output_size_shape (sino : List (List ℝ)) (thetas : Option (List ℝ)) (name : FilterName) (circle : Bool)
    (out : Nat) :
    (iradonTorchOut sino thetas name circle out).length = out ∧
    ∀ row ∈ iradonTorchOut sino thetas name circle out, row.length = out :=
  iradonTorchOut_shape sino thetas name circle out

example : (iradonTorchOut [[1, 2, 3], [4, 5, 6]] none .ramp true 5 : List (List ℝ)).length = 5 :=
  (iradon_output_size_shape _ _ _ _ 5).1

/-! ## 8. Growth round 5: rectangular images, the default angle set, validated calls, histories -/

/-- **radon_rect_agree**: on an `H × W` image (disc mask on the full grid with radius
`min(H,W)//2` about `(H//2, W//2)`, crop to the inscribed square, rotation about the crop's
`N//2`) every sinogram sample of radon_torch is scikit-image's sample on the disc-masked image,
for every shape whose shorter side is ≥ 2. -/
theorem radon_rect_agree (f : Int → Int → ℝ) (H W : Nat) (hN : 2 ≤ min H W) (θ : ℝ) (x : Nat) :
    radonTorchRectAt f H W θ x = radonSkRectAt (maskedRect f H W) H W θ x :=
  radonTorchRectAt_eq_sk f H W hN θ x

/-- … and so are the whole sinograms the driver computes, with a given angle list or with the
default `arange(180)` (`thetas = none`). -/
theorem radon_rect_agree_list (img : List (List ℝ)) (hN : 2 ≤ min img.length (img.headD []).length)
    (thetas : Option (List ℝ)) :
    radonTorchRect img thetas
      = radonSkRectAcc (maskedRect (px img) img.length (img.headD []).length) img.length (img.headD []).length thetas :=
  radonRectAcc_agree _ _ _ hN thetas

example : radonTorchRect [[1, 2], [3, 4], [5, (6 : ℝ)]] none
    = radonSkRectAcc (maskedRect (px [[1, 2], [3, 4], [5, (6 : ℝ)]]) 3 2) 3 2 none :=
  radon_rect_agree_list _ (by simp) _

/-- **radon_rect_square**: on a square image the rectangular model *is* the square model all the
other theorems are about (the crop is the identity, the mask is the same disc). -/
theorem radon_rect_square (f : Int → Int → ℝ) (N : Nat) (θ : ℝ) (x : Nat) :
    radonTorchRectAt f N N θ x = radonTorchAt f N θ x :=
  radonTorchRectAt_square f N θ x

/-- **crop_offset_agree / crop_offset_spec**: the port's `(e + 1) // 2` is scikit-image's
`int(np.ceil(e / 2))` for every axis, the crop window `[off, off + N)` lies inside the axis and
starts at `⌈e/2⌉`. -/
theorem crop_offset_agree (L N : Nat) : cropOffSk (R := ℝ) L N = cropOff L N := cropOffSk_eq L N

theorem crop_offset_spec (L N : Nat) (h : N ≤ L) :
    cropOff L N + N ≤ L ∧ L - N ≤ 2 * cropOff L N ∧ 2 * cropOff L N ≤ L - N + 1 :=
  cropOff_spec L N h

example : cropOff 7 4 = 2 ∧ cropOff 4 4 = 0 ∧ cropOff 9 6 = 2 := by decide

/-- **crop_mask_centre**: in the cropped frame the disc centre `L//2` sits on the rotation centre
`N//2` — except for an EVEN crop of an axis with an ODD excess, where it is one pixel before it
(the mask is not centred on the rotation axis there; scikit-image has the same quirk). -/
theorem crop_mask_centre (L N : Nat) (h : N ≤ L) (hN : 1 ≤ N) :
    L / 2 - cropOff L N = N / 2 - (if (L - N) % 2 = 1 ∧ N % 2 = 0 then 1 else 0) ∧ cropOff L N ≤ L / 2 :=
  Radon.crop_mask_centre L N h hN

/-- literal witness of the quirk: `7 × 4` image, rows cropped to `[2, 6)`, disc centre row 3 is
row 1 of the crop, the rotation centre is row 2. -/
theorem crop_mask_centre_counterexample : 7 / 2 - cropOff 7 4 = 1 ∧ 4 / 2 = 2 := by decide

/-- **radon_rect_linear**: radon_torch is linear on rectangular images (mask, crop,
interpolation, sum), every shape and angle. -/
theorem radon_rect_linear (f g : Int → Int → ℝ) (a b : ℝ) (H W : Nat) (θ : ℝ) (x : Nat) :
    radonTorchRectAt (fun i j => a * f i j + b * g i j) H W θ x
      = a * radonTorchRectAt f H W θ x + b * radonTorchRectAt g H W θ x :=
  radonTorchRectAt_linear f g a b H W θ x

/-- **proj0_colsum_rect**: at 0° the projection of a rectangular image is the column sum of the
cropped, disc-masked image. -/
theorem proj0_colsum_rect (f : Int → Int → ℝ) (H W : Nat) (hN : 2 ≤ min H W) (x : Nat) :
    radonTorchRectAt f H W (0 : ℝ) x
      = ((List.range (min H W)).map fun y : Nat =>
          cropped (maskedRect f H W) (cropOff H (min H W)) (cropOff W (min H W)) (min H W) (y : ℤ) (x : ℤ)).sum :=
  radonTorchRectAt_zero f H W hN x

/-- **radon_default_theta**: `theta=None` is the 180 whole degrees `0, 1, …, 179` (one definition
for `torch.arange(180)` and `np.arange(180)`). -/
theorem radon_default_theta :
    (radonDefaultThetas : List ℝ).length = 180 ∧
    ∀ i, i < 180 → (radonDefaultThetas : List ℝ).getD i 0 = (i : ℝ) :=
  ⟨radonDefaultThetas_length, radonDefaultThetas_getD⟩

/-- **padded_size_even**: the size `iradon_torch` asks `get_fourier_filter_torch` for is never odd
and never 0 — its "Filter size must be even" branch is unreachable from `iradon_torch`. -/
theorem padded_size_even (D : Nat) : paddedSize D % 2 = 0 ∧ paddedSize D ≠ 0 := paddedSize_even D

/-- **iradon_validated_ok**: a call that passes the theta check and names one of the six filters
returns exactly the reconstruction `iradonTorchOut` of sections 3–7 (default or explicit output
size) … -/
theorem iradon_validated_ok (sino : List (List ℝ)) (thetas : Option (List ℝ)) (out : Option Nat) (name : String)
    (circle : Bool) (nm : FilterName) (hth : thetaMismatch thetas sino.length = false)
    (hnm : parseFilter name = some nm) :
    iradonTorchE sino thetas out name circle
      = .ok (iradonTorchOut sino thetas nm circle (out.getD (outputSize (R := ℝ) (sino.headD []).length circle))) :=
  iradonTorchE_ok sino thetas out name circle nm hth hnm

example : iradonTorchE [[1, 2, (3 : ℝ)]] none (some 4) "none" false
    = .ok (iradonTorchOut [[1, 2, (3 : ℝ)]] none .none false 4) :=
  iradon_validated_ok _ _ _ _ _ .none rfl rfl

/-- … and a call with a wrong number of angles or an unknown filter name raises ValueError — the
latter from inside `get_fourier_filter_torch`, after the padding steps. -/
theorem iradon_rejects (sino : List (List ℝ)) (thetas : Option (List ℝ)) (out : Option Nat) (name : String)
    (circle : Bool) (h : thetaMismatch thetas sino.length = true ∨ parseFilter name = none) :
    iradonTorchE sino thetas out name circle = .error "ValueError" := by
  rcases h with h | h
  · exact iradonTorchE_theta sino thetas out name circle h
  · exact iradonTorchE_unknown sino thetas out name circle h

example : iradonTorchE [[1, 2, (3 : ℝ)]] none none "hanning" true = .error "ValueError" :=
  iradon_rejects _ _ _ _ _ (Or.inr rfl)

example : iradonTorchE [[1, 2, (3 : ℝ)]] (some [10, 20]) none "ramp" true = .error "ValueError" :=
  iradon_rejects _ _ _ _ _ (Or.inl rfl)

/-- **iradon_outcomes_agree**: for EVERY argument combination — sinogram, angles given with any
length or omitted, output size given or omitted, any filter argument, circle flag — iradon_torch
and skimage.transform.iradon either both raise ValueError or return the same reconstruction. -/
theorem iradon_outcomes_agree (sino : List (List ℝ)) (thetas : Option (List ℝ)) (out : Option Nat) (name : String)
    (circle : Bool) :
    iradonTorchE sino thetas out name circle = iradonSkE sino thetas out name circle :=
  iradonE_agree sino thetas out name circle

/-- **radon_write_loop_refines**: the code's way of producing the sinogram — one preallocated zero
tensor `[A][N]`, row `i` overwritten in the `i`-th loop iteration — computes exactly the per-angle
map `radonTorch` every other theorem is about: every row is written once, none keeps its zero, none
is overwritten by a later angle (any number of angles, incl. none). -/
theorem radon_write_loop_refines (img : List (List ℝ)) (thetas : List ℝ) :
    radonTorchLoop img thetas = radonTorch img thetas :=
  radonTorchLoop_eq img thetas

/-- **radon_batch_write_loop_refines** (batching no longer "by construction"): the batched code —
one zero tensor `[B][A][N]` and one slice assignment `radon_images[:, i, :] = projection` per angle
across the whole batch — is the per-image call on every batch item. -/
theorem radon_batch_write_loop_refines (imgs : List (List (List ℝ))) (thetas : List ℝ) :
    radonTorchBatchLoop imgs thetas = radonTorchBatch imgs thetas :=
  radonTorchBatchLoop_eq imgs thetas

example : radonTorchBatchLoop [[[1, 2], [3, (4 : ℝ)]], [[0, 1], [1, 0]]] [0, 45, 90]
    = [radonTorch [[1, 2], [3, (4 : ℝ)]] [0, 45, 90], radonTorch [[0, 1], [1, 0]] [0, 45, 90]] := by
  rw [radon_batch_write_loop_refines]; rfl

/-- **op_agree**: one public call, arguments as passed (image of any shape with both sides ≥ 2 and
given or default angles; filter size other than 0, 1 with a known name; any iradon call): the
port's outcome — array or exception class — is the reference's. -/
theorem op_agree (op : Op ℝ) (h : op.inDomain) : evalTorch op = evalSk op := evalTorch_eq_evalSk op h

/-- **session_history_independent**: in every history of calls — valid ones, rejected ones, in any
order — the outcome of call `i` is the outcome of that call alone (`radon.py` threads no state:
`stepTorch` returns its `Unit` state unchanged whether the call returns or raises). -/
theorem session_history_independent (ops : List (Op ℝ)) (i : Nat) :
    (runSession stepTorch ops)[i]? = (ops[i]?).map evalTorch := by
  rw [runSession_eq_map]
  simp [stepTorch]

/-- **session_agree**: at every position of every history whose call is in the domain, the port's
outcome is the reference's — whatever was called before, including calls that raised and calls
outside the domain. -/
theorem session_agree (ops : List (Op ℝ)) (i : Nat) (op : Op ℝ) (hi : ops[i]? = some op) (h : op.inDomain) :
    (runSession stepTorch ops)[i]? = (runSession stepSk ops)[i]? := by
  rw [runSession_eq_map, runSession_eq_map]
  simp [stepTorch, stepSk, hi, evalTorch_eq_evalSk op h]

/-- non-vacuity: a rejected iradon call (numpy's spelling "hanning"), an odd filter size, then a
valid call — the third outcome is the reference's. -/
example :
    (runSession stepTorch [.iradon [[1, 2, (3 : ℝ)]] none none "hanning" true, .filter 7 "ramp",
        .iradon [[1, 2, (3 : ℝ)]] none (some 2) "hann" false])[2]?
      = (runSession stepSk [.iradon [[1, 2, (3 : ℝ)]] none none "hanning" true, .filter 7 "ramp",
        .iradon [[1, 2, (3 : ℝ)]] none (some 2) "hann" false])[2]? :=
  session_agree _ 2 _ rfl trivial

end QuantemModel.Props.C07
