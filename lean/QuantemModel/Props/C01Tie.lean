import QuantemModel.Props.C01
import QuantemModel.Generated.SerializeDispatch
/-!
C01 — the tie between the dispatch chain of `_serialize_value` as TRANSLATED FROM THE CURRENT SOURCE
(`Generated/SerializeDispatch.lean`, rewritten by harness/translator/serdispatch2lean.py on every run) and the
hand model (`Model/SerializeDispatch.lean`).  Audited on its own (`EXTRA_PROPS` of harness/props/c01.py): a chain
that no longer matches shows up as exactly these obligations undischarged.

The statements are for CONSISTENT fact vectors (`SerDispatch.Consistent`: the subclass / attribute relations that
hold for every Python object — `bool` ⊂ `int`, an ndarray has `dtype` and `item`, …; measured on real objects on
every run), so that a rewrite which drops a redundant test (`isinstance(v, (int, bool))` → `isinstance(v, int)`) is
the same chain.  The proof does not depend on the shape of the generated term: adjacent branches with the same
result are merged, then the chain is compared test by test, each test up to Boolean equivalence under
`Consistent` and under the negations of all earlier tests.
-/
namespace QuantemModel.Props.C01Tie
open QuantemModel.Serialize QuantemModel.SerDispatch QuantemModel.Generated.SerializeDispatch

private theorem ite_cond_congr {α : Type} (c c' : Bool) (a x y : α) (hc : c = c') (h : c = false → x = y) :
    (if c then a else x) = (if c' then a else y) := by
  subst hc; cases c
  · simpa using h rfl
  · rfl

private theorem ite_ite_same {α : Type} (c1 c2 : Bool) (x r : α) :
    (if c1 then x else if c2 then x else r) = (if (c1 || c2) then x else r) := by
  cases c1 <;> cases c2 <;> rfl

/-- **the chain in the source is the modelled chain**, for every consistent combination of the 30 facts -/
theorem generated_dispatch_eq_model (f : Feat) (h : Consistent f = true) : dispatchGen f = dispatch f := by
  simp only [Consistent, Bool.and_eq_true, Bool.or_eq_true, Bool.not_eq_true'] at h
  unfold dispatchGen dispatch
  try simp only [ite_ite_same]
  repeat' (first | rfl | apply ite_cond_congr | intro _)
  all_goals (first | grind | (simp_all; done))

/-- **every supported value kind reaches its own branch** — stated about the translated source itself and
proved by evaluation, independently of `generated_dispatch_eq_model` -/
theorem generated_dispatch_kind : ∀ k, dispatchGen (featOf k) = branchOf k := by
  intro k; cases k <;> rfl

/-- the translated chain is first-match over the modelled tests, for every consistent fact vector -/
theorem generated_dispatch_first_match (f : Feat) (h : Consistent f = true) :
    dispatchGen f = ((matching f).head?).getD .fallback := by
  rw [generated_dispatch_eq_model f h]; exact QuantemModel.Props.C01.dispatch_first_match f

/-- what `encode` stores for a value of the universe shows the branch the chain IN THE SOURCE takes for the
Python kind of that value -/
theorem encode_follows_generated_dispatch (v : Val) (h : v ≠ .torchRng) :
    nodeObs (encode {} v) = obsOf (dispatchGen (featOf (kindOf v))) := by
  rw [generated_dispatch_kind, ← QuantemModel.Props.C01.dispatch_kind]
  exact QuantemModel.Props.C01.encode_follows_dispatch v h

example : dispatchGen (featOf .parameter) = .tensor := rfl
example : Consistent (featOf .pyBool) = true := rfl
example : ∃ f, Consistent f = false := ⟨{ isBool := true }, rfl⟩

end QuantemModel.Props.C01Tie
