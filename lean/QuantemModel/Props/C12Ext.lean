import QuantemModel.Props.C12
import QuantemModel.Model.AberrationOrder
import QuantemModel.Model.AberrationGrid
/-!
C12 (growth round 6) — the conversions for EVERY `max_order`.

`Model/AberrationOrder.lean` writes the two conversions as the loops of the source with the `max_order`
argument.  Here: which harmonics the loops visit (for all `max_order`; in particular the top harmonic
m = n + 1 of every order n ≤ max_order is visited, nothing of a higher order is), a smaller `max_order`
gives a prefix of a larger one, and at the default 5 the loop model IS the translated text
(Generated/Aberration.lean) all theorems of Props/C12.lean speak about.
-/
namespace QuantemModel.Props.C12Ext
open QuantemModel QuantemModel.Aberration QuantemModel.Generated.Aberration QuantemModel.AberrationOrder

/-- EXACTLY the harmonics with 1 ≤ n ≤ max_order, 0 ≤ m ≤ n + 1, m ≡ n + 1 (mod 2) are visited — every `max_order`. -/
theorem mem_harmonics (k n m : Nat) :
    (n, m) ∈ harmonics k ↔ 1 ≤ n ∧ n ≤ k ∧ m ≤ n + 1 ∧ (n + 1 - m) % 2 = 0 := by
  unfold harmonics harmonicsOf
  simp only [List.mem_flatMap, List.mem_filterMap, List.mem_range]
  constructor
  · rintro ⟨i, hi, s, hs, h⟩
    split at h
    · simp only [Option.some.injEq, Prod.mk.injEq] at h; omega
    · simp at h
  · rintro ⟨h1, h2, h3, h4⟩
    refine ⟨n - 1, by omega, (n + 1 + m) / 2, by omega, ?_⟩
    rw [if_pos (by omega)]
    simp only [Option.some.injEq, Prod.mk.injEq]; omega

example : (5, 6) ∈ harmonics 5 := (mem_harmonics 5 5 6).2 (by decide)

/-- the top harmonic m = n + 1 of every order up to and INCLUDING `max_order` is converted. -/
theorem top_harmonic_visited (k n : Nat) (h1 : 1 ≤ n) (h2 : n ≤ k) : (n, n + 1) ∈ harmonics k :=
  (mem_harmonics k n (n + 1)).2 ⟨h1, h2, le_refl _, by simp⟩

example : (3, 4) ∈ harmonics 3 := top_harmonic_visited 3 3 (by decide) (by decide)

/-- nothing beyond `max_order` and no m > n + 1 is written. -/
theorem no_harmonic_beyond (k n m : Nat) (h : (n, m) ∈ harmonics k) : n ≤ k ∧ m ≤ n + 1 :=
  ⟨((mem_harmonics k n m).1 h).2.1, ((mem_harmonics k n m).1 h).2.2.1⟩

example : (5, 6) ∉ harmonics 4 := fun h => absurd (no_harmonic_beyond 4 5 6 h).1 (by decide)

/-- a larger `max_order` only appends: the loops over the first `k` orders are a prefix. -/
theorem harmonics_append (k j : Nat) :
    harmonics (k + j) = harmonics k ++ (List.range j).flatMap (fun i => harmonicsOf (k + i + 1)) := by
  unfold harmonics
  rw [List.range_add, List.flatMap_append, List.flatMap_map]

/-- an explicit smaller `max_order` returns a PREFIX (same keys, same order, same values) of the larger result — all sizes. -/
theorem p2c_order_prefix {R : Type} [Num R] (p : String → R) (k j : Nat) :
    p2cOrder p k <+: p2cOrder p (k + j) := by
  unfold p2cOrder
  rw [harmonics_append, List.flatMap_append]
  exact List.prefix_append _ _

theorem c2p_order_prefix {R : Type} [Num R] (c : String → R) (k j : Nat) :
    c2pOrder c k <+: c2pOrder c (k + j) := by
  unfold c2pOrder
  rw [harmonics_append, List.flatMap_append]
  exact List.prefix_append _ _

example : p2cOrder (fun _ => (1 : ℝ)) 2 <+: p2cOrder (fun _ => (1 : ℝ)) 5 := p2c_order_prefix _ 2 3

/-- the 14 harmonics of orders 1..5 in loop order (the table of the specification). -/
theorem harmonics_five :
    harmonics 5 = [(1, 0), (1, 2), (2, 1), (2, 3), (3, 0), (3, 2), (3, 4), (4, 1), (4, 3), (4, 5),
                   (5, 0), (5, 2), (5, 4), (5, 6)] := by decide

/-- at the default `max_order = 5` the loop model IS the translated source text (any carrier). -/
theorem p2c_order5_is_translated {R : Type} [Num R] (p : String → R) :
    p2cOrder p 5 = polar_to_cartesian_aberrations p := by
  unfold p2cOrder
  rw [harmonics_five]
  simp [p2cStep, cname, pname, aname, bname, polar_to_cartesian_aberrations]

theorem c2p_order5_is_translated {R : Type} [Num R] (c : String → R) :
    c2pOrder c 5 = cartesian_to_polar_aberrations c := by
  unfold c2pOrder
  rw [harmonics_five]
  simp [c2pStep, cname, pname, aname, bname, cartesian_to_polar_aberrations]

/-- hence every explicit `max_order ≤ 5` returns a prefix of the translated text the round-trip / same-surface
theorems of Props/C12.lean are about. -/
theorem p2c_order_prefix_of_translated {R : Type} [Num R] (p : String → R) (k : Nat) (hk : k ≤ 5) :
    p2cOrder p k <+: polar_to_cartesian_aberrations p := by
  rw [← p2c_order5_is_translated]
  have h := p2c_order_prefix p k (5 - k)
  rwa [show k + (5 - k) = 5 by omega] at h

theorem c2p_order_prefix_of_translated {R : Type} [Num R] (c : String → R) (k : Nat) (hk : k ≤ 5) :
    c2pOrder c k <+: cartesian_to_polar_aberrations c := by
  rw [← c2p_order5_is_translated]
  have h := c2p_order_prefix c k (5 - k)
  rwa [show k + (5 - k) = 5 by omega] at h

example : c2pOrder (fun _ => (1 : ℝ)) 3 <+: cartesian_to_polar_aberrations (fun _ => (1 : ℝ)) :=
  c2p_order_prefix_of_translated _ 3 (by decide)

/-! ### `aberration_surface_grad` on the detector grid (front end + translated gradients, end to end) -/

/-- the parallax shifts are `aberration_surface_grad / 2π`, pixel by pixel, with or without grid rotation (any carrier). -/
theorem lateral_shift_is_surface_grad {R : Type} [Num R] (kx ky lam : R) (th : Option R) (c : String → R) :
    lateralShift kx ky lam th c =
      ((surfaceGradAt kx ky lam th c).1 / Num.two / Num.pi, (surfaceGradAt kx ky lam th c).2 / Num.two / Num.pi) := by
  cases th <;> rfl

example : lateralShift (1 : ℝ) 2 3 none (fun _ => 1) =
    ((surfaceGradAt (1 : ℝ) 2 3 none (fun _ => 1)).1 / Num.two / Num.pi,
     (surfaceGradAt (1 : ℝ) 2 3 none (fun _ => 1)).2 / Num.two / Num.pi) := lateral_shift_is_surface_grad _ _ _ _ _

/-- **`aberration_surface_grad` = λ·∇χ on the grid** (front end composed with `cartesian_gradient_true`): for every
wavelength λ > 0, every grid rotation (or none), every coefficient set of all 25 symbols and every pixel whose
(rotated) spatial frequency p = (p₁, p₂) is not the origin, the two numbers the function returns are λ times the partial
derivatives of the surface in the scattering-angle coordinates (p₁·λ, p₂·λ) of that pixel. -/
theorem surface_grad_true_gradient (kx ky lam : ℝ) (th : Option ℝ) (c : String → ℝ) (hlam : 0 < lam)
    (p : ℝ × ℝ) (hp : p = gridPoint kx ky th) (h0 : p.1 * p.1 + p.2 * p.2 ≠ 0) :
    HasDerivAt (fun t => aberration_surface (√(t * t + (p.2 * lam) * (p.2 * lam))) (Complex.arg ⟨t, p.2 * lam⟩) lam c)
      ((surfaceGradAt kx ky lam th c).1 / lam) (p.1 * lam) ∧
    HasDerivAt (fun t => aberration_surface (√((p.1 * lam) * (p.1 * lam) + t * t)) (Complex.arg ⟨p.1 * lam, t⟩) lam c)
      ((surfaceGradAt kx ky lam th c).2 / lam) (p.2 * lam) := by
  have key0 : surfaceGradAt kx ky lam th c =
      aberration_surface_cartesian_gradients (√(p.1 * p.1 + p.2 * p.2) * lam) (Complex.arg ⟨p.1, p.2⟩) c := by
    rw [hp]
    unfold surfaceGradAt
    simp only [polar_coordinates, atan2_eq]
    num_real
  have hnn : 0 ≤ p.1 * p.1 + p.2 * p.2 := add_nonneg (mul_self_nonneg _) (mul_self_nonneg _)
  have hsq : (p.1 * lam) * (p.1 * lam) + (p.2 * lam) * (p.2 * lam) = (p.1 * p.1 + p.2 * p.2) * (lam * lam) := by ring
  have hsqrt : √((p.1 * lam) * (p.1 * lam) + (p.2 * lam) * (p.2 * lam)) = √(p.1 * p.1 + p.2 * p.2) * lam := by
    rw [hsq, Real.sqrt_mul hnn, Real.sqrt_mul_self hlam.le]
  have harg : Complex.arg ⟨p.1 * lam, p.2 * lam⟩ = Complex.arg ⟨p.1, p.2⟩ := by
    have h : (⟨p.1 * lam, p.2 * lam⟩ : ℂ) = (lam : ℂ) * ⟨p.1, p.2⟩ := by
      apply Complex.ext <;> simp [mul_comm]
    rw [h, Complex.arg_real_mul _ hlam]
  have h0' : (p.1 * lam) * (p.1 * lam) + (p.2 * lam) * (p.2 * lam) ≠ 0 := by
    rw [hsq]; exact mul_ne_zero h0 (mul_ne_zero hlam.ne' hlam.ne')
  rw [key0, ← hsqrt, ← harg]
  exact QuantemModel.Props.C12.cartesian_gradient_true (p.1 * lam) (p.2 * lam) lam c h0'

example : ∃ p : ℝ × ℝ, p = gridPoint (1 : ℝ) 0 none ∧ p.1 * p.1 + p.2 * p.2 ≠ 0 :=
  ⟨(1, 0), rfl, by norm_num⟩

end QuantemModel.Props.C12Ext
