import QuantemModel.Props.C13
import QuantemModel.Model.RegistrationExt2
/-!
C13 — growth round 6 (audited on its own: `EXTRA_PROPS` of harness/props/c13.py).

* "exactly for integer shifts" as an EQUALITY: a translation whose negative lies in the centred window is
  returned as that very number (`isCentredRep_exact`), in particular −1 px / +1 px on either axis — the
  coarse peak then sits on the LAST / the second index of that axis — at every factor, through both entry
  points (`unit_shift_np_every_factor`, `unit_shift_torch_every_factor`);
* END-TO-END composition of front end (FFT tables), core (entry point with its dispatch on the factor) and
  back end (translating the second image by the returned shift): `end_to_end_np_every_factor`,
  `end_to_end_torch_every_factor` — "translating the second image by the returned shift reproduces the first";
* the third estimator of the anchored files, `tomography/utils.py: torch_phase_cross_correlation`
  (`Model/RegistrationExt2.lean`): its per-axis centring rule (`centreInt_spec`), integer-shift exactness
  (`phase_corr_integer_shift`), the sign convention (`phase_corr_sign_convention`), swap negation for every pair of
  images (`phase_corr_swap_negates`) and where it differs from
  the other two estimators (the tie `dim/2` keeps the positive sign: `phase_corr_half_tie`).
-/
namespace QuantemModel.Props.C13
open QuantemModel QuantemModel.Registration Finset

/-- `IsCentredRep` pins the value: when `k` itself lies in the centred window `[-M/2, M/2)`, the
representative is `k`.  (Generalises `isCentredRep_zero`.) -/
theorem isCentredRep_exact {M : ℕ} (hM : 0 < M) {k : ℤ} {v : ℝ} (h : IsCentredRep M k v)
    (h1 : -(M : ℤ) ≤ 2 * k) (h2 : 2 * k < (M : ℤ)) : v = (k : ℝ) := by
  obtain ⟨r, hv, ⟨c, hc⟩, hr1, hr2⟩ := h
  have hM' : (0 : ℤ) < M := by exact_mod_cast hM
  have hc0 : c = 0 := by
    by_contra hne
    rcases lt_or_gt_of_ne hne with hlt | hgt
    · have : (M : ℤ) * c ≤ (M : ℤ) * (-1) := Int.mul_le_mul_of_nonneg_left (by omega) (le_of_lt hM')
      omega
    · have : (M : ℤ) * 1 ≤ (M : ℤ) * c := Int.mul_le_mul_of_nonneg_left (by omega) (le_of_lt hM')
      omega
  have hrk : r = k := by rw [hc0] at hc; omega
  rw [hv, hrk]

/-- **±1 px on either axis, NumPy entry point, every factor**: the copy rolled by `(a, b)` with
`a, b ∈ {-1, 0, 1}` (coarse peak on the last index of an axis for `+1`, on index 1 for `-1`) comes back as
exactly `(-a, -b)`, rows and columns each with their own length, `M, N ≥ 3`, non-square included. -/
theorem unit_shift_np_every_factor {M N : ℕ} (hM : 3 ≤ M) (hN : 3 ≤ N) (x : ℕ → ℕ → ℝ)
    (hx : UniquePeak M N x) (hpos : 0 < cc M N x x 0 0) (a b : ℤ) (ha : -1 ≤ a ∧ a ≤ 1) (hb : -1 ≤ b ∧ b ≤ 1) (up : ℕ)
    (h10 : (dft2At M N x 1 0).re ≠ 0 ∨ (dft2At M N x 1 0).im ≠ 0)
    (h01 : (dft2At M N x 0 1).re ≠ 0 ∨ (dft2At M N x 0 1).im ≠ 0) :
    shiftNp M N up (masked M N none (ccRealFFT M N x (rollImg M N x a b)))
        (ccRealFFT M N x (rollImg M N x a b)) (ccF (dft2At M N x) (dft2At M N (rollImg M N x a b)))
      = (((-a : ℤ) : ℝ), ((-b : ℤ) : ℝ)) := by
  have h := integer_shift_np_every_factor_of_axis_coeffs hM hN x hx hpos a b up none (by intro m hm; cases hm) h10 h01
  have hM' : (3 : ℤ) ≤ M := by exact_mod_cast hM
  have hN' : (3 : ℤ) ≤ N := by exact_mod_cast hN
  exact Prod.ext (isCentredRep_exact (by omega) h.1 (by omega) (by omega))
    (isCentredRep_exact (by omega) h.2 (by omega) (by omega))

/-- **±1 px on either axis, torch entry point, every factor** (`up ≤ 2`: half-pixel branch, `up ≥ 3`:
upsampled branch). -/
theorem unit_shift_torch_every_factor {M N : ℕ} (hM : 3 ≤ M) (hN : 3 ≤ N) (x : ℕ → ℕ → ℝ)
    (hx : UniquePeak M N x) (a b : ℤ) (ha : -1 ≤ a ∧ a ≤ 1) (hb : -1 ≤ b ∧ b ≤ 1) (up : ℕ)
    (h10 : (dft2At M N x 1 0).re ≠ 0 ∨ (dft2At M N x 1 0).im ≠ 0)
    (h01 : (dft2At M N x 0 1).re ≠ 0 ∨ (dft2At M N x 0 1).im ≠ 0) :
    shiftTorch M N up (ccRealFFT M N x (rollImg M N x a b))
        (ccF (dft2At M N x) (dft2At M N (rollImg M N x a b)))
      = (((-a : ℤ) : ℝ), ((-b : ℤ) : ℝ)) := by
  have h := integer_shift_torch_every_factor_of_axis_coeffs hM hN x hx a b up h10 h01
  have hM' : (3 : ℤ) ≤ M := by exact_mod_cast hM
  have hN' : (3 : ℤ) ≤ N := by exact_mod_cast hN
  exact Prod.ext (isCentredRep_exact (by omega) h.1 (by omega) (by omega))
    (isCentredRep_exact (by omega) h.2 (by omega) (by omega))

/-- **End to end, NumPy entry point, every factor and `max_shift`**: FFT tables → `cross_correlation_shift`
(dispatch on the factor inside) → translating the second image by the returned shift reproduces the first
image on the whole cell.  The returned pair is a pair of integers `(r, c)` (as floats). -/
theorem end_to_end_np_every_factor {M N : ℕ} (hM : 3 ≤ M) (hN : 3 ≤ N) (x : ℕ → ℕ → ℝ)
    (hx : UniquePeak M N x) (hpos : 0 < cc M N x x 0 0) (a b : ℤ) (up : ℕ) (ms : Option ℝ)
    (hvis : ∀ m, ms = some m →
      ((freq M (wrap M (-a)) * freq M (wrap M (-a)) + freq N (wrap N (-b)) * freq N (wrap N (-b)) : ℤ) : ℝ) < m * m)
    (h10 : (dft2At M N x 1 0).re ≠ 0 ∨ (dft2At M N x 1 0).im ≠ 0)
    (h01 : (dft2At M N x 0 1).re ≠ 0 ∨ (dft2At M N x 0 1).im ≠ 0) :
    ∃ r c : ℤ,
      shiftNp M N up (masked M N ms (ccRealFFT M N x (rollImg M N x a b)))
        (ccRealFFT M N x (rollImg M N x a b)) (ccF (dft2At M N x) (dft2At M N (rollImg M N x a b))) = ((r : ℝ), (c : ℝ)) ∧
      ∀ i j, i < M → j < N → applyShift M N (rollImg M N x a b) r c i j = x i j := by
  obtain ⟨⟨r, hr, hrd, -, -⟩, ⟨c, hc, hcd, -, -⟩⟩ :=
    integer_shift_np_every_factor_of_axis_coeffs hM hN x hx hpos a b up ms hvis h10 h01
  exact ⟨r, c, Prod.ext hr hc, sign_convention (by omega) (by omega) x a b r c hrd hcd⟩

/-- **End to end, torch entry point, every factor.** -/
theorem end_to_end_torch_every_factor {M N : ℕ} (hM : 3 ≤ M) (hN : 3 ≤ N) (x : ℕ → ℕ → ℝ)
    (hx : UniquePeak M N x) (a b : ℤ) (up : ℕ)
    (h10 : (dft2At M N x 1 0).re ≠ 0 ∨ (dft2At M N x 1 0).im ≠ 0)
    (h01 : (dft2At M N x 0 1).re ≠ 0 ∨ (dft2At M N x 0 1).im ≠ 0) :
    ∃ r c : ℤ,
      shiftTorch M N up (ccRealFFT M N x (rollImg M N x a b))
        (ccF (dft2At M N x) (dft2At M N (rollImg M N x a b))) = ((r : ℝ), (c : ℝ)) ∧
      ∀ i j, i < M → j < N → applyShift M N (rollImg M N x a b) r c i j = x i j := by
  obtain ⟨⟨r, hr, hrd, -, -⟩, ⟨c, hc, hcd, -, -⟩⟩ :=
    integer_shift_torch_every_factor_of_axis_coeffs hM hN x hx a b up h10 h01
  exact ⟨r, c, Prod.ext hr hc, sign_convention (by omega) (by omega) x a b r c hrd hcd⟩

/-! ### refinement to a closed-form specification -/

/-- the abstract specification of both estimators on an integer-shifted copy: the representative of `k` modulo `M` in
`[-M/2, M/2)`, in closed form -/
def centredInt (M : ℕ) (k : ℤ) : ℤ := (k + ((M / 2 : ℕ) : ℤ)) % (M : ℤ) - ((M / 2 : ℕ) : ℤ)

/-- `IsCentredRep` determines the value: it is the closed form -/
theorem isCentredRep_centredInt {M : ℕ} (hM : 0 < M) {k : ℤ} {v : ℝ} (h : IsCentredRep M k v) :
    v = ((centredInt M k : ℤ) : ℝ) := by
  obtain ⟨r, hv, ⟨c, hc⟩, h1, h2⟩ := h
  have hk : k + ((M / 2 : ℕ) : ℤ) = (r + ((M / 2 : ℕ) : ℤ)) + (M : ℤ) * (-c) := by linarith
  have hr : centredInt M k = r := by
    unfold centredInt
    rw [hk, Int.add_mul_emod_self_left, Int.emod_eq_of_lt (by omega) (by omega)]
    ring
  rw [hv, hr]

/-- **Refinement, NumPy entry point**: on an integer-shifted copy `cross_correlation_shift` IS the closed-form
specification `(centredInt M (-a), centredInt N (-b))` — every shape ≥ 3 × 3, translation in or outside the cell, factor
`0, 1, 2, …`, and `max_shift` that leaves the true lag visible. -/
theorem np_refines_spec {M N : ℕ} (hM : 3 ≤ M) (hN : 3 ≤ N) (x : ℕ → ℕ → ℝ)
    (hx : UniquePeak M N x) (hpos : 0 < cc M N x x 0 0) (a b : ℤ) (up : ℕ) (ms : Option ℝ)
    (hvis : ∀ m, ms = some m →
      ((freq M (wrap M (-a)) * freq M (wrap M (-a)) + freq N (wrap N (-b)) * freq N (wrap N (-b)) : ℤ) : ℝ) < m * m)
    (h10 : (dft2At M N x 1 0).re ≠ 0 ∨ (dft2At M N x 1 0).im ≠ 0)
    (h01 : (dft2At M N x 0 1).re ≠ 0 ∨ (dft2At M N x 0 1).im ≠ 0) :
    shiftNp M N up (masked M N ms (ccRealFFT M N x (rollImg M N x a b)))
        (ccRealFFT M N x (rollImg M N x a b)) (ccF (dft2At M N x) (dft2At M N (rollImg M N x a b)))
      = (((centredInt M (-a) : ℤ) : ℝ), ((centredInt N (-b) : ℤ) : ℝ)) := by
  have h := integer_shift_np_every_factor_of_axis_coeffs hM hN x hx hpos a b up ms hvis h10 h01
  exact Prod.ext (isCentredRep_centredInt (by omega) h.1) (isCentredRep_centredInt (by omega) h.2)

/-- **Refinement, torch entry point**: the same closed form, so on integer-shifted copies the two estimators agree with
each other at every pair of factors. -/
theorem torch_refines_spec {M N : ℕ} (hM : 3 ≤ M) (hN : 3 ≤ N) (x : ℕ → ℕ → ℝ)
    (hx : UniquePeak M N x) (a b : ℤ) (up : ℕ)
    (h10 : (dft2At M N x 1 0).re ≠ 0 ∨ (dft2At M N x 1 0).im ≠ 0)
    (h01 : (dft2At M N x 0 1).re ≠ 0 ∨ (dft2At M N x 0 1).im ≠ 0) :
    shiftTorch M N up (ccRealFFT M N x (rollImg M N x a b))
        (ccF (dft2At M N x) (dft2At M N (rollImg M N x a b)))
      = (((centredInt M (-a) : ℤ) : ℝ), ((centredInt N (-b) : ℤ) : ℝ)) := by
  have h := integer_shift_torch_every_factor_of_axis_coeffs hM hN x hx a b up h10 h01
  exact Prod.ext (isCentredRep_centredInt (by omega) h.1) (isCentredRep_centredInt (by omega) h.2)

/-- the specification is odd except at the tie: swapping the roles of the two images (`a ↦ -a`) negates it -/
theorem centredInt_neg {M : ℕ} (hM : 0 < M) (k : ℤ) (htie : 2 * centredInt M k ≠ -(M : ℤ)) :
    centredInt M (-k) = -centredInt M k := by
  have hM' : (0 : ℤ) < M := by exact_mod_cast hM
  have hlo := Int.emod_nonneg (k + ((M / 2 : ℕ) : ℤ)) (ne_of_gt hM')
  have hhi := Int.emod_lt_of_pos (k + ((M / 2 : ℕ) : ℤ)) hM'
  have hdiv := Int.emod_add_mul_ediv (k + ((M / 2 : ℕ) : ℤ)) (M : ℤ)
  set e := (k + ((M / 2 : ℕ) : ℤ)) % (M : ℤ) with he
  set d := (k + ((M / 2 : ℕ) : ℤ)) / (M : ℤ) with hd
  have hc : centredInt M k = e - ((M / 2 : ℕ) : ℤ) := rfl
  rw [hc] at htie ⊢
  -- -k + h = (2h - e) + M * (-d)  with 2h - e in [0, M)
  have hk : -k + ((M / 2 : ℕ) : ℤ) = (2 * ((M / 2 : ℕ) : ℤ) - e) + (M : ℤ) * (-d) := by linarith
  have hh : 2 * ((M / 2 : ℕ) : ℤ) = (M : ℤ) ∨ 2 * ((M / 2 : ℕ) : ℤ) = (M : ℤ) - 1 := by omega
  unfold centredInt
  rw [hk, Int.add_mul_emod_self_left, Int.emod_eq_of_lt (by omega) (by omega)]
  ring

/-! ### `torch_phase_cross_correlation` (tomography/utils.py) -/

/-- the per-axis centring `if shifts[i] > dim // 2: shifts[i] -= dim` returns the representative of the
index in `(-dim/2, dim/2]` -/
theorem centreInt_spec {p dim : ℕ} (hp : p < dim) :
    (dim : ℤ) ∣ (centreInt p dim - (p : ℤ)) ∧ -(dim : ℤ) < 2 * centreInt p dim ∧ 2 * centreInt p dim ≤ (dim : ℤ) := by
  unfold centreInt
  split
  · refine ⟨⟨-1, by ring⟩, ?_, ?_⟩ <;> omega
  · refine ⟨⟨0, by ring⟩, ?_, ?_⟩ <;> omega

/-- the correlation of non-negative images is non-negative, so `abs(cc)` is `cc` -/
theorem corrTable_nonneg (M N : ℕ) (x y : ℕ → ℕ → ℝ) (hx : ∀ i j, 0 ≤ x i j) (hy : ∀ i j, 0 ≤ y i j) (s t : ℕ) :
    0 ≤ corrTable M N x y s t := by
  unfold corrTable
  rw [cc_eq]
  exact Finset.sum_nonneg fun i _ => Finset.sum_nonneg fun j _ => mul_nonneg (hx _ _) (hy _ _)

/-- **Integer-shift exactness of `torch_phase_cross_correlation`**: for every shape, every non-negative image
(intensities) with a unique correlation peak and every integer translation `(a, b)`, the estimator returns the
representative of `(-a, -b)` in `(-M/2, M/2] × (-N/2, N/2]` — each axis with its own length. -/
theorem phase_corr_integer_shift {M N : ℕ} (hM : 0 < M) (hN : 0 < N) (x : ℕ → ℕ → ℝ)
    (hx : UniquePeak M N x) (hnn : ∀ i j, 0 ≤ x i j) (a b : ℤ) :
    let s := phaseCorr M N (corrTable M N x (rollImg M N x a b))
    ((M : ℤ) ∣ (s.1 - -a) ∧ -(M : ℤ) < 2 * s.1 ∧ 2 * s.1 ≤ (M : ℤ)) ∧
    ((N : ℤ) ∣ (s.2 - -b) ∧ -(N : ℤ) < 2 * s.2 ∧ 2 * s.2 ≤ (N : ℤ)) := by
  have habs : (fun s t => Num.abs (corrTable M N x (rollImg M N x a b) s t)) = corrTable M N x (rollImg M N x a b) := by
    funext s t
    rw [NumReal.abs_eq, abs_of_nonneg]
    exact corrTable_nonneg M N x _ hnn (fun i j => by unfold rollImg; exact hnn _ _) s t
  have hpk := argmax2_unique (corrTable_roll_uniqueMax hM hN x hx a b)
  dsimp only
  unfold phaseCorr
  simp only [habs, hpk]
  obtain ⟨d1, l1, u1⟩ := centreInt_spec (wrap_lt hM (-a))
  obtain ⟨d2, l2, u2⟩ := centreInt_spec (wrap_lt hN (-b))
  have e1 := wrap_neg_dvd hM a
  have e2 := wrap_neg_dvd hN b
  refine ⟨⟨?_, l1, u1⟩, ⟨?_, l2, u2⟩⟩
  · have h := dvd_add d1 e1
    have e : centreInt (wrap M (-a)) M - ((wrap M (-a) : ℕ) : ℤ) + (((wrap M (-a) : ℕ) : ℤ) - -a)
        = centreInt (wrap M (-a)) M - -a := by ring
    rwa [e] at h
  · have h := dvd_add d2 e2
    have e : centreInt (wrap N (-b)) N - ((wrap N (-b) : ℕ) : ℤ) + (((wrap N (-b) : ℕ) : ℤ) - -b)
        = centreInt (wrap N (-b)) N - -b := by ring
    rwa [e] at h

/-- **Sign convention of `torch_phase_cross_correlation`**: translating the second image by the returned
shift reproduces the first (composition of the theorem above with `sign_convention`). -/
theorem phase_corr_sign_convention {M N : ℕ} (hM : 0 < M) (hN : 0 < N) (x : ℕ → ℕ → ℝ)
    (hx : UniquePeak M N x) (hnn : ∀ i j, 0 ≤ x i j) (a b : ℤ) :
    let s := phaseCorr M N (corrTable M N x (rollImg M N x a b))
    ∀ i j, i < M → j < N → applyShift M N (rollImg M N x a b) s.1 s.2 i j = x i j := by
  have h := phase_corr_integer_shift hM hN x hx hnn a b
  dsimp only at h ⊢
  exact sign_convention hM hN x a b _ _ h.1.1 h.2.1

/-- where the three estimators differ: at the tie `dim/2` of an even axis the per-axis rule of
`torch_phase_cross_correlation` keeps `+dim/2`, the modulo centring of the other two returns `-dim/2`
(both are the same translation modulo the cell). -/
theorem phase_corr_half_tie (n : ℕ) (hn : 0 < n) :
    centreInt n (2 * n) = (n : ℤ) ∧ centre (((n : ℕ) : ℝ)) (2 * n) = -((n : ℕ) : ℝ) := by
  constructor
  · unfold centreInt
    have : ¬ (2 * n / 2 < n) := by omega
    rw [if_neg this]
  · have h : IsCentredRep (2 * n) (-(n : ℤ)) (centre (((n : ℕ) : ℝ)) (2 * n)) :=
      centre_nat_isRep (by omega) _ ⟨1, by push_cast; ring⟩
    have := isCentredRep_exact (by omega) h (by push_cast; omega) (by push_cast; omega)
    rw [this]; push_cast; ring

/-- `(-p) mod M = M - p` for `0 < p < M` -/
theorem wrap_neg_pos {M p : ℕ} (hp : 0 < p) (hpM : p < M) : wrap M (-(p : ℤ)) = M - p := by
  have h : (M : ℤ) ∣ (((M - p : ℕ) : ℤ) - -(p : ℤ)) := ⟨1, by rw [Nat.cast_sub (le_of_lt hpM)]; ring⟩
  exact (eq_wrap_of_dvd (by omega) (by omega) _ h).symm

/-- the per-axis centring is odd, except at the tie `2p = dim` (which is its own negative modulo `dim`) -/
theorem centreInt_neg {p dim : ℕ} (hp : p < dim) (htie : 2 * p ≠ dim) :
    centreInt (wrap dim (-(p : ℤ))) dim = -centreInt p dim := by
  rcases Nat.eq_zero_or_pos p with rfl | hpos
  · simp [wrap_zero, centreInt]
  · rw [wrap_neg_pos hpos hp]
    unfold centreInt
    split <;> split <;> omega

/-- **Swapping the two images negates the result of `torch_phase_cross_correlation`**: for every pair of images
(any sign of the content) whose `|cc|` has a unique maximum — except exactly at the tie `dim/2`. -/
theorem phase_corr_swap_negates {M N : ℕ} (hM : 0 < M) (hN : 0 < N) (x y : ℕ → ℕ → ℝ) (p q : ℕ)
    (hmax : UniqueMaxAt M N (fun s t => Num.abs (corrTable M N x y s t)) p q) :
    let s := phaseCorr M N (corrTable M N x y)
    let s' := phaseCorr M N (corrTable M N y x)
    (2 * p ≠ M → s'.1 = -s.1) ∧ (2 * q ≠ N → s'.2 = -s.2) := by
  have hmir := uniqueMax_mirror hM hN (c' := fun s t => Num.abs (corrTable M N y x s t))
    (fun s t => by rw [corrTable_swap hM hN]) hmax
  have h1 := argmax2_unique hmax
  have h2 := argmax2_unique hmir
  dsimp only
  unfold phaseCorr
  simp only [h1, h2]
  exact ⟨fun h => centreInt_neg hmax.1 h, fun h => centreInt_neg hmax.2.1 h⟩

/-! ### non-vacuity -/

/-- `isCentredRep_exact`: a +1 px roll on a 5-pixel axis is returned as `-1` -/
example : IsCentredRep 5 (-1) (-1 : ℝ) := ⟨-1, by norm_num, ⟨0, by norm_num⟩, by norm_num, by norm_num⟩

/-- the hypotheses of the `unit_shift_*` / `end_to_end_*` theorems are satisfiable: the 3 × 3 single-pixel image
(`deltaImg`) rolled by `(1, -1)`, at every factor -/
example (up : ℕ) :
    shiftNp 3 3 up (masked 3 3 none (ccRealFFT 3 3 deltaImg (rollImg 3 3 deltaImg 1 (-1))))
        (ccRealFFT 3 3 deltaImg (rollImg 3 3 deltaImg 1 (-1))) (ccF (dft2At 3 3 deltaImg) (dft2At 3 3 (rollImg 3 3 deltaImg 1 (-1))))
      = (((-1 : ℤ) : ℝ), ((-(-1) : ℤ) : ℝ)) :=
  unit_shift_np_every_factor (by norm_num) (by norm_num) deltaImg deltaImg_uniquePeak
    (by rw [cc_eq]; simp [Finset.sum_range_succ, deltaImg, wrap]) 1 (-1) (by omega) (by omega) up
    (Or.inl (by rw [deltaImg_dft]; norm_num)) (Or.inl (by rw [deltaImg_dft]; norm_num))

example (up : ℕ) : ∃ r c : ℤ,
    shiftTorch 3 3 up (ccRealFFT 3 3 deltaImg (rollImg 3 3 deltaImg 2 1))
        (ccF (dft2At 3 3 deltaImg) (dft2At 3 3 (rollImg 3 3 deltaImg 2 1))) = ((r : ℝ), (c : ℝ)) ∧
      ∀ i j, i < 3 → j < 3 → applyShift 3 3 (rollImg 3 3 deltaImg 2 1) r c i j = deltaImg i j :=
  end_to_end_torch_every_factor (by norm_num) (by norm_num) deltaImg deltaImg_uniquePeak 2 1 up
    (Or.inl (by rw [deltaImg_dft]; norm_num)) (Or.inl (by rw [deltaImg_dft]; norm_num))

/-- `phase_corr_integer_shift` on the (non-negative) single-pixel image -/
example : ∀ i j, i < 3 → j < 3 →
    applyShift 3 3 (rollImg 3 3 deltaImg 2 (-1))
      (phaseCorr 3 3 (corrTable 3 3 deltaImg (rollImg 3 3 deltaImg 2 (-1)))).1
      (phaseCorr 3 3 (corrTable 3 3 deltaImg (rollImg 3 3 deltaImg 2 (-1)))).2 i j = deltaImg i j :=
  phase_corr_sign_convention (by norm_num) (by norm_num) deltaImg deltaImg_uniquePeak
    (fun i j => by unfold deltaImg; split <;> norm_num) 2 (-1)

example : centreInt (wrap 5 (-(2 : ℤ))) 5 = -centreInt 2 5 := centreInt_neg (by norm_num) (by norm_num)

example : centredInt 5 (-1) = -1 ∧ centredInt 5 (-3) = 2 ∧ centredInt 4 (-2) = -2 ∧ centredInt 4 2 = -2 := by decide

example : centreInt 3 4 = -1 ∧ centreInt 2 4 = 2 ∧ centreInt 2 5 = 2 ∧ centreInt 3 5 = -2 := by decide

/-- the hypothesis of `phase_corr_swap_negates` is satisfiable: single-pixel image against its copy rolled by `(1, 2)` -/
example : UniqueMaxAt 3 3 (fun s t => Num.abs (corrTable 3 3 deltaImg (rollImg 3 3 deltaImg 1 2) s t)) (wrap 3 (-1)) (wrap 3 (-2)) := by
  have hnn : ∀ i j, 0 ≤ deltaImg i j := fun i j => by unfold deltaImg; split <;> norm_num
  have habs : (fun s t => Num.abs (corrTable 3 3 deltaImg (rollImg 3 3 deltaImg 1 2) s t))
      = corrTable 3 3 deltaImg (rollImg 3 3 deltaImg 1 2) := by
    funext s t
    rw [NumReal.abs_eq, abs_of_nonneg]
    exact corrTable_nonneg 3 3 deltaImg _ hnn (fun i j => by unfold rollImg; exact hnn _ _) s t
  rw [habs]
  exact corrTable_roll_uniqueMax (by norm_num) (by norm_num) deltaImg deltaImg_uniquePeak 1 2

end QuantemModel.Props.C13
