import QuantemModel.Props.C11
import QuantemModel.Model.VectorFront
/-!
C11, growth round 6: **whole histories with REJECTED calls refine the history without them.**

`Op.atomic` is the class of calls that either succeed or leave no trace: creation, retrieval,
single-cell assignment, scalar field arithmetic, `set_flattened`, write-back, `add_fields`,
`remove_fields`, `copy`, the `data` setter, metadata.  (The remaining calls — list / Vector valued
fancy assignment and field arithmetic with an array operand — validate value by value while
writing, so a raising call may leave earlier cells assigned; `invariant_step` covers those.)

* `rejected_no_effect`      : on every state satisfying the invariant, an atomic call that raises
                              leaves heap, vectors and metadata exactly as they were.
* `rejected_then_same`      : hence every later call sees the same state and returns the same result.
* `history_drops_rejected`  : a whole history behaves like the history with every rejected atomic
                              call deleted (`accepted`), from any invariant state, to the final state.
* `all_histories_drop_rejected` : the same from the empty world.
* `lastWriter_spec`         : one fancy assignment with REPEATED / unsorted positions: the cell at
                              position `p` finally holds the value of the LAST `k` with `ps[k] = p`.
-/
namespace QuantemModel.Props.C11
open QuantemModel.Vector

def Res.isErr : Res → Bool
  | .err _ => true
  | _ => false

def SetVal.isOne : SetVal → Bool
  | .one _ => true
  | _ => false

/-- calls that raise only BEFORE their first write (on states satisfying the invariant) -/
def Op.atomic : Op → Bool
  | .setData _ _ val => SetVal.isOne val
  | .setItem _ _ val => SetVal.isOne val
  | .fieldOpGen _ _ _ _ _ => false
  | _ => true

theorem putVec_self {s : State} {vid : Nat} {v : Vec} (h : s.getVec vid = .ok v) : s.putVec vid v = s := by
  unfold State.getVec at h
  split at h
  · rename_i v' hv'
    cases h
    obtain ⟨hlt, heq⟩ := List.getElem?_eq_some_iff.mp hv'
    subst heq
    simp [State.putVec, List.set_getElem_self]
  · cases h

private theorem of_pair {x : State × Res} {s : State} {e : Err}
    (H : ∀ s' e', x = (s', .err e') → s' = s) (h : x.2 = .err e) : x.1 = s :=
  H x.1 e (by cases x; simp_all)

theorem fromShape_rej {s s' : State} {sh nf fs us e} (h : opFromShape s sh nf fs us = (s', .err e)) : s' = s := by
  unfold opFromShape at h
  repeat' split at h
  all_goals first | (cases h; done) | (cases h; rfl) | (simp [State.mkVec] at h; done)

theorem fromData_rej {s s' : State} {items nf fs us e} (h : opFromData s items nf fs us = (s', .err e)) : s' = s := by
  unfold opFromData at h
  repeat' split at h
  all_goals first | (cases h; done) | (cases h; rfl) | (simp [State.mkVec] at h; done)

theorem getItemCore_rej {s s' : State} {v idx e} (h : getItemCore s v idx = (s', .err e)) : s' = s := by
  unfold getItemCore at h
  simp only at h
  repeat' split at h
  all_goals first | (cases h; done) | (cases h; rfl) | (simp [State.mkVec] at h; done)

theorem getItem_rej {s s' : State} {vid idx e} (h : opGetItem s vid idx = (s', .err e)) : s' = s := by
  unfold opGetItem at h
  split at h
  · cases h; rfl
  · simp only at h
    split at h
    · split at h
      · have := congrArg Prod.fst h
        rw [getItemLong_state] at this; exact this.symm
      · exact getItemCore_rej h
    · exact getItemCore_rej h

theorem setCells_one_err {heap : List Arr} {nf : Nat} {cells : List (Option Ref)} {ps : List Nat} {x : Val} {e : Err}
    (h : (setCells heap nf cells ps [x]).2 = some e) : (setCells heap nf cells ps [x]).1 = cells := by
  cases ps with
  | nil => rfl
  | cons p ps =>
    cases hc : checkVal heap nf x with
    | error e' => simp [setCells, hc]
    | ok r =>
      have : (setCells heap nf cells (p :: ps) [x]).2 = none := by
        simp only [setCells, hc]
      rw [this] at h; cases h

theorem setData_one_rej {s s' : State} {vid idx x e} (h : opSetData s vid idx (.one x) = (s', .err e)) : s' = s := by
  unfold opSetData at h
  split at h
  · cases h; rfl
  · rename_i v hv
    repeat' split at h
    all_goals first | (cases h; done) | (cases h; rfl) | contradiction | skip
    all_goals
      simp only [finish] at h
      repeat' split at h
      all_goals first | (cases h; done) | contradiction |
        (have hc := setCells_one_err ‹(setCells _ _ _ _ _).2 = some _›; rw [hc] at h; cases h; exact putVec_self hv)

theorem setItemCore_one_rej {s s' : State} {vid v idx x e} (_hv : s.getVec vid = .ok v)
    (h : setItemCore s vid v idx (.one x) = (s', .err e)) : s' = s := by
  unfold setItemCore at h
  simp only at h
  repeat' split at h
  all_goals first | (cases h; done) | (cases h; rfl) | (simp at h; done) | skip

theorem setItemLong_rej {s s' : State} {v idx val e} (h : setItemLong s v idx val = (s', .err e)) : s' = s := by
  unfold setItemLong at h
  simp only at h
  repeat' split at h
  all_goals first | (cases h; done) | (cases h; rfl) | (simp at h; done)

theorem setItem_one_rej {s s' : State} {vid idx x e} (h : opSetItem s vid idx (.one x) = (s', .err e)) : s' = s := by
  unfold opSetItem at h
  split at h
  · cases h; rfl
  · rename_i v hv
    simp only at h
    split at h
    · split at h
      · exact setItemCore_one_rej hv h
      · exact setItemLong_rej h
    · exact setItemCore_one_rej hv h

theorem setFlat_rej {s s' : State} {v j vals e} (h : setFlat s v j vals = (s', .err e)) : s' = s := by
  unfold setFlat at h
  repeat' split at h
  all_goals first | (cases h; done) | (cases h; rfl)

theorem setFlattened_rej {s s' : State} {vid name vals e} (h : opSetFlattened s vid name vals = (s', .err e)) : s' = s := by
  unfold opSetFlattened at h
  repeat' split at h
  all_goals first | (cases h; done) | (cases h; rfl) | exact setFlat_rej h

theorem writeBack_rej {s s' : State} {vid name e} (h : opWriteBack s vid name = (s', .err e)) : s' = s := by
  unfold opWriteBack at h
  repeat' split at h
  all_goals first | (cases h; done) | (cases h; rfl) | exact setFlat_rej h

theorem fieldOp_rej {s s' : State} {vid name f e} (h : opFieldOp s vid name f = (s', .err e)) : s' = s := by
  unfold opFieldOp at h
  split at h
  · cases h; rfl
  · split at h
    · cases h; rfl
    · simp [setFlat] at h

theorem getItemCore_not_np {s s' : State} {v idx x} (h : getItemCore s v idx = (s', .np x)) : False := by
  unfold getItemCore at h
  simp only at h
  repeat' split at h
  all_goals first | (cases h; done) | (simp [State.mkVec] at h; done)

theorem getItem_np_state {s s' : State} {vid idx x} (h : opGetItem s vid idx = (s', .np x)) : s' = s := by
  unfold opGetItem at h
  split at h
  · cases h
  · simp only at h
    split at h
    · split at h
      · have := congrArg Prod.fst h
        rw [getItemLong_state] at this; exact this.symm
      · exact (getItemCore_not_np h).elim
    · exact (getItemCore_not_np h).elim

theorem fieldGet_rej {s s' : State} {vid name idx e} (h : opFieldGet s vid name idx = (s', .err e)) : s' = s := by
  unfold opFieldGet at h
  split at h
  · cases h; rfl
  · split at h
    · cases h; rfl
    · generalize hg : opGetItem s vid idx = g at h
      obtain ⟨s2, r⟩ := g
      cases r with
      | err e2 =>
        have := getItem_rej hg
        subst this
        simp only at h
        cases h; rfl
      | np x =>
        have := getItem_np_state hg
        subst this
        cases x <;> simp only at h <;> cases h
        rfl
      | cell c =>
        cases c with
        | none => simp only at h; cases h
        | some r => simp only at h; split at h <;> cases h
      | none => simp only at h; cases h
      | newVec id => simp only at h; cases h
      | newRef r => simp only at h; cases h
      | cells cs => simp only at h; cases h

theorem copy_rej {s s' : State} {vid e} (h : opCopy s vid = (s', .err e)) : s' = s := by
  unfold opCopy at h
  repeat' split at h
  all_goals first | (cases h; done) | (cases h; rfl) | (simp [State.mkVec] at h; done)

theorem setDataAttr_rej {s s' : State} {vid lens items e} (h : opSetDataAttr s vid lens items = (s', .err e)) : s' = s := by
  unfold opSetDataAttr at h
  repeat' split at h
  all_goals first | (cases h; done) | (cases h; rfl)

theorem metaSet_rej {s s' : State} {vid k x e} (h : opMetaSet s vid k x = (s', .err e)) : s' = s := by
  unfold opMetaSet at h
  repeat' split at h
  all_goals first | (cases h; done) | (cases h; rfl)

/-- `add_fields` on an invariant state raises only in its two name checks, before anything is
replaced (the column test of `expand_array` cannot fire: every populated cell has one column per field) -/
theorem addFields_rej {s s' : State} (hI : Inv s) {vid names e} (h : opAddFields s vid names = (s', .err e)) : s' = s := by
  unfold opAddFields at h
  split at h
  · cases h; rfl
  · rename_i v hv
    have hvok := hI.vecs v (getVec_mem hv)
    split at h
    · cases h; rfl
    · split at h
      · cases h; rfl
      · simp only at h
        obtain ⟨r, hr⟩ := rebuildCells_ok (fun a => a.addCols names.length) (fun a => a.ncols != v.fields.length)
          v.fields.length (by intro a ha; simp [ha]) v.cells s.heap hvok.cells
        rw [hr] at h
        cases h

/-- `remove_fields` never raises on an invariant state -/
theorem removeFields_rej {s s' : State} (hI : Inv s) {vid names e} (h : opRemoveFields s vid names = (s', .err e)) : s' = s := by
  unfold opRemoveFields at h
  split at h
  · cases h; rfl
  · rename_i v hv
    have hvok := hI.vecs v (getVec_mem hv)
    simp only at h
    split at h
    · cases h
    · generalize hrm : (names.filter (v.fields.contains ·)).map (v.fields.idxOf ·) = rm at h
      generalize hkeep : (List.range v.fields.length).filter (fun i => !rm.contains i) = keep at h
      have hrmlt : ∀ i ∈ rm, i < v.fields.length := by
        intro i hi
        rw [← hrm] at hi
        simp only [List.mem_map, List.mem_filter] at hi
        obtain ⟨nm, ⟨_, hc⟩, rfl⟩ := hi
        exact List.idxOf_lt_length_of_mem (by simpa using hc)
      obtain ⟨r, hr⟩ := rebuildCells_ok (fun a => a.keepCols keep) (fun a => rm.any (fun i => a.ncols < i + 1))
        v.fields.length (by
          intro a ha
          rw [List.any_eq_false]
          intro i hi
          have := hrmlt i hi
          simp; omega) v.cells s.heap hvok.cells
      rw [hr] at h
      cases h

/-- **a rejected atomic call leaves no trace** (heap, every vector, every metadata dict) -/
theorem rejected_no_effect {s : State} (hI : Inv s) (op : Op) (ha : Op.atomic op = true) {e : Err}
    (h : (step s op).2 = .err e) : (step s op).1 = s := by
  cases op with
  | alloc n rows t => simp [step] at h
  | fromShape sh nf fs us => exact of_pair (fun _ _ => fromShape_rej) h
  | fromData items nf fs us => exact of_pair (fun _ _ => fromData_rej) h
  | getData v idx => exact getData_state s v idx
  | setData v idx val =>
    cases val with
    | one x => exact of_pair (fun _ _ => setData_one_rej) h
    | many xs => simp [Op.atomic, SetVal.isOne] at ha
    | vec w => simp [Op.atomic, SetVal.isOne] at ha
  | getItem v idx => exact of_pair (fun _ _ => getItem_rej) h
  | setItem v idx val =>
    cases val with
    | one x => exact of_pair (fun _ _ => setItem_one_rej) h
    | many xs => simp [Op.atomic, SetVal.isOne] at ha
    | vec w => simp [Op.atomic, SetVal.isOne] at ha
  | fieldOp v name f => exact of_pair (fun _ _ => fieldOp_rej) h
  | fieldOpGen v name g neg rhs => simp [Op.atomic] at ha
  | fieldGet v name idx => exact of_pair (fun _ _ => fieldGet_rej) h
  | setFlattened v name vals => exact of_pair (fun _ _ => setFlattened_rej) h
  | writeBack v name => exact of_pair (fun _ _ => writeBack_rej) h
  | addFields v names => exact of_pair (fun _ _ => addFields_rej hI) h
  | removeFields v names => exact of_pair (fun _ _ => removeFields_rej hI) h
  | copy v => exact of_pair (fun _ _ => copy_rej) h
  | setDataAttr v lens items => exact of_pair (fun _ _ => setDataAttr_rej) h
  | metaSet v k x => exact of_pair (fun _ _ => metaSet_rej) h

/-- after a rejected atomic call every further call behaves as if the rejected one had never been made -/
theorem rejected_then_same {s : State} (hI : Inv s) (op : Op) (ha : Op.atomic op = true) {e : Err}
    (h : (step s op).2 = .err e) (next : Op) : step (step s op).1 next = step s next := by
  rw [rejected_no_effect hI op ha h]

/-- the history with every rejected atomic call deleted -/
def accepted : State → List Op → List Op
  | _, [] => []
  | s, op :: ops =>
      if Op.atomic op && Res.isErr (step s op).2 then accepted s ops
      else op :: accepted (step s op).1 ops

theorem run_cons (s : State) (op : Op) (ops : List Op) : run s (op :: ops) = run (step s op).1 ops := by
  simp [run]

/-- **refinement over whole histories**: from any invariant state, a history that contains rejected
calls ends in exactly the state of the history without them -/
theorem history_drops_rejected (ops : List Op) : ∀ {s : State}, Inv s → run s ops = run s (accepted s ops) := by
  induction ops with
  | nil => intro s _; rfl
  | cons op ops ih =>
    intro s hI
    rw [run_cons]
    unfold accepted
    split
    · rename_i hc
      simp only [Bool.and_eq_true] at hc
      obtain ⟨ha, he⟩ := hc
      have : ∃ e, (step s op).2 = .err e := by
        cases hr : (step s op).2 <;> simp [hr, Res.isErr] at he
        exact ⟨_, rfl⟩
      obtain ⟨e, he'⟩ := this
      rw [rejected_no_effect hI op ha he']
      exact ih hI
    · rw [run_cons]
      exact ih (invariant_step s op hI)

theorem all_histories_drop_rejected (ops : List Op) : run init ops = run init (accepted init ops) :=
  history_drops_rejected ops inv_init

/-! ### argument forms in front of `from_shape` (Model/VectorFront.lean) -/

/-- **the front end refines the value-level `from_shape`**: a call on argument forms is either rejected
with the state untouched, or it IS the value-level call on the validated shape and the normalised
`num_fields` / `fields` / `units` -/
theorem front_refines_core (s : State) (shape : ShapeArg) (nf : Option NumArg) (fields units : Option SeqArg) :
    ((opFromShapeFront s shape nf fields units).1 = s ∧ ∃ e, (opFromShapeFront s shape nf fields units).2 = .err e) ∨
    ∃ sh nf' fs' us', validateShapeArg shape = .ok sh ∧ frontFields nf fields = .ok (nf', fs') ∧
      opFromShapeFront s shape nf fields units = opFromShape s sh nf' fs' us' := by
  cases h1 : validateShapeArg shape with
  | error e => exact Or.inl (by simp [opFromShapeFront, h1])
  | ok sh =>
    cases h2 : frontFields nf fields with
    | error e => exact Or.inl (by simp [opFromShapeFront, h1, h2])
    | ok p =>
      obtain ⟨nf', fs'⟩ := p
      cases h3 : resolveFields nf' fs' with
      | error e => exact Or.inl (by simp [opFromShapeFront, h1, h2, h3])
      | ok fs =>
        cases units with
        | none => exact Or.inr ⟨sh, nf', fs', none, rfl, rfl, by simp [opFromShapeFront, h1, h2, h3]⟩
        | some u =>
          cases u with
          | notSeq => exact Or.inl (by simp [opFromShapeFront, h1, h2, h3])
          | seq us => exact Or.inr ⟨sh, nf', fs', some us, rfl, rfl, by simp [opFromShapeFront, h1, h2, h3]⟩

/-- creation through any argument form keeps the structural invariant -/
theorem front_preserves_invariant {s : State} (hI : Inv s) (shape : ShapeArg) (nf : Option NumArg)
    (fields units : Option SeqArg) : Inv (opFromShapeFront s shape nf fields units).1 := by
  rcases front_refines_core s shape nf fields units with ⟨h, _⟩ | ⟨sh, nf', fs', us', _, _, h⟩
  · rw [h]; exact hI
  · rw [h]; exact inv_fromShape hI sh nf' fs' us'

/-- a rejected creation call (wrong argument type or value) leaves no trace -/
theorem front_rejected_no_effect (s : State) (shape : ShapeArg) (nf : Option NumArg) (fields units : Option SeqArg)
    {e : Err} (h : (opFromShapeFront s shape nf fields units).2 = .err e) :
    (opFromShapeFront s shape nf fields units).1 = s := by
  rcases front_refines_core s shape nf fields units with ⟨h', _⟩ | ⟨sh, nf', fs', us', _, _, h'⟩
  · exact h'
  · rw [h'] at h ⊢
    exact of_pair (fun _ _ => fromShape_rej) h

/-- every accepted shape consists of positive dimensions (so `nested_list` builds one cell per index) -/
theorem checkDims_pos : ∀ (ds : List DimArg) (sh : List Int), checkDims ds = .ok sh → ∀ d ∈ sh, 0 < d := by
  intro ds
  induction ds with
  | nil => intro sh h; cases h; simp
  | cons d ds ih =>
    intro sh h
    unfold checkDims at h
    cases hd : d.check with
    | error e => rw [hd] at h; cases h
    | ok i =>
      rw [hd] at h
      cases hr : checkDims ds with
      | error e => rw [hr] at h; cases h
      | ok is =>
        rw [hr] at h
        cases h
        intro x hx
        rcases List.mem_cons.mp hx with rfl | hx
        · cases d with
          | int k => simp only [DimArg.check] at hd; split at hd <;> cases hd; omega
          | bool b => simp only [DimArg.check] at hd; split at hd <;> cases hd; omega
          | other => cases hd
        · exact ih is hr x hx

/-- **the first offending dimension decides**: dimensions in front of it that pass do not matter, the
ones behind it are never looked at -/
theorem first_bad_dim_wins (pre : List DimArg) (d : DimArg) (post : List DimArg) (e : Err)
    (hpre : ∀ x ∈ pre, ∃ i, x.check = .ok i) (hd : d.check = .error e) :
    validateShapeArg (.tuple (pre ++ d :: post)) = .error e := by
  simp only [validateShapeArg]
  induction pre with
  | nil => simp [checkDims, hd]
  | cons x xs ih =>
    obtain ⟨i, hi⟩ := hpre x (by simp)
    have := ih (fun y hy => hpre y (by simp [hy]))
    simp [checkDims, hi, this]

/-- `True` is a dimension of length one, `False` is rejected like `0`; `2.0` is a TypeError — and behind a
`0` it is never reached -/
example : validateShapeArg (.tuple [.bool true, .int 2]) = .ok [1, 2] := rfl
example : validateShapeArg (.tuple [.int 2, .bool false]) = .error .valueError := rfl
example : validateShapeArg (.tuple [.int 2, .int 0, .other]) = .error .valueError :=
  first_bad_dim_wins [.int 2] (.int 0) [.other] _ (by simp [DimArg.check]) rfl
example : validateShapeArg (.tuple [.other, .int 0]) = .error .typeError := rfl
example : (opFromShapeFront init (.tuple [.int 2]) (some (.intLike 2)) (some (.seq ["x", "y"])) none).2 = .newVec 0 := rfl
example : (opFromShapeFront init (.tuple [.int 2]) (some (.intLike 2)) none none).2 = .err .typeError := rfl
example : (opFromShapeFront init (.tuple [.int 2]) none (some (.seq ["x"])) (some .notSeq)).2 = .err .typeError := rfl

/-! ### one fancy assignment with repeated / unsorted positions: the last writer wins -/

/-- the value finally stored at position `p` by the loop over `(ps[k], rs[k])`: the LAST `k` with `ps[k] = p` -/
def lastWriter (p : Nat) : List Nat → List Ref → Option Ref
  | q :: ps, r :: rs => match lastWriter p ps rs with
      | some r' => some r'
      | none => if q = p then some r else none
  | _, _ => none

theorem setCells_lastWriter (heap : List Arr) (nf : Nat) : ∀ (ps : List Nat) (rs : List Ref) (cells : List (Option Ref)),
    ps.length = rs.length → (∀ r ∈ rs, checkVal heap nf (.ref r) = .ok r) → (∀ q ∈ ps, q < cells.length) →
    (setCells heap nf cells ps (rs.map Val.ref)).2 = none ∧
    ∀ p, (setCells heap nf cells ps (rs.map Val.ref)).1[p]? =
      match lastWriter p ps rs with
      | some r => if p < cells.length then some (some r) else none
      | none => cells[p]? := by
  intro ps
  induction ps with
  | nil =>
    intro rs cells hl _ _
    cases rs with
    | nil => simp [setCells, lastWriter]
    | cons r rs => simp at hl
  | cons q ps ih =>
    intro rs cells hl hok hlt
    cases rs with
    | nil => simp at hl
    | cons r rs =>
      have hq : q < cells.length := hlt q (by simp)
      have hr := hok r (by simp)
      simp only [List.map_cons, setCells, hr]
      obtain ⟨i1, i2⟩ := ih rs (cells.set q (some r)) (by simpa using hl)
        (fun r' h' => hok r' (by simp [h'])) (fun q' h' => by simpa using hlt q' (by simp [h']))
      refine ⟨i1, ?_⟩
      intro p
      rw [i2 p]
      simp only [lastWriter, List.length_set]
      cases hw : lastWriter p ps rs with
      | some r' => rfl
      | none =>
        simp only
        by_cases hqp : q = p
        · subst hqp; simp [hq]
        · simp [hqp, List.getElem?_set_ne hqp]

/-- **last writer wins**: `v[idx] = [a₀, a₁, …]` whose index lists address a cell more than once (or in
any order): the loop stores value `k` in the `k`-th addressed cell in turn, so every position ends up
with the value of its LAST occurrence, untouched positions keep their cell. -/
theorem lastWriter_spec {s : State} {v : Vec} (ps : List Nat) (rs : List Ref)
    (hl : ps.length = rs.length) (hps : ∀ q ∈ ps, q < v.cells.length)
    (hrs : ∀ r ∈ rs, ∃ a, s.heap[r]? = some a ∧ a.ncols = v.fields.length) :
    (setCells s.heap v.fields.length v.cells ps (rs.map Val.ref)).2 = none ∧
    ∀ p, p < v.cells.length → (setCells s.heap v.fields.length v.cells ps (rs.map Val.ref)).1[p]? =
      match lastWriter p ps rs with
      | some r => some (some r)
      | none => v.cells[p]? := by
  have hok : ∀ r ∈ rs, checkVal s.heap v.fields.length (.ref r) = .ok r := by
    intro r hr
    obtain ⟨a, ha, hn⟩ := hrs r hr
    simp [checkVal, ha, hn]
  obtain ⟨i1, i2⟩ := setCells_lastWriter s.heap v.fields.length ps rs v.cells hl hok hps
  refine ⟨i1, ?_⟩
  intro p hp
  rw [i2 p]
  cases lastWriter p ps rs <;> simp [hp]

/-- **end to end**: `v[idx] = [a₀, a₁, …]` (index lists in ANY order, with repeats; slices of either
sign; short index) on a reachable state, all values well-formed arrays the caller holds: the call
succeeds, and the cell at flat position `p` finally holds the value of the LAST `k` whose addressed
position `ps[k]` is `p` — `ps` being the row-major enumeration `positions` of the resolved index lists
(`slice_spec` / `positions_addr` give its coordinates) — every other cell keeps what it held; heap,
schema and all other vectors are untouched.  (`assign_spec` needs distinct positions; this does not.) -/
theorem assign_lastWriter {s : State} {vid : Nat} {v : Vec} {idx : List Ix} {rs : List Ref} {ls : List (List Int)} {ps : List Nat}
    (hI : Inv s) (hv : s.getVec vid = .ok v) (hle : idx.length ≤ v.shape.length)
    (hf : (padIdx v.shape.length idx).any Ix.isFancy = true)
    (hls : resolveAll true v.shape (padIdx v.shape.length idx) = .ok ls) (hps : positions v.shape ls = .ok ps)
    (hl : rs.length = ps.length)
    (hrs : ∀ r ∈ rs, ∃ a, s.heap[r]? = some a ∧ a.ncols = v.fields.length) :
    ∃ v', opSetItem s vid idx (.many (rs.map Val.ref)) = (s.putVec vid v', .none) ∧
      v'.shape = v.shape ∧ v'.fields = v.fields ∧ v'.units = v.units ∧
      ∀ p, p < v.cells.length → v'.cells[p]? =
        match lastWriter p ps rs with
        | some r => some (some r)
        | none => v.cells[p]? := by
  have hvok := hI.vecs v (getVec_mem hv)
  have hlt : ∀ q ∈ ps, q < v.cells.length := by
    intro q hq; rw [hvok.ncells]; exact positions_lt _ _ _ hps q hq
  obtain ⟨i1, i2⟩ := lastWriter_spec (s := s) (v := v) ps rs hl.symm hlt hrs
  refine ⟨{ v with cells := (setCells s.heap v.fields.length v.cells ps (rs.map Val.ref)).1 }, ?_, rfl, rfl, rfl, i2⟩
  unfold opSetItem
  simp only [hv]
  rw [if_neg (by omega)]
  unfold setItemCore
  simp only [hf, if_true, hls, hps, List.length_map]
  rw [if_neg (by simpa using hl)]
  simp [finish, i1]

/-! ### non-vacuity -/

/-- a history with three rejected calls between valid ones: a bad shape, a duplicate field added,
an out-of-range cell assignment -/
def rejOps : List Op :=
  [ .alloc 2 [[1, 2], [3, 4]] false,
    .fromShape [2, 1, 2] none (some ["x", "y"]) none,
    .fromShape [2, 0] (some 1) none none,              -- ValueError
    .setItem 0 [.int 1, .int 0, .int (-1)] (.one (.ref 0)),
    .addFields 0 ["z", "x"],                            -- ValueError: exists
    .setItem 0 [.int 2, .int 0, .int 0] (.one (.ref 0)),  -- IndexError
    .copy 0,
    .fieldOp 1 "y" (· + 1) ]

example : (accepted init rejOps).length = 5 := by decide

example : run init rejOps = run init (accepted init rejOps) := all_histories_drop_rejected rejOps

example : (step (run init (rejOps.take 2)) (.fromShape [2, 0] (some 1) none none)).2 = .err .valueError := rfl

example : Op.atomic (.addFields 0 ["z", "x"]) = true := rfl

/-- descending list `[2, 0, 2]`: position 2 is written twice, the later value stays -/
example : lastWriter 2 [2, 0, 2] [7, 8, 9] = some 9 ∧ lastWriter 0 [2, 0, 2] [7, 8, 9] = some 8 ∧
    lastWriter 1 [2, 0, 2] [7, 8, 9] = none := by decide

/-- three arrays assigned through the unsorted list with a repeat `[2, 0, 2]` -/
def lwOps : List Op :=
  [ .alloc 1 [[1]] false, .alloc 1 [[2]] false, .alloc 1 [[3]] false, .fromShape [3] none (some ["x"]) none ]

example : ∃ v', opSetItem (run init lwOps) 0 [.list [2, 0, 2]] (.many ([0, 1, 2].map Val.ref)) = ((run init lwOps).putVec 0 v', .none) ∧
    v'.cells[2]? = some (some 2) ∧ v'.cells[0]? = some (some 1) ∧ v'.cells[1]? = some none := by
  obtain ⟨v', h, _, _, _, hc⟩ := assign_lastWriter (s := run init lwOps) (vid := 0) (idx := [.list [2, 0, 2]]) (rs := [0, 1, 2])
    (ls := [[2, 0, 2]]) (ps := [2, 0, 2]) (invariant_all_histories lwOps) rfl (by decide) rfl rfl rfl rfl
    (by intro r hr; simp at hr; rcases hr with rfl | rfl | rfl <;> exact ⟨_, rfl, rfl⟩)
  exact ⟨v', h, hc 2 (by decide), hc 0 (by decide), hc 1 (by decide)⟩

end QuantemModel.Props.C11
