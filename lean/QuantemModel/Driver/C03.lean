import QuantemModel.Model.DatasetProtoExt
/- C03 driver: the Dataset state machine with its input forms over the JSON-lines protocol
(codec in Model/DatasetProto.lean + Model/DatasetProtoExt.lean). -/
def main : IO Unit := QuantemModel.Proto.run ({} : DrvC03.St) DrvC03X.step
