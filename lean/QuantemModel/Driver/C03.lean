import QuantemModel.Model.DatasetProto
/- C03 driver: the Dataset state machine over the JSON-lines protocol (codec in Model/DatasetProto.lean). -/
def main : IO Unit := QuantemModel.Proto.run ({} : DrvC03.St) DrvC03.step
