import QuantemModel.Core.Proto
import QuantemModel.Model.Checkpoint
import QuantemModel.Model.CheckpointSession
import QuantemModel.Model.CheckpointLive
open Lean QuantemModel QuantemModel.Proto QuantemModel.Checkpoint

/-!
Driver for C05: runs Model/Checkpoint.lean on the event trace recorded from real runs.
ops: reconnect | book | symiter | project | session | live
-/
namespace DrvC05

def pairList (j : Json) : Except String (List (Nat × Nat)) := do
  (← j.getArr?).toList.mapM fun it => do
    let pr ← it.getArr?
    if pr.size != 2 then throw "pair" else pure ((← pr[0]!.getNat?), (← pr[1]!.getNat?))

def pairsToJson (l : List (Nat × Nat)) : Json :=
  Json.arr (l.map (fun (a, b) => Json.arr #[Json.num (JsonNumber.fromNat a), Json.num (JsonNumber.fromNat b)])).toArray

def natsToJson (l : List Nat) : Json := Json.arr (l.map (fun a => Json.num (JsonNumber.fromNat a))).toArray

def optsOfJson (j : Json) : Except String (List (String × Nat)) := do
  (← j.getArr?).toList.mapM fun it => do
    let pr ← it.getArr?
    if pr.size != 2 then throw "pair" else pure ((← pr[0]!.getStr?), (← pr[1]!.getNat?))

def nodup : List Nat → Bool
  | [] => true
  | a :: rest => !rest.contains a && nodup rest

def isPrefix : List Nat → List Nat → Bool
  | [], _ => true
  | _ :: _, [] => false
  | a :: as, b :: bs => a == b && isPrefix as bs

/-- insertion sort by key (the LR dict is hash-ordered in Python) -/
def insertKV (kv : String × List Nat) : List (String × List Nat) → List (String × List Nat)
  | [] => [kv]
  | x :: rest => if kv.1 < x.1 then kv :: x :: rest else x :: insertKV kv rest
def sortKV (l : List (String × List Nat)) : List (String × List Nat) := l.foldl (fun acc kv => insertKV kv acc) []

def bookJson (b : Book) : Json :=
  Json.mkObj [("lrs", Json.arr ((sortKV b.iterLrs).map (fun (k, l) => Json.arr #[Json.str k, natsToJson l])).toArray),
              ("nloss", Json.num (JsonNumber.fromNat b.iterLosses.length)), ("inv", Json.bool b.inv)]

/-! symbolic iteration machine: values are irrelevant (Unit), moments are step counts -/

abbrev SRecon := Recon Unit Nat Unit

def maskOf (masks : List (String × List Bool)) (key : String) (p : Nat) : Bool :=
  match lookup key masks with
  | some m => m.getD p false
  | none => false

def symStep (masks : List (String × List Bool)) : Step Unit Unit Nat Unit where
  loss := fun _ => 0
  grad := fun _ key p => if maskOf masks key p then some () else none
  upd := fun _ _ m x _ => (some (m.getD 0 + 1), x)
  sched := fun s _ lr => (s, lr)

def symModel (sizes : List (String × Nat)) (key : String) : ModelSt Unit Nat Unit :=
  match lookup key sizes with
  | some n =>
      let ids := List.range n
      { params := ids.map (fun i => (i, ())), opt := some { params := ids, state := [], lr := 0, hyper := 0 }, sched := none, cons := [] }
  | none => { params := [], opt := none, sched := none, cons := [] }

def symInit (sizes : List (String × Nat)) : SRecon :=
  { object := symModel sizes "object", probe := symModel sizes "probe", dataset := symModel sizes "dataset",
    book := Book.empty, verbose := 0, batchSize := 1, preprocessed := true, device := "cpu" }

def symRun (r : SRecon) (iters : List (List (String × List Bool))) : SRecon :=
  iters.foldl (fun r masks => iter (symStep masks) r) r

def shapeOf (r : SRecon) : List (String × List Nat × List Nat) :=
  [("object", r.object), ("probe", r.probe), ("dataset", r.dataset)].filterMap fun (k, m) =>
    m.opt.map fun o => (k, o.state.map (·.1), o.state.map (·.2))

def shapeJson (r : SRecon) : Json :=
  Json.arr ((shapeOf r).map fun (k, ks, ss) => Json.arr #[Json.str k, natsToJson ks, natsToJson ss]).toArray

def masksOfJson (j : Json) : Except String (List (List (String × List Bool))) := do
  (← j.getArr?).toList.mapM fun it => do
    (← it.getArr?).toList.mapM fun km => do
      let pr ← km.getArr?
      if pr.size != 2 then throw "pair" else
      let bs ← (← pr[1]!.getArr?).toList.mapM (·.getBool?)
      pure ((← pr[0]!.getStr?), bs)

/-! call-level session machine (Model/CheckpointSession.lean) on an abstract description of each real call -/

def optKindOfStr : String → Except String OptKind
  | "ok" => pure .ok
  | "none" => pure .none_
  | "unknown" => pure .unknown
  | "badkw" => pure .badkw
  | s => throw s!"opt kind {s}"

def schedArgOfStr : String → Except String SchedArg
  | "empty" => pure .empty
  | "notype" => pure .notype
  | "unknown" => pure .unknown
  | "none" => pure (.cfg true 0)
  | "ok" => pure (.cfg false 1)
  | s => throw s!"sched kind {s}"

def strPairs (j : Json) : Except String (List (String × String)) := do
  (← j.getArr?).toList.mapM fun it => do
    let pr ← it.getArr?
    if pr.size != 2 then throw "pair" else pure ((← pr[0]!.getStr?), (← pr[1]!.getStr?))

def callOfJson (j : Json) : Except String Call := do
  let batchOk ← (← field j "batchOk").getBool?
  let reset ← (← field j "reset").getBool?
  let lossOk ← (← field j "lossOk").getBool?
  let n ← natField j "n"
  let cons ← (← arrField j "cons").toList.mapM fun e => do
    let pr ← e.getArr?
    if pr.size != 2 then throw "cons entry" else
    let items ← (← pr[1]!.getArr?).toList.mapM fun it => do
      let q ← it.getArr?
      if q.size != 2 then throw "cons item" else pure ((← q[0]!.getStr?), 1, (← q[1]!.getBool?))
    pure ({ category := (← pr[0]!.getStr?), items := items } : ConsEntry)
  let optJ ← field j "opt"
  let opt ← if optJ.isNull then pure none else do
    let l ← strPairs optJ
    pure (some (← l.mapM fun (k, s) => do pure (k, ({ kind := (← optKindOfStr s), hyper := 0, lr := 1 } : OptCfg))))
  let schedJ ← field j "sched"
  let sched ← if schedJ.isNull then pure none else do
    let l ← strPairs schedJ
    pure (some (← l.mapM fun (k, s) => do pure (k, (← schedArgOfStr s))))
  pure { batchOk := batchOk, reset := reset, cons := cons, opt := opt, sched := sched, lossOk := lossOk, n := n }

def allStep : Step Unit Unit Nat Unit where
  loss := fun _ => 0
  grad := fun _ _ _ => some ()
  upd := fun _ _ m x _ => (some (m.getD 0 + 1), x)
  sched := fun s _ lr => (s, lr)

def sessModel (keep : List Bool) : ModelSt Unit Nat Unit :=
  let n := keep.length
  { params := (List.range n).map (fun i => (i, ())), opt := none, sched := none, cons := [], init := List.replicate n (), keepId := keep }

def keepOfJson (j : Json) : Except String (List (String × List Bool)) := do
  (← j.getArr?).toList.mapM fun it => do
    let pr ← it.getArr?
    if pr.size != 2 then throw "pair" else
    pure ((← pr[0]!.getStr?), (← (← pr[1]!.getArr?).toList.mapM (·.getBool?)))

def sessViewJson (raised : Bool) (r : SRecon) : Json :=
  let one := fun (k : String) (m : ModelSt Unit Nat Unit) =>
    Json.mkObj [("key", Json.str k), ("opt", Json.bool m.opt.isSome), ("sched", Json.bool m.sched.isSome),
      ("bound", match m.opt with | some o => Json.bool (o.params == m.params.map (·.1)) | none => Json.null),
      ("cfg", Json.bool m.optCfg.isSome), ("scfg", Json.bool m.schedCfg.isSome), ("ids", natsToJson (m.params.map (·.1)))]
  Json.mkObj [("raised", Json.bool raised), ("models", Json.arr #[one "object" r.object, one "probe" r.probe, one "dataset" r.dataset]),
    ("num_iters", Json.num (JsonNumber.fromNat r.book.iterLosses.length)),
    ("lrs", Json.arr ((sortKV r.book.iterLrs).map (fun (k, l) => Json.arr #[Json.str k, Json.num (JsonNumber.fromNat l.length)])).toArray),
    ("inv", Json.bool r.book.inv)]

def step (st : Unit) (j : Json) : Unit × Json :=
  match (do
    let op ← strField j "op"
    match op with
    | "reconnect" =>
        let cur ← natList (← field j "cur")
        let old ← natList (← field j "old_params")
        let state ← pairList (← field j "state")
        let o : Optim Nat := { params := old, state := state, lr := 0, hyper := 0 }
        let keys := state.map (·.1)
        let identity := old == cur && !cur.isEmpty && nodup keys && keys.all cur.contains
        let pre := isPrefix keys cur
        let pos := match reconnectPositional cur o with | some o' => pairsToJson o'.state | none => Json.null
        match reconnect cur o with
        | some o' =>
            pure (st, okJson (Json.mkObj [("state", pairsToJson o'.state), ("params", natsToJson o'.params),
              ("prefix", Json.bool pre), ("identity", Json.bool identity), ("positional", pos)]))
        | none =>
            pure (st, okJson (Json.mkObj [("state", Json.null), ("params", Json.null),
              ("prefix", Json.bool pre), ("identity", Json.bool identity), ("positional", pos)]))
    | "book" =>
        let ops ← arrField j "ops"
        let mut b := Book.empty
        let mut out : Array Json := #[]
        for o in ops do
          let k ← strField o "k"
          if k == "record" then
            b := b.apply (.record (← optsOfJson (← field o "opts")) (← natField o "loss"))
          else
            b := b.apply .reset
          out := out.push (bookJson b)
        pure (st, okJson (Json.mkObj [("steps", Json.arr out)]))
    | "symiter" =>
        let sizes ← optsOfJson (← field j "sizes")
        let pre ← masksOfJson (← field j "pre")
        let post ← masksOfJson (← field j "post")
        let mid := symRun (symInit sizes) pre
        -- theorem `fromFile_save`: fromFile pk (save rc pk r) = some (toDevice rc r) for every Pickle
        let reloaded := toDevice reconnect mid
        let endR := symRun reloaded post
        let endU := symRun mid post
        pure (st, okJson (Json.mkObj [("mid", shapeJson mid), ("reloaded", shapeJson reloaded), ("end", shapeJson endR),
          ("resume_eq", Json.bool (shapeOf endR == shapeOf endU && endR.book == endU.book)),
          ("positional_reloaded", shapeJson (toDevice reconnectPositional mid))]))
    | "session" =>
        let keeps ← keepOfJson (← field j "keep")
        let calls ← (← arrField j "calls").toList.mapM callOfJson
        let size := fun k => (lookup k keeps).getD []
        let mut r : SRecon := { object := sessModel (size "object"), probe := sessModel (size "probe"), dataset := sessModel (size "dataset"),
                                book := Book.empty, verbose := 0, batchSize := 1, preprocessed := true, device := "cpu" }
        let mut out : Array Json := #[]
        for c in calls do
          let x := exec allStep (fun _ lr => ((), lr)) [] c r
          r := x.1
          out := out.push (sessViewJson x.2 r)
        pure (st, okJson (Json.mkObj [("steps", Json.arr out)]))
    | "live" =>
        -- Model/CheckpointLive.lean on presence masks (γ = Unit): per model [key, has optimizer, .grad-is-not-None mask before
        -- zero_grad_all, mask of the gradient of this pass]; answer: masks after zero_grad_all and after backward
        let ms ← (← arrField j "models").toList.mapM fun it => do
          let a ← it.getArr?
          if a.size != 4 then throw "live model" else
            let bools := fun (x : Json) => do (← x.getArr?).toList.mapM (·.getBool?)
            pure ((← a[0]!.getStr?), (← a[1]!.getBool?), (← bools a[2]!), (← bools a[3]!))
        let mk : String → ModelSt Unit Nat Unit := fun k =>
          match ms.find? (·.1 == k) with
          | some (_, has, stale, _) =>
              let ids := List.range stale.length
              { params := ids.map (fun i => (i, ())), opt := if has then some { params := ids, state := [], lr := 0, hyper := 0 } else none,
                sched := none, cons := [] }
          | none => { params := [], opt := none, sched := none, cons := [] }
        let r : SRecon := { object := mk "object", probe := mk "probe", dataset := mk "dataset", book := Book.empty,
                            verbose := 0, batchSize := 1, preprocessed := true, device := "cpu" }
        let look := fun (sel : String × Bool × List Bool × List Bool → List Bool) (k : String) (p : Nat) =>
          match ms.find? (·.1 == k) with
          | some m => if (sel m).getD p false then some () else none
          | none => none
        let G : Grads Unit := look (fun m => m.2.2.1)
        let S : Step Unit Unit Nat Unit := { loss := fun _ => 0, grad := fun _ k p => look (fun m => m.2.2.2) k p,
                                             upd := fun _ _ m x _ => (some (m.getD 0 + 1), x), sched := fun s _ lr => (s, lr) }
        let G0 := zeroGradAll r G
        let G1 := backwardAcc S (fun _ _ => ()) r.view G0
        let maskJson := fun (g : Grads Unit) =>
          Json.arr (ms.map (fun m => Json.arr #[Json.str m.1,
            Json.arr ((List.range m.2.2.1.length).map (fun p => Json.bool (g m.1 p).isSome)).toArray])).toArray
        -- theorem liveIter_fst on this instance: the step reads what the .grad-free iteration reads
        let same := (liveIter S (fun _ _ => ()) (r, G)).1.object.opt == (iter S r).object.opt &&
                    (liveIter S (fun _ _ => ()) (r, G)).1.probe.opt == (iter S r).probe.opt &&
                    (liveIter S (fun _ _ => ()) (r, G)).1.dataset.opt == (iter S r).dataset.opt
        pure (st, okJson (Json.mkObj [("zeroed", maskJson G0), ("after", maskJson G1), ("live_eq_iter", Json.bool same)]))
    | "project" =>
        let names ← (← arrField j "names").toList.mapM (·.getStr?)
        let skip ← (← arrField j "skip").toList.mapM (·.getStr?)
        let kept := Serialize.stripAttrs skip (names.map (fun n => (n, Serialize.Val.scalar .none)))
        pure (st, okJson (Json.arr (kept.map (fun kv => Json.str kv.1)).toArray))
    | _ => throw s!"unknown op {op}" : Except String (Unit × Json)) with
  | .ok r => r
  | .error e => (st, errJson s!"driver:{e}")

end DrvC05

def main : IO Unit := QuantemModel.Proto.run () DrvC05.step
