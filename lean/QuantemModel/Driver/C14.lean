import QuantemModel.Core.Proto
import QuantemModel.Model.Serialize
import QuantemModel.Model.SerializeSkipExt
import QuantemModel.Model.SerializeAttrsExt
import QuantemModel.Core.SerializeJson
open Lean QuantemModel QuantemModel.Proto QuantemModel.Serialize QuantemModel.SerializeSkip

namespace DrvC14
open QuantemModel.SerializeJson

def strs (x : Json) : Except String (List String) := do (← x.getArr?).toList.mapM (·.getStr?)

def skipOfJson (j : Json) : Except String Skip := do
  pure { names := (← strs (fieldD j "names" (Json.arr #[]))), types := (← strs (fieldD j "types" (Json.arr #[]))) }

/-- `{"bare_name": s}` | `{"bare_type": t}` | `{"seq": [["n", s] | ["t", t] | ["o"], …]}` -/
def skipArgOfJson (j : Json) : Except String SkipArg := do
  match j.getObjVal? "bare_name" with
  | .ok s => pure (.bareName (← s.getStr?))
  | .error _ =>
    match j.getObjVal? "bare_type" with
    | .ok t => pure (.bareType (← t.getStr?))
    | .error _ =>
      let items ← (← (fieldD j "seq" (Json.arr #[])).getArr?).toList.mapM fun it => do
        let a ← it.getArr?
        match (← (a[0]?.getD Json.null).getStr?) with
        | "n" => pure (SkipItem.name (← a[1]!.getStr?))
        | "t" => pure (SkipItem.type (← a[1]!.getStr?))
        | _ => pure SkipItem.other
      pure (.seq items)

def errName : Err → String
  | .valueError => "ValueError" | .keyError => "KeyError" | .typeError => "TypeError"

def strArr (xs : List String) : Json := Json.arr (xs.map Json.str).toArray

def nsName : Ns → String
  | .attr => "attr" | .array => "array" | .group => "group"

/-- what a stored tree looks like from outside: per object group the user-level keys with their
namespace (attribute / array / sub-group), descending into nested object groups only -/
partial def nodeSummary : Node → Json
  | .map f kids =>
      match fget f "_autoserialize" with
      | some (.str cls) =>
          Json.arr #["obj", Json.str cls,
            Json.arr (kids.map fun (k, n) => Json.arr #[Json.str k, Json.str (nsName (nsOf n)), nodeSummary n]).toArray]
      | _ => Json.null
  | _ => Json.null

def outToJson : SOut → Json
  | .saved => Json.mkObj [("saved", Json.bool true)]
  | .raised e => Json.mkObj [("raised", Json.str e)]
  | .loaded v => Json.mkObj [("loaded", valToJson v)]

def opOfJson (j : Json) : Except String SOp := do
  match (← strField j "k") with
  | "save" =>
      pure (.save { obj := (← (← field j "obj").getNat?), path := (← strField j "path"),
                    overwrite := (← (fieldD j "overwrite" (Json.bool false)).getBool?),
                    badLevel := (← (fieldD j "bad_level" (Json.bool false)).getBool?),
                    skip := (← skipArgOfJson (fieldD j "skip" (Json.mkObj []))) })
  | "load" => pure (.load (← strField j "path") (← skipArgOfJson (fieldD j "skip" (Json.mkObj []))))
  | k => throw s!"op kind {k}"

/-- optional field `"attrs": [[class, [field, …]], …]`: the attrs classes of the graph (growth 6) -/
def classInfoOfJson (j : Json) : Except String ClassInfo := do
  let rows ← (← (fieldD j "attrs" (Json.arr #[])).getArr?).toList.mapM fun r => do
    let a ← r.getArr?
    pure ((← (a[0]?.getD Json.null).getStr?), (← strs (a[1]?.getD (Json.arr #[]))))
  pure (classInfoOf rows)

def step (st : Unit) (j : Json) : Unit × Json :=
  match (do
    let op ← strField j "op"
    match op with
    | "roundtrip" =>
        let v ← valOfJson (← field j "v")
        let sks ← skipOfJson (fieldD j "skip_save" (Json.mkObj []))
        let skl ← skipOfJson (fieldD j "skip_load" (Json.mkObj []))
        match load skl (save sks v) with
        | .ok r => pure (okJson (valToJson r))
        | .error e => pure (errJson (errName e))
    | "roundtripX" =>
        -- the extended model: skip arguments in their call forms, `isinstance` with abstract base
        -- classes, a save that may raise, load-time type skipping where the code has it
        let v ← valOfJson (← field j "v")
        let sa ← skipArgOfJson (fieldD j "skip_save" (Json.mkObj []))
        let la ← skipArgOfJson (fieldD j "skip_load" (Json.mkObj []))
        let ci ← classInfoOfJson j
        match saveEA ci isInstanceX (normSkip sa) v with
        | .error e => pure (errJson ("save:" ++ errName e))
        | .ok s =>
            let stored := Json.mkObj [("names", strArr s.skipNames), ("types", strArr s.skipTypes), ("tree", nodeSummary s.root)]
            match loadX (normSkip la) s with
            | .ok r => pure (Json.mkObj [("ok", valToJson r), ("stored", stored)])
            | .error e => pure (Json.mkObj [("err", Json.str (errName e)), ("stored", stored)])
    | "history" =>
        let pool ← (← (← field j "pool").getArr?).toList.mapM valOfJson
        let ops ← (← (← field j "ops").getArr?).toList.mapM opOfJson
        let ci ← classInfoOfJson j
        let r := srun isInstanceX (pool.map (viewA ci)) [] ops
        pure (okJson (Json.arr (r.2.map outToJson).toArray))
    | "ptychoskip" =>
        let a ← skipArgOfJson (fieldD j "skip" (Json.mkObj []))
        let raw ← (fieldD j "raw" (Json.bool false)).getBool?
        let sk := normSkip (ptychoSkipArg a raw)
        pure (okJson (Json.mkObj [("names", strArr sk.names), ("types", strArr sk.types)]))
    | _ => throw s!"unknown op {op}" : Except String Json) with
  | .ok r => (st, r)
  | .error e => (st, errJson s!"driver:{e}")

end DrvC14

def main : IO Unit := QuantemModel.Proto.run () DrvC14.step
