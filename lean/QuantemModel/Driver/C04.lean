import QuantemModel.Core.Proto
import QuantemModel.Model.DirectPtycho
import QuantemModel.Model.DirectKernel
import QuantemModel.Model.DirectHalfsets
open Lean QuantemModel QuantemModel.Proto QuantemModel.DirectPtycho

namespace DrvC04

def errName : Err → String
  | .valueError => "ValueError"
  | .indexError => "IndexError"

def boolList (j : Json) : Except String (List Bool) := do
  (← j.getArr?).toList.mapM fun x => do
    match x with
    | .bool b => pure b
    | _ => pure ((← x.getNat?) != 0)

def floatsToJson (xs : List Float) : Json := Json.arr (xs.map floatToJson).toArray
def natsToJson (xs : List Nat) : Json := Json.arr (xs.map fun n => Json.num (JsonNumber.fromNat n)).toArray

def floatField (j : Json) (k : String) : Except String Float := do floatOfJson (← field j k)
def floatsField (j : Json) (k : String) : Except String (List Float) := do floatList (← field j k)

def cxImg (j : Json) : Except String (Img (Cx Float)) := do
  let re ← floatsField j "re"
  let im ← floatsField j "im"
  pure (List.zipWith (fun a b => (⟨a, b⟩ : Cx Float)) re im)

def cxImgToJson (x : Img (Cx Float)) : Json :=
  Json.mkObj [("re", floatsToJson (x.map (·.re))), ("im", floatsToJson (x.map (·.im)))]

def kernelOfName (s : String) : Except String Kernel :=
  match s with
  | "ssb" => pure .ssb | "obf" => pure .obf | "mf" => pure .mf | "prlx" => pure .prlx | "icom" => pure .icom
  | _ => throw s!"kernel {s}"

def schedulesOfJson (j : Json) : Except String (List (List (List Nat))) := do
  (← j.getArr?).toList.mapM fun sch => do
    (← sch.getArr?).toList.mapM natList

def geomOfJson (j : Json) : Except String (PrlxGeom Float) := do
  pure { wavelength := ← floatField j "wavelength", rsx := ← floatField j "rsx", rsy := ← floatField j "rsy",
         detRows := ← natField j "det_rows", detCols := ← natField j "det_cols",
         rotation := ← floatField j "rotation", c10 := ← floatField j "c10", c12 := ← floatField j "c12",
         phi12 := ← floatField j "phi12", scanRows := ← natField j "r", scanCols := ← natField j "c",
         sx := ← floatField j "sx", sy := ← floatField j "sy", u := ← natField j "u" }

/-- dicts cross as `[[key, bits], …]` -/
def dictOfJson (j : Json) : Except String (Dict Float) := do
  (← j.getArr?).toList.mapM fun it => do
    let pr ← it.getArr?
    if pr.size != 2 then throw "pair" else
    pure ((← pr[0]!.getStr?), (← floatOfJson pr[1]!))

def dictToJson (d : Dict Float) : Json :=
  Json.arr (d.map fun kv => Json.arr #[Json.str kv.1, floatToJson kv.2]).toArray

def optFloat (j : Json) (k : String) : Except String (Option Float) :=
  match j.getObjVal? k with
  | .ok .null => pure none
  | .ok v => do pure (some (← floatOfJson v))
  | .error _ => pure none

def optDict (j : Json) (k : String) : Except String (Option (Dict Float)) :=
  match j.getObjVal? k with
  | .ok .null => pure none
  | .ok v => do pure (some (← dictOfJson v))
  | .error _ => pure none

def kgeomOfJson (j : Json) : Except String (KGeom Float) := do
  pure { wavelength := ← floatField j "wavelength", semiangle := ← floatField j "semiangle",
         soft := (boolField j "soft").toOption.getD true, rs0 := ← floatField j "rs0", rs1 := ← floatField j "rs1",
         detRows := ← natField j "det_rows", detCols := ← natField j "det_cols", rotation := ← floatField j "rotation",
         coefs := ← dictOfJson (← field j "coefs"), scanRows := ← natField j "r", scanCols := ← natField j "c",
         sx := ← floatField j "sx", sy := ← floatField j "sy", u := ← natField j "u",
         qLow := ← optFloat j "ql", qHigh := ← optFloat j "qh", order := ← natField j "order",
         eps := ← floatField j "eps", flip := (boolField j "flip").toOption.getD false }

def stateToJson (st : HState Float Float) : Json :=
  Json.mkObj [("initial_ab", dictToJson st.initialAb), ("optimized_ab", dictToJson st.optimizedAb),
              ("initial_rot", match st.initialRot with | some r => floatToJson r | none => Json.null),
              ("optimized_rot", match st.optimizedRot with | some r => floatToJson r | none => Json.null)]

def step (st : Unit) (j : Json) : Unit × Json :=
  match (do
    let op ← strField j "op"
    match op with
    | "normalize" =>
        let name ← strField j "name"
        pure (match normalizeKernelName name.toList with
          | .ok k => okJson (Json.str k.name)
          | .error e => errJson (errName e))
    | "bfcontext" =>
        let cols ← natField j "cols"
        let cm ← boolList (← field j "cmask")
        let sub ← boolList (← field j "sub")
        pure (match bfContext cols cm sub with
          | .ok b => okJson (Json.mkObj [("i", natsToJson b.indsI), ("j", natsToJson b.indsJ),
                                        ("n", Json.num (JsonNumber.fromNat b.numBf)), ("map", natsToJson b.mapping)])
          | .error e => errJson (errName e))
    | "halfsets" =>
        -- `_make_checkerboard_bf_masks(gpts, bf_mask)` + the two `_return_bf_context` calls of `_reconstruct_with_halfsets`
        let gr ← natField j "gr"
        let gc ← natField j "gc"
        let m ← boolList (← field j "mask")
        let h := halfsetMasks gr gc m
        let ctxJson := fun (b : BFContext) => Json.mkObj [("i", natsToJson b.indsI), ("j", natsToJson b.indsJ),
            ("n", Json.num (JsonNumber.fromNat b.numBf)), ("map", natsToJson b.mapping)]
        pure (match halfsetContexts gr gc m with
          | .ok (b1, b2) => okJson (Json.mkObj [("h1", Json.arr (h.1.map Json.bool).toArray),
              ("h2", Json.arr (h.2.map Json.bool).toArray), ("c1", ctxJson b1), ("c2", ctxJson b2)])
          | .error e => errJson (errName e))
    | "chunks" =>
        let n ← natField j "n"
        let b ← natField j "b"
        pure (okJson (Json.arr ((chunkSchedule n b).map natsToJson).toArray))
    | "reconstruct" =>
        let k ← kernelOfName (← strField j "kernel")
        let r ← natField j "r"
        let c ← natField j "c"
        let u ← natField j "u"
        let stack ← (← arrField j "stack").toList.mapM floatList
        let mapping ← natList (← field j "mapping")
        let K ← (← arrField j "K").toList.mapM cxImg
        let P ← (← arrField j "P").toList.mapM floatList
        let W ← floatField j "W"
        let env ← floatsField j "env"
        let eps ← floatField j "eps"
        let schedules ← schedulesOfJson (← field j "schedules")
        let wantG := (boolField j "want_G").toOption.getD false
        let F : Fourier Float := Fourier.dft
        let Karr := K.toArray
        let Parr := P.toArray
        let geo : Geometry Float :=
          { r := r, c := c, u := u, mapping := mapping, K := fun t => Karr.getD t [], P := fun t => Parr.getD t [],
            W := W, env := env, eps := eps }
        let pb0 := problemOfStack F geo stack
        -- numerators are memoised (they do not depend on the schedule)
        let Garr := ((List.range pb0.n).map pb0.G).toArray
        let pb : Problem Float := { pb0 with G := fun i => Garr.getD i [] }
        let outs := schedules.map fun sch =>
          let stk := reconstruct F k pb sch
          Json.mkObj [("stack", Json.arr (stk.map fun o => match o with
                          | some x => floatsToJson x | none => Json.null).toArray),
                      ("bf", floatsToJson (correctedBf (pb.rows * pb.cols) stk))]
        let base := [("runs", Json.arr outs.toArray)]
        let extra := if wantG then [("G", Json.arr (Garr.toList.map cxImgToJson).toArray)] else []
        pure (okJson (Json.mkObj (base ++ extra)))
    | "history" =>
        -- HyperparameterState over a list of steps: effective hyper-parameters of every step and the state after it
        let initRaw ← dictOfJson (← field j "initial_ab")
        let irot ← optFloat j "initial_rot"
        let neg : Float → Float := fun x => -x
        -- `HyperparameterState.__post_init__` validates (canonicalises) the initial aberrations
        let init ← match canonicalize neg initRaw with
          | .ok c => pure c
          | .error _ => throw "initial aberrations"
        let st0 : HState Float Float := { initialAb := init, optimizedAb := [], initialRot := irot, optimizedRot := none }
        let steps ← (← arrField j "steps").toList.mapM fun sj => do
          let kind ← strField sj "kind"
          let rot ← optFloat sj "rot"
          if kind == "grid" then
            pure (Step.grid ((← optDict sj "ab").getD []) rot)
          else
            pure (Step.call (← optDict sj "ab") rot)
        let (_, outs) := steps.foldl (fun (acc : HState Float Float × List Json) s =>
          let eff := match effective neg (0.0 : Float) acc.1 s with
            | .ok (a, r) => Json.mkObj [("ab", dictToJson a), ("rot", floatToJson r)]
            | .error e => errJson (errName e)
          let st' := stepState neg acc.1 s
          (st', acc.2 ++ [Json.mkObj [("effective", eff), ("state", stateToJson st')]])) (st0, [])
        pure (okJson (Json.arr outs.toArray))
    | "qgrid" =>
        let N ← natField j "N"
        let M ← natField j "M"
        let dx ← floatField j "dx"
        let dy ← floatField j "dy"
        let g : Img Float × Img Float := qGrid N M dx dy
        pure (okJson (Json.mkObj [("qx", floatsToJson g.1), ("qy", floatsToJson g.2)]))
    | "prlx_operator" =>
        let gx ← floatField j "gx"
        let gy ← floatField j "gy"
        let qx ← floatsField j "qx"
        let qy ← floatsField j "qy"
        let sg ← floatsField j "sign"
        pure (okJson (cxImgToJson (prlxOperator gx gy qx qy sg)))
    | "icom_operator" =>
        let kx ← floatField j "kx"
        let ky ← floatField j "ky"
        let qx ← floatsField j "qx"
        let qy ← floatsField j "qy"
        pure (okJson (cxImgToJson (icomOperator kx ky qx qy)))
    | "kernel_full" =>
        -- the kernel formulas translated from the source, mapped over mask pixels and the scan-frequency grid
        let g ← kgeomOfJson j
        let k ← kernelOfName (← strField j "kernel")
        let pi ← natList (← field j "pix_i")
        let pj ← natList (← field j "pix_j")
        let which ← natList (← field j "which")
        let pix := pi.zip pj
        let parr := pix.toArray
        let sign : Img Float := match k with
          | .prlx => signImg g
          | _ => ones ((g.u * g.scanRows) * (g.u * g.scanCols))
        let Ks := which.map fun t => cxImgToJson (kernelFactor g k sign (parr.getD t (0, 0)))
        let Ps := which.map fun t => floatsToJson (powerTerm g k (parr.getD t (0, 0)))
        let pr := pix.map (probeAt g)
        let gr := pix.map (gradAt g)
        let kp := pix.map fun ij => kPoint g ij.1 ij.2
        -- the aberration phase on the scan-frequency grid (conditioning of `sign(sin(chi_q))`), parallax only
        let q := qImgs g
        let chi : Img Float := match k with
          | .prlx => List.zipWith (fun qx qy =>
              let pc := QuantemModel.Generated.DirectKernel.polar_coordinates qx qy
              QuantemModel.Generated.DirectKernel.aberration_surface (pc.1 * g.wavelength) pc.2 g.wavelength g.coefs) q.1 q.2
          | _ => []
        pure (okJson (Json.mkObj [
          ("chi", floatsToJson chi),
          ("W", floatToJson (bfWeights g pix)), ("weights", floatsToJson (pix.map (weightTerm g))),
          ("env", floatsToJson (envImg g)), ("sign", floatsToJson sign),
          ("probe", cxImgToJson pr), ("gx", floatsToJson (gr.map (·.1))), ("gy", floatsToJson (gr.map (·.2))),
          ("kx", floatsToJson (kp.map (·.1))), ("ky", floatsToJson (kp.map (·.2))),
          ("K", Json.arr Ks.toArray), ("P", Json.arr Ps.toArray)]))
    | "reconstruct_full" =>
        -- the whole reconstruction from (stack, mask pixels, hyper-parameters): no captured factor
        let g ← kgeomOfJson j
        let k ← kernelOfName (← strField j "kernel")
        let pi ← natList (← field j "pix_i")
        let pj ← natList (← field j "pix_j")
        let mapping ← natList (← field j "mapping")
        let stack ← (← arrField j "stack").toList.mapM floatList
        let schedules ← schedulesOfJson (← field j "schedules")
        let F : Fourier Float := Fourier.dft
        let geo := geometryOf g k (pi.zip pj) mapping
        let pb0 := problemOfStack F geo stack
        let Garr := ((List.range pb0.n).map pb0.G).toArray
        let pb : Problem Float := { pb0 with G := fun i => Garr.getD i [] }
        let outs := schedules.map fun sch =>
          let stk := reconstruct F k pb sch
          Json.mkObj [("stack", Json.arr (stk.map fun o => match o with
                          | some x => floatsToJson x | none => Json.null).toArray),
                      ("bf", floatsToJson (correctedBf (pb.rows * pb.cols) stk))]
        pure (okJson (Json.mkObj [("runs", Json.arr outs.toArray), ("W", floatToJson geo.W)]))
    | "prlx_closed" =>
        let g ← geomOfJson j
        let W ← floatField j "W"
        let pi ← natList (← field j "pix_i")
        let pj ← natList (← field j "pix_j")
        let vs ← (← arrField j "vs").toList.mapM floatList
        let F : Fourier Float := Fourier.dft
        let shifts := (pi.zip pj).map fun ij =>
          let s := prlxShift g ij.1 ij.2
          floatsToJson [s.1 / (g.sx / Num.ofNat g.u), s.2 / (g.sy / Num.ofNat g.u)]
        pure (okJson (Json.mkObj [("bf", floatsToJson (prlxClosed F g W (pi.zip pj) vs)),
                                  ("shifts_px", Json.arr shifts.toArray)]))
    | _ => throw s!"unknown op {op}" : Except String Json) with
  | .ok r => (st, r)
  | .error e => (st, errJson s!"driver:{e}")

end DrvC04

def main : IO Unit := QuantemModel.Proto.run () DrvC04.step
