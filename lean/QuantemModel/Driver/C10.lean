import QuantemModel.Core.Proto
import QuantemModel.Model.Constraints
open Lean QuantemModel QuantemModel.Proto QuantemModel.Constraints

/-!
JSON-lines driver for C10 (Model/Constraints.lean at `Float`).
Real arrays: lists of IEEE bit patterns.  Complex rows: interleaved `[re0, im0, re1, im1, …]`.
-/
namespace DrvC10

def realRow (j : Json) : Except String (List Float) := floatList j
def realArr (j : Json) : Except String (List (List Float)) := do
  (← j.getArr?).toList.mapM realRow

def pairUp : List Float → Except String (List (Cx Float))
  | [] => pure []
  | re :: im :: rest => do pure (⟨re, im⟩ :: (← pairUp rest))
  | _ => throw "odd complex row"
def cxRow (j : Json) : Except String (List (Cx Float)) := do pairUp (← floatList j)
def cxArr (j : Json) : Except String (List (List (Cx Float))) := do
  (← j.getArr?).toList.mapM cxRow
def cxArr3 (j : Json) : Except String (List (List (List (Cx Float)))) := do
  (← j.getArr?).toList.mapM cxArr

def realRowJ (r : List Float) : Json := Json.arr (r.map floatToJson).toArray
def realArrJ (a : List (List Float)) : Json := Json.arr (a.map realRowJ).toArray
def cxRowJ (r : List (Cx Float)) : Json :=
  Json.arr (r.foldr (fun z acc => floatToJson z.re :: floatToJson z.im :: acc) []).toArray
def cxArrJ (a : List (List (Cx Float))) : Json := Json.arr (a.map cxRowJ).toArray
def cxArr3J (a : List (List (List (Cx Float)))) : Json := Json.arr (a.map cxArrJ).toArray

def consOfJson (j : Json) : Except String (ObjCons Float) := do
  pure { positivity := ← boolField j "positivity",
         fixBaseline := ← boolField j "fix",
         baselineFactor := ← floatOfJson (← field j "factor"),
         identicalSlices := ← boolField j "identical",
         applyFovMask := ← boolField j "fov" }

def maskOfJson (j : Json) : Except String (Option (List (List Float))) :=
  match j.getObjVal? "mask" with
  | .ok .null => pure none
  | .ok m => do pure (some (← realArr m))
  | .error _ => pure none

/-- all rows the same length (and the mask, when present, of the same shape) -/
def rect {α : Type} (a : List (List α)) : Bool :=
  match a with
  | [] => true
  | r :: rs => rs.all (·.length == r.length)
def sameShape {α β : Type} (a : List (List α)) (b : List (List β)) : Bool :=
  a.length == b.length && (List.zipWith (fun x y => x.length == y.length) a b).all id

def step (st : Unit) (j : Json) : Unit × Json :=
  match (do
    let op ← strField j "op"
    match op with
    | "obj_cx" =>
        let t ← match ← strField j "type" with
          | "complex" => pure CxType.complex
          | "pure_phase" => pure CxType.purePhase
          | s => throw s!"type {s}"
        let c ← consOfJson (← field j "cons")
        let mask ← maskOfJson j
        let obj ← cxArr (← field j "obj")
        if !rect obj || obj.isEmpty then throw "shape" else
        match mask with
        | some m => if !sameShape obj m then throw "maskshape" else pure ()
        | none => pure ()
        let o1 := applyHardCx t c mask obj
        let o2 := applyHardCx t c mask o1
        pure (okJson (Json.mkObj [("obj", cxArrJ o1), ("amp", realArrJ (ampArr o1)),
                                  ("amp2", realArrJ (ampArr o2))]))
    | "obj_pot" =>
        let c ← consOfJson (← field j "cons")
        let mask ← maskOfJson j
        let obj ← realArr (← field j "obj")
        if !rect obj || obj.isEmpty then throw "shape" else
        match mask with
        | some m => if !sameShape obj m then throw "maskshape" else pure ()
        | none => pure ()
        pure (okJson (Json.mkObj [("obj", realArrJ (applyHardPot c mask obj))]))
    | "tomo" =>
        let pos ← boolField j "positivity"
        let sh ← match j.getObjVal? "shrinkage" with
          | .ok .null => pure none
          | .ok s => do pure (some (← floatOfJson s))
          | .error _ => pure none
        let obj ← realRow (← field j "obj")
        pure (okJson (Json.mkObj [("obj", realRowJ (tomoApplyHard pos sh obj))]))
    | "gs" =>
        let vs ← cxArr (← field j "modes")
        if !rect vs || vs.isEmpty then throw "shape" else
        let qs := orthoLoop [] vs
        -- residual norms before the clamp, recomputed alongside (for the clamp-inactive side condition)
        let rn := (List.range vs.length).map fun i => vnorm (residual (qs.take i) (vs[i]!))
        let out := gramSchmidt vs
        pure (okJson (Json.mkObj [("modes", cxArrJ out), ("rnorms", realRowJ rn),
                                  ("intens", realRowJ (out.map intensity))]))
    | "weights" =>
        let m ← floatOfJson (← field j "M")
        let w ← realRow (← field j "w")
        let ps ← cxArr3 (← field j "probes")
        if ps.isEmpty || !(ps.all fun p => rect p && !p.isEmpty) || w.length != ps.length then throw "shape" else
        let out := applyWeights m w ps
        pure (okJson (Json.mkObj [("probes", cxArr3J out),
                                  ("diff", floatToJson (diffIntensity out)),
                                  ("modeint", realRowJ (out.map energy))]))
    | "probe_history" =>
        -- {"w":[bits], "stack":[img], "steps":[{"M":bits,"ramps":[img]}]}: the stack after every set_initial_probe
        let w ← realRow (← field j "w")
        let stack ← cxArr3 (← field j "stack")
        let steps ← (← arrField j "steps").toList.mapM fun st => do
          let m ← floatOfJson (← field st "M")
          let r ← cxArr3 (← field st "ramps")
          pure (m, r)
        let init : ProbeState Float := { weights := w, stack := stack }
        let (_, outs) := steps.foldl (fun (acc : ProbeState Float × List Json) step =>
          let s' := setInitialProbe step.1 step.2 acc.1
          (s', acc.2 ++ [Json.mkObj [("stack", cxArr3J s'.stack), ("w", realRowJ s'.weights),
                                     ("diff", floatToJson (diffIntensity s'.stack))]])) (init, [])
        let fin := runProbeHistory init steps
        pure (okJson (Json.mkObj [("steps", Json.arr outs.toArray), ("w", realRowJ fin.weights)]))
    | "cons_history" =>
        -- {"allowed":[k], "init":[[k,v]], "ops":[{"op":"add","k":k,"v":v} | {"op":"set","items":[[k,v]]}]}
        let allowed ← (← arrField j "allowed").toList.mapM (·.getStr?)
        let pairs := fun (a : Json) => do
          (← a.getArr?).toList.mapM fun it => do
            let pr ← it.getArr?
            if pr.size != 2 then throw "pair" else
            pure ((← pr[0]!.getStr?), pr[1]!)
        let init : CDict Json ← pairs (← field j "init")
        let dictJ := fun (d : CDict Json) => Json.arr (d.map fun (k, v) => Json.arr #[Json.str k, v]).toArray
        let ops := (← arrField j "ops").toList
        let (_, outs) ← ops.foldlM (fun (acc : CDict Json × List Json) o => do
          let kind ← strField o "op"
          match kind with
          | "add" =>
              let k ← strField o "k"
              let v ← field o "v"
              match addConstraint allowed acc.1 k v with
              | .ok d' => pure (d', acc.2 ++ [Json.mkObj [("r", Json.str "ok"), ("d", dictJ d')]])
              | .error _ => pure (acc.1, acc.2 ++ [Json.mkObj [("r", Json.str "KeyError"), ("d", dictJ acc.1)]])
          | "set" =>
              let items ← pairs (← field o "items")
              let (d', e) := setConstraints allowed acc.1 items
              pure (d', acc.2 ++ [Json.mkObj [("r", Json.str (match e with | none => "ok" | some _ => "KeyError")),
                                              ("d", dictJ d')]])
          | _ => throw s!"op {kind}") (init, [])
        pure (okJson (Json.arr outs.toArray))
    | "norm_weights" =>
        let w ← realRow (← field j "w")
        pure (okJson (Json.mkObj [("w", realRowJ (normWeights w))]))
    | "default_weights" =>
        let n ← natField j "n"
        pure (okJson (Json.mkObj [("w", realRowJ (defaultWeights n))]))
    | _ => throw s!"unknown op {op}" : Except String Json) with
  | .ok r => (st, r)
  | .error e => (st, errJson s!"driver:{e}")

end DrvC10

def main : IO Unit := QuantemModel.Proto.run () DrvC10.step
