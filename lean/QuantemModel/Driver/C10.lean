import QuantemModel.Core.Proto
import QuantemModel.Model.Constraints
open Lean QuantemModel QuantemModel.Proto QuantemModel.Constraints

/-!
JSON-lines driver for C10 (Model/Constraints.lean at `Float`).
Real arrays: lists of IEEE bit patterns.  Complex rows: interleaved `[re0, im0, re1, im1, …]`.
-/
namespace DrvC10

def realRow (j : Json) : Except String (List Float) := floatList j
def realArr (j : Json) : Except String (List (List Float)) := do
  (← j.getArr?).toList.mapM realRow

def pairUp : List Float → Except String (List (Cx Float))
  | [] => pure []
  | re :: im :: rest => do pure (⟨re, im⟩ :: (← pairUp rest))
  | _ => throw "odd complex row"
def cxRow (j : Json) : Except String (List (Cx Float)) := do pairUp (← floatList j)
def cxArr (j : Json) : Except String (List (List (Cx Float))) := do
  (← j.getArr?).toList.mapM cxRow
def cxArr3 (j : Json) : Except String (List (List (List (Cx Float)))) := do
  (← j.getArr?).toList.mapM cxArr

def realRowJ (r : List Float) : Json := Json.arr (r.map floatToJson).toArray
def realArrJ (a : List (List Float)) : Json := Json.arr (a.map realRowJ).toArray
def cxRowJ (r : List (Cx Float)) : Json :=
  Json.arr (r.foldr (fun z acc => floatToJson z.re :: floatToJson z.im :: acc) []).toArray
def cxArrJ (a : List (List (Cx Float))) : Json := Json.arr (a.map cxRowJ).toArray
def cxArr3J (a : List (List (List (Cx Float)))) : Json := Json.arr (a.map cxArrJ).toArray

def consOfJson (j : Json) : Except String (ObjCons Float) := do
  pure { positivity := ← boolField j "positivity",
         fixBaseline := ← boolField j "fix",
         baselineFactor := ← floatOfJson (← field j "factor"),
         identicalSlices := ← boolField j "identical",
         applyFovMask := ← boolField j "fov" }

def maskOfJson (j : Json) : Except String (Option (List (List Float))) :=
  match j.getObjVal? "mask" with
  | .ok .null => pure none
  | .ok m => do pure (some (← realArr m))
  | .error _ => pure none

/-- all rows the same length (and the mask, when present, of the same shape) -/
def rect {α : Type} (a : List (List α)) : Bool :=
  match a with
  | [] => true
  | r :: rs => rs.all (·.length == r.length)
def sameShape {α β : Type} (a : List (List α)) (b : List (List β)) : Bool :=
  a.length == b.length && (List.zipWith (fun x y => x.length == y.length) a b).all id

def step (st : Unit) (j : Json) : Unit × Json :=
  match (do
    let op ← strField j "op"
    match op with
    | "obj_cx" =>
        let t ← match ← strField j "type" with
          | "complex" => pure CxType.complex
          | "pure_phase" => pure CxType.purePhase
          | s => throw s!"type {s}"
        let c ← consOfJson (← field j "cons")
        let mask ← maskOfJson j
        let obj ← cxArr (← field j "obj")
        if !rect obj || obj.isEmpty then throw "shape" else
        match mask with
        | some m => if !sameShape obj m then throw "maskshape" else pure ()
        | none => pure ()
        let o1 := applyHardCx t c mask obj
        let o2 := applyHardCx t c mask o1
        pure (okJson (Json.mkObj [("obj", cxArrJ o1), ("amp", realArrJ (ampArr o1)),
                                  ("amp2", realArrJ (ampArr o2))]))
    | "obj_pot" =>
        let c ← consOfJson (← field j "cons")
        let mask ← maskOfJson j
        let obj ← realArr (← field j "obj")
        if !rect obj || obj.isEmpty then throw "shape" else
        match mask with
        | some m => if !sameShape obj m then throw "maskshape" else pure ()
        | none => pure ()
        pure (okJson (Json.mkObj [("obj", realArrJ (applyHardPot c mask obj))]))
    | "tomo" =>
        let pos ← boolField j "positivity"
        let sh ← match j.getObjVal? "shrinkage" with
          | .ok .null => pure none
          | .ok s => do pure (some (← floatOfJson s))
          | .error _ => pure none
        let obj ← realRow (← field j "obj")
        pure (okJson (Json.mkObj [("obj", realRowJ (tomoApplyHard pos sh obj))]))
    | "gs" =>
        let vs ← cxArr (← field j "modes")
        if !rect vs || vs.isEmpty then throw "shape" else
        let qs := orthoLoop [] vs
        -- residual norms before the clamp, recomputed alongside (for the clamp-inactive side condition)
        let rn := (List.range vs.length).map fun i => vnorm (residual (qs.take i) (vs[i]!))
        let out := gramSchmidt vs
        pure (okJson (Json.mkObj [("modes", cxArrJ out), ("rnorms", realRowJ rn),
                                  ("intens", realRowJ (out.map intensity))]))
    | "weights" =>
        let m ← floatOfJson (← field j "M")
        let w ← realRow (← field j "w")
        let ps ← cxArr3 (← field j "probes")
        if ps.isEmpty || !(ps.all fun p => rect p && !p.isEmpty) || w.length != ps.length then throw "shape" else
        let out := applyWeights m w ps
        pure (okJson (Json.mkObj [("probes", cxArr3J out),
                                  ("diff", floatToJson (diffIntensity out)),
                                  ("modeint", realRowJ (out.map energy))]))
    | "norm_weights" =>
        let w ← realRow (← field j "w")
        pure (okJson (Json.mkObj [("w", realRowJ (normWeights w))]))
    | "default_weights" =>
        let n ← natField j "n"
        pure (okJson (Json.mkObj [("w", realRowJ (defaultWeights n))]))
    | _ => throw s!"unknown op {op}" : Except String Json) with
  | .ok r => (st, r)
  | .error e => (st, errJson s!"driver:{e}")

end DrvC10

def main : IO Unit := QuantemModel.Proto.run () DrvC10.step
