import QuantemModel.Core.Proto
import QuantemModel.Model.Constraints
import QuantemModel.Model.ConstraintsExt2
open Lean QuantemModel QuantemModel.Proto QuantemModel.Constraints

/-!
JSON-lines driver for C10 (Model/Constraints.lean at `Float`).
Real arrays: lists of IEEE bit patterns.  Complex rows: interleaved `[re0, im0, re1, im1, …]`.
-/
namespace DrvC10

def realRow (j : Json) : Except String (List Float) := floatList j
def realArr (j : Json) : Except String (List (List Float)) := do
  (← j.getArr?).toList.mapM realRow

def pairUp : List Float → Except String (List (Cx Float))
  | [] => pure []
  | re :: im :: rest => do pure (⟨re, im⟩ :: (← pairUp rest))
  | _ => throw "odd complex row"
def cxRow (j : Json) : Except String (List (Cx Float)) := do pairUp (← floatList j)
def cxArr (j : Json) : Except String (List (List (Cx Float))) := do
  (← j.getArr?).toList.mapM cxRow
def cxArr3 (j : Json) : Except String (List (List (List (Cx Float)))) := do
  (← j.getArr?).toList.mapM cxArr

def realRowJ (r : List Float) : Json := Json.arr (r.map floatToJson).toArray
def realArrJ (a : List (List Float)) : Json := Json.arr (a.map realRowJ).toArray
def cxRowJ (r : List (Cx Float)) : Json :=
  Json.arr (r.foldr (fun z acc => floatToJson z.re :: floatToJson z.im :: acc) []).toArray
def cxArrJ (a : List (List (Cx Float))) : Json := Json.arr (a.map cxRowJ).toArray
def cxArr3J (a : List (List (List (Cx Float)))) : Json := Json.arr (a.map cxArrJ).toArray

def consOfJson (j : Json) : Except String (ObjCons Float) := do
  pure { positivity := ← boolField j "positivity",
         fixBaseline := ← boolField j "fix",
         baselineFactor := ← floatOfJson (← field j "factor"),
         identicalSlices := ← boolField j "identical",
         applyFovMask := ← boolField j "fov" }

def maskOfJson (j : Json) : Except String (Option (List (List Float))) :=
  match j.getObjVal? "mask" with
  | .ok .null => pure none
  | .ok m => do pure (some (← realArr m))
  | .error _ => pure none

/-- all rows the same length (and the mask, when present, of the same shape) -/
def rect {α : Type} (a : List (List α)) : Bool :=
  match a with
  | [] => true
  | r :: rs => rs.all (·.length == r.length)
def sameShape {α β : Type} (a : List (List α)) (b : List (List β)) : Bool :=
  a.length == b.length && (List.zipWith (fun x y => x.length == y.length) a b).all id

def step (st : Unit) (j : Json) : Unit × Json :=
  match (do
    let op ← strField j "op"
    match op with
    | "obj_cx" =>
        let t ← match ← strField j "type" with
          | "complex" => pure CxType.complex
          | "pure_phase" => pure CxType.purePhase
          | s => throw s!"type {s}"
        let c ← consOfJson (← field j "cons")
        let mask ← maskOfJson j
        let obj ← cxArr (← field j "obj")
        if !rect obj || obj.isEmpty then throw "shape" else
        match mask with
        | some m => if !sameShape obj m then throw "maskshape" else pure ()
        | none => pure ()
        let o1 := applyHardCx t c mask obj
        let o2 := applyHardCx t c mask o1
        pure (okJson (Json.mkObj [("obj", cxArrJ o1), ("amp", realArrJ (ampArr o1)),
                                  ("amp2", realArrJ (ampArr o2))]))
    | "obj_pot" =>
        let c ← consOfJson (← field j "cons")
        let mask ← maskOfJson j
        let obj ← realArr (← field j "obj")
        if !rect obj || obj.isEmpty then throw "shape" else
        match mask with
        | some m => if !sameShape obj m then throw "maskshape" else pure ()
        | none => pure ()
        pure (okJson (Json.mkObj [("obj", realArrJ (applyHardPot c mask obj))]))
    | "tomo" =>
        let pos ← boolField j "positivity"
        let sh ← match j.getObjVal? "shrinkage" with
          | .ok .null => pure none
          | .ok s => do pure (some (← floatOfJson s))
          | .error _ => pure none
        let obj ← realRow (← field j "obj")
        pure (okJson (Json.mkObj [("obj", realRowJ (tomoApplyHard pos sh obj))]))
    | "gs" =>
        let vs ← cxArr (← field j "modes")
        if !rect vs || vs.isEmpty then throw "shape" else
        let qs := orthoLoop [] vs
        -- residual norms before the clamp, recomputed alongside (for the clamp-inactive side condition)
        let rn := (List.range vs.length).map fun i => vnorm (residual (qs.take i) (vs[i]!))
        let out := gramSchmidt vs
        pure (okJson (Json.mkObj [("modes", cxArrJ out), ("rnorms", realRowJ rn),
                                  ("intens", realRowJ (out.map intensity))]))
    | "weights" =>
        let m ← floatOfJson (← field j "M")
        let w ← realRow (← field j "w")
        let ps ← cxArr3 (← field j "probes")
        if ps.isEmpty || !(ps.all fun p => rect p && !p.isEmpty) || w.length != ps.length then throw "shape" else
        let out := applyWeights m w ps
        pure (okJson (Json.mkObj [("probes", cxArr3J out),
                                  ("diff", floatToJson (diffIntensity out)),
                                  ("modeint", realRowJ (out.map energy))]))
    | "probe_hard2" =>
        -- growth 6: {"orth":bool, "center":bool, "probes":[img]} : ProbeConstraints.apply_hard_constraints with BOTH options;
        -- also the per-mode centre-of-mass offsets of the stack that is centred (internal stage)
        let orth ← boolField j "orth"
        let center ← boolField j "center"
        let ps ← cxArr3 (← field j "probes")
        if ps.isEmpty || !(ps.all fun p => rect p && !p.isEmpty) then throw "shape" else
        let pre := probeApplyHard2 orth false ps
        let out := probeApplyHard2 orth center ps
        let sh := pre.map fun p => let s := comShift p; [s.1, s.2]
        pure (okJson (Json.mkObj [("probes", cxArr3J out), ("shifts", realArrJ sh),
                                  ("modeint", realRowJ (out.map energy))]))
    | "probe_history" =>
        -- {"w":[bits], "stack":[img], "steps":[{"M":bits,"ramps":[img]}]}: the stack after every set_initial_probe
        let w ← realRow (← field j "w")
        let stack ← cxArr3 (← field j "stack")
        let steps ← (← arrField j "steps").toList.mapM fun st => do
          let m ← floatOfJson (← field st "M")
          let r ← cxArr3 (← field st "ramps")
          pure (m, r)
        let init : ProbeState Float := { weights := w, stack := stack }
        let (_, outs) := steps.foldl (fun (acc : ProbeState Float × List Json) step =>
          let s' := setInitialProbe step.1 step.2 acc.1
          (s', acc.2 ++ [Json.mkObj [("stack", cxArr3J s'.stack), ("w", realRowJ s'.weights),
                                     ("diff", floatToJson (diffIntensity s'.stack))]])) (init, [])
        let fin := runProbeHistory init steps
        pure (okJson (Json.mkObj [("steps", Json.arr outs.toArray), ("w", realRowJ fin.weights)]))
    | "cons_history" =>
        -- {"allowed":[k], "init":[[k,v]], "ops":[{"op":"add","k":k,"v":v} | {"op":"set","items":[[k,v]]}]}
        let allowed ← (← arrField j "allowed").toList.mapM (·.getStr?)
        let pairs := fun (a : Json) => do
          (← a.getArr?).toList.mapM fun it => do
            let pr ← it.getArr?
            if pr.size != 2 then throw "pair" else
            pure ((← pr[0]!.getStr?), pr[1]!)
        let init : CDict Json ← pairs (← field j "init")
        let dictJ := fun (d : CDict Json) => Json.arr (d.map fun (k, v) => Json.arr #[Json.str k, v]).toArray
        let ops := (← arrField j "ops").toList
        let (_, outs) ← ops.foldlM (fun (acc : CDict Json × List Json) o => do
          let kind ← strField o "op"
          match kind with
          | "add" =>
              let k ← strField o "k"
              let v ← field o "v"
              match addConstraint allowed acc.1 k v with
              | .ok d' => pure (d', acc.2 ++ [Json.mkObj [("r", Json.str "ok"), ("d", dictJ d')]])
              | .error _ => pure (acc.1, acc.2 ++ [Json.mkObj [("r", Json.str "KeyError"), ("d", dictJ acc.1)]])
          | "set" =>
              let items ← pairs (← field o "items")
              let (d', e) := setConstraints allowed acc.1 items
              pure (d', acc.2 ++ [Json.mkObj [("r", Json.str (match e with | none => "ok" | some _ => "KeyError")),
                                              ("d", dictJ d')]])
          | _ => throw s!"op {kind}") (init, [])
        pure (okJson (Json.arr outs.toArray))
    | "registry" =>
        -- {"allowed":[k], "defaults":[[k,v]], "n0":nat, "ops":[{"op":"new"} | {"op":"add","i":i,"k":k,"v":v} |
        --   {"op":"set","i":i,"items":[[k,v]]} | {"op":"reset_defaults","i":i}]}: every model's dict after every op
        let allowed ← (← arrField j "allowed").toList.mapM (·.getStr?)
        let pairs := fun (a : Json) => do
          (← a.getArr?).toList.mapM fun it => do
            let pr ← it.getArr?
            if pr.size != 2 then throw "pair" else
            pure ((← pr[0]!.getStr?), pr[1]!)
        let defaults : CDict Json ← pairs (← field j "defaults")
        let n0 ← natField j "n0"
        let dictJ := fun (d : CDict Json) => Json.arr (d.map fun (k, v) => Json.arr #[Json.str k, v]).toArray
        let regJ := fun (r : Registry Json) => Json.arr (r.map dictJ).toArray
        let ops ← (← arrField j "ops").toList.mapM fun o => do
          let kind ← strField o "op"
          match kind with
          | "new" => pure (RegOp.new : RegOp Json)
          | "add" => pure (RegOp.add (← natField o "i") (← strField o "k") (← field o "v"))
          | "set" => pure (RegOp.set (← natField o "i") (← pairs (← field o "items")))
          | "reset_defaults" => pure (RegOp.resetDefaults (← natField o "i"))
          | _ => throw s!"op {kind}"
        let init : Registry Json := List.replicate n0 defaults
        let (fin, outs) := ops.foldl (fun (acc : Registry Json × List Json) op =>
          let r := regStep allowed defaults acc.1 op
          (r.1, acc.2 ++ [Json.mkObj [("r", Json.str (match r.2 with | none => "ok" | some _ => "KeyError")),
                                      ("reg", regJ r.1)]])) (init, [])
        -- the same history seen by every model alone (`models_isolated`): must equal the registry entry
        let alone := (List.range fin.length).map fun jx =>
          if jx < n0 then dictJ (runDict allowed defaults jx defaults ops) else Json.null
        pure (okJson (Json.mkObj [("steps", Json.arr outs.toArray), ("alone", Json.arr alone.toArray)]))
    | "probe_ops" =>
        -- {"n":n, "roi":[h,w], "w":[bits], "stack":[img], "orth":bool, "ops":[{"op":"set_weights","w":null|[bits]} |
        --   {"op":"set_initial","roi":[h,w],"M":bits,"ramps":[img]} | {"op":"set_probe","p":[img]} | {"op":"reset"}]}
        let n ← natField j "n"
        let roi ← natList (← field j "roi")
        let w ← realRow (← field j "w")
        let stack ← cxArr3 (← field j "stack")
        let orth ← boolField j "orth"
        let roiP := fun (l : List Nat) => (l.getD 0 0, l.getD 1 0)
        let ops ← (← arrField j "ops").toList.mapM fun o => do
          let kind ← strField o "op"
          match kind with
          | "set_weights" =>
              match o.getObjVal? "w" with
              | .ok .null => pure (ProbeOp.setWeights none : ProbeOp Float)
              | .ok x => pure (ProbeOp.setWeights (some (← realRow x)))
              | .error _ => pure (ProbeOp.setWeights none)
          | "set_initial" =>
              pure (ProbeOp.setInitial (roiP (← natList (← field o "roi"))) (← floatOfJson (← field o "M"))
                      (← cxArr3 (← field o "ramps")))
          | "set_probe" => pure (ProbeOp.setProbe (← cxArr3 (← field o "p")))
          | "reset" => pure ProbeOp.reset
          | _ => throw s!"op {kind}"
        let param ← match j.getObjVal? "param" with
          | .ok p => cxArr3 p
          | .error _ => pure stack
        let init : ProbeModel Float :=
          { numProbes := n, roi := roiP roi, weights := w, initial := stack, param := param, meanInt := none }
        let outs := (ops.foldl (fun (acc : ProbeModel Float × List Json) op =>
          let r := probeStep acc.1 op
          (r.1, acc.2 ++ [Json.mkObj [("r", Json.str (match r.2 with | none => "ok" | some _ => "ValueError")),
                                      ("w", realRowJ r.1.weights), ("initial", cxArr3J r.1.initial),
                                      ("param", cxArr3J r.1.param),
                                      ("probe", cxArrJ (probeApplyHard orth (r.1.param.map List.flatten)))]])) (init, [])).2
        let fin := runProbeOps init ops
        pure (okJson (Json.mkObj [("steps", Json.arr outs.toArray), ("w", realRowJ fin.weights),
                                  ("wlast", realRowJ (lastAcceptedWeights n w ops))]))
    | "tomo_d" =>
        -- {"pos":val, "shr":val, "obj":[bits]} with val = null | {"b":bool} | {"n":bits}
        let val := fun (x : Json) => do
          match x with
          | .null => pure (TomoVal.none : TomoVal Float)
          | _ => match x.getObjVal? "b" with
                 | .ok b => pure (TomoVal.bool (← b.getBool?))
                 | .error _ => pure (TomoVal.num (← floatOfJson (← field x "n")))
        let pos ← val (fieldD j "pos" Json.null)
        let shr ← val (fieldD j "shr" Json.null)
        let obj ← realRow (← field j "obj")
        pure (okJson (Json.mkObj [("obj", realRowJ (tomoApplyHardD pos shr obj))]))
    | "defaults" =>
        let c : ObjCons Float := objDefaultCons
        let tv := fun (v : TomoVal Float) => match v with
          | .bool b => Json.mkObj [("b", Json.bool b)]
          | .num x => Json.mkObj [("n", floatToJson x)]
          | .none => Json.null
        pure (okJson (Json.mkObj [
          ("object", Json.mkObj [("positivity", Json.bool c.positivity), ("fix_potential_baseline", Json.bool c.fixBaseline),
                                 ("fix_potential_baseline_factor", floatToJson c.baselineFactor),
                                 ("identical_slices", Json.bool c.identicalSlices), ("apply_fov_mask", Json.bool c.applyFovMask)]),
          ("probe", Json.mkObj [("orthogonalize_probe", Json.bool probeDefaultOrthogonalize),
                                ("center_probe", Json.bool probeDefaultCenter)]),
          ("tomo", Json.mkObj [("positivity", tv tomoDefaultPositivity), ("shrinkage", tv tomoDefaultShrinkage)])]))
    | "norm_weights" =>
        let w ← realRow (← field j "w")
        pure (okJson (Json.mkObj [("w", realRowJ (normWeights w))]))
    | "default_weights" =>
        let n ← natField j "n"
        pure (okJson (Json.mkObj [("w", realRowJ (defaultWeights n))]))
    | _ => throw s!"unknown op {op}" : Except String Json) with
  | .ok r => (st, r)
  | .error e => (st, errJson s!"driver:{e}")

end DrvC10

def main : IO Unit := QuantemModel.Proto.run () DrvC10.step
