import QuantemModel.Core.Proto
import QuantemModel.Model.Config
import QuantemModel.Model.ConfigHistory
import QuantemModel.Model.ConfigCollect
open Lean QuantemModel QuantemModel.Proto QuantemModel.Config

namespace DrvC19

partial def treeOfJson (j : Json) : Except String Tree := do
  match j.getObjVal? "d" with
  | .ok arr =>
      let items ← arr.getArr?
      let kvs ← items.toList.mapM fun it => do
        let pr ← it.getArr?
        if pr.size != 2 then throw "pair" else
        let k ← pr[0]!.getStr?
        let v ← treeOfJson pr[1]!
        pure (k.toList, v)
      pure (.node kvs)
  | .error _ =>
      let l ← j.getObjVal? "l"
      match l with
      | .null => pure (.leaf .none)
      | .bool b => pure (.leaf (.bool b))
      | .str s => pure (.leaf (.str s))
      | .num n => if n.exponent == 0 then pure (.leaf (.int n.mantissa))
                  else pure (.leaf (.opaque l.compress))
      | other =>
          -- {"torchdev": [type, index|null]} is a torch.device object
          match other.getObjVal? "torchdev" with
          | .ok td =>
              let a ← td.getArr?
              if a.size != 2 then throw "torchdev" else
              pure (.leaf (.dev (← a[0]!.getStr?) (a[1]!.getNat?.toOption)))
          | .error _ => pure (.leaf (.opaque other.compress))

partial def treeToJson : Tree → Json
  | .leaf .none => Json.mkObj [("l", Json.null)]
  | .leaf (.bool b) => Json.mkObj [("l", Json.bool b)]
  | .leaf (.int i) => Json.mkObj [("l", Json.num (JsonNumber.fromInt i))]
  | .leaf (.str s) => Json.mkObj [("l", Json.str s)]
  | .leaf (.opaque r) => Json.mkObj [("l", (Json.parse r).toOption.getD (Json.str r))]
  | .leaf (.dev t i) => Json.mkObj [("l", Json.mkObj [("torchdev", Json.arr #[Json.str t,
      match i with | some n => Json.num (JsonNumber.fromNat n) | .none => Json.null])])]
  | .node kvs => Json.mkObj [("d", Json.arr (kvs.map fun (k, v) =>
      Json.arr #[Json.str (String.ofList k), treeToJson v]).toArray)]

def dictOfJson (j : Json) : Except String Dict := do
  match ← treeOfJson j with
  | .node kvs => pure kvs
  | _ => throw "expected dict"

def errName : Err → String
  | .typeError => "TypeError" | .keyError => "KeyError"
  | .valueError => "ValueError" | .runtimeError => "RuntimeError" | .attributeError => "AttributeError"

structure St where
  env : Env := { cuda := false, mps := false, numDevices := 0 }
  s : State := { config := [], defaults := [] }
  /-- undo records of the `with set(...)` blocks entered and not yet left -/
  stack : List (List RecOp) := []

def contentOfJson (j : Json) : Except String FileContent := do
  match j with
  | .str "empty" => pure .empty
  | .str "malformed" => pure .malformed
  | .str "nondict" => pure .nonDict
  | .str "unreadable" => pure .unreadable
  | other =>
      match ← treeOfJson (← other.getObjVal? "dict") with
      | .node kvs => pure (.dict kvs)
      | _ => throw "file content: expected dict"

def pathKindOfJson (j : Json) : Except String PathKind := do
  match ← (← j.getObjVal? "kind").getStr? with
  | "missing" => pure .missing
  | "file" => pure (.file (← contentOfJson (← j.getObjVal? "content")))
  | "dir" =>
      let es ← (← (← j.getObjVal? "entries").getArr?).toList.mapM fun it => do
        let pr ← it.getArr?
        if pr.size != 2 then throw "entry" else
        pure ({ name := ← pr[0]!.getStr?, content := ← contentOfJson pr[1]! } : CfgFile)
      pure (.dir es)
  | k => throw s!"path kind {k}"

def prioOfString : String → Except String Priority
  | "old" => pure .old | "new" => pure .new | "new-defaults" => pure .newDefaults
  | p => throw s!"priority {p}"

def errOpt : Option Err → Json
  | .none => okJson Json.null
  | some e => errJson (match e with
      | .typeError => "TypeError" | .keyError => "KeyError"
      | .valueError => "ValueError" | .runtimeError => "RuntimeError" | .attributeError => "AttributeError")

def itemsOfJson (j : Json) : Except String (List (Key × Tree)) := do
  let items ← j.getArr?
  items.toList.mapM fun it => do
    let pr ← it.getArr?
    if pr.size != 2 then throw "pair" else
    let k ← pr[0]!.getStr?
    let v ← treeOfJson pr[1]!
    pure (k.toList, v)

def allItems (j : Json) : Except String (List (Key × Tree)) := do
  let a ← itemsOfJson (fieldD j "arg" (Json.arr #[]))
  let kw ← itemsOfJson (fieldD j "kwargs" (Json.arr #[]))
  pure (a ++ kw.map fun (k, v) => (kwargKey k, v))

def reply (st : St) (r : Json) : St × Json :=
  (st, Json.mkObj [("r", r), ("cfg", treeToJson (.node st.s.config)),
                   ("ndefaults", Json.num (JsonNumber.fromNat st.s.defaults.length))])

def step (st : St) (j : Json) : St × Json :=
  match (do
    let op ← strField j "op"
    match op with
    | "init" =>
        let e := fieldD j "env" (Json.mkObj [])
        let env : Env := { cuda := (boolField e "cuda").toOption.getD false,
                           mps := (boolField e "mps").toOption.getD false,
                           numDevices := (natField e "n").toOption.getD 0,
                           currentDevice := (natField e "cur").toOption.getD 0 }
        let cfg ← dictOfJson (← field j "config")
        let ds ← (← arrField j "defaults").toList.mapM dictOfJson
        pure (reply { env := env, s := { config := cfg, defaults := ds }, stack := [] } (okJson Json.null))
    | "set" =>
        -- state transition and raised exception are those of the history model (`hstep`)
        let op := HOp.set (← allItems j)
        let e := hstepErr st.env st.s op
        let st' := { st with s := hstep st.env st.s op }
        pure (reply st' (match e with | .none => okJson Json.null | some e => errJson (errName e)))
    | "with" =>
        -- `with set(...): pass` : apply, then restore on exit (only reached if __init__ succeeded)
        let items ← allItems j
        let op := HOp.withBlock items
        let e := hstepErr st.env st.s op
        let st' := { st with s := hstep st.env st.s op }
        match e with
        | some e => pure (reply st' (errJson (errName e)))
        | .none =>
            let inside := (setItems st.env st.s.config [] items).1
            pure (reply st' (okJson (Json.mkObj [("inside", treeToJson (.node inside))])))
    | "get" =>
        let key ← strField j "key"
        -- "override" is the `override_with` argument (absent = None); "default" absent = no_default
        let ov ← match j.getObjVal? "override" with
          | .ok o => treeOfJson o
          | .error _ => pure (.leaf .none)
        let dflt ← match j.getObjVal? "default" with
          | .ok d => (treeOfJson d).map some
          | .error _ => pure .none
        let found := (get st.s.config (splitDots key.toList)).toOption.isSome
        let out := match getFull st.s.config (splitDots key.toList) dflt ov with
          | .ok t => okJson (Json.mkObj [("v", treeToJson t), ("found", Json.bool found)])
          | .error e => errJson (errName e)
        pure (reply st out)
    | "update_defaults" =>
        let op := HOp.updateDefaults (← dictOfJson (← field j "new"))
        let e := hstepErr st.env st.s op
        pure (reply { st with s := hstep st.env st.s op } (match e with | .none => okJson Json.null | some e => errJson (errName e)))
    | "refresh" =>
        let e := hstepErr st.env st.s HOp.refresh
        pure (reply { st with s := hstep st.env st.s HOp.refresh } (match e with | .none => okJson Json.null | some e => errJson (errName e)))
    | "validate_device" =>
        let v ← treeOfJson (← field j "v")
        pure (reply st (match validateDeviceFull st.env v with
          | .ok (a, i) => okJson (Json.arr #[treeToJson (.leaf a), Json.num (JsonNumber.fromInt i)])
          | .error e => errJson (errName e)))
    | "update" =>
        -- the public `update(old, new, priority, defaults)` on dictionaries of the caller
        let old ← dictOfJson (← field j "old")
        let new ← dictOfJson (← field j "new")
        let prio ← prioOfString (← strField j "priority")
        let defs ← match j.getObjVal? "defaults" with
          | .ok Json.null => pure .none
          | .ok d => (treeOfJson d).map some
          | .error _ => pure .none
        let r := updateP st.env prio false old defs new
        pure (reply st (Json.mkObj [("out", treeToJson (.node r.1)), ("res", errOpt r.2)]))
    | "merge" =>
        let ds ← (← arrField j "dicts").toList.mapM dictOfJson
        pure (reply st (match merge st.env ds with
          | .ok d => okJson (treeToJson (.node d)) | .error e => errJson (errName e)))
    | "refresh_path" =>
        let pk ← pathKindOfJson (← field j "path")
        let r := refreshFromP st.env st.s pk
        pure (reply { st with s := r.1 } (errOpt r.2))
    | "set_scratch" =>
        -- `set(arg, config=scratch, **kwargs)`: another dictionary than the module's
        let scratch ← dictOfJson (← field j "scratch")
        let r := setItems st.env scratch [] (← allItems j)
        pure (reply st (Json.mkObj [("out", treeToJson (.node r.1)), ("res", errOpt r.2.2)]))
    | "enter" =>
        let r := xenter st.env { s := st.s, stack := st.stack } (← allItems j)
        pure (reply { st with s := r.1.s, stack := r.1.stack } (errOpt r.2))
    | "exit" =>
        let x := xexit { s := st.s, stack := st.stack }
        pure (reply { st with s := x.s, stack := x.stack } (okJson Json.null))
    | _ => throw s!"unknown op {op}" : Except String (St × Json)) with
  | .ok r => r
  | .error e => (st, errJson s!"driver:{e}")

end DrvC19

def main : IO Unit := QuantemModel.Proto.run ({} : DrvC19.St) DrvC19.step
