import QuantemModel.Core.Proto
import QuantemModel.Model.Unwrap
import QuantemModel.Model.UnwrapSession
open Lean QuantemModel QuantemModel.Proto QuantemModel.Unwrap

/-! JSON-lines driver for C17 (Model/Unwrap.lean run at `Rat`, `half = 1`: phases in units of π).
Exact rationals cross as `"num/den"` strings. -/
namespace DrvC17

def ratOfString (s : String) : Except String Rat :=
  match s.splitOn "/" with
  | [a] => match a.toInt? with
    | some n => pure (n : Rat)
    | none => throw s!"rat:{s}"
  | [a, b] => match a.toInt?, b.toNat? with
    | some n, some d => if d == 0 then throw s!"rat:{s}" else pure ((n : Rat) / (d : Rat))
    | _, _ => throw s!"rat:{s}"
  | _ => throw s!"rat:{s}"

def ratToJson (q : Rat) : Json := Json.str s!"{q.num}/{q.den}"

def ratArr (j : Json) : Except String (Array Rat) := do
  (← j.getArr?).mapM fun x => do ratOfString (← x.getStr?)

def boolArr (j : Json) : Except String (Array Bool) := do
  (← j.getArr?).mapM fun x => do
    match x with
    | .bool b => pure b
    | _ => pure ((← x.getNat?) != 0)

def pairList (j : Json) : Except String (List (Nat × Nat)) := do
  (← j.getArr?).toList.mapM fun x => do
    let a ← x.getArr?
    if a.size != 2 then throw "pair" else
    pure ((← a[0]!.getNat?), (← a[1]!.getNat?))

def edgeList (j : Json) : Except String (List Edge) := do
  (← j.getArr?).toList.mapM fun x => do
    let a ← x.getArr?
    if a.size != 3 then throw "edge" else
    pure { i1 := (← a[0]!.getNat?), i2 := (← a[1]!.getNat?), inc := (← a[2]!.getInt?) }

def natJ (n : Nat) : Json := Json.num (JsonNumber.fromNat n)
def intJ (n : Int) : Json := Json.num (JsonNumber.fromInt n)
def edgeJ (e : Edge) : Json := Json.arr #[natJ e.i1, natJ e.i2, intJ e.inc]

def maskFn (j : Json) (k : String) : Except String (Nat → Bool) := do
  match fieldD j k Json.null with
  | .null => pure fun _ => true              -- mask=None
  | m => let a ← boolArr m; pure fun i => a.getD i false

def pairLe (a b : Nat × Nat) : Bool := a.1 < b.1 || (a.1 == b.1 && a.2 ≤ b.2)

/-- is `order` a permutation of `ref`?  (sorted comparison) -/
def isPermPairs (order ref : List (Nat × Nat)) : Bool :=
  (order.mergeSort pairLe) == (ref.mergeSort pairLe)

def half : Rat := 1

def errName : PyErr → String
  | .valueError => "ValueError" | .notImplementedError => "NotImplementedError"
  | .indexError => "IndexError" | .runtimeError => "RuntimeError"

def methodOf (s : String) : Method :=
  if s == "reliability-sorting" then .reliabilitySorting else if s == "poisson" then .poisson else .other

def branchName : BfBranch → String
  | .noMask => "noMask" | .smallRange => "smallRange" | .onePass => "onePass" | .twoPass => "twoPass"

/-- one call of `unwrap_phase_2d_torch` from JSON: method (string), phi_shape, phi (flat, rationals in units of π),
mask_shape / mask (null = no mask), wrap, order (null = the model sorts itself) -/
def callOfJson (j : Json) : Except String (Call Rat) := do
  let meth ← strField j "method"
  let shape ← natList (← field j "phi_shape")
  let phiA ← ratArr (← field j "phi")
  let wrap ← boolField j "wrap"
  let mask ← match fieldD j "mask" Json.null with
    | .null => pure none
    | m => do
      let vals ← boolArr m
      let ms ← natList (← field j "mask_shape")
      pure (some ({ shape := ms, vals := vals.toList } : MaskArg))
  let order ← match fieldD j "order" Json.null with
    | .null => pure none
    | o => do pure (some (← pairList o))
  pure { method := methodOf meth, phiShape := shape, phi := fun i => phiA.getD i 0, mask := mask, wrap := wrap, order := order }

def outcomeJ (c : Call Rat) (o : Outcome Rat) : Json :=
  match o with
  | .raised e => Json.mkObj [("raised", Json.str (errName e))]
  | .poisson => Json.mkObj [("poisson", Json.bool true)]
  | .diverged => Json.mkObj [("diverged", Json.bool true)]
  | .unwrapped out =>
    -- also report whether a given order is a permutation of the masked neighbour pairs
    let perm := match c.order, validateWorker c.phiShape c.mask c.wrap with
      | some o, .ok (H, W, m) => isPermPairs o (maskedPairs H W m c.wrap)
      | _, _ => true
    Json.mkObj [("out", Json.arr (out.map ratToJson).toArray), ("perm", Json.bool perm)]

def step (_ : Unit) (j : Json) : Unit × Json :=
  match (do
    let op ← strField j "op"
    match op with
    | "find_wrap" =>
        let a ← ratOfString (← strField j "a")
        let b ← ratOfString (← strField j "b")
        pure (okJson (intJ (findWrap half a b)))
    | "edges" =>
        let H ← natField j "H"; let W ← natField j "W"
        let phi ← ratArr (← field j "phi")
        let mask ← maskFn j "mask"
        let wrap ← boolField j "wrap"
        let es := buildEdges half H W (fun i => phi.getD i 0) mask wrap
        pure (okJson (Json.arr (es.map edgeJ).toArray))
    | "uf" =>
        let N ← natField j "N"
        let es ← edgeList (← field j "edges")
        match unionAll (UF.init N) es with
        | none => pure (errJson "NonTermination")
        | some u =>
          match finalOffsets u with
          | none => pure (errJson "NonTermination")
          | some incs =>
            pure (okJson (Json.mkObj [
              ("parent", Json.arr (u.parent.map natJ)),
              ("rank", Json.arr (u.rank.map natJ)),
              ("offset", Json.arr (u.offset.map intJ)),
              ("incs", Json.arr (incs.map intJ).toArray)]))
    | "unwrap" =>
        let H ← natField j "H"; let W ← natField j "W"
        let phiA ← ratArr (← field j "phi")
        let phi : Nat → Rat := fun i => phiA.getD i 0
        let mask ← maskFn j "mask"
        let wrap ← boolField j "wrap"
        let order ← pairList (← field j "order")
        let perm := isPermPairs order (maskedPairs H W mask wrap)
        let es := edgesOfPairs half phi order
        let incs := (unionAll (UF.init (H * W)) es).bind finalOffsets
        match unwrapPhase2d half H W phi order, incs with
        | some out, some incs =>
            pure (okJson (Json.mkObj [
              ("perm", Json.bool perm),
              ("incs", Json.arr (incs.map intJ).toArray),
              ("out", Json.arr (out.map ratToJson).toArray)]))
        | _, _ => pure (errJson "NonTermination")
    | "reliability" =>
        -- `_pixel_reliability(phi, mask)` in units of π² (null = inf) and, for a given order of pixel pairs,
        -- the edge reliabilities along it, whether it is ascending (ties free) and a permutation of the masked pairs
        let H ← natField j "H"; let W ← natField j "W"
        let phiA ← ratArr (← field j "phi")
        let phi : Nat → Rat := fun i => phiA.getD i 0
        let mask ← maskFn j "mask"
        let wrap ← boolField j "wrap"
        let order ← pairList (← field j "order")
        let rel := pixelReliability wrapToPiRat H W phi mask
        let optJ : Option Rat → Json := fun o => match o with | some q => ratToJson q | none => Json.null
        pure (okJson (Json.mkObj [
          ("R", Json.arr ((List.range (H * W)).map fun i => optJ (rel i)).toArray),
          ("rel", Json.arr (order.map fun p => optJ (edgeRel rel p)).toArray),
          ("ascending", Json.bool (ascendingIn rel order)),
          ("perm", Json.bool (isPermPairs order (maskedPairs H W mask wrap)))]))
    | "bf_stack" =>
        let H ← natField j "H"; let W ← natField j "W"
        let bfA ← boolArr (← field j "bf_mask")
        let two ← boolField j "two_pass"
        let imgsJ ← arrField j "images"
        let imgs ← imgsJ.toList.mapM fun im => do
          let maskBf ← boolArr (← field im "mask_bf")
          let phase ← ratArr (← field im "phase")
          let o1 ← pairList (← field im "order1")
          let o2 ← pairList (← field im "order2")
          pure ({ maskBf := maskBf.toList, phaseBf := phase.toList, order1 := o1, order2 := o2 } : BfImage Rat)
        let res := unwrapBfStack half H W (fun i => bfA.getD i false) two imgs
        pure (okJson (Json.arr (res.map fun r => match r with
          | none => Json.null
          | some (br, out) =>
            let b := match br with
              | .noMask => "noMask" | .smallRange => "smallRange" | .onePass => "onePass" | .twoPass => "twoPass"
            Json.mkObj [("branch", Json.str b), ("out", Json.arr (out.map ratToJson).toArray)]).toArray))
    | "bf" =>
        let H ← natField j "H"; let W ← natField j "W"
        let bfA ← boolArr (← field j "bf_mask")
        let maskBf ← boolArr (← field j "mask_bf")
        let phase ← ratArr (← field j "phase")
        let two ← boolField j "two_pass"
        let o1 ← pairList (← field j "order1")
        let o2 ← pairList (← field j "order2")
        let wrap ← boolField j "wrap"
        let bfm : Nat → Bool := fun i => bfA.getD i false
        match unwrapBfOverlap half H W bfm maskBf.toList phase.toList two o1 o2 with
        | none => pure (errJson "NonTermination")
        | some (br, out) =>
            let b := match br with
              | .noMask => "noMask" | .smallRange => "smallRange" | .onePass => "onePass" | .twoPass => "twoPass"
            let ref := maskedPairs H W (bfMaskGrid (H * W) bfm maskBf.toList) wrap
            let p1 := (br != .onePass && br != .twoPass) || isPermPairs o1 ref
            let p2 := (br != .twoPass) || isPermPairs o2 ref
            pure (okJson (Json.mkObj [("branch", Json.str b), ("perm1", Json.bool p1), ("perm2", Json.bool p2),
                                      ("out", Json.arr (out.map ratToJson).toArray)]))
    | "session" =>
        -- a history of calls on the module (valid and rejected ones): one outcome per call
        let callsJ ← arrField j "calls"
        let calls ← callsJ.toList.mapM callOfJson
        let outs := runSession half wrapToPiRat calls
        pure (okJson (Json.arr ((calls.zip outs).map fun co => outcomeJ co.1 co.2).toArray))
    | "uf_hist" =>
        -- a history of `union` calls on one object, indices past the end included (those raise, nothing written)
        let N ← natField j "N"
        let es ← edgeList (← field j "edges")
        match ufHistory (UF.init N) es with
        | none => pure (errJson "NonTermination")
        | some (u, flags) =>
          match finalOffsets u with
          | none => pure (errJson "NonTermination")
          | some incs =>
            pure (okJson (Json.mkObj [
              ("raised", Json.arr (flags.map Json.bool).toArray),
              ("parent", Json.arr (u.parent.map natJ)),
              ("rank", Json.arr (u.rank.map natJ)),
              ("offset", Json.arr (u.offset.map intJ)),
              ("incs", Json.arr (incs.map intJ).toArray)]))
    | "bfm" =>
        -- `unwrap_bf_overlap_phase_torch` with its argument handling (value lengths, lazy `method`)
        let H ← natField j "H"; let W ← natField j "W"
        let bfA ← boolArr (← field j "bf_mask")
        let maskBf ← boolArr (← field j "mask_bf")
        let phase ← ratArr (← field j "phase")
        let two ← boolField j "two_pass"
        let o1 ← pairList (← field j "order1")
        let o2 ← pairList (← field j "order2")
        let wrap ← boolField j "wrap"
        let meth ← strField j "method"
        let bfm : Nat → Bool := fun i => bfA.getD i false
        match unwrapBfOverlapM half (methodOf meth) H W bfm maskBf.toList phase.toList two wrap o1 o2 with
        | .raised e => pure (okJson (Json.mkObj [("raised", Json.str (errName e))]))
        | .poisson => pure (okJson (Json.mkObj [("poisson", Json.bool true)]))
        | .diverged => pure (errJson "NonTermination")
        | .result br out =>
            pure (okJson (Json.mkObj [("branch", Json.str (branchName br)),
                                      ("out", Json.arr (out.map ratToJson).toArray)]))
    | _ => throw s!"unknown op {op}" : Except String Json) with
  | .ok r => ((), r)
  | .error e => ((), errJson s!"driver:{e}")

end DrvC17

def main : IO Unit := QuantemModel.Proto.run () DrvC17.step
