import QuantemModel.Core.Proto
import QuantemModel.Model.SaveFs
import QuantemModel.Model.SaveFront
import QuantemModel.Model.SaveInstall
import QuantemModel.Model.SaveFrontExt
import QuantemModel.Model.SerializeTrace
import QuantemModel.Core.SerializeJson
open Lean QuantemModel QuantemModel.Proto QuantemModel.SaveFs

namespace DrvC08

def contentOfJson (j : Json) : Except String Content := do
  let a ← j.getArr?
  match (← a[0]!.getStr?) with
  | "complete" => pure (.complete (← a[1]!.getNat?))
  | "partial" => pure (.partialObj (← a[1]!.getNat?) (← a[2]!.getNat?))
  | "foreign" => pure (.foreign (← a[1]!.getNat?))
  | t => throw s!"content {t}"

def contentToJson : Content → Json
  | .complete i => Json.arr #["complete", Json.num (JsonNumber.fromNat i)]
  | .partialObj i k => Json.arr #["partial", Json.num (JsonNumber.fromNat i), Json.num (JsonNumber.fromNat k)]
  | .foreign i => Json.arr #["foreign", Json.num (JsonNumber.fromNat i)]

def stepOfStr : String → Except String Step
  | "stageOpen" => pure .stageOpen | "tmpWrite" => pure .tmpWrite | "stageWrite" => pure .stageWrite
  | "stageFinish" => pure .stageFinish | "removeOld" => pure .removeOld | "replace" => pure .replace
  | s => throw s!"step {s}"
def stepToStr : Step → String
  | .stageOpen => "stageOpen" | .tmpWrite => "tmpWrite" | .stageWrite => "stageWrite"
  | .stageFinish => "stageFinish" | .removeOld => "removeOld" | .replace => "replace"

open QuantemModel.SaveInstall in
def entOfJson (j : Json) : Except String Ent :=
  match j with
  | .null => pure .none
  | .str "file" => pure (some .file)
  | .str "dir:empty" => pure (some (.dir true))
  | .str "dir:nonempty" => pure (some (.dir false))
  | .str "link:dir" => pure (some (.link true false))
  | .str "link:file" => pure (some (.link false false))
  | .str "link:dangling" => pure (some (.link false true))
  | _ => throw "ent"

open QuantemModel.SaveInstall in
def entToJson : Ent → Json
  | .none => .null
  | some .file => "file"
  | some (.dir true) => "dir:empty"
  | some (.dir false) => "dir:nonempty"
  | some (.link _ true) => "link:dangling"
  | some (.link true false) => "link:dir"
  | some (.link false false) => "link:file"

open QuantemModel.SaveInstall in
/-- primitives and helpers of Model/SaveInstall.lean on entry kinds -/
def kindsOp (fn : String) (a b : Ent) : Except String Json :=
  let one (r : Except String Ent) : Json :=
    match r with
    | .ok e => Json.mkObj [("a", entToJson e)]
    | .error e => Json.mkObj [("raises", Json.str e)]
  let two (r : Except String (Ent × Ent)) : Json :=
    match r with
    | .ok (x, y) => Json.mkObj [("a", entToJson x), ("b", entToJson y)]
    | .error e => Json.mkObj [("raises", Json.str e)]
  match fn with
  | "remove" => pure (one (osRemove a))
  | "rmtree" => pure (one (rmtree a))
  | "rmtreeIgnore" => pure (one (.ok (rmtreeIgnore a)))
  | "replace" => pure (two (osReplace a b))
  | "install" => pure (two (install a b))
  | "discard" => pure (one (SaveInstall.discard a))
  | "preds" => pure (Json.mkObj [("isdir", Json.bool (isdir a)), ("islink", Json.bool (islink a)),
      ("lexists", Json.bool (lexists a)), ("exists", Json.bool (pexists a))])
  | _ => throw s!"kinds fn {fn}"

def fsOfJson (j : Json) : Except String Fs := do
  (← j.getArr?).toList.mapM fun it => do
    let pr ← it.getArr?
    pure ((← pr[0]!.getStr?), (← contentOfJson pr[1]!))

def fsToJson (fs : Fs) : Json :=
  Json.arr (fs.map fun (p, c) => Json.arr #[Json.str p, contentToJson c]).toArray

def step (st : Unit) (j : Json) : Unit × Json :=
  match (do
    let op ← strField j "op"
    if op == "trace" then
      let v ← QuantemModel.SerializeJson.valOfJson (← field j "v")
      let tr := QuantemModel.Serialize.traceSave {} v
      let nm : QuantemModel.Serialize.W → String
        | .group => "group" | .attr => "attr" | .array => "array" | .bytes => "bytes"
      pure (okJson (Json.arr (tr.map fun w => Json.str (nm w)).toArray))
    else if op == "kinds" then
      pure (okJson (← kindsOp (← strField j "fn") (← entOfJson (fieldD j "a" .null)) (← entOfJson (fieldD j "b" .null))))
    else if op == "front" then
      -- the front end of save(): validation, store inference, suffix, existence check (Model/SaveFront.lean)
      let existing ← (← arrField j "exists").toList.mapM fun e => do pure (← e.getStr?).toList
      let level : Option Int := (intField j "level").toOption
      let r := QuantemModel.SaveFront.front (← strField j "path").toList (← strField j "mode") (← strField j "store") level
        (fun p => existing.contains p)
      match r with
      | .error e => pure (okJson (Json.mkObj [("raises", Json.str e.pyName), ("branch", Json.str (reprStr e))]))
      | .ok res => pure (okJson (Json.mkObj [("target", Json.str (String.ofList res.target)), ("zip", Json.bool res.zip)]))
    else if op == "fullhistory" then
      -- a history of COMPLETE save(path, mode, store, level) calls onto any targets (`runFull`,
      -- `succeededFullIds` of Model/SaveFront(Ext).lean): filesystem + (target, id) of the calls that
      -- returned normally, after every prefix; keys of the filesystem are the path strings themselves
      let fs ← fsOfJson (← field j "fs")
      let calls ← (← arrField j "calls").toList.mapM fun cj => do
        let k : QuantemModel.SaveFront.FullCall := {
          path := (← strField cj "path").toList, mode := (← strField cj "mode"), store := (← strField cj "store"),
          level := (intField cj "level").toOption, id := (← natField cj "id"), staged := (← strField cj "staged"),
          nTmp := (← natField cj "nTmp"), nWrites := (← natField cj "nWrites"),
          fault := (match cj.getObjVal? "fault" with | .ok f => f.getNat?.toOption | .error _ => .none) }
        pure k
      let prefixes := (List.range (calls.length + 1)).map fun i => calls.take i
      pure (okJson (Json.arr (prefixes.map fun ks => Json.mkObj [
        ("fs", fsToJson (QuantemModel.SaveFront.runFull String.ofList fs ks)),
        ("succeeded", Json.arr ((QuantemModel.SaveFront.succeededFullIds String.ofList fs ks).map fun (t, i) =>
          Json.arr #[Json.str t, Json.num (JsonNumber.fromNat i)]).toArray)]).toArray))
    else
    let c : Cfg := { target := (← strField j "target"), staged := (← strField j "staged"), id := (← natField j "id") }
    let fs ← fsOfJson (← field j "fs")
    let fault : Option Nat := (natField j "fault").toOption
    match op with
    | "run" =>
        -- execute the step trace recorded from the real code
        let tr ← (← arrField j "steps").toList.mapM fun s => do stepOfStr (← s.getStr?)
        let r := run c fs tr fault
        pure (okJson (Json.mkObj [("fs", fsToJson r.1), ("raised", Json.bool r.2)]))
    | "save" =>
        let o := save c fs (← boolField j "modeO") (← boolField j "levelOk") (← boolField j "dirHasExt")
          (← boolField j "zip") (← natField j "nTmp") (← natField j "nWrites") fault
        let trace := steps (← boolField j "zip") (← natField j "nTmp") (← natField j "nWrites") (fsGet fs c.target).isSome
        match o with
        | .raisedBeforeAnyEffect e => pure (okJson (Json.mkObj [("early", Json.str e)]))
        | .ran fs' raised => pure (okJson (Json.mkObj [("fs", fsToJson fs'), ("raised", Json.bool raised),
            ("steps", Json.arr (trace.map fun s => Json.str (stepToStr s)).toArray)]))
    | "history" =>
        -- a history of save calls onto one target: filesystem and ids of the calls that returned
        -- normally after every prefix (`runCalls`, `succeededIds` of Model/SaveFs.lean)
        let calls ← (← arrField j "calls").toList.mapM fun cj => do
          let k : Call := {
            cfg := { target := c.target, staged := (← strField cj "staged"), id := (← natField cj "id") },
            modeO := (← boolField cj "modeO"), levelOk := ((boolField cj "levelOk").toOption.getD true),
            dirHasExt := ((boolField cj "dirHasExt").toOption.getD false), zip := (← boolField cj "zip"),
            nTmp := (← natField cj "nTmp"), nWrites := (← natField cj "nWrites"),
            fault := (match cj.getObjVal? "fault" with | .ok f => f.getNat?.toOption | .error _ => .none) }
          pure k
        let prefixes := (List.range (calls.length + 1)).map fun i => calls.take i
        pure (okJson (Json.arr (prefixes.map fun ks => Json.mkObj [("fs", fsToJson (runCalls fs ks)),
          ("succeeded", Json.arr ((succeededIds fs ks).map fun i => Json.num (JsonNumber.fromNat i)).toArray)]).toArray))
    | _ => throw s!"unknown op {op}" : Except String Json) with
  | .ok r => (st, r)
  | .error e => (st, errJson s!"driver:{e}")

end DrvC08

def main : IO Unit := QuantemModel.Proto.run () DrvC08.step
