import QuantemModel.Core.Proto
import QuantemModel.Model.PtychoOps
import QuantemModel.Model.PtychoOpsExt
import QuantemModel.Model.PtychoOpsExt2
open Lean QuantemModel QuantemModel.Proto QuantemModel.PtychoOps

/-! JSON-lines driver for Model/PtychoOps.lean.  Floats cross as IEEE bit patterns.
complex image = {"re": [[bits]], "im": [[bits]]}; real image = [[bits]];
complex flat list = {"re": [bits], "im": [bits]}. -/
namespace DrvC16

def rowsOfJson (j : Json) : Except String (List (List Float)) := do
  (← j.getArr?).toList.mapM floatList

def rowsToJson (x : List (List Float)) : Json :=
  Json.arr (x.map fun r => Json.arr (r.map floatToJson).toArray).toArray

def cflatOfJson (j : Json) : Except String (List (Cx Float)) := do
  let re ← floatList (← field j "re")
  let im ← floatList (← field j "im")
  if re.length != im.length then throw "re/im length" else
  pure (List.zipWith (fun a b => (⟨a, b⟩ : Cx Float)) re im)

def cflatToJson (x : List (Cx Float)) : Json :=
  Json.mkObj [("re", Json.arr (x.map fun z => floatToJson z.re).toArray),
              ("im", Json.arr (x.map fun z => floatToJson z.im).toArray)]

def imgOfJson (j : Json) : Except String (Img Float) := do
  let re ← rowsOfJson (← field j "re")
  let im ← rowsOfJson (← field j "im")
  if re.length != im.length then throw "re/im rows" else
  pure (List.zipWith (List.zipWith fun a b => (⟨a, b⟩ : Cx Float)) re im)

def imgToJson (x : Img Float) : Json :=
  Json.mkObj [("re", rowsToJson (x.map (·.map (·.re)))), ("im", rowsToJson (x.map (·.map (·.im))))]

def imgsOfJson (j : Json) : Except String (List (Img Float)) := do
  (← j.getArr?).toList.mapM imgOfJson
def imgsToJson (xs : List (Img Float)) : Json := Json.arr (xs.map imgToJson).toArray

def fl (j : Json) (k : String) : Except String Float := do floatOfJson (← field j k)
def intRows (j : Json) : Except String (List (List Int)) := do (← j.getArr?).toList.mapM intList
def intListToJson (x : List Int) : Json := Json.arr (x.map fun i => Json.num (JsonNumber.fromInt i)).toArray


/-! growth 5: checked scatter / histories, backward chain, sessions -/
def exceptIntsToJson (r : Except OpErr (List Int)) : Json :=
  match r with
  | .ok out => okJson (intListToJson out)
  | .error e => errJson e.name

def kvList (j : Json) : Except String (List (String × String)) := do
  (← j.getArr?).toList.mapM fun e => do
    let a ← e.getArr?
    if a.size != 2 then throw "kv pair" else pure ((← a[0]!.getStr?), (← a[1]!.getStr?))

def kvToJson (d : CDict) : Json := Json.arr (d.map fun kv => Json.arr #[Json.str kv.1, Json.str kv.2]).toArray

def sessOpOfJson (j : Json) : Except String SessOp := do
  match (← strField j "k") with
  | "ptycho_set" =>
      let es ← (← arrField j "entries").toList.mapM fun e => do
        let cat ← strField e "cat"
        match e.getObjVal? "items" with
        | .ok (.arr a) => pure (cat, some (← kvList (.arr a)))
        | _ => pure (cat, (none : Option (List (String × String))))
      pure (.ptychoSet es)
  | "obj_set" => pure (.objSet (← kvList (← field j "items")))
  | "obj_add" => pure (.objAdd (← strField j "key") (← strField j "value"))
  | "reset" => pure .resetRecon
  | k => throw s!"unknown session op {k}"

def runSession (s : Session) (numSlices : Nat) : List SessOp → List Json
  | [] => []
  | op :: rest =>
    let r := s.step op
    Json.mkObj [("raised", Json.bool r.2), ("obj", kvToJson r.1.obj), ("probe", kvToJson r.1.probe),
                ("dset", kvToJson r.1.dset), ("neutral", Json.bool (modulusNeutral numSlices r.1.obj))]
      :: runSession r.1 numSlices rest

def step (st : Unit) (j : Json) : Unit × Json :=
  match (do
    let op ← strField j "op"
    match op with
    | "gather_int" =>
        let obj ← intList (← field j "obj")
        let idx ← natList (← field j "idx")
        if !indicesOk obj.length idx then pure (errJson "IndexError") else
        pure (okJson (intListToJson (gather 0 obj idx)))
    | "scatter_int" =>
        let n ← natField j "n"
        let p ← intList (← field j "patches")
        let idx ← natList (← field j "idx")
        if !indicesOk n idx then pure (errJson "IndexError") else
        pure (okJson (intListToJson (scatter 0 n p idx)))
    | "roll_int" =>
        let x ← intRows (← field j "x")
        let sr ← intField j "sr"
        let sc ← intField j "sc"
        pure (okJson (Json.arr ((roll2 x sr sc).map intListToJson).toArray))
    | "get_patches" =>
        let obj ← (← arrField j "obj").toList.mapM cflatOfJson
        let idx ← natList (← field j "idx")
        if !indicesOk ((obj.headD []).length) idx then pure (errJson "IndexError") else
        pure (okJson (Json.arr ((getObjPatches obj idx).map cflatToJson).toArray))
    | "get_patches_real" =>
        let obj ← rowsOfJson (← field j "obj")
        let idx ← natList (← field j "idx")
        if !indicesOk ((obj.headD []).length) idx then pure (errJson "IndexError") else
        pure (okJson (Json.arr ((getObjPatchesReal obj idx).map cflatToJson).toArray))
    | "sum_patches_cx" =>
        let n ← natField j "n"
        let p ← cflatOfJson (← field j "patches")
        let idx ← natList (← field j "idx")
        if !indicesOk n idx then pure (errJson "IndexError") else
        pure (okJson (cflatToJson (sumPatchesCx n p idx)))
    | "translation_operator" =>
        let nr ← natField j "nr"
        let nc ← natField j "nc"
        pure (okJson (imgToJson (translationOperator nr nc (← fl j "r") (← fl j "c"))))
    | "fourier_shift" =>
        let x ← imgOfJson (← field j "x")
        pure (okJson (imgToJson (fourierShift x (← fl j "r") (← fl j "c"))))
    | "fourier_shift_real" =>
        let x ← rowsOfJson (← field j "x")
        pure (okJson (rowsToJson (fourierShiftReal x (← fl j "r") (← fl j "c"))))
    | "wavelength" =>
        pure (okJson (floatToJson (wavelength (← fl j "energy"))))
    | "propagators" =>
        let nr ← natField j "nr"
        let nc ← natField j "nc"
        let ns ← natField j "num_slices"
        let dzs ← floatList (← field j "dz")
        pure (okJson (imgsToJson (propagatorArrays nr nc (← fl j "sr") (← fl j "sc") (← fl j "energy")
          (← fl j "thr") (← fl j "thc") ns dzs)))
    | "propagate_stack" =>      -- growth 6: free-space run through a stack of kernels
        let a ← imgOfJson (← field j "a")
        let props ← imgsOfJson (← field j "props")
        pure (okJson (imgToJson (propagateStack a props)))
    | "translation_opt" =>      -- growth 6: expand_dim option (dtype = a cast)
        let shape ← (← (← field j "shape").getArr?).toList.mapM fun e => e.getNat?
        let e ← (← field j "expand_dim").getBool?
        let (axes, img) := translationOperatorOpt shape e (← fl j "r") (← fl j "c")
        pure (okJson (Json.mkObj [("axes", Json.num (JsonNumber.fromNat axes)), ("ramp", imgToJson img)]))
    | "propagate" =>
        let a ← imgOfJson (← field j "a")
        let p ← imgOfJson (← field j "p")
        pure (okJson (imgToJson (propagate a p)))
    | "overlap_projection" =>
        let patches ← imgsOfJson (← field j "patches")
        let props ← imgsOfJson (← field j "props")
        let probes ← imgsOfJson (← field j "probes")
        let (pp, ov) := overlapProjection patches props probes
        pure (okJson (Json.mkObj [("prop", Json.arr (pp.map imgsToJson).toArray), ("overlap", imgsToJson ov)]))
    | "forward_operator" =>
        let patches ← imgsOfJson (← field j "patches")
        let props ← imgsOfJson (← field j "props")
        let probes ← imgsOfJson (← field j "probes")
        let descan ← match j.getObjVal? "descan" with
          | .ok (.arr a) => if a.size == 2 then do pure (some ((← floatOfJson a[0]!), (← floatOfJson a[1]!))) else throw "descan"
          | _ => pure none
        let (pp, ov) := forwardOperator patches props probes descan
        pure (okJson (Json.mkObj [("prop", Json.arr (pp.map imgsToJson).toArray), ("overlap", imgsToJson ov)]))
    | "detector" =>
        let w ← imgsOfJson (← field j "waves")
        pure (okJson (rowsToJson (detector w)))
    | "estimate_amplitudes" =>
        let w ← imgsOfJson (← field j "waves")
        let cc ← boolField j "corner"
        pure (okJson (rowsToJson (estimateAmplitudes epsCode w cc)))
    | "fourier_projection" =>
        let np ← natField j "num_probes"
        let a ← rowsOfJson (← field j "A")
        let w ← imgsOfJson (← field j "waves")
        pure (okJson (imgsToJson (fourierProjection np a w)))
    | "gradient_step" =>
        let np ← natField j "num_probes"
        let a ← rowsOfJson (← field j "A")
        let w ← imgsOfJson (← field j "waves")
        pure (okJson (imgsToJson (gradientStep np a w)))
    | "scatter_history" =>
        let calls ← (← arrField j "calls").toList.mapM fun c => do
          pure ({ n := (← natField c "n"), patches := (← intList (← field c "patches")), idx := (← intList (← field c "idx")) } : ScatterCall Int)
        pure (okJson (Json.arr ((runScatterHistory (0 : Int) calls).map exceptIntsToJson).toArray))
    | "gather_checked_int" =>
        let obj ← intList (← field j "obj")
        let idx ← intList (← field j "idx")
        pure (exceptIntsToJson (gatherChecked obj 0 idx))
    | "sum_patches_cx_checked" =>
        let n ← natField j "n"
        let p ← cflatOfJson (← field j "patches")
        let idx ← intList (← field j "idx")
        match sumPatchesCxChecked n p idx with
        | .ok out => pure (okJson (cflatToJson out))
        | .error e => pure (errJson e.name)
    | "backward_gradient" =>
        let patches ← imgsOfJson (← field j "patches")
        let props ← imgsOfJson (← field j "props")
        let g ← imgOfJson (← field j "g")
        pure (okJson (imgToJson (backwardGradient patches props g)))
    | "estimate_intensities" =>
        let w ← imgsOfJson (← field j "waves")
        pure (okJson (rowsToJson (estimateIntensities w)))
    | "session" =>
        let od ← kvList (← field j "obj_defaults")
        let pd ← kvList (← field j "probe_defaults")
        let dd ← kvList (← field j "dset_defaults")
        let ns ← natField j "num_slices"
        let ops ← (← arrField j "ops").toList.mapM sessOpOfJson
        pure (okJson (Json.arr (runSession (Session.fresh od pd dd) ns ops).toArray))
    | _ => throw s!"unknown op {op}" : Except String Json) with
  | .ok r => (st, r)
  | .error e => (st, errJson s!"driver:{e}")

end DrvC16

def main : IO Unit := QuantemModel.Proto.run () DrvC16.step
