import QuantemModel.Core.Proto
import QuantemModel.Model.Serialize
import QuantemModel.Core.SerializeJson
import QuantemModel.Model.SeqKeys
import QuantemModel.Model.SerializeExt
import QuantemModel.Model.SerializeStoreExt
import QuantemModel.Generated.SerializeDispatch
open Lean QuantemModel QuantemModel.Proto QuantemModel.Serialize

namespace DrvC01
open QuantemModel.SerializeJson

def skipOfJson (j : Json) : Except String Skip := do
  let strs (x : Json) : Except String (List String) := do (← x.getArr?).toList.mapM (·.getStr?)
  pure { names := (← strs (fieldD j "names" (Json.arr #[]))), types := (← strs (fieldD j "types" (Json.arr #[]))) }

def errName : Err → String
  | .valueError => "ValueError" | .keyError => "KeyError" | .typeError => "TypeError"

open QuantemModel.SerDispatch in
def featFields : List (String × (Feat → Bool)) :=
  [("isTensor", (·.isTensor)), ("isOptimizer", (·.isOptimizer)), ("hasStep", (·.hasStep)), ("hasGetLastLr", (·.hasGetLastLr)),
   ("hasAddScalar", (·.hasAddScalar)), ("hasAddImage", (·.hasAddImage)), ("hasLog", (·.hasLog)), ("hasInfo", (·.hasInfo)),
   ("isModule", (·.isModule)), ("hasModuleAttr", (·.hasModuleAttr)), ("moduleMentionsTorch", (·.moduleMentionsTorch)),
   ("isNdarray", (·.isNdarray)), ("isInt", (·.isInt)), ("isFloat", (·.isFloat)), ("isStr", (·.isStr)), ("isBool", (·.isBool)),
   ("isNone", (·.isNone)), ("hasDtype", (·.hasDtype)), ("hasItem", (·.hasItem)), ("isNpComplex", (·.isNpComplex)),
   ("hasFspath", (·.hasFspath)), ("typeStrPathlib", (·.typeStrPathlib)), ("isAutoSerialize", (·.isAutoSerialize)),
   ("isList", (·.isList)), ("isTuple", (·.isTuple)), ("isDict", (·.isDict)), ("isSet", (·.isSet)),
   ("hasBitGenerator", (·.hasBitGenerator)), ("hasGetState", (·.hasGetState)), ("hasSetState", (·.hasSetState))]

open QuantemModel.SerDispatch in
def featOfJson (j : Json) : Except String Feat := do
  let b (k : String) : Except String Bool := (fieldD j k (Json.bool false)).getBool?
  pure { isTensor := (← b "isTensor"), isOptimizer := (← b "isOptimizer"), hasStep := (← b "hasStep"), hasGetLastLr := (← b "hasGetLastLr"),
         hasAddScalar := (← b "hasAddScalar"), hasAddImage := (← b "hasAddImage"), hasLog := (← b "hasLog"), hasInfo := (← b "hasInfo"),
         isModule := (← b "isModule"), hasModuleAttr := (← b "hasModuleAttr"), moduleMentionsTorch := (← b "moduleMentionsTorch"),
         isNdarray := (← b "isNdarray"), isInt := (← b "isInt"), isFloat := (← b "isFloat"), isStr := (← b "isStr"), isBool := (← b "isBool"),
         isNone := (← b "isNone"), hasDtype := (← b "hasDtype"), hasItem := (← b "hasItem"), isNpComplex := (← b "isNpComplex"),
         hasFspath := (← b "hasFspath"), typeStrPathlib := (← b "typeStrPathlib"), isAutoSerialize := (← b "isAutoSerialize"),
         isList := (← b "isList"), isTuple := (← b "isTuple"), isDict := (← b "isDict"), isSet := (← b "isSet"),
         hasBitGenerator := (← b "hasBitGenerator"), hasGetState := (← b "hasGetState"), hasSetState := (← b "hasSetState") }

def reprStr {α : Type} [Repr α] (x : α) : String := (toString (repr x)).splitOn "." |>.getLast!

def callErrName : CallErr → String
  | .valueError => "ValueError" | .fileExists => "FileExistsError" | .fileNotFound => "FileNotFoundError"
  | .typeError => "TypeError" | .keyError => "KeyError"

def saveArgsOfJson (j : Json) : Except String SaveArgs := do
  let lvl := fieldD j "level" Json.null
  let level ← (if lvl.isNull then pure none else do pure (some (← lvl.getInt?)) : Except String (Option Int))
  pure { path := (← strField j "path"), mode := (← strField j "mode"), store := (← strField j "store"), level := level }

def hopOfJson (j : Json) : Except String HOp := do
  match (← strField j "k") with
  | "save" => pure (.save (← valOfJson (← field j "v")) (← saveArgsOfJson j))
  | "saveRaises" => pure (.saveRaises (← saveArgsOfJson j))
  | "load" => pure (.load (← strField j "path"))
  | "inspect" => pure (.inspect (← strField j "path"))
  | k => throw s!"history op {k}"

def houtToJson : HOut → Json
  | .saved store path => Json.mkObj [("saved", Json.arr #[Json.str store, Json.str path])]
  | .raised e => Json.mkObj [("raised", Json.str (callErrName e))]
  | .loaded v => Json.mkObj [("loaded", valToJson v)]
  | .printed => Json.mkObj [("printed", Json.bool true)]

/-- entry kinds of `Model/SaveInstall.lean` by name -/
def entOfStr : String → Except String SaveInstall.Ent
  | "none" => pure none
  | "file" => pure (some .file)
  | "emptydir" => pure (some (.dir true))
  | "dir" => pure (some (.dir false))
  | "link-dir" => pure (some (.link true false))
  | "link-file" => pure (some (.link false false))
  | "link-dangling" => pure (some (.link false true))
  | k => throw s!"entry kind {k}"

def kindName : SaveInstall.Kind → String
  | .file => "file" | .dir true => "emptydir" | .dir false => "dir"
  | .link true false => "link-dir" | .link false false => "link-file" | .link _ true => "link-dangling"

def step (st : Unit) (j : Json) : Unit × Json :=
  match (do
    let op ← strField j "op"
    match op with
    | "roundtrip" =>
        let v ← valOfJson (← field j "v")
        let sks ← skipOfJson (fieldD j "skip_save" (Json.mkObj []))
        let skl ← skipOfJson (fieldD j "skip_load" (Json.mkObj []))
        match load skl (save sks v) with
        | .ok r => pure (okJson (valToJson r))
        | .error e => pure (errJson (errName e))
    | "history" =>
        -- a history of public calls (save / load / print_file) on an initially empty set of targets
        let ops ← (← arrField j "ops").toList.mapM hopOfJson
        pure (okJson (Json.arr ((hrun [] ops).2.map houtToJson).toArray))
    | "resolve" =>
        -- the argument checks of save() alone; `exists` = os.path.exists(final path)
        let a ← saveArgsOfJson j
        let ex ← boolField j "exists"
        match resolveSave (fun _ => ex) a with
        | .ok (store, path) => pure (okJson (Json.arr #[Json.str store, Json.str path]))
        | .error e => pure (errJson (callErrName e))
    | "saveonto" =>
        -- one save() end to end onto a target holding an entry of the given kind (growth 6, Model/SerializeStoreExt.lean):
        -- argument checks + encode + _install(); then load() from what is at the target
        let a ← saveArgsOfJson j
        let v ← valOfJson (← field j "v")
        let ent ← entOfStr (← strField j "pre")
        let pre : Option Slot := ent.map fun k => { kind := k, content := none }
        match saveOnto pre v a with
        | .error (.call e) => pure (errJson (callErrName e))
        | .error (.os e) => pure (errJson e)
        | .ok post =>
            let kind := match post with | some s => kindName s.kind | none => "none"
            match loadFrom post with
            | .ok r => pure (okJson (Json.mkObj [("kind", Json.str kind), ("loaded", valToJson r)]))
            | .error _ => pure (okJson (Json.mkObj [("kind", Json.str kind), ("loaded", Json.null)]))
    | "numeric" =>
        -- `_is_numeric_scalar` on the isinstance facts of a value
        let f : NumFeat := { isArrayLike := (← boolField j "arraylike"), isPyNumber := (← boolField j "pynumber"), isNpReal := (← boolField j "npreal") }
        pure (okJson (Json.bool (isNumericScalar f)))
    | "dispatch" =>
        -- the dispatch chain on the facts of one value: hand model, text generated from the source, observable
        let f ← featOfJson (← field j "feat")
        pure (okJson (Json.mkObj [("model", Json.str (reprStr (SerDispatch.dispatch f))),
                                  ("gen", Json.str (reprStr (Generated.SerializeDispatch.dispatchGen f))),
                                  ("obs", Json.str (SerDispatch.obsOf (Generated.SerializeDispatch.dispatchGen f))),
                                  ("consistent", Json.bool (SerDispatch.Consistent f))]))
    | "kinds" =>
        -- the table of facts per value kind the theorems are about (`featOf`, `branchOf`)
        pure (okJson (Json.mkObj (SerDispatch.allKinds.map fun k =>
          (reprStr k, Json.mkObj [("feat", Json.arr ((featFields.filter fun p => p.2 (SerDispatch.featOf k)).map (Json.str ·.1)).toArray),
                                  ("branch", Json.str (reprStr (SerDispatch.branchOf k)))]))))
    | "nodeobs" =>
        -- which branch the node `encode` stores for a value shows (`nodeObs`), and its kind (`kindOf`)
        let v ← valOfJson (← field j "v")
        pure (okJson (Json.mkObj [("obs", Json.str (nodeObs (encode {} v))), ("kind", Json.str (reprStr (kindOf v)))]))
    | "dec" =>
        -- `str(n)` of the key layer (Model/SeqKeys.lean)
        let ns ← (← arrField j "ns").toList.mapM (·.getNat?)
        pure (okJson (Json.arr (ns.map fun n => Json.str (String.ofList (SeqKeys.dec n))).toArray))
    | "seqdecode" =>
        -- the keys of a sequence group in the store's enumeration order: reconstructed length and
        -- the keys whose children are appended, in order
        let keys ← (← arrField j "keys").toList.mapM (·.getStr?)
        let kids : List (SeqKeys.Key × String) := keys.map fun k => (k.toList, k)
        pure (okJson (Json.mkObj [("len", Json.num (JsonNumber.fromNat (SeqKeys.seqLen (kids.map (·.1))))),
                                  ("found", match SeqKeys.seqDecode kids with
                                    | some l => Json.arr (l.map Json.str).toArray
                                    | none => Json.str "KeyError")]))
    | _ => throw s!"unknown op {op}" : Except String Json) with
  | .ok r => (st, r)
  | .error e => (st, errJson s!"driver:{e}")

end DrvC01

def main : IO Unit := QuantemModel.Proto.run () DrvC01.step
