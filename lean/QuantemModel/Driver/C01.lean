import QuantemModel.Core.Proto
import QuantemModel.Model.Serialize
import QuantemModel.Core.SerializeJson
import QuantemModel.Model.SeqKeys
open Lean QuantemModel QuantemModel.Proto QuantemModel.Serialize

namespace DrvC01
open QuantemModel.SerializeJson

def skipOfJson (j : Json) : Except String Skip := do
  let strs (x : Json) : Except String (List String) := do (← x.getArr?).toList.mapM (·.getStr?)
  pure { names := (← strs (fieldD j "names" (Json.arr #[]))), types := (← strs (fieldD j "types" (Json.arr #[]))) }

def errName : Err → String
  | .valueError => "ValueError" | .keyError => "KeyError" | .typeError => "TypeError"

def step (st : Unit) (j : Json) : Unit × Json :=
  match (do
    let op ← strField j "op"
    match op with
    | "roundtrip" =>
        let v ← valOfJson (← field j "v")
        let sks ← skipOfJson (fieldD j "skip_save" (Json.mkObj []))
        let skl ← skipOfJson (fieldD j "skip_load" (Json.mkObj []))
        match load skl (save sks v) with
        | .ok r => pure (okJson (valToJson r))
        | .error e => pure (errJson (errName e))
    | "dec" =>
        -- `str(n)` of the key layer (Model/SeqKeys.lean)
        let ns ← (← arrField j "ns").toList.mapM (·.getNat?)
        pure (okJson (Json.arr (ns.map fun n => Json.str (String.ofList (SeqKeys.dec n))).toArray))
    | "seqdecode" =>
        -- the keys of a sequence group in the store's enumeration order: reconstructed length and
        -- the keys whose children are appended, in order
        let keys ← (← arrField j "keys").toList.mapM (·.getStr?)
        let kids : List (SeqKeys.Key × String) := keys.map fun k => (k.toList, k)
        pure (okJson (Json.mkObj [("len", Json.num (JsonNumber.fromNat (SeqKeys.seqLen (kids.map (·.1))))),
                                  ("found", match SeqKeys.seqDecode kids with
                                    | some l => Json.arr (l.map Json.str).toArray
                                    | none => Json.str "KeyError")]))
    | _ => throw s!"unknown op {op}" : Except String Json) with
  | .ok r => (st, r)
  | .error e => (st, errJson s!"driver:{e}")

end DrvC01

def main : IO Unit := QuantemModel.Proto.run () DrvC01.step
