import QuantemModel.Core.Proto
import QuantemModel.Model.Norm
import QuantemModel.Model.NormAlias
open Lean QuantemModel QuantemModel.Proto QuantemModel.Norm QuantemModel.Generated.Stretch

/-! JSON-lines driver for C20: runs Generated/Stretch.lean and Model/Norm.lean at `Float`.
Floats cross as IEEE bit patterns; a masked pixel is `null`. -/
namespace DrvC20

def extOfFloat (x : Float) : Ext Float :=
  if x.isNaN then .nan
  else if x.isInf then (if x > 0 then .posInf else .negInf)
  else .fin x

def errName : Err → String
  | .valueError => "ValueError" | .typeError => "TypeError" | .indexError => "IndexError"

def optFloatOfJson (j : Json) : Except String (Option Float) :=
  match j with
  | .null => pure none
  | _ => do pure (some (← floatOfJson j))

def optFloatToJson : Option Float → Json
  | none => Json.null
  | some x => floatToJson x

def floatsToJson (xs : List Float) : Json := Json.arr (xs.map floatToJson).toArray

def kwValOfJson (j : Json) : Except String (KwVal Float) :=
  match j with
  | .null => pure .none
  | _ =>
    match j.getObjVal? "n" with
    | .ok b => do pure (.num (← floatOfJson b))
    | .error _ => do pure (.str (← strField j "s"))

def kwListOfJson (j : Json) : Except String (List (String × KwVal Float)) := do
  (← j.getArr?).toList.mapM fun it => do
    let pr ← it.getArr?
    if pr.size != 2 then throw "pair" else
    pure (← pr[0]!.getStr?, ← kwValOfJson pr[1]!)

def configOfJson (j : Json) : Except String (Config Float) := do
  pure { intervalType := ← strField j "interval_type",
         stretchType := ← strField j "stretch_type",
         lowerQ := ← floatOfJson (← field j "lower_quantile"),
         upperQ := ← floatOfJson (← field j "upper_quantile"),
         vmin := ← optFloatOfJson (fieldD j "vmin" Json.null),
         vmax := ← optFloatOfJson (fieldD j "vmax" Json.null),
         vcenter := ← floatOfJson (← field j "vcenter"),
         halfRange := ← optFloatOfJson (fieldD j "half_range" Json.null),
         power := ← floatOfJson (← field j "power"),
         logIndex := ← floatOfJson (← field j "logarithmic_index"),
         asinhRange := ← floatOfJson (← field j "asinh_linear_range") }

def configToJson (c : Config Float) : Json :=
  Json.mkObj [("interval_type", Json.str c.intervalType), ("stretch_type", Json.str c.stretchType),
    ("lower_quantile", floatToJson c.lowerQ), ("upper_quantile", floatToJson c.upperQ),
    ("vmin", optFloatToJson c.vmin), ("vmax", optFloatToJson c.vmax),
    ("vcenter", floatToJson c.vcenter), ("half_range", optFloatToJson c.halfRange),
    ("power", floatToJson c.power), ("logarithmic_index", floatToJson c.logIndex),
    ("asinh_linear_range", floatToJson c.asinhRange)]

def stretchName : Stretch Float → String
  | .linear _ => "LinearStretch" | .power _ => "PowerLawStretch" | .log _ => "LogarithmicStretch"
  | .invlog _ => "InverseLogarithmicStretch" | .asinh _ => "InverseHyperbolicSineStretch"
  | .sinh _ => "HyperbolicSineStretch"

def intervalToJson : Interval Float → Json
  | .quantile a b => Json.mkObj [("kind", "quantile"), ("lower_quantile", floatToJson a), ("upper_quantile", floatToJson b)]
  | .manual a b => Json.mkObj [("kind", "manual"), ("vmin", optFloatToJson a), ("vmax", optFloatToJson b)]
  | .centered c h => Json.mkObj [("kind", "centered"), ("vcenter", floatToJson c), ("half_range", optFloatToJson h)]

def wrapErr (r : Except Err Json) : Json :=
  match r with
  | .ok j => okJson j
  | .error e => errJson (errName e)

def normArgOfJson (j : Json) : Except String (NormArg Float) :=
  match j with
  | .null => pure .none
  | _ =>
    match j.getObjVal? "name" with
    | .ok s => do pure (.name (← s.getStr?))
    | .error _ =>
      match j.getObjVal? "dict" with
      | .ok d => do pure (.dict (← kwListOfJson d))
      | .error _ =>
        match j.getObjVal? "config" with
        | .ok c => do pure (.config (← configOfJson c))
        | .error _ => pure .other

def step (st : Unit) (j : Json) : Unit × Json :=
  match (do
    let op ← strField j "op"
    match op with
    | "stretch" =>
        -- S(x), the declared inverse, S.inverse(x) and S(S.inverse(x)) from the generated code
        let cls ← strField j "cls"
        let ps ← floatList (← field j "params")
        let xs ← floatList (← field j "xs")
        match validByName cls ps, inverseByName cls ps with
        | some v, some (icls, ips) =>
            let call := fun (c : String) (p : List Float) (x : Float) => (callByName c p x).getD (0.0 / 0.0)
            let iv := (validByName icls ips).getD false
            pure (okJson (Json.mkObj [
              ("valid", Json.bool v),
              ("ys", floatsToJson (xs.map (call cls ps))),
              ("inv_cls", Json.str icls), ("inv_params", floatsToJson ips), ("inv_valid", Json.bool iv),
              ("inv_ys", floatsToJson (xs.map (call icls ips))),
              ("comp", floatsToJson (xs.map (fun x => call cls ps (call icls ips x))))]))
        | _, _ => throw s!"unknown stretch {cls}/{ps.length}"
    | "alias" =>
        -- S(values, copy): what is returned and what the caller's array holds afterwards (Model/NormAlias.lean)
        let cls ← strField j "cls"
        let ps ← floatList (← field j "params")
        let xs ← floatList (← field j "xs")
        let copy ← boolField j "copy"
        match (stretchByName cls ps : Option (Stretch Float)) with
        | some s =>
            let b := s.callBuf copy xs
            pure (okJson (Json.mkObj [("ret", floatsToJson b.ret), ("buf", floatsToJson b.buf)]))
        | none => throw s!"unknown stretch {cls}/{ps.length}"
    | "callbuf" =>
        -- CustomNormalization.__call__ through the buffer (stretch return value discarded), lazy limits
        let cfg ← configOfJson (← field j "cfg")
        let copy ← boolField j "copy"
        let data := (← floatList (← field j "data")).map extOfFloat
        pure (wrapErr (do
          let n ← Norm.init cfg
          let out ← n.callViaBuffer copy data
          pure (Json.mkObj [("out", Json.arr (out.map optFloatToJson).toArray)])))
    | "defaults" =>
        let cls ← strField j "cls"
        match (defaultsByName cls : Option (List Float)) with
        | some d => pure (okJson (floatsToJson d))
        | none => throw s!"unknown stretch {cls}"
    | "classes" =>
        pure (okJson (Json.arr (classNames.map fun c =>
          Json.mkObj [("cls", Json.str c), ("fields", Json.arr ((fieldNames c).map Json.str).toArray)]).toArray))
    | "norm" =>
        let cfg ← configOfJson (← field j "cfg")
        let frozen ← boolField j "frozen"
        let isBool := (boolField j "is_bool").toOption.getD false
        let data := (← floatList (← field j "data")).map extOfFloat
        let probe := (← floatList (fieldD j "probe" (Json.arr #[]))).map extOfFloat
        let inv ← floatList (fieldD j "inv" (Json.arr #[]))
        -- float32 images: the caller may pass the interval-stage output of the implementation so
        -- that the stretch stage is compared on identical inputs (well-conditioned comparison)
        let preIn := (← floatList (fieldD j "pre_in" (Json.arr #[]))).map extOfFloat
        pure (wrapErr (do
          let n ← Norm.create cfg (if frozen then some (isBool, data) else none)
          let (lo, hi) ← n.interval.getLimits data
          let out ← n.call data
          -- the probe is only meaningful for a frozen interval (limits independent of the argument)
          let pout ← if probe.isEmpty then pure [] else n.call probe
          let invOut := if inv.isEmpty then Json.null else
            match n.inverse inv with
            | .ok ys => floatsToJson ys
            | .error e => Json.str (errName e)
          let extToJson : Ext Float → Json
            | .fin y => floatToJson y
            | .nan => floatToJson (0.0 / 0.0)
            | .posInf => floatToJson (1.0 / 0.0)
            | .negInf => floatToJson (-1.0 / 0.0)
          pure (Json.mkObj [
            ("pre", Json.arr (data.map (fun x => extToJson (intervalExt lo hi x))).toArray),
            ("post_of_pre_in", Json.arr (preIn.map (fun u => optFloatToJson (maskInvalid (stretchExt n.stretch u)))).toArray),
            ("stretch", Json.str (stretchName n.stretch)),
            ("interval", intervalToJson n.interval),
            ("attr_vmin", optFloatToJson n.vmin), ("attr_vmax", optFloatToJson n.vmax),
            ("vmin", floatToJson lo), ("vmax", floatToJson hi),
            ("out", Json.arr (out.map optFloatToJson).toArray),
            ("probe_out", Json.arr (pout.map optFloatToJson).toArray),
            ("inv_out", invOut)])))
    | "show" =>
        -- visualization.py callers
        let which ← strField j "which"
        let norm ← normArgOfJson (fieldD j "norm" Json.null)
        let kw ← kwListOfJson (fieldD j "kwargs" (Json.arr #[]))
        let arrays ← (← arrField j "arrays").toList.mapM fun a => do
          pure ((← floatList a).map extOfFloat)
        let normJson := fun (n : Norm.Norm Float) => [
            ("stretch", Json.str (stretchName n.stretch)), ("interval", intervalToJson n.interval),
            ("attr_vmin", optFloatToJson n.vmin), ("attr_vmax", optFloatToJson n.vmax)]
        let outJson := fun (o : List (Option Float)) => Json.arr (o.map optFloatToJson).toArray
        if which == "array" then
          pure (wrapErr (do
            let (n, out) ← showArray norm kw false (arrays.headD [])
            pure (Json.mkObj (normJson n ++ [("outs", Json.arr #[outJson out])]))))
        else
          pure (wrapErr (do
            let (n, outs) ← showCombined norm kw arrays
            pure (Json.mkObj (normJson n ++ [("outs", Json.arr (outs.map outJson).toArray)]))))
    | "limits" =>
        -- <Interval>.get_limits(data) alone
        let cfg ← configOfJson (← field j "cfg")
        let data := (← floatList (← field j "data")).map extOfFloat
        pure (wrapErr (do
          let n ← Norm.init cfg
          let (lo, hi) ← n.interval.getLimits data
          pure (Json.mkObj [("vmin", floatToJson lo), ("vmax", floatToJson hi)])))
    | "resolve" =>
        let norm ← normArgOfJson (fieldD j "norm" Json.null)
        let kw ← kwListOfJson (fieldD j "kwargs" (Json.arr #[]))
        pure (wrapErr (do
          let c ← resolve norm kw
          pure (configToJson c)))
    | "presets" =>
        pure (okJson (Json.arr ((presets (R := Float)).map fun (n, c) =>
          Json.arr #[Json.str n, configToJson c]).toArray))
    | _ => throw s!"unknown op {op}" : Except String Json) with
  | .ok r => (st, r)
  | .error e => (st, errJson s!"driver:{e}")

end DrvC20

def main : IO Unit := QuantemModel.Proto.run () DrvC20.step
