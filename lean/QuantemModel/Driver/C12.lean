import QuantemModel.Core.Proto
import QuantemModel.Model.Aberration
import QuantemModel.Model.AberrationState
import QuantemModel.Model.AberrationOrder
import QuantemModel.Model.AberrationGrid
open Lean QuantemModel QuantemModel.Proto
open QuantemModel.Generated.Aberration QuantemModel.Aberration

namespace DrvC12

def fl (x : Float) : Json := floatToJson x
def flist (xs : List Float) : Json := Json.arr (xs.map fl).toArray

def pairOfJson (j : Json) : Except String (Float × Float) := do
  let a ← j.getArr?
  if a.size != 2 then throw "pair" else
  pure (← floatOfJson a[0]!, ← floatOfJson a[1]!)

def pairsField (j : Json) (k : String) : Except String (List (Float × Float)) := do
  (← arrField j k).toList.mapM pairOfJson

/-- `[[key, bits], …]` → assoc list -/
def dictOfJson (j : Json) : Except String (List (String × Float)) := do
  (← j.getArr?).toList.mapM fun it => do
    let a ← it.getArr?
    if a.size != 2 then throw "item" else
    pure (← a[0]!.getStr?, ← floatOfJson a[1]!)

def envField (j : Json) (k : String) : Except String (String → Float) := do
  let d ← dictOfJson (← field j k)
  pure (lookupD d)

/-- `k in coefs` for the dict sent under field `k` -/
def presentField (j : Json) (k : String) : Except String (String → Bool) := do
  let d ← dictOfJson (← field j k)
  pure (fun key => d.any (fun kv => kv.1 == key))

def dictToJson (d : List (String × Float)) : Json :=
  Json.arr (d.map fun (k, v) => Json.arr #[Json.str k, fl v]).toArray

def optItems (j : Json) : Except String (List (String × Option Float)) := do
  (← j.getArr?).toList.mapM fun it => do
    let a ← it.getArr?
    if a.size != 2 then throw "item" else
    let k ← a[0]!.getStr?
    match a[1]! with
    | .null => pure (k, none)
    | v => pure (k, some (← floatOfJson v))

def pvalItems (j : Json) : Except String (List (String × PVal Float)) := do
  (← j.getArr?).toList.mapM fun it => do
    let a ← it.getArr?
    if a.size != 2 then throw "item" else
    let k ← a[0]!.getStr?
    match a[1]! with
    | .null => pure (k, PVal.none)
    | v =>
      match v.getObjVal? "n" with
      | .ok n => pure (k, PVal.num (← floatOfJson n))
      | .error _ =>
        match v.getObjVal? "d" with
        | .ok d => pure (k, PVal.dict (← optItems d))
        | .error _ => pure (k, PVal.other)

def errName : Err → String
  | .keyError => "KeyError" | .valueError => "ValueError" | .typeError => "TypeError"

def exceptJson (r : Except Err (List (String × Float))) : Json :=
  match r with
  | .ok d => okJson (dictToJson d)
  | .error e => errJson (errName e)

def strList (xs : List String) : Json := Json.arr (xs.map Json.str).toArray
def strPairs (xs : List (String × String)) : Json :=
  Json.arr (xs.map fun (a, b) => Json.arr #[Json.str a, Json.str b]).toArray

def m2Json (m : M2 Float) : Json := flist [m.a, m.b, m.c, m.d]

def basisLookup (labels : List String) (cols : List Float) (l : String) : Option Float :=
  match labels, cols with
  | a :: as, c :: cs => if a = l then some c else basisLookup as cs l
  | _, _ => none

/-! growth round 5: values `float()` rejects, and the alias code as state carried between calls -/

def errOfName : String → Err
  | "KeyError" => .keyError | "TypeError" => .typeError | _ => .valueError

def xvalOfJson (v : Json) : Except String (XVal Float) :=
  match v with
  | .null => pure XVal.none
  | v =>
    match v.getObjVal? "n" with
    | .ok n => do pure (XVal.num (← floatOfJson n))
    | .error _ =>
      match v.getObjVal? "b" with
      | .ok b => do pure (XVal.bad (errOfName (← b.getStr?)))
      | .error _ => throw "xval"

def xvalToJson : XVal Float → Json
  | .none => Json.null
  | .num x => Json.mkObj [("n", fl x)]
  | .bad e => Json.mkObj [("b", Json.str (errName e))]

def xItems (j : Json) : Except String (List (String × XVal Float)) := do
  (← j.getArr?).toList.mapM fun it => do
    let a ← it.getArr?
    if a.size != 2 then throw "item" else
    pure (← a[0]!.getStr?, ← xvalOfJson a[1]!)

def xtopOfJson (v : Json) : Except String (XTop Float) :=
  match v.getObjVal? "d" with
  | .ok d => do pure (XTop.dict (← xItems d))
  | .error _ => do pure (XTop.leaf (← xvalOfJson v))

def xtopToJson : XTop Float → Json
  | .leaf v => xvalToJson v
  | .dict items => Json.mkObj [("d", Json.arr (items.map fun (k, v) => Json.arr #[Json.str k, xvalToJson v]).toArray)]

def xtopItems (j : Json) : Except String (List (String × XTop Float)) := do
  (← j.getArr?).toList.mapM fun it => do
    let a ← it.getArr?
    if a.size != 2 then throw "item" else
    pure (← a[0]!.getStr?, ← xtopOfJson a[1]!)

def pstateJson (e : Option Err) (st : PState Float) : Json :=
  Json.mkObj [("err", match e with | none => Json.null | some e => Json.str (errName e)),
              ("top", Json.arr (st.top.map fun (k, v) => Json.arr #[Json.str k, xtopToJson v]).toArray),
              ("aber", dictToJson st.aber)]

def optXItems (j : Json) (k : String) : Except String (Option (List (String × XVal Float))) :=
  match j.getObjVal? k with
  | .ok .null => pure none
  | .ok v => do pure (some (← xItems v))
  | .error _ => pure none

def hopOfJson (j : Json) : Except String (HOp Float) := do
  let t ← strField j "t"
  match t with
  | "current" => pure (HOp.current (← optXItems j "o"))
  | "clear_optimized" => pure HOp.clearOptimized
  | "clear_all" => pure HOp.clearAll
  | "search" => pure (HOp.search (← xItems (← field j "best")) (← xItems (← field j "fixed")))
  | "cc" => pure (HOp.crossCorrelation (← xItems (← field j "o")) (← xItems (← field j "fit")))
  | _ => throw s!"unknown hop {t}"

def exceptDictJson (r : Except Err (List (String × Float))) : Json :=
  match r with
  | .ok d => Json.mkObj [("ok", dictToJson d)]
  | .error e => Json.mkObj [("err", Json.str (errName e))]

def step (st : Unit) (j : Json) : Unit × Json :=
  match (do
    let op ← strField j "op"
    match op with
    | "tables" =>
        pure (okJson (Json.mkObj [
          ("POLAR_SYMBOLS", strList POLAR_SYMBOLS), ("POLAR_ALIASES", strPairs POLAR_ALIASES),
          ("VALIDATORS_POLAR_SYMBOLS", strList VALIDATORS_POLAR_SYMBOLS),
          ("VALIDATORS_POLAR_ALIASES", strPairs VALIDATORS_POLAR_ALIASES),
          ("ABERRATION_PRESETS", Json.arr (ABERRATION_PRESETS.map fun (k, v) => Json.arr #[Json.str k, strList v]).toArray),
          ("DEFAULT_PROBE_PARAM_KEYS", strList DEFAULT_PROBE_PARAM_KEYS),
          ("CARTESIAN_LABELS", strList CARTESIAN_LABELS),
          ("tableSymbols", strList tableSymbols), ("tableLabels", strList tableLabels)]))
    | "surface" =>       -- generated code and hand spec at each point
        let c ← envField j "coefs"
        let pr ← presentField j "coefs"
        let lam ← floatOfJson (← field j "lam")
        let pts ← pairsField j "pts"
        pure (okJson (Json.mkObj [
          ("code", flist (pts.map fun (a, p) => aberration_surface_guarded a p lam c pr)),
          ("unguarded", flist (pts.map fun (a, p) => aberration_surface a p lam c)),
          ("spec", flist (pts.map fun (a, p) => chi a p lam c))]))
    | "grads" =>
        let c ← envField j "coefs"
        let pr ← presentField j "coefs"
        let pts ← pairsField j "pts"
        -- the faithful translation, guards included
        let pg := pts.map fun (a, p) => aberration_surface_polar_gradients_guarded a p c pr
        let cg := pts.map fun (a, p) => aberration_surface_cartesian_gradients_guarded a p c pr
        pure (okJson (Json.mkObj [
          ("dk", flist (pg.map (·.1))), ("dphi", flist (pg.map (·.2))),
          ("dx", flist (cg.map (·.1))), ("dy", flist (cg.map (·.2)))]))
    | "basis" =>
        let lam ← floatOfJson (← field j "lam")
        let pts ← pairsField j "pts"
        let labels ← (← arrField j "labels").toList.mapM (·.getStr?)
        -- the loop of the source translated over the dynamic label list (column order is the source's)
        let rows := pts.map fun (a, p) => aberration_surface_cartesian_basis_list a p lam labels
        if rows.all Option.isSome then
          pure (okJson (Json.arr (rows.map fun r => flist (r.getD [])).toArray))
        else pure (errJson "UnknownLabel")
    | "p2c" =>
        let c ← envField j "coefs"
        pure (okJson (dictToJson (polar_to_cartesian_aberrations c)))
    | "c2p" =>
        let c ← envField j "coefs"
        pure (okJson (dictToJson (cartesian_to_polar_aberrations c)))
    | "p2c_k" =>         -- growth 6: the loops with an explicit max_order (Model/AberrationOrder.lean)
        let c ← envField j "coefs"
        let k ← natField j "k"
        pure (okJson (dictToJson (QuantemModel.AberrationOrder.p2cOrder c k)))
    | "c2p_k" =>
        let c ← envField j "coefs"
        let k ← natField j "k"
        pure (okJson (dictToJson (QuantemModel.AberrationOrder.c2pOrder c k)))
    | "merge" =>
        let a ← envField j "init"
        let d ← envField j "delta"
        pure (okJson (dictToJson (merge_aberration_coefficients a d)))
    | "standardize" =>
        let l ← optItems (← field j "items")
        pure (exceptJson (standardize POLAR_SYMBOLS POLAR_ALIASES l))
    | "validate" =>
        let l ← optItems (← field j "items")
        pure (exceptJson (validate VALIDATORS_POLAR_SYMBOLS VALIDATORS_POLAR_ALIASES l))
    | "probe_params" =>
        let l ← pvalItems (← field j "items")
        let mo := (natField j "max_order").toOption
        pure (exceptJson (probeParams DEFAULT_PROBE_PARAM_KEYS POLAR_SYMBOLS POLAR_ALIASES mo l))
    | "validate_x" =>
        let l ← xItems (← field j "items")
        pure (exceptJson (validateX VALIDATORS_POLAR_SYMBOLS VALIDATORS_POLAR_ALIASES l))
    | "pp_history" =>
        let top ← xtopItems (← field j "init_top")
        let aber ← dictOfJson (← field j "init_aber")
        let mo := (natField j "max_order").toOption
        let hist ← (← arrField j "history").toList.mapM xtopItems
        let rs := PState.run DEFAULT_PROBE_PARAM_KEYS POLAR_SYMBOLS POLAR_ALIASES mo ⟨top, aber⟩ hist
        pure (okJson (Json.arr (rs.map fun (e, s) => pstateJson e s).toArray))
    | "h_history" =>
        let ini ← xItems (← field j "initial")
        let ops ← (← arrField j "ops").toList.mapM hopOfJson
        match HState.create VALIDATORS_POLAR_SYMBOLS VALIDATORS_POLAR_ALIASES ini with
        | .error e => pure (okJson (Json.mkObj [("create", Json.str (errName e)), ("steps", Json.arr #[])]))
        | .ok st0 =>
          let rs := HState.run VALIDATORS_POLAR_SYMBOLS VALIDATORS_POLAR_ALIASES st0 ops
          pure (okJson (Json.mkObj [("create", Json.null), ("initial", dictToJson st0.initial),
            ("steps", Json.arr (rs.map fun (o, s) => Json.mkObj [("out", exceptDictJson o),
              ("initial", dictToJson s.initial), ("optimized", dictToJson s.optimized)]).toArray)]))
    | "cc_shift_coefs" =>
        let l ← xItems (← field j "items")
        pure (exceptJson (crossCorrelationShiftCoefs VALIDATORS_POLAR_SYMBOLS VALIDATORS_POLAR_ALIASES l))
    | "shifts" =>
        let c ← envField j "coefs"
        let lam ← floatOfJson (← field j "lam")
        let th := match j.getObjVal? "theta" with
          | .ok .null => none
          | .ok v => (floatOfJson v).toOption
          | .error _ => none
        let pts ← pairsField j "pts"
        let out := pts.map fun (kx, ky) => lateralShift kx ky lam th c
        pure (okJson (Json.arr (out.map fun (x, y) => flist [x, y]).toArray))
    | "surface_grad" =>  -- growth 6: aberration_surface_grad at each pixel (Model/AberrationGrid.lean)
        let c ← envField j "coefs"
        let lam ← floatOfJson (← field j "lam")
        let th := match j.getObjVal? "theta" with
          | .ok .null => none
          | .ok v => (floatOfJson v).toOption
          | .error _ => none
        let pts ← pairsField j "pts"
        let out := pts.map fun (kx, ky) => surfaceGradAt kx ky lam th c
        pure (okJson (Json.arr (out.map fun (x, y) => flist [x, y]).toArray))
    | "fit" =>
        let basis ← pairsField j "basis"
        let shifts ← pairsField j "shifts"
        let m := lstsq2 basis shifts
        let up := polar2 m
        -- the translated extraction on the closed-form polar factors
        let (c10, c12, phi12, rot) := fitExtractTranslated up.1 up.2
        pure (okJson (Json.mkObj [("fit", flist [c10, c12, phi12, rot]), ("M", m2Json m),
                                  ("U", m2Json up.1), ("P", m2Json up.2)]))
    | "extract" =>
        let u ← floatList (← field j "U")
        let p ← floatList (← field j "P")
        match u, p with
        | [ua, ub, uc, ud], [pa, pb, pc, pd] =>
            let (c10, c12, phi12, rot) := fitExtractTranslated (⟨ua, ub, uc, ud⟩ : M2 Float) ⟨pa, pb, pc, pd⟩
            pure (okJson (flist [c10, c12, phi12, rot]))
        | _, _ => throw "U/P shape"
    | _ => throw s!"unknown op {op}" : Except String Json) with
  | .ok r => (st, r)
  | .error e => (st, errJson s!"driver:{e}")

end DrvC12

def main : IO Unit := QuantemModel.Proto.run () DrvC12.step
