import QuantemModel.Core.Proto
import QuantemModel.Model.Batcher
import QuantemModel.Model.BatcherExt
import QuantemModel.Model.BatcherSpec
open Lean QuantemModel QuantemModel.Proto QuantemModel.Batcher

namespace DrvC09

def natsToJson (l : List Nat) : Json := Json.arr (l.map (fun n => Json.num (JsonNumber.fromNat n))).toArray
def natssToJson (l : List (List Nat)) : Json := Json.arr (l.map natsToJson).toArray

def modeOfString (s : String) : Mode := if s == "random" then .random else .grid   -- `else:` = grid

def optNat (j : Json) (k : String) : Except String (Option Nat) :=
  match j.getObjVal? k with
  | .ok .null => pure none
  | .ok v => do pure (some (← v.getNat?))
  | .error _ => pure none

def pyErrName : PyErr → String
  | .valueError => "ValueError" | .zeroDivisionError => "ZeroDivisionError" | .typeError => "TypeError"

def exceptJson {α : Type} (f : α → Json) : Except PyErr α → Json
  | .ok a => f a
  | .error e => Json.str (pyErrName e)

def intToJson (i : Int) : Json := Json.num (JsonNumber.fromInt i)

def optInt (j : Json) (k : String) : Except String (Option Int) :=
  match j.getObjVal? k with
  | .ok .null => pure none
  | .ok v => do pure (some (← v.getInt?))
  | .error _ => pure none

def cfgValOf (j : Json) (k : String) : CfgVal :=
  match j.getObjVal? k with
  | .ok .null => .none
  | .ok (.num n) => if n.exponent == 0 then .int n.mantissa else .float n.toFloat
  | .ok (.str s) => .str s
  | .ok _ => .other
  | .error _ => .none

def faultOf (r : Json) : Except String (Option Fault) :=
  match r.getObjVal? "fault" with
  | .ok .null => pure none
  | .error _ => pure none
  | .ok f => do
      let it ← natField f "iter"
      let kind ← strField f "kind"
      let pos := (natField f "pos").toOption.getD 0
      match kind with
      | "train" => pure (some { iter := it, kind := .train pos })
      | "val" => pure (some { iter := it, kind := .val pos })
      | "after" => pure (some { iter := it, kind := .afterRecord })
      | _ => throw s!"fault kind {kind}"

def subErrName : SubErr → String
  | .runtimeError => "RuntimeError" | .valueError => "ValueError" | .zeroDivisionError => "ZeroDivisionError"

def step (st : Unit) (j : Json) : Unit × Json :=
  match (do
    let op ← strField j "op"
    match op with
    | "batcher" =>
        -- one SimpleBatcher: split, the epochs for the given shuffle orders, len, validation pass
        let n ← natField j "n"
        let ratio ← floatOfJson (← field j "ratio")
        let mode := modeOfString (← strField j "mode")
        let perm ← natList (← field j "perm")
        let b ← natField j "b"
        let orders ← (← arrField j "orders").toList.mapM natList
        let s := split n ratio mode perm
        let r := cleanRatio ratio
        let hdr := [("train", natsToJson s.train), ("val", natsToJson s.val),
                    ("n_val", Json.num (JsonNumber.fromNat (nValOf n r))),
                    ("k", Json.num (JsonNumber.fromNat (gridStep r).1)),
                    ("invert", Json.bool (gridStep r).2)]
        if b == 0 then
          -- range(0, n, 0) raises ValueError; ceil(n / 0) raises ZeroDivisionError
          pure ((), okJson (Json.mkObj (hdr ++ [("iter", Json.str "ValueError"), ("len", Json.str "ZeroDivisionError")])))
        else
          pure ((), okJson (Json.mkObj (hdr ++ [
            ("epochs", Json.arr (orders.map (fun o => natssToJson (epoch b o))).toArray),
            ("len", Json.num (JsonNumber.fromNat (numBatches b s.train))),
            ("val_batches", natssToJson (iterVal b s.val)),
            ("val_len", Json.num (JsonNumber.fromNat (valLen b s.val))),
            ("has_validation", Json.bool (s.val.length > 0))])))
    | "init_user" =>
        -- SimpleBatcher with (possibly) user supplied train/val indices
        let n ← natField j "n"
        let ratio ← floatOfJson (← field j "ratio")
        let mode := modeOfString (← strField j "mode")
        let perm ← natList (← field j "perm")
        let b ← natField j "b"
        let orders ← (← arrField j "orders").toList.mapM natList
        let optList (k : String) : Except String (Option (List Nat)) :=
          match j.getObjVal? k with
          | .ok .null => pure none
          | .ok v => do pure (some (← natList v))
          | .error _ => pure none
        let ut ← optList "train"
        let uv ← optList "val"
        if b == 0 then throw "b=0" else
        match initSplit n ratio mode perm ut uv with
        | .error .valueError => pure ((), errJson "ValueError")
        | .ok s =>
          pure ((), okJson (Json.mkObj [("train", natsToJson s.train), ("val", natsToJson s.val),
            ("epochs", Json.arr (orders.map (fun o => natssToJson (epoch b o))).toArray),
            ("len", Json.num (JsonNumber.fromNat (numBatches b s.train))),
            ("val_batches", natssToJson (iterVal b s.val)),
            ("val_len", Json.num (JsonNumber.fromNat (valLen b s.val))),
            ("has_validation", Json.bool (s.val.length > 0))]))
    | "batcher_py" =>
        -- SimpleBatcher as Python sees it: batch_size None / any int (0, negative), shuffle flag, abandoned epochs
        -- are the harness's business (it hands over the order of every epoch that was started)
        let n ← natField j "n"
        let ratio ← floatOfJson (← field j "ratio")
        let mode := modeOfString (← strField j "mode")
        let perm ← natList (← field j "perm")
        let b := effBatch n (← optInt j "b")
        let orders ← (← arrField j "orders").toList.mapM natList
        let s := split n ratio mode perm
        let eps : Except PyErr (List (List (List Nat))) := orders.mapM (iterPy b)
        pure ((), okJson (Json.mkObj [("train", natsToJson s.train), ("val", natsToJson s.val),
          ("epochs", exceptJson (fun e => Json.arr (e.map natssToJson).toArray) eps),
          ("len", exceptJson (fun (m : Nat) => Json.num (JsonNumber.fromNat m)) (lenPy b s.train)),
          ("val_batches", exceptJson natssToJson (iterValPy b s.val)),
          ("val_len", exceptJson intToJson (valLenPy b s.val)),
          ("has_validation", Json.bool (s.val.length > 0))]))
    | "batcher_rng" =>
        pure ((), okJson (match batcherRngCheck (cfgValOf j "value") with
          | .ok _ => Json.str "accepted"
          | .error e => Json.str (pyErrName e)))
    | "rng_set" =>
        -- RNGMixin.rng = v, then _reset_rng(): stored seed, generator (seed, position), torch seed
        let form ← strField j "form"
        let sf : SeedForm ← match form with
          | "none" => pure SeedForm.none
          | "int" => do pure (SeedForm.int (← intField j "seed"))
          | "np_generator" => do pure (SeedForm.npGen (← natField j "seed") ((natField j "consumed").toOption.getD 0))
          | "torch_generator" => do pure (SeedForm.torchGen (← natField j "seed"))
          | "float" => pure SeedForm.float
          | _ => pure SeedForm.other
        let show_ (r : RngFull) : Json := Json.mkObj [
          ("seed", match r.rng.rngSeed with | some k => Json.num (JsonNumber.fromNat k) | none => Json.null),
          ("gen_seed", Json.num (JsonNumber.fromNat r.rng.gen.seed)), ("gen_pos", Json.num (JsonNumber.fromNat r.rng.gen.pos)),
          ("torch_seed", match r.torchSeed with | some k => Json.num (JsonNumber.fromNat k) | none => Json.null)]
        match rngSet 0 sf with
        | none => pure ((), okJson (Json.mkObj [("rejected", Json.bool true)]))
        | some r => pure ((), okJson (Json.mkObj [("rejected", Json.bool false), ("set", show_ r), ("reset", show_ (resetRngFull r))]))
    | "fhistory" =>
        -- a sequence of reconstruct calls on one object, some of them interrupted by an exception
        -- (Model/BatcherExt.lean `reconstructF`).  Each run carries the draws the generator makes during it
        -- (in order, from the harness's twin generator); the model decides how many it consumes.
        let n ← natField j "n"
        let seed : Option Nat := match j.getObjVal? "seed" with
          | .ok .null => none
          | .ok v => v.getNat?.toOption
          | .error _ => none
        let runs ← arrField j "runs"
        let init : Recon Nat Float := { rng := { rngSeed := seed, gen := { seed := seed.getD 0, pos := 0 } },
                                         params := 0, initParams := 0, iterLosses := [], valLosses := [] }
        let mut st := init
        let mut outs : Array Json := #[]
        for r in runs do
          let reset0 ← boolField r "reset"
          let route := (strField r "route").toOption.getD "arg"
          if route != "arg" then st := resetRecon st
          let reset := reset0 && route == "arg"
          let iters ← natField r "iters"
          let b ← natField r "b"
          if b == 0 then throw "b=0"
          let ratio ← floatOfJson (← field r "ratio")
          let mode := modeOfString (← strField r "mode")
          let fault ← faultOf r
          let draws := (← (← arrField r "draws").toList.mapM natList).toArray
          let pos0 := if reset then 0 else st.rng.gen.pos
          let draw : Gen → List Nat → List Nat := fun g l =>
            if h : g.pos - pos0 < draws.size then draws[g.pos - pos0] else l
          let tl := (← floatList (← field r "train_losses")).toArray
          let vt ← (← arrField r "val").toList.mapM (fun e => do
            let a ← e.getArr?
            if a.size != 3 then throw "val entry" else
            pure ((← a[0]!.getNat?), (← a[1]!.getNat?), (← floatOfJson a[2]!)))
          let start := if reset then 0 else st.params
          let stepFn : Nat → List Nat → Nat × Float := fun p _ => (p + 1, tl.getD (p - start) 0.0)
          let valFn : Nat → List Nat → Float := fun p B =>
            match vt.find? (fun e => e.1 == p - start && e.2.1 == B.headD 0) with
            | some e => e.2.2
            | none => 0.0
          let cfg : RunCfg := { reset := reset, numIters := iters, b := b, n := n, ratio := ratio, mode := mode }
          let out := reconstructF draw stepFn valFn cfg fault st
          -- the closed-form specification of the same call (Model/BatcherSpec.lean): no loop, no parameters, no losses
          let spec := specCall draw cfg fault st.rng
          let before := if reset then 0 else st.iterLosses.length
          st := out.1
          outs := outs.push (Json.mkObj [
            ("spec", Json.mkObj [
              ("schedule", Json.arr (spec.schedule.map natssToJson).toArray),
              ("draws_used", Json.num (JsonNumber.fromNat (spec.gen.pos - pos0))),
              ("n_iter_losses", Json.num (JsonNumber.fromNat (before + spec.recorded))),
              ("raised", Json.bool spec.raised)]),
            ("schedule", Json.arr (out.2.1.map natssToJson).toArray),
            ("iter_losses", Json.arr (st.iterLosses.map floatToJson).toArray),
            ("val_losses", Json.arr (st.valLosses.map floatToJson).toArray),
            ("draws_used", Json.num (JsonNumber.fromNat (st.rng.gen.pos - pos0))),
            ("raised", Json.bool out.2.2)])
        pure ((), okJson (Json.arr outs))
    | "history" =>
        -- a sequence of reconstruct calls on one object (Model/Batcher.lean `reconstruct`): the generator's
        -- draws come from a table indexed by call position, the per-batch losses of each run from the
        -- recorded real run; the model does the reset / schedule / loss bookkeeping
        let n ← natField j "n"
        let ratio ← floatOfJson (← field j "ratio")
        let mode := modeOfString (← strField j "mode")
        let seed : Option Nat := match j.getObjVal? "seed" with
          | .ok .null => none
          | .ok v => v.getNat?.toOption
          | .error _ => none
        let table ← (← arrField j "table").toList.mapM natList
        let tableA := table.toArray
        let draw : Gen → List Nat → List Nat := fun g l => if h : g.pos < tableA.size then tableA[g.pos] else l
        let runs ← arrField j "runs"
        let init : Recon Nat Float := { rng := { rngSeed := seed, gen := { seed := seed.getD 0, pos := 0 } },
                                         params := 0, initParams := 0, iterLosses := [], valLosses := [] }
        let mut st := init
        let mut outs : Array Json := #[]
        for r in runs do
          let reset0 ← boolField r "reset"
          -- alternative entry points of a reset: "method" = reset_recon() then reconstruct(reset=False);
          -- "classmethod" = from_ptychography (clone, reset_recon on the clone) then reconstruct(reset=False)
          let route := (strField r "route").toOption.getD "arg"
          if route != "arg" then st := resetRecon st
          let reset := reset0 && route == "arg"
          let iters ← natField r "iters"
          let b ← natField r "b"
          if b == 0 then throw "b=0"
          let tl := (← floatList (← field r "train_losses")).toArray
          let vt ← (← arrField r "val").toList.mapM (fun e => do
            let a ← e.getArr?
            if a.size != 3 then throw "val entry" else
            pure ((← a[0]!.getNat?), (← a[1]!.getNat?), (← floatOfJson a[2]!)))
          let start := if reset then 0 else st.params
          let stepFn : Nat → List Nat → Nat × Float := fun p _ => (p + 1, tl.getD (p - start) 0.0)
          let valFn : Nat → List Nat → Float := fun p B =>
            match vt.find? (fun e => e.1 == p - start && e.2.1 == B.headD 0) with
            | some e => e.2.2
            | none => 0.0
          let cfg : RunCfg := { reset := reset, numIters := iters, b := b, n := n, ratio := ratio, mode := mode }
          let out := reconstruct draw stepFn valFn cfg st
          st := out.1
          outs := outs.push (Json.mkObj [
            ("schedule", Json.arr (out.2.map natssToJson).toArray),
            ("iter_losses", Json.arr (st.iterLosses.map floatToJson).toArray),
            ("val_losses", Json.arr (st.valLosses.map floatToJson).toArray),
            ("pos", Json.num (JsonNumber.fromNat st.rng.gen.pos))])
        pure ((), okJson (Json.arr outs))
    | "cfg_seq" =>
        -- a sequence of configuration calls on one session (Model/Batcher.lean `applyCall`): after every call whether it
        -- was rejected and what the session holds
        let calls ← arrField j "calls"
        let b0 ← natField j "batch_size"
        let mut s : Session Nat Float := { recon := { rng := { rngSeed := some 1, gen := { seed := 1, pos := 0 } }, params := 0,
                                                      initParams := 0, iterLosses := [], valLosses := [] },
                                           batchSize := b0, valRatio := 0.0, valMode := .grid }
        let mut outs : Array Json := #[]
        for c in calls do
          let kind ← strField c "kind"
          let v := cfgValOf c "value"
          let call : CfgCall := match kind with
            | "batch_size" => .batchSize v
            | "val_ratio" => .valRatio v
            | "val_mode" => .valMode v
            | _ => .rng v
          let r := applyCall 0 s call
          s := r.1
          outs := outs.push (Json.mkObj [("rejected", Json.bool r.2), ("batch_size", Json.num (JsonNumber.fromNat s.batchSize)),
            ("val_ratio", floatToJson s.valRatio), ("val_mode", Json.str (match s.valMode with | .grid => "grid" | .random => "random"))])
        pure ((), okJson (Json.arr outs))
    | "cfg_call" =>
        -- accept / reject decision of a configuration setter (Model/Batcher.lean `applyCall`)
        let kind ← strField j "kind"
        let v : CfgVal := match j.getObjVal? "value" with
          | .ok .null => .none
          | .ok (.num n) => if n.exponent == 0 then .int n.mantissa else .float n.toFloat
          | .ok (.str s) => .str s
          | .ok _ => .other
          | .error _ => .none
        let call : CfgCall := match kind with
          | "batch_size" => .batchSize v
          | "val_ratio" => .valRatio v
          | "val_mode" => .valMode v
          | _ => .rng v
        let s0 : Session Nat Float := { recon := { rng := { rngSeed := some 1, gen := { seed := 1, pos := 0 } }, params := 0,
                                                   initParams := 0, iterLosses := [], valLosses := [] },
                                        batchSize := 12, valRatio := 0.0, valMode := .grid }
        let r := applyCall 0 s0 call
        pure ((), okJson (Json.mkObj [("rejected", Json.bool r.2), ("batch_size", Json.num (JsonNumber.fromNat r.1.batchSize))]))
    | "subdivide" =>
        let n ← natField j "n"
        let nb ← optNat j "nb"
        let mb ← optNat j "mb"
        let start := (natField j "start").toOption.getD 0
        match subdivideBatches n nb mb, generateBatches n nb mb start with
        | .ok sizes, .ok rs =>
            pure ((), okJson (Json.mkObj [("sizes", natsToJson sizes),
              ("ranges", Json.arr (rs.map (fun (a, b) => natsToJson [a, b])).toArray)]))
        | .error e, _ => pure ((), errJson (subErrName e))
        | _, .error e => pure ((), errJson (subErrName e))
    | "losses" =>
        -- error_estimate scaling at binary64: per-batch losses for the batches of `order`,
        -- the epoch value recorded by reconstruct and the full-batch loss
        let numGpts ← natField j "N"
        let mu ← floatOfJson (← field j "mu")
        let b ← natField j "b"
        let order ← natList (← field j "order")
        let ellL ← floatList (← field j "ell")
        let ellA := ellL.toArray
        let ell : Nat → Float := fun i => ellA.getD i 0.0
        if b == 0 then throw "b=0" else
        let per := (epoch b order).map (fun B => batchLoss numGpts mu (B.map ell))
        pure ((), okJson (Json.mkObj [
          ("batch", Json.arr (per.map floatToJson).toArray),
          ("epoch", floatToJson (epochLoss numGpts mu b order ell)),
          ("full", floatToJson (batchLoss numGpts mu (order.map ell)))]))
    | _ => throw s!"unknown op {op}" : Except String (Unit × Json)) with
  | .ok r => r
  | .error e => (st, errJson s!"driver:{e}")

end DrvC09

def main : IO Unit := QuantemModel.Proto.run () DrvC09.step
