import QuantemModel.Core.Proto
import QuantemModel.Model.Drift
import QuantemModel.Model.DriftSession
import QuantemModel.Model.DriftBatch
open Lean QuantemModel QuantemModel.Proto QuantemModel.Registration QuantemModel.Drift QuantemModel.DriftSession

namespace DrvC15

/-! JSON-lines driver for Model/Drift.lean.  Tables are evaluated once (`Tab`) before they are
handed to the model definitions — memoisation only. -/

structure Tab (α : Type) where
  N : Nat
  a : Array α

def Tab.make {α : Type} (M N : Nat) (f : Nat → Nat → α) : Tab α :=
  ⟨N, Array.ofFn (n := M * N) fun p => f (p.val / N) (p.val % N)⟩

def Tab.get {α : Type} [Inhabited α] (t : Tab α) (i j : Nat) : α := t.a[i * t.N + j]!

instance : Inhabited (Cx Float) := ⟨⟨0, 0⟩⟩

/-- memoised `dft2At` / `idft2ReAt` on the whole cell: the roots of unity are tabulated once -/
def fwdTab (M N : Nat) (im : Nat → Nat → Float) : Tab (Cx Float) :=
  let wM := Tab.make 1 M (fun _ a => (root M (-1) (a : Int) : Cx Float))
  let wN := Tab.make 1 N (fun _ a => (root N (-1) (a : Int) : Cx Float))
  Tab.make M N (dft2AtW M N (wM.get 0) (wN.get 0) im)

def invReTab (M N : Nat) (G : Nat → Nat → Cx Float) : Tab Float :=
  let wM := Tab.make 1 M (fun _ a => (root M 1 (a : Int) : Cx Float))
  let wN := Tab.make 1 N (fun _ a => (root N 1 (a : Int) : Cx Float))
  Tab.make M N (idft2ReAtW M N (wM.get 0) (wN.get 0) G)

def ratToJson (q : Rat) : Json := Json.str s!"{q.num}/{q.den}"

def ratOfJson (j : Json) : Except String Rat := do
  match j with
  | .num n => if n.exponent == 0 then pure (n.mantissa : Rat) else throw "rat: non-integer number"
  | .str s =>
      match s.splitOn "/" with
      | [a] => match a.toInt? with | some i => pure (i : Rat) | none => throw "rat"
      | [a, b] => match a.toInt?, b.toNat? with
          | some i, some d => if d == 0 then throw "rat: den 0" else pure ((i : Rat) / (d : Rat))
          | _, _ => throw "rat"
      | _ => throw "rat"
  | _ => throw "rat"

def natJ (n : Nat) : Json := Json.num (JsonNumber.fromNat n)
def intJ (n : Int) : Json := Json.num (JsonNumber.fromInt n)
def fl (x : Float) : Json := floatToJson x

def matToJson {α : Type} (enc : α → Json) (M N : Nat) (f : Nat → Nat → α) : Json :=
  Json.arr ((List.range M).map fun i => Json.arr ((List.range N).map fun j => enc (f i j)).toArray).toArray

def matOf {α : Type} [Inhabited α] (dec : Json → Except String α) (j : Json) : Except String (Nat × Nat × (Nat → Nat → α)) := do
  let rows ← j.getArr?
  let rs ← rows.toList.mapM fun r => do
    let xs ← r.getArr?
    xs.toList.mapM dec
  let M := rs.length
  let N := (rs.head?.map List.length).getD 0
  if rs.any (fun r => r.length != N) then throw "ragged matrix" else
  let a : Array α := (rs.flatten).toArray
  pure (M, N, fun i j => a[i * N + j]!)

/-- canvas shape, initial knots and per-pixel coordinates (Float) -/
def opCoords (j : Json) : Except String Json := do
  let H ← natField j "H"
  let W ← natField j "W"
  let nk ← natField j "nk"
  let pad ← floatOfJson (← field j "pad")
  let deg ← floatOfJson (← field j "deg")
  let Hc := (canvasDim H pad).toNat
  let Wc := (canvasDim W pad).toNat
  let sc : Scan Float := scanOfDegrees deg
  let knots := Json.arr ((List.range H).map fun r => Json.arr ((List.range nk).map fun k =>
      let p := initialKnot Hc Wc H W nk sc r k
      Json.arr #[fl p.1, fl p.2]).toArray).toArray
  pure (Json.mkObj [("canvas", Json.arr #[intJ (canvasDim H pad), intJ (canvasDim W pad)]),
    ("scan", Json.arr #[fl sc.f0, fl sc.f1, fl sc.s0, fl sc.s1]),
    ("knots", knots),
    ("xa", matToJson fl H W fun r c => (coords Hc Wc H W nk sc r c).1),
    ("ya", matToJson fl H W fun r c => (coords Hc Wc H W nk sc r c).2)])

/-- exact raw weight map of a list of points with rational coordinates -/
def opSplat (j : Json) : Except String Json := do
  let rows ← natField j "rows"
  let cols ← natField j "cols"
  let pts ← (← arrField j "pts").toList.mapM fun p => do
    let a ← p.getArr?
    if a.size != 2 then throw "pt" else
    pure ((← ratOfJson a[0]!), (← ratOfJson a[1]!))
  let arr := pts.toArray
  let pt : Nat → Rat × Rat := fun p => arr[p]!
  pure (Json.mkObj [("w", matToJson ratToJson rows cols (weightMapAt rows cols arr.size pt))])

/-- the batch loop of `bilinear_kde` as written (Model/DriftBatch.lean): slices of `generate_batches` and the weight map
accumulated slice by slice; `batch` = -1 stands for `max_batch_size=None` -/
def opSplatBatched (j : Json) : Except String Json := do
  let rows ← natField j "rows"
  let cols ← natField j "cols"
  let b ← intField j "batch"
  let mb : Option Nat := if b < 0 then none else some b.toNat
  let pts ← (← arrField j "pts").toList.mapM fun p => do
    let a ← p.getArr?
    if a.size != 2 then throw "pt" else
    pure ((← ratOfJson a[0]!), (← ratOfJson a[1]!))
  let arr := pts.toArray
  let pt : Nat → Rat × Rat := fun p => arr[p]!
  match kdeBatches arr.size mb with
  | none => pure (Json.mkObj [("raises", Json.bool true)])
  | some bs =>
    pure (Json.mkObj [("raises", Json.bool false),
      ("batches", Json.arr (bs.map fun q => Json.arr #[natJ q.1, natJ q.2]).toArray),
      ("w", matToJson ratToJson rows cols (weightMapBatched rows cols bs pt))])

/-- `utils.generate_batches(n, max_batch=mb)` alone -/
def opBatches (j : Json) : Except String Json := do
  let n ← natField j "n"
  let mb ← natField j "mb"
  match subdivideBatches n mb with
  | none => pure (Json.mkObj [("raises", Json.bool true)])
  | some sizes => pure (Json.mkObj [("raises", Json.bool false),
      ("batches", Json.arr ((generateBatches sizes 0).map fun q => Json.arr #[natJ q.1, natJ q.2]).toArray)])

/-- C13's NumPy estimator (`fft_input=True, fft_output=True`) as the registration routine of
`align_translation` (Float) -/
def regNp (M N up : Nat) (ms : Option Float) : Reg Float := fun Fr Fi =>
  let F_t := Tab.make M N (ccF Fr Fi)
  let F := F_t.get
  let raw_t := invReTab M N F      -- cc_real = real(ifft2(F_ref * conj(F_im)))
  let raw := raw_t.get
  let cs_t := Tab.make M N (masked M N ms raw)
  let cs := cs_t.get
  let shift : Float × Float :=
    if up ≤ 1 then shiftNp1 M N cs raw
    else
      let k := coarseNp M N cs raw
      let P := sideNp up
      let Kr_t := Tab.make P M (fun u q => kern M up 1 (posNp up k.x u) q)
      let Kc_t := Tab.make P N (fun v l => kern N up 1 (posNp up k.y v) l)
      let T_t := Tab.make P N (fun u l => rowStageK M (Kr_t.get u) F l)
      let p_t := Tab.make P P (fun u v => colStageK N (T_t.get u) (Kc_t.get v))
      let s := upsampledNpOf up k.x k.y p_t.get
      (centre s.1 M, centre s.2 N)
  let G_t := Tab.make M N (rampAt M N Fi shift.1 shift.2)
  (shift, G_t.get)

/-- `align_translation`: measured shifts before and after mean removal -/
def opAlign (j : Json) : Except String Json := do
  let up ← natField j "up"
  let ms ← match j.getObjVal? "max_shift" with
    | .ok .null => pure none
    | .ok v => do pure (some (← floatOfJson v))
    | .error _ => pure none
  let imgsJ ← arrField j "imgs"
  let imgs ← imgsJ.toList.mapM fun m => matOf floatOfJson m
  match imgs with
  | [] => throw "no images"
  | (M, N, _) :: _ =>
    -- tables first (data, evaluated once), then read back as functions
    let tabs : List (Tab (Cx Float)) := imgs.map fun (_, _, f) => fwdTab M N f
    let fs : List (FImg Float) := tabs.map fun t => t.get
    let raw := alignShifts (regNp M N up ms) fs
    let d := removeMean raw
    let enc (l : List (Float × Float)) := Json.arr (l.map fun v => Json.arr #[fl v.1, fl v.2]).toArray
    pure (Json.mkObj [("raw", enc raw), ("dxy", enc d)])

/-! ### session ops: one `DriftCorrection` object as a state machine (Model/DriftSession.lean) -/

def numArgOf (j : Json) : Except String (NumArg Float) :=
  match j with
  | .str "nan" => pure .nan
  | .str "inf" => pure .inf
  | .str "badStr" => pure .badStr
  | .str "none" => pure .none
  | _ => do pure (.num (← floatOfJson (← field j "num")))

def padArgOf (j : Json) : Except String (PadArg Float) :=
  match j with
  | .str "nan" => pure .numNan
  | .str "other" => pure .other
  | _ =>
    match j.getObjVal? "str" with
    | .ok v => do pure (.str (← v.getStr?))
    | .error _ =>
      match j.getObjVal? "list" with
      | .ok v => do
          let items ← (← v.getArr?).toList.mapM fun b => do pure (if (← b.getBool?) then PadItem.number else PadItem.other)
          pure (.list items)
      | .error _ => do pure (.num (← floatOfJson (← field j "num")))

def regArgOf (j : Json) (k : String) : RegArg :=
  match j.getObjVal? k with
  | .ok (.str "bad") => .bad
  | _ => .good

def pairsOf (j : Json) : Except String (List (Float × Float)) := do
  (← j.getArr?).toList.mapM fun p => do
    let a ← p.getArr?
    if a.size != 2 then throw "pair" else pure ((← floatOfJson a[0]!), (← floatOfJson a[1]!))

def errName : Err → String
  | .valueError => "ValueError" | .typeError => "TypeError" | .indexError => "IndexError"
  | .overflowError => "OverflowError" | .fault => "Fault"

def outcomeJ : Outcome → Json
  | .ok => Json.str "ok"
  | .raised e => Json.str (errName e)

def flJ : Option (Fl Float) → Json
  | none => Json.null
  | some (.fin x) => fl x
  | some .nan => Json.str "nan"
  | some .inf => Json.str "inf"

/-- canvas, knots `(rows, nk, 2)` and — for 1..4 knots — the coordinates `transform_coordinates(knots)` of every image -/
def dumpSt (s : St Float) : Json :=
  let g := match s.geom with
    | none => Json.null
    | some g => Json.mkObj [("canvas", Json.arr #[natJ g.Hc, natJ g.Wc]),
        ("imgs", Json.arr (g.imgs.map fun im => Json.mkObj [
          ("H", natJ im.H), ("W", natJ im.W), ("nk", natJ im.nk),
          ("knots", Json.arr ((List.range im.H).map fun r => Json.arr ((List.range im.nk).map fun k =>
              Json.arr #[fl (im.knots r k).1, fl (im.knots r k).2]).toArray).toArray),
          ("xa", if 1 ≤ im.nk ∧ im.nk ≤ 4 then matToJson fl im.H im.W fun r c => (coordsOf im r c).1 else Json.null),
          ("ya", if 1 ≤ im.nk ∧ im.nk ≤ 4 then matToJson fl im.H im.W fun r c => (coordsOf im r c).2 else Json.null)]).toArray)]
  Json.mkObj [("geom", g), ("pad_fraction", flJ s.attrs.padFraction), ("kde_sigma", flJ s.attrs.kdeSigma),
    ("number_knots", match s.attrs.nk with | none => Json.null | some k => natJ k),
    ("warped_valid", Json.bool s.warpedValid), ("err_rows", natJ s.errRows)]

/-- the knots of the session are frozen into a table after every op (memoisation only) -/
def freeze (s : St Float) : St Float :=
  match s.geom with
  | none => s
  | some g =>
    { s with geom := some { g with imgs := g.imgs.map fun im =>
        let t := Tab.make im.H (max im.nk 1) (fun r k => im.knots r k)
        { im with knots := fun r k => t.get r k } } }

instance : Inhabited (Float × Float) := ⟨(0, 0)⟩

def sessionOp (st : Option (St Float)) (op : String) (j : Json) : Except String (Option (St Float) × Json) := do
  if op == "s_new" then
    let shapes ← (← arrField j "shapes").toList.mapM fun p => do
      let a ← natList p
      match a with
      | [h, w] => pure (h, w)
      | _ => throw "shape"
    let angles ← floatList (← field j "angles")
    let s : St Float := fromData shapes angles
    pure (some s, Json.mkObj [("outcome", Json.str "ok"), ("state", dumpSt s)])
  else
  let s ← match st with
    | some s => pure s
    | none => throw "no session"
  let (s', o) ← (do
    if op == "s_set_angles" then
      pure (step s (.setAngles (← floatList (← field j "angles"))))
    else if op == "s_preprocess" then
      pure (step s (.preprocess (← numArgOf (← field j "pad")) (← padArgOf (← field j "pad_value"))
        (← numArgOf (← field j "sigma")) (← numArgOf (← field j "nk"))))
    else if op == "s_align_translation" then
      let mn ← match j.getObjVal? "min_shift" with
        | .ok .null => pure none
        | .ok v => do pure (some (← floatOfJson v))
        | .error _ => pure none
      pure (step s (.alignTranslation (regArgOf j "up") (regArgOf j "ms") mn (← boolField j "fault") (← pairsOf (← field j "raw"))))
    else if op == "s_align_affine" then
      let m : AffineMeas Float := { ind1 := ← natField j "ind1", raw1 := ← pairsOf (← field j "raw1"),
                                    ind2 := ← natField j "ind2", raw2 := ← pairsOf (← field j "raw2") }
      pure (step s (.alignAffine (← floatOfJson (← field j "step")) (← intField j "num_tests") (← boolField j "refine")
        (regArgOf j "up") (regArgOf j "ms") (← boolField j "fault") m))
    else throw s!"unknown op {op}" : Except String (St Float × Outcome))
  let s' := freeze s'
  pure (some s', Json.mkObj [("outcome", outcomeJ o), ("state", dumpSt s')])

/-- candidate drift vectors of `align_affine` (first search and refinement) -/
def opAffineCandidates (j : Json) : Except String Json := do
  let h ← natField j "h"
  let stp ← floatOfJson (← field j "step")
  let c := affineCandidates h stp
  pure (Json.mkObj [("cand", Json.arr (c.map fun v => Json.arr #[fl v.1, fl v.2]).toArray),
    ("units", Json.arr ((affineUnits h).map fun v => Json.arr #[intJ v.1, intJ v.2]).toArray)])

def step (st : Option (St Float)) (j : Json) : Option (St Float) × Json :=
  match (do
    let op ← strField j "op"
    if op.startsWith "s_" then sessionOp st op j else
    let r ← (match op with
      | "coords" => opCoords j
      | "splat" => opSplat j
      | "splatb" => opSplatBatched j
      | "batches" => opBatches j
      | "align" => opAlign j
      | "affine_candidates" => opAffineCandidates j
      | _ => throw s!"unknown op {op}")
    pure (st, r) : Except String (Option (St Float) × Json)) with
  | .ok (st', r) => (st', okJson r)
  | .error e => (st, errJson s!"driver:{e}")

end DrvC15

def main : IO Unit := QuantemModel.Proto.run (none : Option (QuantemModel.DriftSession.St Float)) DrvC15.step
