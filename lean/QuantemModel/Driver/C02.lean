import QuantemModel.Core.Proto
import QuantemModel.Model.ForwardState
open Lean QuantemModel QuantemModel.Proto QuantemModel.PtychoOps QuantemModel.Forward QuantemModel.ForwardState

/-! JSON-lines driver for Model/Forward.lean.  Floats cross as IEEE bit patterns, exact rationals
as "num/den" strings.  complex image = {"re": [[bits]], "im": [[bits]]}; real image = [[bits]];
complex flat list = {"re": [bits], "im": [bits]}. -/
namespace DrvC02

def rowsOfJson (j : Json) : Except String (List (List Float)) := do
  (← j.getArr?).toList.mapM floatList
def rowsToJson (x : List (List Float)) : Json :=
  Json.arr (x.map fun r => Json.arr (r.map floatToJson).toArray).toArray
def cflatOfJson (j : Json) : Except String (List (Cx Float)) := do
  let re ← floatList (← field j "re")
  let im ← floatList (← field j "im")
  if re.length != im.length then throw "re/im length" else
  pure (List.zipWith (fun a b => (⟨a, b⟩ : Cx Float)) re im)
def imgOfJson (j : Json) : Except String (Img Float) := do
  let re ← rowsOfJson (← field j "re")
  let im ← rowsOfJson (← field j "im")
  if re.length != im.length then throw "re/im rows" else
  pure (List.zipWith (List.zipWith fun a b => (⟨a, b⟩ : Cx Float)) re im)
def imgToJson (x : Img Float) : Json :=
  Json.mkObj [("re", rowsToJson (x.map (·.map (·.re)))), ("im", rowsToJson (x.map (·.map (·.im))))]
def imgsOfJson (j : Json) : Except String (List (Img Float)) := do
  (← j.getArr?).toList.mapM imgOfJson
def imgsToJson (xs : List (Img Float)) : Json := Json.arr (xs.map imgToJson).toArray
def rimgsOfJson (j : Json) : Except String (List (RImg Float)) := do
  (← j.getArr?).toList.mapM rowsOfJson
def rimgsToJson (xs : List (RImg Float)) : Json := Json.arr (xs.map rowsToJson).toArray
def fl (j : Json) (k : String) : Except String Float := do floatOfJson (← field j k)

def ratOfString (s : String) : Except String Rat :=
  match s.splitOn "/" with
  | [a] => match a.toInt? with
    | some n => pure (n : Rat)
    | none => throw s!"bad rational {s}"
  | [a, b] => match a.toInt?, b.toNat? with
    | some n, some d => if d == 0 then throw "zero denominator" else pure ((n : Rat) / (d : Rat))
    | _, _ => throw s!"bad rational {s}"
  | _ => throw s!"bad rational {s}"
def ratOfJson (j : Json) : Except String Rat := do ratOfString (← j.getStr?)
def ratField (j : Json) (k : String) : Except String Rat := do ratOfJson (← field j k)
def ratToJson (q : Rat) : Json := Json.str s!"{q.num}/{q.den}"
def posOfJson (j : Json) : Except String (Rat × Rat) := do
  match (← j.getArr?).toList with
  | [a, b] => pure (← ratOfJson a, ← ratOfJson b)
  | _ => throw "position must be a pair"
def positionsOfJson (j : Json) : Except String (List (Rat × Rat)) := do
  (← j.getArr?).toList.mapM posOfJson
def natJ (n : Nat) : Json := Json.num (JsonNumber.fromNat n)
def intJ (n : Int) : Json := Json.num (JsonNumber.fromInt n)
def pairF (p : Float × Float) : Json := Json.arr #[floatToJson p.1, floatToJson p.2]

def geometryOfJson (j : Json) : Except String Geometry := do
  pure { gr := ← natField j "gr", gc := ← natField j "gc",
         stepR := ← ratField j "stepR", stepC := ← ratField j "stepC",
         sampR := ← ratField j "sampR", sampC := ← ratField j "sampC",
         R0 := ← natField j "R0", R1 := ← natField j "R1",
         padR := ← natField j "padR", padC := ← natField j "padC" }

/-- transmission slices (flat) of the ground truth: complex object or real potential / phase -/
def transmissionOfJson (j : Json) : Except String (List (List (Cx Float))) := do
  let kind ← strField j "kind"
  let obj ← arrField j "obj"
  match kind with
  | "cx" => obj.toList.mapM cflatOfJson
  | "re" => do
      let s ← obj.toList.mapM floatList
      pure (transmissionReal s)
  | _ => throw s!"unknown object kind {kind}"

def lossTypeOfString : String → Except String LossType
  | "l2_amplitude" => pure .l2Amplitude
  | "l1_amplitude" => pure .l1Amplitude
  | "l2_intensity" => pure .l2Intensity
  | "l1_intensity" => pure .l1Intensity
  | s => throw s!"unknown loss type {s}"

def comFitOfString : String → Except String ComFit
  | "no_shift" => pure .noShift
  | "constant" => pure .constant
  | s => throw s!"unknown fit {s}"

/-! state machines of Model/ForwardState.lean -/
def thickArgOfJson (j : Json) : Except String (ThickArg Float) := do
  match (← strField j "form") with
  | "none" => pure .none
  | "scalar" => pure (.scalar (← fl j "value"))
  | "seq" => pure (.seq (← floatList (← field j "value")))
  | f => throw s!"unknown thickness form {f}"

def thickOpOfJson (j : Json) : Except String (ThickOp Float) := do
  match (← strField j "kind") with
  | "ptycho" => pure (.assignPtycho (← thickArgOfJson j))
  | "obj" => pure (.assignObj (← thickArgOfJson j))
  | "rebuild" => pure .rebuild
  | k => throw s!"unknown thickness op {k}"

/-- trace with the propagators: after every call `(raised, thicknesses, propagators)` -/
def slabTrace (g : PropGeom Float) : Slab Float → List (ThickOp Float) → List Json
  | _, [] => []
  | s, op :: ops =>
    let r := s.step g op
    Json.mkObj [("raised", Json.bool r.2), ("thick", Json.arr (r.1.thick.map floatToJson).toArray),
                ("props", imgsToJson r.1.props)] :: slabTrace g r.1 ops

def stackNameOfString : String → Except String StackName
  | "centered_amplitudes" => pure .centredAmp
  | "amplitudes" => pure .amp
  | "centered_intensities" => pure .centredInt
  | "intensities" => pure .int
  | s => throw s!"unknown stack {s}"

def stacksOfJson (j : Json) : Except String (Stacks Nat) := do
  pure { centredAmp := ← natField j "centered_amplitudes", amp := ← natField j "amplitudes",
         centredInt := ← natField j "centered_intensities", int := ← natField j "intensities" }

/-- `"amplitude" in loss_type`, else `"intensity" in loss_type or loss_type == "poisson"` — evaluated on the
string itself, as `_set_targets` does -/
def hasSub (s sub : String) : Bool := (s.splitOn sub).length > 1
def lossFamilyOfString (s : String) : LossFamily :=
  if hasSub s "amplitude" then .amplitude
  else if hasSub s "intensity" || s == "poisson" then .intensity
  else .unknown

def tOpOfJson (j : Json) : Except String (TOp Nat) := do
  match (← strField j "kind") with
  | "preprocess" => pure (.preprocess (← stacksOfJson (← field j "stacks")))
  | "preprocess_rejected" => pure .preprocessRejected
  | "set_targets" => pure (.setTargets (lossFamilyOfString (← strField j "loss_type")))
  | "assign_stack" => pure (.assignStack (← stackNameOfString (← strField j "name")) (← natField j "id") (← boolField j "ok"))
  | "set_fit_descan" => pure (.setFitDescan (← boolField j "value"))
  | k => throw s!"unknown targets op {k}"

def posOpOfJson (j : Json) : Except String PosOp := do
  match (← strField j "kind") with
  | "assign" => pure (.assign (← positionsOfJson (← field j "positions")))
  | "assign_bad_shape" => pure (.assignBadShape (← natField j "rows"))
  | "forward" => pure .forward
  | "refresh" => pure .refresh
  | k => throw s!"unknown position op {k}"

def posJson (ps : List (Rat × Rat)) : Json := Json.arr (ps.map fun p => Json.arr #[ratToJson p.1, ratToJson p.2]).toArray
def idxJson (idx : List (List (List Nat))) : Json :=
  Json.arr (idx.map fun m => Json.arr (m.map fun r => Json.arr (r.map natJ).toArray).toArray).toArray

def posTrace : PosState → List PosOp → List Json
  | _, [] => []
  | s, op :: ops =>
    let r := s.step op
    let o := r.1.observe
    Json.mkObj [("raised", Json.bool r.2), ("pos", posJson r.1.pos), ("frac", posJson o.2), ("idx", idxJson o.1)]
      :: posTrace r.1 ops

def step (st : Unit) (j : Json) : Unit × Json :=
  match (do
    let op ← strField j "op"
    match op with
    | "round" =>
        let q ← ratField j "q"
        pure (okJson (intJ (roundHalfEven q)))
    | "geometry" =>
        let g ← geometryOfJson j
        pure (okJson (Json.mkObj [
          ("crop", Json.arr #[natJ (cropShapeAxis g.gr g.stepR g.sampR), natJ (cropShapeAxis g.gc g.stepC g.sampC)]),
          ("pad", Json.arr #[natJ g.padUsedR, natJ g.padUsedC]),
          ("shape", Json.arr #[natJ g.H, natJ g.W]),
          ("positions", Json.arr ((scanPositions g).map fun p => Json.arr #[ratToJson p.1, ratToJson p.2]).toArray)]))
    | "positions_general" =>
        let gr ← natField j "gr"
        let gc ← natField j "gc"
        let tp ← boolField j "transpose"
        let ps : List (Float × Float) := scanPositionsGeneral gr gc (← fl j "stepR") (← fl j "stepC") (← fl j "sampR") (← fl j "sampC")
          (← fl j "padR") (← fl j "padC") (← fl j "angle") tp
        pure (okJson (Json.arr (ps.map pairF).toArray))
    | "indices" =>
        let pos ← positionsOfJson (← field j "positions")
        let R0 ← natField j "R0"
        let R1 ← natField j "R1"
        let H ← natField j "H"
        let W ← natField j "W"
        pure (okJson (Json.arr (pos.map fun p => Json.mkObj [
          ("round", Json.arr #[intJ (roundHalfEven p.1), intJ (roundHalfEven p.2)]),
          ("frac", Json.arr #[ratToJson (fracPos p.1), ratToJson (fracPos p.2)]),
          ("idx", Json.arr ((patchIndices2 p.1 p.2 R0 R1 H W).map fun r => Json.arr (r.map natJ).toArray).toArray)]).toArray))
    | "simulate" =>
        -- the independent reference implementation: Spec.simulate executed at Float
        let H ← natField j "H"
        let W ← natField j "W"
        let R0 ← natField j "R0"
        let R1 ← natField j "R1"
        let t ← transmissionOfJson j
        let probesC ← imgsOfJson (← field j "probes")
        let dzs ← floatList (← field j "dz")
        let pos ← positionsOfJson (← field j "positions")
        let ks := Spec.kernels R0 R1 (← fl j "dr") (← fl j "dc") (← fl j "energy") dzs
        pure (okJson (rimgsToJson (Spec.simulate H W R0 R1 t probesC ks pos)))
    | "forward" =>
        -- the model of the library's pipeline (library conventions: corner-centred probes)
        let H ← natField j "H"
        let W ← natField j "W"
        let R0 ← natField j "R0"
        let R1 ← natField j "R1"
        let t ← transmissionOfJson j
        let probes ← imgsOfJson (← field j "probes")
        let dzs ← floatList (← field j "dz")
        let pos ← positionsOfJson (← field j "positions")
        let props := propagatorArrays R0 R1 (← fl j "dr") (← fl j "dc") (← fl j "energy") 0.0 0.0 t.length dzs
        let detail ← natList (fieldD j "detail" (Json.arr #[]))
        let pats := forward H W R0 R1 t probes props pos
        let det := detail.map fun i =>
          let p := clipPosition H W (pos.getD i (0, 0))
          let idx2 := patchIndices2 p.1 p.2 R0 R1 H W
          Json.mkObj [("i", natJ i),
            ("shifted", imgsToJson (probeForward probes (Num.ofRat (fracPos p.1)) (Num.ofRat (fracPos p.2)))),
            ("patches", imgsToJson (objPatches t idx2))]
        pure (okJson (Json.mkObj [("patterns", rimgsToJson pats), ("detail", Json.arr det.toArray)]))
    | "preprocess" =>
        let Is ← rimgsOfJson (← field j "patterns")
        let mode ← comFitOfString (← strField j "fit")
        let R0 ← natField j "R0"
        let R1 ← natField j "R1"
        let c := comFit mode Is R0 R1
        pure (okJson (Json.mkObj [
          ("com_measured", Json.arr ((Is.map comMeasured).map pairF).toArray),
          ("com_fit", pairF c),
          ("descan", pairF (descanShift c.1 R0, descanShift c.2 R1)),
          ("mean_intensity", floatToJson (meanDiffractionIntensity Is)),
          ("amplitudes", rimgsToJson (Is.map fun I => centredAmplitude I c.1 c.2)),
          ("intensities", rimgsToJson (Is.map fun I => centredIntensity I c.1 c.2))]))
    | "loss" =>
        let lt ← lossTypeOfString (← strField j "loss_type")
        let preds ← rimgsOfJson (← field j "preds")
        let targets ← rimgsOfJson (← field j "targets")
        let mask ← rowsOfJson (← field j "mask")
        let n ← natField j "num_gpts"
        pure (okJson (floatToJson (lossBatch lt preds targets mask n (← fl j "mean_intensity"))))
    | "thick_history" =>
        let n ← natField j "num_slices"
        let g : PropGeom Float := { nr := ← natField j "R0", nc := ← natField j "R1", sr := ← fl j "dr", sc := ← fl j "dc", energy := ← fl j "energy" }
        let th ← floatList (← field j "thick")
        let ops ← (← arrField j "ops").toList.mapM thickOpOfJson
        let s0 : Slab Float := { numSlices := n, thick := th, props := g.build n th }
        pure (okJson (Json.arr (slabTrace g s0 ops).toArray))
    | "thick_value" =>
        let n ← natField j "num_slices"
        match thickValue n (← thickArgOfJson j) with
        | .ok th => pure (okJson (Json.mkObj [("stored", Json.arr (th.map floatToJson).toArray)]))
        | .error e => pure (okJson (Json.mkObj [("raises", Json.str e)]))
    | "targets_history" =>
        let st ← stacksOfJson (← field j "stacks")
        let ops ← (← arrField j "ops").toList.mapM tOpOfJson
        let s0 : TState Nat := { stacks := st, targets := ← natField j "targets", fitDescan := ← boolField j "fit_descan" }
        pure (okJson (Json.arr ((s0.trace ops).map fun r => Json.mkObj [("raised", Json.bool r.1), ("targets", natJ r.2)]).toArray))
    | "index_history" =>
        let pos ← positionsOfJson (← field j "positions")
        let H ← natField j "H"
        let W ← natField j "W"
        let R0 ← natField j "R0"
        let R1 ← natField j "R1"
        let ops ← (← arrField j "ops").toList.mapM posOpOfJson
        let s0 : PosState := { H := H, W := W, R0 := R0, R1 := R1, n := pos.length, pos := pos, last := pos, idx := indicesOf H W R0 R1 pos }
        pure (okJson (Json.arr (posTrace s0 ops).toArray))
    | _ => throw s!"unknown op {op}" : Except String Json) with
  | .ok r => (st, r)
  | .error e => (st, errJson s!"driver:{e}")

end DrvC02

def main : IO Unit := QuantemModel.Proto.run () DrvC02.step
