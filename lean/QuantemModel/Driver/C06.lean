import QuantemModel.Model.DatasetProto
import QuantemModel.Model.ResampleArgs
open Lean QuantemModel QuantemModel.Proto QuantemModel.Nd QuantemModel.Dataset QuantemModel.Resample
open QuantemModel.ResampleArgs

/-
C06 driver.  Exact operations (bin / pad / crop on integer data, calibration of every
operation) go through the same model entry points as C03 (`Dataset.fromArray`, `Dataset.step`,
which compose Model/Resample.lean exactly as dataset.py composes its pieces); the Fourier
path runs `Resample.resampleNd` at `Float`; `freqmap` returns the executable index map.
-/
namespace DrvC06

def natOpt : Option Nat → Json
  | none => Json.null
  | some k => Json.num (JsonNumber.fromNat k)

/-- a scalar Python argument: null, true/false, an integer, {"f": rational}, {"np": integer}, {"s": string}, "other" -/
def scOfJson (j : Json) : Except String Sc :=
  match j with
  | .null => pure .none
  | .bool b => pure (.bool b)
  | .str _ => pure .other
  | .num _ => do pure (.int (← j.getInt?))
  | _ => match j.getObjVal? "f" with
    | .ok v => do pure (.float (← DrvC03.ratOfJson v))
    | .error _ => match j.getObjVal? "np" with
      | .ok v => do pure (.npInt (← v.getInt?))
      | .error _ => do pure (.str (← strField j "s"))

def pyOfJson (j : Json) : Except String Py :=
  match j.getObjVal? "t" with
  | .ok v => do pure (.tuple (← (← v.getArr?).toList.mapM scOfJson))
  | .error _ => match j.getObjVal? "l" with
    | .ok v => do pure (.list (← (← v.getArr?).toList.mapM scOfJson))
    | .error _ => do pure (.sc (← scOfJson j))

def optPy (j : Json) (k : String) (d : Py) : Except String Py :=
  match j.getObjVal? k with
  | .ok v => pyOfJson v
  | .error _ => pure d

def modeOfJson (j : Json) : Except String PadMode :=
  match j with
  | .str "edge" => pure (.rule .edge)
  | .str "wrap" => pure (.rule .wrap)
  | .str "reflect" => pure (.rule .reflect)
  | .str "symmetric" => pure (.rule .symmetric)
  | _ => do
    let a ← arrField j "constant"
    if a.size != 2 then throw "constant" else
    pure (.constant ⟨← DrvC03.ratOfJson a[0]!, ← DrvC03.ratOfJson a[1]!⟩)

/-- a call with only the keywords the caller wrote: what is absent keeps the default of the signature
(the structure field defaults of Model/ResampleArgs.lean) -/
def callOfJson (j : Json) : Except String Call := do
  let m ← strField j "m"
  let ip := (boolField j "inplace").toOption
  match m with
  | "bin" =>
      let c : BinCall := { factors := ← pyOfJson (← field j "f") }
      let c := { c with axes := ← optPy j "axes" c.axes }
      let c := match ip with | some b => { c with inplace := b } | none => c
      let c ← match j.getObjVal? "reducer" with
        | .ok v => do pure { c with reducer := ← scOfJson v }
        | .error _ => pure c
      pure (.bin c)
  | "crop" =>
      let ws ← (← arrField j "widths").toList.mapM DrvC03.pairOfJson
      let c : CropCall := { widths := ws }
      let c := { c with axes := ← optPy j "axes" c.axes }
      let c := match ip with | some b => { c with inplace := b } | none => c
      pure (.crop c)
  | "resample" =>
      let c : RsCall := {}
      let c := { c with outShape := ← optPy j "out" c.outShape, factors := ← optPy j "fs" c.factors,
                        axes := ← optPy j "axes" c.axes }
      let c := match ip with | some b => { c with inplace := b } | none => c
      pure (.resample c)
  | "pad" =>
      let arg ← DrvC03.padOfJson (← field j "arg")
      let mode ← match j.getObjVal? "mode" with
        | .ok v => modeOfJson v
        | .error _ => pure (PadMode.constant ⟨0, 0⟩)
      pure (.pad arg mode (ip.getD false))
  | _ => throw s!"unknown method {m}"

def step (_ : Unit) (j : Json) : Unit × Json :=
  match (do
    let op ← strField j "op"
    match op with
    | "exact" =>
        -- {"new": <C03 new request>, "ops": [<C03 op requests>]} → state after each op
        let new ← field j "new"
        let (st, r0) := DrvC03.step {} new
        let ops ← arrField j "ops"
        let mut cur := st
        let mut outs : Array Json := #[r0]
        for o in ops do
          let (st', r) := DrvC03.step cur o
          cur := st'
          outs := outs.push r
        pure (Json.arr outs)
    | "calls" =>
        -- {"new": <C03 new request>, "calls": [<call>…]} → outcome and receiver after every call
        -- (a call that raises leaves the object as it was: `ResampleArgs.stepObj`)
        let new ← field j "new"
        let (st, r0) := DrvC03.step {} new
        match st.cur with
        | none => pure (Json.arr #[r0])
        | some d0 =>
          let mut cur := d0
          let mut outs : Array Json := #[r0]
          for cj in (← arrField j "calls") do
            let c ← callOfJson cj
            let follow := (boolField cj "follow").toOption.getD false
            match ResampleArgs.call cur c with
            | .error e =>
                outs := outs.push (Json.mkObj [("r", errJson (DrvC03.errName e)), ("recv", DrvC03.dsToJson cur)])
            | .ok (d', r) =>
                let rj := match r with | none => Json.null | some x => DrvC03.dsToJson x
                outs := outs.push (Json.mkObj [("r", okJson rj), ("recv", DrvC03.dsToJson d')])
                cur := match follow, r with | true, some x => x | _, _ => d'
          pure (Json.arr outs)
    | "resample" =>
        let shape ← natList (← field j "shape")
        let re ← floatList (← field j "re")
        let im ← match fieldD j "im" Json.null with
          | .null => pure (re.map fun _ => (0.0 : Float))
          | imj => floatList imj
        let axes ← natList (← field j "axes")
        let outs ← natList (← field j "outs")
        let isReal ← boolField j "real"
        let a : Arr (Cx Float) := ⟨shape, List.zipWith (fun x y => (⟨x, y⟩ : Cx Float)) re im⟩
        let r := resampleNd a axes outs isReal
        pure (Json.mkObj [("shape", Json.arr (r.shape.map fun n => Json.num (JsonNumber.fromNat n)).toArray),
                          ("re", Json.arr (r.data.map fun z => floatToJson z.re).toArray),
                          ("im", Json.arr (r.data.map fun z => floatToJson z.im).toArray)])
    | "freqmap" =>
        let n ← natField j "n"
        let m ← natField j "m"
        pure (Json.arr ((freqMap n m).map natOpt).toArray)
    | _ => throw s!"unknown op {op}" : Except String Json) with
  | .ok r => ((), okJson r)
  | .error e => ((), errJson s!"driver:{e}")

end DrvC06

def main : IO Unit := QuantemModel.Proto.run () DrvC06.step
