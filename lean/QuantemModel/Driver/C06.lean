import QuantemModel.Model.DatasetProto
open Lean QuantemModel QuantemModel.Proto QuantemModel.Nd QuantemModel.Dataset QuantemModel.Resample

/-
C06 driver.  Exact operations (bin / pad / crop on integer data, calibration of every
operation) go through the same model entry points as C03 (`Dataset.fromArray`, `Dataset.step`,
which compose Model/Resample.lean exactly as dataset.py composes its pieces); the Fourier
path runs `Resample.resampleNd` at `Float`; `freqmap` returns the executable index map.
-/
namespace DrvC06

def natOpt : Option Nat → Json
  | none => Json.null
  | some k => Json.num (JsonNumber.fromNat k)

def step (_ : Unit) (j : Json) : Unit × Json :=
  match (do
    let op ← strField j "op"
    match op with
    | "exact" =>
        -- {"new": <C03 new request>, "ops": [<C03 op requests>]} → state after each op
        let new ← field j "new"
        let (st, r0) := DrvC03.step {} new
        let ops ← arrField j "ops"
        let mut cur := st
        let mut outs : Array Json := #[r0]
        for o in ops do
          let (st', r) := DrvC03.step cur o
          cur := st'
          outs := outs.push r
        pure (Json.arr outs)
    | "resample" =>
        let shape ← natList (← field j "shape")
        let re ← floatList (← field j "re")
        let im ← match fieldD j "im" Json.null with
          | .null => pure (re.map fun _ => (0.0 : Float))
          | imj => floatList imj
        let axes ← natList (← field j "axes")
        let outs ← natList (← field j "outs")
        let isReal ← boolField j "real"
        let a : Arr (Cx Float) := ⟨shape, List.zipWith (fun x y => (⟨x, y⟩ : Cx Float)) re im⟩
        let r := resampleNd a axes outs isReal
        pure (Json.mkObj [("shape", Json.arr (r.shape.map fun n => Json.num (JsonNumber.fromNat n)).toArray),
                          ("re", Json.arr (r.data.map fun z => floatToJson z.re).toArray),
                          ("im", Json.arr (r.data.map fun z => floatToJson z.im).toArray)])
    | "freqmap" =>
        let n ← natField j "n"
        let m ← natField j "m"
        pure (Json.arr ((freqMap n m).map natOpt).toArray)
    | _ => throw s!"unknown op {op}" : Except String Json) with
  | .ok r => ((), okJson r)
  | .error e => ((), errJson s!"driver:{e}")

end DrvC06

def main : IO Unit := QuantemModel.Proto.run () DrvC06.step
