import QuantemModel.Core.Proto
import QuantemModel.Model.Origin
open Lean QuantemModel QuantemModel.Proto QuantemModel.Origin

namespace DrvC18

/-- exact rationals cross as integers or `"num/den"` strings -/
def ratOfJson (j : Json) : Except String Rat :=
  match j with
  | .str s =>
      match s.splitOn "/" with
      | [a, b] =>
          match a.toInt?, b.toNat? with
          | some n, some d => if d == 0 then throw "den=0" else pure (mkRat n d)
          | _, _ => throw s!"bad rational {s}"
      | [a] => match a.toInt? with
          | some n => pure (n : Rat)
          | none => throw s!"bad rational {s}"
      | _ => throw s!"bad rational {s}"
  | other => do pure ((← other.getInt?) : Rat)

def ratToJson (q : Rat) : Json := Json.str s!"{q.num}/{q.den}"
def ratList (j : Json) : Except String (List Rat) := do (← j.getArr?).toList.mapM ratOfJson

def pairToJson (p : Rat × Rat) : Json := Json.arr #[ratToJson p.1, ratToJson p.2]
def gridToJson (g : List (List Rat)) : Json := Json.arr (g.map (fun r => Json.arr (r.map ratToJson).toArray)).toArray

/-- split a flat list into consecutive pieces of length `k` -/
def pieces {α : Type} (k : Nat) (l : List α) : List (List α) := Batcher.chunks k l

def toPatterns (h w : Nat) (flat : List Rat) : List (Pattern Rat) := (pieces (h * w) flat).map (pieces w)

def step (st : Unit) (j : Json) : Unit × Json :=
  match (do
    let op ← strField j "op"
    match op with
    | "com" =>
        let sr ← natField j "sr"
        let sc ← natField j "sc"
        let h ← natField j "h"
        let w ← natField j "w"
        let b ← natField j "b"
        let data ← ratList (← field j "data")
        if h == 0 || w == 0 || sc == 0 || b == 0 then throw "degenerate shape" else
        let mask : Option (Pattern Rat) ← match j.getObjVal? "mask" with
          | .ok .null => pure none
          | .ok m => do pure (some (pieces w (← ratList m)))
          | .error _ => pure none
        let t3 := toPatterns h w data
        let i4 := pieces sc t3
        let _ := sr
        let torch := comTorchBatched b h w t3
        let vec := comNumpyVectorised mask h w i4
        let loop := comNumpyLooped mask h w i4
        pure ((), okJson (Json.mkObj [
          ("torch", Json.arr (torch.map (fun o => match o with | some p => pairToJson p | none => Json.null)).toArray),
          ("vec", Json.arr #[gridToJson vec.1, gridToJson vec.2]),
          ("loop", Json.arr #[gridToJson loop.1, gridToJson loop.2])]))
    | "fit_constant" =>
        -- binary64: torch mean(0) over all patterns, and the numpy per-component mean * ones
        let o ← (← arrField j "o").toList.mapM (fun p => do
          let l ← floatList p
          match l with
          | [a, b] => pure (a, b)
          | _ => throw "pair")
        let sc ← natField j "sc"
        if sc == 0 then throw "sc=0" else
        let t := fitConstantTorch o
        let nr := fitConstantNumpy (pieces sc (o.map (·.1)))
        let nc := fitConstantNumpy (pieces sc (o.map (·.2)))
        pure ((), okJson (Json.mkObj [
          ("torch", Json.arr (t.map (fun p => Json.arr #[floatToJson p.1, floatToJson p.2])).toArray),
          ("numpy_r", Json.arr (nr.flatten.map floatToJson).toArray),
          ("numpy_c", Json.arr (nc.flatten.map floatToJson).toArray)]))
    | "fit_plane" =>
        let nx ← natField j "nx"
        let ny ← natField j "ny"
        let z ← floatList (← field j "z")
        let nrm ← floatList (← field j "nrm")
        match nrm with
        | [a, b, c] =>
            let pos : List (Float × Float) := rasterPositions nx ny
            pure ((), okJson (Json.arr ((fitPlanePCA pos z (a, b, c)).map floatToJson).toArray))
        | _ => throw "nrm"
    | "surface" =>
        -- the fitted family at the exact carrier, on the raster np.indices((nx, ny))
        let nx ← natField j "nx"
        let ny ← natField j "ny"
        let θ ← ratList (← field j "theta")
        let kind ← strField j "kind"
        let out : List Rat := match kind with
          | "constant" => List.replicate (nx * ny) (θ.getD 0 0)
          | "plane" => surfaceOnRaster .plane θ nx ny
          | "parabola" => surfaceOnRaster .parabola θ nx ny
          | _ => surfaceOnRaster .bezierTwo θ nx ny
        pure ((), okJson (Json.arr (out.map ratToJson).toArray))
    | "store_origins" =>
        -- the origin_measured / origin_fitted setters (Model/Origin.lean `storeOrigins`) on integer pairs
        let n ← natField j "n"
        let sc ← natField j "sc"
        let form ← strField j "form"
        let vals ← intList (← field j "data")
        let pairs : List (Int × Int) := (pieces 2 vals).map (fun l => (l.getD 0 0, l.getD 1 0))
        if sc == 0 then throw "sc=0" else
        let inp : OriginInput Int := match form with
          | "grid" => .grid (pieces sc pairs)
          | "pair" => .pair (pairs.headD (0, 0))
          | _ => .flat pairs
        pure ((), okJson (match storeOrigins n inp with
          | some l => Json.arr (l.map (fun p => Json.arr #[Json.num (JsonNumber.fromInt p.1), Json.num (JsonNumber.fromInt p.2)])).toArray
          | none => Json.null))
    | "shift" =>
        let h ← natField j "h"
        let w ← natField j "w"
        let b ← natField j "b"
        let data ← ratList (← field j "data")
        let coord ← ratList (← field j "coord")
        let origins ← (← arrField j "origins").toList.mapM (fun p => do
          match ← ratList p with
          | [a, c] => pure (a, c)
          | _ => throw "pair")
        if h == 0 || w == 0 || b == 0 then throw "degenerate shape" else
        match coord with
        | [cy, cx] =>
            let t3 := toPatterns h w data
            let out := shiftAllBatched b (cy, cx) h w origins t3
            pure ((), okJson (Json.arr (out.map (fun o => match o with
              | some p => Json.arr (p.flatten.map ratToJson).toArray | none => Json.null)).toArray))
        | _ => throw "coord"
    | _ => throw s!"unknown op {op}" : Except String (Unit × Json)) with
  | .ok r => r
  | .error e => (st, errJson s!"driver:{e}")

end DrvC18

def main : IO Unit := QuantemModel.Proto.run () DrvC18.step
