import QuantemModel.Core.Proto
import QuantemModel.Model.Origin
import QuantemModel.Model.OriginState
import QuantemModel.Model.OriginPrep
open Lean QuantemModel QuantemModel.Proto QuantemModel.Origin

namespace DrvC18

/-- exact rationals cross as integers or `"num/den"` strings -/
def ratOfJson (j : Json) : Except String Rat :=
  match j with
  | .str s =>
      match s.splitOn "/" with
      | [a, b] =>
          match a.toInt?, b.toNat? with
          | some n, some d => if d == 0 then throw "den=0" else pure (mkRat n d)
          | _, _ => throw s!"bad rational {s}"
      | [a] => match a.toInt? with
          | some n => pure (n : Rat)
          | none => throw s!"bad rational {s}"
      | _ => throw s!"bad rational {s}"
  | other => do pure ((← other.getInt?) : Rat)

def ratToJson (q : Rat) : Json := Json.str s!"{q.num}/{q.den}"
def ratList (j : Json) : Except String (List Rat) := do (← j.getArr?).toList.mapM ratOfJson

def pairToJson (p : Rat × Rat) : Json := Json.arr #[ratToJson p.1, ratToJson p.2]
def gridToJson (g : List (List Rat)) : Json := Json.arr (g.map (fun r => Json.arr (r.map ratToJson).toArray)).toArray

/-- split a flat list into consecutive pieces of length `k` -/
def pieces {α : Type} (k : Nat) (l : List α) : List (List α) := Batcher.chunks k l

def toPatterns (h w : Nat) (flat : List Rat) : List (Pattern Rat) := (pieces (h * w) flat).map (pieces w)


/-! ### histories on the two objects (Model/OriginState.lean), at the exact carrier -/

def rejToJson : Option Rejected → Json
  | none => Json.null
  | some .valueError => Json.str "ValueError"
  | some .runtimeError => Json.str "RuntimeError"
  | some .notImplemented => Json.str "NotImplementedError"

def optJson {α : Type} (f : α → Json) : Option α → Json
  | none => Json.null
  | some a => f a

def rawOfJson (j : Json) : Except String (RawArray Rat) := do
  let real ← boolField j "real"
  let vals ← ratList (← field j "vals")
  pure ⟨real, vals⟩

def tripleOfJson (j : Json) : Except String (Rat × Rat × Rat) := do
  match ← ratList j with
  | [a, b, c] => pure (a, b, c)
  | _ => throw "triple"

def nrmOfJson (j : Json) : Except String ((Rat × Rat × Rat) × (Rat × Rat × Rat)) := do
  match j.getObjVal? "nrm" with
  | .ok (.arr #[a, b]) => pure (← tripleOfJson a, ← tripleOfJson b)
  | _ => pure ((0, 0, 1), (0, 0, 1))

def pairOfJson (j : Json) : Except String (Rat × Rat) := do
  match ← ratList j with
  | [a, b] => pure (a, b)
  | _ => throw "pair"

def scanOfJson (j : Json) : Except String (Option (Nat × Nat)) :=
  match j.getObjVal? "scan" with
  | .ok (.arr #[a, b]) => do pure (some (← a.getNat?, ← b.getNat?))
  | _ => pure none

def methodOfStr : String → FitMethod
  | "plane" => .plane
  | "constant" => .constant
  | _ => .other

def omOpOfJson (j : Json) : Except String (OmOp Rat) := do
  match ← strField j "k" with
  | "calc" => pure (.measure (← natField j "b"))
  | "set_measured" => pure (.setMeasured (← rawOfJson j))
  | "set_fitted" => pure (.setFitted (← rawOfJson j))
  | "fit" =>
      let pos : Positions Rat ← match j.getObjVal? "pos" with
        | .ok .null => pure .inferred
        | .ok p => do pure (.explicit (← rawOfJson p))
        | .error _ => pure .inferred
      pure (.fit pos (methodOfStr (← strField j "method")) (← nrmOfJson j))
  | "shift" => pure (.shift (← pairOfJson (← field j "coord")) (← natField j "b"))
  | "set_tensor" =>
      let h ← natField j "h"
      let w ← natField j "w"
      if h == 0 || w == 0 then throw "degenerate shape" else
      pure (.setTensor (← scanOfJson j) h w (toPatterns h w (← ratList (← field j "data"))))
  | "forward" =>
      pure (.forward (← natField j "b") (methodOfStr (← strField j "method")) (← nrmOfJson j) (← pairOfJson (← field j "coord")))
  | k => throw s!"unknown om op {k}"

def pairsToJson (l : List (Rat × Rat)) : Json := Json.arr (l.map pairToJson).toArray

def omStateJson (r : Option Rejected) (s : OmState Rat) : Json := Json.mkObj [
  ("r", rejToJson r),
  ("n", Json.num (JsonNumber.fromNat s.numDps)),
  ("measured", optJson pairsToJson s.measured),
  ("fitted", optJson pairsToJson s.fitted),
  ("shifted", optJson (fun sh => Json.arr (sh.map (fun p => Json.arr (p.flatten.map ratToJson).toArray)).toArray) s.shifted)]

def dsFitOfStr : String → DsFit
  | "none" => .none
  | "no_shift" => .noShift
  | "constant" => .constant
  | _ => .other

def to4d (sc h w : Nat) (flat : List Rat) : List (List (Pattern Rat)) := pieces sc (toPatterns h w flat)

def gridsOfJson (j : Json) : Except String (Grid Rat × Grid Rat) := do
  let nc ← natField j "nc"
  if nc == 0 then throw "nc=0" else
  pure (pieces nc (← ratList (← field j "r")), pieces nc (← ratList (← field j "c")))

def dsOpOfJson (sc h w : Nat) (j : Json) : Except String (DsOp Rat) := do
  let maskOf (j : Json) : Except String (Option (Pattern Rat)) :=
    match j.getObjVal? "mask" with
    | .ok .null => pure none
    | .ok m => do
        let mw ← natField m "w"
        if mw == 0 then throw "mask w=0" else pure (some (pieces mw (← ratList (← field m "vals"))))
    | .error _ => pure none
  match ← strField j "k" with
  | "setcom" =>
      let src : DsSrc Rat ← match j.getObjVal? "src" with
        | .ok .null => pure .held
        | .ok e => do
            let eh ← natField e "h"
            let ew ← natField e "w"
            let esc ← natField e "sc"
            if eh == 0 || ew == 0 || esc == 0 then throw "degenerate external" else
            pure (.external eh ew (to4d esc eh ew (← ratList (← field e "data"))))
        | .error _ => pure .held
      pure (.setCom src (← maskOf j) (dsFitOfStr (← strField j "fit")) (← boolField j "vec"))
  | "preprocess" => pure (.preprocess (dsFitOfStr (← strField j "fit")) (← boolField j "vec"))
  | "edit" => pure (.edit (← natField j "a") (← natField j "b") (pieces w (← ratList (← field j "pat"))))
  | "assign" => pure (.assign (to4d sc h w (← ratList (← field j "data"))))
  | "set_com_measured" => pure (.setComMeasured (← gridsOfJson j))
  | "set_com_fit" => pure (.setComFit (← gridsOfJson j))
  | k => throw s!"unknown ds op {k}"

def gridsToJson (g : Grid Rat × Grid Rat) : Json := Json.arr #[gridToJson g.1, gridToJson g.2]

def dsStateJson (r : Option Rejected) (s : DsState Rat) : Json := Json.mkObj [
  ("r", rejToJson r),
  ("com_measured", optJson gridsToJson s.comMeasured),
  ("com_fit", optJson gridsToJson s.comFit)]

def step (st : Unit) (j : Json) : Unit × Json :=
  match (do
    let op ← strField j "op"
    match op with
    | "com" =>
        let sr ← natField j "sr"
        let sc ← natField j "sc"
        let h ← natField j "h"
        let w ← natField j "w"
        let b ← natField j "b"
        let data ← ratList (← field j "data")
        if h == 0 || w == 0 || sc == 0 || b == 0 then throw "degenerate shape" else
        let mask : Option (Pattern Rat) ← match j.getObjVal? "mask" with
          | .ok .null => pure none
          | .ok m => do pure (some (pieces w (← ratList m)))
          | .error _ => pure none
        let t3 := toPatterns h w data
        let i4 := pieces sc t3
        let _ := sr
        let torch := comTorchBatched b h w t3
        let vec := comNumpyVectorised mask h w i4
        let loop := comNumpyLooped mask h w i4
        pure ((), okJson (Json.mkObj [
          ("torch", Json.arr (torch.map (fun o => match o with | some p => pairToJson p | none => Json.null)).toArray),
          ("vec", Json.arr #[gridToJson vec.1, gridToJson vec.2]),
          ("loop", Json.arr #[gridToJson loop.1, gridToJson loop.2])]))
    | "fit_constant" =>
        -- binary64: torch mean(0) over all patterns, and the numpy per-component mean * ones
        let o ← (← arrField j "o").toList.mapM (fun p => do
          let l ← floatList p
          match l with
          | [a, b] => pure (a, b)
          | _ => throw "pair")
        let sc ← natField j "sc"
        if sc == 0 then throw "sc=0" else
        let t := fitConstantTorch o
        let nr := fitConstantNumpy (pieces sc (o.map (·.1)))
        let nc := fitConstantNumpy (pieces sc (o.map (·.2)))
        pure ((), okJson (Json.mkObj [
          ("torch", Json.arr (t.map (fun p => Json.arr #[floatToJson p.1, floatToJson p.2])).toArray),
          ("numpy_r", Json.arr (nr.flatten.map floatToJson).toArray),
          ("numpy_c", Json.arr (nc.flatten.map floatToJson).toArray)]))
    | "fit_plane" =>
        let nx ← natField j "nx"
        let ny ← natField j "ny"
        let z ← floatList (← field j "z")
        let nrm ← floatList (← field j "nrm")
        match nrm with
        | [a, b, c] =>
            let pos : List (Float × Float) := rasterPositions nx ny
            pure ((), okJson (Json.arr ((fitPlanePCA pos z (a, b, c)).map floatToJson).toArray))
        | _ => throw "nrm"
    | "surface" =>
        -- the fitted family at the exact carrier, on the raster np.indices((nx, ny))
        let nx ← natField j "nx"
        let ny ← natField j "ny"
        let θ ← ratList (← field j "theta")
        let kind ← strField j "kind"
        let out : List Rat := match kind with
          | "constant" => List.replicate (nx * ny) (θ.getD 0 0)
          | "plane" => surfaceOnRaster .plane θ nx ny
          | "parabola" => surfaceOnRaster .parabola θ nx ny
          | _ => surfaceOnRaster .bezierTwo θ nx ny
        pure ((), okJson (Json.arr (out.map ratToJson).toArray))
    | "store_origins" =>
        -- the origin_measured / origin_fitted setters (Model/Origin.lean `storeOrigins`) on integer pairs
        let n ← natField j "n"
        let sc ← natField j "sc"
        let form ← strField j "form"
        let vals ← intList (← field j "data")
        let pairs : List (Int × Int) := (pieces 2 vals).map (fun l => (l.getD 0 0, l.getD 1 0))
        if sc == 0 then throw "sc=0" else
        let inp : OriginInput Int := match form with
          | "grid" => .grid (pieces sc pairs)
          | "pair" => .pair (pairs.headD (0, 0))
          | _ => .flat pairs
        pure ((), okJson (match storeOrigins n inp with
          | some l => Json.arr (l.map (fun p => Json.arr #[Json.num (JsonNumber.fromInt p.1), Json.num (JsonNumber.fromInt p.2)])).toArray
          | none => Json.null))
    | "shift" =>
        let h ← natField j "h"
        let w ← natField j "w"
        let b ← natField j "b"
        let data ← ratList (← field j "data")
        let coord ← ratList (← field j "coord")
        let origins ← (← arrField j "origins").toList.mapM (fun p => do
          match ← ratList p with
          | [a, c] => pure (a, c)
          | _ => throw "pair")
        if h == 0 || w == 0 || b == 0 then throw "degenerate shape" else
        match coord with
        | [cy, cx] =>
            let t3 := toPatterns h w data
            let out := shiftAllBatched b (cy, cx) h w origins t3
            pure ((), okJson (Json.arr (out.map (fun o => match o with
              | some p => Json.arr (p.flatten.map ratToJson).toArray | none => Json.null)).toArray))
        | _ => throw "coord"
    | "centre" =>
        -- growth 6: the dataset model after its centre-of-mass stage (Model/OriginPrep.lean), amplitudes handed in
        let h ← natField j "h"
        let w ← natField j "w"
        let data ← ratList (← field j "data")
        let fits ← (← arrField j "fits").toList.mapM (fun p => do
          match ← ratList p with
          | [a, c] => pure (a, c)
          | _ => throw "pair")
        if h == 0 || w == 0 then throw "degenerate shape" else
        let amps := toPatterns h w data
        let out := centreAll h w fits amps
        pure ((), okJson (Json.mkObj [
          ("centred", Json.arr (out.map (fun p => Json.arr (p.flatten.map ratToJson).toArray)).toArray),
          ("descan", Json.arr ((List.range amps.length).map (fun i => pairToJson (descanShift h w (fits.getD i (0, 0))))).toArray)]))
    | "om_history" =>
        let h ← natField j "h"
        let w ← natField j "w"
        if h == 0 || w == 0 then throw "degenerate shape" else
        let t3 := toPatterns h w (← ratList (← field j "data"))
        let ops ← (← arrField j "ops").toList.mapM omOpOfJson
        let s0 : OmState Rat := OmState.init (← scanOfJson j) h w t3
        let (_, outs) := ops.foldl (fun (acc : OmState Rat × List Json) op =>
            let (s', r) := omStep acc.1 op
            (s', omStateJson r s' :: acc.2)) (s0, [])
        pure ((), okJson (Json.arr outs.reverse.toArray))
    | "ds_history" =>
        let sr ← natField j "sr"
        let sc ← natField j "sc"
        let h ← natField j "h"
        let w ← natField j "w"
        if h == 0 || w == 0 || sc == 0 then throw "degenerate shape" else
        let ops ← (← arrField j "ops").toList.mapM (dsOpOfJson sc h w)
        let s0 : DsState Rat := { gpts := (sr, sc), roi := (h, w), held := to4d sc h w (← ratList (← field j "data")),
                                  comMeasured := none, comFit := none }
        let (_, outs) := ops.foldl (fun (acc : DsState Rat × List Json) op =>
            let (s', r) := dsStep acc.1 op
            (s', dsStateJson r s' :: acc.2)) (s0, [])
        pure ((), okJson (Json.arr outs.reverse.toArray))
    | _ => throw s!"unknown op {op}" : Except String (Unit × Json)) with
  | .ok r => r
  | .error e => (st, errJson s!"driver:{e}")

end DrvC18

def main : IO Unit := QuantemModel.Proto.run () DrvC18.step
