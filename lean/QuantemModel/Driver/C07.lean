import QuantemModel.Core.Proto
import QuantemModel.Model.Radon
import QuantemModel.Model.RadonExt
import QuantemModel.Model.RadonExt2
open Lean QuantemModel QuantemModel.Proto QuantemModel.Radon

namespace DrvC07

def chunk (xs : List Float) (n : Nat) : List (List Float) :=
  if n = 0 then [] else
  let rec go (l : List Float) (fuel : Nat) (acc : List (List Float)) : List (List Float) :=
    match fuel with
    | 0 => acc.reverse
    | fuel + 1 => if l.isEmpty then acc.reverse else go (l.drop n) fuel (l.take n :: acc)
  go xs (xs.length + 1) []

def floatsToJson (xs : List Float) : Json := Json.arr (xs.map floatToJson).toArray

def step (st : Unit) (j : Json) : Unit × Json :=
  match (do
    let op ← strField j "op"
    let alg ← strField j "alg"
    match op with
    | "radon" =>
        let n ← natField j "n"
        let img := chunk (← floatList (← field j "img")) n
        let th ← floatList (← field j "theta")
        if img.length != n then throw "bad image" else
        -- the port as it computes: zero tensor, one row written per loop iteration (= radonTorch: radon_write_loop_refines)
        let out := if alg == "torch" then radonTorchLoop img th else radonSk img th
        pure (okJson (floatsToJson out.flatten))
    | "radon_batch" =>
        -- batched call [B][N][N] -> [B][A][N] through the batched write loop
        let n ← natField j "n"
        let b ← natField j "b"
        let imgs := (chunk (← floatList (← field j "img")) (n * n)).map fun im => chunk im n
        let th ← floatList (← field j "theta")
        if imgs.length != b then throw "bad batch" else
        pure (okJson (floatsToJson ((radonTorchBatchLoop imgs th).flatten.flatten)))
    | "filter" =>
        let size ← natField j "size"
        let name ← strField j "name"
        if alg == "torch" then
          match fourierFilterTorchE (R := Float) size name with
          | .ok f => pure (okJson (floatsToJson f))
          | .error e => pure (errJson e)
        else
          -- even sizes: the closed form the theorems are about; every size: skimage's literal n array + size check
          match fourierFilterSkE (R := Float) size name with
          | .ok f => pure (okJson (floatsToJson f))
          | .error e => pure (errJson e)
    | "iradon" =>
        let n ← natField j "n"
        let sino := chunk (← floatList (← field j "sino")) n
        let th ← match fieldD j "theta" Json.null with
          | Json.null => pure none
          | t => (floatList t).map some
        let nm ← match parseFilter (← strField j "filter") with
          | some nm => pure nm
          | none => throw "bad filter name"
        let circle ← boolField j "circle"
        let out ← match fieldD j "out" Json.null with
          | Json.null => pure (if alg == "torch" then iradonTorch sino th nm circle else iradonSk sino th nm circle)
          | o => do
              let m ← o.getNat?
              pure (if alg == "torch" then iradonTorchOut sino th nm circle m else iradonSkOut sino th nm circle m)
        pure (Json.mkObj [("ok", floatsToJson out.flatten), ("size", Json.num (JsonNumber.fromNat out.length))])
    | "radon_rect" =>
        -- any H x W image, theta given or null (the default arange(180)); alg "sk" gets the image as
        -- scikit-image gets it (already disc-masked by the harness)
        let w ← natField j "w"
        let h ← natField j "h"
        let img := chunk (← floatList (← field j "img")) w
        if img.length != h then throw "bad image" else
        let th ← match fieldD j "theta" Json.null with
          | Json.null => pure none
          | t => (floatList t).map some
        let out := if alg == "torch" then radonTorchRect img th else radonSkRect img th
        pure (Json.mkObj [("ok", floatsToJson out.flatten), ("rows", Json.num (JsonNumber.fromNat out.length))])
    | "iradon_e" =>
        -- the call as made: raw filter argument ("none" = Python None), theta of any length or null,
        -- optional output size; the answer is a reconstruction or an exception class
        let n ← natField j "n"
        let sino := chunk (← floatList (← field j "sino")) n
        let th ← match fieldD j "theta" Json.null with
          | Json.null => pure none
          | t => (floatList t).map some
        let name ← strField j "filter"
        let circle ← boolField j "circle"
        let out ← match fieldD j "out" Json.null with
          | Json.null => pure none
          | o => (o.getNat?).map some
        match (if alg == "torch" then iradonTorchE sino th out name circle else iradonSkE sino th out name circle) with
        | .ok r => pure (Json.mkObj [("ok", floatsToJson r.flatten), ("size", Json.num (JsonNumber.fromNat r.length))])
        | .error e => pure (errJson e)
    | "iradon_batch" =>
        -- batched call [B][A][N] -> [B][out][out] through the batched accumulation loop (recon += proj per angle)
        let n ← natField j "n"
        let a ← natField j "a"
        let b ← natField j "b"
        let sinos := (chunk (← floatList (← field j "sino")) (a * n)).map fun s => chunk s n
        let th ← match fieldD j "theta" Json.null with
          | Json.null => pure none
          | t => (floatList t).map some
        let nm ← match parseFilter (← strField j "filter") with
          | some nm => pure nm
          | none => throw "bad filter name"
        let circle ← boolField j "circle"
        let m ← match fieldD j "out" Json.null with
          | Json.null => pure (outputSize (R := Float) n circle)
          | o => o.getNat?
        if sinos.length != b then throw "bad batch" else
        let out := iradonTorchBatchLoop sinos th nm circle m
        pure (Json.mkObj [("ok", floatsToJson out.flatten.flatten), ("size", Json.num (JsonNumber.fromNat m))])
    | "geom" =>
        -- the integers iradon_torch derives from the detector width (exact)
        let n ← natField j "n"
        let circle ← boolField j "circle"
        let out ← match fieldD j "out" Json.null with
          | Json.null => pure none
          | o => (o.getNat?).map some
        let g := iradonGeom (R := Float) n circle out
        let num := fun (k : Nat) => Json.num (JsonNumber.fromNat k)
        pure (Json.mkObj [("D", num g.D), ("pad_before", num g.padBefore), ("pad_after", num g.padAfter), ("P", num g.P),
                          ("pad_y", num g.padY), ("out", num g.out)])
    | _ => throw s!"bad op {op}" : Except String Json) with
  | .ok r => (st, r)
  | .error e => (st, errJson s!"driver:{e}")

end DrvC07

def main : IO Unit := QuantemModel.Proto.run () DrvC07.step
