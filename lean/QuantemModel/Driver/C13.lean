import QuantemModel.Core.Proto
import QuantemModel.Model.Registration
import QuantemModel.Model.RegistrationExt
import QuantemModel.Model.RegistrationExt2
open Lean QuantemModel QuantemModel.Proto QuantemModel.Registration

namespace DrvC13

/-! JSON-lines driver for Model/Registration.lean.  Arrays are tabulated into functions
(`Tab.make`) before they are handed to the model definitions — memoisation only. -/

/-- an `M × N` table evaluated once (row-major) -/
structure Tab (α : Type) where
  N : Nat
  a : Array α

def Tab.make {α : Type} (M N : Nat) (f : Nat → Nat → α) : Tab α :=
  ⟨N, Array.ofFn (n := M * N) fun p => f (p.val / N) (p.val % N)⟩

/-- read a table as a function again -/
def Tab.get {α : Type} [Inhabited α] (t : Tab α) (i j : Nat) : α := t.a[i * t.N + j]!

instance : Inhabited (Cx Float) := ⟨⟨0, 0⟩⟩

/-- memoised `dft2At` / `idft2ReAt` on the whole cell: the roots of unity are tabulated once -/
def fwdTab (M N : Nat) (im : Nat → Nat → Float) : Tab (Cx Float) :=
  let wM := Tab.make 1 M (fun _ a => (root M (-1) (a : Int) : Cx Float))
  let wN := Tab.make 1 N (fun _ a => (root N (-1) (a : Int) : Cx Float))
  Tab.make M N (dft2AtW M N (wM.get 0) (wN.get 0) im)

def invReTab (M N : Nat) (G : Nat → Nat → Cx Float) : Tab Float :=
  let wM := Tab.make 1 M (fun _ a => (root M 1 (a : Int) : Cx Float))
  let wN := Tab.make 1 N (fun _ a => (root N 1 (a : Int) : Cx Float))
  Tab.make M N (idft2ReAtW M N (wM.get 0) (wN.get 0) G)

/-! ### codecs -/
def ratToJson (q : Rat) : Json := Json.str s!"{q.num}/{q.den}"

def ratOfJson (j : Json) : Except String Rat := do
  match j with
  | .num n => if n.exponent == 0 then pure (n.mantissa : Rat) else throw "rat: non-integer number"
  | .str s =>
      match s.splitOn "/" with
      | [a] => match a.toInt? with | some i => pure (i : Rat) | none => throw "rat"
      | [a, b] => match a.toInt?, b.toNat? with
          | some i, some d => if d == 0 then throw "rat: den 0" else pure ((i : Rat) / (d : Rat))
          | _, _ => throw "rat"
      | _ => throw "rat"
  | _ => throw "rat"

def matOf {α : Type} [Inhabited α] (dec : Json → Except String α) (j : Json) : Except String (Nat × Nat × (Nat → Nat → α)) := do
  let rows ← j.getArr?
  let rs ← rows.toList.mapM fun r => do
    let xs ← r.getArr?
    xs.toList.mapM dec
  let M := rs.length
  let N := (rs.head?.map List.length).getD 0
  if rs.any (fun r => r.length != N) then throw "ragged matrix" else
  let a : Array α := (rs.flatten).toArray
  pure (M, N, fun i j => a[i * N + j]!)

def cxOfJson (j : Json) : Except String (Cx Float) := do
  let a ← j.getArr?
  if a.size != 2 then throw "cx" else
  pure ⟨← floatOfJson a[0]!, ← floatOfJson a[1]!⟩

def matToJson {α : Type} (enc : α → Json) (M N : Nat) (f : Nat → Nat → α) : Json :=
  Json.arr ((List.range M).map fun i => Json.arr ((List.range N).map fun j => enc (f i j)).toArray).toArray

def natJ (n : Nat) : Json := Json.num (JsonNumber.fromNat n)

def optField {α : Type} (j : Json) (k : String) (dec : Json → Except String α) : Except String (Option α) :=
  match j.getObjVal? k with
  | .ok .null => pure none
  | .ok v => do pure (some (← dec v))
  | .error _ => pure none

/-- gap between the largest and the second largest value of a table (how well conditioned
the argmax is), for an ordered carrier given by `lt`/`sub` -/
def topGap {α : Type} (n : Nat) (f : Nat → α) (lt : α → α → Bool) (sub : α → α → α) (zero : α) : α := Id.run do
  if n < 2 then return zero
  let mut best := f 0
  let mut second := f 1
  if lt best second then
    let t := best; best := second; second := t
  for i in [2:n] do
    let v := f i
    if lt best v then second := best; best := v
    else if lt second v then second := v
  return sub best second

/-! ### exact (Rat) stream: coarse stage of both variants -/
def coarseJson (k : Coarse Rat) : List (String × Json) :=
  [("peak", Json.arr #[natJ k.x0, natJ k.y0]), ("dx", ratToJson k.dx), ("dy", ratToJson k.dy),
   ("x", ratToJson k.x), ("y", ratToJson k.y)]

def opExact (j : Json) : Except String Json := do
  let variant ← strField j "variant"
  let (M, N, ref) ← matOf ratOfJson (← field j "ref")
  let (M', N', im) ← matOf ratOfJson (← field j "im")
  if M != M' || N != N' || M == 0 || N == 0 then throw "shape" else
  let ms ← optField j "max_shift" ratOfJson
  let raw_t := Tab.make M N (fun s t => cc M N ref im (s : Int) (t : Int))
  let raw := raw_t.get
  let c_t := Tab.make M N ((masked M N (if variant == "np" then ms else none) raw))
  let c := c_t.get
  let gap := topGap (M * N) (fun p => c (p / N) (p % N)) (fun a b => decide (a < b)) (· - ·) 0
  if variant == "np" then
    let k := coarseNpG M N c raw
    let s := shiftNp M N 1 c raw (fun _ _ => (⟨0, 0⟩ : Cx Rat))
    -- degenerate parabola (NumPy would produce nan/inf)
    let den1 := 4 * raw k.x0 k.y0 - 2 * raw (wrap M (k.x0 + 1)) k.y0 - 2 * raw (wrap M ((k.x0 : Int) - 1)) k.y0
    let den2 := 4 * raw k.x0 k.y0 - 2 * raw k.x0 (wrap N (k.y0 + 1)) - 2 * raw k.x0 (wrap N ((k.y0 : Int) - 1))
    pure (Json.mkObj (coarseJson k ++ [("shift", Json.arr #[ratToJson s.1, ratToJson s.2]), ("gap", ratToJson gap),
      ("degenerate", Json.bool (den1 == 0 || den2 == 0))]))
  else
    let k := coarseTorch M N c
    let s := shiftTorch2 M N c
    -- distance of the pre-rounding values from a rounding tie (k + 1/2)
    let tie (v : Rat) : Rat := let w := v * 2 - (v * 2).floor; if w < 1/2 then 1/2 - w else w - 1/2
    pure (Json.mkObj (coarseJson k ++ [("shift", Json.arr #[ratToJson s.1, ratToJson s.2]), ("gap", ratToJson gap),
      ("tie", ratToJson (min (tie ((k.x0 : Rat) + k.dx)) (tie ((k.y0 : Rat) + k.dy)))), ("degenerate", Json.bool false)]))

/-! ### exact index arithmetic of the two upsampling grids -/
def opGrid (j : Json) : Except String Json := do
  let up ← natField j "up"
  let x ← ratOfJson (← field j "x")
  let xs := snapTorch up x
  pure (Json.mkObj [("du", natJ (du up)), ("side_np", natJ (sideNp up)), ("side_torch", natJ (sideTorch up)),
    ("g", natJ (gShift up)),
    ("pos_np", Json.arr ((List.range (sideNp up)).map fun u => ratToJson (posNp up x u)).toArray),
    ("snap", ratToJson xs), ("center", ratToJson (centerTorch up xs)),
    ("pos_torch", Json.arr ((List.range (sideTorch up)).map fun u => ratToJson (posTorch (centerTorch up xs) u)).toArray),
    ("final_np_centre", ratToJson (finalNp up x (sideNp up / 2) 0)),
    ("final_torch_centre", ratToJson (finalTorch up xs (gShift up) 0))])

/-! ### float64 stream -/
def fl (x : Float) : Json := floatToJson x

def fgap (n : Nat) (f : Nat → Float) : Float := topGap n f (fun a b => a < b) (· - ·) 0

def maxAbs (n : Nat) (f : Nat → Float) : Float := Id.run do
  let mut m := 0.0
  for i in [0:n] do
    let v := (f i).abs
    if m < v then m := v
  return m

/-- the whole pipeline at Float for either variant -/
def opFull (j : Json) : Except String Json := do
  let variant ← strField j "variant"
  let up ← natField j "up"
  let (M, N, ref) ← matOf floatOfJson (← field j "ref")
  let (M', N', im) ← matOf floatOfJson (← field j "im")
  if M != M' || N != N' || M == 0 || N == 0 then throw "shape" else
  let ms ← optField j "max_shift" floatOfJson
  let wantImg := (boolField j "img").toOption.getD false
  let raw_t := Tab.make M N (fun s t => cc M N ref im (s : Int) (t : Int))
  let raw := raw_t.get
  let c_t := Tab.make M N ((masked M N (if variant == "np" then ms else none) raw))
  let c := c_t.get
  let scale := maxAbs (M * N) fun p => c (p / N) (p % N)
  let gap := fgap (M * N) fun p => c (p / N) (p % N)
  let needF := (variant == "np" && up > 1) || (variant != "np" && up > 2) || wantImg
  let Fr_t := if needF then fwdTab M N ref else Tab.make M N fun _ _ => (⟨0, 0⟩ : Cx Float)
  let Fr := Fr_t.get
  let Fi_t := if needF then fwdTab M N im else Tab.make M N fun _ _ => (⟨0, 0⟩ : Cx Float)
  let Fi := Fi_t.get
  let F_t := Tab.make M N ((ccF Fr Fi))
  let F := F_t.get
  let mut out : List (String × Json) := [("gap", fl gap), ("scale", fl scale)]
  let mut shift : Float × Float := (0, 0)
  if variant == "np" then
    let k := coarseNpG M N c raw
    out := out ++ [("peak", Json.arr #[natJ k.x0, natJ k.y0]), ("x", fl k.x), ("y", fl k.y), ("cmax", fl (c k.x0 k.y0))]
    if up ≤ 1 then
      shift := (centre k.x M, centre k.y N)
      out := out ++ [("raw", Json.arr #[fl k.x, fl k.y])]
    else
      let P := sideNp up
      -- memoised form of `patchNp M N up F k.x k.y`
      let Kr_t := Tab.make P M (fun u q => kern M up 1 (posNp up k.x u) q)
      let Kc_t := Tab.make P N (fun v l => kern N up 1 (posNp up k.y v) l)
      let T_t := Tab.make P N (fun u l => rowStageK M (Kr_t.get u) F l)
      let T := T_t.get
      let p_t := Tab.make P P (fun u v => colStageK N (T u) (Kc_t.get v))
      let p := p_t.get
      let pk := argmax2 P P p
      let s := upsampledNpOfG up k.x k.y p
      shift := (centre s.1 M, centre s.2 N)
      out := out ++ [("raw", Json.arr #[fl s.1, fl s.2]), ("ppeak", Json.arr #[natJ pk.1, natJ pk.2]), ("pgap", fl (fgap (P * P) fun q => p (q / P) (q % P))),
                     ("pscale", fl (maxAbs (P * P) fun q => p (q / P) (q % P)))]
  else
    let k := coarseTorch M N c
    out := out ++ [("peak", Json.arr #[natJ k.x0, natJ k.y0]), ("x", fl k.x), ("y", fl k.y),
                   ("prex", fl ((Num.ofNat k.x0 + k.dx) * 2)), ("prey", fl ((Num.ofNat k.y0 + k.dy) * 2))]
    if up ≤ 2 then
      shift := shiftTorch2 M N c
      out := out ++ [("raw", Json.arr #[fl k.x, fl k.y])]
    else
      let P := sideTorch up
      let xs := snapTorch up k.x
      let ys := snapTorch up k.y
      let G_t := Tab.make M N ((conjF F))
      let G := G_t.get
      let Kr_t := Tab.make P M (fun u q => kern M up (-1) (posTorch (centerTorch up xs) u) q)
      let Kc_t := Tab.make P N (fun v l => kern N up (-1) (posTorch (centerTorch up ys) v) l)
      let T_t := Tab.make P N (fun u l => rowStageK M (Kr_t.get u) G l)
      let T := T_t.get
      let p_t := Tab.make P P (fun u v => colStageK N (T u) (Kc_t.get v))
      let p := p_t.get
      let pk := argmax2 P P p
      let s := upsampledTorchOf up xs ys p
      shift := (centre s.1 M, centre s.2 N)
      out := out ++ [("raw", Json.arr #[fl s.1, fl s.2]), ("center", Json.arr #[fl (centerTorch up xs), fl (centerTorch up ys)]), ("ppeak", Json.arr #[natJ pk.1, natJ pk.2]), ("pgap", fl (fgap (P * P) fun q => p (q / P) (q % P))),
                     ("pscale", fl (maxAbs (P * P) fun q => p (q / P) (q % P)))]
  out := out ++ [("shift", Json.arr #[fl shift.1, fl shift.2])]
  if wantImg then
    let G_t := Tab.make M N ((rampAt M N Fi shift.1 shift.2))
    let G := G_t.get
    let img_t := invReTab M N G
    out := out ++ [("img", matToJson fl M N img_t.get),
                   ("fimg", matToJson (fun (z : Cx Float) => Json.arr #[fl z.re, fl z.im]) M N G)]
  pure (Json.mkObj out)

/-- `dft_upsample(F, up, shift)` / `dftUpsample_torch(F, up, center)` on a given Fourier table -/
def opPatch (j : Json) : Except String Json := do
  let variant ← strField j "variant"
  let up ← natField j "up"
  let (M, N, F) ← matOf cxOfJson (← field j "F")
  let a ← floatOfJson (← field j "a")
  let b ← floatOfJson (← field j "b")
  if variant == "np" then
    let P := sideNp up
    let Kr_t := Tab.make P M (fun u q => kern M up 1 (posNp up a u) q)
    let Kc_t := Tab.make P N (fun v l => kern N up 1 (posNp up b v) l)
    let T_t := Tab.make P N (fun u l => rowStageK M (Kr_t.get u) F l)
    let T := T_t.get
    pure (Json.mkObj [("side", natJ P), ("patch", matToJson fl P P fun u v => colStageK N (T u) (Kc_t.get v))])
  else
    let P := sideTorch up
    let Kr_t := Tab.make P M (fun u q => kern M up (-1) (posTorch a u) q)
    let Kc_t := Tab.make P N (fun v l => kern N up (-1) (posTorch b v) l)
    let T_t := Tab.make P N (fun u l => rowStageK M (Kr_t.get u) F l)
    let T := T_t.get
    pure (Json.mkObj [("side", natJ P), ("patch", matToJson fl P P fun u v => colStageK N (T u) (Kc_t.get v))])

/-- `upsampled_correlation_torch(F, up, (x, y))` -/
def opUpcorr (j : Json) : Except String Json := do
  let up ← natField j "up"
  let (M, N, F) ← matOf cxOfJson (← field j "F")
  let x ← floatOfJson (← field j "a")
  let y ← floatOfJson (← field j "b")
  let P := sideTorch up
  let xs := snapTorch up x
  let ys := snapTorch up y
  let G_t := Tab.make M N ((conjF F))
  let G := G_t.get
  let Kr_t := Tab.make P M (fun u q => kern M up (-1) (posTorch (centerTorch up xs) u) q)
  let Kc_t := Tab.make P N (fun v l => kern N up (-1) (posTorch (centerTorch up ys) v) l)
  let T_t := Tab.make P N (fun u l => rowStageK M (Kr_t.get u) G l)
  let T := T_t.get
  let p_t := Tab.make P P (fun u v => colStageK N (T u) (Kc_t.get v))
  let p := p_t.get
  let s := upsampledTorchOf up xs ys p
  let pk := argmax2 P P p
  pure (Json.mkObj [("xy", Json.arr #[fl s.1, fl s.2]), ("ppeak", Json.arr #[natJ pk.1, natJ pk.2]),
    ("pgap", fl (fgap (P * P) fun q => p (q / P) (q % P))), ("pscale", fl (maxAbs (P * P) fun q => p (q / P) (q % P)))])

/-- the entry points of Model/RegistrationExt.lean called as they are (dispatch on the factor inside the
model; tables are only memoised): `shiftNp`, `shiftTorch`, `alignTorch` -/
def opEntry (j : Json) : Except String Json := do
  let up ← natField j "up"
  let (M, N, ref) ← matOf floatOfJson (← field j "ref")
  let (M', N', im) ← matOf floatOfJson (← field j "im")
  if M != M' || N != N' || M == 0 || N == 0 then throw "shape" else
  let ms ← optField j "max_shift" floatOfJson
  let raw_t := Tab.make M N (fun s t => cc M N ref im (s : Int) (t : Int))
  let raw := raw_t.get
  let c_t := Tab.make M N ((masked M N ms raw))
  let c := c_t.get
  let Fr_t := fwdTab M N ref
  let Fi_t := fwdTab M N im
  let F_t := Tab.make M N ((ccF Fr_t.get Fi_t.get))
  let F := F_t.get
  let sn := shiftNp M N up c raw F
  let st := shiftTorch M N up raw F
  let al := alignTorch M N up raw F
  pure (Json.mkObj [("np", Json.arr #[fl sn.1, fl sn.2]), ("torch", Json.arr #[fl st.1, fl st.2]),
    ("align", Json.arr #[fl al.1, fl al.2])])

/-! ### growth 6: `tomography.utils.torch_phase_cross_correlation` on integer images (exact) -/
def opPhase (j : Json) : Except String Json := do
  let (M, N, ref) ← matOf ratOfJson (← field j "ref")
  let (M', N', im) ← matOf ratOfJson (← field j "im")
  if M != M' || N != N' || M == 0 || N == 0 then throw "shape" else
  let raw_t := Tab.make M N (fun s t => cc M N ref im (s : Int) (t : Int))
  let raw := raw_t.get
  let s := phaseCorr M N raw
  let gap := topGap (M * N) (fun p => Num.abs (raw (p / N) (p % N))) (fun a b => decide (a < b)) (· - ·) 0
  pure (Json.mkObj [("shift", Json.arr #[Json.num (JsonNumber.fromInt s.1), Json.num (JsonNumber.fromInt s.2)]), ("gap", ratToJson gap)])

def step (st : Unit) (j : Json) : Unit × Json :=
  match (do
    let op ← strField j "op"
    match op with
    | "exact" => opExact j
    | "grid" => opGrid j
    | "full" => opFull j
    | "patch" => opPatch j
    | "upcorr" => opUpcorr j
    | "entry" => opEntry j
    | "phase" => opPhase j
    | _ => throw s!"unknown op {op}" : Except String Json) with
  | .ok r => (st, okJson r)
  | .error e => (st, errJson s!"driver:{e}")

end DrvC13

def main : IO Unit := QuantemModel.Proto.run () DrvC13.step
