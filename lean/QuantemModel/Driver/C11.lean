import QuantemModel.Core.Proto
import QuantemModel.Model.Vector
import QuantemModel.Model.VectorView
import QuantemModel.Model.VectorFront
open Lean QuantemModel QuantemModel.Proto QuantemModel.Vector

/-!
JSON-lines driver for Model/Vector.lean.  The driver keeps, next to the model state, the
*pool*: the references the caller holds (arrays it created with `alloc`, arrays returned by
`get_data` / `v[i, j]`).  Requests name arrays by pool index; heap references only leave the
driver inside observations, where the harness compares them up to renaming (alias fingerprint).
Rationals cross as "num/den" strings.
-/
namespace DrvC11

structure St where
  vs : VState := {}
  pool : List Ref := []

def St.s (st : St) : State := st.vs.s

def ratOfString (t : String) : Except String Rat :=
  match t.splitOn "/" with
  | [n] => match n.toInt? with
      | some i => pure (i : Rat)
      | none => throw s!"rat:{t}"
  | [n, d] => match n.toInt?, d.toNat? with
      | some i, some k => if k = 0 then throw "rat:den0" else pure ((i : Rat) / (k : Rat))
      | _, _ => throw s!"rat:{t}"
  | _ => throw s!"rat:{t}"

def ratOfJson (j : Json) : Except String Rat :=
  match j with
  | .str t => ratOfString t
  | .num n => if n.exponent == 0 then pure (n.mantissa : Rat) else throw "rat:decimal"
  | _ => throw "rat:json"

def ratToJson (q : Rat) : Json :=
  if q.den = 1 then Json.str (toString q.num) else Json.str s!"{q.num}/{q.den}"

def rowsOfJson (j : Json) : Except String (List (List Rat)) := do
  (← j.getArr?).toList.mapM fun r => do (← r.getArr?).toList.mapM ratOfJson

def rowsToJson (rows : List (List Rat)) : Json :=
  Json.arr (rows.map fun r => Json.arr (r.map ratToJson).toArray).toArray

def optIntOfJson (j : Json) : Except String (Option Int) :=
  match j with
  | .null => pure none
  | _ => do pure (some (← j.getInt?))

def optStrListOfJson (j : Json) : Except String (Option (List String)) :=
  match j with
  | .null => pure none
  | _ => do pure (some (← (← j.getArr?).toList.mapM (·.getStr?)))

def ixOfJson (j : Json) : Except String Ix := do
  match j.getObjVal? "i" with
  | .ok v => pure (.int (← v.getInt?))
  | .error _ =>
    match j.getObjVal? "l" with
    | .ok v => pure (.list (← intList v))
    | .error _ =>
      let a ← (← field j "s").getArr?
      if a.size != 3 then throw "slice" else
      pure (.slice (← optIntOfJson a[0]!) (← optIntOfJson a[1]!) (← optIntOfJson a[2]!))

def idxOfJson (j : Json) : Except String (List Ix) := do
  (← arrField j "idx").toList.mapM ixOfJson

def valOfJson (st : St) (j : Json) : Except String Val := do
  match j.getObjVal? "p" with
  | .ok v =>
      let i ← v.getNat?
      match st.pool[i]? with
      | some r => pure (.ref r)
      | none => throw "pool index"
  | .error _ =>
      let b ← strField j "bad"
      match b with
      | "1d" => pure .arr1d
      | "3d" => pure (.arr3d ((natField j "d1").toOption.getD 0))
      | _ => pure .notArray

def setValOfJson (st : St) (j : Json) : Except String SetVal := do
  match j.getObjVal? "one" with
  | .ok v => pure (.one (← valOfJson st v))
  | .error _ =>
    match j.getObjVal? "many" with
    | .ok v => pure (.many (← (← v.getArr?).toList.mapM (valOfJson st)))
    | .error _ => pure (.vec (← natField j "vec"))

def itemOfJson (st : St) (j : Json) : Except String DItem := do
  match j.getObjVal? "lit" with
  | .ok v => pure (.lit (← natField v "ncols") (← rowsOfJson (← field v "rows")) ((boolField v "int").toOption.getD false))
  | .error _ =>
    match j.getObjVal? "lit1d" with
    | .ok _ => pure .lit1d
    | .error _ => pure (.val (← valOfJson st j))

/-! argument forms of `from_shape` (Model/VectorFront.lean) -/

def dimArgOfJson (j : Json) : Except String DimArg :=
  match j.getObjVal? "i" with
  | .ok v => do pure (.int (← v.getInt?))
  | .error _ => match j.getObjVal? "b" with
    | .ok v => do pure (.bool (← v.getBool?))
    | .error _ => pure .other

def shapeArgOfJson (j : Json) : Except String ShapeArg :=
  match j.getObjVal? "tuple" with
  | .ok v => do pure (.tuple (← (← v.getArr?).toList.mapM dimArgOfJson))
  | .error _ => pure .notTuple

def numArgOfJson (j : Json) : Except String (Option NumArg) :=
  match j with
  | .null => pure none
  | _ => match j.getObjVal? "i" with
    | .ok v => do pure (some (.int (← v.getInt?)))
    | .error _ => match j.getObjVal? "b" with
      | .ok v => do pure (some (.bool (← v.getBool?)))
      | .error _ => match j.getObjVal? "like" with
        | .ok v => do pure (some (.intLike (← v.getInt?)))
        | .error _ => pure (some .other)

def seqArgOfJson (j : Json) : Except String (Option SeqArg) :=
  match j with
  | .null => pure none
  | _ => match j.getObjVal? "seq" with
    | .ok v => do pure (some (.seq (← (← v.getArr?).toList.mapM (·.getStr?))))
    | .error _ => pure (some .notSeq)

def errName : Err → String
  | .valueError => "ValueError" | .typeError => "TypeError" | .indexError => "IndexError"
  | .keyError => "KeyError" | .unsupported => "Unsupported" | .badHandle => "BadHandle"

def floorDiv (x c : Rat) : Rat := ((x / c).floor : Int)

/-- `x ** y` for integer-valued `y` (the harness sends no other exponents) -/
def powQ (x y : Rat) : Rat :=
  if y.num ≥ 0 then x ^ y.num.toNat else (x ^ (-y.num).toNat)⁻¹

def binOfName (k : String) : Except String (Rat → Rat → Rat) :=
  match k with
  | "add" => pure (· + ·)
  | "sub" => pure (· - ·)
  | "mul" => pure (· * ·)
  | "div" => pure (· / ·)
  | "floordiv" => pure floorDiv
  | "mod" => pure fun x c => x - c * floorDiv x c
  | "pow" => pure powQ
  | _ => throw s!"fop {k}"

def fopOfJson (j : Json) : Except String (Rat → Rat) := do
  let g ← binOfName (← strField j "k")
  let c ← ratOfJson (← field j "c")
  pure (g · c)

def rhsOfJson (j : Json) : Except String Rhs := do
  match j.getObjVal? "c" with
  | .ok c => pure (.scalar (← ratOfJson c))
  | .error _ =>
    match j.getObjVal? "arr" with
    | .ok a => pure (.array (← (← a.getArr?).toList.mapM ratOfJson))
    | .error _ => pure (.field (← natField j "w") (← strField j "wf"))

def opOfJson (st : St) (j : Json) : Except String Op := do
  let op ← strField j "op"
  match op with
  | "alloc" => pure (.alloc (← natField j "ncols") (← rowsOfJson (← field j "rows")) ((boolField j "int").toOption.getD false))
  | "from_shape" =>
      pure (.fromShape (← intList (← field j "shape")) (← optIntOfJson (fieldD j "num_fields" .null))
        (← optStrListOfJson (fieldD j "fields" .null)) (← optStrListOfJson (fieldD j "units" .null)))
  | "from_data" =>
      pure (.fromData (← (← arrField j "items").toList.mapM (itemOfJson st))
        (← optIntOfJson (fieldD j "num_fields" .null))
        (← optStrListOfJson (fieldD j "fields" .null)) (← optStrListOfJson (fieldD j "units" .null)))
  | "get_data" => pure (.getData (← natField j "v") (← idxOfJson j))
  | "set_data" => pure (.setData (← natField j "v") (← idxOfJson j) (← setValOfJson st (← field j "val")))
  | "getitem" => pure (.getItem (← natField j "v") (← idxOfJson j))
  | "setitem" => pure (.setItem (← natField j "v") (← idxOfJson j) (← setValOfJson st (← field j "val")))
  | "field_op" => pure (.fieldOp (← natField j "v") (← strField j "f") (← fopOfJson j))
  | "field_op_gen" =>
      pure (.fieldOpGen (← natField j "v") (← strField j "f") (← binOfName (← strField j "k"))
        ((boolField j "neg_int_pow").toOption.getD false) (← rhsOfJson (← field j "rhs")))
  | "field_get" => pure (.fieldGet (← natField j "v") (← strField j "f") (← idxOfJson j))
  | "set_flattened" =>
      let vals : FlatVal ← match j.getObjVal? "vals" with
        | .ok (.arr a) => do pure (.oneD (← a.toList.mapM ratOfJson))
        | _ => pure .notOneD
      pure (.setFlattened (← natField j "v") (← strField j "f") vals)
  | "writeback" => pure (.writeBack (← natField j "v") (← strField j "f"))
  | "add_fields" => pure (.addFields (← natField j "v") (← (← arrField j "names").toList.mapM (·.getStr?)))
  | "remove_fields" => pure (.removeFields (← natField j "v") (← (← arrField j "names").toList.mapM (·.getStr?)))
  | "copy" => pure (.copy (← natField j "v"))
  | "set_data_attr" =>
      pure (.setDataAttr (← natField j "v") (← natList (← field j "lens"))
        (← (← arrField j "items").toList.mapM (itemOfJson st)))
  | "meta_set" => pure (.metaSet (← natField j "v") (← strField j "k") (← intField j "x"))
  | _ => throw s!"unknown op {op}"

/-- requests that involve objects the caller keeps (held field views, kept flattened arrays) -/
def vopOfJson (st : St) (j : Json) : Except String VOp := do
  let op ← strField j "op"
  match op with
  | "view_make" => pure (.mkView (← natField j "v") (← strField j "f"))
  | "view_flatten" => pure (.viewFlatten (← natField j "w"))
  | "view_op" =>
      pure (.viewOp (← natField j "w") (← binOfName (← strField j "k"))
        ((boolField j "neg_int_pow").toOption.getD false) (← rhsOfJson (← field j "rhs")))
  | "view_set" =>
      let vals : FlatVal ← match j.getObjVal? "vals" with
        | .ok (.arr a) => do pure (.oneD (← a.toList.mapM ratOfJson))
        | _ => pure .notOneD
      pure (.viewSet (← natField j "w") vals)
  | "view_restore" => pure (.viewRestore (← natField j "w") (← natField j "kept"))
  | "view_get" => pure (.viewGet (← natField j "w") (← idxOfJson j))
  | "kept_mutate" =>
      let g ← binOfName (← strField j "k")
      let c ← ratOfJson (← field j "c")
      pure (.keptMap (← natField j "kept") (g · c))
  | _ => pure (.base (← opOfJson st j))

def refJson : Option Ref → Json
  | some r => Json.num (JsonNumber.fromNat r)
  | none => Json.null

def dedup (l : List Nat) : List Nat := l.foldl (fun acc x => if acc.contains x then acc else acc ++ [x]) []

def obs (st : St) : Json :=
  let s := st.s
  let reach := dedup (st.pool ++ s.vecs.flatMap fun v => v.cells.filterMap id)
  Json.mkObj [
    ("pool", Json.arr (st.pool.map fun r => Json.num (JsonNumber.fromNat r)).toArray),
    ("vecs", Json.arr (s.vecs.map fun v => Json.mkObj [
        ("shape", Json.arr (v.shape.map fun d => Json.num (JsonNumber.fromNat d)).toArray),
        ("fields", Json.arr (v.fields.map Json.str).toArray),
        ("units", Json.arr (v.units.map Json.str).toArray),
        ("cells", Json.arr (v.cells.map refJson).toArray),
        ("meta", Json.num (JsonNumber.fromNat v.mref)),
        ("flat", Json.arr ((List.range v.fields.length).map fun j =>
            Json.arr ((flattenField s.heap v.cells j).map ratToJson).toArray).toArray),
        ("all", rowsToJson (flattenAll s.heap v.cells)),
        ("flat_int", Json.bool (flattenIsInt s.heap v.cells))]).toArray),
    ("heap", Json.arr (reach.filterMap fun r => (s.heap[r]?).map fun a =>
        Json.arr #[Json.num (JsonNumber.fromNat r), Json.num (JsonNumber.fromNat a.ncols), rowsToJson a.rows,
          Json.bool a.isInt]).toArray),
    ("metas", Json.arr (s.metas.map fun d =>
        Json.arr (d.map fun (k, x) => Json.arr #[Json.str k, Json.num (JsonNumber.fromInt x)]).toArray).toArray),
    ("kept", Json.arr (st.vs.kept.map fun (xs, t) =>
        Json.mkObj [("a1", Json.arr (xs.map ratToJson).toArray), ("int", Json.bool t)]).toArray),
    ("nviews", Json.num (JsonNumber.fromNat st.vs.views.length))]

def npJson : NpVal → Json
  | .arr2 c rows t => Json.mkObj [("a2", rowsToJson rows), ("ncols", Json.num (JsonNumber.fromNat c)), ("int", Json.bool t)]
  | .arr1 xs t => Json.mkObj [("a1", Json.arr (xs.map ratToJson).toArray), ("int", Json.bool t)]
  | .scalar x t => Json.mkObj [("sc", ratToJson x), ("int", Json.bool t)]

def resJson : Res → Json
  | .none => okJson Json.null
  | .newVec id => okJson (Json.mkObj [("vec", Json.num (JsonNumber.fromNat id))])
  | .newRef _ => okJson (Json.mkObj [("arr", Json.bool true)])
  | .cell c => okJson (Json.mkObj [("cell", Json.bool c.isSome)])
  | .cells cs => okJson (Json.mkObj [("cells", Json.arr (cs.map fun c => Json.bool c.isSome).toArray)])
  | .np v => okJson (Json.mkObj [("np", npJson v)])
  | .err e => errJson (errName e)

/-- the caller keeps every array it is handed -/
def poolAfter (pool : List Ref) : Res → List Ref
  | .newRef r => pool ++ [r]
  | .cell (some r) => pool ++ [r]
  | .cells cs => pool ++ cs.filterMap id
  | _ => pool

def step (st : St) (j : Json) : St × Json :=
  match (do
    let op ← strField j "op"
    if op == "reset" then pure (({} : St), Json.mkObj [("r", okJson Json.null)]) else
    if op == "nop" then pure (st, Json.mkObj [("r", okJson Json.null), ("obs", obs st)]) else
    if op == "set_attr" then
      -- property setters: outside the operation alphabet, tied to the code by their own small stream
      let vid ← natField j "v"
      let attr ← strField j "attr"
      let (s', r) ← match attr with
        | "fields" => pure (opSetFieldsAttr st.s vid (← (← arrField j "value").toList.mapM (·.getStr?)))
        | "units" => pure (opSetUnitsAttr st.s vid (← optStrListOfJson (fieldD j "value" .null)))
        | "shape" => pure (opSetShapeAttr st.s vid (← intList (← field j "value")))
        | _ => throw s!"attr {attr}"
      let view := match s'.vecs[vid]? with
        | some v => Json.mkObj [("shape", Json.arr (v.shape.map fun d => Json.num (JsonNumber.fromNat d)).toArray),
            ("fields", Json.arr (v.fields.map Json.str).toArray), ("units", Json.arr (v.units.map Json.str).toArray)]
        | none => Json.null
      pure ({ st with vs := { st.vs with s := s' } }, Json.mkObj [("r", resJson r), ("vec", view)]) else
    if op == "from_shape_front" then
      -- argument forms in front of `from_shape` (type tests of the validators)
      let (s', r) := opFromShapeFront st.s (← shapeArgOfJson (← field j "shape")) (← numArgOfJson (fieldD j "num_fields" .null))
        (← seqArgOfJson (fieldD j "fields" .null)) (← seqArgOfJson (fieldD j "units" .null))
      let st' : St := { st with vs := { st.vs with s := s' } }
      pure (st', Json.mkObj [("r", resJson r), ("obs", obs st')]) else
    let o ← vopOfJson st j
    let (vs', vr) := Vector.vstep st.vs o
    let (pool', rj) := match vr with
      | .res r => (poolAfter st.pool r, resJson r)
      | .newView k => (st.pool, okJson (Json.mkObj [("view", Json.num (JsonNumber.fromNat k))]))
    let st' : St := { vs := vs', pool := pool' }
    let out := if (boolField j "obs").toOption.getD true
      then Json.mkObj [("r", rj), ("obs", obs st')]
      else Json.mkObj [("r", rj)]
    pure (st', out) : Except String (St × Json)) with
  | .ok r => r
  | .error e => (st, errJson s!"driver:{e}")

end DrvC11

def main : IO Unit := QuantemModel.Proto.run ({} : DrvC11.St) DrvC11.step
