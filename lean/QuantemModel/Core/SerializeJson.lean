import QuantemModel.Core.Proto
import QuantemModel.Model.Serialize
/- JSON codec of the serializer model's value universe, shared by the C01/C14/C08 drivers. -/
open Lean QuantemModel QuantemModel.Proto QuantemModel.Serialize

namespace QuantemModel.SerializeJson


def scalarOfJson (j : Json) : Except String Scalar := do
  let a ← j.getArr?
  let tag ← (a[0]?.getD Json.null).getStr?
  match tag with
  | "none" => pure .none
  | "bool" => pure (.bool (← a[1]!.getBool?))
  | "int" => match (← a[1]!.getStr?).toInt? with
      | some i => pure (.int i)
      | .none => throw "int"
  | "float" => pure (.float (← a[1]!.getNat?))
  | "str" => pure (.str (← a[1]!.getStr?))
  | t => throw s!"scalar tag {t}"

def scalarToJson : Scalar → Json
  | .none => Json.arr #["none"]
  | .bool b => Json.arr #["bool", Json.bool b]
  | .int i => Json.arr #["int", Json.str (toString i)]
  | .float b => Json.arr #["float", Json.num (JsonNumber.fromNat b)]
  | .str s => Json.arr #["str", Json.str s]

def kindOfStr : String → Except String TorchKind
  | "tensor" => pure .tensor | "parameter" => pure .parameter | "optimizer" => pure .optimizer
  | "scheduler" => pure .scheduler | "module" => pure .module | "other" => pure .other | k => throw s!"kind {k}"
def kindToStr : TorchKind → String
  | .tensor => "tensor" | .parameter => "parameter" | .optimizer => "optimizer"
  | .scheduler => "scheduler" | .module => "module" | .other => "other"

partial def valOfJson (j : Json) : Except String Val := do
  let a ← j.getArr?
  let tag ← (a[0]?.getD Json.null).getStr?
  let kvs (x : Json) : Except String (List (String × Val)) := do
    (← x.getArr?).toList.mapM fun it => do
      let pr ← it.getArr?
      pure ((← pr[0]!.getStr?), (← valOfJson pr[1]!))
  let vals (x : Json) : Except String (List Val) := do (← x.getArr?).toList.mapM valOfJson
  match tag with
  | "scalar" => pure (.scalar (← scalarOfJson a[1]!))
  | "np" => pure (.npScalar (← a[1]!.getStr?) (← scalarOfJson a[2]!))
  | "path" => pure (.path (← a[1]!.getStr?))
  | "nd" => pure (.ndarray (← a[1]!.getStr?) (← natList a[2]!) (← (← a[3]!.getArr?).toList.mapM scalarOfJson))
  | "torch" => pure (.torch (← kindOfStr (← a[1]!.getStr?)) (← a[2]!.getStr?) (← a[3]!.getNat?))
  | "fb" => pure (.fallback (← a[1]!.getStr?) (← a[2]!.getNat?))
  | "nprng" => pure (.npRng (← a[1]!.getStr?))
  | "trng" => pure .torchRng
  | "logger" => pure (.pyLogger (← a[1]!.getStr?) (← a[2]!.getInt?))
  | "list" => pure (.list (← vals a[1]!))
  | "tuple" => pure (.tuple (← vals a[1]!))
  | "set" => pure (.set (← vals a[1]!))
  | "dict" => pure (.dict (← kvs a[1]!))
  | "obj" => pure (.obj (← a[1]!.getStr?) (← kvs a[2]!))
  | t => throw s!"val tag {t}"

partial def valToJson : Val → Json
  | .scalar s => Json.arr #["scalar", scalarToJson s]
  | .npScalar dt s => Json.arr #["np", Json.str dt, scalarToJson s]
  | .path p => Json.arr #["path", Json.str p]
  | .ndarray dt sh data => Json.arr #["nd", Json.str dt, Json.arr (sh.map fun n => Json.num (JsonNumber.fromNat n)).toArray,
      Json.arr (data.map scalarToJson).toArray]
  | .torch k cls tok => Json.arr #["torch", Json.str (kindToStr k), Json.str cls, Json.num (JsonNumber.fromNat tok)]
  | .fallback cls tok => Json.arr #["fb", Json.str cls, Json.num (JsonNumber.fromNat tok)]
  | .rawBytes p => Json.arr #["raw", Json.str p.cls, Json.num (JsonNumber.fromNat p.tok)]
  | .npRng b => Json.arr #["nprng", Json.str b]
  | .torchRng => Json.arr #["trng"]
  | .pyLogger n l => Json.arr #["logger", Json.str n, Json.num (JsonNumber.fromInt l)]
  | .list xs => Json.arr #["list", Json.arr (xs.map valToJson).toArray]
  | .tuple xs => Json.arr #["tuple", Json.arr (xs.map valToJson).toArray]
  | .set xs => Json.arr #["set", Json.arr (xs.map valToJson).toArray]
  | .dict kvs => Json.arr #["dict", Json.arr (kvs.map fun (k, v) => Json.arr #[Json.str k, valToJson v]).toArray]
  | .obj cls kvs => Json.arr #["obj", Json.str cls, Json.arr (kvs.map fun (k, v) => Json.arr #[Json.str k, valToJson v]).toArray]


end QuantemModel.SerializeJson
