import QuantemModel.Core.Num
/- Complex numbers as explicit pairs over the carrier. Core Lean only. -/
namespace QuantemModel

structure Cx (R : Type) where
  re : R
  im : R
  deriving Repr

namespace Cx
variable {R : Type} [Num R]
def zero : Cx R := ⟨Num.zero, Num.zero⟩
def one : Cx R := ⟨Num.one, Num.zero⟩
def ofReal (x : R) : Cx R := ⟨x, Num.zero⟩
def add (a b : Cx R) : Cx R := ⟨a.re + b.re, a.im + b.im⟩
def sub (a b : Cx R) : Cx R := ⟨a.re - b.re, a.im - b.im⟩
def neg (a : Cx R) : Cx R := ⟨-a.re, -a.im⟩
def mul (a b : Cx R) : Cx R := ⟨a.re * b.re - a.im * b.im, a.re * b.im + a.im * b.re⟩
def conj (a : Cx R) : Cx R := ⟨a.re, -a.im⟩
def smul (s : R) (a : Cx R) : Cx R := ⟨s * a.re, s * a.im⟩
def abs2 (a : Cx R) : R := a.re * a.re + a.im * a.im
def abs (a : Cx R) : R := Num.sqrt (abs2 a)
/-- `exp(i θ)` -/
def cis (θ : R) : Cx R := ⟨Num.cos θ, Num.sin θ⟩
def angle (a : Cx R) : R := Num.atan2 a.im a.re
instance : Inhabited (Cx R) := ⟨zero⟩
instance : Add (Cx R) := ⟨add⟩
instance : Sub (Cx R) := ⟨sub⟩
instance : Mul (Cx R) := ⟨mul⟩
instance : Neg (Cx R) := ⟨neg⟩
def sum (xs : List (Cx R)) : Cx R := xs.foldl (· + ·) zero
end Cx

end QuantemModel
