/-
Line protocol shared by all drivers: one JSON object per line in, one per line out.
Core Lean only.
-/
import Lean.Data.Json
open Lean

namespace QuantemModel.Proto

def errJson (e : String) : Json := Json.mkObj [("err", Json.str e)]
def okJson (j : Json) : Json := Json.mkObj [("ok", j)]

def field (j : Json) (k : String) : Except String Json := j.getObjVal? k
def fieldD (j : Json) (k : String) (d : Json) : Json := (j.getObjVal? k).toOption.getD d
def strField (j : Json) (k : String) : Except String String := do (← field j k).getStr?
def intField (j : Json) (k : String) : Except String Int := do (← field j k).getInt?
def natField (j : Json) (k : String) : Except String Nat := do (← field j k).getNat?
def boolField (j : Json) (k : String) : Except String Bool := do (← field j k).getBool?
def arrField (j : Json) (k : String) : Except String (Array Json) := do (← field j k).getArr?
def intList (j : Json) : Except String (List Int) := do
  (← j.getArr?).toList.mapM (·.getInt?)
def natList (j : Json) : Except String (List Nat) := do
  (← j.getArr?).toList.mapM (·.getNat?)

/-- floats cross the protocol as IEEE-754 bit patterns (decimal UInt64) -/
def floatOfJson (j : Json) : Except String Float := do
  let n ← j.getNat?
  pure (Float.ofBits n.toUInt64)
def floatToJson (x : Float) : Json := Json.num (JsonNumber.fromNat x.toBits.toNat)
def floatList (j : Json) : Except String (List Float) := do
  (← j.getArr?).toList.mapM floatOfJson

/-- Generic read–eval–print loop over stdin with a state threaded through. -/
partial def loop {σ : Type} (h : IO.FS.Stream) (out : IO.FS.Stream) (st : σ)
    (step : σ → Json → σ × Json) : IO Unit := do
  let line ← h.getLine
  if line.isEmpty then return ()
  let t := line.trimAscii.toString
  if t.isEmpty then loop h out st step else
  match Json.parse t with
  | .error e =>
      out.putStrLn (errJson s!"parse:{e}").compress
      out.flush
      loop h out st step
  | .ok j =>
      let (st', r) := step st j
      out.putStrLn r.compress
      out.flush
      loop h out st' step

def run {σ : Type} (init : σ) (step : σ → Json → σ × Json) : IO Unit := do
  loop (← IO.getStdin) (← IO.getStdout) init step

end QuantemModel.Proto
