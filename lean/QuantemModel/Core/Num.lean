/-
Law-free numeric carrier (DESIGN.md §3): every float-facing model function is written
once over `[Num R]`; it is *executed* at `Float` (correspondence with NumPy/torch) or at
`Rat` (exact streams) and *reasoned about* at `ℝ` (Real/NumReal.lean).  Core Lean only.
-/
namespace QuantemModel

class Num (R : Type) extends Add R, Mul R, Sub R, Div R, Neg R where
  ofRat : Rat → R
  ltb : R → R → Bool
  leb : R → R → Bool
  sqrt : R → R
  cos : R → R
  sin : R → R
  exp : R → R
  log : R → R
  sinh : R → R
  asinh : R → R
  atan2 : R → R → R
  /-- real power `x ^ y` (NumPy `power` on floats) -/
  rpow : R → R → R
  pi : R

namespace Num
variable {R : Type} [Num R]
def zero : R := ofRat 0
def one : R := ofRat 1
def two : R := ofRat 2
def ofInt (i : Int) : R := ofRat (i : Rat)
def ofNat (n : Nat) : R := ofRat (n : Rat)
def abs (x : R) : R := if ltb x zero then -x else x
def max (a b : R) : R := if ltb a b then b else a
def min (a b : R) : R := if ltb b a then b else a
/-- `np.clip(x, lo, hi)` -/
def clip (x lo hi : R) : R := min (max x lo) hi
def sum (xs : List R) : R := xs.foldl (· + ·) zero
def sq (x : R) : R := x * x
end Num

instance : Num Float where
  ofRat q := Float.ofInt q.num / Float.ofNat q.den
  ltb a b := a < b
  leb a b := a ≤ b
  sqrt := Float.sqrt
  cos := Float.cos
  sin := Float.sin
  exp := Float.exp
  log := Float.log
  sinh := Float.sinh
  asinh := Float.asinh
  atan2 := Float.atan2
  rpow := Float.pow
  pi := 3.141592653589793

/-- exact instance: transcendental fields are not meaningful on `Rat`; they return 0 and
must not be reached by code run at this instance (algebraic streams only). -/
instance : Num Rat where
  ofRat q := q
  ltb a b := a < b
  leb a b := a ≤ b
  sqrt _ := 0
  cos _ := 0
  sin _ := 0
  exp _ := 0
  log _ := 0
  sinh _ := 0
  asinh _ := 0
  atan2 _ _ := 0
  rpow _ _ := 0
  pi := 0

end QuantemModel
