import QuantemModel.Core.Cx
/-
The defining O(N²) DFT sums, generic over the carrier (NumPy/torch `fft` are *assumed* to
compute these sums — trusted base — and every Float correspondence exercises that).
-/
namespace QuantemModel.Dft
open QuantemModel
variable {R : Type} [Num R]

/-- `exp(sign · 2πi · k·n / N)` -/
def twiddle (sign : Int) (N k n : Nat) : Cx R :=
  Cx.cis (Num.ofRat ((sign * 2 * (k * n % N : Nat) : Int) / (N : Int) : Rat) * Num.pi)

/-- `np.fft.fft` (forward, unnormalised): `X[k] = Σ_n x[n] exp(-2πi kn/N)` -/
def dft (x : List (Cx R)) : List (Cx R) :=
  let N := x.length
  (List.range N).map fun k => Cx.sum ((List.range N).zipWith (fun n xn => xn * twiddle (-1) N k n) x)

/-- `np.fft.ifft`: `x[n] = (1/N) Σ_k X[k] exp(+2πi kn/N)` -/
def idft (X : List (Cx R)) : List (Cx R) :=
  let N := X.length
  (List.range N).map fun n =>
    Cx.smul (Num.ofRat (1 / (N : Rat))) (Cx.sum ((List.range N).zipWith (fun k Xk => Xk * twiddle 1 N k n) X))

def transpose {α : Type} [Inhabited α] (m : List (List α)) : List (List α) :=
  match m with
  | [] => []
  | r :: _ => (List.range r.length).map fun j => m.map fun row => row[j]!

/-- `np.fft.fft2` on a row-major matrix -/
def dft2 (x : List (List (Cx R))) : List (List (Cx R)) :=
  transpose ((transpose (x.map dft)).map dft)

def idft2 (x : List (List (Cx R))) : List (List (Cx R)) :=
  transpose ((transpose (x.map idft)).map idft)

/-- `np.fft.fftfreq(N) * N` : the signed integer frequency of bin `k` -/
def fftfreqInt (N k : Nat) : Int := if 2 * k < N + (N % 2) then (k : Int) else (k : Int) - N

/-- `np.fft.fftshift` on a list (shift by `N / 2`) and its inverse -/
def fftshift {α : Type} (x : List α) : List α :=
  let s := x.length - x.length / 2
  x.drop s ++ x.take s
def ifftshift {α : Type} (x : List α) : List α :=
  let s := x.length / 2
  x.drop s ++ x.take s

/-- `np.roll(x, s)` for any integer shift -/
def roll {α : Type} (x : List α) (s : Int) : List α :=
  let N := x.length
  if N = 0 then x else
  let k := (s % (N : Int)).toNat
  x.drop (N - k) ++ x.take (N - k)

end QuantemModel.Dft
