import QuantemModel.Core.Cx
import Mathlib.Analysis.SpecialFunctions.Log.Basic
import Mathlib.Analysis.SpecialFunctions.Trigonometric.Basic
import Mathlib.Analysis.SpecialFunctions.Arsinh
import Mathlib.Analysis.SpecialFunctions.Pow.Real
import Mathlib.Analysis.SpecialFunctions.Sqrt
import Mathlib.Analysis.SpecialFunctions.Complex.Arg
/-!
The ℝ instance of the numeric carrier: the instance the theorems are about.
`rfl` simp lemmas rewrite the class projections to Mathlib's notation.
-/
namespace QuantemModel
open Classical in
noncomputable instance : Num ℝ where
  ofRat q := (q : ℝ)
  ltb a b := decide (a < b)
  leb a b := decide (a ≤ b)
  sqrt := Real.sqrt
  cos := Real.cos
  sin := Real.sin
  exp := Real.exp
  log := Real.log
  sinh := Real.sinh
  asinh := Real.arsinh
  atan2 y x := Complex.arg ⟨x, y⟩
  rpow x y := x ^ y
  pi := Real.pi

namespace NumReal
@[simp] theorem add_eq (a b : ℝ) : @HAdd.hAdd ℝ ℝ ℝ (@instHAdd ℝ Num.toAdd) a b = a + b := rfl
@[simp] theorem mul_eq (a b : ℝ) : @HMul.hMul ℝ ℝ ℝ (@instHMul ℝ Num.toMul) a b = a * b := rfl
@[simp] theorem sub_eq (a b : ℝ) : @HSub.hSub ℝ ℝ ℝ (@instHSub ℝ Num.toSub) a b = a - b := rfl
@[simp] theorem div_eq (a b : ℝ) : @HDiv.hDiv ℝ ℝ ℝ (@instHDiv ℝ Num.toDiv) a b = a / b := rfl
@[simp] theorem neg_eq (a : ℝ) : @Neg.neg ℝ Num.toNeg a = -a := rfl
@[simp] theorem ofRat_eq (q : Rat) : (Num.ofRat q : ℝ) = (q : ℝ) := rfl
@[simp] theorem zero_eq : (Num.zero : ℝ) = 0 := by simp [Num.zero]
@[simp] theorem one_eq : (Num.one : ℝ) = 1 := by simp [Num.one]
@[simp] theorem two_eq : (Num.two : ℝ) = 2 := by simp [Num.two]
@[simp] theorem ltb_eq (a b : ℝ) : (Num.ltb a b = true) ↔ a < b := by simp [Num.ltb]
@[simp] theorem leb_eq (a b : ℝ) : (Num.leb a b = true) ↔ a ≤ b := by simp [Num.leb]
@[simp] theorem sqrt_eq (a : ℝ) : Num.sqrt a = Real.sqrt a := rfl
@[simp] theorem cos_eq (a : ℝ) : Num.cos a = Real.cos a := rfl
@[simp] theorem sin_eq (a : ℝ) : Num.sin a = Real.sin a := rfl
@[simp] theorem exp_eq (a : ℝ) : Num.exp a = Real.exp a := rfl
@[simp] theorem log_eq (a : ℝ) : Num.log a = Real.log a := rfl
@[simp] theorem sinh_eq (a : ℝ) : Num.sinh a = Real.sinh a := rfl
@[simp] theorem asinh_eq (a : ℝ) : Num.asinh a = Real.arsinh a := rfl
@[simp] theorem rpow_eq (a b : ℝ) : Num.rpow a b = a ^ b := rfl
@[simp] theorem pi_eq : (Num.pi : ℝ) = Real.pi := rfl
@[simp] theorem ofInt_eq (i : Int) : (Num.ofInt i : ℝ) = (i : ℝ) := by simp [Num.ofInt]
@[simp] theorem ofNat_eq (n : Nat) : (Num.ofNat n : ℝ) = (n : ℝ) := by simp [Num.ofNat]
theorem abs_eq (a : ℝ) : Num.abs a = |a| := by
  unfold Num.abs
  by_cases h : a < 0
  · simp [h, abs_of_neg h]
  · simp [h, abs_of_nonneg (not_lt.mp h)]
theorem max_eq (a b : ℝ) : Num.max a b = max a b := by
  unfold Num.max
  by_cases h : a < b
  · simp [h, max_eq_right h.le]
  · simp [h, max_eq_left (not_lt.mp h)]
theorem min_eq (a b : ℝ) : Num.min a b = min a b := by
  unfold Num.min
  by_cases h : b < a
  · simp [h, min_eq_right h.le]
  · simp [h, min_eq_left (not_lt.mp h)]
end NumReal
end QuantemModel
