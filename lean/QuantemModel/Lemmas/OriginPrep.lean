/-
Helper lemmas for C18 (growth 6) over ℝ: the post-centre-of-mass stage of the dataset model
(Model/OriginPrep.lean) at integer fitted origins.
-/
import QuantemModel.Lemmas.OriginFit
import QuantemModel.Model.OriginPrep

namespace QuantemModel.Origin
open QuantemModel

/-- entries of a table built with `range`: a roll only re-indexes -/
theorem rolledAt_table {R : Type} [Num R] (h w : Nat) (hh : 0 < h) (hw : 0 < w) (a b : Int)
    (g : Nat → Nat → R) (i j : Nat) :
    rolledAt h w a b ((List.range h).map (fun i => (List.range w).map (fun j => g i j))) i j
      = g (((i : ℤ) - a) % (h : ℤ)).toNat (((j : ℤ) - b) % (w : ℤ)).toNat := by
  unfold rolledAt
  simp only [Int.ofNat_eq_natCast]
  have hh' : (0 : ℤ) < (h : ℤ) := by exact_mod_cast hh
  have hw' : (0 : ℤ) < (w : ℤ) := by exact_mod_cast hw
  have h1 : (((i : ℤ) - a) % (h : ℤ)).toNat < h := by
    have := Int.emod_lt_of_pos ((i : ℤ) - a) hh'
    have := Int.emod_nonneg ((i : ℤ) - a) hh'.ne'
    omega
  have h2 : (((j : ℤ) - b) % (w : ℤ)).toNat < w := by
    have := Int.emod_lt_of_pos ((j : ℤ) - b) hw'
    have := Int.emod_nonneg ((j : ℤ) - b) hw'.ne'
    omega
  simp [List.getD_eq_getElem?_getD, List.getElem?_map, List.getElem?_range, h1, h2]

theorem getD_nonneg_row (row : List ℝ) (k : Nat) (hr : ∀ v ∈ row, 0 ≤ v) :
    0 ≤ row.getD k (Num.zero : ℝ) := by
  rw [List.getD_eq_getElem?_getD]
  cases hk : row[k]? with
  | none => simp
  | some v => simpa using hr v (List.mem_of_getElem? hk)

theorem rolledAt_nonneg (h w : Nat) (a b : Int) (amp : Pattern ℝ)
    (hpos : ∀ row ∈ amp, ∀ v ∈ row, 0 ≤ v) (i j : Nat) : 0 ≤ rolledAt h w a b amp i j := by
  unfold rolledAt
  apply getD_nonneg_row
  rw [List.getD_eq_getElem?_getD]
  cases hk : amp[((Int.ofNat i - a) % Int.ofNat h).toNat]? with
  | none => simp
  | some r => simpa using hpos r (List.mem_of_getElem? hk)

/-- integer shifts: the bilinear weights are (1, 0, 0, 0) -/
theorem shiftArrayBilinear_int (h w : Nat) (m n : ℤ) (ar : Pattern ℝ) :
    shiftArrayBilinear h w (m : ℝ) (n : ℝ) ar
      = (List.range h).map (fun i => (List.range w).map (fun j => rolledAt h w m n ar i j)) := by
  unfold shiftArrayBilinear
  simp only [floorReal_eq, Int.floor_intCast, NumReal.sub_eq, NumReal.mul_eq, NumReal.add_eq,
    NumReal.ofInt_eq, NumReal.one_eq, sub_self, sub_zero, mul_zero, zero_mul, mul_one, add_zero]

theorem relu2_table (h w : Nat) (g : Nat → Nat → ℝ) (hg : ∀ i j, 0 ≤ g i j) :
    relu2 ((List.range h).map (fun i => (List.range w).map (fun j => g i j)))
      = (List.range h).map (fun i => (List.range w).map (fun j => g i j)) := by
  unfold relu2
  rw [List.map_map]
  apply List.map_congr_left
  intro i _
  simp only [Function.comp_apply, List.map_map]
  apply List.map_congr_left
  intro j _
  simp only [Function.comp_apply, NumReal.max_eq, NumReal.zero_eq]
  exact max_eq_left (hg i j)

/-- index arithmetic of `fftshift ∘ roll(-o)`: one roll by `o - c` -/
theorem idx_compose (i h : Nat) (hh : 0 < h) (c o : ℤ) :
    ((((((i : ℤ) - c) % (h : ℤ)).toNat : ℕ) : ℤ) - -o) % (h : ℤ) = ((i : ℤ) + (o - c)) % (h : ℤ) := by
  have hh' : (0 : ℤ) < (h : ℤ) := by exact_mod_cast hh
  have hp : 0 ≤ ((i : ℤ) - c) % (h : ℤ) := Int.emod_nonneg _ hh'.ne'
  rw [Int.toNat_of_nonneg hp, sub_neg_eq_add, Int.emod_add_emod]
  congr 1
  ring

end QuantemModel.Origin
