import QuantemModel.Lemmas.SerializeInd
/-! `canon` is idempotent and preserves well-formedness (for the fixed-point clause of C01). -/
namespace QuantemModel.Serialize

theorem nsVal_canon (v : Val) : nsVal (canon v) = nsVal v := by
  cases v with
  | list xs => simp only [canon]; split <;> simp [nsVal]
  | tuple xs => simp only [canon]; split <;> simp [nsVal]
  | set xs => simp only [canon]; split <;> simp [nsVal]
  | _ => simp [canon, nsVal]

theorem isNumeric_canon (v : Val) : isNumeric (canon v) = isNumeric v := by
  cases v with
  | npScalar dt s => cases s <;> simp [canon, isNumeric]
  | list xs => simp only [canon]; split <;> simp [isNumeric]
  | tuple xs => simp only [canon]; split <;> simp [isNumeric]
  | set xs => simp only [canon]; split <;> simp [isNumeric]
  | _ => simp [canon, isNumeric]

theorem containerOk_canon (v : Val) : containerOk (canon v) = containerOk v := by
  cases v with
  | list xs => simp only [canon]; split <;> simp [containerOk]
  | tuple xs => simp only [canon]; split <;> simp [containerOk]
  | set xs => simp only [canon]; split <;> simp [containerOk]
  | torch k c t => cases k <;> simp [canon, containerOk]
  | _ => simp [canon, containerOk]

def numScalar : Scalar → Bool
  | .bool _ | .int _ | .float _ => true
  | _ => false

theorem numScalar_of_isNumeric (v : Val) (h : isNumeric v = true) : numScalar (scalarOf v) = true := by
  cases v with
  | scalar s => cases s <;> simp [isNumeric] at h <;> simp [scalarOf, numScalar]
  | npScalar dt s => cases s <;> simp [isNumeric] at h <;> simp [scalarOf, numScalar]
  | _ => simp [isNumeric] at h

/-- casting to the promoted class again changes nothing, and the class is stable -/
theorem castTo_promote_stable (ss : List Scalar) (hne : ss ≠ []) (hnum : ∀ s ∈ ss, numScalar s = true) :
    promote (ss.map (castTo (promote ss))) = promote ss ∧
    (ss.map (castTo (promote ss))).map (castTo (promote ss)) = ss.map (castTo (promote ss)) := by
  by_cases hb : ss.all isBoolS = true
  · have hp : promote ss = .bool := by unfold promote; rw [if_pos hb]
    rw [hp]
    have hid : ss.map (castTo .bool) = ss := by
      have : ∀ s : Scalar, castTo .bool s = s := by intro s; cases s <;> rfl
      rw [List.map_congr_left (fun s _ => this s)]
      simp
    rw [hid, hid]
    exact ⟨hp, rfl⟩
  · by_cases hi : ss.all isBoolOrIntS = true
    · have hp : promote ss = .int := by unfold promote; rw [if_neg hb, if_pos hi]
      rw [hp]
      have hall : ∀ s ∈ ss, ∃ i, castTo .int s = .int i := by
        intro s hs
        have := List.all_eq_true.mp hi s hs
        cases s <;> simp [isBoolOrIntS] at this
        · exact ⟨_, rfl⟩
        · exact ⟨_, rfl⟩
      constructor
      · unfold promote
        have h1 : (ss.map (castTo .int)).all isBoolS = false := by
          cases ss with
          | nil => exact absurd rfl hne
          | cons a rest =>
            obtain ⟨i, hi'⟩ := hall a (by simp)
            simp [hi', isBoolS, isBoolOrIntS]
        have h2 : (ss.map (castTo .int)).all isBoolOrIntS = true := by
          rw [List.all_eq_true]
          intro s hs
          obtain ⟨s0, hs0, rfl⟩ := List.mem_map.mp hs
          obtain ⟨i, hi'⟩ := hall s0 hs0
          simp [hi', isBoolOrIntS]
        rw [if_neg (by rw [h1]; simp), if_pos h2]
      · rw [List.map_map]
        apply List.map_congr_left
        intro s hs
        obtain ⟨i, hi'⟩ := hall s hs
        show castTo _ (castTo _ s) = castTo _ s
        rw [hi']; rfl
    · have hp : promote ss = .float := by unfold promote; rw [if_neg hb, if_neg hi]
      rw [hp]
      have hall : ∀ s ∈ ss, ∃ b, castTo .float s = .float b := by
        intro s hs
        have := hnum s hs
        cases s <;> simp [numScalar] at this
        · exact ⟨_, rfl⟩
        · exact ⟨_, rfl⟩
        · exact ⟨_, rfl⟩
      constructor
      · unfold promote
        have h1 : (ss.map (castTo .float)).all isBoolS = false := by
          cases ss with
          | nil => exact absurd rfl hne
          | cons a rest =>
            obtain ⟨i, hi'⟩ := hall a (by simp)
            simp [hi', isBoolS, isBoolOrIntS]
        have h2 : (ss.map (castTo .float)).all isBoolOrIntS = false := by
          cases ss with
          | nil => exact absurd rfl hne
          | cons a rest =>
            obtain ⟨i, hi'⟩ := hall a (by simp)
            simp [hi', isBoolS, isBoolOrIntS]
        rw [if_neg (by rw [h1]; simp), if_neg (by rw [h2]; simp)]
      · rw [List.map_map]
        apply List.map_congr_left
        intro s hs
        obtain ⟨i, hi'⟩ := hall s hs
        show castTo _ (castTo _ s) = castTo _ s
        rw [hi']; rfl

theorem canonNumeric_stable (xs : List Val) (hf : isFast xs = true) :
    isFast (canonNumeric xs) = true ∧ canonNumeric (canonNumeric xs) = canonNumeric xs := by
  have hf' : xs.all isNumeric = true ∧ xs.isEmpty = false := by
    simpa [isFast] using hf
  have hne : xs.map scalarOf ≠ [] := by
    cases xs with
    | nil => simp at hf'
    | cons a b => simp
  have hnum : ∀ s ∈ xs.map scalarOf, numScalar s = true := by
    intro s hs
    obtain ⟨v, hv, rfl⟩ := List.mem_map.mp hs
    exact numScalar_of_isNumeric v (List.all_eq_true.mp hf'.1 v hv)
  obtain ⟨h1, h2⟩ := castTo_promote_stable (xs.map scalarOf) hne hnum
  have hso : (canonNumeric xs).map scalarOf = (xs.map scalarOf).map (castTo (promote (xs.map scalarOf))) := by
    simp [canonNumeric, List.map_map, Function.comp_def, scalarOf]
  constructor
  · unfold isFast
    have ha : (canonNumeric xs).all isNumeric = true := by
      rw [List.all_eq_true]
      intro v hv
      simp only [canonNumeric, List.mem_map] at hv
      obtain ⟨s, ⟨s0, hs0, rfl⟩, rfl⟩ := hv
      have hn := hnum s0 (List.mem_map.mpr hs0)
      cases s0 <;> simp [numScalar] at hn <;> cases hc : promote (List.map scalarOf xs) <;> simp [castTo, isNumeric]
    have he : (canonNumeric xs).isEmpty = false := by
      cases xs with
      | nil => simp at hf'
      | cons a b => simp [canonNumeric]
    simp [ha, he]
  · show ((((canonNumeric xs).map scalarOf).map (castTo (promote ((canonNumeric xs).map scalarOf)))).map Val.scalar) = _
    rw [hso, h1, h2]
    simp [canonNumeric]

theorem isFast_canonList (xs : List Val) : isFast (canonList xs) = isFast xs := by
  have h : ∀ xs : List Val, (canonList xs).all isNumeric = xs.all isNumeric ∧ (canonList xs).isEmpty = xs.isEmpty := by
    intro xs
    induction xs with
    | nil => simp [canonList]
    | cons a b ih => simp [canonList, isNumeric_canon, ih.1]
  simp [isFast, (h xs).1, (h xs).2]

theorem canonList_eq_map (xs : List Val) : canonList xs = xs.map canon := by
  induction xs with
  | nil => rfl
  | cons a b ih => simp [canonList, ih]

theorem canonKvs_eq_map (kvs : List (String × Val)) :
    canonKvs kvs = kvs.map (fun kv => (kv.1, nsVal kv.2, canon kv.2)) := by
  induction kvs with
  | nil => rfl
  | cons a b ih => obtain ⟨k, v⟩ := a; simp [canonKvs, ih]

theorem wfItems_iff (xs : List Val) : wfItems xs = true ↔ ∀ v ∈ xs, containerOk v = true ∧ wfA v = true := by
  induction xs with
  | nil => simp [wfItems]
  | cons a b ih => simp [wfItems, ih, and_assoc]

theorem wfKids_iff (kvs : List (String × Val)) :
    wfKids kvs = true ↔ ∀ kv ∈ kvs, containerOk kv.2 = true ∧ wfA kv.2 = true := by
  induction kvs with
  | nil => simp [wfKids]
  | cons a b ih => obtain ⟨k, v⟩ := a; simp [wfKids, ih, and_assoc]

theorem wfAttrs_iff (kvs : List (String × Val)) : wfAttrs kvs = true ↔ ∀ kv ∈ kvs, wfA kv.2 = true := by
  induction kvs with
  | nil => simp [wfAttrs]
  | cons a b ih => obtain ⟨k, v⟩ := a; simp [wfAttrs, ih]

def strip3 (x : String × Ns × Val) : String × Val := (x.1, x.2.2)
def retag (kv : String × Val) : String × Ns × Val := (kv.1, nsVal kv.2, kv.2)

theorem reorder_eq (X : List (String × Ns × Val)) :
    reorder X = (X.filter (fun x => x.2.1 == .attr)).map strip3 ++ (X.filter (fun x => x.2.1 == .array)).map strip3 ++
      (X.filter (fun x => x.2.1 == .group)).map strip3 := rfl

theorem mem_reorder (X : List (String × Ns × Val)) (kv : String × Val) (h : kv ∈ reorder X) :
    ∃ x ∈ X, kv = strip3 x := by
  rw [reorder_eq] at h
  simp only [List.mem_append, List.mem_map, List.mem_filter] at h
  rcases h with (⟨x, ⟨hx, _⟩, rfl⟩ | ⟨x, ⟨hx, _⟩, rfl⟩) | ⟨x, ⟨hx, _⟩, rfl⟩ <;> exact ⟨x, hx, rfl⟩

theorem mem_of_mem_reorder_strip (X : List (String × Ns × Val)) (x : String × Ns × Val) (h : x ∈ X) :
    strip3 x ∈ reorder X := by
  rw [reorder_eq]
  simp only [List.mem_append, List.mem_map, List.mem_filter]
  obtain ⟨k, ns, v⟩ := x
  cases ns
  · exact Or.inl (Or.inl ⟨_, ⟨h, rfl⟩, rfl⟩)
  · exact Or.inl (Or.inr ⟨_, ⟨h, rfl⟩, rfl⟩)
  · exact Or.inr ⟨_, ⟨h, rfl⟩, rfl⟩

private theorem filter_filter_ne {α : Type} (p q : α → Bool) (l : List α) (h : ∀ x, p x = true → q x = false) :
    (l.filter p).filter q = [] := by
  rw [List.filter_eq_nil_iff]
  intro x hx
  have := (List.mem_filter.mp hx).2
  simp [h x this]

private theorem filter_filter_self {α : Type} (p : α → Bool) (l : List α) : (l.filter p).filter p = l.filter p := by
  rw [List.filter_filter]; simp

/-- restoration order applied to an already restored (correctly tagged) list changes nothing -/
theorem reorder_stable (X : List (String × Ns × Val)) (htag : ∀ x ∈ X, x.2.1 = nsVal x.2.2) :
    reorder ((reorder X).map retag) = reorder X := by
  have hrt : ∀ (p : (String × Ns × Val) → Bool), ((X.filter p).map strip3).map retag = X.filter p := by
    intro p
    rw [List.map_map]
    conv => rhs; rw [← List.map_id (X.filter p)]
    apply List.map_congr_left
    intro x hx
    have := htag x (List.mem_filter.mp hx).1
    obtain ⟨k, ns, v⟩ := x
    simp only at this
    simp [strip3, retag, this]
  have e : ∀ a b : Ns, (a == b) = decide (a = b) := by intro a b; cases a <;> cases b <;> decide
  have hS : (reorder X).map retag =
      X.filter (fun x => x.2.1 == .attr) ++ X.filter (fun x => x.2.1 == .array) ++ X.filter (fun x => x.2.1 == .group) := by
    rw [reorder_eq]
    simp only [List.map_append, hrt]
  rw [hS, reorder_eq]
  simp only [List.filter_append, filter_filter_self]
  rw [filter_filter_ne (fun x => x.2.1 == Ns.array) (fun x => x.2.1 == Ns.attr) X (by intro x hx; simp [e] at hx ⊢; simp [hx]),
    filter_filter_ne (fun x => x.2.1 == Ns.group) (fun x => x.2.1 == Ns.attr) X (by intro x hx; simp [e] at hx ⊢; simp [hx]),
    filter_filter_ne (fun x => x.2.1 == Ns.attr) (fun x => x.2.1 == Ns.array) X (by intro x hx; simp [e] at hx ⊢; simp [hx]),
    filter_filter_ne (fun x => x.2.1 == Ns.group) (fun x => x.2.1 == Ns.array) X (by intro x hx; simp [e] at hx ⊢; simp [hx]),
    filter_filter_ne (fun x => x.2.1 == Ns.attr) (fun x => x.2.1 == Ns.group) X (by intro x hx; simp [e] at hx ⊢; simp [hx]),
    filter_filter_ne (fun x => x.2.1 == Ns.array) (fun x => x.2.1 == Ns.group) X (by intro x hx; simp [e] at hx ⊢; simp [hx])]
  simp [reorder_eq]

/-- `canon` of a restored key/value list is the list itself -/
theorem canonKvs_reorder_stable (kvs : List (String × Val))
    (hid : ∀ kv ∈ kvs, canon (canon kv.2) = canon kv.2) :
    reorder (canonKvs (reorder (canonKvs kvs))) = reorder (canonKvs kvs) := by
  have htag : ∀ x ∈ canonKvs kvs, x.2.1 = nsVal x.2.2 := by
    intro x hx
    rw [canonKvs_eq_map] at hx
    obtain ⟨kv, _, rfl⟩ := List.mem_map.mp hx
    simp [nsVal_canon]
  have hfix : ∀ kv ∈ reorder (canonKvs kvs), canon kv.2 = kv.2 := by
    intro kv hkv
    obtain ⟨x, hx, rfl⟩ := mem_reorder _ _ hkv
    rw [canonKvs_eq_map] at hx
    obtain ⟨kv0, hkv0, rfl⟩ := List.mem_map.mp hx
    simpa [strip3] using hid kv0 hkv0
  have : canonKvs (reorder (canonKvs kvs)) = (reorder (canonKvs kvs)).map retag := by
    rw [canonKvs_eq_map]
    apply List.map_congr_left
    intro kv hkv
    simp [retag, hfix kv hkv]
  rw [this]
  exact reorder_stable _ htag

/-- **`canon` is idempotent and preserves well-formedness** -/
theorem canon_stable :
    (∀ v : Val, canon (canon v) = canon v ∧ (wfA v = true → wfA (canon v) = true)) := by
  have key := vals_induction
    (P := fun v => canon (canon v) = canon v ∧ (wfA v = true → wfA (canon v) = true))
    (Ps := fun xs => ∀ v ∈ xs, canon (canon v) = canon v ∧ (wfA v = true → wfA (canon v) = true))
    (Pk := fun kvs => ∀ kv ∈ kvs, canon (canon kv.2) = canon kv.2 ∧ (wfA kv.2 = true → wfA (canon kv.2) = true))
  apply (key ?_ ?_ ?_ ?_ ?_ ?_ ?_ ?_ ?_ ?_).1
  · -- leaves
    intro v hv
    cases v <;> simp at hv <;> simp [canon, wfA]
  · -- list
    intro xs ih
    by_cases hf : isFast xs = true
    · obtain ⟨h1, h2⟩ := canonNumeric_stable xs hf
      refine ⟨by simp [canon, hf, h1, h2], ?_⟩
      intro _
      simp only [canon, hf, if_true, wfA]
      rw [wfItems_iff]
      intro v hv
      simp only [canonNumeric, List.mem_map] at hv
      obtain ⟨s, _, rfl⟩ := hv
      simp [containerOk, wfA]
    · have hf' : isFast (canonList xs) = false := by rw [isFast_canonList]; simpa using hf
      refine ⟨?_, ?_⟩
      · simp only [canon, hf, hf', if_false, Bool.false_eq_true]
        congr 1
        rw [canonList_eq_map, canonList_eq_map, List.map_map]
        apply List.map_congr_left
        intro v hv
        exact (ih v hv).1
      · intro hw
        simp only [canon, hf, if_false, Bool.false_eq_true, wfA] at hw ⊢
        rw [wfItems_iff] at hw ⊢
        intro v hv
        rw [canonList_eq_map] at hv
        obtain ⟨v0, hv0, rfl⟩ := List.mem_map.mp hv
        exact ⟨by rw [containerOk_canon]; exact (hw v0 hv0).1, (ih v0 hv0).2 (hw v0 hv0).2⟩
  · -- tuple
    intro xs ih
    by_cases hf : isFast xs = true
    · obtain ⟨h1, h2⟩ := canonNumeric_stable xs hf
      refine ⟨by simp [canon, hf, h1, h2], ?_⟩
      intro _
      simp only [canon, hf, if_true, wfA]
      rw [wfItems_iff]
      intro v hv
      simp only [canonNumeric, List.mem_map] at hv
      obtain ⟨s, _, rfl⟩ := hv
      simp [containerOk, wfA]
    · have hf' : isFast (canonList xs) = false := by rw [isFast_canonList]; simpa using hf
      refine ⟨?_, ?_⟩
      · simp only [canon, hf, hf', if_false, Bool.false_eq_true]
        congr 1
        rw [canonList_eq_map, canonList_eq_map, List.map_map]
        apply List.map_congr_left
        intro v hv
        exact (ih v hv).1
      · intro hw
        simp only [canon, hf, if_false, Bool.false_eq_true, wfA] at hw ⊢
        rw [wfItems_iff] at hw ⊢
        intro v hv
        rw [canonList_eq_map] at hv
        obtain ⟨v0, hv0, rfl⟩ := List.mem_map.mp hv
        exact ⟨by rw [containerOk_canon]; exact (hw v0 hv0).1, (ih v0 hv0).2 (hw v0 hv0).2⟩
  · -- set
    intro xs ih
    by_cases hf : isFast xs = true
    · obtain ⟨h1, h2⟩ := canonNumeric_stable xs hf
      refine ⟨by simp [canon, hf, h1, h2], ?_⟩
      intro _
      simp only [canon, hf, if_true, wfA]
      rw [wfItems_iff]
      intro v hv
      simp only [canonNumeric, List.mem_map] at hv
      obtain ⟨s, _, rfl⟩ := hv
      simp [containerOk, wfA]
    · have hf' : isFast (canonList xs) = false := by rw [isFast_canonList]; simpa using hf
      refine ⟨?_, ?_⟩
      · simp only [canon, hf, hf', if_false, Bool.false_eq_true]
        congr 1
        rw [canonList_eq_map, canonList_eq_map, List.map_map]
        apply List.map_congr_left
        intro v hv
        exact (ih v hv).1
      · intro hw
        simp only [canon, hf, if_false, Bool.false_eq_true, wfA] at hw ⊢
        rw [wfItems_iff] at hw ⊢
        intro v hv
        rw [canonList_eq_map] at hv
        obtain ⟨v0, hv0, rfl⟩ := List.mem_map.mp hv
        exact ⟨by rw [containerOk_canon]; exact (hw v0 hv0).1, (ih v0 hv0).2 (hw v0 hv0).2⟩
  · -- dict
    intro kvs ih
    refine ⟨?_, ?_⟩
    · simp only [canon]
      congr 1
      exact canonKvs_reorder_stable kvs (fun kv hkv => (ih kv hkv).1)
    · intro hw
      simp only [canon, wfA] at hw ⊢
      rw [wfKids_iff] at hw ⊢
      intro kv hkv
      obtain ⟨x, hx, rfl⟩ := mem_reorder _ _ hkv
      rw [canonKvs_eq_map] at hx
      obtain ⟨kv0, hkv0, rfl⟩ := List.mem_map.mp hx
      simp only [strip3]
      exact ⟨by rw [containerOk_canon]; exact (hw kv0 hkv0).1, (ih kv0 hkv0).2 (hw kv0 hkv0).2⟩
  · -- obj
    intro cls kvs ih
    refine ⟨?_, ?_⟩
    · simp only [canon]
      congr 1
      exact canonKvs_reorder_stable kvs (fun kv hkv => (ih kv hkv).1)
    · intro hw
      simp only [canon, wfA] at hw ⊢
      rw [wfAttrs_iff] at hw ⊢
      intro kv hkv
      obtain ⟨x, hx, rfl⟩ := mem_reorder _ _ hkv
      rw [canonKvs_eq_map] at hx
      obtain ⟨kv0, hkv0, rfl⟩ := List.mem_map.mp hx
      simp only [strip3]
      exact (ih kv0 hkv0).2 (hw kv0 hkv0)
  · intro v hv; simp at hv
  · intro v xs hv hxs w hw
    rcases List.mem_cons.mp hw with rfl | h
    · exact hv
    · exact hxs w h
  · intro kv hkv; simp at hkv
  · intro k v kvs hv hkvs kv hkv
    rcases List.mem_cons.mp hkv with rfl | h
    · exact hv
    · exact hkvs kv h

end QuantemModel.Serialize
