import QuantemModel.Lemmas.DirectPtychoReal
import QuantemModel.Lemmas.PtychoOpsDft
/-!
# The executable FFT pair `Fourier.dft` of `Model/DirectPtycho.lean` is the DFT (growth round 6, C04)

Bridge from the flat-array separable DFT (`dftAxis0 / dftAxis1`, twiddle table) at the real-number instance to the
Finset-indexed spectral core over `ℂ` (`Lemmas/Spectral.lean`), via `PtychoOps.toC`; then inversion
(`ifft2 ∘ fft2 = id`, roots-of-unity orthogonality from `Spectral.idft2_dft2`).
-/
namespace QuantemModel.DirectPtycho
open QuantemModel Finset
open QuantemModel.PtychoOps (toC toC_injective)

theorem toC_foldl_range (m : Nat) (f : Nat → Cx ℝ) :
    toC ((List.range m).foldl (fun acc k => acc + f k) Cx.zero) = ∑ k ∈ range m, toC (f k) := by
  induction m with
  | zero => simp
  | succ m ih =>
    rw [List.range_succ, List.foldl_append]
    simp [Finset.sum_range_succ, ih]

theorem toC_twiddles (sign : Int) {N : Nat} (hN : N ≠ 0) (k a : Nat) :
    toC ((twiddles sign N : Array (Cx ℝ))[(k * a) % N]!) = Spectral.e N (sign * ((k : ℤ) * a)) := by
  have hlt : (k * a) % N < N := Nat.mod_lt _ (Nat.pos_of_ne_zero hN)
  have : (twiddles sign N : Array (Cx ℝ))[(k * a) % N]! = Dft.twiddle sign N k a := by
    unfold twiddles Dft.twiddle
    simp [hlt]
    norm_cast
  rw [this, PtychoOps.toC_twiddle hN]

theorem getElem!_map_range {β : Type} [Inhabited β] (n : Nat) (g : Nat → β) {p : Nat} (hp : p < n) :
    ((Array.range n).map g)[p]! = g p := by
  simp [hp]

theorem idx_lt {r c a b : Nat} (ha : a < r) (hb : b < c) : a * c + b < r * c := by
  calc a * c + b < a * c + c := by omega
    _ = (a + 1) * c := by ring
    _ ≤ r * c := Nat.mul_le_mul_right _ ha

theorem idx_div {c a b : Nat} (hb : b < c) : (a * c + b) / c = a := by
  have hc : 0 < c := by omega
  rw [Nat.add_comm, Nat.add_mul_div_right _ _ hc, Nat.div_eq_of_lt hb, Nat.zero_add]

theorem idx_mod {c a b : Nat} (hb : b < c) : (a * c + b) % c = b := by
  rw [Nat.add_comm, Nat.add_mul_mod_self_right, Nat.mod_eq_of_lt hb]

/-- entry `(a, b)` of the separable transform with sign `s`: the double DFT sum -/
theorem toC_axis2_entry (s : Int) {r c : Nat} (hr : r ≠ 0) (hc : c ≠ 0) (X : Array (Cx ℝ)) {a b : Nat}
    (ha : a < r) (hb : b < c) :
    toC ((dftAxis1 s r c (dftAxis0 s r c X))[a * c + b]!) =
      ∑ l ∈ range c, (∑ k ∈ range r, toC X[k * c + l]! * Spectral.e r (s * ((k : ℤ) * a))) *
        Spectral.e c (s * ((l : ℤ) * b)) := by
  rw [dftAxis1_eq]
  unfold axisT
  rw [getElem!_map_range _ _ (idx_lt ha hb), toC_foldl_range]
  refine sum_congr rfl fun l hl => ?_
  have hl' := mem_range.mp hl
  beta_reduce
  rw [PtychoOps.toC_mul, idx_div hb, idx_mod hb, toC_twiddles s hc]
  congr 1
  rw [dftAxis0_eq]
  unfold axisT
  rw [getElem!_map_range _ _ (idx_lt ha hl'), toC_foldl_range]
  refine sum_congr rfl fun k _ => ?_
  beta_reduce
  rw [PtychoOps.toC_mul, idx_div hl', idx_mod hl', toC_twiddles s hr]

/-- the entry function of a flat row-major array, in `ℂ` -/
noncomputable def entC (c : Nat) (X : Array (Cx ℝ)) (m n : Nat) : ℂ := toC X[m * c + n]!

theorem toC_fft_entry {r c : Nat} (hr : r ≠ 0) (hc : c ≠ 0) (X : Array (Cx ℝ)) {a b : Nat} (ha : a < r) (hb : b < c) :
    toC ((dftAxis1 (-1) r c (dftAxis0 (-1) r c X))[a * c + b]!) = Spectral.dft2 r c (entC c X) a b := by
  rw [toC_axis2_entry (-1) hr hc X ha hb, Spectral.dft2_eq_sum]
  simp_rw [Finset.sum_mul]
  rw [Finset.sum_comm]
  refine sum_congr rfl fun k _ => sum_congr rfl fun l _ => ?_
  unfold entC
  have e1 : ((-1 : ℤ) * ((k : ℤ) * a)) = -((a : ℤ) * k) := by ring
  have e2 : ((-1 : ℤ) * ((l : ℤ) * b)) = -((b : ℤ) * l) := by ring
  rw [e1, e2]
  ring

theorem toC_ifft_entry {r c : Nat} (hr : r ≠ 0) (hc : c ≠ 0) (X : Array (Cx ℝ)) {a b : Nat} (ha : a < r) (hb : b < c) :
    toC (Cx.smul (Num.ofRat (1 / (((r * c : Nat) : Int) : Rat))) ((dftAxis1 1 r c (dftAxis0 1 r c X))[a * c + b]!)) =
      Spectral.idft2 r c (entC c X) a b := by
  rw [PtychoOps.toC_smul, toC_axis2_entry 1 hr hc X ha hb, Spectral.idft2_eq_sum]
  congr 1
  · simp only [NumReal.ofRat_eq]
    push_cast
    have hr' : (r : ℂ) ≠ 0 := by exact_mod_cast hr
    have hc' : (c : ℂ) ≠ 0 := by exact_mod_cast hc
    field_simp
  · simp_rw [Finset.sum_mul]
    rw [Finset.sum_comm]
    refine sum_congr rfl fun k _ => sum_congr rfl fun l _ => ?_
    unfold entC
    rw [one_mul, one_mul]
    ring

/-- `fft2` returns an image of the grid's size -/
theorem dft_fft2_length (r c : Nat) (y : Img (Cx ℝ)) : ((Fourier.dft : Fourier ℝ).fft2 r c y).length = r * c := by
  show (dftAxis1 (-1) r c _).toList.length = _
  rw [dftAxis1_eq, length_axisT]

theorem dft_ifft2_length (r c : Nat) (y : Img (Cx ℝ)) : ((Fourier.dft : Fourier ℝ).ifft2 r c y).length = r * c := by
  show ((dftAxis1 1 r c _).toList.map _).length = _
  rw [List.length_map, dftAxis1_eq, length_axisT]

theorem ifft2_def (r c : Nat) (y : Img (Cx ℝ)) : (Fourier.dft : Fourier ℝ).ifft2 r c y =
    ((dftAxis1 1 r c (dftAxis0 1 r c y.toArray)).toList).map
      (Cx.smul (Num.ofRat (1 / (((r * c : Nat) : Int) : Rat)))) := rfl

theorem fft2_def (r c : Nat) (y : Img (Cx ℝ)) : (Fourier.dft : Fourier ℝ).fft2 r c y =
    (dftAxis1 (-1) r c (dftAxis0 (-1) r c y.toArray)).toList := rfl

/-- **inversion**: for the model's executable FFT pair, `ifft2 (fft2 x) = x` on every `r × c` image -/
theorem dft_inverse (r c : Nat) (x : Img (Cx ℝ)) (h : x.length = r * c) :
    (Fourier.dft : Fourier ℝ).ifft2 r c ((Fourier.dft : Fourier ℝ).fft2 r c x) = x := by
  rw [ifft2_def]
  apply List.ext_getElem
  · rw [List.length_map, dftAxis1_eq, length_axisT, h]
  · intro p h1 h2
    have hp : p < r * c := h ▸ h2
    have hc : c ≠ 0 := by rintro rfl; simp at hp
    have hr : r ≠ 0 := by rintro rfl; simp at hp
    have ha : p / c < r := Nat.div_lt_of_lt_mul (by rw [Nat.mul_comm]; exact hp)
    have hb : p % c < c := Nat.mod_lt _ (Nat.pos_of_ne_zero hc)
    apply toC_injective
    have key := toC_ifft_entry hr hc ((Fourier.dft : Fourier ℝ).fft2 r c x).toArray ha hb
    rw [Nat.div_add_mod' p c] at key
    have hY : ∀ k < r, ∀ l < c, entC c ((Fourier.dft : Fourier ℝ).fft2 r c x).toArray k l =
        Spectral.dft2 r c (entC c x.toArray) k l := by
      intro k hk l hl
      unfold entC
      rw [fft2_def, Array.toArray_toList]
      exact toC_fft_entry hr hc x.toArray hk hl
    rw [Spectral.idft2_congr hY, Spectral.idft2_dft2 _ ha hb] at key
    unfold entC at key
    rw [Nat.div_add_mod' p c] at key
    rw [List.getElem_map, Array.getElem_toList, ← getElem!_pos, key, List.getElem!_toArray, getElem!_pos x p h2]

/-- … in the form the parallax theorems use it (real images) -/
theorem dft_inverse_real (r c : Nat) (y : Img ℝ) (h : y.length = r * c) :
    ((Fourier.dft : Fourier ℝ).ifft2 r c ((Fourier.dft : Fourier ℝ).fft2 r c (y.map Cx.ofReal))).map (·.re) = y := by
  rw [dft_inverse r c _ (by simpa using h), List.map_map]
  have : ((fun z : Cx ℝ => z.re) ∘ Cx.ofReal) = id := by
    funext v; simp [Cx.ofReal]
  rw [this, List.map_id]

/-! ## zero-interleaving and mean subtraction, over `ℂ` -/

/-- a sum over `range (u·r)` of a sequence supported on the multiples of `u` -/
theorem sum_range_mul_ite (u r : Nat) (hu : 0 < u) (h : Nat → ℂ) :
    ∑ m ∈ range (u * r), (if m % u = 0 then h m else 0) = ∑ m' ∈ range r, h (u * m') := by
  induction r with
  | zero => simp
  | succ r ih =>
    rw [Nat.mul_succ, Finset.sum_range_add, ih, Finset.sum_range_succ]
    congr 1
    have : ∀ j ∈ range u, (if (u * r + j) % u = 0 then h (u * r + j) else 0) = if j = 0 then h (u * r + j) else 0 := by
      intro j hj
      rw [Nat.mul_add_mod, Nat.mod_eq_of_lt (mem_range.mp hj)]
    rw [Finset.sum_congr rfl this, Finset.sum_ite_eq' (range u) 0 (fun j => h (u * r + j))]
    simp [hu]

theorem e_mul_left {u c : Nat} (hu : u ≠ 0) (hc : c ≠ 0) (j : ℤ) : Spectral.e (u * c) ((u : ℤ) * j) = Spectral.e c j := by
  rw [Spectral.e_eq_exp, Spectral.e_eq_exp]
  congr 1
  have hu' : (u : ℂ) ≠ 0 := by exact_mod_cast hu
  have hc' : (c : ℂ) ≠ 0 := by exact_mod_cast hc
  push_cast
  field_simp

/-- the DFT of a zero-interleaved sequence is the periodically repeated DFT -/
theorem dft_interleave {u c : Nat} (hu : u ≠ 0) (hc : c ≠ 0) (f : Nat → ℂ) (l : Nat) :
    Spectral.dft (u * c) (fun n => if n % u = 0 then f (n / u) else 0) l = Spectral.dft c f (l % c) := by
  unfold Spectral.dft
  have h1 : ∀ n ∈ range (u * c), (if n % u = 0 then f (n / u) else 0) * Spectral.e (u * c) (-((l : ℤ) * n)) =
      if n % u = 0 then f (n / u) * Spectral.e (u * c) (-((l : ℤ) * n)) else 0 := by
    intro n _; split_ifs <;> simp
  rw [Finset.sum_congr rfl h1, sum_range_mul_ite u c (Nat.pos_of_ne_zero hu)]
  refine sum_congr rfl fun n _ => ?_
  rw [Nat.mul_div_cancel_left _ (Nat.pos_of_ne_zero hu)]
  congr 1
  have e1 : (-((l : ℤ) * ((u * n : Nat) : ℤ))) = (u : ℤ) * (-((l : ℤ) * n)) := by push_cast; ring
  rw [e1, e_mul_left hu hc]
  apply Spectral.e_congr hc
  refine ⟨-((l / c : Nat) : ℤ) * n, ?_⟩
  have := Nat.div_add_mod l c
  have hz : ((l : ℤ)) = c * ((l / c : Nat) : ℤ) + ((l % c : Nat) : ℤ) := by exact_mod_cast this.symm
  rw [hz]
  push_cast
  ring

theorem dft_zero_fun (N k : Nat) : Spectral.dft N (fun _ => 0) k = 0 := by
  simp [Spectral.dft]

/-- 2-D: the spectrum of the `u × u` zero-interleaved image is the `u × u` tiled spectrum -/
theorem dft2_interleave {u r c : Nat} (hu : u ≠ 0) (hr : r ≠ 0) (hc : c ≠ 0) (y : Nat → Nat → ℂ) (k l : Nat) :
    Spectral.dft2 (u * r) (u * c) (fun m n => if m % u = 0 ∧ n % u = 0 then y (m / u) (n / u) else 0) k l =
      Spectral.dft2 r c y (k % r) (l % c) := by
  unfold Spectral.dft2
  have inner : ∀ m, Spectral.dft (u * c) (fun n => if m % u = 0 ∧ n % u = 0 then y (m / u) (n / u) else 0) l =
      if m % u = 0 then Spectral.dft c (y (m / u)) (l % c) else 0 := by
    intro m
    by_cases hm : m % u = 0
    · simp only [hm, true_and, if_true]
      exact dft_interleave hu hc (y (m / u)) l
    · simp only [hm, false_and, if_false]
      exact dft_zero_fun _ _
  simp_rw [inner]
  exact dft_interleave hu hr (fun m' => Spectral.dft c (y m') (l % c)) k

theorem dft_const {N : Nat} (hN : N ≠ 0) (μ : ℂ) {k : Nat} (hk : k < N) :
    Spectral.dft N (fun _ => μ) k = if k = 0 then μ * N else 0 := by
  unfold Spectral.dft
  rw [← Finset.mul_sum]
  have : ∑ n ∈ range N, Spectral.e N (-((k : ℤ) * n)) = ∑ n ∈ range N, Spectral.e N ((-(k : ℤ)) * n) :=
    sum_congr rfl (fun n _ => by rw [neg_mul])
  rw [this, Spectral.sum_e hN]
  by_cases h0 : k = 0
  · subst h0; simp
  · rw [if_neg, if_neg h0, mul_zero]
    intro hd
    rw [dvd_neg, Int.natCast_dvd_natCast] at hd
    exact absurd (Nat.le_of_dvd (Nat.pos_of_ne_zero h0) hd) (not_le.mpr hk)

theorem dft_sub_const (N : Nat) (x : Nat → ℂ) (μ : ℂ) (k : Nat) :
    Spectral.dft N (fun n => x n - μ) k = Spectral.dft N x k - Spectral.dft N (fun _ => μ) k := by
  unfold Spectral.dft
  rw [← Finset.sum_sub_distrib]
  exact sum_congr rfl fun n _ => by ring

/-- subtracting the mean zeroes the DC bin and changes nothing else -/
theorem dft2_meanSub {r c : Nat} (hr : r ≠ 0) (hc : c ≠ 0) (y : Nat → Nat → ℂ) {k l : Nat} (hk : k < r) (hl : l < c) :
    Spectral.dft2 r c (fun m n => y m n - (∑ m ∈ range r, ∑ n ∈ range c, y m n) / ((r : ℂ) * c)) k l =
      if k = 0 ∧ l = 0 then 0 else Spectral.dft2 r c y k l := by
  set μ := (∑ m ∈ range r, ∑ n ∈ range c, y m n) / ((r : ℂ) * c) with hμ
  have hr' : (r : ℂ) ≠ 0 := by exact_mod_cast hr
  have hc' : (c : ℂ) ≠ 0 := by exact_mod_cast hc
  have step : Spectral.dft2 r c (fun m n => y m n - μ) k l =
      Spectral.dft2 r c y k l - (if k = 0 then (if l = 0 then μ * c else 0) * r else 0) := by
    unfold Spectral.dft2
    simp_rw [dft_sub_const c _ μ l, dft_const hc μ hl]
    rw [dft_sub_const r _ _ k, dft_const hr _ hk]
  rw [step]
  by_cases h0 : k = 0
  · by_cases h1 : l = 0
    · subst h0; subst h1
      simp only [and_self, if_true]
      rw [Spectral.dft2_eq_sum]
      simp only [Nat.cast_zero, zero_mul, neg_zero, Spectral.e_zero, mul_one]
      rw [hμ]
      field_simp
      ring
    · simp [h0, h1]
  · simp [h0]

/-- a sum over a flattened `r × c` index -/
theorem sum_range_flatten (r c : Nat) (f : Nat → ℂ) :
    ∑ p ∈ range (r * c), f p = ∑ m ∈ range r, ∑ n ∈ range c, f (m * c + n) := by
  induction r with
  | zero => simp
  | succ r ih => rw [Nat.succ_mul, Finset.sum_range_add, ih, Finset.sum_range_succ]

/-! ## the comb identity for the list DFT -/

/-- a real image as an entry function, in `ℂ` -/
noncomputable def imgC (c : Nat) (x : Img ℝ) (m n : Nat) : ℂ := ((x.getD (m * c + n) 0 : ℝ) : ℂ)

theorem entC_ofReal (c : Nat) (x : Img ℝ) (m n : Nat) (h : m * c + n < x.length) :
    entC c (x.map Cx.ofReal).toArray m n = imgC c x m n := by
  unfold entC imgC
  have h' : m * c + n < (x.map Cx.ofReal).length := by simpa using h
  rw [List.getElem!_toArray, getElem!_pos (x.map Cx.ofReal) _ h', List.getElem_map, PtychoOps.toC_ofReal]
  congr 1
  simp [List.getD_eq_getElem?_getD, h]

theorem mean_eq (r c : Nat) (x : Img ℝ) (h : x.length = r * c) :
    ((Num.sum x / Num.ofNat x.length : ℝ) : ℂ) = (∑ m ∈ range r, ∑ n ∈ range c, imgC c x m n) / ((r : ℂ) * c) := by
  rw [PtychoOps.numSum_eq, NumReal.ofNat_eq, NumReal.div_eq, h]
  have hs : x.sum = ∑ p ∈ range (r * c), x.getD p 0 := by
    conv_lhs => rw [PtychoOps.eq_vbuild (0 : ℝ) x]
    rw [PtychoOps.sum_vbuild, h]
  rw [hs]
  push_cast
  rw [sum_range_flatten]
  rfl

theorem imgC_meanSub (r c : Nat) (x : Img ℝ) (h : x.length = r * c) (m n : Nat) (hmn : m * c + n < r * c) :
    imgC c (meanSub x) m n = imgC c x m n - (∑ m ∈ range r, ∑ n ∈ range c, imgC c x m n) / ((r : ℂ) * c) := by
  rw [← mean_eq r c x h]
  unfold imgC meanSub
  have h1 : m * c + n < x.length := h ▸ hmn
  simp [List.getD_eq_getElem?_getD, h1]

theorem imgC_comb (u r c : Nat) (v : Img ℝ) (m n : Nat) (hm : m < u * r) (hn : n < u * c) :
    imgC (u * c) (comb u r c v) m n = if m % u = 0 ∧ n % u = 0 then imgC c v (m / u) (n / u) else 0 := by
  have hidx := idx_lt hm hn
  unfold imgC comb
  simp only [List.getD_eq_getElem?_getD, List.getElem?_map, List.getElem?_range hidx, Option.map_some, Option.getD_some,
    idx_div hn, idx_mod hn]
  split_ifs <;> simp

theorem toC_dcZero_entry (L : Img (Cx ℝ)) (hL : L ≠ []) (j : Nat) :
    toC ((dcZero L).toArray[j]!) = if j = 0 then 0 else toC (L.toArray[j]!) := by
  cases L with
  | nil => exact absurd rfl hL
  | cons a t =>
    cases j with
    | zero => simp [dcZero]
    | succ j => simp [dcZero]

/-- **the comb identity** for the model's executable FFT pair: zeroing the DC bin is subtracting the mean, and tiling the
spectrum `u × u` is placing the image on every `u`-th point of the finer grid — for every `u`, `r`, `c` -/
theorem dft_combIdentity (u r c : Nat) : (Fourier.dft : Fourier ℝ).CombIdentity u r c := by
  intro x hx
  by_cases hz : (u * r) * (u * c) = 0
  · have l1 : (tile u r c (dcZero ((Fourier.dft : Fourier ℝ).fft2 r c (x.map Cx.ofReal)))).length = 0 := by
      simp [tile, hz]
    have l2 := dft_fft2_length (u * r) (u * c) ((comb u r c (meanSub x)).map Cx.ofReal)
    rw [hz] at l2
    rw [List.eq_nil_of_length_eq_zero l1, List.eq_nil_of_length_eq_zero l2]
  · have hu : u ≠ 0 := by rintro rfl; simp at hz
    have hr : r ≠ 0 := by rintro rfl; simp at hz
    have hc : c ≠ 0 := by rintro rfl; simp at hz
    have huc : u * c ≠ 0 := Nat.mul_ne_zero hu hc
    have hur : u * r ≠ 0 := Nat.mul_ne_zero hu hr
    have hLne : (Fourier.dft : Fourier ℝ).fft2 r c (x.map Cx.ofReal) ≠ [] := by
      intro h0
      have := dft_fft2_length r c (x.map Cx.ofReal)
      rw [h0] at this
      exact (Nat.mul_ne_zero hr hc) this.symm
    rw [fft2_def (u * r) (u * c)]
    unfold tile
    apply List.ext_getElem
    · rw [List.length_map, List.length_range, dftAxis1_eq, length_axisT]
    · intro p h1 h2
      have hp : p < (u * r) * (u * c) := by simpa using h1
      have hA : p / (u * c) < u * r := Nat.div_lt_of_lt_mul (by rw [Nat.mul_comm]; exact hp)
      have hB : p % (u * c) < u * c := Nat.mod_lt _ (Nat.pos_of_ne_zero huc)
      have hk : (p / (u * c)) % r < r := Nat.mod_lt _ (Nat.pos_of_ne_zero hr)
      have hl : (p % (u * c)) % c < c := Nat.mod_lt _ (Nat.pos_of_ne_zero hc)
      apply toC_injective
      rw [List.getElem_map, List.getElem_range, Array.getElem_toList, ← getElem!_pos]
      -- right-hand side: the spectrum of the zero-interleaved, mean-subtracted image
      have key := toC_fft_entry hur huc ((comb u r c (meanSub x)).map Cx.ofReal).toArray hA hB
      rw [Nat.div_add_mod' p (u * c)] at key
      have hent : ∀ m < u * r, ∀ n < u * c,
          entC (u * c) ((comb u r c (meanSub x)).map Cx.ofReal).toArray m n =
            (fun m n => if m % u = 0 ∧ n % u = 0 then
              imgC c x (m / u) (n / u) - (∑ m ∈ range r, ∑ n ∈ range c, imgC c x m n) / ((r : ℂ) * c)
              else 0) m n := by
        intro m hm n hn
        rw [entC_ofReal (u * c) _ m n (by simpa [comb] using idx_lt hm hn), imgC_comb u r c _ m n hm hn]
        by_cases hcond : m % u = 0 ∧ n % u = 0
        · have hm' : m / u < r := Nat.div_lt_of_lt_mul hm
          have hn' : n / u < c := Nat.div_lt_of_lt_mul hn
          simp only [hcond, and_self, if_true]
          exact imgC_meanSub r c x hx _ _ (idx_lt hm' hn')
        · simp only [hcond, if_false]
      rw [key, Spectral.dft2_congr hent,
        dft2_interleave hu hr hc
          (fun m' n' => imgC c x m' n' - (∑ m ∈ range r, ∑ n ∈ range c, imgC c x m n) / ((r : ℂ) * c)),
        dft2_meanSub hr hc _ hk hl]
      -- left-hand side: the tiled spectrum with the DC bin zeroed
      rw [toC_dcZero_entry _ hLne, fft2_def, Array.toArray_toList,
        toC_fft_entry hr hc (x.map Cx.ofReal).toArray hk hl]
      have hx' : ∀ m < r, ∀ n < c, entC c (x.map Cx.ofReal).toArray m n = imgC c x m n := by
        intro m hm n hn
        exact entC_ofReal c x m n (by rw [hx]; exact idx_lt hm hn)
      rw [Spectral.dft2_congr hx']
      have hiff : ((p / (u * c)) % r * c + (p % (u * c)) % c = 0) ↔ ((p / (u * c)) % r = 0 ∧ (p % (u * c)) % c = 0) := by
        constructor
        · intro h0
          have := Nat.add_eq_zero_iff.mp h0
          exact ⟨(Nat.mul_eq_zero.mp this.1).resolve_right hc, this.2⟩
        · rintro ⟨a0, b0⟩; rw [a0, b0]; simp
      simp only [hiff]

/-! ## dividing a sum of images by the aperture weight -/

theorem sumImgs_div (W : ℝ) (l : List (Img ℝ)) (z : Img ℝ) :
    sumImgs (l.map (List.map (· / W))) (z.map (· / W)) = (sumImgs l z).map (· / W) := by
  induction l generalizing z with
  | nil => rfl
  | cons a l ih =>
    have hadd : addI (z.map (· / W)) (a.map (· / W)) = (addI z a).map (· / W) := by
      unfold addI
      rw [List.map_zipWith, List.zipWith_map]
      congr 1
      funext x y
      simp only [NumReal.add_eq]
      ring
    unfold sumImgs at ih ⊢
    simp only [List.map_cons, List.foldl_cons]
    rw [hadd]
    exact ih _

theorem zeros_div (W : ℝ) (n : Nat) : (zeros n : Img ℝ) = (zeros n : Img ℝ).map (· / W) := by
  simp [zeros]

end QuantemModel.DirectPtycho
