import QuantemModel.Model.SeqKeys
/-! lemmas about the element-key layer of sequence groups -/
namespace QuantemModel.SeqKeys

theorem digitVal_digitChar_fin : ∀ d : Fin 10, digitVal (digitChar d.val) = some d.val := by decide

theorem digitVal_digitChar (d : Nat) (h : d < 10) : digitVal (digitChar d) = some d :=
  digitVal_digitChar_fin ⟨d, h⟩

theorem decRev_cons (n : Nat) : ∃ c cs, decRev n = c :: cs := by
  unfold decRev
  split
  · exact ⟨_, _, rfl⟩
  · exact ⟨_, _, rfl⟩

theorem undecRev_decRev (n : Nat) : undecRev (decRev n) = some n := by
  induction n using Nat.strongRecOn with
  | _ n ih =>
    unfold decRev
    split
    · rename_i h
      simp [undecRev, digitVal_digitChar n h]
    · rename_i h
      obtain ⟨c, cs, hc⟩ := decRev_cons (n / 10)
      have ih' := ih (n / 10) (by omega)
      rw [hc] at ih' ⊢
      simp only [undecRev, digitVal_digitChar (n % 10) (by omega), ih']
      congr 1
      omega

theorem undec_dec (n : Nat) : undec (dec n) = some n := by
  simp [undec, dec, undecRev_decRev]

theorem dec_injective {a b : Nat} (h : dec a = dec b) : a = b := by
  have := undec_dec a
  rw [h, undec_dec] at this
  exact (Option.some.inj this).symm

/-! ### the keys written for a sequence -/

theorem keyedFrom_keys {α : Type} (xs : List α) : ∀ i,
    (keyedFrom i xs).map (·.1) = (List.range' i xs.length).map dec := by
  induction xs with
  | nil => intro i; rfl
  | cons x xs ih => intro i; simp [keyedFrom, List.range', ih (i + 1)]

theorem keyedFrom_mem {α : Type} (xs : List α) : ∀ (i j : Nat) (h : j < xs.length),
    (dec (i + j), xs[j]) ∈ keyedFrom i xs := by
  induction xs with
  | nil => intro i j h; simp at h
  | cons x xs ih =>
    intro i j h
    cases j with
    | zero => simp [keyedFrom]
    | succ j =>
      simp only [keyedFrom, List.mem_cons, List.getElem_cons_succ]
      right
      have := ih (i + 1) j (by simpa using h)
      rwa [show i + 1 + j = i + (j + 1) by omega] at this

theorem keyedFrom_nodup {α : Type} (xs : List α) (i : Nat) : ((keyedFrom i xs).map (·.1)).Nodup := by
  rw [keyedFrom_keys]
  exact List.Pairwise.map dec (fun a b hab h => hab (dec_injective h)) (List.nodup_range' (step := 1) (by omega))

theorem keyedFrom_digits {α : Type} (xs : List α) (i : Nat) :
    ∀ k ∈ (keyedFrom i xs).map (·.1), ∀ m, undec k = some m → i ≤ m ∧ m < i + xs.length := by
  intro k hk m hm
  rw [keyedFrom_keys] at hk
  obtain ⟨j, hj, rfl⟩ := List.mem_map.mp hk
  rw [undec_dec] at hm
  have := Option.some.inj hm
  subst this
  have := List.mem_range'_1.mp hj
  omega

/-! ### lookup in a dictionary-like child list -/

theorem lookupKey_of_mem {α : Type} (k : Key) (v : α) : ∀ (kids : List (Key × α)),
    (kids.map (·.1)).Nodup → (k, v) ∈ kids → lookupKey k kids = some v := by
  intro kids
  induction kids with
  | nil => intro _ h; simp at h
  | cons kv rest ih =>
    intro hnd hmem
    obtain ⟨k', v'⟩ := kv
    simp only [List.map_cons, List.nodup_cons] at hnd
    simp only [List.mem_cons, Prod.mk.injEq] at hmem
    simp only [lookupKey]
    rcases hmem with ⟨rfl, rfl⟩ | hmem
    · simp
    · have hne : k' ≠ k := by
        intro h
        subst h
        exact hnd.1 (List.mem_map.mpr ⟨(k', v), hmem, rfl⟩)
      simp [hne, ih hnd.2 hmem]

/-! ### the reconstructed length -/

theorem foldl_max_le (l : List Nat) : ∀ (a b : Nat), a ≤ b → (∀ i ∈ l, i + 1 ≤ b) →
    l.foldl (fun m i => max m (i + 1)) a ≤ b := by
  induction l with
  | nil => intro a b h _; simpa using h
  | cons x xs ih =>
    intro a b h hall
    simp only [List.foldl_cons]
    apply ih
    · have := hall x (by simp); omega
    · intro i hi; exact hall i (by simp [hi])

theorem le_foldl_max (l : List Nat) : ∀ (a : Nat), a ≤ l.foldl (fun m i => max m (i + 1)) a := by
  induction l with
  | nil => intro a; simp
  | cons x xs ih =>
    intro a
    simp only [List.foldl_cons]
    exact Nat.le_trans (by omega) (ih _)

theorem mem_le_foldl_max (l : List Nat) : ∀ (a i : Nat), i ∈ l →
    i + 1 ≤ l.foldl (fun m i => max m (i + 1)) a := by
  induction l with
  | nil => intro a i h; simp at h
  | cons x xs ih =>
    intro a i h
    simp only [List.foldl_cons]
    rcases List.mem_cons.mp h with rfl | h
    · exact Nat.le_trans (by omega) (le_foldl_max xs _)
    · exact ih _ _ h

/-! ### rebuilding a list from a total index function -/

theorem collect_map_succ {α : Type} (f : Nat → Option α) (l : List Nat) :
    collect f (l.map Nat.succ) = collect (fun i => f (i + 1)) l := by
  induction l with
  | nil => rfl
  | cons x xs ih => simp [collect, ih]

theorem collect_range_eq {α : Type} (items : List α) : ∀ (f : Nat → Option α),
    (∀ i (h : i < items.length), f i = some items[i]) →
    collect f (List.range items.length) = some items := by
  induction items with
  | nil => intro f _; rfl
  | cons x xs ih =>
    intro f hf
    rw [List.length_cons, List.range_succ_eq_map, collect, hf 0 (by simp), collect_map_succ,
      ih (fun i => f (i + 1))]
    · simp
    · intro i h
      have := hf (i + 1) (by simpa using h)
      simpa using this

/-- a missing index makes the whole reconstruction fail (the `KeyError`) -/
theorem collect_none_of_missing {α : Type} (f : Nat → Option α) (l : List Nat) (i : Nat)
    (hi : i ∈ l) (hf : f i = none) : collect f l = none := by
  induction l with
  | nil => simp at hi
  | cons x xs ih =>
    rcases List.mem_cons.mp hi with rfl | hi
    · simp [collect, hf]
    · simp only [collect, ih hi]
      cases f x <;> rfl

end QuantemModel.SeqKeys
