import QuantemModel.Lemmas.PtychoOpsDft
/-!
Helper lemmas for Props/C16.lean, part 3: phase ramps (translation operator), Fresnel
propagators, circular rolls — as `build`s, with their unit-modulus / additivity algebra.
-/
namespace QuantemModel.PtychoOps
open QuantemModel Finset

/-! ### translation operator -/
/-- entry `k` of `rampAxis n r` : `exp(-2πi·fftfreq(n)[k]·r)` -/
noncomputable def rampC (n : ℕ) (r : ℝ) (k : ℕ) : Cx ℝ :=
  Cx.cis (Num.ofRat (-2) * Num.pi * Num.ofRat ((Dft.fftfreqInt n k : Rat) / (n : Rat)) * r)

theorem rampAxis_eq (n : ℕ) (r : ℝ) : rampAxis n r = vbuild n (rampC n r) := rfl

theorem translationOperator_eq (nr nc : ℕ) (r c : ℝ) :
    translationOperator nr nc r c = build nr nc (fun k l => rampC nr r k * rampC nc c l) := by
  unfold translationOperator build
  rw [rampAxis_eq, rampAxis_eq, vbuild_map]
  apply vbuild_congr
  intro k _
  rw [vbuild_map]

theorem abs2_rampC (n : ℕ) (r : ℝ) (k : ℕ) : Cx.abs2 (rampC n r k) = 1 := abs2_cis _

theorem rampC_add (n : ℕ) (r r' : ℝ) (k : ℕ) : rampC n (r + r') k = rampC n r k * rampC n r' k := by
  unfold rampC
  rw [← cis_add]
  congr 1
  ring

theorem rampC_zero (n : ℕ) (k : ℕ) : rampC n 0 k = Cx.one := by
  unfold rampC
  rw [← cis_zero]
  congr 1
  simp

theorem fftfreqInt_modEq (n k : ℕ) : (n : ℤ) ∣ Dft.fftfreqInt n k - k := by
  unfold Dft.fftfreqInt
  split_ifs
  · simp
  · exact ⟨-1, by ring⟩

/-- at an integer position the ramp is the root of unity `exp(-2πi·k·s/n)` -/
theorem toC_rampC_int {n : ℕ} (hn : n ≠ 0) (s : ℤ) (k : ℕ) :
    toC (rampC n (s : ℝ) k) = Spectral.e n (-((k : ℤ) * s)) := by
  have h1 : Spectral.e n (-((k : ℤ) * s)) = Spectral.e n (-(Dft.fftfreqInt n k * s)) := by
    apply Spectral.e_congr hn
    obtain ⟨c, hc⟩ := fftfreqInt_modEq n k
    exact ⟨c * s, by linear_combination s * hc⟩
  rw [h1, Spectral.e_eq_exp_ofReal]
  unfold rampC
  rw [toC_cis]
  congr 2
  have hn' : (n : ℝ) ≠ 0 := by exact_mod_cast hn
  simp only [NumReal.ofRat_eq, NumReal.pi_eq]
  push_cast
  field_simp

/-! ### circular roll on lists -/
theorem roll_vbuild {β : Type} {N : ℕ} (hN : 0 < N) (g : ℕ → β) (s : ℤ) :
    Dft.roll (vbuild N g) s = vbuild N (fun n => g (Spectral.rollIdx N s n)) := by
  unfold Dft.roll
  simp only [vbuild_length]
  rw [if_neg (Nat.ne_of_gt hN)]
  have hN' : (N : ℤ) ≠ 0 := by exact_mod_cast Nat.ne_of_gt hN
  have hk0 : 0 ≤ s % (N : ℤ) := Int.emod_nonneg _ hN'
  have hk1 : s % (N : ℤ) < N := Int.emod_lt_of_pos _ (by exact_mod_cast hN)
  obtain ⟨k, hk⟩ : ∃ k : ℕ, (k : ℤ) = s % N := ⟨(s % N).toNat, Int.toNat_of_nonneg hk0⟩
  have hkN : k < N := by omega
  have hkt : (s % (N : ℤ)).toNat = k := by omega
  rw [hkt]
  have hidx : ∀ i : ℕ, i < N → Spectral.rollIdx N s i = if i < k then N - k + i else i - k := by
    intro i hi
    unfold Spectral.rollIdx
    have hs := Int.emod_add_mul_ediv s N
    have key : ∀ (r : ℕ) (q : ℤ), r < N → (i : ℤ) - s = (r : ℤ) + N * q → (((i : ℤ) - s) % N).toNat = r := by
      intro r q hr h
      rw [h, Int.add_mul_emod_self_left, Int.emod_eq_of_lt (Int.natCast_nonneg _) (by exact_mod_cast hr)]
      exact Int.toNat_natCast r
    split_ifs with hik
    · have e1 : ((N - k + i : ℕ) : ℤ) = N - k + i := by omega
      exact key (N - k + i) (-(s / N) - 1) (by omega) (by rw [e1]; linear_combination hs + hk)
    · have e1 : ((i - k : ℕ) : ℤ) = i - k := by omega
      exact key (i - k) (-(s / N)) (by omega) (by rw [e1]; linear_combination hs + hk)
  apply List.ext_getElem
  · simp
  · intro i h1 h2
    have hi : i < N := by simpa using h2
    simp only [vbuild, List.getElem_map, List.getElem_range]
    rw [hidx i hi]
    by_cases hik : i < k
    · rw [if_pos hik, List.getElem_append_left (by simp; omega)]
      simp
    · rw [if_neg hik, List.getElem_append_right (by simp; omega)]
      simp
      congr 1
      omega

theorem roll2_build {β : Type} {nr nc : ℕ} (hr : 0 < nr) (hc : 0 < nc) (g : ℕ → ℕ → β) (sr sc : ℤ) :
    roll2 (build nr nc g) sr sc
      = build nr nc (fun m n => g (Spectral.rollIdx nr sr m) (Spectral.rollIdx nc sc n)) := by
  unfold roll2 build
  rw [vbuild_map]
  have : (vbuild nr fun i => Dft.roll (vbuild nc (g i)) sc)
      = vbuild nr fun i => vbuild nc (fun n => g i (Spectral.rollIdx nc sc n)) :=
    vbuild_congr fun i _ => roll_vbuild hc (g i) sc
  rw [this, roll_vbuild hr]

/-- **integer Fourier shift = circular roll** on builds -/
theorem fourierShift_int_build {nr nc : ℕ} (hr : 0 < nr) (hc : 0 < nc) (a : ℕ → ℕ → Cx ℝ) (s t : ℤ) :
    fourierShift (build nr nc a) (s : ℝ) (t : ℝ) = roll2 (build nr nc a) s t := by
  unfold fourierShift
  rw [nrows_build, ncols_build hr, translationOperator_eq, roll2_build hr hc]
  have := propagate_build hr hc a (fun k l => rampC nr (s : ℝ) k * rampC nc (t : ℝ) l)
  unfold propagate at this
  rw [this]
  apply build_toC_inj
  intro m _ n _
  rw [toC_idft2C hr hc]
  have hfun : (fun k l => toC (dft2C nr nc a k l * (rampC nr (s : ℝ) k * rampC nc (t : ℝ) l)))
      = fun k l => Spectral.dft2 nr nc (fun m n => toC (a m n)) k l
          * (Spectral.e nr (-((k : ℤ) * s)) * Spectral.e nc (-((l : ℤ) * t))) := by
    funext k l
    rw [toC_mul, toC_mul, toC_dft2C hr hc, toC_rampC_int (Nat.ne_of_gt hr), toC_rampC_int (Nat.ne_of_gt hc)]
  rw [hfun, Spectral.shift2_eq_roll2 hr hc]
  rfl

/-! ### Fresnel propagator -/
/-- entry `k` of `kAxis n d` -/
noncomputable def kC (n : ℕ) (d : ℝ) (k : ℕ) : ℝ := Num.ofInt (Dft.fftfreqInt n k) / (Num.ofNat n * d)

theorem kAxis_eq (n : ℕ) (d : ℝ) : kAxis n d = vbuild n (kC n d) := rfl

/-- the tilt phase factor (applied only when the tilt is non-zero) -/
noncomputable def tiltC (dz th a : ℝ) : Cx ℝ :=
  Cx.cis (-(Num.two * Num.pi * dz * tanR (th / Num.ofRat 1000)) * a)

/-- entry `(k,l)` of `propagator nr nc sr sc lam dz thr thc` -/
noncomputable def propC (nr nc : ℕ) (sr sc lam dz thr thc : ℝ) (k l : ℕ) : Cx ℝ :=
  let a := kC nr sr k
  let b := kC nc sc l
  let p0 : Cx ℝ := Cx.cis (-(Num.pi * lam * dz) * (a * a + b * b))
  let p1 := if isZero thr then p0 else p0 * tiltC dz thr a
  if isZero thc then p1 else p1 * tiltC dz thc b

theorem propagator_eq (nr nc : ℕ) (sr sc lam dz thr thc : ℝ) :
    propagator nr nc sr sc lam dz thr thc = build nr nc (propC nr nc sr sc lam dz thr thc) := by
  unfold propagator build
  rw [kAxis_eq, kAxis_eq, vbuild_map]
  apply vbuild_congr
  intro k _
  rw [vbuild_map]
  rfl

theorem tiltC_add (dz dz' th a : ℝ) : tiltC (dz + dz') th a = tiltC dz th a * tiltC dz' th a := by
  unfold tiltC
  rw [← cis_add]
  congr 1
  ring

theorem abs2_one : Cx.abs2 (Cx.one : Cx ℝ) = 1 := by simp [Cx.abs2, Cx.one]

theorem abs2_propC (nr nc : ℕ) (sr sc lam dz thr thc : ℝ) (k l : ℕ) :
    Cx.abs2 (propC nr nc sr sc lam dz thr thc k l) = 1 := by
  unfold propC tiltC
  simp only
  split_ifs <;> simp only [abs2_mul, abs2_cis, mul_one]

theorem propC_add (nr nc : ℕ) (sr sc lam dz dz' thr thc : ℝ) (k l : ℕ) :
    propC nr nc sr sc lam (dz + dz') thr thc k l
      = propC nr nc sr sc lam dz thr thc k l * propC nr nc sr sc lam dz' thr thc k l := by
  have h0 : ∀ x : ℝ, Cx.cis (-(Num.pi * lam * (dz + dz')) * x)
      = Cx.cis (-(Num.pi * lam * dz) * x) * Cx.cis (-(Num.pi * lam * dz') * x) := by
    intro x
    rw [← cis_add]
    congr 1
    ring
  unfold propC
  simp only
  rw [h0, tiltC_add, tiltC_add]
  split_ifs <;> (apply toC_injective; simp only [toC_mul]; try ring)

theorem propC_zero (nr nc : ℕ) (sr sc lam thr thc : ℝ) (k l : ℕ) :
    propC nr nc sr sc lam 0 thr thc k l = Cx.one := by
  have h0 : ∀ x : ℝ, Cx.cis (-(Num.pi * lam * (0 : ℝ)) * x) = Cx.one := by
    intro x; rw [← cis_zero]; congr 1; simp
  have h1 : ∀ th a : ℝ, tiltC 0 th a = Cx.one := by
    intro th a; unfold tiltC; rw [← cis_zero]; congr 1; simp
  unfold propC
  simp only
  rw [h0, h1, h1]
  split_ifs <;> (apply toC_injective; simp)

end QuantemModel.PtychoOps
