import QuantemModel.Lemmas.Unwrap
import Mathlib.Data.List.Nodup
import Mathlib.Data.List.Count
/-!
C17, second layer: scatter/gather of the bright-field embedding, multiplicities of the periodic
edge list, `_wrap_to_pi` at `Rat`.
-/
namespace QuantemModel.Unwrap
open QuantemModel

/-! ### `phase_grid[bf_mask] = vals` -/

theorem scatterFold_size {α : Type} : ∀ (pv : List (Nat × α)) (acc : Array α),
    (pv.foldl (fun a p => a.setIfInBounds p.1 p.2) acc).size = acc.size := by
  intro pv
  induction pv with
  | nil => intro acc; rfl
  | cons p rest ih => intro acc; simp [List.foldl_cons, ih]

/-- positions that are not written keep their value -/
theorem scatterFold_untouched {α : Type} (d : α) (i : Nat) : ∀ (pv : List (Nat × α)) (acc : Array α),
    (∀ p ∈ pv, p.1 ≠ i) →
    (pv.foldl (fun a p => a.setIfInBounds p.1 p.2) acc).getD i d = acc.getD i d := by
  intro pv
  induction pv with
  | nil => intro acc _; rfl
  | cons p rest ih =>
    intro acc h
    rw [List.foldl_cons, ih _ (fun q hq => h q (by simp [hq])), UF.getD_setIfInBounds]
    have : ¬ p.1 = i := h p (by simp)
    simp [this]

/-- the `k`-th position receives the `k`-th value (positions pairwise different and in range) -/
theorem scatterFold_get {α : Type} (d : α) : ∀ (pos : List Nat) (vals : List α) (acc : Array α) (k : Nat),
    pos.Nodup → (∀ p ∈ pos, p < acc.size) → (hk : k < pos.length) → (hk' : k < vals.length) →
    ((pos.zip vals).foldl (fun a p => a.setIfInBounds p.1 p.2) acc).getD pos[k] d = vals[k] := by
  intro pos
  induction pos with
  | nil => intro vals acc k _ _ hk; simp at hk
  | cons p ps ih =>
    intro vals acc k hnd hlt hk hk'
    cases vals with
    | nil => simp at hk'
    | cons v vs =>
      rw [List.nodup_cons] at hnd
      simp only [List.zip_cons_cons, List.foldl_cons]
      cases k with
      | zero =>
        simp only [List.getElem_cons_zero]
        rw [scatterFold_untouched]
        · rw [UF.getD_setIfInBounds]; simp [hlt p (by simp)]
        · intro q hq
          have := (List.of_mem_zip hq).1
          intro e; exact hnd.1 (e ▸ this)
      | succ k =>
        simp only [List.getElem_cons_succ]
        exact ih vs _ k hnd.2 (fun q hq => by simp [hlt q (by simp [hq])]) (by simpa using hk) (by simpa using hk')

theorem bfPositions_nodup (N : Nat) (bfMask : Nat → Bool) : (bfPositions N bfMask).Nodup :=
  List.Nodup.filter _ List.nodup_range

theorem mem_bfPositions {N : Nat} {bfMask : Nat → Bool} {i : Nat} :
    i ∈ bfPositions N bfMask ↔ i < N ∧ bfMask i = true := by
  simp [bfPositions]

/-- **scatter**: `grid[bf_mask] = vals` puts `vals[k]` at the `k`-th true position of `bf_mask` … -/
theorem scatter_at_pos {α : Type} (N : Nat) (bfMask : Nat → Bool) (vals : List α) (d : α) (k : Nat)
    (hk : k < (bfPositions N bfMask).length) (hk' : k < vals.length) :
    (scatter N (bfPositions N bfMask) vals d).getD (bfPositions N bfMask)[k] d = vals[k] := by
  unfold scatter
  apply scatterFold_get d _ _ _ k (bfPositions_nodup N bfMask) _ hk hk'
  intro p hp
  simpa using (mem_bfPositions.mp hp).1

/-- … and leaves the default everywhere else -/
theorem scatter_off_pos {α : Type} (N : Nat) (bfMask : Nat → Bool) (vals : List α) (d : α) (i : Nat)
    (hi : i ∉ bfPositions N bfMask) :
    (scatter N (bfPositions N bfMask) vals d).getD i d = d := by
  unfold scatter
  rw [scatterFold_untouched]
  · simp only [Array.getD_eq_getD_getElem?, Array.getElem?_replicate]
    split <;> rfl
  · intro p hp e
    exact hi (e ▸ (List.of_mem_zip hp).1)

/-! ### multiplicities in the periodic edge list -/

/-- right and lower periodic neighbour of flat index `i` -/
def rightNb (W i : Nat) : Nat := (i / W) * W + (i % W + 1) % W
def downNb (H W i : Nat) : Nat := ((i / W + 1) % H) * W + i % W

theorem count_graph (N : Nat) (f : Nat → Nat) (a b : Nat) :
    ((List.range N).map fun i => (i, f i)).count (a, b) = if a < N ∧ f a = b then 1 else 0 := by
  have hnd : ((List.range N).map fun i => (i, f i)).Nodup := by
    apply List.Nodup.map _ List.nodup_range
    intro x y h
    simpa using (Prod.mk.inj h).1
  rw [hnd.count]
  simp only [List.mem_map, List.mem_range, Prod.mk.injEq]
  by_cases h : a < N ∧ f a = b
  · rw [if_pos h, if_pos ⟨a, h.1, rfl, h.2⟩]
  · rw [if_neg h, if_neg]
    rintro ⟨i, hi, rfl, hf⟩
    exact h ⟨hi, hf⟩

/-- **the periodic edge list as a multiset**: every pixel contributes exactly its right and its
lower torus neighbour — nothing else, nothing twice unless the two coincide. -/
theorem edgePairs_periodic_count (H W a b : Nat) :
    (edgePairs H W true).count (a, b) =
      (if a < H * W ∧ rightNb W a = b then 1 else 0) + (if a < H * W ∧ downNb H W a = b then 1 else 0) := by
  unfold edgePairs
  simp only [if_true, List.count_append]
  rw [count_graph (H * W) (fun i => (i / W) * W + (i % W + 1) % W),
    count_graph (H * W) (fun i => ((i / W + 1) % H) * W + i % W)]
  rfl

theorem edgePairs_periodic_length (H W : Nat) : (edgePairs H W true).length = 2 * (H * W) := by
  simp [edgePairs]; omega

/-! ### `_wrap_to_pi` at `Rat` -/

theorem wrapToPiRat_spec (x : Rat) :
    -1 ≤ wrapToPiRat x ∧ wrapToPiRat x < 1 ∧
      x - wrapToPiRat x = 2 * ((((x + 1) / 2).floor : Int) : Rat) := by
  unfold wrapToPiRat
  have h1 := Rat.floor_le ((x + 1) / 2)
  have h2 := Rat.lt_floor_add_one ((x + 1) / 2)
  push_cast at h2
  refine ⟨?_, ?_, by ring⟩
  · linarith
  · linarith

end QuantemModel.Unwrap
