import QuantemModel.Lemmas.Dataset
import QuantemModel.Model.DatasetAbs
import Mathlib.Tactic.Linarith
/- C03, growth 6 — helper lemmas for Props/C03Ext.lean: every constructor / setter / operation of
Model/Dataset.lean commutes with erasing the array values (`DatasetAbs.forget`). -/
set_option linter.unusedSimpArgs false
namespace QuantemModel.DatasetAbs
open QuantemModel QuantemModel.Nd QuantemModel.Resample QuantemModel.Dataset

@[simp] theorem forget_shape (d : Ds) : (forget d).shape = d.shape := rfl
@[simp] theorem forget_ndim (d : Ds) : (forget d).ndim = d.ndim := rfl
@[simp] theorem forget_cls (d : Ds) : (forget d).cls = d.cls := rfl
@[simp] theorem forget_kind (d : Ds) : (forget d).kind = d.kind := rfl
@[simp] theorem forget_origin (d : Ds) : (forget d).origin = d.origin := rfl
@[simp] theorem forget_sampling (d : Ds) : (forget d).sampling = d.sampling := rfl
@[simp] theorem forget_units (d : Ds) : (forget d).units = d.units := rfl
@[simp] theorem forget_data (d : Ds) : (forget d).data = none := rfl
@[simp] theorem mapOk_ok {α β : Type} (f : α → β) (a : α) : mapOk f (.ok a) = .ok (f a) := rfl
@[simp] theorem mapOk_error {α β : Type} (f : α → β) (e : Err) : mapOk f (.error e : Except Err α) = .error e := rfl

theorem fromArray_forget (c : DsClass) (sh : List Nat) (dat : Option (List Val)) (k : Kind)
    (o s : Option NdInfo) (u : Option UnitsArg) :
    fromArray c sh none k o s u = mapOk forget (fromArray c sh dat k o s u) := by
  unfold fromArray
  cases reqShape c sh with
  | error e => rfl
  | ok sh' =>
    simp only
    cases validateNdinfo (o.getD (.list (List.replicate sh'.length 0))) sh'.length with
    | error e => rfl
    | ok o' =>
      simp only
      cases validateNdinfo (s.getD (.list (List.replicate sh'.length 1))) sh'.length with
      | error e => rfl
      | ok s' =>
        simp only
        cases validateUnits (u.getD (.list (defaultUnits c sh'.length))) sh'.length with
        | error e => rfl
        | ok u' => rfl

theorem copy_forget (d : Ds) : Dataset.copy (forget d) = mapOk forget (Dataset.copy d) := by
  unfold Dataset.copy
  exact fromArray_forget _ _ _ _ _ _ _

theorem setArray_forget (d : Ds) (sh : List Nat) (dat : Option (List Val)) (k : Kind) :
    setArray (forget d) sh none k = mapOk forget (setArray d sh dat k) := by
  unfold setArray
  simp only [forget_ndim]
  cases ensureNdim sh d.ndim <;> rfl

theorem setOrigin_forget (d : Ds) (v : NdInfo) : setOrigin (forget d) v = mapOk forget (setOrigin d v) := by
  unfold setOrigin
  simp only [forget_ndim]
  cases validateNdinfo v d.ndim <;> rfl

theorem setSampling_forget (d : Ds) (v : NdInfo) : setSampling (forget d) v = mapOk forget (setSampling d v) := by
  unfold setSampling
  simp only [forget_ndim]
  cases validateNdinfo v d.ndim <;> rfl

theorem setUnits_forget (d : Ds) (v : UnitsArg) : setUnits (forget d) v = mapOk forget (setUnits d v) := by
  unfold setUnits
  simp only [forget_ndim]
  cases validateUnits v d.ndim <;> rfl

theorem getitem_forget (d : Ds) (ix : List Item) : getitem (forget d) ix = mapOk forget (getitem d ix) := by
  unfold getitem
  simp only [forget_shape, forget_ndim, forget_cls, forget_kind, forget_origin, forget_sampling, forget_units]
  cases plan d.shape ix with
  | error e => rfl
  | ok p =>
    simp only
    split
    · rfl
    · split
      · rfl
      · have : planData (forget d) p = none := rfl
        rw [this]
        exact fromArray_forget _ _ _ _ _ _ _

theorem pad_forget (d : Ds) (a : PadArg) (ip : Bool) : pad (forget d) a ip = mapOk forgetRes (pad d a ip) := by
  unfold pad
  simp only [forget_shape, forget_kind]
  cases padWidthsOf d.shape a with
  | error e => rfl
  | ok w =>
    simp only
    have hd : padData (forget d) w = none := rfl
    rw [hd]
    cases ip with
    | true => rfl
    | false =>
      simp only [Bool.false_eq_true, if_false]
      rw [copy_forget]
      cases Dataset.copy d with
      | error e => rfl
      | ok c =>
        simp only [mapOk_ok]
        rw [setArray_forget c _ (padData d w)]
        cases setArray c (padShape d.shape w) (padData d w) d.kind <;> rfl

theorem crop_forget (d : Ds) (w : List (Int × Int)) (a : AxesArg) (ip : Bool) :
    crop (forget d) w a ip = mapOk forgetRes (crop d w a ip) := by
  unfold crop
  simp only [forget_ndim, forget_kind]
  cases cropArgs d.ndim w a with
  | error e => rfl
  | ok aw =>
    obtain ⟨ax, ws⟩ := aw
    simp only
    have hp : cropPlan (forget d) ax ws = cropPlan d ax ws := rfl
    rw [hp]
    cases cropPlan d ax ws with
    | error e => rfl
    | ok p =>
      simp only
      cases ip with
      | true =>
        simp only [if_true]
        have hd : planData (forget d) p = none := rfl
        rw [hd, setArray_forget d _ (planData d p)]
        cases setArray d p.shape (planData d p) d.kind <;> rfl
      | false =>
        simp only [Bool.false_eq_true, if_false]
        rw [copy_forget]
        cases Dataset.copy d with
        | error e => rfl
        | ok c =>
          simp only [mapOk_ok]
          have hd : planData (forget c) p = none := rfl
          rw [hd, forget_kind, setArray_forget c _ (planData c p)]
          cases setArray c p.shape (planData c p) c.kind <;> rfl

theorem bin_forget (d : Ds) (f : FacArg) (a : AxesArg) (m b ip : Bool) :
    bin (forget d) f a m b ip = mapOk forgetRes (bin d f a m b ip) := by
  unfold bin
  simp only [forget_ndim, forget_kind, forget_shape, forget_origin, forget_sampling]
  cases b with
  | true => rfl
  | false =>
    simp only [Bool.false_eq_true, if_false]
    cases axesList d.ndim a with
    | error e => rfl
    | ok ax =>
      simp only
      cases binFactors ax.length f with
      | error e => rfl
      | ok fs =>
        simp only
        split
        · rfl
        · have hd : ∀ facs vol, binData (forget d) facs m vol = none := fun _ _ => rfl
          simp only [hd]
          cases ip with
          | true => rfl
          | false =>
            simp only [Bool.false_eq_true, if_false]
            rw [copy_forget]
            cases Dataset.copy d with
            | error e => rfl
            | ok c =>
              simp only [mapOk_ok]
              rw [setArray_forget c _ (binData d (facsPerAxis d.ndim (dictZip (ax.map Int.ofNat) fs)) m
                (prod ((dictZip (ax.map Int.ofNat) fs).map fun p => p.2.toNat)))]
              cases setArray c _ _ _ with
              | error e => rfl
              | ok c1 =>
                simp only [mapOk_ok]
                rw [setSampling_forget]
                cases setSampling c1 _ with
                | error e => rfl
                | ok c2 =>
                  simp only [mapOk_ok]
                  rw [setOrigin_forget]
                  cases setOrigin c2 _ <;> rfl

theorem resample_forget (d : Ds) (arg : RsArg) (a : AxesArg) (ip : Bool) :
    resample (forget d) arg a ip = mapOk forgetRes (resample d arg a ip) := by
  unfold resample
  simp only [forget_ndim, forget_kind, forget_shape, forget_origin, forget_sampling]
  cases axesList d.ndim a with
  | error e => rfl
  | ok ax =>
    simp only
    cases resampleOuts d.shape ax arg with
    | error e => rfl
    | ok outs =>
      simp only
      by_cases h1 : (outs.any (· < 1)) = true
      · rw [if_pos h1, if_pos h1]; rfl
      · rw [if_neg h1, if_neg h1]
        by_cases h2 : (ax.any (fun a => d.shape.getD a 0 = 0)) = true
        · rw [if_pos h2, if_pos h2]; rfl
        · rw [if_neg h2, if_neg h2]
          cases ip with
          | true => rfl
          | false =>
            simp only [Bool.false_eq_true, if_false]
            rw [copy_forget]
            cases Dataset.copy d with
            | error e => rfl
            | ok c =>
              simp only [mapOk_ok]
              rw [setArray_forget c _ none]
              cases setArray c _ none _ with
              | error e => rfl
              | ok c1 =>
                simp only [mapOk_ok]
                rw [setSampling_forget]
                cases setSampling c1 _ with
                | error e => rfl
                | ok c2 =>
                  simp only [mapOk_ok]
                  rw [setOrigin_forget]
                  cases setOrigin c2 _ <;> rfl

theorem dpReduce_forget (d : Ds) (k : DpKind) : dpReduce (forget d) k = mapOk forget (dpReduce d k) := by
  unfold dpReduce
  simp only [forget_cls, forget_kind, forget_shape, forget_origin, forget_sampling, forget_units, forget_data]
  by_cases hc : d.cls ≠ DsClass.d4stem
  · rw [if_pos hc, if_pos hc]; rfl
  · rw [if_neg hc, if_neg hc]
    cases k <;> exact fromArray_forget _ _ _ _ _ _ _

theorem virtualImage_forget (d : Ds) (ms : List Nat) (m : List Val) :
    virtualImage (forget d) ms m = mapOk forget (virtualImage d ms m) := by
  unfold virtualImage
  simp only [forget_cls, forget_kind, forget_shape, forget_origin, forget_sampling, forget_units, forget_data]
  by_cases hc : d.cls ≠ DsClass.d4stem
  · rw [if_pos hc, if_pos hc]; rfl
  · rw [if_neg hc, if_neg hc]
    by_cases hm : ms ≠ last2 d.shape
    · rw [if_pos hm, if_pos hm]; rfl
    · rw [if_neg hm, if_neg hm]
      exact fromArray_forget _ _ _ _ _ _ _

theorem frame_forget (d : Ds) (k : Nat) : frame (forget d) k = mapOk forget (frame d k) := by
  unfold frame
  simp only [forget_cls, forget_shape]
  by_cases hc : d.cls ≠ DsClass.d3
  · rw [if_pos hc, if_pos hc]; rfl
  · rw [if_neg hc, if_neg hc]
    by_cases hk : k < d.shape.getD 0 0
    · rw [if_pos hk, if_pos hk]; exact getitem_forget d _
    · rw [if_neg hk, if_neg hk]; rfl

/-! ### calls that change nothing -/

theorem padWidths_le {x : Int} {n : Nat} (h : x ≤ n) : padWidths x n = (0, 0) := by
  simp only [padWidths]
  have h1 : max 0 ((x - (n : Int)) / 2) = 0 := by omega
  have h2 : max 0 ((x - (n : Int) + 1) / 2) = 0 := by omega
  rw [h1, h2]; rfl

theorem padShape_le {o : List Int} {shape : List Nat} (h : List.Forall₂ (fun (x : Int) (n : Nat) => x ≤ n) o shape) :
    padShape shape (List.zipWith padWidths o shape) = shape := by
  induction h with
  | nil => rfl
  | cons hx _ ih =>
    simp only [List.zipWith_cons_cons, padShape] at ih ⊢
    rw [padWidths_le hx, ih]; simp

theorem padShape_zero (shape : List Nat) : padShape shape (List.replicate shape.length (0, 0)) = shape := by
  induction shape with
  | nil => rfl
  | cons n ns ih =>
    simp only [List.length_cons, List.replicate_succ, padShape, List.zipWith_cons_cons] at ih ⊢
    rw [ih]; simp

theorem mem_dictSet {β : Type} : ∀ (d : List (Int × β)) (k : Int) (v : β) (p : Int × β),
    p ∈ dictSet d k v → p ∈ d ∨ p = (k, v)
  | [], k, v, p, h => by simp [dictSet] at h; exact Or.inr h
  | (k', v') :: r, k, v, p, h => by
    simp only [dictSet] at h
    split at h
    · simp only [List.mem_cons] at h ⊢
      rcases h with h | h
      · exact Or.inr h
      · exact Or.inl (Or.inr h)
    · simp only [List.mem_cons] at h ⊢
      rcases h with h | h
      · exact Or.inl (Or.inl h)
      · rcases mem_dictSet r k v p h with h' | h'
        · exact Or.inl (Or.inr h')
        · exact Or.inr h'

theorem dictZip_vals {β : Type} (ks : List Int) (vs : List β) : ∀ p ∈ dictZip ks vs, p.2 ∈ vs := by
  unfold dictZip
  have key : ∀ (l : List (Int × β)) (acc : List (Int × β)), (∀ q ∈ l, q.2 ∈ vs) → (∀ q ∈ acc, q.2 ∈ vs) →
      ∀ p ∈ l.foldl (fun d (p : Int × β) => dictSet d p.1 p.2) acc, p.2 ∈ vs := by
    intro l
    induction l with
    | nil => intro acc _ ha p hp; exact ha p hp
    | cons x xs ih =>
      intro acc hl ha p hp
      simp only [List.foldl_cons] at hp
      refine ih (dictSet acc x.1 x.2) (fun q hq => hl q (by simp [hq])) ?_ p hp
      intro q hq
      rcases mem_dictSet acc x.1 x.2 q hq with h | h
      · exact ha q h
      · rw [h]; exact hl x (by simp)
  refine key (ks.zip vs) [] ?_ (by simp)
  intro q hq
  exact (List.of_mem_zip hq).2

theorem dictGet_mem {β : Type} : ∀ (d : List (Int × β)) (k : Int) (v : β), dictGet d k = some v → (k, v) ∈ d
  | [], k, v, h => by simp [dictGet] at h
  | (k', v') :: r, k, v, h => by
    simp only [dictGet] at h
    split at h
    · rename_i hk; simp at h; subst hk; subst h; simp
    · exact List.mem_cons_of_mem _ (dictGet_mem r k v h)

theorem facsPerAxis_ones (nd : Nat) (d : List (Int × Int)) (h : ∀ p ∈ d, p.2 = 1) :
    facsPerAxis nd d = List.replicate nd 1 := by
  unfold facsPerAxis
  rw [List.eq_replicate_iff]
  refine ⟨by simp, ?_⟩
  intro b hb
  simp only [List.mem_map, List.mem_range] at hb
  obtain ⟨ax, _, rfl⟩ := hb
  cases hg : dictGet d (Int.ofNat ax) with
  | none => rfl
  | some v =>
    have := h _ (dictGet_mem d _ v hg)
    simp at this
    simp [this]

theorem binShape_ones (shape : List Nat) : binShape shape (List.replicate shape.length 1) = shape := by
  induction shape with
  | nil => rfl
  | cons n ns ih =>
    simp only [List.length_cons, List.replicate_succ, binShape, List.zipWith_cons_cons] at ih ⊢
    rw [ih]; simp

theorem binCalib_ones (o s : List Rat) (d : List (Int × Int)) (h : ∀ p ∈ d, p.2 = 1) : binCalib o s d = (o, s) := by
  unfold binCalib
  induction d with
  | nil => rfl
  | cons x xs ih =>
    simp only [List.foldl_cons]
    have hx : x.2 = 1 := h x (by simp)
    have h1 : (binMeta (o.getD x.1.toNat 0) (s.getD x.1.toNat 0) x.2.toNat) = (o.getD x.1.toNat 0, s.getD x.1.toNat 0) := by
      rw [hx]; simp only [binMeta]; congr 1 <;> simp
    simp only [h1]
    have e1 : o.set x.1.toNat (o.getD x.1.toNat 0) = o := by
      apply List.ext_getElem (by simp)
      intro i h1 h2
      by_cases hi : x.1.toNat = i
      · subst hi; simp [List.getD_eq_getElem?_getD, List.getElem?_eq_getElem h2]
      · simp [List.getElem_set_ne hi]
    have e2 : s.set x.1.toNat (s.getD x.1.toNat 0) = s := by
      apply List.ext_getElem (by simp)
      intro i h1 h2
      by_cases hi : x.1.toNat = i
      · subst hi; simp [List.getD_eq_getElem?_getD, List.getElem?_eq_getElem h2]
      · simp [List.getElem_set_ne hi]
    simp only [e1, e2]
    exact ih (fun p hp => h p (by simp [hp]))

end QuantemModel.DatasetAbs
