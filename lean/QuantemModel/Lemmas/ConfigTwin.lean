import QuantemModel.Lemmas.Config
/-! '-'/'_' twin spellings: `altKey` is an involution on keys that do not mix both characters. -/
namespace QuantemModel.Config

/-- a key that does not contain both '-' and '_' -/
def Uniform (k : Key) : Prop := ¬ ('_' ∈ k ∧ '-' ∈ k)

theorem swapUS_ne (c : Char) : swapUS c ≠ '_' := by
  unfold swapUS; split
  · decide
  · assumption

theorem swapSU_ne (c : Char) : swapSU c ≠ '-' := by
  unfold swapSU; split
  · decide
  · assumption

theorem map_swapSU_swapUS (k : Key) (h : '-' ∉ k) : (k.map swapUS).map swapSU = k := by
  induction k with
  | nil => rfl
  | cons c rest ih =>
    have hc : c ≠ '-' := fun e => h (by simp [e])
    have hr : '-' ∉ rest := fun e => h (by simp [e])
    simp only [List.map_cons, ih hr]
    congr 1
    unfold swapUS
    split
    · rename_i e; subst e; rfl
    · unfold swapSU; simp [hc]

theorem map_swapUS_swapSU (k : Key) (h : '_' ∉ k) : (k.map swapSU).map swapUS = k := by
  induction k with
  | nil => rfl
  | cons c rest ih =>
    have hc : c ≠ '_' := fun e => h (by simp [e])
    have hr : '_' ∉ rest := fun e => h (by simp [e])
    simp only [List.map_cons, ih hr]
    congr 1
    unfold swapSU
    split
    · rename_i e; subst e; rfl
    · unfold swapUS; simp [hc]

theorem map_swapSU_id (k : Key) (h : '-' ∉ k) : k.map swapSU = k := by
  induction k with
  | nil => rfl
  | cons c rest ih =>
    have hc : c ≠ '-' := fun e => h (by simp [e])
    have hr : '-' ∉ rest := fun e => h (by simp [e])
    simp [ih hr, swapSU, hc]

theorem mem_map_swapSU (k : Key) (h : '-' ∈ k) : '_' ∈ k.map swapSU := by
  simp only [List.mem_map]
  exact ⟨'-', h, by decide⟩

/-- **the other spelling of the other spelling is the key itself** -/
theorem altKey_involutive (k : Key) (h : Uniform k) : altKey (altKey k) = k := by
  unfold Uniform at h
  by_cases hu : '_' ∈ k
  · have hd : '-' ∉ k := fun e => h ⟨hu, e⟩
    have h1 : altKey k = k.map swapUS := by simp [altKey, hu]
    have h2 : '_' ∉ k.map swapUS := by
      simp only [List.mem_map, not_exists, not_and]
      intro c _ e; exact swapUS_ne c e
    rw [h1]
    simp only [altKey, h2, if_false]
    exact map_swapSU_swapUS k hd
  · have h1 : altKey k = k.map swapSU := by simp [altKey, hu]
    rw [h1]
    by_cases hd : '-' ∈ k
    · have h2 : '_' ∈ k.map swapSU := mem_map_swapSU k hd
      simp only [altKey, h2, if_true]
      exact map_swapUS_swapSU k hu
    · rw [map_swapSU_id k hd]
      simp only [altKey, hu, if_false]
      exact map_swapSU_id k hd

/-- no dictionary level holds both spellings of one key -/
def TwinFree (d : Dict) : Prop := ∀ k, dhas d k = true → altKey k ≠ k → dhas d (altKey k) = false

/-- twin-freeness of every level the path visits -/
def TwinFreeAlong : Dict → List Key → Prop
  | _, [] => True
  | d, k :: rest =>
      TwinFree d ∧ (match dget d (canonicalName k d) with
        | some (.node sub) => TwinFreeAlong sub rest
        | _ => True)

theorem twinFree_nil : TwinFree [] := by intro k h; simp [dhas, dget] at h

theorem twinFreeAlong_nil (keys : List Key) : TwinFreeAlong [] keys := by
  cases keys with
  | nil => trivial
  | cons k rest => exact ⟨twinFree_nil, by simp [dget]⟩

/-- after writing under the canonical name of `k`, the *other* spelling of `k` resolves to
that same entry -/
theorem canonicalName_alt_dset (k : Key) (d : Dict) (X : Tree) (hu : Uniform k) (htf : TwinFree d) :
    canonicalName (altKey k) (dset d (canonicalName k d) X) = canonicalName k d := by
  have hinv := altKey_involutive k hu
  by_cases he : altKey k = k
  · rw [he]; exact canonicalName_dset k d X
  · by_cases h1 : dhas d k = true
    · have hc : canonicalName k d = k := by simp [canonicalName, h1]
      have hna : dhas d (altKey k) = false := htf k h1 he
      rw [hc]
      unfold canonicalName
      rw [dhas_dset_other _ _ _ _ he, hna, hinv, dhas_dset_same]
      simp
    · by_cases h2 : dhas d (altKey k) = true
      · have hc : canonicalName k d = altKey k := by simp [canonicalName, h1, h2]
        rw [hc]
        unfold canonicalName
        simp [dhas_dset_same]
      · have hc : canonicalName k d = k := by simp [canonicalName, h1, h2]
        rw [hc]
        unfold canonicalName
        rw [dhas_dset_other _ _ _ _ he, hinv, dhas_dset_same]
        simp [h2]

end QuantemModel.Config
