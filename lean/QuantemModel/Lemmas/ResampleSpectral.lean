import QuantemModel.Lemmas.Resample
import QuantemModel.Real.NumReal
import Mathlib.RingTheory.RootsOfUnity.Complex
import Mathlib.Algebra.Field.GeomSum
/-! Spectral lemmas for Props/C06.lean: the model's DFT (`Core/Dft.lean`, defining sums over
the carrier) at the real instance, transported to `ℂ`. -/
namespace QuantemModel.Resample
open QuantemModel QuantemModel.Dft Complex

/-- the model's explicit complex pair as a Mathlib complex number -/
noncomputable def toC (z : Cx ℝ) : ℂ := ⟨z.re, z.im⟩

theorem toC_inj {a b : Cx ℝ} (h : toC a = toC b) : a = b := by
  cases a; cases b
  simp only [toC, Complex.mk.injEq] at h
  obtain ⟨rfl, rfl⟩ := h; rfl

@[simp] theorem toC_zero : toC (Cx.zero : Cx ℝ) = 0 := by
  apply Complex.ext <;> simp [toC, Cx.zero]

@[simp] theorem toC_add (a b : Cx ℝ) : toC (a + b) = toC a + toC b := by
  show toC (Cx.add a b) = _
  apply Complex.ext <;> simp [toC, Cx.add]

@[simp] theorem toC_mul (a b : Cx ℝ) : toC (a * b) = toC a * toC b := by
  show toC (Cx.mul a b) = _
  apply Complex.ext <;> simp [toC, Cx.mul]

@[simp] theorem toC_smul (s : ℝ) (a : Cx ℝ) : toC (Cx.smul s a) = (s : ℂ) * toC a := by
  apply Complex.ext <;> simp [toC, Cx.smul]

@[simp] theorem toC_ofReal (x : ℝ) : toC (Cx.ofReal x) = (x : ℂ) := by
  apply Complex.ext <;> simp [toC, Cx.ofReal]

theorem toC_cis (θ : ℝ) : toC (Cx.cis θ) = Complex.exp (θ * I) := by
  apply Complex.ext <;> simp [toC, Cx.cis, Complex.exp_ofReal_mul_I_re, Complex.exp_ofReal_mul_I_im]

theorem toC_foldl (l : List (Cx ℝ)) (a : Cx ℝ) :
    toC (l.foldl (· + ·) a) = toC a + (l.map toC).sum := by
  induction l generalizing a with
  | nil => simp
  | cons x t ih => simp [ih, add_assoc]

theorem toC_sum (l : List (Cx ℝ)) : toC (Cx.sum l) = (l.map toC).sum := by
  unfold Cx.sum; rw [toC_foldl]; simp


/-! ### roots of unity, the model's DFT in ℂ, and the 1-D resampling operator -/

noncomputable def zeta (N : ℕ) : ℂ := Complex.exp (2 * Real.pi * I / N)
theorem zeta_pow_N (N : ℕ) (hN : N ≠ 0) : zeta N ^ N = 1 := (Complex.isPrimitiveRoot_exp N hN).pow_eq_one
theorem zeta_pow_mod (N a : ℕ) (hN : N ≠ 0) : zeta N ^ (a % N) = zeta N ^ a :=
  (pow_eq_pow_mod a (zeta_pow_N N hN)).symm

theorem list_sum_range (f : ℕ → ℂ) (N : ℕ) :
    ((List.range N).map f).sum = ∑ i ∈ Finset.range N, f i := by
  induction N with
  | zero => simp
  | succ N ih => rw [List.range_succ, List.map_append, List.sum_append, ih, Finset.sum_range_succ]; simp

theorem zipWith_range {α β : Type} (f : ℕ → α → β) (x : List α) (d : α) :
    List.zipWith f (List.range x.length) x = (List.range x.length).map (fun k => f k (x.getD k d)) := by
  apply List.ext_getElem?
  intro i
  simp only [List.getElem?_zipWith, List.getElem?_map, List.getElem?_range]
  by_cases h : i < x.length
  · simp [h, List.getD_eq_getElem?_getD]
  · simp [h]

theorem geom_zeta (m k : ℕ) (hm : m ≠ 0) (hk : k < m) :
    ∑ j ∈ Finset.range m, (zeta m) ^ (k * j % m) = if k = 0 then (m : ℂ) else 0 := by
  have h1 : ∀ j, (zeta m) ^ (k * j % m) = ((zeta m) ^ k) ^ j := by
    intro j; rw [zeta_pow_mod m _ hm, pow_mul]
  simp only [h1]
  split
  · rename_i h0; subst h0; simp
  · rename_i h0
    have hne : (zeta m) ^ k ≠ 1 :=
      (Complex.isPrimitiveRoot_exp m hm).pow_ne_one_of_pos_of_lt h0 hk
    rw [geom_sum_eq hne]
    rw [← pow_mul, Nat.mul_comm, pow_mul, zeta_pow_N m hm]
    simp

theorem toC_twiddle_pos (N k n : ℕ) : toC (twiddle (R := ℝ) 1 N k n) = (zeta N) ^ (k * n % N) := by
  unfold twiddle zeta
  generalize k * n % N = r
  rw [toC_cis, ← Complex.exp_nat_mul]
  congr 1
  simp only [NumReal.mul_eq, NumReal.ofRat_eq, NumReal.pi_eq]
  push_cast
  ring

theorem toC_twiddle_neg (N k n : ℕ) : toC (twiddle (R := ℝ) (-1) N k n) = ((zeta N)⁻¹) ^ (k * n % N) := by
  unfold twiddle zeta
  generalize k * n % N = r
  rw [toC_cis, ← Complex.exp_neg, ← Complex.exp_nat_mul]
  congr 1
  simp only [NumReal.mul_eq, NumReal.ofRat_eq, NumReal.pi_eq]
  push_cast
  ring

/-- element `k` of the model's forward DFT, in ℂ -/
theorem toC_dft_getD (x : List (Cx ℝ)) (k : ℕ) (hk : k < x.length) :
    toC ((dft x).getD k Cx.zero)
      = ∑ n ∈ Finset.range x.length, toC (x.getD n Cx.zero) * ((zeta x.length)⁻¹) ^ (k * n % x.length) := by
  unfold dft
  simp only
  rw [List.getD_eq_getElem?_getD, List.getElem?_map, List.getElem?_range hk]
  simp only [Option.map_some, Option.getD_some]
  rw [zipWith_range _ x Cx.zero, toC_sum, List.map_map, list_sum_range]
  apply Finset.sum_congr rfl
  intro n _
  simp [toC_twiddle_neg]

/-- element `n` of the model's inverse DFT, in ℂ -/
theorem toC_idft_getD (X : List (Cx ℝ)) (n : ℕ) (hn : n < X.length) :
    toC ((idft X).getD n Cx.zero)
      = (1 / (X.length : ℂ)) *
        ∑ k ∈ Finset.range X.length, toC (X.getD k Cx.zero) * (zeta X.length) ^ (k * n % X.length) := by
  unfold idft
  simp only
  rw [List.getD_eq_getElem?_getD, List.getElem?_map, List.getElem?_range hn]
  simp only [Option.map_some, Option.getD_some]
  rw [toC_smul, zipWith_range _ X Cx.zero, toC_sum, List.map_map, list_sum_range]
  congr 1
  · simp
  · apply Finset.sum_congr rfl
    intro k _
    simp [toC_twiddle_pos]

theorem length_dft (x : List (Cx ℝ)) : (dft x).length = x.length := by simp [dft]
theorem length_idft (x : List (Cx ℝ)) : (idft x).length = x.length := by simp [idft]

theorem list_sum_getD (l : List (Cx ℝ)) (f : Cx ℝ → ℂ) :
    (l.map f).sum = ∑ j ∈ Finset.range l.length, f (l.getD j Cx.zero) := by
  rw [← list_sum_range]
  congr 1
  apply List.ext_getElem?
  intro i
  simp only [List.getElem?_map, List.getElem?_range]
  by_cases h : i < l.length
  · simp [h, List.getD_eq_getElem?_getD]
  · simp [h]

/-- the samples of an inverse DFT add up to the DC coefficient -/
theorem sum_idft (Y : List (Cx ℝ)) (hm : Y.length ≠ 0) :
    toC (Cx.sum (idft Y)) = toC (Y.getD 0 Cx.zero) := by
  rw [toC_sum, list_sum_getD, length_idft]
  have h1 : ∀ j ∈ Finset.range Y.length, toC ((idft Y).getD j Cx.zero)
      = (1 / (Y.length : ℂ)) *
        ∑ k ∈ Finset.range Y.length, toC (Y.getD k Cx.zero) * (zeta Y.length) ^ (k * j % Y.length) := by
    intro j hj
    exact toC_idft_getD Y j (Finset.mem_range.mp hj)
  rw [Finset.sum_congr rfl h1, ← Finset.mul_sum, Finset.sum_comm]
  have h2 : ∀ k ∈ Finset.range Y.length,
      ∑ j ∈ Finset.range Y.length, toC (Y.getD k Cx.zero) * (zeta Y.length) ^ (k * j % Y.length)
        = toC (Y.getD k Cx.zero) * (if k = 0 then (Y.length : ℂ) else 0) := by
    intro k hk
    rw [← Finset.mul_sum, geom_zeta Y.length k hm (Finset.mem_range.mp hk)]
  rw [Finset.sum_congr rfl h2]
  rw [Finset.sum_eq_single 0]
  · have : (Y.length : ℂ) ≠ 0 := by exact_mod_cast hm
    simp
    field_simp
  · intro k _ hk0; simp [hk0]
  · intro h; exact absurd (Finset.mem_range.mpr (Nat.pos_of_ne_zero hm)) h

/-- the DC coefficient of the forward DFT is the sum of the samples -/
theorem dft_zero (x : List (Cx ℝ)) (hn : x.length ≠ 0) :
    toC ((dft x).getD 0 Cx.zero) = toC (Cx.sum x) := by
  rw [toC_dft_getD x 0 (Nat.pos_of_ne_zero hn), toC_sum, list_sum_getD]
  apply Finset.sum_congr rfl
  intro n _
  simp

theorem spectrumMap_dc {β : Type} (z : β) (n m : ℕ) (F : List β) (hF : F.length = n)
    (hn : 1 ≤ n) (hm : 1 ≤ m) : (spectrumMap z n m F).getD 0 z = F.getD 0 z := by
  rw [List.getD_eq_getElem?_getD, getElem?_spectrumMap z n m F hF 0 (by omega), srcBin_dc hn hm]
  simp [List.getD_eq_getElem?_getD]

/-- **mean / DC preservation** of the 1-D Fourier resampling operator over ℝ -/
theorem resample1_sum (x : List (Cx ℝ)) (m : ℕ) (hn : x.length ≠ 0) (hm : m ≠ 0) :
    toC (Cx.sum (resample1 m x)) = ((m : ℂ) / (x.length : ℂ)) * toC (Cx.sum x) := by
  unfold resample1 resample1U
  have hY : (spectrumMap Cx.zero x.length m (dft x)).length = m :=
    length_spectrumMap _ _ _ _ (length_dft x)
  rw [toC_sum, List.map_map]
  have : (List.map (toC ∘ Cx.smul (Num.ofRat ((m : Rat) / (x.length : Rat))))
      (idft (spectrumMap Cx.zero x.length m (dft x)))).sum
      = ((m : ℂ) / (x.length : ℂ)) * ((idft (spectrumMap Cx.zero x.length m (dft x))).map toC).sum := by
    rw [← List.sum_map_mul_left]
    congr 1
    apply List.map_congr_left
    intro a _
    simp [Function.comp]
  rw [this, ← toC_sum, sum_idft _ (by rw [hY]; exact hm),
    spectrumMap_dc _ _ _ _ (length_dft x) (Nat.pos_of_ne_zero hn) (Nat.pos_of_ne_zero hm),
    dft_zero x hn]

theorem zeta_inv_pow_mod (N a : ℕ) (hN : N ≠ 0) : (zeta N)⁻¹ ^ (a % N) = (zeta N)⁻¹ ^ a := by
  have : (zeta N)⁻¹ ^ N = 1 := by rw [inv_pow, zeta_pow_N N hN, inv_one]
  exact (pow_eq_pow_mod a this).symm

/-- orthogonality of the forward and inverse twiddles -/
theorem orth (N j n : ℕ) (hN : N ≠ 0) (hj : j < N) (hn : n < N) :
    ∑ k ∈ Finset.range N, (zeta N)⁻¹ ^ (k * n % N) * (zeta N) ^ (k * j % N)
      = if n = j then (N : ℂ) else 0 := by
  have hz : zeta N ≠ 0 := Complex.exp_ne_zero _
  have h1 : ∀ k, (zeta N)⁻¹ ^ (k * n % N) * (zeta N) ^ (k * j % N)
      = ((zeta N)⁻¹ ^ n * (zeta N) ^ j) ^ k := by
    intro k
    rw [zeta_inv_pow_mod N _ hN, zeta_pow_mod N _ hN, mul_pow, ← pow_mul, ← pow_mul,
      Nat.mul_comm n k, Nat.mul_comm j k]
  simp only [h1]
  split
  · rename_i h; subst h
    have : (zeta N)⁻¹ ^ n * (zeta N) ^ n = 1 := by rw [inv_pow, inv_mul_cancel₀ (pow_ne_zero _ hz)]
    rw [this]
    simp
  · rename_i h
    have hne : (zeta N)⁻¹ ^ n * (zeta N) ^ j ≠ 1 := by
      intro heq
      have h2 : (zeta N) ^ j = (zeta N) ^ n := by
        have := congrArg (fun t => (zeta N) ^ n * t) heq
        simp only [inv_pow, mul_one] at this
        rw [← mul_assoc, mul_inv_cancel₀ (pow_ne_zero _ hz), one_mul] at this
        exact this
      exact h ((Complex.isPrimitiveRoot_exp N hN).pow_inj hj hn h2).symm
    rw [geom_sum_eq hne]
    have hpow : ((zeta N)⁻¹ ^ n * (zeta N) ^ j) ^ N = 1 := by
      rw [mul_pow, ← pow_mul, ← pow_mul, Nat.mul_comm n N, Nat.mul_comm j N, pow_mul, pow_mul,
        inv_pow, zeta_pow_N N hN]
      simp
    rw [hpow]; simp

/-- DFT inversion for the model's defining sums -/
theorem idft_dft_getD (x : List (Cx ℝ)) (j : ℕ) (hj : j < x.length) :
    toC ((idft (dft x)).getD j Cx.zero) = toC (x.getD j Cx.zero) := by
  have hN : x.length ≠ 0 := by omega
  rw [toC_idft_getD _ j (by rw [length_dft]; exact hj), length_dft]
  have h1 : ∀ k ∈ Finset.range x.length,
      toC ((dft x).getD k Cx.zero) * (zeta x.length) ^ (k * j % x.length)
        = ∑ n ∈ Finset.range x.length, toC (x.getD n Cx.zero) *
            ((zeta x.length)⁻¹ ^ (k * n % x.length) * (zeta x.length) ^ (k * j % x.length)) := by
    intro k hk
    rw [toC_dft_getD x k (Finset.mem_range.mp hk), Finset.sum_mul]
    apply Finset.sum_congr rfl
    intro n _; ring
  rw [Finset.sum_congr rfl h1, Finset.sum_comm]
  have h2 : ∀ n ∈ Finset.range x.length,
      ∑ k ∈ Finset.range x.length, toC (x.getD n Cx.zero) *
        ((zeta x.length)⁻¹ ^ (k * n % x.length) * (zeta x.length) ^ (k * j % x.length))
        = toC (x.getD n Cx.zero) * (if n = j then (x.length : ℂ) else 0) := by
    intro n hn
    rw [← Finset.mul_sum, orth x.length j n hN hj (Finset.mem_range.mp hn)]
  rw [Finset.sum_congr rfl h2, Finset.sum_eq_single j]
  · have : (x.length : ℂ) ≠ 0 := by exact_mod_cast hN
    simp
    field_simp
  · intro n _ hnj; simp [hnj]
  · intro h; exact absurd (Finset.mem_range.mpr hj) h

theorem idft_dft (x : List (Cx ℝ)) : idft (dft x) = x := by
  apply List.ext_getElem
  · rw [length_idft, length_dft]
  · intro j h1 h2
    apply toC_inj
    have := idft_dft_getD x j h2
    simpa [List.getD_eq_getElem?_getD, h1, h2] using this

theorem spectrumMap_self {β : Type} (z : β) (n : ℕ) (F : List β) (hF : F.length = n) :
    spectrumMap z n n F = F := by
  apply List.ext_getElem?
  intro k
  by_cases hk : k < n
  · rw [getElem?_spectrumMap z n n F hF k hk, srcBin_self hk]
  · have h1 : (spectrumMap z n n F).length = n := length_spectrumMap z n n F hF
    rw [List.getElem?_eq_none (by omega), List.getElem?_eq_none (by omega)]

/-- **identity when the shape is unchanged** (over ℝ, exact) -/
theorem resample1_same (x : List (Cx ℝ)) (hn : x.length ≠ 0) : resample1 x.length x = x := by
  unfold resample1 resample1U
  rw [spectrumMap_self _ _ _ (length_dft x), idft_dft]
  have h1 : ((x.length : Rat) / (x.length : Rat)) = 1 := by
    have : (x.length : Rat) ≠ 0 := by exact_mod_cast hn
    exact div_self this
  rw [h1]
  have : ∀ a : Cx ℝ, Cx.smul (Num.ofRat 1) a = a := by
    intro a; apply toC_inj; simp
  rw [List.map_congr_left (fun a _ => this a)]
  simp

/-- a list of model complex numbers as a sequence in ℂ (zero beyond its end) -/
noncomputable def vecC (x : List (Cx ℝ)) (i : ℕ) : ℂ := toC (x.getD i Cx.zero)

/-- band-limited DFT resampling written out in ℂ: forward DFT of length `n`, coefficients
moved by the index map `srcBin`, inverse DFT of length `m`, rescale `m/n` -/
noncomputable def resampleC (n m : ℕ) (v : ℕ → ℂ) (j : ℕ) : ℂ :=
  ((m : ℂ) / (n : ℂ)) * ((1 / (m : ℂ)) *
    ∑ k' ∈ Finset.range m,
      (match srcBin n m k' with
        | some k => ∑ i ∈ Finset.range n, v i * (zeta n)⁻¹ ^ (k * i % n)
        | none => 0) * (zeta m) ^ (k' * j % m))

theorem length_resample1 (x : List (Cx ℝ)) (m : ℕ) : (resample1 m x).length = m := by
  unfold resample1 resample1U
  rw [List.length_map, length_idft, length_spectrumMap _ _ _ _ (length_dft x)]

/-- the model's 1-D resampling operator is `resampleC` -/
theorem resample1_getD (x : List (Cx ℝ)) (m j : ℕ) (hj : j < m) :
    vecC (resample1 m x) j = resampleC x.length m (vecC x) j := by
  unfold resample1 resample1U vecC resampleC
  have hY : (spectrumMap Cx.zero x.length m (dft x)).length = m :=
    length_spectrumMap _ _ _ _ (length_dft x)
  have hlen : (idft (spectrumMap Cx.zero x.length m (dft x))).length = m := by rw [length_idft, hY]
  rw [List.getD_eq_getElem?_getD, List.getElem?_map]
  have hj' : j < (idft (spectrumMap Cx.zero x.length m (dft x))).length := by rw [hlen]; exact hj
  rw [List.getElem?_eq_getElem hj']
  simp only [Option.map_some, Option.getD_some, toC_smul]
  have h0 := toC_idft_getD (spectrumMap Cx.zero x.length m (dft x)) j (by rw [hY]; exact hj)
  rw [List.getD_eq_getElem?_getD, List.getElem?_eq_getElem hj'] at h0
  simp only [Option.getD_some] at h0
  rw [h0, hY]
  congr 1
  · simp
  · congr 1
    apply Finset.sum_congr rfl
    intro k' hk'
    congr 1
    have hk'' := Finset.mem_range.mp hk'
    rw [List.getD_eq_getElem?_getD, getElem?_spectrumMap _ _ _ _ (length_dft x) k' hk'']
    cases hs : srcBin x.length m k' with
    | none => simp
    | some k =>
      simp only
      have hk := srcBin_lt hk'' hs
      have := toC_dft_getD x k hk
      rw [List.getD_eq_getElem?_getD] at this
      rw [this]

/-- `resampleC` is ℂ-linear in the signal -/
theorem resampleC_linear (n m : ℕ) (a : ℂ) (u v : ℕ → ℂ) (j : ℕ) :
    resampleC n m (fun i => a * u i + v i) j = a * resampleC n m u j + resampleC n m v j := by
  unfold resampleC
  have : ∀ k' ∈ Finset.range m,
      (match srcBin n m k' with
        | some k => ∑ i ∈ Finset.range n, (a * u i + v i) * (zeta n)⁻¹ ^ (k * i % n)
        | none => 0) * (zeta m) ^ (k' * j % m)
      = a * ((match srcBin n m k' with
        | some k => ∑ i ∈ Finset.range n, u i * (zeta n)⁻¹ ^ (k * i % n)
        | none => 0) * (zeta m) ^ (k' * j % m))
        + (match srcBin n m k' with
        | some k => ∑ i ∈ Finset.range n, v i * (zeta n)⁻¹ ^ (k * i % n)
        | none => 0) * (zeta m) ^ (k' * j % m) := by
    intro k' _
    cases srcBin n m k' with
    | none => simp
    | some k =>
      simp only
      have hs : ∑ i ∈ Finset.range n, (a * u i + v i) * (zeta n)⁻¹ ^ (k * i % n)
          = a * (∑ i ∈ Finset.range n, u i * (zeta n)⁻¹ ^ (k * i % n))
            + ∑ i ∈ Finset.range n, v i * (zeta n)⁻¹ ^ (k * i % n) := by
        rw [Finset.mul_sum, ← Finset.sum_add_distrib]
        apply Finset.sum_congr rfl
        intro i _; ring
      rw [hs]; ring
  rw [Finset.sum_congr rfl this, Finset.sum_add_distrib, ← Finset.mul_sum]
  ring

theorem vecC_lincomb (a : Cx ℝ) (x y : List (Cx ℝ)) (h : x.length = y.length) :
    vecC (List.zipWith (· + ·) (x.map (a * ·)) y) = fun i => toC a * vecC x i + vecC y i := by
  funext i
  unfold vecC
  simp only [List.getD_eq_getElem?_getD, List.getElem?_zipWith, List.getElem?_map]
  by_cases hi : i < x.length
  · have hi' : i < y.length := h ▸ hi
    simp [List.getElem?_eq_getElem hi, List.getElem?_eq_getElem hi']
  · have hi' : ¬ i < y.length := h ▸ hi
    simp [List.getElem?_eq_none (Nat.le_of_not_lt hi), List.getElem?_eq_none (Nat.le_of_not_lt hi')]

/-- **linearity** of the 1-D Fourier resampling operator (complex scalars, equal lengths) -/
theorem resample1_linear (a : Cx ℝ) (x y : List (Cx ℝ)) (m : ℕ) (h : x.length = y.length) :
    resample1 m (List.zipWith (· + ·) (x.map (a * ·)) y)
      = List.zipWith (· + ·) ((resample1 m x).map (a * ·)) (resample1 m y) := by
  apply List.ext_getElem
  · simp [length_resample1]
  · intro j h1 h2
    have hj : j < m := by rw [length_resample1] at h1; exact h1
    apply toC_inj
    have hL := resample1_getD (List.zipWith (· + ·) (x.map (a * ·)) y) m j hj
    have hlen : (List.zipWith (· + ·) (x.map (a * ·)) y).length = x.length := by simp [h]
    rw [vecC_lincomb a x y h, hlen, resampleC_linear, ← resample1_getD x m j hj, h,
      ← resample1_getD y m j hj] at hL
    unfold vecC at hL
    have e1 : (resample1 m (List.zipWith (· + ·) (x.map (a * ·)) y))[j]
        = (resample1 m (List.zipWith (· + ·) (x.map (a * ·)) y)).getD j Cx.zero := by
      rw [List.getD_eq_getElem?_getD, List.getElem?_eq_getElem h1]; rfl
    rw [e1, hL]
    have hx : j < (resample1 m x).length := by rw [length_resample1]; exact hj
    have hy : j < (resample1 m y).length := by rw [length_resample1]; exact hj
    simp [List.getD_eq_getElem?_getD, List.getElem?_eq_getElem hx, List.getElem?_eq_getElem hy]

theorem spectrumMap_map {β γ : Type} (f : β → γ) (z : β) (n m : ℕ) (F : List β) :
    spectrumMap (f z) n m (F.map f) = (spectrumMap z n m F).map f := by
  unfold spectrumMap cropPad fftshift ifftshift
  simp only [List.length_map]
  split
  · simp [List.map_drop, List.map_take]
  · split
    · simp [List.map_drop, List.map_take]
    · simp [List.map_drop, List.map_take]

/-- up-sampling then down-sampling the spectrum returns it (every coefficient survives) -/
theorem spectrumMap_up_down {β : Type} (z : β) (n m : ℕ) (X : List β) (hX : X.length = n)
    (hn : 1 ≤ n) (hnm : n ≤ m) : spectrumMap z m n (spectrumMap z n m X) = X := by
  have hY : (spectrumMap z n m X).length = m := length_spectrumMap z n m X hX
  apply List.ext_getElem?
  intro k
  by_cases hk : k < n
  · obtain ⟨k', hk', h1, h2⟩ := srcBin_up_down hn hnm hk
    rw [getElem?_spectrumMap z m n _ hY k hk, h2]
    simp only
    rw [getElem?_spectrumMap z n m X hX k' hk', h1]
  · have h1 : (spectrumMap z m n (spectrumMap z n m X)).length = n := length_spectrumMap z m n _ hY
    rw [List.getElem?_eq_none (by omega), List.getElem?_eq_none (by omega)]

theorem dft_idft_getD (Y : List (Cx ℝ)) (k : ℕ) (hk : k < Y.length) :
    toC ((dft (idft Y)).getD k Cx.zero) = toC (Y.getD k Cx.zero) := by
  have hN : Y.length ≠ 0 := by omega
  rw [toC_dft_getD _ k (by rw [length_idft]; exact hk), length_idft]
  have h1 : ∀ n ∈ Finset.range Y.length,
      toC ((idft Y).getD n Cx.zero) * (zeta Y.length)⁻¹ ^ (k * n % Y.length)
        = ∑ l ∈ Finset.range Y.length, (1 / (Y.length : ℂ)) * (toC (Y.getD l Cx.zero) *
            ((zeta Y.length)⁻¹ ^ (n * k % Y.length) * (zeta Y.length) ^ (n * l % Y.length))) := by
    intro n hn
    rw [toC_idft_getD Y n (Finset.mem_range.mp hn), Finset.mul_sum, Finset.sum_mul]
    apply Finset.sum_congr rfl
    intro l _
    rw [Nat.mul_comm k n, Nat.mul_comm l n]; ring
  rw [Finset.sum_congr rfl h1, Finset.sum_comm]
  have h2 : ∀ l ∈ Finset.range Y.length,
      ∑ n ∈ Finset.range Y.length, (1 / (Y.length : ℂ)) * (toC (Y.getD l Cx.zero) *
        ((zeta Y.length)⁻¹ ^ (n * k % Y.length) * (zeta Y.length) ^ (n * l % Y.length)))
        = (1 / (Y.length : ℂ)) * (toC (Y.getD l Cx.zero) * (if k = l then (Y.length : ℂ) else 0)) := by
    intro l hl
    rw [← Finset.mul_sum, ← Finset.mul_sum, orth Y.length l k hN (Finset.mem_range.mp hl) hk]
  rw [Finset.sum_congr rfl h2, Finset.sum_eq_single k]
  · have : (Y.length : ℂ) ≠ 0 := by exact_mod_cast hN
    simp
    field_simp
  · intro l _ hlk; simp [Ne.symm hlk]
  · intro h; exact absurd (Finset.mem_range.mpr hk) h

theorem dft_idft (Y : List (Cx ℝ)) : dft (idft Y) = Y := by
  apply List.ext_getElem
  · rw [length_dft, length_idft]
  · intro j h1 h2
    apply toC_inj
    have := dft_idft_getD Y j h2
    simpa [List.getD_eq_getElem?_getD, h1, h2] using this

theorem dft_smul (c : ℝ) (x : List (Cx ℝ)) : dft (x.map (Cx.smul c)) = (dft x).map (Cx.smul c) := by
  apply List.ext_getElem
  · simp [length_dft]
  · intro k h1 h2
    have hk : k < x.length := by simpa [length_dft] using h2
    apply toC_inj
    have e1 := toC_dft_getD (x.map (Cx.smul c)) k (by simpa using hk)
    have e2 := toC_dft_getD x k hk
    rw [List.getD_eq_getElem?_getD, List.getElem?_eq_getElem h1] at e1
    simp only [Option.getD_some] at e1
    rw [e1]
    simp only [List.getElem_map, toC_smul]
    have h2' : k < (dft x).length := by rw [length_dft]; exact hk
    rw [List.getD_eq_getElem?_getD, List.getElem?_eq_getElem h2'] at e2
    simp only [Option.getD_some] at e2
    rw [e2, Finset.mul_sum, List.length_map]
    apply Finset.sum_congr rfl
    intro n hn
    have hn' := Finset.mem_range.mp hn
    simp [List.getD_eq_getElem?_getD, List.getElem?_eq_getElem hn']
    ring

theorem idft_smul (c : ℝ) (X : List (Cx ℝ)) : idft (X.map (Cx.smul c)) = (idft X).map (Cx.smul c) := by
  apply List.ext_getElem
  · simp [length_idft]
  · intro k h1 h2
    have hk : k < X.length := by simpa [length_idft] using h2
    apply toC_inj
    have e1 := toC_idft_getD (X.map (Cx.smul c)) k (by simpa using hk)
    have e2 := toC_idft_getD X k hk
    rw [List.getD_eq_getElem?_getD, List.getElem?_eq_getElem h1] at e1
    simp only [Option.getD_some] at e1
    rw [e1]
    simp only [List.getElem_map, toC_smul]
    have h2' : k < (idft X).length := by rw [length_idft]; exact hk
    rw [List.getD_eq_getElem?_getD, List.getElem?_eq_getElem h2'] at e2
    simp only [Option.getD_some] at e2
    rw [e2, List.length_map]
    rw [← mul_assoc, mul_comm (c : ℂ), mul_assoc, Finset.mul_sum (a := (c : ℂ))]
    congr 1
    apply Finset.sum_congr rfl
    intro n hn
    have hn' := Finset.mem_range.mp hn
    simp [List.getD_eq_getElem?_getD, List.getElem?_eq_getElem hn']
    ring

/-- **up-sampling followed by down-sampling back returns the original** (complex signals over ℝ:
exact for every signal; the Nyquist exclusion of the statement is only needed for real input,
where the code takes the real part in between) -/
theorem resample1_up_down (x : List (Cx ℝ)) (m : ℕ) (hn : 1 ≤ x.length) (hnm : x.length ≤ m) :
    resample1 x.length (resample1 m x) = x := by
  have hm : m ≠ 0 := by omega
  have hlen : (resample1 m x).length = m := length_resample1 x m
  have hY : (spectrumMap Cx.zero x.length m (dft x)).length = m :=
    length_spectrumMap _ _ _ _ (length_dft x)
  have hsm : ∀ c : ℝ, Cx.smul c (Cx.zero : Cx ℝ) = Cx.zero := by
    intro c; apply toC_inj; simp
  have outer : ∀ y : List (Cx ℝ), resample1 x.length y
      = (idft (spectrumMap Cx.zero y.length x.length (dft y))).map
          (Cx.smul (Num.ofRat ((x.length : Rat) / (y.length : Rat)))) := fun _ => rfl
  have hy : resample1 m x = (idft (spectrumMap Cx.zero x.length m (dft x))).map
      (Cx.smul (Num.ofRat ((m : Rat) / (x.length : Rat)))) := rfl
  rw [outer, hlen, hy]
  rw [dft_smul, dft_idft]
  rw [← hsm (Num.ofRat ((m : Rat) / (x.length : Rat))), spectrumMap_map, hsm,
    spectrumMap_up_down _ _ _ _ (length_dft x) hn hnm, idft_smul, idft_dft, List.map_map]
  have hc : ∀ a : Cx ℝ, (Cx.smul (Num.ofRat ((x.length : Rat) / (m : Rat))) ∘
      Cx.smul (Num.ofRat ((m : Rat) / (x.length : Rat)))) a = a := by
    intro a
    apply toC_inj
    have h1 : (x.length : ℂ) ≠ 0 := by exact_mod_cast (by omega : x.length ≠ 0)
    have h2 : (m : ℂ) ≠ 0 := by exact_mod_cast hm
    simp [Function.comp]
    field_simp
  rw [List.map_congr_left (fun a _ => hc a)]
  simp

/-! ### real input: Hermitian symmetry, real output, real round trip -/

/-- index of the negative frequency: `(-k) mod N` -/
def negIdx (N k : ℕ) : ℕ := if k = 0 then 0 else N - k

theorem negIdx_lt {N k : ℕ} (hk : k < N) : negIdx N k < N := by unfold negIdx; split_ifs <;> omega
theorem negIdx_negIdx {N k : ℕ} (hk : k < N) : negIdx N (negIdx N k) = k := by
  unfold negIdx; split_ifs <;> omega

theorem sum_negIdx (N : ℕ) (F : ℕ → ℂ) :
    ∑ k ∈ Finset.range N, F k = ∑ k ∈ Finset.range N, F (negIdx N k) := by
  apply Finset.sum_nbij' (negIdx N) (negIdx N)
  · intro a ha; exact Finset.mem_range.mpr (negIdx_lt (Finset.mem_range.mp ha))
  · intro a ha; exact Finset.mem_range.mpr (negIdx_lt (Finset.mem_range.mp ha))
  · intro a ha; exact negIdx_negIdx (Finset.mem_range.mp ha)
  · intro a ha; exact negIdx_negIdx (Finset.mem_range.mp ha)
  · intro a ha; rw [negIdx_negIdx (Finset.mem_range.mp ha)]

theorem conj_zeta (N : ℕ) : (starRingEnd ℂ) (zeta N) = (zeta N)⁻¹ := by
  unfold zeta
  rw [← Complex.exp_conj, ← Complex.exp_neg]
  congr 1
  have h2 : (starRingEnd ℂ) (2 : ℂ) = 2 := by
    rw [show (2 : ℂ) = ((2 : ℝ) : ℂ) by norm_num, Complex.conj_ofReal]
  simp [Complex.conj_ofReal, h2]
  ring

/-- `ζ^(-k·i) = ζ^((N-k)·i)` in natural exponents -/
theorem zeta_neg_pow (N k i : ℕ) (hN : N ≠ 0) (hk : k < N) :
    (zeta N)⁻¹ ^ (negIdx N k * i % N) = (zeta N) ^ (k * i % N) := by
  have hz : zeta N ≠ 0 := Complex.exp_ne_zero _
  rw [zeta_inv_pow_mod N _ hN, zeta_pow_mod N _ hN]
  unfold negIdx
  split_ifs with h0
  · subst h0; simp
  · -- (ζ⁻¹)^((N-k) i) = ζ^(k i)  since ζ^(N i) = 1
    have h1 : (zeta N) ^ ((N - k) * i) * (zeta N) ^ (k * i) = 1 := by
      rw [← pow_add, ← Nat.add_mul, Nat.sub_add_cancel (le_of_lt hk), pow_mul, zeta_pow_N N hN, one_pow]
    rw [inv_pow]
    have h2 : (zeta N) ^ ((N - k) * i) ≠ 0 := pow_ne_zero _ hz
    field_simp
    exact h1.symm

theorem zeta_pos_neg_pow (N k i : ℕ) (hN : N ≠ 0) (hk : k < N) :
    (zeta N) ^ (negIdx N k * i % N) = (zeta N)⁻¹ ^ (k * i % N) := by
  have := zeta_neg_pow N (negIdx N k) i hN (negIdx_lt hk)
  rw [negIdx_negIdx hk] at this
  exact this.symm


theorem fftfreqInt_inj {n a b : ℕ} (ha : a < n) (hb : b < n) (h : fftfreqInt n a = fftfreqInt n b) : a = b := by
  unfold fftfreqInt at h
  split_ifs at h <;> omega

theorem srcBin_eq_some_iff {n m k' k : ℕ} (hn : 1 ≤ n) (hm : 1 ≤ m) (hk : k' < m) :
    srcBin n m k' = some k ↔ k < n ∧ fftfreqInt n k = fftfreqInt m k' := by
  constructor
  · intro h; exact ⟨srcBin_lt hk h, srcBin_freq hn hm hk h⟩
  · rintro ⟨hkn, hf⟩
    cases hs : srcBin n m k' with
    | none =>
      exfalso
      have := (srcBin_none_iff hn hm hk).mp hs
      rw [← hf] at this
      unfold fftfreqInt at this
      split_ifs at this <;> omega
    | some k2 =>
      have h2 := srcBin_freq hn hm hk hs
      have h3 := srcBin_lt hk hs
      rw [fftfreqInt_inj h3 hkn (h2.trans hf.symm)]

/-- the index map commutes with frequency negation, except at the Nyquist bin of an even
input that is up-sampled (its coefficient is placed at `-n/2` only) -/
theorem srcBin_neg_some {n m k' k : ℕ} (hn : 1 ≤ n) (hnm : n ≤ m) (hk : k' < m)
    (h : srcBin n m k' = some k) :
    srcBin n m (negIdx m k') = some (negIdx n k) ∨
      (n % 2 = 0 ∧ n < m ∧ k = n / 2 ∧ srcBin n m (negIdx m k') = none) := by
  have hm : 1 ≤ m := by omega
  obtain ⟨hkn, hf⟩ := (srcBin_eq_some_iff hn hm hk).mp h
  have hk2 : negIdx m k' < m := negIdx_lt hk
  by_cases hex : n % 2 = 0 ∧ n < m ∧ k = n / 2
  · right
    refine ⟨hex.1, hex.2.1, hex.2.2, ?_⟩
    rw [srcBin_none_iff hn hm hk2]
    unfold fftfreqInt negIdx at *
    split_ifs at hf ⊢ <;> omega
  · left
    rw [srcBin_eq_some_iff hn hm hk2]
    refine ⟨negIdx_lt hkn, ?_⟩
    unfold fftfreqInt negIdx at *
    split_ifs at hf ⊢ <;> omega

theorem srcBin_neg_none {n m k' : ℕ} (hn : 1 ≤ n) (hnm : n ≤ m) (hk : k' < m)
    (h : srcBin n m k' = none) :
    srcBin n m (negIdx m k') = none ∨
      (n % 2 = 0 ∧ n < m ∧ srcBin n m (negIdx m k') = some (n / 2)) := by
  have hm : 1 ≤ m := by omega
  have hk2 : negIdx m k' < m := negIdx_lt hk
  have hb := (srcBin_none_iff hn hm hk).mp h
  by_cases hex : n % 2 = 0 ∧ n < m ∧ fftfreqInt m k' = ((n / 2 : ℕ) : ℤ)
  · right
    refine ⟨hex.1, hex.2.1, ?_⟩
    rw [srcBin_eq_some_iff hn hm hk2]
    refine ⟨by omega, ?_⟩
    have h3 := hex.2.2
    unfold fftfreqInt negIdx at *
    split_ifs at h3 hb ⊢ <;> omega
  · left
    rw [srcBin_none_iff hn hm hk2]
    unfold fftfreqInt negIdx at *
    split_ifs at hb hex ⊢ <;> omega

/-- forward DFT coefficient in ℂ -/
noncomputable def XhatC (n : ℕ) (v : ℕ → ℂ) (k : ℕ) : ℂ :=
  ∑ i ∈ Finset.range n, v i * (zeta n)⁻¹ ^ (k * i % n)

/-- coefficient placed in output bin `k'` -/
noncomputable def YhatC (n m : ℕ) (v : ℕ → ℂ) (k' : ℕ) : ℂ :=
  match srcBin n m k' with
  | some k => XhatC n v k
  | none => 0

theorem resampleC_eq (n m : ℕ) (v : ℕ → ℂ) (j : ℕ) :
    resampleC n m v j = ((m : ℂ) / (n : ℂ)) * ((1 / (m : ℂ)) *
      ∑ k' ∈ Finset.range m, YhatC n m v k' * (zeta m) ^ (k' * j % m)) := by
  unfold resampleC YhatC XhatC
  rfl

theorem conj_XhatC (n : ℕ) (v : ℕ → ℂ) (hv : ∀ i, (starRingEnd ℂ) (v i) = v i) (hn : n ≠ 0)
    (k : ℕ) (hk : k < n) : (starRingEnd ℂ) (XhatC n v k) = XhatC n v (negIdx n k) := by
  unfold XhatC
  rw [map_sum]
  apply Finset.sum_congr rfl
  intro i _
  rw [map_mul, hv i, map_pow, map_inv₀, conj_zeta, inv_inv, zeta_neg_pow n k i hn hk]

theorem conj_YhatC (n m : ℕ) (v : ℕ → ℂ) (hv : ∀ i, (starRingEnd ℂ) (v i) = v i)
    (hn : 1 ≤ n) (hnm : n ≤ m) (hny : n % 2 = 0 → n < m → XhatC n v (n / 2) = 0)
    (k' : ℕ) (hk : k' < m) : (starRingEnd ℂ) (YhatC n m v k') = YhatC n m v (negIdx m k') := by
  have hn0 : n ≠ 0 := by omega
  unfold YhatC
  cases hs : srcBin n m k' with
  | some k =>
    simp only
    have hkn := srcBin_lt hk hs
    rw [conj_XhatC n v hv hn0 k hkn]
    rcases srcBin_neg_some hn hnm hk hs with h2 | ⟨he, hlt, hk2, h2⟩
    · rw [h2]
    · rw [h2]
      simp only
      have h0 := hny he hlt
      subst hk2
      rw [← conj_XhatC n v hv hn0 _ hkn, h0, map_zero]
  | none =>
    simp only [map_zero]
    rcases srcBin_neg_none hn hnm hk hs with h2 | ⟨he, hlt, h2⟩
    · rw [h2]
    · rw [h2]; simp only; exact (hny he hlt).symm

/-- real, Nyquist-free input gives real output of the up-sampling operator (in ℂ) -/
theorem conj_resampleC (n m : ℕ) (v : ℕ → ℂ) (hv : ∀ i, (starRingEnd ℂ) (v i) = v i)
    (hn : 1 ≤ n) (hnm : n ≤ m) (hny : n % 2 = 0 → n < m → XhatC n v (n / 2) = 0) (j : ℕ) :
    (starRingEnd ℂ) (resampleC n m v j) = resampleC n m v j := by
  have hm0 : m ≠ 0 := by omega
  rw [resampleC_eq]
  rw [map_mul, map_mul, map_sum]
  have hc1 : (starRingEnd ℂ) ((m : ℂ) / (n : ℂ)) = (m : ℂ) / (n : ℂ) := by
    rw [map_div₀, Complex.conj_natCast, Complex.conj_natCast]
  have hc2 : (starRingEnd ℂ) (1 / (m : ℂ)) = 1 / (m : ℂ) := by
    rw [map_div₀, map_one, Complex.conj_natCast]
  rw [hc1, hc2]
  congr 2
  rw [sum_negIdx m (fun k' => YhatC n m v k' * (zeta m) ^ (k' * j % m))]
  apply Finset.sum_congr rfl
  intro k' hk'
  have hk := Finset.mem_range.mp hk'
  rw [map_mul, conj_YhatC n m v hv hn hnm hny k' hk, map_pow, conj_zeta,
    zeta_pos_neg_pow m k' j hm0 hk]

/-- every sample is real -/
def IsRealList (x : List (Cx ℝ)) : Prop := ∀ z ∈ x, z.im = 0

/-- no Nyquist-frequency content: for even length the DFT coefficient at `n/2` vanishes -/
def NoNyquist (x : List (Cx ℝ)) : Prop :=
  x.length % 2 = 0 → toC ((dft x).getD (x.length / 2) Cx.zero) = 0

/-- what `fourier_resample` does to real arrays after the inverse FFT: `.real` -/
noncomputable def takeReal (x : List (Cx ℝ)) : List (Cx ℝ) := x.map fun z => Cx.ofReal z.re

theorem takeReal_of_real {x : List (Cx ℝ)} (h : IsRealList x) : takeReal x = x := by
  unfold takeReal
  conv_rhs => rw [← List.map_id x]
  apply List.map_congr_left
  intro z hz
  have := h z hz
  cases z with
  | mk re im =>
    simp only at this
    subst this
    simp only [Cx.ofReal, id]
    congr 1
    simp [Num.zero]

theorem vecC_real {x : List (Cx ℝ)} (h : IsRealList x) (i : ℕ) :
    (starRingEnd ℂ) (vecC x i) = vecC x i := by
  unfold vecC
  rw [Complex.conj_eq_iff_im]
  by_cases hi : i < x.length
  · rw [List.getD_eq_getElem?_getD, List.getElem?_eq_getElem hi]
    simp only [Option.getD_some, toC]
    exact h _ (List.getElem_mem _)
  · rw [List.getD_eq_getElem?_getD, List.getElem?_eq_none (Nat.le_of_not_lt hi)]
    simp [toC, Cx.zero]

/-- **real, Nyquist-free input stays real under up-sampling**: `.real` is a no-op -/
theorem resample1_real (x : List (Cx ℝ)) (m : ℕ) (hn : 1 ≤ x.length) (hnm : x.length ≤ m)
    (hx : IsRealList x) (hny : x.length < m → NoNyquist x) :
    IsRealList (resample1 m x) := by
  intro z hz
  obtain ⟨j, hj, rfl⟩ := List.mem_iff_getElem.mp hz
  have hjm : j < m := by rw [length_resample1] at hj; exact hj
  have h1 := resample1_getD x m j hjm
  have h2 := conj_resampleC x.length m (vecC x) (vecC_real hx) hn hnm (by
    intro he hlt
    have := hny hlt he
    rw [toC_dft_getD x (x.length / 2) (by omega)] at this
    exact this) j
  rw [← h1, Complex.conj_eq_iff_im] at h2
  unfold vecC at h2
  rw [List.getD_eq_getElem?_getD, List.getElem?_eq_getElem hj] at h2
  simpa [toC] using h2

/-- **up-sampling then down-sampling back returns the original, as the code runs it on real
arrays** (real part taken after each inverse FFT), for every real signal without
Nyquist-frequency content -/
theorem resample1_up_down_real (x : List (Cx ℝ)) (m : ℕ) (hn : 1 ≤ x.length) (hnm : x.length ≤ m)
    (hx : IsRealList x) (hny : x.length < m → NoNyquist x) :
    takeReal (resample1 x.length (takeReal (resample1 m x))) = x := by
  rw [takeReal_of_real (resample1_real x m hn hnm hx hny), resample1_up_down x m hn hnm,
    takeReal_of_real hx]

end QuantemModel.Resample
