import QuantemModel.Lemmas.Resample
import QuantemModel.Real.NumReal
import Mathlib.RingTheory.RootsOfUnity.Complex
import Mathlib.Algebra.Field.GeomSum
/-! Spectral lemmas for Props/C06.lean: the model's DFT (`Core/Dft.lean`, defining sums over
the carrier) at the real instance, transported to `ℂ`. -/
namespace QuantemModel.Resample
open QuantemModel QuantemModel.Dft Complex

/-- the model's explicit complex pair as a Mathlib complex number -/
noncomputable def toC (z : Cx ℝ) : ℂ := ⟨z.re, z.im⟩

theorem toC_inj {a b : Cx ℝ} (h : toC a = toC b) : a = b := by
  cases a; cases b
  simp only [toC, Complex.mk.injEq] at h
  obtain ⟨rfl, rfl⟩ := h; rfl

@[simp] theorem toC_zero : toC (Cx.zero : Cx ℝ) = 0 := by
  apply Complex.ext <;> simp [toC, Cx.zero]

@[simp] theorem toC_add (a b : Cx ℝ) : toC (a + b) = toC a + toC b := by
  show toC (Cx.add a b) = _
  apply Complex.ext <;> simp [toC, Cx.add]

@[simp] theorem toC_mul (a b : Cx ℝ) : toC (a * b) = toC a * toC b := by
  show toC (Cx.mul a b) = _
  apply Complex.ext <;> simp [toC, Cx.mul]

@[simp] theorem toC_smul (s : ℝ) (a : Cx ℝ) : toC (Cx.smul s a) = (s : ℂ) * toC a := by
  apply Complex.ext <;> simp [toC, Cx.smul]

@[simp] theorem toC_ofReal (x : ℝ) : toC (Cx.ofReal x) = (x : ℂ) := by
  apply Complex.ext <;> simp [toC, Cx.ofReal]

theorem toC_cis (θ : ℝ) : toC (Cx.cis θ) = Complex.exp (θ * I) := by
  apply Complex.ext <;> simp [toC, Cx.cis, Complex.exp_ofReal_mul_I_re, Complex.exp_ofReal_mul_I_im]

theorem toC_foldl (l : List (Cx ℝ)) (a : Cx ℝ) :
    toC (l.foldl (· + ·) a) = toC a + (l.map toC).sum := by
  induction l generalizing a with
  | nil => simp
  | cons x t ih => simp [ih, add_assoc]

theorem toC_sum (l : List (Cx ℝ)) : toC (Cx.sum l) = (l.map toC).sum := by
  unfold Cx.sum; rw [toC_foldl]; simp

end QuantemModel.Resample
