/-
Laws of strided slicing (`chunks`, the batches of `SimpleBatcher.__iter__`) and of
`subdivide_batches` / `generate_batches`.  Shared by C09 and C18 (and usable by C04/C15).
-/
import QuantemModel.Model.Batcher
import Mathlib.Tactic.Linarith
import Mathlib.Tactic.Ring

namespace QuantemModel.Batcher
variable {α : Type}

/-! ### `chunks` -/

theorem chunksAux_fuel (b : Nat) (hb : 0 < b) :
    ∀ (fuel : Nat) (l : List α), l.length ≤ fuel → chunksAux b fuel l = chunksAux b l.length l := by
  intro fuel
  induction fuel using Nat.strong_induction_on with
  | _ fuel ih =>
    intro l hl
    cases fuel with
    | zero =>
      have : l = [] := List.length_eq_zero_iff.mp (Nat.le_zero.mp hl)
      subst this; rfl
    | succ fuel =>
      cases l with
      | nil => rfl
      | cons x xs =>
        have hd : ((x :: xs).drop b).length ≤ xs.length := by
          simp only [List.length_drop, List.length_cons]; omega
        have hd' : ((x :: xs).drop b).length ≤ fuel := by
          simp only [List.length_cons] at hl; omega
        show (x :: xs).take b :: chunksAux b fuel ((x :: xs).drop b)
            = (x :: xs).take b :: chunksAux b xs.length ((x :: xs).drop b)
        rw [ih fuel (Nat.lt_succ_self _) _ hd']
        have hlt : xs.length < fuel + 1 := by
          simp only [List.length_cons] at hl; omega
        rw [ih xs.length hlt _ hd]

@[simp] theorem chunks_nil (b : Nat) : chunks b ([] : List α) = [] := rfl

/-- unfolding equation: the first batch is `l[0:b]`, the rest are the batches of `l[b:]` -/
theorem chunks_cons (b : Nat) (hb : 0 < b) (x : α) (xs : List α) :
    chunks b (x :: xs) = (x :: xs).take b :: chunks b ((x :: xs).drop b) := by
  have hd : ((x :: xs).drop b).length ≤ xs.length := by
    simp only [List.length_drop, List.length_cons]; omega
  show (x :: xs).take b :: chunksAux b xs.length ((x :: xs).drop b) = _
  rw [chunksAux_fuel b hb _ _ hd]; rfl

theorem chunks_of_ne_nil (b : Nat) (hb : 0 < b) (l : List α) (h : l ≠ []) :
    chunks b l = l.take b :: chunks b (l.drop b) := by
  cases l with
  | nil => exact absurd rfl h
  | cons x xs => exact chunks_cons b hb x xs

/-- induction along the batches: `P []`, and `P (l[b:]) → P l` for non-empty `l` -/
theorem chunks_induction {P : List α → Prop} (b : Nat) (hb : 0 < b) (nil : P [])
    (step : ∀ l, l ≠ [] → P (l.drop b) → P l) : ∀ l, P l := by
  intro l
  induction h : l.length using Nat.strong_induction_on generalizing l with
  | _ n ih =>
    cases l with
    | nil => exact nil
    | cons x xs =>
      apply step _ (by simp)
      apply ih ((x :: xs).drop b).length _ _ rfl
      subst h
      simp only [List.length_drop, List.length_cons]; omega

/-- **every element is yielded exactly once, in order**: the batches concatenate to the
order they were cut from. -/
theorem chunks_flatten (b : Nat) (hb : 0 < b) (l : List α) : (chunks b l).flatten = l := by
  induction l using chunks_induction b hb with
  | nil => rfl
  | step l hl ih =>
    rw [chunks_of_ne_nil b hb l hl, List.flatten_cons, ih, List.take_append_drop]

theorem ceilDiv_zero (b : Nat) (hb : 0 < b) : ceilDiv 0 b = 0 := by
  unfold ceilDiv
  apply Nat.div_eq_of_lt; omega

theorem ceilDiv_step (m b : Nat) (hb : 0 < b) (hm : 0 < m) : ceilDiv m b = ceilDiv (m - b) b + 1 := by
  unfold ceilDiv
  by_cases h : m ≤ b
  · have h0 : m - b = 0 := by omega
    rw [h0]
    have : (0 + b - 1) / b = 0 := by apply Nat.div_eq_of_lt; omega
    rw [this]
    have h1 : m + b - 1 = (m - 1) + b := by omega
    rw [h1, Nat.add_div_right _ hb]
    have : (m - 1) / b = 0 := by apply Nat.div_eq_of_lt; omega
    omega
  · have h1 : m + b - 1 = (m - b + b - 1) + b := by omega
    rw [h1, Nat.add_div_right _ hb]

/-- **the reported number of batches is the number yielded**: `len = ⌈|l| / b⌉` -/
theorem chunks_length (b : Nat) (hb : 0 < b) (l : List α) :
    (chunks b l).length = ceilDiv l.length b := by
  induction l using chunks_induction b hb with
  | nil => simp [ceilDiv_zero b hb]
  | step l hl ih =>
    rw [chunks_of_ne_nil b hb l hl, List.length_cons, ih, List.length_drop]
    have : 0 < l.length := List.length_pos_iff.mpr hl
    rw [ceilDiv_step l.length b hb this]

/-- every batch is non-empty and has at most `b` elements -/
theorem chunks_mem_bounds (b : Nat) (hb : 0 < b) (l : List α) :
    ∀ c ∈ chunks b l, c ≠ [] ∧ c.length ≤ b := by
  induction l using chunks_induction b hb with
  | nil => intro c hc; simp at hc
  | step l hl ih =>
    intro c hc
    rw [chunks_of_ne_nil b hb l hl, List.mem_cons] at hc
    rcases hc with rfl | hc
    · constructor
      · intro h0
        have hlen : (List.take b l).length = 0 := by rw [h0]; rfl
        have : 0 < l.length := List.length_pos_iff.mpr hl
        rw [List.length_take] at hlen
        omega
      · rw [List.length_take]; omega
    · exact ih c hc

/-- the `i`-th batch is exactly the slice `l[i*b : i*b + b]`, and there is one for every
`i` with `i*b < len(l)` and for no other `i`. -/
theorem chunks_getElem? (b : Nat) (hb : 0 < b) (l : List α) :
    ∀ i, (chunks b l)[i]? = if i * b < l.length then some ((l.drop (i * b)).take b) else none := by
  induction l using chunks_induction b hb with
  | nil => intro i; simp
  | step l hl ih =>
    intro i
    have hpos : 0 < l.length := List.length_pos_iff.mpr hl
    rw [chunks_of_ne_nil b hb l hl]
    cases i with
    | zero => simp [hpos]
    | succ i =>
      rw [List.getElem?_cons_succ, ih i, List.length_drop, List.drop_drop]
      have e : (i + 1) * b = b + i * b := by ring
      rw [e]
      by_cases h : i * b < l.length - b
      · have h' : b + i * b < l.length := by omega
        simp [h, h']
      · have h' : ¬ (b + i * b < l.length) := by omega
        simp [h, h']

/-- when `b` divides the length every batch has exactly `b` elements -/
theorem chunks_all_full (b : Nat) (hb : 0 < b) (l : List α) (hdvd : b ∣ l.length) :
    ∀ c ∈ chunks b l, c.length = b := by
  induction l using chunks_induction b hb with
  | nil => intro c hc; simp at hc
  | step l hl ih =>
    have hpos : 0 < l.length := List.length_pos_iff.mpr hl
    have hle : b ≤ l.length := Nat.le_of_dvd hpos hdvd
    intro c hc
    rw [chunks_of_ne_nil b hb l hl, List.mem_cons] at hc
    rcases hc with rfl | hc
    · rw [List.length_take]; omega
    · apply ih _ c hc
      rw [List.length_drop]
      exact Nat.dvd_sub hdvd (Nat.dvd_refl b)

/-- all batches but the last are full -/
theorem chunks_init_full (b : Nat) (hb : 0 < b) (l : List α) (i : Nat)
    (hi : i + 1 < (chunks b l).length) : ∃ c, (chunks b l)[i]? = some c ∧ c.length = b := by
  have hnext := chunks_getElem? b hb l (i + 1)
  have hcur := chunks_getElem? b hb l i
  have hsome : (chunks b l)[i + 1]? ≠ none := by
    intro h; rw [List.getElem?_eq_none_iff] at h; omega
  have hlt : (i + 1) * b < l.length := by
    by_contra hc
    rw [if_neg hc] at hnext
    exact hsome hnext
  have e : (i + 1) * b = i * b + b := by ring
  have hlt' : i * b < l.length := by omega
  rw [if_pos hlt'] at hcur
  refine ⟨_, hcur, ?_⟩
  rw [List.length_take, List.length_drop]; omega

/-! ### `subdivide_batches` / `generate_batches` -/

theorem batchSizes_length (n nb : Nat) (h : 0 < nb) : (batchSizes n nb).length = nb := by
  unfold batchSizes
  have : n % nb < nb := Nat.mod_lt _ h
  simp only [List.length_append, List.length_replicate]; omega

/-- the batch sizes sum to the number of items -/
theorem batchSizes_sum (n nb : Nat) (h : 0 < nb) : (batchSizes n nb).sum = n := by
  unfold batchSizes
  have hr : n % nb < nb := Nat.mod_lt _ h
  rw [List.sum_append, List.sum_replicate_nat, List.sum_replicate_nat]
  have h1 : n % nb * (n / nb + 1) + (nb - n % nb) * (n / nb) = nb * (n / nb) + n % nb := by
    obtain ⟨k, hk⟩ : ∃ k, nb = n % nb + k := ⟨nb - n % nb, by omega⟩
    have hk' : nb - n % nb = k := by omega
    rw [hk']
    generalize n % nb = r at hk ⊢
    generalize n / nb = q
    subst hk
    ring
  rw [h1]
  exact Nat.div_add_mod n nb

/-- sizes differ by at most one: each is `⌊n/nb⌋` or `⌊n/nb⌋ + 1` -/
theorem batchSizes_balanced (n nb : Nat) :
    ∀ s ∈ batchSizes n nb, s = n / nb ∨ s = n / nb + 1 := by
  intro s hs
  unfold batchSizes at hs
  rw [List.mem_append] at hs
  rcases hs with hs | hs
  · exact Or.inr (List.eq_of_mem_replicate hs)
  · exact Or.inl (List.eq_of_mem_replicate hs)

/-- no batch is empty when `nb ≤ n` -/
theorem batchSizes_pos (n nb : Nat) (h : 0 < nb) (hle : nb ≤ n) : ∀ s ∈ batchSizes n nb, 0 < s := by
  intro s hs
  have hq : 0 < n / nb := Nat.div_pos hle h
  rcases batchSizes_balanced n nb s hs with rfl | rfl <;> omega

/-- with `max_batch = mb` no batch exceeds `mb` -/
theorem batchSizes_le_maxBatch (n mb : Nat) (hmb : 0 < mb) (hn : 0 < n) :
    ∀ s ∈ batchSizes n ((n + mb - 1) / mb), s ≤ mb := by
  intro s hs
  set nb := (n + mb - 1) / mb with hnb
  have hcover : n ≤ nb * mb := by
    have h2 := Nat.lt_mul_div_succ (n + mb - 1) hmb
    rw [← hnb] at h2
    have h3 : mb * (nb + 1) = nb * mb + mb := by ring
    omega
  have hnbpos : 0 < nb := by
    rcases Nat.eq_zero_or_pos nb with h0 | h0
    · rw [h0] at hcover; omega
    · exact h0
  have hdm := Nat.div_add_mod n nb
  have hr : n % nb < nb := Nat.mod_lt _ hnbpos
  unfold batchSizes at hs
  rw [List.mem_append] at hs
  rcases hs with hs | hs
  · have hs' := List.eq_of_mem_replicate hs
    have hrpos : 0 < n % nb := by
      by_contra h0
      have : n % nb = 0 := by omega
      rw [this] at hs; simp at hs
    subst hs'
    by_contra hcon
    have hq : mb ≤ n / nb := by omega
    have : nb * mb ≤ nb * (n / nb) := Nat.mul_le_mul_left _ hq
    omega
  · have hs' := List.eq_of_mem_replicate hs
    subst hs'
    by_contra hcon
    have hq : mb + 1 ≤ n / nb := by omega
    have : nb * (mb + 1) ≤ nb * (n / nb) := Nat.mul_le_mul_left _ hq
    have : nb * (mb + 1) = nb * mb + nb := by ring
    omega

/-- **contiguous batch ranges**: the half-open ranges `[start, end)` yielded by
`generate_batches`, concatenated in order, are exactly `start_index, …, start_index + Σ sizes − 1`:
no gap, no overlap, nothing beyond the end. -/
theorem rangesFrom_cover (ss : List Nat) : ∀ idx,
    (rangesFrom idx ss).flatMap (fun se => List.range' se.1 (se.2 - se.1)) = List.range' idx ss.sum := by
  induction ss with
  | nil => intro idx; simp [rangesFrom]
  | cons s ss ih =>
    intro idx
    simp only [rangesFrom, List.flatMap_cons, List.sum_cons, ih]
    have : idx + s - idx = s := by omega
    rw [this, List.range'_append_1]

theorem rangesFrom_sizes (ss : List Nat) : ∀ idx,
    (rangesFrom idx ss).map (fun se => se.2 - se.1) = ss := by
  induction ss with
  | nil => intro idx; rfl
  | cons s ss ih => intro idx; simp [rangesFrom, ih]

end QuantemModel.Batcher
