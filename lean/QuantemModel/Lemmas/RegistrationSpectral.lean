import QuantemModel.Lemmas.Registration
import QuantemModel.Lemmas.Spectral
/-!
Bridge between the registration model's explicit `Cx ℝ` DFT sums (Model/Registration.lean:
`root`, `dft2At`, `idft2ReAt`, `ccF`, `rampAt`) and the shared spectral core over `ℂ`
(Lemmas/Spectral.lean), and the three Fourier facts C13/C15 need:

* `correlation_theorem` — `real(ifft2(fft2(ref)·conj(fft2(im))))[s,t]` is the spatial circular
  cross-correlation `cc M N ref im s t` the coarse-stage theorems are about;
* `aligned_integer_shift` — the phase-ramp aligned image for an integer shift is the rolled image;
* nothing else is assumed: both follow from orthogonality of the roots of unity.
-/
namespace QuantemModel.Registration
open Finset QuantemModel.Spectral

/-- the model's explicit complex pair as a Mathlib complex number -/
noncomputable def toC (z : Cx ℝ) : ℂ := ⟨z.re, z.im⟩

@[simp] theorem toC_re (z : Cx ℝ) : (toC z).re = z.re := rfl
@[simp] theorem toC_im (z : Cx ℝ) : (toC z).im = z.im := rfl
@[simp] theorem toC_zero : toC (Cx.zero : Cx ℝ) = 0 := by apply Complex.ext <;> simp [toC, Cx.zero]
@[simp] theorem toC_add (a b : Cx ℝ) : toC (a + b) = toC a + toC b := by apply Complex.ext <;> simp [toC]
@[simp] theorem toC_mul (a b : Cx ℝ) : toC (a * b) = toC a * toC b := by apply Complex.ext <;> simp [toC]
@[simp] theorem toC_conj (a : Cx ℝ) : toC (Cx.conj a) = (starRingEnd ℂ) (toC a) := by
  apply Complex.ext <;> simp [toC]
@[simp] theorem toC_smul (s : ℝ) (a : Cx ℝ) : toC (Cx.smul s a) = (s : ℂ) * toC a := by
  apply Complex.ext <;> simp [toC, Cx.smul]
theorem toC_cis (θ : ℝ) : toC (Cx.cis θ) = Complex.exp (θ * Complex.I) := by
  apply Complex.ext <;> simp [toC, Complex.exp_ofReal_mul_I_re, Complex.exp_ofReal_mul_I_im]

theorem toC_csum (n : ℕ) (f : ℕ → Cx ℝ) : toC (csum n f) = ∑ i ∈ range n, toC (f i) := by
  induction n with
  | zero => simp [csum]
  | succ n ih => simp [csum, ih, Finset.sum_range_succ]

/-- the model's root of unity is the spectral core's character -/
theorem toC_root {n : ℕ} (hn : n ≠ 0) (sgn a : ℤ) : toC (root n sgn a) = e n (sgn * a) := by
  unfold root
  rw [toC_cis]
  have h1 : e n (sgn * a) = e n (sgn * (a % (n : ℤ))) := by
    apply e_congr hn
    refine ⟨sgn * (a / (n : ℤ)), ?_⟩
    have := Int.emod_add_mul_ediv a (n : ℤ)
    linear_combination (-sgn) * this
  rw [h1, e_eq_exp_ofReal]
  congr 2
  simp only [NumReal.ofInt_eq, NumReal.ofNat_eq, NumReal.two_eq, NumReal.pi_eq, NumReal.mul_eq, NumReal.div_eq]
  push_cast
  ring

theorem natCast_mod_dvd (M a : ℕ) (c : ℤ) : (M : ℤ) ∣ c * (((a % M : ℕ) : ℤ)) - c * (a : ℤ) := by
  refine ⟨-(c * ((a : ℤ) / (M : ℤ))), ?_⟩
  have := Int.emod_add_mul_ediv (a : ℤ) (M : ℤ)
  rw [Int.natCast_mod]
  linear_combination c * this

/-- the image as a complex table -/
noncomputable def imgC (x : ℕ → ℕ → ℝ) : ℕ → ℕ → ℂ := fun i j => ((x i j : ℝ) : ℂ)

/-- `dft2At` is `np.fft.fft2` of the spectral core -/
theorem toC_dft2At {M N : ℕ} (hM : M ≠ 0) (hN : N ≠ 0) (x : ℕ → ℕ → ℝ) (k l : ℕ) :
    toC (dft2At M N x k l) = dft2 M N (imgC x) k l := by
  unfold dft2At dft2AtW
  rw [dft2_eq_sum, toC_csum]
  refine Finset.sum_congr rfl fun i _ => ?_
  rw [toC_csum]
  refine Finset.sum_congr rfl fun j _ => ?_
  rw [toC_smul, toC_mul, toC_root hM, toC_root hN]
  have e1 : e M (-1 * (((k * i % M : ℕ) : ℤ))) = e M (-((k : ℤ) * i)) := by
    apply e_congr hM
    have := natCast_mod_dvd M (k * i) (-1)
    push_cast at this ⊢
    simpa using this
  have e2 : e N (-1 * (((l * j % N : ℕ) : ℤ))) = e N (-((l : ℤ) * j)) := by
    apply e_congr hN
    have := natCast_mod_dvd N (l * j) (-1)
    push_cast at this ⊢
    simpa using this
  rw [e1, e2]; rfl

/-- `idft2ReAt` is the real part of `np.fft.ifft2` of the spectral core -/
theorem idft2ReAt_eq {M N : ℕ} (hM : M ≠ 0) (hN : N ≠ 0) (G : ℕ → ℕ → Cx ℝ) (n m : ℕ) :
    idft2ReAt M N G n m = (idft2 M N (fun k l => toC (G k l)) n m).re := by
  unfold idft2ReAt idft2ReAtW
  rw [idft2_eq_sum]
  have hsum : (csum M fun k => csum N fun l =>
        G k l * (root M 1 (((k * n % M : ℕ) : ℤ)) * root N 1 (((l * m % N : ℕ) : ℤ)))).re
      = (∑ k ∈ range M, ∑ l ∈ range N, toC (G k l) * (e M ((k : ℤ) * n) * e N ((l : ℤ) * m))).re := by
    rw [← toC_re, toC_csum]
    congr 1
    refine Finset.sum_congr rfl fun k _ => ?_
    rw [toC_csum]
    refine Finset.sum_congr rfl fun l _ => ?_
    rw [toC_mul, toC_mul, toC_root hM, toC_root hN]
    have e1 : e M (1 * (((k * n % M : ℕ) : ℤ))) = e M ((k : ℤ) * n) := by
      apply e_congr hM
      have := natCast_mod_dvd M (k * n) 1
      push_cast at this ⊢
      simpa using this
    have e2 : e N (1 * (((l * m % N : ℕ) : ℤ))) = e N ((l : ℤ) * m) := by
      apply e_congr hN
      have := natCast_mod_dvd N (l * m) 1
      push_cast at this ⊢
      simpa using this
    rw [e1, e2]
  rw [hsum]
  have hc : ((M : ℂ)⁻¹ * (N : ℂ)⁻¹) = (((((M * N : ℕ) : ℝ))⁻¹ : ℝ) : ℂ) := by
    push_cast; rw [mul_inv]
  rw [hc, Complex.re_ofReal_mul]
  simp only [NumReal.ofNat_eq, NumReal.div_eq]
  rw [div_eq_inv_mul]

/-! ### Plancherel and the shift theorem in 2-D, then the correlation theorem over ℂ -/

theorem plancherel2 (Nr Nc : ℕ) (x y : ℕ → ℕ → ℂ) :
    ∑ k ∈ range Nr, ∑ l ∈ range Nc, (starRingEnd ℂ) (dft2 Nr Nc x k l) * dft2 Nr Nc y k l
      = (Nr : ℂ) * (Nc : ℂ) * ∑ m ∈ range Nr, ∑ n ∈ range Nc, (starRingEnd ℂ) (x m n) * y m n := by
  unfold dft2
  rw [Finset.sum_comm]
  have h1 : ∀ l ∈ range Nc, ∑ k ∈ range Nr,
      (starRingEnd ℂ) (dft Nr (fun m => dft Nc (x m) l) k) * dft Nr (fun m => dft Nc (y m) l) k
      = Nr * ∑ m ∈ range Nr, (starRingEnd ℂ) (dft Nc (x m) l) * dft Nc (y m) l :=
    fun l _ => plancherel Nr _ _
  rw [Finset.sum_congr rfl h1, ← Finset.mul_sum, Finset.sum_comm]
  have h2 : ∀ m ∈ range Nr, ∑ l ∈ range Nc, (starRingEnd ℂ) (dft Nc (x m) l) * dft Nc (y m) l
      = Nc * ∑ n ∈ range Nc, (starRingEnd ℂ) (x m n) * y m n := fun m _ => plancherel Nc _ _
  rw [Finset.sum_congr rfl h2, ← Finset.mul_sum]; ring

theorem dft2_roll2 {Nr Nc : ℕ} (hr : 0 < Nr) (hc : 0 < Nc) (x : ℕ → ℕ → ℂ) (sr sc : ℤ) {k l : ℕ}
    (hk : k < Nr) (hl : l < Nc) :
    dft2 Nr Nc (roll2 Nr Nc sr sc x) k l
      = dft2 Nr Nc x k l * (e Nr (-((k : ℤ) * sr)) * e Nc (-((l : ℤ) * sc))) := by
  have h : ∀ m < Nr, ∀ n < Nc, roll2 Nr Nc sr sc x m n
      = idft2 Nr Nc (fun k l => dft2 Nr Nc x k l * (e Nr (-((k : ℤ) * sr)) * e Nc (-((l : ℤ) * sc)))) m n :=
    fun m _ n _ => (shift2_eq_roll2 hr hc x sr sc m n).symm
  rw [dft2_congr h, dft2_idft2 _ hk hl]

/-- **correlation theorem over ℂ**: `ifft2(fft2(x)·conj(fft2(y)))[s,t] = Σ x[m,n]·conj(y[m-s,n-t])` -/
theorem correlation_theoremC {Nr Nc : ℕ} (hr : 0 < Nr) (hc : 0 < Nc) (x y : ℕ → ℕ → ℂ) (s t : ℤ) (a b : ℕ)
    (ha : (a : ℤ) = s) (hb : (b : ℤ) = t) :
    idft2 Nr Nc (fun k l => dft2 Nr Nc x k l * (starRingEnd ℂ) (dft2 Nr Nc y k l)) a b
      = ∑ m ∈ range Nr, ∑ n ∈ range Nc, x m n * (starRingEnd ℂ) (roll2 Nr Nc s t y m n) := by
  have hr' : (Nr : ℂ) ≠ 0 := by exact_mod_cast Nat.ne_of_gt hr
  have hc' : (Nc : ℂ) ≠ 0 := by exact_mod_cast Nat.ne_of_gt hc
  have hp := plancherel2 Nr Nc (roll2 Nr Nc s t y) x
  have hterm : ∀ k ∈ range Nr, ∀ l ∈ range Nc,
      (starRingEnd ℂ) (dft2 Nr Nc (roll2 Nr Nc s t y) k l) * dft2 Nr Nc x k l
        = dft2 Nr Nc x k l * (starRingEnd ℂ) (dft2 Nr Nc y k l) * (e Nr ((k : ℤ) * a) * e Nc ((l : ℤ) * b)) := by
    intro k hk l hl
    rw [dft2_roll2 hr hc y s t (mem_range.mp hk) (mem_range.mp hl), map_mul, map_mul, conj_e, conj_e, neg_neg, neg_neg,
      ha, hb]
    ring
  rw [Finset.sum_congr rfl fun k hk => Finset.sum_congr rfl fun l hl => hterm k hk l hl] at hp
  rw [idft2_eq_sum, hp]
  have : ∀ m ∈ range Nr, ∑ n ∈ range Nc, (starRingEnd ℂ) (roll2 Nr Nc s t y m n) * x m n
      = ∑ n ∈ range Nc, x m n * (starRingEnd ℂ) (roll2 Nr Nc s t y m n) :=
    fun m _ => Finset.sum_congr rfl fun n _ => mul_comm _ _
  rw [Finset.sum_congr rfl this]
  field_simp

/-- **Correlation theorem for the model**: the table the code computes,
`real(ifft2(fft2(ref) * conj(fft2(im))))[s, t]`, is the spatial circular cross-correlation. -/
theorem correlation_theorem {M N : ℕ} (hM : 0 < M) (hN : 0 < N) (ref im : ℕ → ℕ → ℝ) (s t : ℕ) :
    idft2ReAt M N (ccF (dft2At M N ref) (dft2At M N im)) s t = cc M N ref im (s : ℤ) (t : ℤ) := by
  have hM' : M ≠ 0 := Nat.ne_of_gt hM
  have hN' : N ≠ 0 := Nat.ne_of_gt hN
  rw [idft2ReAt_eq hM' hN']
  have hF : (fun k l => toC (ccF (dft2At M N ref) (dft2At M N im) k l))
      = fun k l => dft2 M N (imgC ref) k l * (starRingEnd ℂ) (dft2 M N (imgC im) k l) := by
    funext k l
    simp only [ccF, toC_mul, toC_conj, toC_dft2At hM' hN']
  rw [hF, correlation_theoremC hM hN (imgC ref) (imgC im) (s : ℤ) (t : ℤ) s t rfl rfl, cc_eq]
  have : ∀ m n, imgC ref m n * (starRingEnd ℂ) (roll2 M N (s : ℤ) (t : ℤ) (imgC im) m n)
      = ((ref m n * im (wrap M ((m : ℤ) - s)) (wrap N ((n : ℤ) - t)) : ℝ) : ℂ) := by
    intro m n
    simp only [imgC, roll2, rollIdx, wrap, Complex.conj_ofReal]
    push_cast; ring
  simp_rw [this]
  rw [Complex.re_sum]
  refine Finset.sum_congr rfl fun m _ => ?_
  rw [Complex.re_sum]
  exact Finset.sum_congr rfl fun n _ => Complex.ofReal_re _

/-! ### the phase-ramp aligned image for an integer shift -/

theorem freq_congr {M : ℕ} (hM : 0 < M) (k : ℕ) : (M : ℤ) ∣ freq M k - (k : ℤ) := by
  unfold freq
  have h := Int.emod_add_mul_ediv (((k + M / 2 : ℕ) : ℤ)) (M : ℤ)
  refine ⟨-(((k + M / 2 : ℕ) : ℤ) / (M : ℤ)), ?_⟩
  rw [Int.natCast_mod]
  push_cast at h ⊢
  linarith

/-- the model's ramp factor for an integer shift is the spectral core's integer ramp -/
theorem toC_rampAt {M N : ℕ} (hM : 0 < M) (hN : 0 < N) (Fi : ℕ → ℕ → Cx ℝ) (r c : ℤ) (k l : ℕ) :
    toC (rampAt M N Fi (r : ℝ) (c : ℝ) k l)
      = toC (Fi k l) * (e M (-((k : ℤ) * r)) * e N (-((l : ℤ) * c))) := by
  have hM' : M ≠ 0 := Nat.ne_of_gt hM
  have hN' : N ≠ 0 := Nat.ne_of_gt hN
  unfold rampAt
  rw [toC_mul, toC_cis]
  congr 1
  have e1 : e M (-((k : ℤ) * r)) = e M (-(freq M k * r)) := by
    apply e_congr hM'
    obtain ⟨w, hw⟩ := freq_congr hM k
    exact ⟨w * r, by linear_combination r * hw⟩
  have e2 : e N (-((l : ℤ) * c)) = e N (-(freq N l * c)) := by
    apply e_congr hN'
    obtain ⟨w, hw⟩ := freq_congr hN l
    exact ⟨w * c, by linear_combination c * hw⟩
  rw [e1, e2, e_eq_exp_ofReal, e_eq_exp_ofReal, ← Complex.exp_add]
  congr 1
  simp only [NumReal.ofInt_eq, NumReal.ofNat_eq, NumReal.ofRat_eq, NumReal.pi_eq, NumReal.mul_eq, NumReal.div_eq,
    NumReal.add_eq]
  have hMr : (M : ℂ) ≠ 0 := by exact_mod_cast hM'
  have hNr : (N : ℂ) ≠ 0 := by exact_mod_cast hN'
  push_cast
  field_simp
  ring

/-- **Fourier shift theorem for the returned aligned image**: for an integer shift `(r, c)` the
image `real(ifft2(fft2(im) * exp(-2πi(kx·r + ky·c))))` is `im` rolled by `(r, c)`. -/
theorem aligned_integer_shift {M N : ℕ} (hM : 0 < M) (hN : 0 < N) (im : ℕ → ℕ → ℝ) (r c : ℤ) (n m : ℕ) :
    idft2ReAt M N (rampAt M N (dft2At M N im) (r : ℝ) (c : ℝ)) n m = applyShift M N im r c n m := by
  have hM' : M ≠ 0 := Nat.ne_of_gt hM
  have hN' : N ≠ 0 := Nat.ne_of_gt hN
  rw [idft2ReAt_eq hM' hN']
  have hF : (fun k l => toC (rampAt M N (dft2At M N im) (r : ℝ) (c : ℝ) k l))
      = fun k l => dft2 M N (imgC im) k l * (e M (-((k : ℤ) * r)) * e N (-((l : ℤ) * c))) := by
    funext k l
    rw [toC_rampAt hM hN, toC_dft2At hM' hN']
  rw [hF, shift2_eq_roll2 hM hN]
  simp [roll2, imgC, applyShift, rollImg, rollIdx, wrap]

end QuantemModel.Registration
