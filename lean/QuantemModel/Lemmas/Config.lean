import QuantemModel.Model.Config
/-! Helper lemmas for Props/C19.lean (association lists, canonical names, records). -/
namespace QuantemModel.Config

@[simp] theorem dget_nil (k : Key) : dget [] k = .none := rfl

theorem dget_dset_same (d : Dict) (k : Key) (v : Tree) : dget (dset d k v) k = some v := by
  induction d with
  | nil => simp [dset, dget]
  | cons hd tl ih =>
    obtain ⟨k', v'⟩ := hd
    by_cases h : k' = k
    · simp [dset, dget, h]
    · simp [dset, dget, h, ih]

theorem dget_dset_other (d : Dict) (k k' : Key) (v : Tree) (h : k' ≠ k) :
    dget (dset d k v) k' = dget d k' := by
  induction d with
  | nil =>
    have : k ≠ k' := fun e => h e.symm
    simp [dset, dget, this]
  | cons hd tl ih =>
    obtain ⟨k0, v0⟩ := hd
    by_cases h0 : k0 = k
    · subst h0
      have : k0 ≠ k' := fun e => h e.symm
      simp [dset, dget, this]
    · by_cases h1 : k0 = k'
      · subst h1
        simp [dset, dget, h0]
      · simp [dset, dget, h0, h1, ih]

theorem dhas_dset_same (d : Dict) (k : Key) (v : Tree) : dhas (dset d k v) k = true := by
  simp [dhas, dget_dset_same]

theorem dhas_dset_other (d : Dict) (k k' : Key) (v : Tree) (h : k' ≠ k) :
    dhas (dset d k v) k' = dhas d k' := by
  simp [dhas, dget_dset_other _ _ _ _ h]

theorem dset_dset (d : Dict) (k : Key) (a b : Tree) : dset (dset d k a) k b = dset d k b := by
  induction d with
  | nil => simp [dset]
  | cons hd tl ih =>
    obtain ⟨k0, v0⟩ := hd
    by_cases h0 : k0 = k
    · simp [dset, h0]
    · simp [dset, h0, ih]

theorem dset_same_val (d : Dict) (k : Key) (v : Tree) (h : dget d k = some v) : dset d k v = d := by
  induction d with
  | nil => simp [dget] at h
  | cons hd tl ih =>
    obtain ⟨k0, v0⟩ := hd
    by_cases h0 : k0 = k
    · simp [dget, h0] at h
      simp [dset, h0, h]
    · simp [dget, h0] at h
      simp [dset, h0, ih h]

theorem derase_dset_absent (d : Dict) (k : Key) (v : Tree) (h : dget d k = .none) :
    derase (dset d k v) k = d := by
  induction d with
  | nil => simp [dset, derase]
  | cons hd tl ih =>
    obtain ⟨k0, v0⟩ := hd
    by_cases h0 : k0 = k
    · simp [dget, h0] at h
    · simp [dget, h0] at h
      simp [dset, derase, h0, ih h]

/-! canonical names -/

theorem canonicalName_cases (k : Key) (d : Dict) :
    (canonicalName k d = k) ∨ (canonicalName k d = altKey k ∧ dhas d k = false ∧ dhas d (altKey k) = true) := by
  unfold canonicalName
  by_cases h1 : dhas d k = true
  · simp [h1]
  · by_cases h2 : dhas d (altKey k) = true
    · right; simp [h1, h2]
    · left; simp [h1, h2]

/-- after writing under the canonical name, the same spelling resolves to the same name -/
theorem canonicalName_dset (k : Key) (d : Dict) (v : Tree) :
    canonicalName k (dset d (canonicalName k d) v) = canonicalName k d := by
  rcases canonicalName_cases k d with h | ⟨h, hk, ha⟩
  · rw [h]; unfold canonicalName; simp [dhas_dset_same]
  · rw [h]
    by_cases e : k = altKey k
    · rw [← e]; unfold canonicalName; simp [dhas_dset_same]
    · unfold canonicalName
      rw [dhas_dset_other _ _ _ _ e, hk]
      simp [dhas_dset_same]

/-! records -/

def RecOp.path : RecOp → List Key
  | .replace p _ => p
  | .insert p => p

theorem assign_norecord (keys : List Key) (v : Tree) :
    ∀ (d d' : Dict) (r : List RecOp), assign keys v d false = .ok (d', r) → r = [] := by
  induction keys with
  | nil => intro d d' r h; simp [assign] at h
  | cons k rest ih =>
    intro d d' r h
    cases rest with
    | nil =>
      simp [assign] at h
      exact h.2
    | cons k2 rest2 =>
      rw [assign] at h
      rotate_left
      · simp
      split at h
      · split at h
        · rename_i sub r0 hsub
          have := ih _ _ _ hsub
          simp at h
          rw [← h.2, this]; simp
        · simp at h
      · split at h
        · rename_i sub' r0 hsub
          have := ih _ _ _ hsub
          simp at h
          rw [← h.2, this]; simp
        · simp at h
      · simp at h

theorem assign_paths_nonempty (keys : List Key) (v : Tree) :
    ∀ (d d' : Dict) (rc : Bool) (r : List RecOp), assign keys v d rc = .ok (d', r) →
      ∀ e ∈ r, e.path ≠ [] := by
  induction keys with
  | nil => intro d d' rc r h; simp [assign] at h
  | cons k rest ih =>
    intro d d' rc r h
    cases rest with
    | nil =>
      simp [assign] at h
      obtain ⟨_, hr⟩ := h
      subst hr
      intro e he
      split at he
      · split at he <;> simp at he <;> subst he <;> simp [RecOp.path]
      · simp at he
    | cons k2 rest2 =>
      rw [assign] at h
      rotate_left
      · simp
      split at h
      · split at h
        · rename_i sub r0 hsub
          have hnil := assign_norecord _ _ _ _ _ hsub
          simp at h
          obtain ⟨_, hr⟩ := h
          subst hr; subst hnil
          intro e he
          simp at he
          obtain ⟨_, he⟩ := he
          subst he; simp [RecOp.path]
        · simp at h
      · split at h
        · rename_i sub' r0 hsub
          simp at h
          obtain ⟨_, hr⟩ := h
          subst hr
          intro e he
          simp at he
          obtain ⟨e0, _, rfl⟩ := he
          cases e0 <;> simp [RecOp.prepend, RecOp.path]
        · simp at h
      · simp at h

/-- undoing an entry recorded below key `c` only touches the sub-dictionary at `c` -/
theorem undo_prepend (d : Dict) (c : Key) (s : Dict) (e : RecOp) (hne : e.path ≠ []) :
    undo (dset d c (.node s)) (RecOp.prepend c e) = dset d c (.node (undo s e)) := by
  cases e with
  | replace p old =>
    cases p with
    | nil => simp [RecOp.path] at hne
    | cons p1 ps =>
      simp only [RecOp.prepend, undo]
      rw [restoreReplace]
      · simp [dget_dset_same, dset_dset]
      · simp
  | insert p =>
    cases p with
    | nil => simp [RecOp.path] at hne
    | cons p1 ps =>
      simp only [RecOp.prepend, undo]
      rw [restoreInsert]
      · simp [dget_dset_same, dset_dset]
      · simp

theorem foldl_undo_prepend (c : Key) (rs : List RecOp) :
    ∀ (d s : Dict), (∀ e ∈ rs, e.path ≠ []) →
      (rs.map (RecOp.prepend c)).foldl undo (dset d c (.node s)) = dset d c (.node (rs.foldl undo s)) := by
  induction rs with
  | nil => intro d s _; simp
  | cons e rest ih =>
    intro d s h
    simp only [List.map_cons, List.foldl_cons]
    rw [undo_prepend _ _ _ _ (h e (by simp))]
    exact ih _ _ (fun e' he' => h e' (by simp [he']))

theorem exitCtx_append (d : Dict) (r1 r2 : List RecOp) :
    exitCtx d (r1 ++ r2) = exitCtx (exitCtx d r2) r1 := by
  simp [exitCtx, List.reverse_append, List.foldl_append]

theorem exitCtx_prepend (c : Key) (rs : List RecOp) (d s : Dict) (h : ∀ e ∈ rs, e.path ≠ []) :
    exitCtx (dset d c (.node s)) (rs.map (RecOp.prepend c)) = dset d c (.node (exitCtx s rs)) := by
  unfold exitCtx
  rw [← List.map_reverse]
  exact foldl_undo_prepend c rs.reverse d s (fun e he => h e (by simpa using he))

end QuantemModel.Config
