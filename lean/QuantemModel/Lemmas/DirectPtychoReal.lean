import QuantemModel.Lemmas.DirectPtycho
import QuantemModel.Real.NumReal
import Mathlib.Tactic.Ring
import Mathlib.Tactic.FieldSimp
/-!
C04 lemmas over ℝ: recombination of sub-masks, linearity of the per-pixel chain, the parallax
operator as a Fourier translation.
-/
namespace QuantemModel.DirectPtycho
open QuantemModel

theorem addLaws_real : AddLaws ℝ :=
  ⟨by intro a b; simp [add_comm], by intro a b c; simp [add_assoc], by intro a; simp, by intro a; simp⟩

/-! ## complex pairs over ℝ -/

@[simp] theorem cx_add_re (p q : Cx ℝ) : (p + q).re = p.re + q.re := rfl
@[simp] theorem cx_add_im (p q : Cx ℝ) : (p + q).im = p.im + q.im := rfl
@[simp] theorem cx_mul_re (p q : Cx ℝ) : (p * q).re = p.re * q.re - p.im * q.im := rfl
@[simp] theorem cx_mul_im (p q : Cx ℝ) : (p * q).im = p.re * q.im + p.im * q.re := rfl
@[simp] theorem cx_smul_re (a : ℝ) (p : Cx ℝ) : (Cx.smul a p).re = a * p.re := rfl
@[simp] theorem cx_smul_im (a : ℝ) (p : Cx ℝ) : (Cx.smul a p).im = a * p.im := rfl
@[simp] theorem cx_zero_re : (Cx.zero : Cx ℝ).re = 0 := by simp [Cx.zero]
@[simp] theorem cx_zero_im : (Cx.zero : Cx ℝ).im = 0 := by simp [Cx.zero]
@[simp] theorem cx_default : (default : Cx ℝ) = Cx.zero := rfl
@[simp] theorem cx_ofReal_re (x : ℝ) : (Cx.ofReal x).re = x := rfl
@[simp] theorem cx_ofReal_im (x : ℝ) : (Cx.ofReal x).im = 0 := by simp [Cx.ofReal]

theorem cx_ext {p q : Cx ℝ} (h1 : p.re = q.re) (h2 : p.im = q.im) : p = q := by
  cases p; cases q; simp_all

/-! ## sums of real images -/

/-- `w · x` -/
noncomputable def smulI (w : ℝ) (x : Img ℝ) : Img ℝ := x.map (w * ·)

/-- `z + Σ l` -/
noncomputable def sumImgs (l : List (Img ℝ)) (z : Img ℝ) : Img ℝ := l.foldl addI z

theorem correctedBf_some (npx : Nat) (l : List (Img ℝ)) :
    correctedBf npx (l.map some) = sumImgs l (zeros npx) := by
  unfold correctedBf sumImgs
  rw [List.foldl_map]

theorem smulI_addI (w : ℝ) (a b : Img ℝ) : smulI w (addI a b) = addI (smulI w a) (smulI w b) := by
  unfold smulI addI
  rw [List.map_zipWith, List.zipWith_map]
  congr 1
  funext p q
  simp [mul_add]

theorem smulI_sumImgs (w : ℝ) (l : List (Img ℝ)) (z : Img ℝ) :
    smulI w (sumImgs l z) = sumImgs (l.map (smulI w)) (smulI w z) := by
  unfold sumImgs
  induction l generalizing z with
  | nil => simp
  | cons x l ih => simp only [List.foldl_cons, List.map_cons]; rw [ih, smulI_addI]

theorem smulI_zeros (w : ℝ) (n : Nat) : smulI w (zeros n) = zeros n := by
  simp [smulI, zeros]

theorem addI_sumImgs (l : List (Img ℝ)) (a b : Img ℝ) :
    addI a (sumImgs l b) = sumImgs l (addI a b) := by
  unfold sumImgs
  induction l generalizing b with
  | nil => simp
  | cons i l ih => simp only [List.foldl_cons]; rw [ih, addI_assoc addLaws_real]

theorem length_sumImgs (npx : Nat) (l : List (Img ℝ)) (hl : ∀ x ∈ l, x.length = npx) (z : Img ℝ)
    (hz : z.length = npx) : (sumImgs l z).length = npx := by
  unfold sumImgs
  induction l generalizing z with
  | nil => simpa using hz
  | cons x l ih =>
    simp only [List.foldl_cons]
    apply ih (fun y hy => hl y (List.mem_cons_of_mem _ hy))
    simp [length_addI, hz, hl x (List.mem_cons_self)]

theorem sumImgs_append (npx : Nat) (l₁ l₂ : List (Img ℝ)) (h₁ : ∀ x ∈ l₁, x.length = npx) :
    sumImgs (l₁ ++ l₂) (zeros npx) = addI (sumImgs l₁ (zeros npx)) (sumImgs l₂ (zeros npx)) := by
  rw [addI_sumImgs]
  have hlen := length_sumImgs npx l₁ h₁ (zeros npx) (by simp)
  have := addI_zeros addLaws_real (sumImgs l₁ (zeros npx))
  rw [hlen] at this
  rw [this]
  simp [sumImgs, List.foldl_append]

theorem sumImgs_perm {l₁ l₂ : List (Img ℝ)} (p : l₁.Perm l₂) (z : Img ℝ) :
    sumImgs l₁ z = sumImgs l₂ z := by
  unfold sumImgs
  apply List.Perm.foldl_eq' p
  intro x _ y _ w
  rw [addI_assoc addLaws_real, addI_comm addLaws_real x, ← addI_assoc addLaws_real]

theorem map_getD_range {α β : Type} (m : List α) (d : α) (g : α → β) :
    (List.range m.length).map (fun i => g (m.getD i d)) = m.map g := by
  apply List.ext_getElem
  · simp
  · intro i h1 h2
    simp only [List.length_map, List.length_range] at h1
    simp [h1]

/-! ## recombination of sub-masks (single-pass kernels) -/

/-- un-normalised single-pass contribution of stack row `s`: `real(ifft2(G_s · env))` -/
noncomputable def rawItem (F : Fourier ℝ) (pb : Problem ℝ) (s : Nat) : Img ℝ := (singlePassValue F pb s).map (·.re)

/-- a single-pass reconstruction of the sub-mask with stack rows `m` and weight `W`, under any valid
schedule, sums to `(Σ_{s∈m} rawItem s) / W` -/
theorem bf_subProblem (F : Fourier ℝ) (k : Kernel) (hk : k.twoPass = false) (pb : Problem ℝ)
    (m : List Nat) (W : ℝ) (hW : W ≠ 0) (sched : List (List Nat))
    (hs : sched.flatten.Perm (List.range m.length)) :
    smulI W (correctedBf (pb.rows * pb.cols) (reconstruct F k (subProblem pb m W) sched)) =
      sumImgs (m.map (rawItem F pb)) (zeros (pb.rows * pb.cols)) := by
  have hnd : sched.flatten.Nodup := hs.nodup_iff.mpr List.nodup_range
  rw [reconstruct_eq F k _ sched hnd]
  have e : ((List.range (subProblem pb m W).n).map fun i =>
        if i ∈ sched.flatten then
          some (itemValue F k (subProblem pb m W)
            (sched.foldl (fun p B => addI p (batchPower (subProblem pb m W) B))
              (zeros ((subProblem pb m W).rows * (subProblem pb m W).cols))) i)
        else none) =
      (m.map fun s => (rawItem F pb s).map (· / W)).map some := by
    rw [← map_getD_range m 0 (fun s => (rawItem F pb s).map (· / W)), List.map_map]
    apply List.map_congr_left
    intro i hi
    have hi' : i ∈ sched.flatten := hs.mem_iff.mpr (by simpa [subProblem] using hi)
    simp only [hi', if_true, Function.comp]
    congr 1
    simp [itemValue, hk, finish, rawItem, singlePassValue, subProblem]
  rw [e, correctedBf_some, smulI_sumImgs, smulI_zeros, List.map_map]
  congr 1
  apply List.map_congr_left
  intro s _
  simp only [Function.comp, smulI, List.map_map]
  conv => rhs; rw [← List.map_id (rawItem F pb s)]
  apply List.map_congr_left
  intro x _
  simp only [Function.comp, id]
  field_simp

theorem length_rawItem (F : Fourier ℝ) (pb : Problem ℝ) (s : Nat) :
    (rawItem F pb s).length = (singlePassValue F pb s).length := by simp [rawItem]

/-! ## linearity of the per-pixel chain in the stack -/

/-- `a·x + y` on real / complex images and on stacks -/
noncomputable def linR (a : ℝ) (x y : Img ℝ) : Img ℝ := List.zipWith (fun p q => a * p + q) x y
noncomputable def linC (a : ℝ) (x y : Img (Cx ℝ)) : Img (Cx ℝ) :=
  List.zipWith (fun p q => Cx.smul a p + q) x y
noncomputable def linStack (a : ℝ) (v w : List (Img ℝ)) : List (Img ℝ) := List.zipWith (linR a) v w

/-- the FFT pair is linear (over real scalars) and its output size depends only on the input size -/
structure Fourier.Linear (F : Fourier ℝ) : Prop where
  fft_lin : ∀ r c a x y, x.length = y.length →
    F.fft2 r c (linC a x y) = linC a (F.fft2 r c x) (F.fft2 r c y)
  fft_len : ∀ r c (x y : Img (Cx ℝ)), x.length = y.length → (F.fft2 r c x).length = (F.fft2 r c y).length
  ifft_lin : ∀ r c a x y, x.length = y.length →
    F.ifft2 r c (linC a x y) = linC a (F.ifft2 r c x) (F.ifft2 r c y)
  ifft_len : ∀ r c (x y : Img (Cx ℝ)), x.length = y.length → (F.ifft2 r c x).length = (F.ifft2 r c y).length

@[simp] theorem length_linC (a : ℝ) (x y : Img (Cx ℝ)) : (linC a x y).length = min x.length y.length := by
  simp [linC]
@[simp] theorem length_linR (a : ℝ) (x y : Img ℝ) : (linR a x y).length = min x.length y.length := by
  simp [linR]

theorem ofReal_lin (a : ℝ) (x y : Img ℝ) :
    (linR a x y).map Cx.ofReal = linC a (x.map Cx.ofReal) (y.map Cx.ofReal) := by
  unfold linR linC
  rw [List.map_zipWith, List.zipWith_map]
  congr 1
  funext p q
  apply cx_ext <;> simp

theorem dcZero_lin (a : ℝ) (x y : Img (Cx ℝ)) :
    dcZero (linC a x y) = linC a (dcZero x) (dcZero y) := by
  cases x with
  | nil => simp [dcZero, linC]
  | cons p x =>
    cases y with
    | nil => simp [dcZero, linC]
    | cons q y =>
      simp only [dcZero, linC, List.zipWith_cons_cons]
      congr 1
      apply cx_ext <;> simp

theorem length_dcZero (x : Img (Cx ℝ)) : (dcZero x).length = x.length := by
  cases x <;> simp [dcZero]

theorem getElem!_linC (a : ℝ) (x y : Img (Cx ℝ)) (h : x.length = y.length) (i : Nat) :
    (linC a x y)[i]! = Cx.smul a x[i]! + y[i]! := by
  by_cases hi : i < x.length
  · have hy : i < y.length := h ▸ hi
    have hl : i < (linC a x y).length := by simp [hi, hy]
    rw [getElem!_pos _ i hl, getElem!_pos x i hi, getElem!_pos y i hy]
    simp [linC]
  · have hy : ¬ i < y.length := h ▸ hi
    have hl : ¬ i < (linC a x y).length := by simp; omega
    rw [getElem!_neg _ i hl, getElem!_neg x i hi, getElem!_neg y i hy]
    apply cx_ext <;> simp

theorem tile_lin (u r c : Nat) (a : ℝ) (x y : Img (Cx ℝ)) (h : x.length = y.length) :
    tile u r c (linC a x y) = linC a (tile u r c x) (tile u r c y) := by
  unfold tile
  conv => rhs; unfold linC
  rw [List.zipWith_map, List.zipWith_self]
  show List.map _ _ = _
  apply List.map_congr_left
  intro p _
  simp only [List.getElem!_toArray]
  exact getElem!_linC a x y h _

theorem length_tile (u r c : Nat) (x : Img (Cx ℝ)) : (tile u r c x).length = (u * r) * (u * c) := by
  simp [tile]

theorem mulC_lin (a : ℝ) (x y K : Img (Cx ℝ)) :
    mulC (linC a x y) K = linC a (mulC x K) (mulC y K) := by
  unfold mulC linC
  induction x generalizing y K with
  | nil => simp
  | cons p x ih =>
    cases y with
    | nil => simp
    | cons q y =>
      cases K with
      | nil => simp
      | cons k K =>
        simp only [List.zipWith_cons_cons]
        rw [ih]
        congr 1
        apply cx_ext <;> simp <;> ring

theorem divNorm_lin (a : ℝ) (x y : Img (Cx ℝ)) (n : Img ℝ) :
    divNorm (linC a x y) n = linC a (divNorm x n) (divNorm y n) := by
  unfold divNorm linC
  induction x generalizing y n with
  | nil => simp
  | cons p x ih =>
    cases y with
    | nil => simp
    | cons q y =>
      cases n with
      | nil => simp
      | cons k n =>
        simp only [List.zipWith_cons_cons]
        rw [ih]
        congr 1
        apply cx_ext <;> simp <;> ring

theorem mulEnv_lin (a : ℝ) (x y : Img (Cx ℝ)) (e : Img ℝ) :
    mulEnv (linC a x y) e = linC a (mulEnv x e) (mulEnv y e) := by
  unfold mulEnv linC
  induction x generalizing y e with
  | nil => simp
  | cons p x ih =>
    cases y with
    | nil => simp
    | cons q y =>
      cases e with
      | nil => simp
      | cons k e =>
        simp only [List.zipWith_cons_cons]
        rw [ih]
        congr 1
        apply cx_ext <;> simp <;> ring

theorem finish_lin (pb : Problem ℝ) (a : ℝ) (x y : Img (Cx ℝ)) :
    finish pb (linC a x y) = linR a (finish pb x) (finish pb y) := by
  unfold finish linC linR
  rw [List.map_zipWith, List.zipWith_map]
  congr 1
  funext p q
  simp
  ring

theorem length_mulC (x K : Img (Cx ℝ)) : (mulC x K).length = min x.length K.length := by simp [mulC]
theorem length_divNorm (x : Img (Cx ℝ)) (n : Img ℝ) : (divNorm x n).length = min x.length n.length := by
  simp [divNorm]
theorem length_mulEnv (x : Img (Cx ℝ)) (n : Img ℝ) : (mulEnv x n).length = min x.length n.length := by
  simp [mulEnv]

/-- two stacks of the same shape -/
def SameShape (v w : List (Img ℝ)) : Prop := v.length = w.length ∧ ∀ i, (v.getD i []).length = (w.getD i []).length

/-- row `m` of the preprocessed stack is linear in the stack -/
theorem preprocess_row_lin (F : Fourier ℝ) (hF : F.Linear) (r c : Nat) (a : ℝ) (v w : List (Img ℝ))
    (h : SameShape v w) (m : Nat) :
    (preprocess F r c (linStack a v w)).getD m [] =
        linC a ((preprocess F r c v).getD m []) ((preprocess F r c w).getD m []) ∧
      ((preprocess F r c v).getD m []).length = ((preprocess F r c w).getD m []).length := by
  obtain ⟨hl, hrow⟩ := h
  unfold preprocess
  by_cases hm : m < v.length
  · have hw : m < w.length := hl ▸ hm
    have hlin : m < (linStack a v w).length := by simp [linStack, hm, hw]
    have hr := hrow m
    simp only [List.getD_eq_getElem?_getD, List.getElem?_eq_getElem hm, List.getElem?_eq_getElem hw,
      Option.getD_some] at hr
    simp only [List.getD_eq_getElem?_getD, List.getElem?_map, List.getElem?_eq_getElem hm,
      List.getElem?_eq_getElem hw, List.getElem?_eq_getElem hlin, Option.map_some, Option.getD_some]
    have e : (linStack a v w)[m] = linR a v[m] w[m] := by simp [linStack]
    have hlen : (v[m].map Cx.ofReal).length = (w[m].map Cx.ofReal).length := by simpa using hr
    constructor
    · rw [e, ofReal_lin, hF.fft_lin r c a _ _ hlen, dcZero_lin]
    · rw [length_dcZero, length_dcZero]; exact hF.fft_len r c _ _ hlen
  · have hw : ¬ m < w.length := hl ▸ hm
    have hlin : ¬ m < (linStack a v w).length := by simp [linStack]; omega
    simp [List.getD_eq_getElem?_getD, List.getElem?_map, List.getElem?_eq_none (Nat.le_of_not_lt hm),
      List.getElem?_eq_none (Nat.le_of_not_lt hw), List.getElem?_eq_none (Nat.le_of_not_lt hlin), linC]

/-- **per-pixel linearity**: the corrected image of BF pixel `i` is linear in the stack; the
normalisation `power` is a function of the geometry only -/
theorem itemValue_lin (F : Fourier ℝ) (hF : F.Linear) (k : Kernel) (geo : Geometry ℝ) (power : Img ℝ)
    (a : ℝ) (v w : List (Img ℝ)) (h : SameShape v w) (i : Nat) :
    itemValue F k (problemOfStack F geo (linStack a v w)) power i =
      linR a (itemValue F k (problemOfStack F geo v) power i)
             (itemValue F k (problemOfStack F geo w) power i) := by
  obtain ⟨hrow, hrowlen⟩ := preprocess_row_lin F hF geo.r geo.c a v w h (geo.mapping.getD i 0)
  have hnum : numerator (preprocess F geo.r geo.c (linStack a v w)) geo.mapping geo.u geo.r geo.c geo.K i =
      linC a (numerator (preprocess F geo.r geo.c v) geo.mapping geo.u geo.r geo.c geo.K i)
             (numerator (preprocess F geo.r geo.c w) geo.mapping geo.u geo.r geo.c geo.K i) := by
    unfold numerator
    rw [hrow, tile_lin _ _ _ _ _ _ hrowlen, mulC_lin]
  have hnumlen : (numerator (preprocess F geo.r geo.c v) geo.mapping geo.u geo.r geo.c geo.K i).length =
      (numerator (preprocess F geo.r geo.c w) geo.mapping geo.u geo.r geo.c geo.K i).length := by
    unfold numerator
    simp [length_mulC, length_tile]
  unfold itemValue
  cases hk : k.twoPass with
  | false =>
    simp only [Bool.false_eq_true, if_false]
    unfold singlePassValue
    simp only [problemOfStack]
    rw [hnum, mulEnv_lin, hF.ifft_lin _ _ _ _ _ (by simp [length_mulEnv, hnumlen])]
    exact finish_lin _ a _ _
  | true =>
    simp only [if_true]
    unfold secondPassValue
    have hnorm : ∀ s : List (Img ℝ), normOf k (problemOfStack F geo s) power =
        normOf k (problemOfStack F geo v) power := fun s => rfl
    rw [hnorm (linStack a v w), hnorm w]
    simp only [problemOfStack]
    rw [hnum, divNorm_lin, mulEnv_lin,
      hF.ifft_lin _ _ _ _ _ (by simp [length_mulEnv, length_divNorm, hnumlen])]
    exact finish_lin _ a _ _

/-! ## the parallax operator is a Fourier translation -/

theorem cx_smul_one (z : Cx ℝ) : Cx.smul (Num.one : ℝ) z = z := by
  apply cx_ext <;> simp

/-- `exp(-i (gx qx + gy qy))` on the grid `q = fftfreq/(N·d)` is the translation operator
`exp(-2πi (f_r s_r + f_c s_c))` with the shift `s = (g/2π)/d` pixels: the geometric shift is the
gradient divided by `2π` (Å), towards positive coordinates for a positive gradient -/
theorem prlxOperator_eq_translation (N M : Nat) (dx dy gx gy : ℝ) (hdx : dx ≠ 0) (hdy : dy ≠ 0) :
    prlxOperator gx gy (qGrid N M dx dy).1 (qGrid N M dx dy).2 (ones (N * M)) =
      translationOperator N M (gx / (2 * Real.pi) / dx) (gy / (2 * Real.pi) / dy) := by
  have hpi := Real.pi_ne_zero
  apply List.ext_getElem
  · simp [prlxOperator, translationOperator, qGrid, ones]
  · intro i h1 h2
    simp only [prlxOperator, translationOperator, qGrid, ones, List.getElem_zipWith, List.getElem_zip,
      List.getElem_map, List.getElem_range, List.getElem_replicate]
    rw [cx_smul_one]
    simp only [Cx.cis, NumReal.cos_eq, NumReal.sin_eq, NumReal.neg_eq, NumReal.mul_eq, NumReal.add_eq,
      NumReal.div_eq, NumReal.ofRat_eq, NumReal.two_eq, NumReal.pi_eq]
    have e : gx * (((((fftfreqInt N (i / M) : Int) : Rat) / ((N : Int) : Rat) : Rat) : ℝ) / dx) +
        gy * (((((fftfreqInt M (i % M) : Int) : Rat) / ((M : Int) : Rat) : Rat) : ℝ) / dy) =
        2 * Real.pi * ((((((fftfreqInt N (i / M) : Int) : Rat) / ((N : Int) : Rat) : Rat) : ℝ)) *
            (gx / (2 * Real.pi) / dx) +
          (((((fftfreqInt M (i % M) : Int) : Rat) / ((M : Int) : Rat) : Rat) : ℝ)) *
            (gy / (2 * Real.pi) / dy)) := by
      field_simp
    rw [e]

/-- zero gradient (no aberrations) and no sign flip: the operator is identically 1 -/
theorem prlxOperator_zero (n : Nat) (qx qy : Img ℝ) (hx : qx.length = n) (hy : qy.length = n) :
    prlxOperator (0 : ℝ) 0 qx qy (ones n) = List.replicate n Cx.one := by
  apply List.ext_getElem
  · simp [prlxOperator, ones, hx, hy]
  · intro i h1 h2
    simp only [prlxOperator, ones, List.getElem_zipWith, List.getElem_zip, List.getElem_replicate]
    rw [cx_smul_one]
    apply cx_ext <;> simp [Cx.cis, Cx.one]

/-- no defocus, no astigmatism: no geometric shift, whatever the pixel and the rotation -/
theorem prlxShift_zero (g : PrlxGeom ℝ) (h10 : g.c10 = 0) (h12 : g.c12 = 0) (i j : Nat) :
    prlxShift g i j = (0, 0) := by
  simp [prlxShift, h10, h12]

theorem mulC_one (x : Img (Cx ℝ)) : mulC x (List.replicate x.length Cx.one) = x := by
  unfold mulC
  induction x with
  | nil => simp
  | cons p x ih =>
    simp only [List.length_cons, List.replicate_succ, List.zipWith_cons_cons, ih]
    congr 1
    apply cx_ext <;> simp [Cx.one]

theorem mulEnv_ones (x : Img (Cx ℝ)) : mulEnv x (ones x.length) = x := by
  unfold mulEnv ones
  induction x with
  | nil => simp
  | cons p x ih =>
    simp only [List.length_cons, List.replicate_succ, List.zipWith_cons_cons, ih]
    congr 1
    apply cx_ext <;> simp

/-! ## the executable FFT pair (defining DFT sums) is linear -/

/-- one separable pass of the DFT: `out[p] = Σ_{k<m} X[idx p k] · w p k` -/
noncomputable def axisT (n m : Nat) (idx : Nat → Nat → Nat) (w : Nat → Nat → Cx ℝ) (X : Array (Cx ℝ)) :
    Array (Cx ℝ) :=
  (Array.range n).map fun p => (List.range m).foldl (fun acc k => acc + X[idx p k]! * w p k) Cx.zero

theorem dftAxis0_eq (sign : Int) (r c : Nat) (X : Array (Cx ℝ)) :
    dftAxis0 sign r c X =
      axisT (r * c) r (fun p k => k * c + p % c) (fun p k => (twiddles sign r)[(k * (p / c)) % r]!) X := rfl

theorem dftAxis1_eq (sign : Int) (r c : Nat) (X : Array (Cx ℝ)) :
    dftAxis1 sign r c X =
      axisT (r * c) c (fun p l => p / c * c + l) (fun p l => (twiddles sign c)[(l * (p % c)) % c]!) X := rfl

theorem foldl_axis_lin (a : ℝ) (f g : Nat → Cx ℝ) (w : Nat → Cx ℝ) (l : List Nat) (u v : Cx ℝ) :
    l.foldl (fun acc k => acc + (Cx.smul a (f k) + g k) * w k) (Cx.smul a u + v) =
      Cx.smul a (l.foldl (fun acc k => acc + f k * w k) u) + l.foldl (fun acc k => acc + g k * w k) v := by
  induction l generalizing u v with
  | nil => simp
  | cons k l ih =>
    simp only [List.foldl_cons]
    rw [← ih]
    congr 1
    apply cx_ext <;> simp <;> ring

theorem axisT_toList (n m : Nat) (idx : Nat → Nat → Nat) (w : Nat → Nat → Cx ℝ) (X : Array (Cx ℝ)) :
    (axisT n m idx w X).toList =
      (List.range n).map fun p => (List.range m).foldl (fun acc k => acc + X[idx p k]! * w p k) Cx.zero := by
  simp [axisT]

theorem axisT_lin (n m : Nat) (idx : Nat → Nat → Nat) (w : Nat → Nat → Cx ℝ) (a : ℝ)
    (x y : Img (Cx ℝ)) (h : x.length = y.length) :
    (axisT n m idx w (linC a x y).toArray).toList =
      linC a (axisT n m idx w x.toArray).toList (axisT n m idx w y.toArray).toList := by
  rw [axisT_toList, axisT_toList, axisT_toList]
  conv => rhs; unfold linC
  rw [List.zipWith_map, List.zipWith_self]
  apply List.map_congr_left
  intro p _
  have z : (Cx.zero : Cx ℝ) = Cx.smul a Cx.zero + Cx.zero := by apply cx_ext <;> simp
  conv => lhs; rw [z]
  rw [← foldl_axis_lin]
  congr 1
  funext acc k
  simp only [List.getElem!_toArray]
  rw [getElem!_linC a x y h]

theorem length_axisT (n m : Nat) (idx : Nat → Nat → Nat) (w : Nat → Nat → Cx ℝ) (X : Array (Cx ℝ)) :
    (axisT n m idx w X).toList.length = n := by simp [axisT]

theorem map_smul_linC (s a : ℝ) (x y : Img (Cx ℝ)) :
    (linC a x y).map (Cx.smul s) = linC a (x.map (Cx.smul s)) (y.map (Cx.smul s)) := by
  unfold linC
  rw [List.map_zipWith, List.zipWith_map]
  congr 1
  funext p q
  apply cx_ext <;> simp <;> ring

/-- the model's executable FFT pair satisfies `Fourier.Linear` -/
theorem dft_linear : (Fourier.dft : Fourier ℝ).Linear where
  fft_lin := by
    intro r c a x y h
    show (dftAxis1 (-1) r c (dftAxis0 (-1) r c (linC a x y).toArray)).toList = _
    rw [dftAxis0_eq, dftAxis1_eq]
    have e0 := axisT_lin (r * c) r (fun p k => k * c + p % c)
      (fun p k => (twiddles (-1) r)[(k * (p / c)) % r]!) a x y h
    have : axisT (r * c) r (fun p k => k * c + p % c) (fun p k => (twiddles (-1) r)[(k * (p / c)) % r]!)
        (linC a x y).toArray = (linC a
          (axisT (r * c) r (fun p k => k * c + p % c) (fun p k => (twiddles (-1) r)[(k * (p / c)) % r]!) x.toArray).toList
          (axisT (r * c) r (fun p k => k * c + p % c) (fun p k => (twiddles (-1) r)[(k * (p / c)) % r]!) y.toArray).toList).toArray := by
      rw [← e0]
    rw [this, axisT_lin _ _ _ _ _ _ _ (by rw [length_axisT, length_axisT])]
    rfl
  fft_len := by
    intro r c x y _
    show (dftAxis1 (-1) r c _).toList.length = (dftAxis1 (-1) r c _).toList.length
    rw [dftAxis1_eq, dftAxis1_eq, length_axisT, length_axisT]
  ifft_lin := by
    intro r c a x y h
    show ((dftAxis1 1 r c (dftAxis0 1 r c (linC a x y).toArray)).toList).map _ = _
    rw [dftAxis0_eq, dftAxis1_eq]
    have e0 := axisT_lin (r * c) r (fun p k => k * c + p % c)
      (fun p k => (twiddles 1 r)[(k * (p / c)) % r]!) a x y h
    have : axisT (r * c) r (fun p k => k * c + p % c) (fun p k => (twiddles 1 r)[(k * (p / c)) % r]!)
        (linC a x y).toArray = (linC a
          (axisT (r * c) r (fun p k => k * c + p % c) (fun p k => (twiddles 1 r)[(k * (p / c)) % r]!) x.toArray).toList
          (axisT (r * c) r (fun p k => k * c + p % c) (fun p k => (twiddles 1 r)[(k * (p / c)) % r]!) y.toArray).toList).toArray := by
      rw [← e0]
    rw [this, axisT_lin _ _ _ _ _ _ _ (by rw [length_axisT, length_axisT]), map_smul_linC]
    rfl
  ifft_len := by
    intro r c x y _
    show ((dftAxis1 1 r c _).toList.map _).length = ((dftAxis1 1 r c _).toList.map _).length
    rw [List.length_map, List.length_map, dftAxis1_eq, dftAxis1_eq, length_axisT, length_axisT]

/-! ## parallax limits, given the DFT identities they rest on -/

/-- The two DFT facts behind the analytic limits, as one identity: zeroing the DC bin is subtracting the
mean, and tiling the spectrum `u × u` is placing the image on every `u`-th point of the finer grid.
True of the DFT; *assumed* of `F` here and measured on every run (driver closed form vs real code). -/
def Fourier.CombIdentity (F : Fourier ℝ) (u r c : Nat) : Prop :=
  ∀ x : Img ℝ, x.length = r * c →
    tile u r c (dcZero (F.fft2 r c (x.map Cx.ofReal))) =
      F.fft2 (u * r) (u * c) ((comb u r c (meanSub x)).map Cx.ofReal)

theorem length_translationOperator (N M : Nat) (sr sc : ℝ) :
    (translationOperator N M sr sc).length = N * M := by simp [translationOperator]

/-- per-pixel parallax image = the mean-subtracted virtual image, on the finer grid, translated by
`(g/2π)/d` pixels, divided by `W` -/
theorem prlx_item (F : Fourier ℝ) (geo : Geometry ℝ)
    (hcomb : F.CombIdentity geo.u geo.r geo.c)
    (hlen : ∀ y, (F.fft2 (geo.u * geo.r) (geo.u * geo.c) y).length = (geo.u * geo.r) * (geo.u * geo.c))
    (henv : geo.env = ones ((geo.u * geo.r) * (geo.u * geo.c)))
    (stack : List (Img ℝ)) (i : Nat) (hm : geo.mapping.getD i 0 < stack.length)
    (hvl : (stack.getD (geo.mapping.getD i 0) []).length = geo.r * geo.c)
    (dx dy gx gy : ℝ) (hdx : dx ≠ 0) (hdy : dy ≠ 0)
    (hK : geo.K i = prlxOperator gx gy (qGrid (geo.u * geo.r) (geo.u * geo.c) dx dy).1
        (qGrid (geo.u * geo.r) (geo.u * geo.c) dx dy).2 (ones ((geo.u * geo.r) * (geo.u * geo.c))))
    (power : Img ℝ) :
    itemValue F .prlx (problemOfStack F geo stack) power i =
      (translate F (geo.u * geo.r) (geo.u * geo.c)
        (comb geo.u geo.r geo.c (meanSub (stack.getD (geo.mapping.getD i 0) [])))
        (gx / (2 * Real.pi) / dx) (gy / (2 * Real.pi) / dy)).map (· / geo.W) := by
  have hrow : (preprocess F geo.r geo.c stack).getD (geo.mapping.getD i 0) [] =
      dcZero (F.fft2 geo.r geo.c ((stack.getD (geo.mapping.getD i 0) []).map Cx.ofReal)) := by
    unfold preprocess
    have hm' := hm
    simp only [List.getD_eq_getElem?_getD] at hm'
    simp only [List.getD_eq_getElem?_getD, List.getElem?_map]
    rw [List.getElem?_eq_getElem hm']
    simp
  have hnum : (problemOfStack F geo stack).G i =
      mulC (F.fft2 (geo.u * geo.r) (geo.u * geo.c)
        ((comb geo.u geo.r geo.c (meanSub (stack.getD (geo.mapping.getD i 0) []))).map Cx.ofReal))
        (translationOperator (geo.u * geo.r) (geo.u * geo.c) (gx / (2 * Real.pi) / dx) (gy / (2 * Real.pi) / dy)) := by
    show numerator _ _ _ _ _ _ i = _
    unfold numerator
    rw [hrow, hcomb _ hvl, hK, prlxOperator_eq_translation _ _ _ _ _ _ hdx hdy]
  unfold itemValue
  simp only [Kernel.twoPass, Bool.false_eq_true, if_false]
  unfold singlePassValue
  rw [hnum]
  have hl : (mulC (F.fft2 (geo.u * geo.r) (geo.u * geo.c)
        ((comb geo.u geo.r geo.c (meanSub (stack.getD (geo.mapping.getD i 0) []))).map Cx.ofReal))
        (translationOperator (geo.u * geo.r) (geo.u * geo.c) (gx / (2 * Real.pi) / dx) (gy / (2 * Real.pi) / dy))).length =
      (geo.u * geo.r) * (geo.u * geo.c) := by
    rw [length_mulC, hlen, length_translationOperator]; simp
  have henv' : (problemOfStack F geo stack).env = ones ((geo.u * geo.r) * (geo.u * geo.c)) := henv
  rw [henv', ← hl, mulEnv_ones]
  unfold finish translate
  rw [List.map_map]
  rfl

/-- zero aberrations (operator ≡ 1) with an FFT pair that inverts: the per-pixel image is the
mean-subtracted virtual image (on the finer grid) divided by `W` -/
theorem prlx_item_zero (F : Fourier ℝ) (geo : Geometry ℝ)
    (hcomb : F.CombIdentity geo.u geo.r geo.c)
    (hlen : ∀ y, (F.fft2 (geo.u * geo.r) (geo.u * geo.c) y).length = (geo.u * geo.r) * (geo.u * geo.c))
    (hinv : ∀ y : Img ℝ, y.length = (geo.u * geo.r) * (geo.u * geo.c) →
      (F.ifft2 (geo.u * geo.r) (geo.u * geo.c) (F.fft2 (geo.u * geo.r) (geo.u * geo.c) (y.map Cx.ofReal))).map (·.re) = y)
    (henv : geo.env = ones ((geo.u * geo.r) * (geo.u * geo.c)))
    (stack : List (Img ℝ)) (i : Nat) (hm : geo.mapping.getD i 0 < stack.length)
    (hvl : (stack.getD (geo.mapping.getD i 0) []).length = geo.r * geo.c)
    (qx qy : Img ℝ) (hqx : qx.length = (geo.u * geo.r) * (geo.u * geo.c))
    (hqy : qy.length = (geo.u * geo.r) * (geo.u * geo.c))
    (hK : geo.K i = prlxOperator 0 0 qx qy (ones ((geo.u * geo.r) * (geo.u * geo.c))))
    (power : Img ℝ) :
    itemValue F .prlx (problemOfStack F geo stack) power i =
      (comb geo.u geo.r geo.c (meanSub (stack.getD (geo.mapping.getD i 0) []))).map (· / geo.W) := by
  have hrow : (preprocess F geo.r geo.c stack).getD (geo.mapping.getD i 0) [] =
      dcZero (F.fft2 geo.r geo.c ((stack.getD (geo.mapping.getD i 0) []).map Cx.ofReal)) := by
    unfold preprocess
    have hm' := hm
    simp only [List.getD_eq_getElem?_getD] at hm'
    simp only [List.getD_eq_getElem?_getD, List.getElem?_map]
    rw [List.getElem?_eq_getElem hm']
    simp
  have hcl : (comb geo.u geo.r geo.c (meanSub (stack.getD (geo.mapping.getD i 0) []))).length =
      (geo.u * geo.r) * (geo.u * geo.c) := by simp [comb]
  have hnum : (problemOfStack F geo stack).G i =
      F.fft2 (geo.u * geo.r) (geo.u * geo.c)
        ((comb geo.u geo.r geo.c (meanSub (stack.getD (geo.mapping.getD i 0) []))).map Cx.ofReal) := by
    show numerator _ _ _ _ _ _ i = _
    unfold numerator
    rw [hrow, hcomb _ hvl, hK, prlxOperator_zero _ qx qy hqx hqy]
    have := mulC_one (F.fft2 (geo.u * geo.r) (geo.u * geo.c)
        ((comb geo.u geo.r geo.c (meanSub (stack.getD (geo.mapping.getD i 0) []))).map Cx.ofReal))
    rw [hlen] at this
    exact this
  unfold itemValue
  simp only [Kernel.twoPass, Bool.false_eq_true, if_false]
  unfold singlePassValue
  rw [hnum]
  have henv' : (problemOfStack F geo stack).env = ones ((geo.u * geo.r) * (geo.u * geo.c)) := henv
  rw [henv']
  have := mulEnv_ones (F.fft2 (geo.u * geo.r) (geo.u * geo.c)
        ((comb geo.u geo.r geo.c (meanSub (stack.getD (geo.mapping.getD i 0) []))).map Cx.ofReal))
  rw [hlen] at this
  rw [this]
  unfold finish
  have e := hinv _ hcl
  conv => rhs; rw [← e]
  rw [List.map_map]
  rfl

end QuantemModel.DirectPtycho
