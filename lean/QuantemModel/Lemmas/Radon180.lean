import QuantemModel.Lemmas.RadonSymmetry
/-!
C07 — the 180° projection exactly: grid points reflected through the centre; pure flip of the
0° projection for odd N, flip shifted by one bin (and one image row) for even N.
-/
namespace QuantemModel.Radon
open QuantemModel QuantemModel.NumReal

theorem deg2rad_180 : deg2rad (180 : ℝ) = Real.pi := by
  unfold deg2rad; simp; field_simp

theorem skCoord_180 (N : Nat) (x y : Nat) :
    skCoord N (180 : ℝ) x y
      = ((((2 * ((N / 2 : Nat) : ℤ) - (y : ℤ) : ℤ)) : ℝ), (((2 * ((N / 2 : Nat) : ℤ) - (x : ℤ) : ℤ)) : ℝ)) := by
  unfold skCoord
  generalize N / 2 = m
  simp only [deg2rad_180, cos_eq, sin_eq, Real.cos_pi, Real.sin_pi, mul_eq, add_eq, sub_eq, neg_eq, one_eq,
    ofNat_eq, Prod.mk.injEq]
  push_cast
  constructor <;> ring

/-- the 180° projection samples the grid points reflected through the centre: no interpolation -/
theorem radonSkAt_180 (f : Int → Int → ℝ) (N : Nat) (x : Nat) :
    radonSkAt f N (180 : ℝ) x
      = ((List.range N).map fun y : Nat =>
          f (2 * ((N / 2 : Nat) : ℤ) - (y : ℤ)) (2 * ((N / 2 : Nat) : ℤ) - (x : ℤ))).sum := by
  unfold radonSkAt
  rw [sum_eq]
  congr 1
  apply List.map_congr_left
  intro y _
  rw [skCoord_180]
  exact bilinear_int f _ _

theorem sum_range_shift (N : Nat) (g : Nat → ℝ) :
    ((List.range N).map fun y => g (y + 1)).sum = ((List.range N).map g).sum - g 0 + g N := by
  induction N with
  | zero => simp
  | succ n ih =>
    rw [List.range_succ, List.map_append, List.map_append, List.sum_append, List.sum_append, ih]
    simp
    ring

theorem sum_range_reflect' (N : Nat) (g : Nat → ℝ) :
    ((List.range N).map fun y => g (N - y)).sum = ((List.range N).map g).sum - g 0 + g N := by
  rw [← sum_range_shift, ← sum_range_reflect N (fun y => g (y + 1))]
  congr 1
  apply List.map_congr_left
  intro y hy
  have : y < N := List.mem_range.mp hy
  congr 1
  omega

/-- **odd N: the 180° projection is the 0° projection flipped** -/
theorem radonSkAt_180_odd (f : Int → Int → ℝ) (N : Nat) (hodd : N % 2 = 1) (x : Nat) (hx : x < N) :
    radonSkAt f N (180 : ℝ) x = radonSkAt f N (0 : ℝ) (N - 1 - x) := by
  rw [radonSkAt_180, radonSkAt_zero]
  have h2 : 2 * ((N / 2 : Nat) : ℤ) = (N : ℤ) - 1 := by omega
  have hc : (N : ℤ) - 1 - (x : ℤ) = ((N - 1 - x : Nat) : ℤ) := by omega
  rw [h2, hc]
  rw [← sum_range_reflect N (fun y : Nat => f (y : ℤ) ((N - 1 - x : Nat) : ℤ))]
  congr 1
  apply List.map_congr_left
  intro y hy
  have : y < N := List.mem_range.mp hy
  congr 1
  omega

/-- **even N: the 180° projection is the 0° projection flipped and shifted by one bin**
(`x ↦ N - x`), without image row 0 and with row `N` (outside the array) instead -/
theorem radonSkAt_180_even (f : Int → Int → ℝ) (N : Nat) (heven : N % 2 = 0) (x : Nat) (hx : x ≤ N) :
    radonSkAt f N (180 : ℝ) x
      = radonSkAt f N (0 : ℝ) (N - x) - f 0 ((N - x : Nat) : ℤ) + f (N : ℤ) ((N - x : Nat) : ℤ) := by
  rw [radonSkAt_180, radonSkAt_zero]
  have h2 : 2 * ((N / 2 : Nat) : ℤ) = (N : ℤ) := by omega
  have hc : (N : ℤ) - (x : ℤ) = ((N - x : Nat) : ℤ) := by omega
  rw [h2, hc]
  have := sum_range_reflect' N (fun y : Nat => f (y : ℤ) ((N - x : Nat) : ℤ))
  simp only [Nat.cast_zero] at this
  rw [← this]
  congr 1
  apply List.map_congr_left
  intro y hy
  have : y < N := List.mem_range.mp hy
  congr 1
  omega

theorem masked_row_N (f : Int → Int → ℝ) (N : Nat) (c : ℤ) : masked f N (N : ℤ) c = 0 := by
  unfold masked inDisc
  simp

theorem radonTorchAt_180_odd (f : Int → Int → ℝ) (N : Nat) (hN : 2 ≤ N) (hodd : N % 2 = 1) (x : Nat) (hx : x < N) :
    radonTorchAt f N (180 : ℝ) x = radonTorchAt f N (0 : ℝ) (N - 1 - x) := by
  rw [radonTorchAt_eq_sk f N hN, radonTorchAt_eq_sk f N hN, radonSkAt_180_odd _ N hodd x hx]

theorem radonTorchAt_180_even (f : Int → Int → ℝ) (N : Nat) (hN : 2 ≤ N) (heven : N % 2 = 0) (x : Nat) (hx : x ≤ N) :
    radonTorchAt f N (180 : ℝ) x
      = radonTorchAt f N (0 : ℝ) (N - x) - masked f N 0 ((N - x : Nat) : ℤ) := by
  rw [radonTorchAt_eq_sk f N hN, radonTorchAt_eq_sk f N hN, radonSkAt_180_even _ N heven x hx, masked_row_N]
  ring

end QuantemModel.Radon
