import QuantemModel.Model.ConfigCollect
import QuantemModel.Model.ConfigHistory
/-! Device validation, `get` options, `collect`, context-manager stack: helper lemmas (C19). -/
namespace QuantemModel.Config

/-- the devices `validate_device` can return in a device environment -/
inductive Accepted (env : Env) : Atom → Int → Prop
  | cpu : Accepted env (.str "cpu") (-1)
  | mps : env.mps = true → Accepted env (.str "mps") 0
  | cuda (n : Nat) : env.cuda = true → n < env.numDevices → Accepted env (.str s!"cuda:{n}") n

theorem finishCuda_accepted (env : Env) (idx : Option Nat) (a : Atom) (i : Int)
    (h : finishCuda env idx = .ok (a, i)) : Accepted env a i := by
  unfold finishCuda at h
  split at h
  · simp at h
  · rename_i hc
    simp only [] at h
    split at h
    · simp at h
    · rename_i hn
      simp only [Except.ok.injEq, Prod.mk.injEq] at h
      obtain ⟨ha, hi⟩ := h
      subst ha; subst hi
      exact .cuda _ (by simpa using hc) (by omega)

theorem finishMps_accepted (env : Env) (a : Atom) (i : Int)
    (h : finishMps env = .ok (a, i)) : Accepted env a i := by
  unfold finishMps at h
  split at h
  · simp at h
  · rename_i hm
    simp only [Except.ok.injEq, Prod.mk.injEq] at h
    obtain ⟨ha, hi⟩ := h
    subst ha; subst hi
    exact .mps (by simpa using hm)

theorem cpu_accepted (env : Env) (a : Atom) (i : Int)
    (h : (Except.ok (Atom.str "cpu", (-1 : Int)) : Except Err (Atom × Int)) = .ok (a, i)) : Accepted env a i := by
  simp only [Except.ok.injEq, Prod.mk.injEq] at h
  obtain ⟨ha, hi⟩ := h
  subst ha; subst hi
  exact .cpu

end QuantemModel.Config
