/-
Lemmas about the state machines of Model/OriginState.lean (property C18): rejected calls, row-count
invariants, history independence.
-/
import QuantemModel.Model.OriginState
import QuantemModel.Lemmas.OriginFit
import Mathlib.Data.List.GetD

namespace QuantemModel.Origin
open QuantemModel QuantemModel.Batcher

/-! ### generic list facts -/

theorem allSome_map_some {α β : Type} (f : α → β) (l : List α) :
    allSome (l.map (fun a => some (f a))) = some (l.map f) := by
  induction l with
  | nil => rfl
  | cons a t ih => simp [allSome, ih]

theorem expandPairs_length {α : Type} (n : Nat) (l l' : List (α × α)) (h : expandPairs n l = some l') :
    l'.length = n := by
  unfold expandPairs at h
  split at h
  · split at h
    · rename_i hn
      simp only [Option.some.injEq] at h
      subst h; simp [hn]
    · simp only [Option.some.injEq] at h
      subst h; simp
  · split at h
    · rename_i hl
      simp only [Option.some.injEq] at h
      subst h; exact hl
    · simp at h

theorem storePairs_length {α : Type} (n : Nat) (l l' : List (α × α)) (h : storePairs n l = .ok l') :
    l'.length = n := by
  unfold storePairs at h
  split at h
  · rename_i l'' he
    simp only [Except.ok.injEq] at h
    subst h
    exact expandPairs_length n l _ he
  · simp at h

theorem setOrigins_length {α : Type} (n : Nat) (v : RawArray α) (l' : List (α × α)) (h : setOrigins n v = .ok l') :
    l'.length = n := by
  unfold setOrigins at h
  split at h
  · simp at h
  · split at h
    · simp at h
    · exact storePairs_length n _ _ h

/-! ### `commit`: a rejected call leaves the object as it was -/

theorem commit_rejected {σ α : Type} (s : σ) (r : Except Rejected α) (f : α → σ) (e : Rejected)
    (h : (commit s r f).2 = some e) : (commit s r f).1 = s := by
  cases r with
  | ok a => simp [commit] at h
  | error e' => rfl

theorem commit_ok {σ α : Type} (s : σ) (r : Except Rejected α) (f : α → σ) (a : α) (h : r = .ok a) :
    commit s r f = (f a, none) := by
  subst h; rfl

/-- an invariant that holds for the old object and for every object a successful call can build holds afterwards -/
theorem commit_inv {σ α : Type} (P : σ → Prop) (s : σ) (r : Except Rejected α) (f : α → σ) (hs : P s)
    (hf : ∀ a, r = .ok a → P (f a)) : P (commit s r f).1 := by
  cases r with
  | ok a => exact hf a rfl
  | error e => exact hs

section
variable {R : Type} [Num R]

theorem omCalc_rejected (s : OmState R) (b : Nat) (e : Rejected) (h : (omCalc s b).2 = some e) :
    (omCalc s b).1 = s := commit_rejected _ _ _ e h

theorem omSetMeasured_rejected (s : OmState R) (v : RawArray R) (e : Rejected)
    (h : (omSetMeasured s v).2 = some e) : (omSetMeasured s v).1 = s := commit_rejected _ _ _ e h

theorem omSetFitted_rejected (s : OmState R) (v : RawArray R) (e : Rejected)
    (h : (omSetFitted s v).2 = some e) : (omSetFitted s v).1 = s := commit_rejected _ _ _ e h

theorem omFit_rejected (s : OmState R) (pos : Positions R) (m : FitMethod) (nrm : (R × R × R) × (R × R × R))
    (e : Rejected) (h : (omFit s pos m nrm).2 = some e) : (omFit s pos m nrm).1 = s := commit_rejected _ _ _ e h

theorem omShift_rejected [HasFloor R] (s : OmState R) (coord : R × R) (b : Nat) (e : Rejected)
    (h : (omShift s coord b).2 = some e) : (omShift s coord b).1 = s := commit_rejected _ _ _ e h

/-- every call except the composite `forward` -/
def OmOp.primitive : OmOp R → Prop
  | .forward _ _ _ _ => False
  | _ => True

theorem omStep_rejected [HasFloor R] (s : OmState R) (op : OmOp R) (hp : op.primitive) (e : Rejected)
    (h : (omStep s op).2 = some e) : (omStep s op).1 = s := by
  cases op with
  | measure b => exact omCalc_rejected s b e h
  | setMeasured v => exact omSetMeasured_rejected s v e h
  | setFitted v => exact omSetFitted_rejected s v e h
  | fit pos m nrm => exact omFit_rejected s pos m nrm e h
  | shift coord b => exact omShift_rejected s coord b e h
  | setTensor scan hh ww t3 => simp [omStep, omSetTensor] at h
  | forward b m nrm coord => exact absurd hp (by simp [OmOp.primitive])

theorem omRun_accepted [HasFloor R] (ops : List (OmOp R)) : ∀ (s : OmState R), (∀ op ∈ ops, op.primitive) →
    omRun s (omAccepted s ops) = omRun s ops := by
  induction ops with
  | nil => intro s _; rfl
  | cons op rest ih =>
    intro s hp
    have hrest : ∀ o ∈ rest, o.primitive := fun o ho => hp o (List.mem_cons_of_mem _ ho)
    have hop : op.primitive := hp op List.mem_cons_self
    unfold omAccepted
    split
    · rename_i s' heq
      have h1 : (omStep s op).1 = s' := by rw [heq]
      simp only [omRun, List.foldl_cons] at ih ⊢
      rw [h1]
      exact ih s' hrest
    · rename_i s' e heq
      have h2 : (omStep s op).2 = some e := by rw [heq]
      have h1 : (omStep s op).1 = s' := by rw [heq]
      have hs : s' = s := by rw [← h1]; exact omStep_rejected s op hop e h2
      simp only [omRun, List.foldl_cons] at ih ⊢
      rw [h1, hs]
      exact ih s hrest

/-! ### `num_dps` follows the tensor; stored origins have one row per pattern -/

theorem omStep_numDps [HasFloor R] (s : OmState R) (op : OmOp R) (h : s.numDps = s.tensor.length) :
    (omStep s op).1.numDps = (omStep s op).1.tensor.length := by
  have hcalc : ∀ (s : OmState R) b, s.numDps = s.tensor.length → (omCalc s b).1.numDps = (omCalc s b).1.tensor.length :=
    fun s b h => commit_inv (fun t : OmState R => t.numDps = t.tensor.length) s _ _ h (fun _ _ => h)
  have hfit : ∀ (s : OmState R) pos m nrm, s.numDps = s.tensor.length →
      (omFit s pos m nrm).1.numDps = (omFit s pos m nrm).1.tensor.length :=
    fun s pos m nrm h => commit_inv (fun t : OmState R => t.numDps = t.tensor.length) s _ _ h (fun _ _ => h)
  have hshift : ∀ (s : OmState R) coord b, s.numDps = s.tensor.length →
      (omShift s coord b).1.numDps = (omShift s coord b).1.tensor.length :=
    fun s coord b h => commit_inv (fun t : OmState R => t.numDps = t.tensor.length) s _ _ h (fun _ _ => h)
  cases op with
  | measure b => exact hcalc s b h
  | setMeasured v => exact commit_inv (fun t : OmState R => t.numDps = t.tensor.length) s _ _ h (fun _ _ => h)
  | setFitted v => exact commit_inv (fun t : OmState R => t.numDps = t.tensor.length) s _ _ h (fun _ _ => h)
  | fit pos m nrm => exact hfit s pos m nrm h
  | shift coord b => exact hshift s coord b h
  | setTensor scan hh ww t3 => simp [omStep, omSetTensor]
  | forward b m nrm coord =>
    simp only [omStep]
    split
    · rename_i s1 e heq
      have : (omCalc s b).1 = s1 := by rw [heq]
      rw [← this]; exact hcalc s b h
    · rename_i s1 heq
      have h1 : (omCalc s b).1 = s1 := by rw [heq]
      have hs1 : s1.numDps = s1.tensor.length := by rw [← h1]; exact hcalc s b h
      split
      · rename_i s2 e heq2
        have : (omFit s1 .inferred m nrm).1 = s2 := by rw [heq2]
        rw [← this]; exact hfit s1 _ m nrm hs1
      · rename_i s2 heq2
        have h2 : (omFit s1 .inferred m nrm).1 = s2 := by rw [heq2]
        have hs2 : s2.numDps = s2.tensor.length := by rw [← h2]; exact hfit s1 _ m nrm hs1
        exact hshift s2 coord b hs2

/-- every stored array has exactly one row per pattern the object holds -/
structure OmRows [HasFloor R] (s : OmState R) : Prop where
  num : s.numDps = s.tensor.length
  measured : ∀ l, s.measured = some l → l.length = s.numDps
  fitted : ∀ l, s.fitted = some l → l.length = s.numDps
  shifted : ∀ l, s.shifted = some l → l.length = s.numDps

def OmOp.keepsTensor : OmOp R → Prop
  | .setTensor _ _ _ _ => False
  | _ => True

theorem calcE_length (s : OmState R) (b : Nat) (l : List (R × R)) (h : calcE s b = .ok l) : l.length = s.numDps := by
  unfold calcE at h
  split at h
  · simp at h
  · split at h
    · simp at h
    · exact storePairs_length _ _ _ h

theorem fitE_length (s : OmState R) (pos : Positions R) (m : FitMethod) (nrm : (R × R × R) × (R × R × R))
    (l : List (R × R)) (h : fitE s pos m nrm = .ok l) : l.length = s.numDps := by
  unfold fitE at h
  split at h
  · simp at h
  · split at h
    · simp at h
    · split at h
      · exact storePairs_length _ _ _ h
      · exact storePairs_length _ _ _ h
      · simp at h

theorem shiftE_length [HasFloor R] (s : OmState R) (coord : R × R) (b : Nat) (l : List (Pattern R))
    (h : shiftE s coord b = .ok l) : l.length = s.tensor.length := by
  unfold shiftE at h
  split at h
  · simp at h
  · split at h
    · simp at h
    · rename_i hb
      have hb' : 0 < b := Nat.pos_of_ne_zero hb
      split at h
      · simp at h
      · rename_i sh heq
        simp only [Except.ok.injEq] at h
        subst h
        unfold shiftAllBatched at heq
        rw [scatter_loop b hb', allSome_map_some] at heq
        simp only [Option.some.injEq] at heq
        rw [← heq, List.length_map, List.length_range]

theorem omCalc_rows [HasFloor R] (s : OmState R) (b : Nat) (h : OmRows s) : OmRows (omCalc s b).1 :=
  commit_inv (fun t : OmState R => OmRows t) s _ _ h (fun l hl =>
    ⟨h.num, fun l' hl' => by simp only [Option.some.injEq] at hl'; subst hl'; exact calcE_length s b _ hl, h.fitted, h.shifted⟩)

theorem omFit_rows [HasFloor R] (s : OmState R) (pos : Positions R) (m : FitMethod) (nrm : (R × R × R) × (R × R × R))
    (h : OmRows s) : OmRows (omFit s pos m nrm).1 :=
  commit_inv (fun t : OmState R => OmRows t) s _ _ h (fun l hl =>
    ⟨h.num, h.measured, fun l' hl' => by simp only [Option.some.injEq] at hl'; subst hl'; exact fitE_length s pos m nrm _ hl, h.shifted⟩)

theorem omShift_rows [HasFloor R] (s : OmState R) (coord : R × R) (b : Nat) (h : OmRows s) :
    OmRows (omShift s coord b).1 :=
  commit_inv (fun t : OmState R => OmRows t) s _ _ h (fun l hl =>
    ⟨h.num, h.measured, h.fitted, fun l' hl' => by
      simp only [Option.some.injEq] at hl'; subst hl'; rw [shiftE_length s coord b _ hl]; exact h.num.symm⟩)

theorem omStep_rows [HasFloor R] (s : OmState R) (op : OmOp R) (hk : op.keepsTensor) (h : OmRows s) :
    OmRows (omStep s op).1 := by
  cases op with
  | measure b => exact omCalc_rows s b h
  | setMeasured v =>
    exact commit_inv (fun t : OmState R => OmRows t) s _ _ h (fun l hl =>
      ⟨h.num, fun l' hl' => by simp only [Option.some.injEq] at hl'; subst hl'; exact setOrigins_length _ _ _ hl, h.fitted, h.shifted⟩)
  | setFitted v =>
    exact commit_inv (fun t : OmState R => OmRows t) s _ _ h (fun l hl =>
      ⟨h.num, h.measured, fun l' hl' => by simp only [Option.some.injEq] at hl'; subst hl'; exact setOrigins_length _ _ _ hl, h.shifted⟩)
  | fit pos m nrm => exact omFit_rows s pos m nrm h
  | shift coord b => exact omShift_rows s coord b h
  | setTensor scan hh ww t3 => exact absurd hk (by simp [OmOp.keepsTensor])
  | forward b m nrm coord =>
    simp only [omStep]
    split
    · rename_i s1 e heq
      have : (omCalc s b).1 = s1 := by rw [heq]
      rw [← this]; exact omCalc_rows s b h
    · rename_i s1 heq
      have h1 : (omCalc s b).1 = s1 := by rw [heq]
      have hs1 : OmRows s1 := by rw [← h1]; exact omCalc_rows s b h
      split
      · rename_i s2 e heq2
        have : (omFit s1 .inferred m nrm).1 = s2 := by rw [heq2]
        rw [← this]; exact omFit_rows s1 _ m nrm hs1
      · rename_i s2 heq2
        have h2 : (omFit s1 .inferred m nrm).1 = s2 := by rw [heq2]
        have hs2 : OmRows s2 := by rw [← h2]; exact omFit_rows s1 _ m nrm hs1
        exact omShift_rows s2 coord b hs2

/-! ### calls that keep the tensor keep everything the other calls read from the dataset -/

/-- `t` holds the same patterns, shapes and pattern count as `s` -/
def SameFrame (s t : OmState R) : Prop :=
  t.tensor = s.tensor ∧ t.h = s.h ∧ t.w = s.w ∧ t.numDps = s.numDps ∧ t.scan = s.scan

theorem SameFrame.refl (s : OmState R) : SameFrame s s := ⟨rfl, rfl, rfl, rfl, rfl⟩

theorem SameFrame.trans {s t u : OmState R} (h1 : SameFrame s t) (h2 : SameFrame t u) : SameFrame s u :=
  ⟨h2.1.trans h1.1, h2.2.1.trans h1.2.1, h2.2.2.1.trans h1.2.2.1, h2.2.2.2.1.trans h1.2.2.2.1, h2.2.2.2.2.trans h1.2.2.2.2⟩

theorem omStep_frame [HasFloor R] (s : OmState R) (op : OmOp R) (hk : op.keepsTensor) : SameFrame s (omStep s op).1 := by
  have hcalc : ∀ (s : OmState R) b, SameFrame s (omCalc s b).1 :=
    fun s b => commit_inv (fun t : OmState R => SameFrame s t) s _ _ (SameFrame.refl s) (fun _ _ => SameFrame.refl s)
  have hfit : ∀ (s : OmState R) pos m nrm, SameFrame s (omFit s pos m nrm).1 :=
    fun s pos m nrm => commit_inv (fun t : OmState R => SameFrame s t) s _ _ (SameFrame.refl s) (fun _ _ => SameFrame.refl s)
  have hshift : ∀ (s : OmState R) coord b, SameFrame s (omShift s coord b).1 :=
    fun s coord b => commit_inv (fun t : OmState R => SameFrame s t) s _ _ (SameFrame.refl s) (fun _ _ => SameFrame.refl s)
  cases op with
  | measure b => exact hcalc s b
  | setMeasured v => exact commit_inv (fun t : OmState R => SameFrame s t) s _ _ (SameFrame.refl s) (fun _ _ => SameFrame.refl s)
  | setFitted v => exact commit_inv (fun t : OmState R => SameFrame s t) s _ _ (SameFrame.refl s) (fun _ _ => SameFrame.refl s)
  | fit pos m nrm => exact hfit s pos m nrm
  | shift coord b => exact hshift s coord b
  | setTensor scan hh ww t3 => exact absurd hk (by simp [OmOp.keepsTensor])
  | forward b m nrm coord =>
    simp only [omStep]
    split
    · rename_i s1 e heq
      have : (omCalc s b).1 = s1 := by rw [heq]
      rw [← this]; exact hcalc s b
    · rename_i s1 heq
      have h1 : (omCalc s b).1 = s1 := by rw [heq]
      have hs1 : SameFrame s s1 := by rw [← h1]; exact hcalc s b
      split
      · rename_i s2 e heq2
        have : (omFit s1 .inferred m nrm).1 = s2 := by rw [heq2]
        rw [← this]; exact hs1.trans (hfit s1 _ m nrm)
      · rename_i s2 heq2
        have h2 : (omFit s1 .inferred m nrm).1 = s2 := by rw [heq2]
        have hs2 : SameFrame s s2 := by rw [← h2]; exact hs1.trans (hfit s1 _ m nrm)
        exact hs2.trans (hshift s2 coord b)

theorem omRun_frame [HasFloor R] (ops : List (OmOp R)) : ∀ (s : OmState R), (∀ op ∈ ops, op.keepsTensor) →
    SameFrame s (omRun s ops) := by
  induction ops with
  | nil => intro s _; exact SameFrame.refl s
  | cons op rest ih =>
    intro s hk
    simp only [omRun, List.foldl_cons]
    exact (omStep_frame s op (hk op List.mem_cons_self)).trans
      (ih _ (fun o ho => hk o (List.mem_cons_of_mem _ ho)))

theorem omRun_rows [HasFloor R] (ops : List (OmOp R)) : ∀ (s : OmState R), (∀ op ∈ ops, op.keepsTensor) → OmRows s →
    OmRows (omRun s ops) := by
  induction ops with
  | nil => intro s _ h; exact h
  | cons op rest ih =>
    intro s hk h
    simp only [omRun, List.foldl_cons]
    exact ih _ (fun o ho => hk o (List.mem_cons_of_mem _ ho)) (omStep_rows s op (hk op List.mem_cons_self) h)

theorem omRun_numDps [HasFloor R] (ops : List (OmOp R)) : ∀ (s : OmState R), s.numDps = s.tensor.length →
    (omRun s ops).numDps = (omRun s ops).tensor.length := by
  induction ops with
  | nil => intro s h; exact h
  | cons op rest ih =>
    intro s h
    simp only [omRun, List.foldl_cons]
    exact ih _ (omStep_numDps s op h)

theorem storePairs_of_length {α : Type} (n : Nat) (l : List (α × α)) (h : l.length = n) : storePairs n l = .ok l := by
  subst h
  match l with
  | [] => simp [storePairs, expandPairs]
  | [p] => simp [storePairs, expandPairs]
  | p :: q :: t => simp [storePairs, expandPairs]

theorem storePairs_single {α : Type} (n : Nat) (p : α × α) : storePairs n [p] = .ok (List.replicate n p) := by
  by_cases h : n = 1
  · subst h; simp [storePairs, expandPairs]
  · simp [storePairs, expandPairs, h]

/-- `calculate_origin` on ANY object whose pattern count follows its tensor: every batch size, whatever is stored -/
theorem omCalc_eq (s : OmState R) (hn : s.numDps = s.tensor.length) (b : Nat) (hb : 0 < b) :
    omCalc s b = ({ s with measured := some (s.tensor.map (comOne s.h s.w)) }, none) := by
  have hE : calcE s b = .ok (s.tensor.map (comOne s.h s.w)) := by
    unfold calcE
    rw [if_neg (Nat.pos_iff_ne_zero.mp hb), comTorchBatched_eq b hb, allSome_map_some]
    exact storePairs_of_length _ _ (by rw [List.length_map, hn])
  unfold omCalc
  rw [commit_ok _ _ _ _ hE]

end

end QuantemModel.Origin
