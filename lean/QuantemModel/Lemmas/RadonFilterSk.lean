import QuantemModel.Lemmas.Radon
/-!
C07 — scikit-image's literal `n` array (float bounds, `dtype=int`) and its implicit size check
versus the port's integer construction and explicit check, for every size.
-/
namespace QuantemModel.Radon
open QuantemModel QuantemModel.NumReal

/-- for every even size — `size % 4 = 0` and `size % 4 = 2` alike — NumPy's float-bounds `n`
array is the port's integer `n` array -/
theorem nListSk_even (P : Nat) (hP : P % 2 = 0) : nListSk P = (nList P).map fun (m : Nat) => (m : Int) := by
  unfold nListSk nList
  have h1 : (P + 3) / 4 = (P / 2 + 1) / 2 := by omega
  have h2 : (P + 1) / 4 = P / 2 / 2 := by omega
  have hv0 : Int.tdiv ((P : Int) - 2) 2 = (P / 2 : Nat) - 1 := by
    rw [Int.tdiv_eq_ediv_of_dvd (by omega)]; omega
  have hv1 : Int.tdiv ((P : Int) - 6) 2 = (P / 2 : Nat) - 3 := by
    rw [Int.tdiv_eq_ediv_of_dvd (by omega)]; omega
  simp only [h1, h2, hv0, hv1, List.map_append, List.map_map]
  congr 1
  apply List.map_congr_left
  intro i hi
  have : i < P / 2 / 2 := List.mem_range.mp hi
  simp only [Function.comp]
  omega

theorem nListSk_length (P : Nat) : (nListSk P).length = (P + 3) / 4 + (P + 1) / 4 := by
  simp [nListSk]

theorem nList_length (P : Nat) : (nList P).length = P / 2 := by
  simp [nList]; omega

/-- for every odd size ≥ 3 the array has one element too many: the assignment cannot broadcast -/
theorem nListSk_odd_length (P : Nat) (hP : P % 2 = 1) : (nListSk P).length = P / 2 + 1 := by
  rw [nListSk_length]; omega

theorem rampSpatialSk_even (P : Nat) (hP : P % 2 = 0) :
    (rampSpatialSk P (nListSk P) : List ℝ) = rampSpatial P := by
  unfold rampSpatialSk rampSpatial
  apply List.map_congr_left
  intro j hj
  have hjP : j < P := List.mem_range.mp hj
  by_cases h0 : j = 0
  · simp [h0]
  · by_cases h1 : j % 2 = 1
    · simp only [h0, h1, if_false, if_true]
      have hlen : (nListSk P).length = P / 2 := by rw [nListSk_even P hP]; simp [nList_length]
      have hidx : (if (nListSk P).length = 1 then (nListSk P).getD 0 1 else (nListSk P).getD (j / 2) 1)
          = (nListSk P).getD (j / 2) 1 := by
        split
        · rename_i hl
          have : j / 2 = 0 := by omega
          rw [this]
        · rfl
      rw [hidx, nListSk_even P hP]
      have hj2 : j / 2 < (nList P).length := by rw [nList_length]; omega
      simp [List.getD_eq_getElem?_getD, List.getElem?_map, List.getElem?_eq_getElem hj2]
    · simp [h0, h1]

/-- **even sizes ≥ 2**: skimage's literal construction is the closed form `fourierFilterSk` -/
theorem fourierFilterSkE_even (P : Nat) (hP : P % 2 = 0) (h0 : P ≠ 0) (name : String) (nm : FilterName)
    (hnm : parseFilter name = some nm) :
    (fourierFilterSkE P name : Except String (List ℝ)) = .ok (fourierFilterSk nm P) := by
  unfold fourierFilterSkE
  have hlen : (nListSk P).length = P / 2 := by rw [nListSk_even P hP]; simp [nList_length]
  simp only [hlen, ne_eq, not_true_eq_false, false_and, if_false, h0, hnm, Option.getD_some,
    rampSpatialSk_even P hP]
  unfold fourierFilterSk fourierFilterWith rampFilter
  cases nm <;> rfl

/-- **odd sizes ≥ 3**: both constructions reject the call with a ValueError -/
theorem fourierFilter_odd_rejected (P : Nat) (hP : P % 2 = 1) (h3 : 3 ≤ P) (name : String) :
    (fourierFilterTorchE P name : Except String (List ℝ)) = .error "ValueError" ∧
    (fourierFilterSkE P name : Except String (List ℝ)) = .error "ValueError" := by
  constructor
  · unfold fourierFilterTorchE; simp [hP]
  · unfold fourierFilterSkE
    have hlen := nListSk_odd_length P hP
    have h1 : (nListSk P).length ≠ P / 2 := by omega
    have h2 : (nListSk P).length ≠ 1 := by omega
    simp [h1, h2]

/-- size 1 (outside the documented domain "must be even"): the port rejects it, NumPy
broadcasts the one-element `n` into the empty slice and scikit-image returns `[0.5]` -/
theorem fourierFilter_size_one :
    (fourierFilterTorchE 1 "ramp" : Except String (List ℝ)) = .error "ValueError" ∧
    (match (fourierFilterSkE 1 "ramp" : Except String (List ℝ)) with
      | .ok f => f.length = 1
      | .error _ => False) := by
  constructor
  · unfold fourierFilterTorchE; simp
  · unfold fourierFilterSkE
    simp [nListSk, parseFilter, rampSpatialSk, Dft.dft]


/-- **size 0**: both constructions reject it, with different exception classes (the port in
`torch.arange(-1, 0, -2)`, scikit-image in `f[0] = 0.25` on the empty array), for every name -/
theorem fourierFilter_size_zero (name : String) :
    (fourierFilterTorchE 0 name : Except String (List ℝ)) = .error "RuntimeError" ∧
    (fourierFilterSkE 0 name : Except String (List ℝ)) = .error "IndexError" := by
  constructor
  · unfold fourierFilterTorchE; simp
  · unfold fourierFilterSkE; simp [nListSk]

/-- **every size except 0 and 1, every filter name**: the port (with its explicit check) and
scikit-image's literal construction (with its implicit broadcast failure) have the same outcome -/
theorem fourierFilterE_agree (P : Nat) (hP0 : P ≠ 0) (hP1 : P ≠ 1) (name : String) (nm : FilterName)
    (hnm : parseFilter name = some nm) :
    (fourierFilterTorchE P name : Except String (List ℝ)) = fourierFilterSkE P name := by
  by_cases hP : P % 2 = 0
  · rw [fourierFilterSkE_even P hP hP0 name nm hnm]
    unfold fourierFilterTorchE
    simp only [hP, hP0, ne_eq, not_true_eq_false, if_false, hnm]
    rw [fourierFilter_agree nm P (by omega)]
  · have hodd : P % 2 = 1 := by omega
    have := fourierFilter_odd_rejected P hodd (by omega) name
    rw [this.1, this.2]

/-- an unknown filter name is a ValueError of the port for every even size ≥ 2 -/
theorem fourierFilterTorchE_unknown (P : Nat) (hP : P % 2 = 0) (h0 : P ≠ 0) (name : String)
    (hnm : parseFilter name = none) :
    (fourierFilterTorchE P name : Except String (List ℝ)) = .error "ValueError" := by
  unfold fourierFilterTorchE
  simp [hP, h0, hnm]

/-- a known filter name and an even size ≥ 2: the port returns the closed form -/
theorem fourierFilterTorchE_ok (P : Nat) (hP : P % 2 = 0) (h0 : P ≠ 0) (name : String) (nm : FilterName)
    (hnm : parseFilter name = some nm) :
    (fourierFilterTorchE P name : Except String (List ℝ)) = .ok (fourierFilterTorch nm P) := by
  unfold fourierFilterTorchE
  simp [hP, h0, hnm]

end QuantemModel.Radon
