import QuantemModel.Lemmas.Radon
import QuantemModel.Lemmas.PtychoOpsDft
/-!
C07 — linearity of the whole filtered back-projection on lists (the FFT filtering step
included), using the `vbuild`/`dftC` bridge of Lemmas/PtychoOpsDft.lean.
-/
namespace QuantemModel.Radon
open QuantemModel QuantemModel.NumReal QuantemModel.PtychoOps

/-- `a·x + b·y` entry by entry (detector rows / image rows of equal length) -/
def linRow (a b : ℝ) (x y : List ℝ) : List ℝ := List.zipWith (fun u v => a * u + b * v) x y
/-- the same for sinograms / images (lists of rows) -/
def linRows (a b : ℝ) (x y : List (List ℝ)) : List (List ℝ) := List.zipWith (linRow a b) x y
/-- complex version used inside the filter -/
noncomputable def linC (a b : ℝ) (x y : List (Cx ℝ)) : List (Cx ℝ) :=
  List.zipWith (fun u v => Cx.smul a u + Cx.smul b v) x y

@[simp] theorem linRow_length (a b : ℝ) (x y : List ℝ) : (linRow a b x y).length = min x.length y.length := by
  simp [linRow]
@[simp] theorem linC_length (a b : ℝ) (x y : List (Cx ℝ)) : (linC a b x y).length = min x.length y.length := by
  simp [linC]

theorem linRow_append_zeros (a b : ℝ) (x y : List ℝ) (h : x.length = y.length) (k : Nat) :
    linRow a b (x ++ List.replicate k 0) (y ++ List.replicate k 0) = linRow a b x y ++ List.replicate k 0 := by
  unfold linRow
  rw [List.zipWith_append h]
  congr 1
  simp

theorem zeros_append_linRow (a b : ℝ) (x y : List ℝ) (k : Nat) :
    linRow a b (List.replicate k 0 ++ x) (List.replicate k 0 ++ y) = List.replicate k 0 ++ linRow a b x y := by
  unfold linRow
  rw [List.zipWith_append (by simp)]
  congr 1
  simp

theorem map_ofReal_linRow (a b : ℝ) (x y : List ℝ) :
    (linRow a b x y).map Cx.ofReal = linC a b (x.map Cx.ofReal) (y.map Cx.ofReal) := by
  unfold linRow linC
  rw [List.map_zipWith, List.zipWith_map]
  congr 1
  funext u v
  apply toC_injective
  simp

theorem map_re_linC (a b : ℝ) (x y : List (Cx ℝ)) :
    (linC a b x y).map (fun z => z.re) = linRow a b (x.map fun z => z.re) (y.map fun z => z.re) := by
  unfold linRow linC
  rw [List.map_zipWith, List.zipWith_map]
  rfl

theorem take_linRow (a b : ℝ) (n : Nat) (x y : List ℝ) :
    (linRow a b x y).take n = linRow a b (x.take n) (y.take n) := by
  unfold linRow; rw [List.take_zipWith]

theorem linC_vbuild (a b : ℝ) (n : Nat) (g h : Nat → Cx ℝ) :
    linC a b (vbuild n g) (vbuild n h) = vbuild n fun i => Cx.smul a (g i) + Cx.smul b (h i) := by
  unfold linC; rw [zipWith_vbuild]

theorem dftC_linear (N : Nat) (a b : ℝ) (g h : Nat → Cx ℝ) (k : Nat) :
    dftC N (fun i => Cx.smul a (g i) + Cx.smul b (h i)) k = Cx.smul a (dftC N g k) + Cx.smul b (dftC N h k) := by
  apply toC_injective
  unfold dftC
  simp only [toC_add, toC_smul, toC_sum, vbuild_map, sum_vbuild, toC_mul]
  rw [Finset.mul_sum, Finset.mul_sum, ← Finset.sum_add_distrib]
  refine Finset.sum_congr rfl fun n _ => ?_
  ring

theorem idftC_linear (N : Nat) (a b : ℝ) (g h : Nat → Cx ℝ) (k : Nat) :
    idftC N (fun i => Cx.smul a (g i) + Cx.smul b (h i)) k = Cx.smul a (idftC N g k) + Cx.smul b (idftC N h k) := by
  apply toC_injective
  unfold idftC
  simp only [toC_add, toC_smul, toC_sum, vbuild_map, sum_vbuild, toC_mul]
  rw [Finset.mul_sum, Finset.mul_sum, Finset.mul_sum, Finset.mul_sum, Finset.mul_sum, ← Finset.sum_add_distrib]
  refine Finset.sum_congr rfl fun n _ => ?_
  ring

/-- the modelled FFT is linear on lists of equal length -/
theorem dft_linC (a b : ℝ) (x y : List (Cx ℝ)) (h : x.length = y.length) :
    Dft.dft (linC a b x y) = linC a b (Dft.dft x) (Dft.dft y) := by
  rw [eq_vbuild Cx.zero x, eq_vbuild Cx.zero y, ← h, linC_vbuild, dft_vbuild, dft_vbuild, dft_vbuild, linC_vbuild]
  apply vbuild_congr
  intro k _
  exact dftC_linear _ a b _ _ k

theorem idft_linC (a b : ℝ) (x y : List (Cx ℝ)) (h : x.length = y.length) :
    Dft.idft (linC a b x y) = linC a b (Dft.idft x) (Dft.idft y) := by
  rw [eq_vbuild Cx.zero x, eq_vbuild Cx.zero y, ← h, linC_vbuild, idft_vbuild, idft_vbuild, idft_vbuild, linC_vbuild]
  apply vbuild_congr
  intro k _
  exact idftC_linear _ a b _ _ k

theorem zipWith_filt_linC (a b : ℝ) (filt : List ℝ) : ∀ (x y : List (Cx ℝ)),
    List.zipWith (fun (z : Cx ℝ) (h : ℝ) => Cx.smul h z) (linC a b x y) filt
      = linC a b (List.zipWith (fun (z : Cx ℝ) (h : ℝ) => Cx.smul h z) x filt)
          (List.zipWith (fun (z : Cx ℝ) (h : ℝ) => Cx.smul h z) y filt) := by
  induction filt with
  | nil => intro x y; simp [linC]
  | cons f fs ih =>
    intro x y
    cases x with
    | nil => simp [linC]
    | cons u xs =>
      cases y with
      | nil => simp [linC]
      | cons v ys =>
        have ih' := ih xs ys
        unfold linC at ih' ⊢
        simp only [List.zipWith_cons_cons, List.cons.injEq]
        refine ⟨?_, ih'⟩
        apply toC_injective
        simp
        ring

@[simp] theorem dft_length (x : List (Cx ℝ)) : (Dft.dft x).length = x.length := by simp [Dft.dft]
@[simp] theorem idft_length (x : List (Cx ℝ)) : (Dft.idft x).length = x.length := by simp [Dft.idft]

/-- **the FFT filtering step is linear**: `real(ifft(fft(pad row) * filter))[:N]` -/
theorem filterRow_linear (filt : List ℝ) (P N : Nat) (a b : ℝ) (x y : List ℝ) (h : x.length = y.length) :
    filterRow filt P N (linRow a b x y) = linRow a b (filterRow filt P N x) (filterRow filt P N y) := by
  unfold filterRow
  simp only [zero_eq]
  rw [← linRow_append_zeros a b x y h, map_ofReal_linRow, dft_linC _ _ _ _ (by simp [h]), zipWith_filt_linC,
    idft_linC _ _ _ _ (by simp [h]), map_re_linC, take_linRow]

theorem circleToSquare_linear (D N : Nat) (a b : ℝ) (x y : List ℝ) (h : x.length = y.length) :
    circleToSquare D N (linRow a b x y) = linRow a b (circleToSquare D N x) (circleToSquare D N y) := by
  unfold circleToSquare
  simp only [zero_eq]
  rw [linRow_append_zeros a b _ _ (by simp [h]), zeros_append_linRow]

theorem rowAcc_linRow (a b : ℝ) (x y : List ℝ) (h : x.length = y.length) :
    rowAcc (linRow a b x y) = fun i => a * rowAcc x i + b * rowAcc y i := by
  funext i
  unfold rowAcc linRow
  simp only [zero_eq, List.getD_eq_getElem?_getD, List.getElem?_zipWith]
  by_cases hn : i.toNat < x.length
  · have hn' : i.toNat < y.length := h ▸ hn
    simp [List.getElem?_eq_getElem hn, List.getElem?_eq_getElem hn']
  · have hn' : ¬ i.toNat < y.length := h ▸ hn
    simp [List.getElem?_eq_none (not_lt.mp hn), List.getElem?_eq_none (not_lt.mp hn')]

theorem backprojAt_eq (interp : Nat → (Int → ℝ) → ℝ → ℝ) (D : Nat) (rows : List ((Int → ℝ) × ℝ)) (radius r c : Nat) :
    backprojAt interp D rows radius r c = (rows.map fun p => interp D p.1 (detT radius p.2 r c)).sum := by
  unfold backprojAt; rw [sum_eq]

/-- rows of two sinograms have pairwise equal lengths (in particular equally many rows) -/
def SameShape (x y : List (List ℝ)) : Prop := List.Forall₂ (fun u v => u.length = v.length) x y

theorem backprojAt_linRows (interp : Nat → (Int → ℝ) → ℝ → ℝ)
    (hlin : ∀ D v w a b t, interp D (fun i => a * v i + b * w i) t = a * interp D v t + b * interp D w t)
    (D : Nat) (a b : ℝ) (radius r c : Nat) (F1 F2 : List (List ℝ)) (h : SameShape F1 F2) :
    ∀ th : List ℝ,
    backprojAt interp D ((List.zip (linRows a b F1 F2) th).map fun p => (rowAcc p.1, p.2)) radius r c
      = a * backprojAt interp D ((List.zip F1 th).map fun p => (rowAcc p.1, p.2)) radius r c
        + b * backprojAt interp D ((List.zip F2 th).map fun p => (rowAcc p.1, p.2)) radius r c := by
  unfold SameShape at h
  induction h with
  | nil => intro th; simp [backprojAt_eq, linRows]
  | cons hxy _ ih =>
    intro th
    cases th with
    | nil => simp [backprojAt_eq]
    | cons θ ths =>
      have ih' := ih ths
      simp only [backprojAt_eq, linRows] at ih' ⊢
      simp only [List.zipWith_cons_cons, List.zip_cons_cons, List.map_cons, List.sum_cons, ih',
        rowAcc_linRow a b _ _ hxy, hlin]
      ring

theorem zipWith_map_same {α β γ : Type} (f : β → β → γ) (g h : α → β) (l : List α) :
    List.zipWith f (l.map g) (l.map h) = l.map fun x => f (g x) (h x) := by
  induction l with
  | nil => simp
  | cons x xs ih => simp [ih]

theorem SameShape.length_eq {x y : List (List ℝ)} (h : SameShape x y) : x.length = y.length :=
  List.Forall₂.length_eq h

theorem SameShape.head_length {x y : List (List ℝ)} (h : SameShape x y) :
    (x.headD []).length = (y.headD []).length := by
  unfold SameShape at h
  cases h with
  | nil => rfl
  | cons h1 _ => simpa using h1

theorem linRows_length {a b : ℝ} {x y : List (List ℝ)} (h : SameShape x y) :
    (linRows a b x y).length = x.length := by
  unfold linRows; simp [h.length_eq]

theorem linRows_head_length {a b : ℝ} {x y : List (List ℝ)} (h : SameShape x y) :
    ((linRows a b x y).headD []).length = (x.headD []).length := by
  unfold SameShape at h
  cases h with
  | nil => rfl
  | cons h1 _ => simp [linRows, h1]

/-- a length-respecting linear row map commutes with `linRows` and keeps the shapes equal -/
theorem map_linRows (T : List ℝ → List ℝ) (a b : ℝ)
    (hT : ∀ x y : List ℝ, x.length = y.length → T (linRow a b x y) = linRow a b (T x) (T y))
    (hL : ∀ x y : List ℝ, x.length = y.length → (T x).length = (T y).length)
    {X Y : List (List ℝ)} (h : SameShape X Y) :
    (linRows a b X Y).map T = linRows a b (X.map T) (Y.map T) ∧ SameShape (X.map T) (Y.map T) := by
  unfold SameShape at h ⊢
  induction h with
  | nil => exact ⟨by simp [linRows], List.Forall₂.nil⟩
  | cons hxy _ ih =>
    obtain ⟨ih1, ih2⟩ := ih
    unfold linRows at ih1 ⊢
    refine ⟨?_, List.Forall₂.cons (hL _ _ hxy) ih2⟩
    simp only [List.zipWith_cons_cons, List.map_cons, ih1, hT _ _ hxy]

theorem circleToSquare_length (D N : Nat) (x y : List ℝ) (h : x.length = y.length) :
    (circleToSquare D N x).length = (circleToSquare D N y).length := by
  simp [circleToSquare, h]

theorem filterRow_length (filt : List ℝ) (P N : Nat) (x y : List ℝ) (h : x.length = y.length) :
    (filterRow filt P N x).length = (filterRow filt P N y).length := by
  simp [filterRow, h]

/-- the back-projection stage on lists -/
theorem backproject_linear (interp : Nat → (Int → ℝ) → ℝ → ℝ)
    (hlin : ∀ D v w a b t, interp D (fun i => a * v i + b * w i) t = a * interp D v t + b * interp D w t)
    (D : Nat) (a b : ℝ) (F1 F2 : List (List ℝ)) (h : SameShape F1 F2) (th : List ℝ) (out : Nat) (circle : Bool) :
    backproject interp D (linRows a b F1 F2) th out circle
      = linRows a b (backproject interp D F1 th out circle) (backproject interp D F2 th out circle) := by
  unfold backproject
  simp only [zero_eq, mul_eq, div_eq, pi_eq, ofNat_eq]
  conv_rhs => unfold linRows
  rw [zipWith_map_same]
  apply List.map_congr_left
  intro r _
  unfold linRow
  rw [zipWith_map_same]
  apply List.map_congr_left
  intro c _
  rw [backprojAt_linRows interp hlin D a b _ r c F1 F2 h th]
  split <;> ring

theorem interpTorchT_linear : ∀ (D : Nat) (v w : Int → ℝ) (a b t : ℝ),
    (fun (D : Nat) (v : Int → ℝ) (t : ℝ) => interpTorch D v (t + Num.ofNat (D / 2))) D (fun i => a * v i + b * w i) t
      = a * (fun (D : Nat) (v : Int → ℝ) (t : ℝ) => interpTorch D v (t + Num.ofNat (D / 2))) D v t
        + b * (fun (D : Nat) (v : Int → ℝ) (t : ℝ) => interpTorch D v (t + Num.ofNat (D / 2))) D w t := by
  intro D v w a b t
  exact interp_linear D v w a b _

/-- **iradon_torch is linear in the sinogram** (model, ℝ): circle-to-square padding, FFT
filtering, interpolation, accumulation, mask and scaling — for every shape, angle set,
filter and circle flag. -/
theorem iradonTorchOut_linear (a b : ℝ) (s1 s2 : List (List ℝ)) (h : SameShape s1 s2)
    (thetas : Option (List ℝ)) (name : FilterName) (circle : Bool) (out : Nat) :
    iradonTorchOut (linRows a b s1 s2) thetas name circle out
      = linRows a b (iradonTorchOut s1 thetas name circle out) (iradonTorchOut s2 thetas name circle out) := by
  unfold iradonTorchOut
  have hA := linRows_length (a := a) (b := b) h
  have hA2 : s2.length = s1.length := h.length_eq.symm
  have hN := linRows_head_length (a := a) (b := b) h
  have hN2 : (s2.headD []).length = (s1.headD []).length := h.head_length.symm
  simp only [hA, hA2, hN, hN2]
  cases circle with
  | false =>
    simp only [Bool.false_eq_true, if_false]
    obtain ⟨e1, sh1⟩ := map_linRows (filterRow (fourierFilterTorch name (paddedSize (s1.headD []).length))
        (paddedSize (s1.headD []).length) (s1.headD []).length) a b
      (fun x y hxy => filterRow_linear _ _ _ a b x y hxy) (fun x y hxy => filterRow_length _ _ _ x y hxy) h
    rw [e1]
    exact backproject_linear _ interpTorchT_linear _ a b _ _ sh1 _ _ _
  | true =>
    simp only [if_true]
    obtain ⟨e0, sh0⟩ := map_linRows (circleToSquare (diagSize (R := ℝ) (s1.headD []).length) (s1.headD []).length) a b
      (fun x y hxy => circleToSquare_linear _ _ a b x y hxy) (fun x y hxy => circleToSquare_length _ _ x y hxy) h
    rw [e0]
    obtain ⟨e1, sh1⟩ := map_linRows (filterRow (fourierFilterTorch name (paddedSize (diagSize (R := ℝ) (s1.headD []).length)))
        (paddedSize (diagSize (R := ℝ) (s1.headD []).length)) (diagSize (R := ℝ) (s1.headD []).length)) a b
      (fun x y hxy => filterRow_linear _ _ _ a b x y hxy) (fun x y hxy => filterRow_length _ _ _ x y hxy) sh0
    rw [e1]
    exact backproject_linear _ interpTorchT_linear _ a b _ _ sh1 _ _ _

theorem iradonTorch_linear (a b : ℝ) (s1 s2 : List (List ℝ)) (h : SameShape s1 s2)
    (thetas : Option (List ℝ)) (name : FilterName) (circle : Bool) :
    iradonTorch (linRows a b s1 s2) thetas name circle
      = linRows a b (iradonTorch s1 thetas name circle) (iradonTorch s2 thetas name circle) := by
  unfold iradonTorch
  rw [linRows_head_length (a := a) (b := b) h, ← h.head_length]
  exact iradonTorchOut_linear a b s1 s2 h thetas name circle _

theorem iradonSkOut_linear (a b : ℝ) (s1 s2 : List (List ℝ)) (h : SameShape s1 s2)
    (thetas : Option (List ℝ)) (name : FilterName) (circle : Bool) (out : Nat) :
    iradonSkOut (linRows a b s1 s2) thetas name circle out
      = linRows a b (iradonSkOut s1 thetas name circle out) (iradonSkOut s2 thetas name circle out) := by
  rw [← iradonOut_agree, ← iradonOut_agree, ← iradonOut_agree]
  exact iradonTorchOut_linear a b s1 s2 h thetas name circle out

theorem iradonSk_linear (a b : ℝ) (s1 s2 : List (List ℝ)) (h : SameShape s1 s2)
    (thetas : Option (List ℝ)) (name : FilterName) (circle : Bool) :
    iradonSk (linRows a b s1 s2) thetas name circle
      = linRows a b (iradonSk s1 thetas name circle) (iradonSk s2 thetas name circle) := by
  rw [← iradon_agree, ← iradon_agree, ← iradon_agree]
  exact iradonTorch_linear a b s1 s2 h thetas name circle

end QuantemModel.Radon
