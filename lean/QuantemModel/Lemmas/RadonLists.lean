import QuantemModel.Lemmas.RadonLinear
/-!
C07 — list-level statements about the executables the driver runs: linearity of
`radonTorch`/`radonSk` on list images, and `radonTorch img = radonSk (maskImg img)`.
-/
namespace QuantemModel.Radon
open QuantemModel QuantemModel.NumReal

theorem getD_linRow (a b : ℝ) (x y : List ℝ) (h : x.length = y.length) (m : Nat) :
    (linRow a b x y).getD m 0 = a * x.getD m 0 + b * y.getD m 0 := by
  unfold linRow
  simp only [List.getD_eq_getElem?_getD, List.getElem?_zipWith]
  by_cases hn : m < x.length
  · have hn' : m < y.length := h ▸ hn
    simp [List.getElem?_eq_getElem hn, List.getElem?_eq_getElem hn']
  · have hn' : ¬ m < y.length := h ▸ hn
    simp [List.getElem?_eq_none (not_lt.mp hn), List.getElem?_eq_none (not_lt.mp hn')]

theorem getD_linRows (a b : ℝ) {X Y : List (List ℝ)} (h : SameShape X Y) :
    ∀ n m : Nat, ((linRows a b X Y).getD n []).getD m 0
      = a * (X.getD n []).getD m 0 + b * (Y.getD n []).getD m 0 := by
  unfold SameShape at h
  induction h with
  | nil => intro n m; simp [linRows]
  | cons hxy _ ih =>
    intro n m
    cases n with
    | zero => simp only [linRows, List.zipWith_cons_cons, List.getD_cons_zero]; exact getD_linRow a b _ _ hxy m
    | succ k =>
      have := ih k m
      simp only [linRows, List.zipWith_cons_cons, List.getD_cons_succ] at this ⊢
      exact this

theorem px_linRows (a b : ℝ) {X Y : List (List ℝ)} (h : SameShape X Y) :
    px (linRows a b X Y) = fun r c => a * px X r c + b * px Y r c := by
  funext r c
  unfold px
  simp only [zero_eq]
  split
  · exact getD_linRows a b h _ _
  · simp

/-- **radon_torch is linear on list images** of equal shape -/
theorem radonTorch_linear (a b : ℝ) (X Y : List (List ℝ)) (h : SameShape X Y) (thetas : List ℝ) :
    radonTorch (linRows a b X Y) thetas = linRows a b (radonTorch X thetas) (radonTorch Y thetas) := by
  unfold radonTorch
  simp only [linRows_length h, h.length_eq.symm, px_linRows a b h, radonTorchAt_linear]
  conv_rhs => unfold linRows
  rw [zipWith_map_same]
  apply List.map_congr_left
  intro θ _
  unfold linRow
  rw [zipWith_map_same]

theorem radonSk_linear (a b : ℝ) (X Y : List (List ℝ)) (h : SameShape X Y) (thetas : List ℝ) :
    radonSk (linRows a b X Y) thetas = linRows a b (radonSk X thetas) (radonSk Y thetas) := by
  unfold radonSk
  simp only [linRows_length h, h.length_eq.symm, px_linRows a b h, radonSkAt_linear]
  conv_rhs => unfold linRows
  rw [zipWith_map_same]
  apply List.map_congr_left
  intro θ _
  unfold linRow
  rw [zipWith_map_same]

/-- the disc-masked image as a list image (what scikit-image's circle mode expects) -/
noncomputable def maskImg (img : List (List ℝ)) : List (List ℝ) :=
  let N := img.length
  (List.range N).map fun (r : Nat) => (List.range N).map fun (c : Nat) => masked (px img) N (r : ℤ) (c : ℤ)

@[simp] theorem maskImg_length (img : List (List ℝ)) : (maskImg img).length = img.length := by
  simp [maskImg]

theorem inDisc_range {N : Nat} {r c : ℤ} (h : inDisc N r c = true) : 0 ≤ r ∧ r < N ∧ 0 ≤ c ∧ c < N := by
  unfold inDisc at h
  have := of_decide_eq_true h
  exact ⟨this.1, this.2.1, this.2.2.1, this.2.2.2.1⟩

theorem getD_vbuild_ge {β : Type} (n : ℕ) (g : ℕ → β) (d : β) {i : ℕ} (hi : ¬ i < n) :
    (PtychoOps.vbuild n g).getD i d = d := by
  simp [PtychoOps.vbuild, List.getD_eq_getElem?_getD, not_lt.mp hi]

theorem px_maskImg (img : List (List ℝ)) : px (maskImg img) = masked (px img) img.length := by
  funext r c
  have key : ∀ (h0 : 0 ≤ r ∧ 0 ≤ c), r.toNat < img.length → c.toNat < img.length →
      px (maskImg img) r c = masked (px img) img.length r c := by
    intro h0 hr hc
    have er : ((r.toNat : ℕ) : ℤ) = r := Int.toNat_of_nonneg h0.1
    have ec : ((c.toNat : ℕ) : ℤ) = c := Int.toNat_of_nonneg h0.2
    unfold px maskImg
    simp only [zero_eq]
    rw [if_pos h0]
    show ((PtychoOps.vbuild img.length fun (r : Nat) => PtychoOps.vbuild img.length fun (c : Nat) =>
      masked (px img) img.length (r : ℤ) (c : ℤ)).getD r.toNat []).getD c.toNat 0 = _
    rw [PtychoOps.getD_vbuild _ _ _ hr, PtychoOps.getD_vbuild _ _ _ hc, er, ec]
    congr 1
    funext r c
    simp only [px, zero_eq]
  by_cases hd : inDisc img.length r c = true
  · obtain ⟨h1, h2, h3, h4⟩ := inDisc_range hd
    exact key ⟨h1, h3⟩ (by omega) (by omega)
  · have hm : masked (px img) img.length r c = 0 := by
      unfold masked; simp [hd]
    by_cases h0 : 0 ≤ r ∧ 0 ≤ c
    · by_cases hr : r.toNat < img.length
      · by_cases hc : c.toNat < img.length
        · exact key h0 hr hc
        · rw [hm]
          unfold px maskImg
          simp only [zero_eq]
          rw [if_pos h0]
          show ((PtychoOps.vbuild img.length fun (r : Nat) => PtychoOps.vbuild img.length fun (c : Nat) =>
            masked (px img) img.length (r : ℤ) (c : ℤ)).getD r.toNat []).getD c.toNat 0 = _
          rw [PtychoOps.getD_vbuild _ _ _ hr, getD_vbuild_ge _ _ _ hc]
      · rw [hm]
        unfold px maskImg
        simp only [zero_eq]
        rw [if_pos h0]
        show ((PtychoOps.vbuild img.length fun (r : Nat) => PtychoOps.vbuild img.length fun (c : Nat) =>
          masked (px img) img.length (r : ℤ) (c : ℤ)).getD r.toNat []).getD c.toNat 0 = _
        rw [getD_vbuild_ge _ _ _ hr]
        rfl
    · rw [hm]
      unfold px
      simp only [zero_eq]
      rw [if_neg h0]

/-- **list-level agreement of the two executables** -/
theorem radonTorch_eq_radonSk (img : List (List ℝ)) (hN : 2 ≤ img.length) (thetas : List ℝ) :
    radonTorch img thetas = radonSk (maskImg img) thetas := by
  unfold radonTorch radonSk
  simp only [maskImg_length, px_maskImg, radonTorchAt_eq_sk _ _ hN]

end QuantemModel.Radon
