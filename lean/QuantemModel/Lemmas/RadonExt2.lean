import QuantemModel.Model.RadonExt2
import QuantemModel.Lemmas.RadonExt
/-!
Lemmas for `Model/RadonExt2.lean` (C07, growth round 6): the batched accumulation loop of iradon_torch
refines the per-sinogram model; the geometry integers.
-/
namespace QuantemModel.Radon
open QuantemModel QuantemModel.NumReal

theorem zipWith_map_map {α β γ δ : Type} (f : β → γ → δ) (g : α → β) (h : α → γ) (l : List α) :
    List.zipWith f (l.map g) (l.map h) = l.map fun x => f (g x) (h x) := by
  induction l <;> simp [*]

theorem zipWith_map_self {α β δ : Type} (f : β → α → δ) (g : α → β) (l : List α) :
    List.zipWith f (l.map g) l = l.map fun x => f (g x) x := by
  induction l <;> simp [*]

theorem tab_congr (out : Nat) (h1 h2 : Nat → Nat → ℝ) (h : ∀ r c, r < out → c < out → h1 r c = h2 r c) :
    tab out h1 = tab out h2 := by
  unfold tab
  apply List.map_congr_left
  intro r hr
  apply List.map_congr_left
  intro c hc
  exact h r c (List.mem_range.mp hr) (List.mem_range.mp hc)

theorem addImage_tab (out : Nat) (h1 h2 : Nat → Nat → ℝ) :
    addImage (tab out h1) (tab out h2) = tab out fun r c => h1 r c + h2 r c := by
  unfold addImage tab
  rw [zipWith_map_map]
  apply List.map_congr_left
  intro r _
  rw [zipWith_map_map]

theorem zeros_tab (out : Nat) :
    List.replicate out (List.replicate out (Num.zero : ℝ)) = tab out fun _ _ => 0 := by
  unfold tab
  simp [List.map_const']

theorem tab_getD (out : Nat) (h : Nat → Nat → ℝ) (r c : Nat) (hr : r < out) (hc : c < out) :
    ((tab out h).getD r []).getD c Num.zero = h r c := by
  unfold tab
  simp [List.getD_eq_getElem?_getD, hr, hc]

/-- `recon += proj` over a list of projections, each an `out × out` table: entrywise the start value plus the sum -/
theorem foldl_addImage_tab {γ : Type} (out : Nat) (g : γ → Nat → Nat → ℝ) (l : List γ) : ∀ (h0 : Nat → Nat → ℝ),
    l.foldl (fun acc p => addImage acc (tab out (g p))) (tab out h0)
      = tab out fun r c => h0 r c + (l.map fun p => g p r c).sum := by
  induction l with
  | nil => intro h0; simp
  | cons p l ih =>
      intro h0
      rw [List.foldl_cons, addImage_tab, ih]
      apply tab_congr
      intro r c _ _
      simp only [List.map_cons, List.sum_cons]
      ring

/-- the `i`-th angle paired with `filtered[:, i, :]` (index lookup) is the zip of rows and angles -/
theorem zipIdx_lookup_eq_zip {α β γ : Type} (d : β) (F : β → α → γ) (fb : List β) (th : List α)
    (h : fb.length = th.length) :
    th.zipIdx.map (fun p => F (fb.getD p.2 d) p.1) = (List.zip fb th).map fun p => F p.1 p.2 := by
  apply List.ext_getElem
  · simp [h]
  · intro i h1 h2
    have hi : i < th.length := by simpa using h1
    have hi' : i < fb.length := by omega
    simp [List.getD_eq_getElem?_getD, hi']

/-- **the batched accumulation loop is the per-sinogram model**, for sinograms of one shape `[A][N]` and an
angle set (given or default) of `A` angles. -/
theorem iradonTorchBatchLoop_eq (sinos : List (List (List ℝ))) (thetas : Option (List ℝ)) (name : FilterName)
    (circle : Bool) (out A N : Nat)
    (hs : ∀ s ∈ sinos, s.length = A ∧ (s.headD []).length = N)
    (hth : ∀ t, thetas = some t → t.length = A) :
    iradonTorchBatchLoop sinos thetas name circle out = sinos.map fun s => iradonTorchOut s thetas name circle out := by
  cases sinos with
  | nil =>
    have hc : ∀ (l : List (ℝ × Nat)), l.foldl (fun (_ : List (List (List ℝ))) _ => []) [] = [] := by
      intro l; induction l <;> simp_all
    simp [iradonTorchBatchLoop, filteredBatch, hc]
  | cons s0 rest =>
    have h0 := hs s0 (by simp)
    unfold iradonTorchBatchLoop
    simp only [List.headD_cons]
    rw [h0.1, h0.2]
    generalize hthv : (thetas.getD ((List.range A).map fun i => (Num.ofNat i : ℝ) * (Num.ofNat 180 / Num.ofNat A))) = th
    have hthl : th.length = A := by
      subst hthv
      cases thetas with
      | none => simp
      | some t => simpa using hth t rfl
    generalize hD : (if circle then diagSize (R := ℝ) N else N) = D
    rw [foldl_zipWith (fun (p : ℝ × Nat) (rb : List (List ℝ)) (fb : List (List ℝ)) =>
        addImage rb (projImage D (fb.getD p.2 []) p.1 out)) th.zipIdx _ _ (by simp)]
    rw [zipWith_map_self, List.map_map]
    unfold filteredBatch
    rw [List.map_map]
    apply List.map_congr_left
    intro s hsm
    have hsA := hs s hsm
    simp only [Function.comp]
    unfold iradonTorchOut backproject
    dsimp only
    rw [hsA.1, hsA.2, hthv, hD]
    generalize hfb : ((if circle then s.map (circleToSquare D N) else s).map
      (filterRow (fourierFilterTorch name (paddedSize D)) (paddedSize D) D)) = fb
    have hfbl : fb.length = th.length := by
      subst hfb
      rw [hthl, ← hsA.1]
      cases circle <;> simp
    unfold tab
    apply List.map_congr_left
    intro r hr
    apply List.map_congr_left
    intro c hc
    have hr' := List.mem_range.mp hr
    have hc' := List.mem_range.mp hc
    have hacc : ((th.zipIdx.foldl (fun o p => addImage o (projImage D (fb.getD p.2 []) p.1 out))
          (List.replicate out (List.replicate out (Num.zero : ℝ)))).getD r []).getD c Num.zero
        = backprojAt (fun D v t => interpTorch D v (t + Num.ofNat (D / 2))) D
            ((List.zip fb th).map fun p => (rowAcc p.1, p.2)) (out / 2) r c := by
      rw [zeros_tab]
      unfold projImage
      rw [foldl_addImage_tab out (fun (p : ℝ × Nat) r c =>
        interpTorch D (rowAcc (fb.getD p.2 [])) (detT (out / 2) p.1 r c + Num.ofNat (D / 2))) th.zipIdx]
      rw [tab_getD out _ r c hr' hc']
      unfold backprojAt
      rw [sum_eq, List.map_map, zero_add]
      congr 1
      exact zipIdx_lookup_eq_zip ([] : List ℝ)
        (fun row θ => interpTorch D (rowAcc row) (detT (out / 2) θ r c + Num.ofNat (D / 2))) fb th hfbl
    simp only [hacc]

end QuantemModel.Radon
