import QuantemModel.Model.Unwrap
import Mathlib.Data.Finset.Card
import Mathlib.Logic.Relation
import Mathlib.Tactic.Linarith
/-!
Union–find with offsets (`Model/Unwrap.lean`, `UnionFindPhase` of imaging_utils.py):
well-formedness invariant, termination of `find`, effect of one `union` on every `find`,
offset consistency.  Nothing here mentions phases or floats.
-/
namespace QuantemModel.Unwrap
namespace UF

/-! ### array accessors -/

theorem getD_setIfInBounds {α : Type} (a : Array α) (i j : Nat) (v d : α) :
    (a.setIfInBounds i v).getD j d = if i = j ∧ i < a.size then v else a.getD j d := by
  simp only [Array.getD_eq_getD_getElem?, Array.getElem?_setIfInBounds]
  by_cases hij : i = j
  · subst hij
    by_cases hi : i < a.size
    · simp [hi]
    · simp [hi]
  · simp [hij]

/-- the update every successful `union` performs: `parent[a] = b; offset[a] = d` and, when
`bump`, `rank[b] += 1` -/
def link (u : UF) (a b : Nat) (d : Int) (bump : Bool) : UF :=
  { parent := u.parent.setIfInBounds a b
    offset := u.offset.setIfInBounds a d
    rank := if bump then u.rank.setIfInBounds b (u.rk b + 1) else u.rank }

/-- Well-formedness over `N` pixels: sizes, parents in range, and **rank strictly increases
towards the root** (hence no cycles). -/
structure WF (u : UF) (N : Nat) : Prop where
  sp : u.parent.size = N
  sr : u.rank.size = N
  so : u.offset.size = N
  lt : ∀ i, i < N → u.par i < N
  rank_lt : ∀ i, i < N → u.par i ≠ i → u.rk i < u.rk (u.par i)

theorem init_par (n i : Nat) (h : i < n) : (init n).par i = i := by
  simp [init, par, h]

theorem init_wf (n : Nat) : WF (init n) n where
  sp := by simp [init]
  sr := by simp [init]
  so := by simp [init]
  lt := fun i hi => by rw [init_par n i hi]; exact hi
  rank_lt := fun i hi h => absurd (init_par n i hi) h

section link
variable {u : UF} {N : Nat} (hwf : WF u N) {a b : Nat} (d : Int) (bump : Bool)
include hwf

theorem link_par (ha : a < N) (i : Nat) :
    (u.link a b d bump).par i = if i = a then b else u.par i := by
  unfold link par
  simp only [getD_setIfInBounds, hwf.sp, ha, and_true]
  by_cases h : a = i
  · simp [h]
  · have : ¬ i = a := fun e => h e.symm
    simp [h, this]

theorem link_off (ha : a < N) (i : Nat) :
    (u.link a b d bump).off i = if i = a then d else u.off i := by
  unfold link off
  simp only [getD_setIfInBounds, hwf.so, ha, and_true]
  by_cases h : a = i
  · simp [h]
  · have : ¬ i = a := fun e => h e.symm
    simp [h, this]

theorem link_rk (hb : b < N) (i : Nat) :
    (u.link a b d bump).rk i = if bump = true ∧ i = b then u.rk b + 1 else u.rk i := by
  unfold link
  cases bump with
  | false => simp [rk]
  | true =>
    simp only [rk, if_true, getD_setIfInBounds, hwf.sr, hb, and_true, true_and]
    by_cases h : b = i
    · simp [h]
    · have : ¬ i = b := fun e => h e.symm
      simp [h, this]

theorem link_size : (u.link a b d bump).parent.size = N := by
  simp [link, hwf.sp]

/-- linking a root `a` below another root `b` keeps the structure well-formed provided the
rank of `b` ends up above the rank of `a` (union by rank guarantees it) -/
theorem link_wf (ha : a < N) (hb : b < N) (hab : a ≠ b) (hpa : u.par a = a) (hpb : u.par b = b)
    (hr : if bump = true then u.rk a ≤ u.rk b else u.rk a < u.rk b) :
    WF (u.link a b d bump) N where
  sp := link_size hwf d bump
  sr := by
    unfold link; cases bump <;> simp [hwf.sr]
  so := by simp [link, hwf.so]
  lt := fun i hi => by
    rw [link_par hwf d bump ha]
    by_cases h : i = a
    · simp [h, hb]
    · simp [h, hwf.lt i hi]
  rank_lt := fun i hi hne => by
    rw [link_par hwf d bump ha] at hne ⊢
    by_cases h : i = a
    · subst h
      simp only [if_true]
      rw [link_rk hwf d bump hb, link_rk hwf d bump hb]
      have hab' : ¬ i = b := hab
      cases bump with
      | false => simpa using hr
      | true =>
        simp only [true_and, if_true, hab', if_false] at hr ⊢
        omega
    · simp only [h, if_false] at hne ⊢
      have hib : i ≠ b := fun e => hne (e ▸ hpb)
      rw [link_rk hwf d bump hb, link_rk hwf d bump hb]
      have := hwf.rank_lt i hi hne
      simp only [hib, and_false, if_false]
      split
      · rename_i hh
        rw [hh.2] at this
        omega
      · omega

end link

/-! ### `findAux` -/

theorem findAux_succ (u : UF) (fuel root : Nat) (total : Int) :
    u.findAux (fuel + 1) root total =
      if u.par root ≠ root then u.findAux fuel (u.par root) (total + u.off root)
      else some (root, total) := by
  rw [findAux]
  by_cases h : u.par root = root <;> simp [h]

/-- more fuel never changes an answer -/
theorem findAux_mono (u : UF) : ∀ (fuel z : Nat) (acc : Int) (v : Nat × Int),
    u.findAux fuel z acc = some v → u.findAux (fuel + 1) z acc = some v := by
  intro fuel
  induction fuel with
  | zero => intro z acc v h; simp [findAux] at h
  | succ k ih =>
    intro z acc v h
    rw [findAux_succ] at h ⊢
    by_cases hz : u.par z = z
    · simpa [hz] using h
    · simp only [ne_eq, hz, not_false_eq_true, if_true] at h ⊢
      exact ih _ _ _ h

theorem findAux_mono' (u : UF) (fuel k z : Nat) (acc : Int) (v : Nat × Int)
    (h : u.findAux fuel z acc = some v) : u.findAux (fuel + k) z acc = some v := by
  induction k with
  | zero => exact h
  | succ k ih => exact findAux_mono u _ _ _ _ ih

/-- what a successful `findAux` returns: a root in range -/
theorem findAux_root {u : UF} {N : Nat} (hwf : WF u N) : ∀ (fuel z : Nat) (acc : Int) (r : Nat) (t : Int),
    z < N → u.findAux fuel z acc = some (r, t) → r < N ∧ u.par r = r := by
  intro fuel
  induction fuel with
  | zero => intro z acc r t _ h; simp [findAux] at h
  | succ k ih =>
    intro z acc r t hz h
    rw [findAux_succ] at h
    by_cases hp : u.par z = z
    · simp only [ne_eq, hp, not_true_eq_false, if_false, Option.some.injEq, Prod.mk.injEq] at h
      obtain ⟨rfl, _⟩ := h
      exact ⟨hz, hp⟩
    · simp only [ne_eq, hp, not_false_eq_true, if_true] at h
      exact ih _ _ _ _ (hwf.lt z hz) h

/-- **Termination.**  Ranks strictly increase along parent links, so the walk from `z`
visits pairwise different pixels: it reaches a root after at most
`#{j < N | rk z < rk j}` hops, which is `< N`. -/
theorem findAux_terminates {u : UF} {N : Nat} (hwf : WF u N) : ∀ (fuel z : Nat) (acc : Int),
    z < N → ((Finset.range N).filter fun j => u.rk z < u.rk j).card < fuel →
    ∃ r t, u.findAux fuel z acc = some (r, t) := by
  intro fuel
  induction fuel with
  | zero => intro z acc _ h; omega
  | succ k ih =>
    intro z acc hz hcard
    rw [findAux_succ]
    by_cases hp : u.par z = z
    · exact ⟨z, acc, by simp [hp]⟩
    · simp only [ne_eq, hp, not_false_eq_true, if_true]
      apply ih _ _ (hwf.lt z hz)
      have hlt := hwf.rank_lt z hz hp
      have hss : ((Finset.range N).filter fun j => u.rk (u.par z) < u.rk j) ⊂
          ((Finset.range N).filter fun j => u.rk z < u.rk j) := by
        rw [Finset.ssubset_iff_of_subset]
        · refine ⟨u.par z, ?_, ?_⟩
          · simp [hwf.lt z hz, hlt]
          · simp
        · intro j hj
          simp only [Finset.mem_filter, Finset.mem_range] at hj ⊢
          exact ⟨hj.1, lt_trans hlt hj.2⟩
      have := Finset.card_lt_card hss
      omega

theorem find_terminates {u : UF} {N : Nat} (hwf : WF u N) (z : Nat) (hz : z < N) :
    ∃ r t, u.find z = some (r, t) := by
  unfold find
  rw [hwf.sp]
  apply findAux_terminates hwf N z 0 hz
  have hss : ((Finset.range N).filter fun j => u.rk z < u.rk j) ⊂ Finset.range N := by
    rw [Finset.ssubset_iff_of_subset (Finset.filter_subset _ _)]
    exact ⟨z, by simp [hz], by simp⟩
  simpa using Finset.card_lt_card hss

theorem find_root {u : UF} {N : Nat} (hwf : WF u N) {z r : Nat} {t : Int} (hz : z < N)
    (h : u.find z = some (r, t)) : r < N ∧ u.par r = r :=
  findAux_root hwf _ _ _ _ _ hz h

/-- a root finds itself with offset 0 -/
theorem find_of_root {u : UF} {N : Nat} (hwf : WF u N) {r : Nat} (hr : r < N) (hp : u.par r = r) :
    u.find r = some (r, 0) := by
  unfold find
  rw [hwf.sp]
  obtain ⟨k, rfl⟩ : ∃ k, N = k + 1 := ⟨N - 1, by omega⟩
  rw [findAux_succ]; simp [hp]

/-! ### effect of one link on every walk -/

/-- After `parent[a] = b; offset[a] = d` (both roots, `a ≠ b`) every walk that used to end in
`a` now ends in `b` with `d` added; every other walk is unchanged. -/
theorem findAux_link {u : UF} {N : Nat} (hwf : WF u N) {a b : Nat} (d : Int) (bump : Bool)
    (ha : a < N) (hab : a ≠ b) (hpa : u.par a = a) (hpb : u.par b = b) :
    ∀ (fuel z : Nat) (acc : Int) (r : Nat) (t : Int), u.findAux fuel z acc = some (r, t) →
      (u.link a b d bump).findAux (fuel + 1) z acc =
        some (if r = a then b else r, if r = a then t + d else t) := by
  intro fuel
  induction fuel with
  | zero => intro z acc r t h; simp [findAux] at h
  | succ k ih =>
    intro z acc r t h
    rw [findAux_succ] at h
    by_cases hp : u.par z = z
    · simp only [ne_eq, hp, not_true_eq_false, if_false, Option.some.injEq, Prod.mk.injEq] at h
      obtain ⟨rfl, rfl⟩ := h
      by_cases hza : z = a
      · subst hza
        rw [findAux_succ, link_par hwf d bump ha, link_off hwf d bump ha]
        simp only [if_true, ne_eq]
        have hba : ¬ b = z := fun e => hab e.symm
        simp only [hba, not_false_eq_true, if_true]
        rw [findAux_succ, link_par hwf d bump ha]
        simp [hba, hpb]
      · rw [findAux_succ, link_par hwf d bump ha]
        simp [hza, hp]
    · simp only [ne_eq, hp, not_false_eq_true, if_true] at h
      have hza : z ≠ a := fun e => hp (e ▸ hpa)
      rw [findAux_succ, link_par hwf d bump ha, link_off hwf d bump ha]
      simp only [hza, if_false, ne_eq, hp, not_false_eq_true, if_true]
      exact ih _ _ _ _ h

theorem find_link {u : UF} {N : Nat} (hwf : WF u N) {a b : Nat} (d : Int) (bump : Bool)
    (ha : a < N) (hb : b < N) (hab : a ≠ b) (hpa : u.par a = a) (hpb : u.par b = b)
    (hr : if bump = true then u.rk a ≤ u.rk b else u.rk a < u.rk b)
    {z r : Nat} {t : Int} (hz : z < N) (h : u.find z = some (r, t)) :
    (u.link a b d bump).find z = some (if r = a then b else r, if r = a then t + d else t) := by
  have hwf' := link_wf hwf d bump ha hb hab hpa hpb hr
  obtain ⟨r', t', h'⟩ := find_terminates hwf' z hz
  unfold find at h h' ⊢
  rw [hwf.sp] at h
  rw [hwf'.sp] at h' ⊢
  have h1 := findAux_link hwf d bump ha hab hpa hpb _ _ _ _ _ h
  have h2 := findAux_mono _ _ _ _ _ h'
  rw [h']
  rw [h1] at h2
  exact h2.symm

/-! ### offset consistency -/

/-- Offsets are *consistent* with an integer field `n` when every non-root pixel stores the
difference of `n` to its parent.  (`n` is the true number of 2π wraps; it is never computed
by the code.) -/
def Consistent (u : UF) (N : Nat) (n : Nat → Int) : Prop :=
  ∀ i, i < N → u.par i ≠ i → u.off i = n i - n (u.par i)

theorem init_consistent (N : Nat) (n : Nat → Int) : Consistent (init N) N n :=
  fun i hi h => absurd (init_par N i hi) h

/-- the accumulated offset telescopes to `n z - n root` -/
theorem findAux_consistent {u : UF} {N : Nat} (hwf : WF u N) {n : Nat → Int} (hc : Consistent u N n) :
    ∀ (fuel z : Nat) (acc : Int) (r : Nat) (t : Int), z < N →
      u.findAux fuel z acc = some (r, t) → t = acc + n z - n r := by
  intro fuel
  induction fuel with
  | zero => intro z acc r t _ h; simp [findAux] at h
  | succ k ih =>
    intro z acc r t hz h
    rw [findAux_succ] at h
    by_cases hp : u.par z = z
    · simp only [ne_eq, hp, not_true_eq_false, if_false, Option.some.injEq, Prod.mk.injEq] at h
      obtain ⟨rfl, rfl⟩ := h
      omega
    · simp only [ne_eq, hp, not_false_eq_true, if_true] at h
      have := ih _ _ _ _ (hwf.lt z hz) h
      rw [hc z hz hp] at this
      omega

theorem find_consistent {u : UF} {N : Nat} (hwf : WF u N) {n : Nat → Int} (hc : Consistent u N n)
    {z r : Nat} {t : Int} (hz : z < N) (h : u.find z = some (r, t)) : t = n z - n r := by
  have := findAux_consistent hwf hc _ _ _ _ _ hz h
  omega

theorem link_consistent {u : UF} {N : Nat} (hwf : WF u N) {n : Nat → Int} (hc : Consistent u N n)
    {a b : Nat} (bump : Bool) (ha : a < N) :
    Consistent (u.link a b (n a - n b) bump) N n := by
  intro i hi hne
  rw [link_par hwf _ bump ha] at hne ⊢
  rw [link_off hwf _ bump ha]
  by_cases h : i = a
  · simp [h]
  · simp only [h, if_false] at hne ⊢
    exact hc i hi hne

/-! ### one `union` -/

/-- the three outcomes of `union`, as the code branches -/
theorem union_spec {u u' : UF} {x y : Nat} {inc : Int} (h : u.union x y inc = some u') :
    ∃ rx ox ry oy, u.find x = some (rx, ox) ∧ u.find y = some (ry, oy) ∧
      ((rx = ry ∧ u' = u) ∨
       (rx ≠ ry ∧ u.rk rx < u.rk ry ∧ u' = u.link rx ry (-(ox - oy - inc)) false) ∨
       (rx ≠ ry ∧ ¬ u.rk rx < u.rk ry ∧ u' = u.link ry rx (ox - oy - inc) (u.rk rx == u.rk ry))) := by
  unfold union at h
  split at h
  · rename_i rx ox ry oy hx hy
    refine ⟨rx, ox, ry, oy, hx, hy, ?_⟩
    by_cases hr : rx = ry
    · simp only [hr, beq_self_eq_true, if_true, Option.some.injEq] at h
      exact Or.inl ⟨hr, h.symm⟩
    · have hne : (rx == ry) = false := by simpa using hr
      simp only [hne, Bool.false_eq_true, if_false] at h
      by_cases hk : u.rk rx < u.rk ry
      · simp only [hk, if_true, Option.some.injEq] at h
        exact Or.inr (Or.inl ⟨hr, hk, h.symm⟩)
      · simp only [hk, if_false, Option.some.injEq] at h
        exact Or.inr (Or.inr ⟨hr, hk, h.symm⟩)
  · simp at h

theorem union_of_finds {u : UF} {x y : Nat} {inc : Int} {rx ry : Nat} {ox oy : Int}
    (hx : u.find x = some (rx, ox)) (hy : u.find y = some (ry, oy)) :
    ∃ u', u.union x y inc = some u' := by
  unfold union
  rw [hx, hy]
  simp only
  split
  · exact ⟨_, rfl⟩
  · split <;> exact ⟨_, rfl⟩

/-- two pixels are in the same tree -/
def SameRoot (u : UF) (a b : Nat) : Prop :=
  ∃ r ta tb, u.find a = some (r, ta) ∧ u.find b = some (r, tb)

theorem SameRoot.symm {u : UF} {a b : Nat} (h : SameRoot u a b) : SameRoot u b a := by
  obtain ⟨r, ta, tb, h1, h2⟩ := h; exact ⟨r, tb, ta, h2, h1⟩

theorem SameRoot.trans {u : UF} {a b c : Nat} (h : SameRoot u a b) (h' : SameRoot u b c) :
    SameRoot u a c := by
  obtain ⟨r, ta, tb, h1, h2⟩ := h
  obtain ⟨r', tb', tc, h3, h4⟩ := h'
  rw [h2] at h3
  simp only [Option.some.injEq, Prod.mk.injEq] at h3
  obtain ⟨rfl, rfl⟩ := h3
  exact ⟨r, ta, tc, h1, h4⟩

theorem SameRoot.refl {u : UF} {N : Nat} (hwf : WF u N) {a : Nat} (ha : a < N) : SameRoot u a a := by
  obtain ⟨r, t, h⟩ := find_terminates hwf a ha
  exact ⟨r, t, t, h, h⟩

/-- an edge inside one tree (self-loop, duplicate edge, any cycle-closing edge) changes nothing -/
theorem union_sameRoot {u : UF} {x y : Nat} (inc : Int) (h : SameRoot u x y) :
    u.union x y inc = some u := by
  obtain ⟨r, tx, ty, hx, hy⟩ := h
  unfold union
  rw [hx, hy]
  simp

/-- Everything one `union` does, for pixels in range. -/
theorem union_step {u : UF} {N : Nat} (hwf : WF u N) {x y : Nat} (inc : Int) (hx : x < N) (hy : y < N) :
    ∃ u', u.union x y inc = some u' ∧ WF u' N ∧
      (∀ n : Nat → Int, Consistent u N n → inc = n x - n y → Consistent u' N n) ∧
      SameRoot u' x y ∧
      (∀ a b, a < N → b < N → SameRoot u a b → SameRoot u' a b) := by
  obtain ⟨rx, ox, hfx⟩ := find_terminates hwf x hx
  obtain ⟨ry, oy, hfy⟩ := find_terminates hwf y hy
  obtain ⟨u', hu'⟩ := union_of_finds (inc := inc) hfx hfy
  refine ⟨u', hu', ?_⟩
  obtain ⟨rx', ox', ry', oy', hfx', hfy', hcases⟩ := union_spec hu'
  rw [hfx] at hfx'; rw [hfy] at hfy'
  simp only [Option.some.injEq, Prod.mk.injEq] at hfx' hfy'
  obtain ⟨rfl, rfl⟩ := hfx'
  obtain ⟨rfl, rfl⟩ := hfy'
  obtain ⟨hrx, hprx⟩ := find_root hwf hx hfx
  obtain ⟨hry, hpry⟩ := find_root hwf hy hfy
  -- the general link step
  have key : ∀ (a b : Nat) (d : Int) (bump : Bool), a < N → b < N → a ≠ b → u.par a = a → u.par b = b →
      (if bump = true then u.rk a ≤ u.rk b else u.rk a < u.rk b) →
      ((rx = a ∧ ry = b) ∨ (rx = b ∧ ry = a)) →
      (∀ n : Nat → Int, Consistent u N n → inc = n x - n y → d = n a - n b) →
      u' = u.link a b d bump →
      WF u' N ∧
      (∀ n : Nat → Int, Consistent u N n → inc = n x - n y → Consistent u' N n) ∧
      SameRoot u' x y ∧
      (∀ p q, p < N → q < N → SameRoot u p q → SameRoot u' p q) := by
    intro a b d bump ha hb hab hpa hpb hr hwho hd hu
    subst hu
    have hfl := fun {z r : Nat} {t : Int} (hz : z < N) (h : u.find z = some (r, t)) =>
      find_link hwf d bump ha hb hab hpa hpb hr hz h
    refine ⟨link_wf hwf d bump ha hb hab hpa hpb hr, ?_, ?_, ?_⟩
    · intro n hc hinc
      rw [hd n hc hinc]
      exact link_consistent hwf hc bump ha
    · have h1 := hfl hx hfx
      have h2 := hfl hy hfy
      rcases hwho with ⟨rfl, rfl⟩ | ⟨rfl, rfl⟩
      · have hne : ¬ ry = rx := fun e => hab e.symm
        simp only [if_true, hne, if_false] at h1 h2
        exact ⟨_, _, _, h1, h2⟩
      · have hne : ¬ rx = ry := fun e => hab e.symm
        simp only [if_true, hne, if_false] at h1 h2
        exact ⟨_, _, _, h1, h2⟩
    · intro p q hp hq ⟨r, tp, tq, h1, h2⟩
      exact ⟨_, _, _, hfl hp h1, hfl hq h2⟩
  rcases hcases with ⟨hr, rfl⟩ | ⟨hne, hk, hu⟩ | ⟨hne, hk, hu⟩
  · exact ⟨hwf, fun _ hc _ => hc, ⟨rx, ox, oy, hfx, hr ▸ hfy⟩, fun _ _ _ _ h => h⟩
  · refine key rx ry _ false hrx hry hne hprx hpry (by simpa using hk) (Or.inl ⟨rfl, rfl⟩) ?_ hu
    intro n hc hinc
    have h1 := find_consistent hwf hc hx hfx
    have h2 := find_consistent hwf hc hy hfy
    omega
  · refine key ry rx _ (u.rk rx == u.rk ry) hry hrx (fun e => hne e.symm) hpry hprx ?_ (Or.inr ⟨rfl, rfl⟩) ?_ hu
    · by_cases he : u.rk rx = u.rk ry
      · simp [he]
      · have : (u.rk rx == u.rk ry) = false := by simpa using he
        simp only [this, Bool.false_eq_true, if_false]
        omega
    · intro n hc hinc
      have h1 := find_consistent hwf hc hx hfx
      have h2 := find_consistent hwf hc hy hfy
      omega

end UF

/-! ### all unions, in any order -/

open UF in
/-- **Union–find invariant** for any edge list, processed in the order given: the loop never
gets stuck (`unionAll` is `some`), the structure stays a rank-ordered forest, offsets stay
consistent with every integer field the edge increments are differences of, trees only ever
grow, and both ends of every processed edge end up in one tree. -/
theorem unionAll_spec {N : Nat} : ∀ (es : List Edge) (u : UF), WF u N →
    (∀ e ∈ es, e.i1 < N ∧ e.i2 < N) →
    ∃ u', unionAll u es = some u' ∧ WF u' N ∧
      (∀ n : Nat → Int, Consistent u N n → (∀ e ∈ es, e.inc = n e.i1 - n e.i2) → Consistent u' N n) ∧
      (∀ a b, a < N → b < N → SameRoot u a b → SameRoot u' a b) ∧
      (∀ e ∈ es, SameRoot u' e.i1 e.i2) := by
  intro es
  induction es with
  | nil =>
    intro u hwf _
    exact ⟨u, rfl, hwf, fun _ hc _ => hc, fun _ _ _ _ h => h, fun e he => by simp at he⟩
  | cons e es ih =>
    intro u hwf hin
    have he := hin e (by simp)
    obtain ⟨u1, hu1, hwf1, hc1, hs1, hp1⟩ := union_step hwf e.inc he.1 he.2
    obtain ⟨u2, hu2, hwf2, hc2, hp2, hs2⟩ := ih u1 hwf1 (fun e' he' => hin e' (by simp [he']))
    refine ⟨u2, ?_, hwf2, ?_, ?_, ?_⟩
    · simp [unionAll, hu1, hu2]
    · intro n hc hall
      exact hc2 n (hc1 n hc (hall e (by simp))) (fun e' he' => hall e' (by simp [he']))
    · intro a b ha hb h
      exact hp2 a b ha hb (hp1 a b ha hb h)
    · intro e' he'
      simp only [List.mem_cons] at he'
      rcases he' with rfl | he'
      · exact hp2 _ _ he.1 he.2 hs1
      · exact hs2 e' he'

/-! ### `_final_offsets` -/

theorem allSome_eq_some {α : Type} : ∀ (l : List (Option α)) (l' : List α),
    allSome l = some l' → l = l'.map some := by
  intro l
  induction l with
  | nil => intro l' h; simp [allSome] at h; simp [← h]
  | cons a rest ih =>
    intro l' h
    cases a with
    | none => simp [allSome] at h
    | some a =>
      simp only [allSome, Option.map_eq_some_iff] at h
      obtain ⟨r, hr, rfl⟩ := h
      simp [ih r hr]

theorem allSome_of_all {α : Type} : ∀ (l : List (Option α)), (∀ x ∈ l, ∃ a, x = some a) →
    ∃ l', allSome l = some l' := by
  intro l
  induction l with
  | nil => intro _; exact ⟨[], rfl⟩
  | cons a rest ih =>
    intro h
    obtain ⟨a', rfl⟩ := h a (by simp)
    obtain ⟨r, hr⟩ := ih (fun x hx => h x (by simp [hx]))
    exact ⟨a' :: r, by simp [allSome, hr]⟩

open UF in
theorem finalOffsets_spec {u : UF} {N : Nat} (hwf : WF u N) :
    ∃ incs, finalOffsets u = some incs ∧ incs.length = N ∧
      ∀ i, i < N → ∃ r, u.find i = some (r, incs.getD i 0) := by
  have hall : ∀ x ∈ (List.range u.parent.size).map (fun i => (u.find i).map (·.2)), ∃ a, x = some a := by
    intro x hx
    simp only [List.mem_map, List.mem_range] at hx
    obtain ⟨i, hi, rfl⟩ := hx
    rw [hwf.sp] at hi
    obtain ⟨r, t, h⟩ := find_terminates hwf i hi
    exact ⟨t, by simp [h]⟩
  obtain ⟨incs, hincs⟩ := allSome_of_all _ hall
  have hmap := allSome_eq_some _ _ hincs
  have hlen : incs.length = N := by
    have := congrArg List.length hmap
    simp [hwf.sp] at this
    exact this.symm
  refine ⟨incs, hincs, hlen, ?_⟩
  intro i hi
  obtain ⟨r, t, h⟩ := find_terminates hwf i hi
  refine ⟨r, ?_⟩
  have hget := congrArg (fun l => l[i]?) hmap
  simp only [List.getElem?_map, List.getElem?_range, hwf.sp, hi] at hget
  have hi' : i < incs.length := by omega
  simp [h, List.getElem?_eq_getElem hi'] at hget
  rw [h, List.getD_eq_getElem?_getD, List.getElem?_eq_getElem hi']
  simp [← hget]

end QuantemModel.Unwrap
