import QuantemModel.Lemmas.Aberration
import Mathlib.Analysis.SpecialFunctions.Complex.Arg
/-!
C12 — Cartesian basis expansion and polar ↔ Cartesian conversions of the translated code.
-/
namespace QuantemModel.Aberration
open QuantemModel QuantemModel.Generated.Aberration

theorem atan2_eq (y x : ℝ) : Num.atan2 y x = Complex.arg ⟨x, y⟩ := rfl

/-- read literal-keyed dicts with literal keys, unroll the label table -/
macro "dict_eval" : tactic =>
  `(tactic| simp only [envOfDict, lookupD, envOf, String.reduceEq, if_true, if_false, reduceIte,
      CARTESIAN_LABELS, List.map, dot])

theorem basis_expansion_chi (α φ lam : ℝ) (c : String → ℝ) :
    basisExpansion α φ lam (envOfDict (polar_to_cartesian_aberrations c)) = chi α φ lam c := by
  rw [← surface_eq_chi]
  simp only [basisExpansion]
  aberr_unfold
  dict_eval
  num_real
  push_cast
  simp only [one_mul, mul_sub, Real.cos_sub]
  ring

theorem basisExpansion_congr (α φ lam : ℝ) (e1 e2 : String → ℝ)
    (h : ∀ l ∈ CARTESIAN_LABELS, e1 l = e2 l) :
    basisExpansion α φ lam e1 = basisExpansion α φ lam e2 := by
  unfold basisExpansion
  rw [List.map_congr_left h]

theorem norm_mk (a b : ℝ) : ‖(⟨a, b⟩ : ℂ)‖ = √(a ^ 2 + b ^ 2) := by
  rw [Complex.norm_def, Complex.normSq_mk]; ring_nf

theorem sqrt_mul_cos_arg (a b m : ℝ) (hm : m ≠ 0) :
    √(a ^ 2 + b ^ 2) * Real.cos (m * (Complex.arg ⟨a, b⟩ / m)) = a := by
  rw [mul_div_cancel₀ _ hm, ← norm_mk]
  exact Complex.norm_mul_cos_arg ⟨a, b⟩

theorem sqrt_mul_sin_arg (a b m : ℝ) (hm : m ≠ 0) :
    √(a ^ 2 + b ^ 2) * Real.sin (m * (Complex.arg ⟨a, b⟩ / m)) = b := by
  rw [mul_div_cancel₀ _ hm, ← norm_mk]
  exact Complex.norm_mul_sin_arg ⟨a, b⟩

set_option maxHeartbeats 1600000 in
/-- Cartesian → polar → Cartesian is the identity on every one of the 25 labels, for all values. -/
theorem cart_polar_cart (c : String → ℝ) :
    ∀ l ∈ CARTESIAN_LABELS,
      envOfDict (polar_to_cartesian_aberrations (envOfDict (cartesian_to_polar_aberrations c))) l = c l := by
  intro l hl
  generalize hq : envOfDict (cartesian_to_polar_aberrations c) = q
  simp only [CARTESIAN_LABELS, List.mem_cons, List.not_mem_nil, or_false] at hl
  rcases hl with rfl | rfl | rfl | rfl | rfl | rfl | rfl | rfl | rfl | rfl | rfl | rfl | rfl | rfl | rfl |
    rfl | rfl | rfl | rfl | rfl | rfl | rfl | rfl | rfl | rfl <;>
  · simp only [polar_to_cartesian_aberrations]
    dict_eval
    subst hq
    simp only [cartesian_to_polar_aberrations]
    dict_eval
    all_goals
      num_real; simp only [atan2_eq]; push_cast
      first
        | exact sqrt_mul_cos_arg _ _ _ (by norm_num)
        | exact sqrt_mul_sin_arg _ _ _ (by norm_num)

/-- the polar form of the Cartesian form of `c` describes the same surface as `c` — for ALL real
coefficient values (negative C, angles outside the principal range included). -/
theorem surface_polar_cart_polar (α φ lam : ℝ) (c : String → ℝ) :
    aberration_surface α φ lam
      (envOfDict (cartesian_to_polar_aberrations (envOfDict (polar_to_cartesian_aberrations c))))
      = aberration_surface α φ lam c := by
  rw [surface_eq_chi, surface_eq_chi, ← basis_expansion_chi, ← basis_expansion_chi]
  exact basisExpansion_congr _ _ _ _ _ (cart_polar_cart _)

/-- the surface of any Cartesian coefficient set, converted to polar, is its basis expansion -/
theorem surface_of_cartesian (α φ lam : ℝ) (e : String → ℝ) :
    aberration_surface α φ lam (envOfDict (cartesian_to_polar_aberrations e)) = basisExpansion α φ lam e := by
  rw [surface_eq_chi, ← basis_expansion_chi]
  exact basisExpansion_congr _ _ _ _ _ (cart_polar_cart _)

theorem basisExpansion_add (α φ lam : ℝ) (e1 e2 e : String → ℝ)
    (h : ∀ l ∈ CARTESIAN_LABELS, e l = e1 l + e2 l) :
    basisExpansion α φ lam e = basisExpansion α φ lam e1 + basisExpansion α φ lam e2 := by
  rw [basisExpansion_congr α φ lam e (fun l => e1 l + e2 l) h]
  simp only [basisExpansion]
  aberr_unfold
  dict_eval
  num_real
  ring

set_option maxHeartbeats 1600000 in
/-- merging Cartesian deltas into polar coefficients adds the deltas' basis expansion to the surface -/
theorem merge_surface (α φ lam : ℝ) (init delta : String → ℝ) :
    aberration_surface α φ lam (envOfDict (merge_aberration_coefficients init delta))
      = aberration_surface α φ lam init + basisExpansion α φ lam delta := by
  simp only [merge_aberration_coefficients]
  rw [← envOfDict, surface_of_cartesian, surface_eq_chi, ← basis_expansion_chi]
  apply basisExpansion_add
  intro l hl
  simp only [CARTESIAN_LABELS, List.mem_cons, List.not_mem_nil, or_false] at hl
  rcases hl with rfl | rfl | rfl | rfl | rfl | rfl | rfl | rfl | rfl | rfl | rfl | rfl | rfl | rfl | rfl |
    rfl | rfl | rfl | rfl | rfl | rfl | rfl | rfl | rfl | rfl <;>
  · simp only [envOf, envOfDict, String.reduceEq, if_true, if_false, reduceIte, NumReal.add_eq]

theorem sqrt_polar (C θ : ℝ) (hC : 0 ≤ C) : √((C * Real.cos θ) ^ 2 + (C * Real.sin θ) ^ 2) = C := by
  have : (C * Real.cos θ) ^ 2 + (C * Real.sin θ) ^ 2 = C ^ 2 := by
    have := Real.sin_sq_add_cos_sq θ
    nlinarith [this]
  rw [this, Real.sqrt_sq hC]

theorem arg_polar (C θ : ℝ) (hC : 0 < C) (h1 : -Real.pi < θ) (h2 : θ ≤ Real.pi) :
    Complex.arg ⟨C * Real.cos θ, C * Real.sin θ⟩ = θ := by
  have h := Complex.arg_mul_cos_add_sin_mul_I hC (θ := θ) ⟨h1, h2⟩
  have e : (⟨C * Real.cos θ, C * Real.sin θ⟩ : ℂ) = (C : ℂ) * (Complex.cos θ + Complex.sin θ * Complex.I) := by
    apply Complex.ext <;>
      simp [Complex.cos_ofReal_re, Complex.sin_ofReal_re, Complex.cos_ofReal_im, Complex.sin_ofReal_im]
  rw [e]; exact h

/-- hypotheses of the polar → Cartesian → polar round trip for one table entry -/
def PrincipalAt (p : String → ℝ) (t : Nat × Nat × String × String) : Prop :=
  t.2.1 ≠ 0 → 0 < p t.2.2.1 ∧ -Real.pi < (t.2.1 : ℝ) * p t.2.2.2 ∧ (t.2.1 : ℝ) * p t.2.2.2 ≤ Real.pi

set_option maxHeartbeats 1600000 in
/-- polar → Cartesian → polar returns the coefficients themselves when every amplitude is positive
and every `m·φ_nm` lies in the principal range (−π, π]; round terms (m = 0) unconditionally. -/
theorem polar_cart_polar (p : String → ℝ) :
    ∀ t ∈ table, PrincipalAt p t →
      envOfDict (cartesian_to_polar_aberrations (envOfDict (polar_to_cartesian_aberrations p))) t.2.2.1 = p t.2.2.1 ∧
      (t.2.1 ≠ 0 →
        envOfDict (cartesian_to_polar_aberrations (envOfDict (polar_to_cartesian_aberrations p))) t.2.2.2 = p t.2.2.2) := by
  intro t ht hp
  generalize hq : envOfDict (polar_to_cartesian_aberrations p) = q
  simp only [table, List.mem_cons, List.not_mem_nil, or_false] at ht
  rcases ht with rfl | rfl | rfl | rfl | rfl | rfl | rfl | rfl | rfl | rfl | rfl | rfl | rfl | rfl <;>
  · simp only [PrincipalAt, ne_eq, OfNat.ofNat_ne_zero, not_false_eq_true, forall_const, not_true_eq_false,
      Nat.cast_ofNat, Nat.cast_one, one_mul, one_ne_zero, IsEmpty.forall_iff] at hp ⊢
    simp only [cartesian_to_polar_aberrations]
    dict_eval
    subst hq
    simp only [polar_to_cartesian_aberrations]
    dict_eval
    first
      | exact ⟨rfl, trivial⟩
      | exact ⟨trivial, trivial⟩
      | (num_real; simp only [atan2_eq]; push_cast
         obtain ⟨hC, h1, h2⟩ := hp
         refine ⟨sqrt_polar _ _ hC.le, ?_⟩
         rw [arg_polar _ _ hC (by simpa using h1) (by simpa using h2)]
         first | simp | (field_simp))

end QuantemModel.Aberration
