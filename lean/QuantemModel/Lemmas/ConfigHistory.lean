import QuantemModel.Model.ConfigHistory
import QuantemModel.Lemmas.Config
import QuantemModel.Lemmas.ConfigUpdate
/-! helper lemmas for the history theorems of C19 -/
namespace QuantemModel.Config

/-- two keys that no '-'/'_' respelling identifies -/
def Unrelated (a b : Key) : Prop := a ≠ b ∧ a ≠ altKey b ∧ altKey a ≠ b ∧ altKey a ≠ altKey b

/-- `get` looks at the top level of a dictionary only through the two spellings of the first
key -/
theorem get_congr_head (d d' : Dict) (k : Key) (rest : List Key)
    (h1 : dget d' k = dget d k) (h2 : dget d' (altKey k) = dget d (altKey k)) :
    Config.get d' (k :: rest) = Config.get d (k :: rest) := by
  have hc : canonicalName k d' = canonicalName k d := by
    unfold canonicalName dhas; rw [h1, h2]
  have hg : dget d' (canonicalName k d) = dget d (canonicalName k d) := by
    rcases canonicalName_mem k d with e | e <;> rw [e] <;> assumption
  rw [Config.get, Config.get, hc, hg]

theorem setItems_append (env : Env) (a b : List (Key × Tree)) : ∀ (cfg : Dict) (rec_ : List RecOp),
    setItems env cfg rec_ (a ++ b) =
      match setItems env cfg rec_ a with
      | (cfg', rec', .none) => setItems env cfg' rec' b
      | (cfg', rec', some e) => (cfg', rec', some e) := by
  induction a with
  | nil => intro cfg rec_; simp [setItems]
  | cons kv rest ih =>
    intro cfg rec_
    simp only [List.cons_append]
    rw [setItems, setItems]
    split
    · exact ih _ _
    · rfl

theorem updateP_get_frame (env : Env) (prio : Priority) (new : List (Key × Tree)) (old : Dict)
    (defs : Option Tree) (k : Key) (rest : List Key) (h : ∀ kv ∈ new, Unrelated kv.1 k) :
    Config.get (updateP env prio false old defs new).1 (k :: rest) = Config.get old (k :: rest) := by
  apply get_congr_head
  · exact update_frame env prio k new false old defs (fun kv hkv => ⟨(h kv hkv).1, (h kv hkv).2.2.1⟩)
  · exact update_frame env prio (altKey k) new false old defs
      (fun kv hkv => ⟨(h kv hkv).2.1, (h kv hkv).2.2.2⟩)

theorem updateDefaultsP_get_frame (env : Env) (s : State) (new : Dict) (k : Key) (rest : List Key)
    (h : ∀ kv ∈ new, Unrelated kv.1 k) :
    Config.get (updateDefaultsP env s new).1.config (k :: rest) = Config.get s.config (k :: rest) := by
  unfold updateDefaultsP
  cases h1 : normaliseTop env new with
  | error e => rfl
  | ok new' =>
    cases h2 : merge env s.defaults with
    | error e => rfl
    | ok cur =>
      simp only
      apply updateP_get_frame
      intro kv hkv
      have hk := normaliseTop_keys env new new' h1
      have : kv.1 ∈ new'.map (·.1) := List.mem_map.mpr ⟨kv, hkv, rfl⟩
      rw [hk] at this
      obtain ⟨kv0, hkv0, he⟩ := List.mem_map.mp this
      have := h kv0 hkv0
      rw [he] at this
      exact this

theorem refreshP_defaults (env : Env) (s : State) : (refreshP env s).1.defaults = s.defaults := rfl

theorem updateDefaultsP_defaults (env : Env) (s : State) (new : Dict) :
    s.defaults <+: (updateDefaultsP env s new).1.defaults := by
  unfold updateDefaultsP
  cases normaliseTop env new with
  | error e => exact List.prefix_refl _
  | ok new' =>
    cases merge env s.defaults with
    | error e => exact List.prefix_refl _
    | ok cur => exact List.prefix_append _ _

theorem hstep_defaults_prefix (env : Env) (s : State) (op : HOp) :
    s.defaults <+: (hstep env s op).defaults := by
  cases op with
  | set items => exact List.prefix_refl _
  | withBlock items =>
    rcases h : setItems env s.config [] items with ⟨cfg, rec_, e⟩
    cases e <;> simp [hstep, h]
  | updateDefaults new => exact updateDefaultsP_defaults env s new
  | refresh => exact List.prefix_refl _

/-- `refreshP` without an exception is `refresh` -/
theorem refreshP_go_ok (env : Env) : ∀ (ds : List Dict) (cfg cfg' : Dict),
    refreshP.go env cfg ds = (cfg', .none) →
    ds.foldlM (fun acc d => update env .new acc .none d) cfg = .ok cfg' := by
  intro ds
  induction ds with
  | nil => intro cfg cfg' h; simp [refreshP.go] at h; simp [h, pure, Except.pure]
  | cons d rest ih =>
    intro cfg cfg' h
    rw [refreshP.go] at h
    simp only [List.foldlM_cons, bind, Except.bind, update]
    split at h
    · rename_i c1 h1
      have := ih _ _ h
      simpa [update] using this
    · simp at h

end QuantemModel.Config
