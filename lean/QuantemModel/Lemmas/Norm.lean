import QuantemModel.Lemmas.Stretch
import QuantemModel.Model.Norm
/-!
Helper lemmas for C20 at ℝ: the carrier's comparisons/clip in Mathlib notation, the interval
map, min/max limits, and the per-class facts transported from `StretchSpec` to the
translator-generated definitions.
-/
namespace QuantemModel.NormLemmas
open QuantemModel QuantemModel.Norm QuantemModel.Generated.Stretch QuantemModel.StretchSpec

/-! ### carrier at ℝ -/

theorem feq_iff (a b : ℝ) : feq a b = true ↔ a = b := by
  unfold feq
  rw [Bool.and_eq_true, NumReal.leb_eq, NumReal.leb_eq]
  exact ⟨fun h => le_antisymm h.1 h.2, fun h => ⟨h.le, h.ge⟩⟩

theorem fne_iff (a b : ℝ) : fne a b = true ↔ a ≠ b := by
  unfold fne
  rw [Bool.not_eq_true', ← Bool.not_eq_true, feq_iff]

theorem leb_false_iff (a b : ℝ) : Num.leb a b = false ↔ b < a := by
  rw [← Bool.not_eq_true, NumReal.leb_eq, not_le]

theorem ltb_false_iff (a b : ℝ) : Num.ltb a b = false ↔ b ≤ a := by
  rw [← Bool.not_eq_true, NumReal.ltb_eq, not_lt]

theorem clip_eq (x : ℝ) : Num.clip x (Num.ofRat 0) (Num.ofRat 1) = clip01 x := by
  simp [Num.clip, NumReal.max_eq, NumReal.min_eq, clip01]

theorem clip_eq' (x : ℝ) : Num.clip x 0 1 = clip01 x := by
  simp [Num.clip, NumReal.max_eq, NumReal.min_eq, clip01]

theorem clip_eq'' (x : ℝ) : Num.clip x ((0 : Rat) : ℝ) ((1 : Rat) : ℝ) = clip01 x := by
  simp [Num.clip, NumReal.max_eq, NumReal.min_eq, clip01]

theorem isFiniteB_real (y : ℝ) : isFiniteB y = true := by
  unfold isFiniteB; rw [feq_iff]

/-! ### the interval map -/

theorem intervalFin_eq (vmin vmax x : ℝ) :
    intervalFin vmin vmax x =
      if vmax - vmin ≠ 0 then clip01 ((x - vmin) / (vmax - vmin)) else clip01 (x - vmin) := by
  unfold intervalFin
  by_cases h : vmax - vmin = 0
  · simp [fne_iff, clip_eq', h]
  · simp [fne_iff, clip_eq', h]

theorem intervalFin_mem (vmin vmax x : ℝ) : 0 ≤ intervalFin vmin vmax x ∧ intervalFin vmin vmax x ≤ 1 := by
  rw [intervalFin_eq]; split <;> exact ⟨clip01_nonneg _, clip01_le_one _⟩

theorem intervalFin_vmin {vmin vmax : ℝ} (h : vmin < vmax) : intervalFin vmin vmax vmin = 0 := by
  have hne : vmax - vmin ≠ 0 := (sub_pos.mpr h).ne'
  rw [intervalFin_eq, if_pos hne, sub_self, zero_div, clip01_zero]

theorem intervalFin_vmax {vmin vmax : ℝ} (h : vmin < vmax) : intervalFin vmin vmax vmax = 1 := by
  have hne : vmax - vmin ≠ 0 := (sub_pos.mpr h).ne'
  rw [intervalFin_eq, if_pos hne, div_self hne, clip01_one]

theorem intervalFin_mono {vmin vmax : ℝ} (h : vmin ≤ vmax) {x y : ℝ} (hxy : x ≤ y) :
    intervalFin vmin vmax x ≤ intervalFin vmin vmax y := by
  rw [intervalFin_eq, intervalFin_eq]
  by_cases hne : vmax - vmin ≠ 0
  · rw [if_pos hne, if_pos hne]
    have hpos : 0 < vmax - vmin := lt_of_le_of_ne (sub_nonneg.mpr h) (Ne.symm hne)
    exact clip01_mono (div_le_div_of_nonneg_right (by linarith) hpos.le)
  · rw [if_neg hne, if_neg hne]
    exact clip01_mono (by linarith)

/-- inverted limits reverse the order: why `vmin ≤ vmax` is a hypothesis of monotonicity -/
theorem intervalFin_antitone_of_inverted : intervalFin (1 : ℝ) 0 0 = 1 ∧ intervalFin (1 : ℝ) 0 1 = 0 := by
  constructor <;> (rw [intervalFin_eq]; norm_num [clip01])

/-! ### np.min / np.max of the finite values -/

theorem foldl_min_le (t : List ℝ) : ∀ x : ℝ,
    t.foldl (fun m y => if Num.ltb y m then y else m) x ≤ x ∧
    ∀ z ∈ t, t.foldl (fun m y => if Num.ltb y m then y else m) x ≤ z := by
  induction t with
  | nil => intro x; simp
  | cons a t ih =>
    intro x
    simp only [List.foldl_cons, List.mem_cons]
    by_cases h : a < x
    · have hb : Num.ltb a x = true := (NumReal.ltb_eq a x).mpr h
      rw [hb]; simp only [if_true]
      obtain ⟨h1, h2⟩ := ih a
      refine ⟨le_trans h1 h.le, ?_⟩
      rintro z (rfl | hz)
      · exact h1
      · exact h2 z hz
    · have hb : Num.ltb a x = false := by
        rw [← Bool.not_eq_true, NumReal.ltb_eq]; exact h
      rw [hb]; simp only [Bool.false_eq_true, if_false]
      obtain ⟨h1, h2⟩ := ih x
      refine ⟨h1, ?_⟩
      rintro z (rfl | hz)
      · exact le_trans h1 (not_lt.mp h)
      · exact h2 z hz

theorem foldl_max_ge (t : List ℝ) : ∀ x : ℝ,
    x ≤ t.foldl (fun m y => if Num.ltb m y then y else m) x ∧
    ∀ z ∈ t, z ≤ t.foldl (fun m y => if Num.ltb m y then y else m) x := by
  induction t with
  | nil => intro x; simp
  | cons a t ih =>
    intro x
    simp only [List.foldl_cons, List.mem_cons]
    by_cases h : x < a
    · have hb : Num.ltb x a = true := (NumReal.ltb_eq x a).mpr h
      rw [hb]; simp only [if_true]
      obtain ⟨h1, h2⟩ := ih a
      refine ⟨le_trans h.le h1, ?_⟩
      rintro z (rfl | hz)
      · exact h1
      · exact h2 z hz
    · have hb : Num.ltb x a = false := by
        rw [← Bool.not_eq_true, NumReal.ltb_eq]; exact h
      rw [hb]; simp only [Bool.false_eq_true, if_false]
      obtain ⟨h1, h2⟩ := ih x
      refine ⟨h1, ?_⟩
      rintro z (rfl | hz)
      · exact le_trans (not_lt.mp h) h1
      · exact h2 z hz

theorem minL_le {f : List ℝ} {m : ℝ} (h : minL f = some m) : ∀ z ∈ f, m ≤ z := by
  cases f with
  | nil => simp [minL] at h
  | cons x t =>
    simp only [minL, Option.some.injEq] at h
    subst h
    intro z hz
    rcases List.mem_cons.mp hz with rfl | hz
    · exact (foldl_min_le t _).1
    · exact (foldl_min_le t x).2 z hz

theorem le_maxL {f : List ℝ} {M : ℝ} (h : maxL f = some M) : ∀ z ∈ f, z ≤ M := by
  cases f with
  | nil => simp [maxL] at h
  | cons x t =>
    simp only [maxL, Option.some.injEq] at h
    subst h
    intro z hz
    rcases List.mem_cons.mp hz with rfl | hz
    · exact (foldl_max_ge t _).1
    · exact (foldl_max_ge t x).2 z hz

theorem mem_finiteVals {x : ℝ} {d : List (Ext ℝ)} (h : Ext.fin x ∈ d) : x ∈ finiteVals d := by
  induction d with
  | nil => cases h
  | cons a t ih =>
    rcases List.mem_cons.mp h with e | ht
    · subst e; simp [finiteVals]
    · cases a <;> simp [finiteVals, ih ht]

/-! ### admissible stretches -/

/-- parameters inside the quantifier: `power > 0`, `a > 0`; the linear stretch only as the default
(the only one `CustomNormalization` builds) -/
def Admissible : Stretch ℝ → Prop
  | .linear s => s.slope = 1 ∧ s.intercept = 0
  | .power s => 0 < s.power
  | .log s => 0 < s.a
  | .invlog s => 0 < s.a
  | .asinh s => 0 < s.a
  | .sinh s => 0 < s.a

/-! ### generated bodies = closed forms -/

theorem linear_call_eq (s : LinearStretch ℝ) (x : ℝ) : s.call x = linearS s.slope s.intercept x := by
  unfold LinearStretch.call linearS
  by_cases h1 : s.slope = 1 <;> by_cases h2 : s.intercept = 0 <;>
    simp [feq_iff, fne_iff, clip_eq', h1, h2, mul_comm]

theorem power_call_eq (s : PowerLawStretch ℝ) (x : ℝ) : s.call x = powerS s.power x := by
  unfold PowerLawStretch.call powerS
  by_cases h : s.power = 1 <;> simp [feq_iff, clip_eq', h]

theorem log_call_eq (s : LogarithmicStretch ℝ) (x : ℝ) : s.call x = logS s.a x := by
  unfold LogarithmicStretch.call logS
  simp [clip_eq', mul_comm]

theorem invlog_call_eq (s : InverseLogarithmicStretch ℝ) (x : ℝ) : s.call x = invlogS s.a x := by
  unfold InverseLogarithmicStretch.call invlogS
  simp [clip_eq']

theorem asinh_call_eq (s : InverseHyperbolicSineStretch ℝ) (x : ℝ) : s.call x = asinhS s.a x := by
  unfold InverseHyperbolicSineStretch.call asinhS
  simp [clip_eq', mul_comm]

theorem sinh_call_eq (s : HyperbolicSineStretch ℝ) (x : ℝ) : s.call x = sinhS s.a x := by
  unfold HyperbolicSineStretch.call sinhS
  simp only [clip_eq'', NumReal.sub_eq, NumReal.mul_eq, NumReal.div_eq, NumReal.add_eq, NumReal.sinh_eq,
    NumReal.ofRat_eq]
  have e : (clip01 x - ((1 / 2 : Rat) : ℝ)) * ((2 : Rat) : ℝ) = 2 * clip01 x - 1 := by
    push_cast; ring
  rw [e]
  push_cast
  ring_nf

end QuantemModel.NormLemmas
