import QuantemModel.Lemmas.Stretch
import QuantemModel.Model.Norm
import Mathlib.Tactic.SplitIfs
import Mathlib.Tactic.NormNum
/-!
Helper lemmas for C20 at ℝ: the carrier's comparisons/clip in Mathlib notation, the interval
map, min/max limits, and the per-class facts transported from `StretchSpec` to the
translator-generated definitions.
-/
namespace QuantemModel.NormLemmas
open QuantemModel QuantemModel.Norm QuantemModel.Generated.Stretch QuantemModel.StretchSpec

/-! ### carrier at ℝ -/

theorem feq_iff (a b : ℝ) : feq a b = true ↔ a = b := by
  unfold feq
  rw [Bool.and_eq_true, NumReal.leb_eq, NumReal.leb_eq]
  exact ⟨fun h => le_antisymm h.1 h.2, fun h => ⟨h.le, h.ge⟩⟩

theorem fne_iff (a b : ℝ) : fne a b = true ↔ a ≠ b := by
  unfold fne
  rw [Bool.not_eq_true', ← Bool.not_eq_true, feq_iff]

theorem leb_false_iff (a b : ℝ) : Num.leb a b = false ↔ b < a := by
  rw [← Bool.not_eq_true, NumReal.leb_eq, not_le]

theorem ltb_false_iff (a b : ℝ) : Num.ltb a b = false ↔ b ≤ a := by
  rw [← Bool.not_eq_true, NumReal.ltb_eq, not_lt]

theorem clip_eq (x : ℝ) : Num.clip x (Num.ofRat 0) (Num.ofRat 1) = clip01 x := by
  simp [Num.clip, NumReal.max_eq, NumReal.min_eq, clip01]

theorem clip_eq' (x : ℝ) : Num.clip x 0 1 = clip01 x := by
  simp [Num.clip, NumReal.max_eq, NumReal.min_eq, clip01]

theorem clip_eq'' (x : ℝ) : Num.clip x ((0 : Rat) : ℝ) ((1 : Rat) : ℝ) = clip01 x := by
  simp [Num.clip, NumReal.max_eq, NumReal.min_eq, clip01]

theorem isFiniteB_real (y : ℝ) : isFiniteB y = true := by
  unfold isFiniteB; rw [feq_iff]

/-! ### shape-independent tie tactics

`Generated/Stretch.lean` is rewritten from the source on every run, so the proofs that tie it to the closed forms
must not depend on the SHAPE of the generated terms: the carrier operations are rewritten into Mathlib notation, the
parameter comparisons are split, and commutative-ring normalisation (`ring_nf`, also inside the arguments of
log/exp/sinh/arsinh) decides. -/

set_option linter.unusedTactic false
set_option linter.unreachableTactic false
set_option linter.unnecessarySeqFocus false

/-- carrier operations at ℝ in Mathlib notation -/
macro "carrier_simp" : tactic => `(tactic|
  simp only [clip_eq, clip_eq', clip_eq'', NumReal.add_eq, NumReal.mul_eq, NumReal.sub_eq, NumReal.div_eq,
    NumReal.neg_eq, NumReal.ofRat_eq, NumReal.log_eq, NumReal.exp_eq, NumReal.sinh_eq, NumReal.asinh_eq,
    NumReal.rpow_eq, NumReal.sqrt_eq, NumReal.max_eq, NumReal.min_eq, NumReal.leb_eq, NumReal.ltb_eq,
    feq_iff, fne_iff, leb_false_iff, ltb_false_iff, Bool.and_eq_true, Bool.or_eq_true, Bool.not_eq_true',
    Bool.not_eq_eq_eq_not, Bool.not_true, Bool.not_false, Bool.true_and, Bool.and_true, decide_eq_true_eq,
    if_true, if_false, Bool.false_eq_true, Bool.ite_eq_true_distrib])

/-- `generated term = closed form`, whatever the shape of the generated term -/
macro "stretch_tie" : tactic => `(tactic|
  ((try carrier_simp) <;> (try push_cast) <;> (try split_ifs) <;> (try simp_all) <;> (try ring_nf) <;>
    (try (field_simp <;> ring_nf))))

/-! ### the interval map -/

/-- the traced `BaseInterval.__call__` body is the affine map + clip -/
theorem intervalFin_eq (vmin vmax x : ℝ) :
    intervalFin vmin vmax x =
      if vmax - vmin ≠ 0 then clip01 ((x - vmin) / (vmax - vmin)) else clip01 (x - vmin) := by
  unfold intervalFin baseIntervalCall
  stretch_tie

/-- the traced `BaseInterval.inverse` body -/
theorem intervalInverse_eq (vmin vmax y : ℝ) : intervalInverse vmin vmax y = y * (vmax - vmin) + vmin := by
  unfold intervalInverse baseIntervalInverse
  stretch_tie

theorem intervalFin_mem (vmin vmax x : ℝ) : 0 ≤ intervalFin vmin vmax x ∧ intervalFin vmin vmax x ≤ 1 := by
  rw [intervalFin_eq]; split <;> exact ⟨clip01_nonneg _, clip01_le_one _⟩

theorem intervalFin_vmin {vmin vmax : ℝ} (h : vmin < vmax) : intervalFin vmin vmax vmin = 0 := by
  have hne : vmax - vmin ≠ 0 := (sub_pos.mpr h).ne'
  rw [intervalFin_eq, if_pos hne, sub_self, zero_div, clip01_zero]

theorem intervalFin_vmax {vmin vmax : ℝ} (h : vmin < vmax) : intervalFin vmin vmax vmax = 1 := by
  have hne : vmax - vmin ≠ 0 := (sub_pos.mpr h).ne'
  rw [intervalFin_eq, if_pos hne, div_self hne, clip01_one]

theorem intervalFin_mono {vmin vmax : ℝ} (h : vmin ≤ vmax) {x y : ℝ} (hxy : x ≤ y) :
    intervalFin vmin vmax x ≤ intervalFin vmin vmax y := by
  rw [intervalFin_eq, intervalFin_eq]
  by_cases hne : vmax - vmin ≠ 0
  · rw [if_pos hne, if_pos hne]
    have hpos : 0 < vmax - vmin := lt_of_le_of_ne (sub_nonneg.mpr h) (Ne.symm hne)
    exact clip01_mono (div_le_div_of_nonneg_right (by linarith) hpos.le)
  · rw [if_neg hne, if_neg hne]
    exact clip01_mono (by linarith)

/-- inverted limits reverse the order: why `vmin ≤ vmax` is a hypothesis of monotonicity -/
theorem intervalFin_antitone_of_inverted : intervalFin (1 : ℝ) 0 0 = 1 ∧ intervalFin (1 : ℝ) 0 1 = 0 := by
  constructor <;> (rw [intervalFin_eq]; norm_num [clip01])

/-! ### np.min / np.max of the finite values -/

theorem foldl_min_le (t : List ℝ) : ∀ x : ℝ,
    t.foldl (fun m y => if Num.ltb y m then y else m) x ≤ x ∧
    ∀ z ∈ t, t.foldl (fun m y => if Num.ltb y m then y else m) x ≤ z := by
  induction t with
  | nil => intro x; simp
  | cons a t ih =>
    intro x
    simp only [List.foldl_cons, List.mem_cons]
    by_cases h : a < x
    · have hb : Num.ltb a x = true := (NumReal.ltb_eq a x).mpr h
      rw [hb]; simp only [if_true]
      obtain ⟨h1, h2⟩ := ih a
      refine ⟨le_trans h1 h.le, ?_⟩
      rintro z (rfl | hz)
      · exact h1
      · exact h2 z hz
    · have hb : Num.ltb a x = false := by
        rw [← Bool.not_eq_true, NumReal.ltb_eq]; exact h
      rw [hb]; simp only [Bool.false_eq_true, if_false]
      obtain ⟨h1, h2⟩ := ih x
      refine ⟨h1, ?_⟩
      rintro z (rfl | hz)
      · exact le_trans h1 (not_lt.mp h)
      · exact h2 z hz

theorem foldl_max_ge (t : List ℝ) : ∀ x : ℝ,
    x ≤ t.foldl (fun m y => if Num.ltb m y then y else m) x ∧
    ∀ z ∈ t, z ≤ t.foldl (fun m y => if Num.ltb m y then y else m) x := by
  induction t with
  | nil => intro x; simp
  | cons a t ih =>
    intro x
    simp only [List.foldl_cons, List.mem_cons]
    by_cases h : x < a
    · have hb : Num.ltb x a = true := (NumReal.ltb_eq x a).mpr h
      rw [hb]; simp only [if_true]
      obtain ⟨h1, h2⟩ := ih a
      refine ⟨le_trans h.le h1, ?_⟩
      rintro z (rfl | hz)
      · exact h1
      · exact h2 z hz
    · have hb : Num.ltb x a = false := by
        rw [← Bool.not_eq_true, NumReal.ltb_eq]; exact h
      rw [hb]; simp only [Bool.false_eq_true, if_false]
      obtain ⟨h1, h2⟩ := ih x
      refine ⟨h1, ?_⟩
      rintro z (rfl | hz)
      · exact le_trans (not_lt.mp h) h1
      · exact h2 z hz

theorem minL_le {f : List ℝ} {m : ℝ} (h : minL f = some m) : ∀ z ∈ f, m ≤ z := by
  cases f with
  | nil => simp [minL] at h
  | cons x t =>
    simp only [minL, Option.some.injEq] at h
    subst h
    intro z hz
    rcases List.mem_cons.mp hz with rfl | hz
    · exact (foldl_min_le t _).1
    · exact (foldl_min_le t x).2 z hz

theorem le_maxL {f : List ℝ} {M : ℝ} (h : maxL f = some M) : ∀ z ∈ f, z ≤ M := by
  cases f with
  | nil => simp [maxL] at h
  | cons x t =>
    simp only [maxL, Option.some.injEq] at h
    subst h
    intro z hz
    rcases List.mem_cons.mp hz with rfl | hz
    · exact (foldl_max_ge t _).1
    · exact (foldl_max_ge t x).2 z hz

theorem mem_finiteVals {x : ℝ} {d : List (Ext ℝ)} (h : Ext.fin x ∈ d) : x ∈ finiteVals d := by
  induction d with
  | nil => cases h
  | cons a t ih =>
    rcases List.mem_cons.mp h with e | ht
    · subst e; simp [finiteVals]
    · cases a <;> simp [finiteVals, ih ht]

/-! ### admissible stretches -/

/-- parameters inside the quantifier: `power > 0`, `a > 0`; the linear stretch only as the default
(the only one `CustomNormalization` builds) -/
def Admissible : Stretch ℝ → Prop
  | .linear s => s.slope = 1 ∧ s.intercept = 0
  | .power s => 0 < s.power
  | .log s => 0 < s.a
  | .invlog s => 0 < s.a
  | .asinh s => 0 < s.a
  | .sinh s => 0 < s.a

/-! ### generated bodies = closed forms

`Generated/Stretch.lean` is rewritten from the source on every run, so these proofs must not depend on
the SHAPE of the generated terms: the carrier operations are rewritten into Mathlib notation, the
parameter comparisons are split, and commutative-ring normalisation (`ring_nf`, also inside the
arguments of log/exp/sinh/arsinh) decides.  A behaviour-preserving rewrite of a `__call__` body
(re-associated / commuted arithmetic, `2x - 1` for `(x - 1/2)·2`, a reciprocal for a division, another
nesting of the parameter tests) keeps them proving; a changed formula does not. -/

theorem linear_call_eq (s : LinearStretch ℝ) (x : ℝ) : s.call x = linearS s.slope s.intercept x := by
  unfold LinearStretch.call linearS
  stretch_tie

theorem power_call_eq (s : PowerLawStretch ℝ) (x : ℝ) : s.call x = powerS s.power x := by
  unfold PowerLawStretch.call powerS
  stretch_tie

theorem log_call_eq (s : LogarithmicStretch ℝ) (x : ℝ) : s.call x = logS s.a x := by
  unfold LogarithmicStretch.call logS
  stretch_tie

theorem invlog_call_eq (s : InverseLogarithmicStretch ℝ) (x : ℝ) : s.call x = invlogS s.a x := by
  unfold InverseLogarithmicStretch.call invlogS
  stretch_tie

theorem asinh_call_eq (s : InverseHyperbolicSineStretch ℝ) (x : ℝ) : s.call x = asinhS s.a x := by
  unfold InverseHyperbolicSineStretch.call asinhS
  stretch_tie

theorem sinh_call_eq (s : HyperbolicSineStretch ℝ) (x : ℝ) : s.call x = sinhS s.a x := by
  unfold HyperbolicSineStretch.call sinhS
  stretch_tie

/-! ### the declared inverses and the construction guards, as traced -/

theorem linear_inverse_eq (s : LinearStretch ℝ) : s.inverse = ⟨1 / s.slope, -s.intercept / s.slope⟩ := by
  unfold LinearStretch.inverse
  congr 1 <;> stretch_tie

theorem power_inverse_eq (s : PowerLawStretch ℝ) : s.inverse = ⟨1 / s.power⟩ := by
  unfold PowerLawStretch.inverse
  congr 1 <;> stretch_tie

theorem log_inverse_eq (s : LogarithmicStretch ℝ) : s.inverse = (⟨s.a⟩ : InverseLogarithmicStretch ℝ) := by
  unfold LogarithmicStretch.inverse
  first | rfl | (congr 1 <;> stretch_tie)

theorem invlog_inverse_eq (s : InverseLogarithmicStretch ℝ) : s.inverse = (⟨s.a⟩ : LogarithmicStretch ℝ) := by
  unfold InverseLogarithmicStretch.inverse
  first | rfl | (congr 1 <;> stretch_tie)

theorem asinh_inverse_eq (s : InverseHyperbolicSineStretch ℝ) :
    s.inverse = (⟨1 / Real.arsinh (1 / s.a)⟩ : HyperbolicSineStretch ℝ) := by
  unfold InverseHyperbolicSineStretch.inverse
  congr 1 <;> stretch_tie

theorem sinh_inverse_eq (s : HyperbolicSineStretch ℝ) :
    s.inverse = (⟨1 / Real.sinh (1 / s.a)⟩ : InverseHyperbolicSineStretch ℝ) := by
  unfold HyperbolicSineStretch.inverse
  congr 1 <;> stretch_tie

theorem linear_valid (s : LinearStretch ℝ) : s.valid = true := by
  unfold LinearStretch.valid; first | rfl | stretch_tie

theorem power_valid_iff (s : PowerLawStretch ℝ) : s.valid = true ↔ 0 < s.power := by
  unfold PowerLawStretch.valid; stretch_tie

theorem log_valid_iff (s : LogarithmicStretch ℝ) : s.valid = true ↔ 0 < s.a := by
  unfold LogarithmicStretch.valid; stretch_tie

theorem invlog_valid_iff (s : InverseLogarithmicStretch ℝ) : s.valid = true ↔ 0 < s.a := by
  unfold InverseLogarithmicStretch.valid; stretch_tie

theorem asinh_valid_iff (s : InverseHyperbolicSineStretch ℝ) : s.valid = true ↔ 0 < s.a := by
  unfold InverseHyperbolicSineStretch.valid; stretch_tie

theorem sinh_valid_iff (s : HyperbolicSineStretch ℝ) : s.valid = true ↔ 0 < s.a := by
  unfold HyperbolicSineStretch.valid; stretch_tie

theorem linear_default_eq : (LinearStretch.default : LinearStretch ℝ) = ⟨1, 0⟩ := by
  unfold LinearStretch.default
  congr 1 <;> stretch_tie

end QuantemModel.NormLemmas
