import QuantemModel.Lemmas.Radon
/-!
C07 — symmetries of the modelled Radon transform: idempotence of the disc mask, transpose /
reflection of the bilinear primitive, rotation of the image by 90° = shift of the sinogram
by 90° in angle.
-/
namespace QuantemModel.Radon
open QuantemModel QuantemModel.NumReal

theorem bilinear_transpose (f : Int → Int → ℝ) (r c : ℝ) :
    bilinear f r c = bilinear (fun i j => f j i) c r := by
  unfold bilinear; simp; ring

theorem bilinear_reflect_row (f : Int → Int → ℝ) (K : ℤ) (u v : ℝ) :
    bilinear f ((K : ℝ) - u) v = bilinear (fun i j => f (K - i) j) u v := by
  have hle : ((⌊u⌋ : ℤ) : ℝ) ≤ u := Int.floor_le u
  have hlt : u < ((⌊u⌋ : ℤ) : ℝ) + 1 := Int.lt_floor_add_one u
  by_cases hd : u = ((⌊u⌋ : ℤ) : ℝ)
  · have hfl : ⌊(K : ℝ) - u⌋ = K - ⌊u⌋ := by
      rw [hd, ← Int.cast_sub, Int.floor_intCast, Int.floor_intCast]
    unfold bilinear
    simp only [floor_eq, hfl, sub_eq, add_eq, mul_eq, one_eq, ofInt_eq]
    push_cast
    have : u - ((⌊u⌋ : ℤ) : ℝ) = 0 := by linarith
    have h2 : (K : ℝ) - u - ((K : ℝ) - ((⌊u⌋ : ℤ) : ℝ)) = 0 := by linarith
    rw [this, h2]
    ring
  · have hlt' : ((⌊u⌋ : ℤ) : ℝ) < u := lt_of_le_of_ne hle (Ne.symm hd)
    have hfl : ⌊(K : ℝ) - u⌋ = K - ⌊u⌋ - 1 := by
      rw [Int.floor_eq_iff]
      push_cast
      constructor <;> linarith
    unfold bilinear
    simp only [floor_eq, hfl, sub_eq, add_eq, mul_eq, one_eq, ofInt_eq]
    have e1 : K - ⌊u⌋ - 1 + 1 = K - ⌊u⌋ := by ring
    have e2 : K - (⌊u⌋ + 1) = K - ⌊u⌋ - 1 := by ring
    rw [e1, e2]
    push_cast
    ring

/-- the image rotated by 90° about the rotation centre `(N//2, N//2)` -/
def rot90 (N : Nat) (f : Int → Int → ℝ) : Int → Int → ℝ :=
  fun r c => f (2 * ((N / 2 : Nat) : ℤ) - c) r

theorem deg2rad_add_90 (θ : ℝ) : deg2rad (θ + 90) = deg2rad θ + Real.pi / 2 := by
  unfold deg2rad; simp; ring

theorem skCoord_add_90 (N : Nat) (θ : ℝ) (x y : Nat) :
    skCoord N (θ + 90) x y
      = ((2 * ((N / 2 : Nat) : ℤ) : ℤ) - (skCoord N θ x y).2, (skCoord N θ x y).1) := by
  unfold skCoord
  generalize N / 2 = m
  simp only [deg2rad_add_90, cos_eq, sin_eq, Real.cos_add_pi_div_two, Real.sin_add_pi_div_two, mul_eq, add_eq,
    sub_eq, neg_eq, one_eq, ofNat_eq, Prod.mk.injEq]
  push_cast
  constructor <;> ring

/-- the Radon transform at `θ + 90°` is the transform at `θ` of the image rotated by 90° about
the centre: the sinogram of the rotated image is the sinogram shifted by 90° in angle. -/
theorem radonSkAt_add_90 (f : Int → Int → ℝ) (N : Nat) (θ : ℝ) (x : Nat) :
    radonSkAt f N (θ + 90) x = radonSkAt (rot90 N f) N θ x := by
  unfold radonSkAt
  congr 1
  apply List.map_congr_left
  intro y _
  rw [skCoord_add_90]
  simp only []
  rw [bilinear_reflect_row, bilinear_transpose]
  rfl

theorem radonTorchAt_masked (f : Int → Int → ℝ) (N : Nat) (θ : ℝ) (x : Nat) :
    radonTorchAt (masked f N) N θ x = radonTorchAt f N θ x := by
  unfold radonTorchAt; rw [masked_masked]

theorem inDisc_rot90_odd (N : Nat) (hodd : N % 2 = 1) (r c : ℤ) :
    inDisc N (2 * ((N / 2 : Nat) : ℤ) - c) r = inDisc N r c := by
  unfold inDisc
  have h2 : 2 * ((N / 2 : Nat) : ℤ) = (N : ℤ) - 1 := by omega
  rw [h2]
  generalize ((N / 2 : Nat) : ℤ) = m at *
  apply decide_eq_decide.mpr
  have e : ((N : ℤ) - 1 - c - m) * ((N : ℤ) - 1 - c - m) = (c - m) * (c - m) := by
    have : (N : ℤ) - 1 - c - m = -(c - m) := by omega
    rw [this]; ring
  constructor
  · rintro ⟨a1, a2, a3, a4, a5⟩
    refine ⟨a3, a4, by omega, by omega, ?_⟩
    rw [e] at a5; linarith
  · rintro ⟨a1, a2, a3, a4, a5⟩
    refine ⟨by omega, by omega, a1, a2, ?_⟩
    rw [e]; linarith

theorem masked_rot90_odd (N : Nat) (hodd : N % 2 = 1) (f : Int → Int → ℝ) :
    masked (rot90 N f) N = rot90 N (masked f N) := by
  funext r c
  unfold masked rot90
  simp only [inDisc_rot90_odd N hodd]

theorem inDisc_rot90_even_counter : inDisc 2 1 0 = true ∧ inDisc 2 (2 * ((2 / 2 : Nat) : ℤ) - 0) 1 = false := by
  decide


/-- torch port at `θ + 90°`: the reference transform at `θ` of the rotated masked image … -/
theorem radonTorchAt_add_90 (f : Int → Int → ℝ) (N : Nat) (hN : 2 ≤ N) (θ : ℝ) (x : Nat) :
    radonTorchAt f N (θ + 90) x = radonSkAt (rot90 N (masked f N)) N θ x := by
  rw [radonTorchAt_eq_sk f N hN, radonSkAt_add_90]

/-- … which for odd `N` (mask invariant under the rotation) is the torch transform of the
rotated image. -/
theorem radonTorchAt_add_90_odd (f : Int → Int → ℝ) (N : Nat) (hN : 2 ≤ N) (hodd : N % 2 = 1) (θ : ℝ) (x : Nat) :
    radonTorchAt f N (θ + 90) x = radonTorchAt (rot90 N f) N θ x := by
  rw [radonTorchAt_add_90 f N hN, radonTorchAt_eq_sk (rot90 N f) N hN, masked_rot90_odd N hodd]

end QuantemModel.Radon
