import QuantemModel.Lemmas.ConstraintsHistory
/-!
Growth round 5: several live models of one class (each owns its constraints dictionary), histories that
contain REJECTED calls, and the probe model as a state machine with its validation branches.
-/
namespace QuantemModel.Constraints
open QuantemModel

variable {V : Type}

/-! ### the setter with an invalid key: the entries before it stay assigned -/

theorem applyAdds_append (d : CDict V) (a b : List (String × V)) :
    applyAdds d (a ++ b) = applyAdds (applyAdds d a) b := by
  simp [applyAdds, List.foldl_append]

theorem setConstraints_fst (allowed : List String) (items : List (String × V)) : ∀ (d : CDict V),
    (setConstraints allowed d items).1 = applyAdds d (effectiveItems allowed items) := by
  induction items with
  | nil => intro d; simp [setConstraints, effectiveItems, applyAdds]
  | cons p rest ih =>
    intro d
    obtain ⟨k, v⟩ := p
    by_cases hk : k ∈ allowed
    · simp only [setConstraints, addConstraint, hk, if_true, effectiveItems]
      rw [ih]
      simp [applyAdds]
    · simp [setConstraints, addConstraint, hk, effectiveItems, applyAdds]

theorem setConstraints_snd (allowed : List String) (items : List (String × V)) : ∀ (d : CDict V),
    ((setConstraints allowed d items).2 = none ↔ ∀ kv ∈ items, kv.1 ∈ allowed) := by
  induction items with
  | nil => intro d; simp [setConstraints]
  | cons p rest ih =>
    intro d
    obtain ⟨k, v⟩ := p
    by_cases hk : k ∈ allowed
    · simp only [setConstraints, addConstraint, hk, if_true]
      rw [ih]
      simp [hk]
    · simp [setConstraints, addConstraint, hk]

/-! ### one model seen alone -/

/-- the assignments a history really makes to model `j`: valid `add_constraint`s addressed to `j`, and of every
`constraints = {...}` / reset-to-defaults addressed to `j` the entries before its first invalid key -/
def writesTo (allowed : List String) (defaults : CDict V) (j : Nat) : List (RegOp V) → List (String × V)
  | [] => []
  | .new :: rest => writesTo allowed defaults j rest
  | .add i k v :: rest =>
      (if i = j ∧ k ∈ allowed then [(k, v)] else []) ++ writesTo allowed defaults j rest
  | .set i items :: rest =>
      (if i = j then effectiveItems allowed items else []) ++ writesTo allowed defaults j rest
  | .resetDefaults i :: rest =>
      (if i = j then effectiveItems allowed defaults else []) ++ writesTo allowed defaults j rest

theorem runDict_eq_applyAdds (allowed : List String) (defaults : CDict V) (j : Nat)
    (ops : List (RegOp V)) : ∀ (d : CDict V),
    runDict allowed defaults j d ops = applyAdds d (writesTo allowed defaults j ops) := by
  induction ops with
  | nil => intro d; simp [runDict, writesTo, applyAdds]
  | cons op rest ih =>
    intro d
    have hstep : runDict allowed defaults j d (op :: rest)
        = runDict allowed defaults j (dictStep allowed defaults j d op) rest := by
      simp [runDict]
    rw [hstep, ih]
    cases op with
    | new => simp [dictStep, writesTo]
    | add i k v =>
      simp only [writesTo, applyAdds_append]
      by_cases hi : i = j
      · by_cases hk : k ∈ allowed
        · simp [dictStep, addConstraint, hi, hk, applyAdds]
        · simp [dictStep, addConstraint, hi, hk, applyAdds]
      · simp [dictStep, hi, applyAdds]
    | set i items =>
      simp only [writesTo, applyAdds_append]
      by_cases hi : i = j
      · simp [dictStep, hi, setConstraints_fst]
      · simp [dictStep, hi, applyAdds]
    | resetDefaults i =>
      simp only [writesTo, applyAdds_append]
      by_cases hi : i = j
      · simp [dictStep, hi, setConstraints_fst]
      · simp [dictStep, hi, applyAdds]

/-! ### the registry: a step acts on position `j` exactly as `dictStep j` -/

theorem regStep_length_le (allowed : List String) (defaults : CDict V) (reg : Registry V) (op : RegOp V) :
    reg.length ≤ (regStep allowed defaults reg op).1.length := by
  cases op with
  | new => simp [regStep]
  | add i k v =>
    simp only [regStep]
    cases reg[i]? with
    | none => simp
    | some d =>
      simp only
      cases addConstraint allowed d k v <;> simp
  | set i items =>
    simp only [regStep]
    cases reg[i]? <;> simp
  | resetDefaults i =>
    simp only [regStep]
    cases reg[i]? <;> simp

theorem regStep_getElem? (allowed : List String) (defaults : CDict V) (reg : Registry V) (op : RegOp V)
    (j : Nat) (hj : j < reg.length) :
    (regStep allowed defaults reg op).1[j]? = (reg[j]?).map (fun d => dictStep allowed defaults j d op) := by
  have hsome : reg[j]? = some reg[j] := List.getElem?_eq_getElem hj
  cases op with
  | new =>
    simp only [regStep, dictStep]
    rw [List.getElem?_append_left hj]
    simp
  | add i k v =>
    simp only [regStep, dictStep]
    by_cases hi : i = j
    · subst hi
      rw [hsome]
      simp only [Option.map_some, if_true]
      cases addConstraint allowed reg[i] k v with
      | ok d' => simp [List.getElem?_set_self hj]
      | error e => simp [hsome]
    · cases hri : reg[i]? with
      | none => simp [hi]
      | some d =>
        simp only [hi, if_false]
        cases addConstraint allowed d k v with
        | ok d' => simp [List.getElem?_set_ne hi]
        | error e => simp
  | set i items =>
    simp only [regStep, dictStep]
    by_cases hi : i = j
    · subst hi
      rw [hsome]
      simp [List.getElem?_set_self hj]
    · cases hri : reg[i]? with
      | none => simp [hi]
      | some d => simp [hi, List.getElem?_set_ne hi]
  | resetDefaults i =>
    simp only [regStep, dictStep]
    by_cases hi : i = j
    · subst hi
      rw [hsome]
      simp [List.getElem?_set_self hj]
    · cases hri : reg[i]? with
      | none => simp [hi]
      | some d => simp [hi, List.getElem?_set_ne hi]

theorem runReg_getElem? (allowed : List String) (defaults : CDict V) (ops : List (RegOp V)) (j : Nat) :
    ∀ (reg : Registry V), j < reg.length →
      (runReg allowed defaults reg ops)[j]? = (reg[j]?).map (fun d => runDict allowed defaults j d ops) := by
  induction ops with
  | nil => intro reg _; simp [runReg, runDict]
  | cons op rest ih =>
    intro reg hj
    have hstep : runReg allowed defaults reg (op :: rest)
        = runReg allowed defaults (regStep allowed defaults reg op).1 rest := by simp [runReg]
    rw [hstep, ih _ (Nat.lt_of_lt_of_le hj (regStep_length_le allowed defaults reg op)),
      regStep_getElem? allowed defaults reg op j hj]
    cases reg[j]? with
    | none => simp
    | some d => simp [runDict]

/-! ### the probe model: rejected calls change nothing, the weights are the last accepted request -/

variable {R : Type} [Num R]

theorem probeStep_rejected (st : ProbeModel R) (op : ProbeOp R) (e : PErr)
    (h : (probeStep st op).2 = some e) : (probeStep st op).1 = st := by
  cases op with
  | setWeights w =>
    cases w with
    | none => simp [probeStep] at h
    | some w =>
      simp only [probeStep] at h ⊢
      split at h <;> simp_all
  | setInitial roi m ramps =>
    simp only [probeStep] at h ⊢
    split
    · rfl
    · split
      · rfl
      · rename_i h1 h2; simp [h1, h2] at h
  | setProbe p =>
    simp only [probeStep] at h ⊢
    split
    · rename_i h1; simp [h1] at h
    · rfl
  | reset => simp [probeStep] at h

theorem probeStep_numProbes (st : ProbeModel R) (op : ProbeOp R) :
    (probeStep st op).1.numProbes = st.numProbes ∧ (probeStep st op).1.roi = st.roi := by
  cases op with
  | setWeights w =>
    cases w with
    | none => simp [probeStep]
    | some w => simp only [probeStep]; split <;> simp
  | setInitial roi m ramps =>
    simp only [probeStep]
    split
    · simp
    · split <;> simp
  | setProbe p => simp only [probeStep]; split <;> simp
  | reset => simp [probeStep]

theorem runProbeOps_weights (ops : List (ProbeOp R)) : ∀ (st : ProbeModel R),
    (runProbeOps st ops).weights = lastAcceptedWeights st.numProbes st.weights ops ∧
    (runProbeOps st ops).numProbes = st.numProbes ∧ (runProbeOps st ops).roi = st.roi := by
  induction ops with
  | nil => intro st; simp [runProbeOps, lastAcceptedWeights]
  | cons op rest ih =>
    intro st
    have hstep : runProbeOps st (op :: rest) = runProbeOps (probeStep st op).1 rest := by
      simp [runProbeOps]
    obtain ⟨hn, hr⟩ := probeStep_numProbes st op
    rw [hstep]
    obtain ⟨h1, h2, h3⟩ := ih (probeStep st op).1
    refine ⟨?_, by rw [h2, hn], by rw [h3, hr]⟩
    rw [h1, hn]
    cases op with
    | setWeights w =>
      cases w with
      | none => simp [probeStep, lastAcceptedWeights]
      | some w =>
        simp only [probeStep, lastAcceptedWeights]
        split <;> simp
    | setInitial roi m ramps =>
      simp only [probeStep, lastAcceptedWeights]
      split
      · rfl
      · split <;> rfl
    | setProbe p => simp only [probeStep, lastAcceptedWeights]; split <;> rfl
    | reset => simp [probeStep, lastAcceptedWeights]

theorem runProbeOps_snoc (st : ProbeModel R) (ops : List (ProbeOp R)) (op : ProbeOp R) :
    runProbeOps st (ops ++ [op]) = (probeStep (runProbeOps st ops) op).1 := by
  simp [runProbeOps, List.foldl_append]

end QuantemModel.Constraints
