import QuantemModel.Real.NumReal
import QuantemModel.Generated.Stretch
import Mathlib.Analysis.SpecialFunctions.Trigonometric.DerivHyp
import Mathlib.Tactic.Linarith
import Mathlib.Tactic.Ring
import Mathlib.Tactic.FieldSimp
import Mathlib.Tactic.Positivity
/-!
Closed forms (the docstring formulas) of the six stretches over ℝ and their properties.
`Props/C20.lean` ties the translator-generated bodies to these (`generated_eq_spec`).
-/
namespace QuantemModel.StretchSpec
open Real

/-- `np.clip(x, 0, 1)` -/
noncomputable def clip01 (x : ℝ) : ℝ := min (max x 0) 1

theorem clip01_nonneg (x : ℝ) : 0 ≤ clip01 x := le_min (le_max_right _ _) zero_le_one
theorem clip01_le_one (x : ℝ) : clip01 x ≤ 1 := min_le_right _ _
theorem clip01_mono {x y : ℝ} (h : x ≤ y) : clip01 x ≤ clip01 y :=
  min_le_min (max_le_max h le_rfl) le_rfl
theorem clip01_of_mem {x : ℝ} (h0 : 0 ≤ x) (h1 : x ≤ 1) : clip01 x = x := by
  unfold clip01; rw [max_eq_left h0, min_eq_left h1]
@[simp] theorem clip01_zero : clip01 0 = 0 := clip01_of_mem le_rfl zero_le_one
@[simp] theorem clip01_one : clip01 1 = 1 := clip01_of_mem zero_le_one le_rfl
theorem clip01_clip01 (x : ℝ) : clip01 (clip01 x) = clip01 x :=
  clip01_of_mem (clip01_nonneg x) (clip01_le_one x)

/-! ### closed forms -/

/-- `LinearStretch`: identity short-cut, else `slope * clip(x) + intercept` -/
noncomputable def linearS (slope intercept x : ℝ) : ℝ :=
  if slope = 1 ∧ intercept = 0 then x else slope * clip01 x + intercept
/-- `PowerLawStretch`: identity short-cut for `power = 1`, else `clip(x) ^ power` -/
noncomputable def powerS (p x : ℝ) : ℝ := if p = 1 then x else clip01 x ^ p
/-- `LogarithmicStretch`: `log(a x + 1) / log(a + 1)` -/
noncomputable def logS (a x : ℝ) : ℝ := Real.log (a * clip01 x + 1) / Real.log (a + 1)
/-- `InverseLogarithmicStretch`: `(exp(x log(a + 1)) - 1) / a` -/
noncomputable def invlogS (a x : ℝ) : ℝ := (Real.exp (clip01 x * Real.log (a + 1)) - 1) / a
/-- `InverseHyperbolicSineStretch`: `asinh((2x - 1)/a) / (2 asinh(1/a)) + 1/2` -/
noncomputable def asinhS (a x : ℝ) : ℝ :=
  Real.arsinh ((2 * clip01 x - 1) / a) / (2 * Real.arsinh (1 / a)) + 1 / 2
/-- `HyperbolicSineStretch`: `sinh((2x - 1)/a) / (2 sinh(1/a)) + 1/2` -/
noncomputable def sinhS (a x : ℝ) : ℝ :=
  Real.sinh ((2 * clip01 x - 1) / a) / (2 * Real.sinh (1 / a)) + 1 / 2

/-! ### power law -/

theorem powerS_mem {p x : ℝ} (hp : 0 < p) (h0 : 0 ≤ x) (h1 : x ≤ 1) : 0 ≤ powerS p x ∧ powerS p x ≤ 1 := by
  unfold powerS
  split
  · exact ⟨h0, h1⟩
  · exact ⟨Real.rpow_nonneg (clip01_nonneg x) p, Real.rpow_le_one (clip01_nonneg x) (clip01_le_one x) hp.le⟩
theorem powerS_zero {p : ℝ} (hp : 0 < p) : powerS p 0 = 0 := by
  unfold powerS; split
  · rfl
  · rw [clip01_zero, Real.zero_rpow hp.ne']
theorem powerS_one (p : ℝ) : powerS p 1 = 1 := by
  unfold powerS; split
  · rfl
  · rw [clip01_one, Real.one_rpow]
theorem powerS_mono {p : ℝ} (hp : 0 < p) {x y : ℝ} (h : x ≤ y) : powerS p x ≤ powerS p y := by
  unfold powerS; split
  · exact h
  · exact Real.rpow_le_rpow (clip01_nonneg x) (clip01_mono h) hp.le
theorem powerS_inverse {p y : ℝ} (hp : 0 < p) (h0 : 0 ≤ y) (h1 : y ≤ 1) : powerS p (powerS (1 / p) y) = y := by
  by_cases h : p = 1
  · subst h; simp [powerS]
  · have h' : (1 / p) ≠ 1 := by
      intro e; apply h
      have := congrArg (fun t => t * p) e
      simpa [hp.ne'] using this.symm
    unfold powerS
    rw [if_neg h, if_neg h', clip01_of_mem h0 h1]
    have hm := powerS_mem (p := 1 / p) (by positivity) h0 h1
    unfold powerS at hm
    rw [if_neg h', clip01_of_mem h0 h1] at hm
    rw [clip01_of_mem hm.1 hm.2, ← Real.rpow_mul h0, one_div, inv_mul_cancel₀ hp.ne', Real.rpow_one]

/-! ### logarithmic / inverse logarithmic -/

theorem log_a1_pos {a : ℝ} (ha : 0 < a) : 0 < Real.log (a + 1) := Real.log_pos (by linarith)

theorem logS_mem {a : ℝ} (ha : 0 < a) (x : ℝ) : 0 ≤ logS a x ∧ logS a x ≤ 1 := by
  have hL := log_a1_pos ha
  have hc0 := clip01_nonneg x
  have hc1 := clip01_le_one x
  have h1 : 1 ≤ a * clip01 x + 1 := by nlinarith
  have h2 : a * clip01 x + 1 ≤ a + 1 := by nlinarith
  unfold logS
  constructor
  · exact div_nonneg (Real.log_nonneg h1) hL.le
  · rw [div_le_one hL]
    exact Real.log_le_log (by linarith) h2
theorem logS_zero (a : ℝ) : logS a 0 = 0 := by simp [logS]
theorem logS_one {a : ℝ} (ha : 0 < a) : logS a 1 = 1 := by
  unfold logS; rw [clip01_one, mul_one]; exact div_self (log_a1_pos ha).ne'
theorem logS_mono {a : ℝ} (ha : 0 < a) {x y : ℝ} (h : x ≤ y) : logS a x ≤ logS a y := by
  unfold logS
  have hc := clip01_mono h
  have hx := clip01_nonneg x
  apply div_le_div_of_nonneg_right _ (log_a1_pos ha).le
  apply Real.log_le_log
  · nlinarith
  · nlinarith

theorem invlogS_mem {a : ℝ} (ha : 0 < a) (x : ℝ) : 0 ≤ invlogS a x ∧ invlogS a x ≤ 1 := by
  have hL := log_a1_pos ha
  have hc0 := clip01_nonneg x
  have hc1 := clip01_le_one x
  have he0 : 1 ≤ Real.exp (clip01 x * Real.log (a + 1)) := Real.one_le_exp (mul_nonneg hc0 hL.le)
  have he1 : Real.exp (clip01 x * Real.log (a + 1)) ≤ a + 1 := by
    calc Real.exp (clip01 x * Real.log (a + 1)) ≤ Real.exp (Real.log (a + 1)) := by
          apply Real.exp_le_exp.mpr; nlinarith
      _ = a + 1 := Real.exp_log (by linarith)
  unfold invlogS
  constructor
  · exact div_nonneg (by linarith) ha.le
  · rw [div_le_one ha]; linarith
theorem invlogS_zero (a : ℝ) : invlogS a 0 = 0 := by simp [invlogS]
theorem invlogS_one {a : ℝ} (ha : 0 < a) : invlogS a 1 = 1 := by
  unfold invlogS
  rw [clip01_one, one_mul, Real.exp_log (by linarith)]
  field_simp
  ring
theorem invlogS_mono {a : ℝ} (ha : 0 < a) {x y : ℝ} (h : x ≤ y) : invlogS a x ≤ invlogS a y := by
  unfold invlogS
  apply div_le_div_of_nonneg_right _ ha.le
  have : Real.exp (clip01 x * Real.log (a + 1)) ≤ Real.exp (clip01 y * Real.log (a + 1)) :=
    Real.exp_le_exp.mpr (mul_le_mul_of_nonneg_right (clip01_mono h) (log_a1_pos ha).le)
  linarith

theorem logS_invlogS {a y : ℝ} (ha : 0 < a) (h0 : 0 ≤ y) (h1 : y ≤ 1) : logS a (invlogS a y) = y := by
  have hm := invlogS_mem ha y
  have hL := log_a1_pos ha
  unfold logS
  rw [clip01_of_mem hm.1 hm.2]
  unfold invlogS
  rw [clip01_of_mem h0 h1, mul_div_cancel₀ _ ha.ne', sub_add_cancel, Real.log_exp, mul_div_assoc, div_self hL.ne', mul_one]

theorem invlogS_logS {a y : ℝ} (ha : 0 < a) (h0 : 0 ≤ y) (h1 : y ≤ 1) : invlogS a (logS a y) = y := by
  have hm := logS_mem ha y
  have hL := log_a1_pos ha
  unfold invlogS
  rw [clip01_of_mem hm.1 hm.2]
  unfold logS
  rw [clip01_of_mem h0 h1, div_mul_cancel₀ _ hL.ne', Real.exp_log (by nlinarith), add_sub_cancel_right,
    mul_div_cancel_left₀ _ ha.ne']

/-! ### asinh / sinh -/

theorem arsinh_inv_pos {a : ℝ} (ha : 0 < a) : 0 < Real.arsinh (1 / a) :=
  Real.arsinh_pos_iff.mpr (by positivity)
theorem sinh_inv_pos {a : ℝ} (ha : 0 < a) : 0 < Real.sinh (1 / a) :=
  Real.sinh_pos_iff.mpr (by positivity)

/-- `(2c - 1)/a ∈ [-1/a, 1/a]` for `c ∈ [0, 1]` -/
theorem arg_bounds {a : ℝ} (ha : 0 < a) (x : ℝ) :
    -(1 / a) ≤ (2 * clip01 x - 1) / a ∧ (2 * clip01 x - 1) / a ≤ 1 / a := by
  have hc0 := clip01_nonneg x
  have hc1 := clip01_le_one x
  constructor
  · rw [← neg_div]; exact div_le_div_of_nonneg_right (by linarith) ha.le
  · exact div_le_div_of_nonneg_right (by linarith) ha.le

theorem asinhS_mem {a : ℝ} (ha : 0 < a) (x : ℝ) : 0 ≤ asinhS a x ∧ asinhS a x ≤ 1 := by
  have hA := arsinh_inv_pos ha
  obtain ⟨hl, hu⟩ := arg_bounds ha x
  have h1 : -Real.arsinh (1 / a) ≤ Real.arsinh ((2 * clip01 x - 1) / a) := by
    rw [← Real.arsinh_neg]; exact Real.arsinh_le_arsinh.mpr hl
  have h2 : Real.arsinh ((2 * clip01 x - 1) / a) ≤ Real.arsinh (1 / a) := Real.arsinh_le_arsinh.mpr hu
  have h2A : 0 < 2 * Real.arsinh (1 / a) := by linarith
  unfold asinhS
  constructor
  · have : -(1 / 2) ≤ Real.arsinh ((2 * clip01 x - 1) / a) / (2 * Real.arsinh (1 / a)) := by
      rw [le_div_iff₀ h2A]; linarith
    linarith
  · have : Real.arsinh ((2 * clip01 x - 1) / a) / (2 * Real.arsinh (1 / a)) ≤ 1 / 2 := by
      rw [div_le_iff₀ h2A]; linarith
    linarith
theorem asinhS_zero {a : ℝ} (ha : 0 < a) : asinhS a 0 = 0 := by
  have hA := arsinh_inv_pos ha
  unfold asinhS
  rw [clip01_zero]
  have : (2 * (0 : ℝ) - 1) / a = -(1 / a) := by ring
  rw [this, Real.arsinh_neg]
  field_simp
  ring
theorem asinhS_one {a : ℝ} (ha : 0 < a) : asinhS a 1 = 1 := by
  have hA := arsinh_inv_pos ha
  unfold asinhS
  rw [clip01_one]
  have : (2 * (1 : ℝ) - 1) / a = 1 / a := by ring
  rw [this]
  field_simp
  ring
theorem asinhS_mono {a : ℝ} (ha : 0 < a) {x y : ℝ} (h : x ≤ y) : asinhS a x ≤ asinhS a y := by
  have hA := arsinh_inv_pos ha
  unfold asinhS
  have hc := clip01_mono h
  have : Real.arsinh ((2 * clip01 x - 1) / a) ≤ Real.arsinh ((2 * clip01 y - 1) / a) :=
    Real.arsinh_le_arsinh.mpr (div_le_div_of_nonneg_right (by linarith) ha.le)
  have := div_le_div_of_nonneg_right this (by linarith : (0 : ℝ) ≤ 2 * Real.arsinh (1 / a))
  linarith

theorem sinhS_mem {a : ℝ} (ha : 0 < a) (x : ℝ) : 0 ≤ sinhS a x ∧ sinhS a x ≤ 1 := by
  have hS := sinh_inv_pos ha
  obtain ⟨hl, hu⟩ := arg_bounds ha x
  have h1 : -Real.sinh (1 / a) ≤ Real.sinh ((2 * clip01 x - 1) / a) := by
    rw [← Real.sinh_neg]; exact Real.sinh_le_sinh.mpr hl
  have h2 : Real.sinh ((2 * clip01 x - 1) / a) ≤ Real.sinh (1 / a) := Real.sinh_le_sinh.mpr hu
  have h2S : 0 < 2 * Real.sinh (1 / a) := by linarith
  unfold sinhS
  constructor
  · have : -(1 / 2) ≤ Real.sinh ((2 * clip01 x - 1) / a) / (2 * Real.sinh (1 / a)) := by
      rw [le_div_iff₀ h2S]; linarith
    linarith
  · have : Real.sinh ((2 * clip01 x - 1) / a) / (2 * Real.sinh (1 / a)) ≤ 1 / 2 := by
      rw [div_le_iff₀ h2S]; linarith
    linarith
theorem sinhS_zero {a : ℝ} (ha : 0 < a) : sinhS a 0 = 0 := by
  have hS := sinh_inv_pos ha
  unfold sinhS
  rw [clip01_zero]
  have : (2 * (0 : ℝ) - 1) / a = -(1 / a) := by ring
  rw [this, Real.sinh_neg]
  field_simp
  ring
theorem sinhS_one {a : ℝ} (ha : 0 < a) : sinhS a 1 = 1 := by
  have hS := sinh_inv_pos ha
  unfold sinhS
  rw [clip01_one]
  have : (2 * (1 : ℝ) - 1) / a = 1 / a := by ring
  rw [this]
  field_simp
  ring
theorem sinhS_mono {a : ℝ} (ha : 0 < a) {x y : ℝ} (h : x ≤ y) : sinhS a x ≤ sinhS a y := by
  have hS := sinh_inv_pos ha
  unfold sinhS
  have hc := clip01_mono h
  have : Real.sinh ((2 * clip01 x - 1) / a) ≤ Real.sinh ((2 * clip01 y - 1) / a) :=
    Real.sinh_le_sinh.mpr (div_le_div_of_nonneg_right (by linarith) ha.le)
  have := div_le_div_of_nonneg_right this (by linarith : (0 : ℝ) ≤ 2 * Real.sinh (1 / a))
  linarith

/-- the inverse `InverseHyperbolicSineStretch(a)` declares is `HyperbolicSineStretch(1/asinh(1/a))` -/
theorem asinhS_sinhS_declared {a y : ℝ} (ha : 0 < a) (h0 : 0 ≤ y) (h1 : y ≤ 1) :
    asinhS a (sinhS (1 / Real.arsinh (1 / a)) y) = y := by
  have hA := arsinh_inv_pos ha
  have hb : 0 < 1 / Real.arsinh (1 / a) := by positivity
  have hm := sinhS_mem hb y
  unfold asinhS
  rw [clip01_of_mem hm.1 hm.2]
  unfold sinhS
  rw [clip01_of_mem h0 h1, one_div_one_div, Real.sinh_arsinh]
  have e1 : (2 * (Real.sinh ((2 * y - 1) / (1 / Real.arsinh (1 / a))) / (2 * (1 / a)) + 1 / 2) - 1) / a
      = Real.sinh ((2 * y - 1) * Real.arsinh (1 / a)) := by
    rw [div_div_eq_mul_div, div_one]; field_simp; ring
  rw [e1, Real.arsinh_sinh]
  field_simp
  ring

/-- the inverse `HyperbolicSineStretch(a)` declares is `InverseHyperbolicSineStretch(1/sinh(1/a))` -/
theorem sinhS_asinhS_declared {a y : ℝ} (ha : 0 < a) (h0 : 0 ≤ y) (h1 : y ≤ 1) :
    sinhS a (asinhS (1 / Real.sinh (1 / a)) y) = y := by
  have hS := sinh_inv_pos ha
  have hb : 0 < 1 / Real.sinh (1 / a) := by positivity
  have hm := asinhS_mem hb y
  unfold sinhS
  rw [clip01_of_mem hm.1 hm.2]
  unfold asinhS
  rw [clip01_of_mem h0 h1, one_div_one_div, Real.arsinh_sinh]
  have e1 : (2 * (Real.arsinh ((2 * y - 1) / (1 / Real.sinh (1 / a))) / (2 * (1 / a)) + 1 / 2) - 1) / a
      = Real.arsinh ((2 * y - 1) * Real.sinh (1 / a)) := by
    rw [div_div_eq_mul_div, div_one]; field_simp; ring
  rw [e1, Real.sinh_arsinh]
  field_simp
  ring

/-! ### linear (the only instance CustomNormalization can build is the default) -/

theorem linearS_default (x : ℝ) : linearS 1 0 x = x := by simp [linearS]

/-- the true inverse statement for a general `LinearStretch`: it needs `(y - intercept)/slope ∈ [0, 1]` -/
theorem linearS_inverse {s i y : ℝ} (hs : s ≠ 0) (h0 : 0 ≤ (y - i) / s) (h1 : (y - i) / s ≤ 1)
    (hy0 : 0 ≤ y) (hy1 : y ≤ 1) : linearS s i (linearS (1 / s) (-i / s) y) = y := by
  have hinner : linearS (1 / s) (-i / s) y = (y - i) / s := by
    unfold linearS
    split
    · rename_i h
      obtain ⟨h1s, h2s⟩ := h
      have hs1 : s = 1 := by
        have := congrArg (fun t => t * s) h1s
        simpa [hs] using this.symm
      subst hs1
      have hi : i = 0 := by simpa using h2s
      subst hi; simp
    · rw [clip01_of_mem hy0 hy1]; field_simp; ring
  rw [hinner]
  unfold linearS
  split
  · rename_i h; obtain ⟨rfl, rfl⟩ := h; simp
  · rw [clip01_of_mem h0 h1]; field_simp; ring

end QuantemModel.StretchSpec
