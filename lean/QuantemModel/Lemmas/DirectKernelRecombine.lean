import QuantemModel.Lemmas.DirectKernel
/-!
C04: the whole model restricted to a sub-mask is the `subProblem` of the whole model of the construction mask —
the factors of a bright-field pixel are a function of the detector pixel alone (by construction of `geometryOf`).
-/
namespace QuantemModel.DirectPtycho
open QuantemModel

/-- `submask_recombine` of Props/C04.lean, as a lemma (same proof) -/
theorem submask_recombine_core (F : Fourier ℝ) (k : Kernel) (hk : k.twoPass = false) (pb : Problem ℝ)
    (hlen : ∀ s, (singlePassValue F pb s).length = pb.rows * pb.cols)
    (A B S : List Nat) (hS : (A ++ B).Perm S) (WA WB WS : ℝ) (hA : WA ≠ 0) (hB : WB ≠ 0) (hW : WS ≠ 0)
    (sA sB sS : List (List Nat))
    (hsA : sA.flatten.Perm (List.range A.length)) (hsB : sB.flatten.Perm (List.range B.length))
    (hsS : sS.flatten.Perm (List.range S.length)) :
    addI (smulI WA (correctedBf (pb.rows * pb.cols) (reconstruct F k (subProblem pb A WA) sA)))
         (smulI WB (correctedBf (pb.rows * pb.cols) (reconstruct F k (subProblem pb B WB) sB))) =
      smulI WS (correctedBf (pb.rows * pb.cols) (reconstruct F k (subProblem pb S WS) sS)) := by
  rw [bf_subProblem F k hk pb A WA hA sA hsA, bf_subProblem F k hk pb B WB hB sB hsB,
    bf_subProblem F k hk pb S WS hW sS hsS]
  rw [← sumImgs_append _ _ _ (by
    intro x hx
    obtain ⟨s, _, rfl⟩ := List.mem_map.mp hx
    rw [length_rawItem, hlen]), ← List.map_append]
  exact sumImgs_perm (hS.map _) _

/-- the detector pixels of the stack rows `m` -/
def pixOf (pixAll : List (Nat × Nat)) (m : List Nat) : List (Nat × Nat) := m.map fun a => pixAll.getD a (0, 0)

theorem reconstructFull_sub (F : Fourier ℝ) (g : KGeom ℝ) (k : Kernel) (hk : k.twoPass = false)
    (pixAll : List (Nat × Nat)) (m : List Nat) (hm : ∀ a ∈ m, a < pixAll.length) (stack : List (Img ℝ))
    (sched : List (List Nat)) (hs : sched.flatten.Perm (List.range m.length)) :
    reconstructFull F g k (pixOf pixAll m) m stack sched =
      reconstruct F k (subProblem (problemOfStack F (geometryOf g k pixAll (List.range pixAll.length)) stack) m
        (bfWeights g (pixOf pixAll m))) sched := by
  have hnd : sched.flatten.Nodup := hs.nodup_iff.mpr List.nodup_range
  unfold reconstructFull
  rw [reconstruct_eq F k _ sched hnd, reconstruct_eq F k _ sched hnd]
  have hn : (problemOfStack F (geometryOf g k (pixOf pixAll m) m) stack).n = m.length := by
    simp [problemOfStack, geometryOf]
  have hn' : (subProblem (problemOfStack F (geometryOf g k pixAll (List.range pixAll.length)) stack) m
      (bfWeights g (pixOf pixAll m))).n = m.length := by simp [subProblem]
  rw [hn, hn']
  apply List.map_congr_left
  intro i hi
  have hi' : i < m.length := List.mem_range.mp hi
  have ha : m[i] < pixAll.length := hm _ (List.getElem_mem hi')
  by_cases hmem : i ∈ sched.flatten
  · simp only [hmem, if_true]
    congr 1
    simp [itemValue, hk, finish, singlePassValue, subProblem, problemOfStack, geometryOf, numerator, pixOf, hi', ha]
  · simp [hmem]

theorem submask_recombine_full_aux (F : Fourier ℝ) (g : KGeom ℝ) (k : Kernel) (hk : k.twoPass = false)
    (pixAll : List (Nat × Nat)) (stack : List (Img ℝ))
    (hlen : ∀ s, (singlePassValue F (problemOfStack F (geometryOf g k pixAll (List.range pixAll.length)) stack) s).length =
      (g.u * g.scanRows) * (g.u * g.scanCols))
    (A B S : List Nat) (hS : (A ++ B).Perm S) (hA' : ∀ a ∈ A, a < pixAll.length) (hB' : ∀ a ∈ B, a < pixAll.length)
    (hA : bfWeights g (pixOf pixAll A) ≠ 0) (hB : bfWeights g (pixOf pixAll B) ≠ 0) (hW : bfWeights g (pixOf pixAll S) ≠ 0)
    (sA sB sS : List (List Nat))
    (hsA : sA.flatten.Perm (List.range A.length)) (hsB : sB.flatten.Perm (List.range B.length))
    (hsS : sS.flatten.Perm (List.range S.length)) :
    addI (smulI (bfWeights g (pixOf pixAll A))
            (correctedBf ((g.u * g.scanRows) * (g.u * g.scanCols)) (reconstructFull F g k (pixOf pixAll A) A stack sA)))
         (smulI (bfWeights g (pixOf pixAll B))
            (correctedBf ((g.u * g.scanRows) * (g.u * g.scanCols)) (reconstructFull F g k (pixOf pixAll B) B stack sB))) =
      smulI (bfWeights g (pixOf pixAll S))
        (correctedBf ((g.u * g.scanRows) * (g.u * g.scanCols)) (reconstructFull F g k (pixOf pixAll S) S stack sS)) := by
  have hS' : ∀ a ∈ S, a < pixAll.length := by
    intro a ha
    rcases List.mem_append.mp (hS.mem_iff.mpr ha) with h | h
    · exact hA' a h
    · exact hB' a h
  rw [reconstructFull_sub F g k hk pixAll A hA' stack sA hsA, reconstructFull_sub F g k hk pixAll B hB' stack sB hsB,
    reconstructFull_sub F g k hk pixAll S hS' stack sS hsS]
  exact submask_recombine_core F k hk (problemOfStack F (geometryOf g k pixAll (List.range pixAll.length)) stack) hlen
    A B S hS _ _ _ hA hB hW sA sB sS hsA hsB hsS

end QuantemModel.DirectPtycho
