/-
Helper lemmas for C18.  Part A is carrier independent (no arithmetic laws: it also holds at
binary64): the batched scatter loop computes every pattern exactly once, whatever the batch
size; the numpy paths are the same map.  Part B (ℝ) identifies the grid formulation with the
index formulation of the weighted mean.
-/
import QuantemModel.Model.Origin
import QuantemModel.Lemmas.Batcher

namespace QuantemModel.Origin
open QuantemModel QuantemModel.Batcher

/-! ### Part A: batching and scatter (any carrier) -/

section Generic
variable {α β : Type}

theorem scatter_map (out : List (Option β)) (idx : List Nat) (f : Nat → β) :
    scatter out idx (idx.map f) = idx.foldl (fun o i => o.set i (some (f i))) out := by
  unfold scatter
  induction idx generalizing out with
  | nil => rfl
  | cons i is ih => simp only [List.map_cons, List.zip_cons_cons, List.foldl_cons]; exact ih _

/-- folding per batch and then per element is folding per element -/
theorem foldl_chunks (b : Nat) (hb : 0 < b) (l : List Nat) (g : β → Nat → β) (init : β) :
    (chunks b l).foldl (fun acc c => c.foldl g acc) init = l.foldl g init := by
  conv_rhs => rw [← chunks_flatten b hb l]
  rw [List.foldl_flatten]

theorem getElem?_foldl_set (f : Nat → β) (is : List Nat) :
    ∀ (out : List (Option β)) (j : Nat),
      (is.foldl (fun o i => o.set i (some (f i))) out)[j]? =
        if j ∈ is ∧ j < out.length then some (some (f j)) else out[j]? := by
  induction is with
  | nil => intro out j; simp
  | cons i is ih =>
    intro out j
    rw [List.foldl_cons, ih, List.length_set, List.getElem?_set]
    by_cases hji : j ∈ is
    · by_cases hlt : j < out.length
      · simp [hji, hlt]
      · have : out[j]? = none := List.getElem?_eq_none_iff.mpr (Nat.le_of_not_lt hlt)
        by_cases hij : i = j
        · subst hij; simp [hlt, this]
        · simp [hji, hlt, hij]
    · by_cases hij : i = j
      · subst hij
        by_cases hlt : i < out.length
        · simp [hji, hlt]
        · have : out[i]? = none := List.getElem?_eq_none_iff.mpr (Nat.le_of_not_lt hlt)
          simp [hji, hlt, this]
      · have : ¬ (j = i) := fun h => hij h.symm
        simp [hji, hij, this]

/-- the scatter loop over the batches of `arange(n)` fills every slot exactly with its value -/
theorem scatter_loop (b : Nat) (hb : 0 < b) (n : Nat) (f : Nat → β) :
    (epoch b (List.range n)).foldl (fun out idx => scatter out idx (idx.map f)) (List.replicate n none)
      = (List.range n).map (fun i => some (f i)) := by
  have h1 : (fun (out : List (Option β)) (idx : List Nat) => scatter out idx (idx.map f))
      = (fun out idx => idx.foldl (fun o i => o.set i (some (f i))) out) := by
    funext out idx; exact scatter_map out idx f
  unfold epoch
  rw [h1, foldl_chunks b hb]
  apply List.ext_getElem?
  intro j
  rw [getElem?_foldl_set]
  by_cases hj : j < n
  · simp [hj]
  · simp [hj]

theorem zip_zipWith_maps {γ δ : Type} (l : List α) (a b s : α → γ) (f : γ → γ → δ) :
    List.zip (List.zipWith f (l.map a) (l.map s)) (List.zipWith f (l.map b) (l.map s))
      = l.map (fun x => (f (a x) (s x), f (b x) (s x))) := by
  induction l with
  | nil => rfl
  | cons x xs ih => simp only [List.map_cons, List.zipWith_cons_cons, List.zip_cons_cons, ih]

theorem zipWith_maps {γ δ ε : Type} (l : List α) (a : α → γ) (s : α → δ) (f : γ → δ → ε) :
    List.zipWith f (l.map a) (l.map s) = l.map (fun x => f (a x) (s x)) := by
  induction l with
  | nil => rfl
  | cons x xs ih => simp only [List.map_cons, List.zipWith_cons_cons, ih]

theorem range_map_getD (t : List α) (d : α) (g : α → β) :
    (List.range t.length).map (fun i => g (t.getD i d)) = t.map g := by
  apply List.ext_getElem?
  intro j
  by_cases hj : j < t.length
  · simp [hj, List.getD_eq_getElem?_getD]
  · have := Nat.le_of_not_lt hj
    simp [hj, List.getElem?_eq_none_iff.mpr this]

end Generic

section GenericCom
variable {R : Type} [Num R]

/-- what one pattern contributes, in the grid formulation shared by the three codes -/
def comOne (h w : Nat) (I : Pattern R) : R × R :=
  (sum2 (mul2 I (rowGrid h w)) / sum2 I, sum2 (mul2 I (colGrid h w)) / sum2 I)

/-- **batch invariance, any carrier**: `calculate_origin(max_batch_size=b)` assigns to every
pattern its own centre of mass, for every `b ≥ 1` — no slot is left uninitialised, none
depends on `b`. -/
theorem comTorchBatched_eq (b : Nat) (hb : 0 < b) (h w : Nat) (t3 : List (Pattern R)) :
    comTorchBatched b h w t3 = t3.map (fun I => some (comOne h w I)) := by
  unfold comTorchBatched
  simp only
  have hstep : (fun (com : List (Option (R × R))) (batchIdx : List Nat) =>
        scatter com batchIdx
          (List.zip
            (List.zipWith (· / ·) ((batchIdx.map (fun i => t3.getD i [])).map (fun I => sum2 (mul2 I (rowGrid h w))))
              ((batchIdx.map (fun i => t3.getD i [])).map sum2))
            (List.zipWith (· / ·) ((batchIdx.map (fun i => t3.getD i [])).map (fun I => sum2 (mul2 I (colGrid h w))))
              ((batchIdx.map (fun i => t3.getD i [])).map sum2))))
      = (fun com batchIdx => scatter com batchIdx (batchIdx.map (fun i => comOne h w (t3.getD i [])))) := by
    funext com batchIdx
    rw [zip_zipWith_maps, List.map_map]
    rfl
  rw [hstep, scatter_loop b hb]
  exact range_map_getD t3 [] (fun I => some (comOne h w I))

def maskWith (mask : Option (Pattern R)) (I : Pattern R) : Pattern R :=
  match mask with
  | some m => mul2 I m
  | none => I

theorem comNumpyLooped_eq (mask : Option (Pattern R)) (h w : Nat) (I4 : List (List (Pattern R))) :
    comNumpyLooped mask h w I4 =
      (I4.map (fun row => row.map (fun I => (comOne h w (maskWith mask I)).1)),
       I4.map (fun row => row.map (fun I => (comOne h w (maskWith mask I)).2))) := by
  unfold comNumpyLooped comLoopBody comOne maskWith
  cases mask <;> rfl

theorem comNumpyVectorised_eq (mask : Option (Pattern R)) (h w : Nat) (I4 : List (List (Pattern R))) :
    comNumpyVectorised mask h w I4 =
      (I4.map (fun row => row.map (fun I => (comOne h w (maskWith mask I)).1)),
       I4.map (fun row => row.map (fun I => (comOne h w (maskWith mask I)).2))) := by
  unfold comNumpyVectorised comOne maskWith
  cases mask with
  | none =>
    simp only
    rw [zipWith_maps, zipWith_maps]
    simp only [zipWith_maps]
  | some m =>
    simp only [List.map_map]
    rw [zipWith_maps, zipWith_maps]
    simp only [zipWith_maps, Function.comp_def, List.map_map]

end GenericCom

/-! ### Part B: grid formulation = index formulation (ℝ) -/

/-- an `h × w` array -/
def Rect {α : Type} (h w : Nat) (I : List (List α)) : Prop := I.length = h ∧ ∀ row ∈ I, row.length = w

/-- total intensity `Σ_r Σ_c I[r][c]` -/
noncomputable def total (I : Pattern ℝ) : ℝ := (I.map List.sum).sum
/-- `Σ_r r · Σ_c I[r][c]` -/
noncomputable def rowMoment (I : Pattern ℝ) : ℝ := (I.zipIdx.map (fun p => (p.2 : ℝ) * p.1.sum)).sum
/-- `Σ_r Σ_c c · I[r][c]` -/
noncomputable def colMoment (I : Pattern ℝ) : ℝ :=
  (I.map (fun row => (row.zipIdx.map (fun p => (p.2 : ℝ) * p.1)).sum)).sum
/-- **the intensity-weighted mean detector coordinate (row, then column)** -/
noncomputable def comSpec (I : Pattern ℝ) : ℝ × ℝ := (rowMoment I / total I, colMoment I / total I)

theorem zipWith_range'_map {α β γ : Type} (f : α → β → γ) (g : Nat → β) :
    ∀ (l : List α) (s : Nat),
      List.zipWith f l ((List.range' s l.length).map g) = (l.zipIdx s).map (fun p => f p.1 (g p.2)) := by
  intro l
  induction l with
  | nil => intro s; rfl
  | cons x xs ih =>
    intro s
    simp only [List.length_cons, List.range'_succ, List.map_cons, List.zipWith_cons_cons, List.zipIdx_cons, ih]

theorem zipWith_replicate_right {α β γ : Type} (f : α → β → γ) (l : List α) (x : β) :
    List.zipWith f l (List.replicate l.length x) = l.map (fun a => f a x) := by
  induction l with
  | nil => rfl
  | cons a as ih => simp only [List.length_cons, List.replicate_succ, List.zipWith_cons_cons, List.map_cons, ih]

theorem sum2_real (I : Pattern ℝ) : sum2 I = total I := by
  unfold sum2 total
  rw [NumRealExt.sum_eq]
  congr 1
  apply List.map_congr_left
  intro row _
  exact NumRealExt.sum_eq row

theorem sum_map_mul_right (l : List ℝ) (x : ℝ) : (l.map (fun a => a * x)).sum = l.sum * x := by
  induction l with
  | nil => simp
  | cons a as ih => simp only [List.map_cons, List.sum_cons, ih]; ring

theorem rowGrid_moment (h w : Nat) (I : Pattern ℝ) (hI : Rect h w I) :
    sum2 (mul2 I (rowGrid h w)) = rowMoment I := by
  obtain ⟨hh, hw⟩ := hI
  subst hh
  unfold mul2 rowGrid rowMoment
  rw [List.range_eq_range', zipWith_range'_map, sum2_real]
  unfold total
  rw [List.map_map]
  congr 1
  apply List.map_congr_left
  intro p hp
  have hrow : p.1.length = w := hw p.1 (List.mem_zipIdx hp |>.2.2 ▸ List.getElem_mem _)
  simp only [Function.comp_def]
  rw [← hrow, zipWith_replicate_right]
  simp only [NumReal.mul_eq, NumReal.ofNat_eq]
  rw [sum_map_mul_right]; ring

theorem colGrid_moment (h w : Nat) (I : Pattern ℝ) (hI : Rect h w I) :
    sum2 (mul2 I (colGrid h w)) = colMoment I := by
  obtain ⟨hh, hw⟩ := hI
  subst hh
  unfold mul2 colGrid colMoment
  rw [zipWith_replicate_right, sum2_real]
  unfold total
  rw [List.map_map]
  congr 1
  apply List.map_congr_left
  intro row hrow
  have hlen : row.length = w := hw row hrow
  simp only [Function.comp_def]
  rw [← hlen, List.range_eq_range', zipWith_range'_map]
  congr 1
  apply List.map_congr_left
  intro p _
  simp only [NumReal.mul_eq, NumReal.ofNat_eq]; ring

/-- over ℝ the grid formulation is the weighted mean of the row / column index -/
theorem comOne_eq_spec (h w : Nat) (I : Pattern ℝ) (hI : Rect h w I) : comOne h w I = comSpec I := by
  unfold comOne comSpec
  rw [rowGrid_moment h w I hI, colGrid_moment h w I hI, sum2_real]

/-! ### scale invariance (ℝ) -/

theorem mul2_real (I G : Pattern ℝ) :
    mul2 I G = List.zipWith (fun ra rb => List.zipWith (fun a b : ℝ => a * b) ra rb) I G := rfl

theorem scale2_real (c : ℝ) (I : Pattern ℝ) :
    scale2 c I = I.map (fun row => row.map (fun v : ℝ => c * v)) := rfl

theorem zipWith_scale_row (c : ℝ) : ∀ (row g : List ℝ),
    List.zipWith (fun a b : ℝ => a * b) (row.map (fun v : ℝ => c * v)) g
      = (List.zipWith (fun a b : ℝ => a * b) row g).map (fun v : ℝ => c * v) := by
  intro row
  induction row with
  | nil => intro g; simp
  | cons a as ih =>
    intro g
    cases g with
    | nil => simp
    | cons b bs =>
      simp only [List.map_cons, List.zipWith_cons_cons, ih]
      congr 1
      exact mul_assoc c a b

theorem mul2_scale2 (c : ℝ) : ∀ (I G : Pattern ℝ), mul2 (scale2 c I) G = scale2 c (mul2 I G) := by
  intro I
  induction I with
  | nil => intro G; simp [mul2_real, scale2_real]
  | cons r rs ih =>
    intro G
    cases G with
    | nil => simp [mul2_real, scale2_real]
    | cons g gs =>
      have ih' := ih gs
      rw [mul2_real, scale2_real, mul2_real, scale2_real] at ih'
      rw [mul2_real, scale2_real, mul2_real, scale2_real]
      simp only [List.map_cons, List.zipWith_cons_cons]
      rw [ih', zipWith_scale_row]

theorem sum_map_mul_left' (c : ℝ) (r : List ℝ) : (r.map (fun v : ℝ => c * v)).sum = c * r.sum := by
  induction r with
  | nil => simp
  | cons a as iha => simp only [List.map_cons, List.sum_cons, iha]; ring

theorem total_scale2 (c : ℝ) (I : Pattern ℝ) : total (scale2 c I) = c * total I := by
  rw [scale2_real]
  unfold total
  rw [List.map_map]
  induction I with
  | nil => simp
  | cons r rs ih =>
    simp only [List.map_cons, List.sum_cons, Function.comp_def] at ih ⊢
    rw [ih, sum_map_mul_left']; ring

/-- the centre of mass does not depend on the unit of the intensities -/
theorem comOne_scale (c : ℝ) (hc : c ≠ 0) (h w : Nat) (I : Pattern ℝ) :
    comOne h w (scale2 c I) = comOne h w I := by
  unfold comOne
  rw [mul2_scale2, mul2_scale2]
  simp only [sum2_real, total_scale2, NumReal.div_eq]
  rw [mul_div_mul_left _ _ hc, mul_div_mul_left _ _ hc]

theorem maskWith_scale (c : ℝ) (mask : Option (Pattern ℝ)) (I : Pattern ℝ) :
    maskWith mask (scale2 c I) = scale2 c (maskWith mask I) := by
  cases mask with
  | none => rfl
  | some m => exact mul2_scale2 c I m

end QuantemModel.Origin
