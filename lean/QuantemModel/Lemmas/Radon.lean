import QuantemModel.Model.Radon
import QuantemModel.Real.NumReal
/-!
Helper lemmas for C07 (ℝ instance of the Radon model).
-/
namespace QuantemModel.Radon
open QuantemModel QuantemModel.NumReal

noncomputable instance : HasFloor ℝ := ⟨Int.floor⟩

@[simp] theorem floor_eq (x : ℝ) : HasFloor.floor x = ⌊x⌋ := rfl

theorem foldl_add_eq (l : List ℝ) (acc : ℝ) : l.foldl (fun a b => a + b) acc = acc + l.sum := by
  induction l generalizing acc with
  | nil => simp
  | cons x xs ih => simp [List.foldl_cons, ih, add_assoc]

/-- the carrier's left fold is the ordinary sum over ℝ -/
theorem sum_eq (l : List ℝ) : Num.sum l = l.sum := by
  unfold Num.sum
  have : (fun (a b : ℝ) => @HAdd.hAdd ℝ ℝ ℝ (@instHAdd ℝ Num.toAdd) a b) = fun a b => a + b := by
    funext a b; rfl
  rw [this, foldl_add_eq]; simp

/-- grid_sample's [-1,1] normalisation round trip is the identity when `N ≥ 2` -/
theorem gridRoundTrip (N : Nat) (hN : 2 ≤ N) (v : ℝ) : gridUnnorm N (gridNorm N v) = v := by
  unfold gridUnnorm gridNorm
  have h : ((N - 1 : Nat) : ℝ) ≠ 0 := by
    have : 1 ≤ N - 1 := by omega
    exact_mod_cast (by omega : N - 1 ≠ 0)
  simp
  field_simp


/-! ### sampling coordinates -/

theorem torchCoord_eq_skCoord (N : Nat) (hN : 2 ≤ N) (θ : ℝ) (x y : Nat) :
    torchCoord N θ x y = skCoord N θ x y := by
  unfold torchCoord skCoord
  simp only [gridRoundTrip N hN]
  simp
  constructor <;> ring

/-- the pre-fix convention is the skimage coordinate of the row reflected about the centre:
`y ↦ 2*(N//2) - y` -/
theorem torchCoordLegacy_eq_reflect (N : Nat) (hN : 2 ≤ N) (θ : ℝ) (x y y' : Nat)
    (h : y + y' = 2 * (N / 2)) :
    torchCoordLegacy N θ x y = skCoord N θ x y' := by
  unfold torchCoordLegacy skCoord
  simp only [gridRoundTrip N hN]
  have hy : (y' : ℝ) = 2 * ((N / 2 : Nat) : ℝ) - y := by
    have : ((y + y' : Nat) : ℝ) = ((2 * (N / 2) : Nat) : ℝ) := by rw [h]
    push_cast at this; linarith
  simp [hy]
  constructor <;> ring

/-! ### bilinear -/

theorem bilinear_linear (f g : Int → Int → ℝ) (a b r c : ℝ) :
    bilinear (fun i j => a * f i j + b * g i j) r c = a * bilinear f r c + b * bilinear g r c := by
  unfold bilinear; simp; ring

theorem bilinear_int (f : Int → Int → ℝ) (i j : Int) : bilinear f (i : ℝ) (j : ℝ) = f i j := by
  unfold bilinear; simp

theorem masked_linear (f g : Int → Int → ℝ) (a b : ℝ) (N : Nat) :
    masked (fun i j => a * f i j + b * g i j) N = fun i j => a * masked f N i j + b * masked g N i j := by
  funext i j; unfold masked; split <;> simp

theorem masked_masked (f : Int → Int → ℝ) (N : Nat) : masked (masked f N) N = masked f N := by
  funext i j; unfold masked; split <;> simp

theorem sum_map_linear {α : Type} (l : List α) (F G : α → ℝ) (a b : ℝ) :
    (l.map fun y => a * F y + b * G y).sum = a * (l.map F).sum + b * (l.map G).sum := by
  induction l with
  | nil => simp
  | cons x xs ih => simp [ih]; ring


/-! ### Radon transform -/

theorem radonTorchAt_linear (f g : Int → Int → ℝ) (a b : ℝ) (N : Nat) (θ : ℝ) (x : Nat) :
    radonTorchAt (fun i j => a * f i j + b * g i j) N θ x
      = a * radonTorchAt f N θ x + b * radonTorchAt g N θ x := by
  unfold radonTorchAt
  simp only [sum_eq, masked_linear, bilinear_linear]
  exact sum_map_linear _ _ _ a b

theorem radonSkAt_linear (f g : Int → Int → ℝ) (a b : ℝ) (N : Nat) (θ : ℝ) (x : Nat) :
    radonSkAt (fun i j => a * f i j + b * g i j) N θ x
      = a * radonSkAt f N θ x + b * radonSkAt g N θ x := by
  unfold radonSkAt
  simp only [sum_eq, bilinear_linear]
  exact sum_map_linear _ _ _ a b

theorem radonTorchAt_eq_sk (f : Int → Int → ℝ) (N : Nat) (hN : 2 ≤ N) (θ : ℝ) (x : Nat) :
    radonTorchAt f N θ x = radonSkAt (masked f N) N θ x := by
  unfold radonTorchAt radonSkAt
  simp only [torchCoord_eq_skCoord N hN]

theorem deg2rad_zero : deg2rad (0 : ℝ) = 0 := by unfold deg2rad; simp

theorem skCoord_zero (N : Nat) (x y : Nat) : skCoord N (0 : ℝ) x y = ((y : ℝ), (x : ℝ)) := by
  unfold skCoord; simp [deg2rad_zero]

theorem radonSkAt_zero (f : Int → Int → ℝ) (N : Nat) (x : Nat) :
    radonSkAt f N (0 : ℝ) x = ((List.range N).map fun y : Nat => f (y : Int) (x : Int)).sum := by
  unfold radonSkAt
  simp only [sum_eq, skCoord_zero]
  congr 1
  apply List.map_congr_left
  intro y _
  have := bilinear_int f (y : Int) (x : Int)
  simpa using this


/-! ### Fourier filters -/

theorem shiftIdx_lt (P k : Nat) (hP : 0 < P) : shiftIdx P k < P := Nat.mod_lt _ hP

/-- `torch.linspace(0, π, P+1)[:-1]` and `np.linspace(0, π, P, endpoint=False)` are the same points -/
theorem linspace_agree (P i : Nat) (hP : 0 < P) (hi : i ≤ P) :
    torchLinspace (0 : ℝ) Real.pi (P + 1) i = npLinspaceOpen 0 Real.pi P i := by
  unfold torchLinspace npLinspaceOpen
  have hP' : (P : ℝ) ≠ 0 := by exact_mod_cast hP.ne'
  split
  · simp; field_simp
  · have h : P + 1 - i - 1 = P - i := by omega
    rw [h]
    simp [Nat.cast_sub hi]
    field_simp
    ring

/-- torch's `alpha - beta*cos(2πn/(P-1))` and numpy's `alpha + beta*cos(π(1-P+2n)/(P-1))` -/
theorem cosWindow_agree (α β : ℝ) (P n : Nat) (hP : 2 ≤ P) :
    torchCosWindow α β P n = npCosWindow α β P n := by
  unfold torchCosWindow npCosWindow
  rw [if_neg (by omega), if_neg (by omega)]
  have h1 : ((P - 1 : Nat) : ℝ) = (P : ℝ) - 1 := by rw [Nat.cast_sub (by omega)]; simp
  have hne : (P : ℝ) - 1 ≠ 0 := by
    have : (2 : ℝ) ≤ P := by exact_mod_cast hP
    linarith
  simp only [mul_eq, sub_eq, add_eq, div_eq, cos_eq, pi_eq, two_eq, ofNat_eq, ofInt_eq, h1]
  push_cast
  have : Real.pi * (1 - (P : ℝ) + 2 * n) / ((P : ℝ) - 1) = n * (Real.pi * 2 / (P - 1)) - Real.pi := by
    field_simp; ring
  rw [this, Real.cos_sub_pi]; ring

theorem window_agree (name : FilterName) (P k : Nat) (hP : 2 ≤ P) :
    (windowTorch name P k : ℝ) = windowSk name P k := by
  cases name <;> simp only [windowTorch, windowSk]
  · have := linspace_agree P (shiftIdx P k) (by omega) (le_of_lt (shiftIdx_lt P k (by omega)))
    simp only [zero_eq, pi_eq]
    rw [this]
  · exact cosWindow_agree _ _ P _ hP
  · exact cosWindow_agree _ _ P _ hP

theorem fourierFilter_agree (name : FilterName) (P : Nat) (hP : 2 ≤ P) :
    (fourierFilterTorch name P : List ℝ) = fourierFilterSk name P := by
  unfold fourierFilterTorch fourierFilterSk fourierFilterWith
  have : (fun (k : Nat) (rk : ℝ) => rk * windowTorch name P k) = fun k rk => rk * windowSk name P k := by
    funext k rk; rw [window_agree name P k hP]
  cases name <;> simp only [] <;> rw [this]


/-! ### back-projection interpolants -/

/-- the arithmetic core of `interp_agree`, over plain integers and reals -/
theorem interp_core (n h : ℤ) (v : ℤ → ℝ) (t : ℝ) :
    (((1 - (t + (h : ℝ) - ((min (max ⌊t + (h : ℝ)⌋ 0) (n - 2) : ℤ) : ℝ))) * v (min (max ⌊t + (h : ℝ)⌋ 0) (n - 2)) +
        (t + (h : ℝ) - ((min (max ⌊t + (h : ℝ)⌋ 0) (n - 2) : ℤ) : ℝ)) * v (min (max ⌊t + (h : ℝ)⌋ 0) (n - 2) + 1)) *
      if 0 ≤ t + (h : ℝ) ∧ t + (h : ℝ) ≤ ((n - 1 : ℤ) : ℝ) then 1 else 0) =
    if t < ((-h : ℤ) : ℝ) then 0
    else
      if ((n - 1 + -h : ℤ) : ℝ) < t then 0
      else
        if ⌊t⌋ - -h = n - 1 then v (⌊t⌋ - -h)
        else
          if ((⌊t⌋ - -h + -h : ℤ) : ℝ) ≤ t ∧ t ≤ ((⌊t⌋ - -h + -h : ℤ) : ℝ) then v (⌊t⌋ - -h)
          else
            (v (⌊t⌋ - -h + 1) - v (⌊t⌋ - -h)) /
                  (((⌊t⌋ - -h + 1 + -h : ℤ) : ℝ) - ((⌊t⌋ - -h + -h : ℤ) : ℝ)) *
                (t - ((⌊t⌋ - -h + -h : ℤ) : ℝ)) +
              v (⌊t⌋ - -h) := by
  have hfl : ⌊t + (h : ℝ)⌋ = ⌊t⌋ + h := Int.floor_add_intCast t h
  rw [hfl]
  simp only [sub_neg_eq_add]
  have hle : ((⌊t⌋ : ℤ) : ℝ) ≤ t := Int.floor_le t
  have hlt : t < ((⌊t⌋ : ℤ) : ℝ) + 1 := Int.lt_floor_add_one t
  by_cases hA : t < ((-h : ℤ) : ℝ)
  · have : ¬ (0 ≤ t + (h : ℝ) ∧ t + (h : ℝ) ≤ ((n - 1 : ℤ) : ℝ)) := by
      push_cast at hA ⊢; intro hc; linarith [hc.1]
    rw [if_pos hA, if_neg this, mul_zero]
  · rw [if_neg hA]
    by_cases hB : ((n - 1 + -h : ℤ) : ℝ) < t
    · have : ¬ (0 ≤ t + (h : ℝ) ∧ t + (h : ℝ) ≤ ((n - 1 : ℤ) : ℝ)) := by
        push_cast at hB ⊢; intro hc; linarith [hc.2]
      rw [if_pos hB, if_neg this, mul_zero]
    · rw [if_neg hB]
      have hm : (0 ≤ t + (h : ℝ) ∧ t + (h : ℝ) ≤ ((n - 1 : ℤ) : ℝ)) := by
        push_cast at hA hB ⊢; constructor <;> linarith
      rw [if_pos hm, mul_one]
      -- integer facts about j = ⌊t⌋ + h
      have hj0 : 0 ≤ ⌊t⌋ + h := by
        have : ((-h : ℤ) : ℝ) ≤ t := not_lt.mp hA
        have := Int.le_floor.mpr this
        omega
      have hjn : ⌊t⌋ + h ≤ n - 1 := by
        have h2 : t ≤ ((n - 1 + -h : ℤ) : ℝ) := not_lt.mp hB
        have : ⌊t⌋ < n - 1 + -h + 1 := Int.floor_lt.mpr (by push_cast at h2 ⊢; linarith)
        omega
      by_cases hC : ⌊t⌋ + h = n - 1
      · rw [if_pos hC]
        have ht0 : min (max (⌊t⌋ + h) 0) (n - 2) = n - 2 := by omega
        rw [ht0]
        have hteq : t + (h : ℝ) = ((n - 1 : ℤ) : ℝ) := by
          have h1 : ((⌊t⌋ + h : ℤ) : ℝ) = ((n - 1 : ℤ) : ℝ) := by rw [hC]
          push_cast at h1 hm ⊢
          linarith [hm.2]
        have e1 : n - 2 + 1 = ⌊t⌋ + h := by omega
        rw [e1, hteq]
        push_cast
        ring
      · rw [if_neg hC]
        have ht0 : min (max (⌊t⌋ + h) 0) (n - 2) = ⌊t⌋ + h := by omega
        rw [ht0]
        by_cases hD : ((⌊t⌋ + h + -h : ℤ) : ℝ) ≤ t ∧ t ≤ ((⌊t⌋ + h + -h : ℤ) : ℝ)
        · rw [if_pos hD]
          have : t = ((⌊t⌋ : ℤ) : ℝ) := by
            obtain ⟨a, b⟩ := hD
            push_cast at a b
            linarith
          push_cast
          rw [← this]
          ring
        · rw [if_neg hD]
          push_cast
          have : ((⌊t⌋ : ℤ) : ℝ) + (h : ℝ) + 1 + -(h : ℝ) - (((⌊t⌋ : ℤ) : ℝ) + (h : ℝ) + -(h : ℝ)) = 1 := by ring
          rw [this]
          ring

/-- **the two back-projection interpolants are the same function**: iradon_torch's
floor/clamp/blend/mask at `t + N//2` equals `np.interp(t, arange(N) - N//2, v, left=0, right=0)`,
for every detector size and every real position. -/
theorem interp_agree (N : Nat) (v : Int → ℝ) (t : ℝ) :
    interpTorch N v (t + ((N / 2 : Nat) : ℝ)) = npInterp N v t := by
  unfold interpTorch npInterp eqb clampI
  simp only [mul_eq, sub_eq, add_eq, div_eq, one_eq, zero_eq, ofInt_eq, floor_eq, ltb_eq, leb_eq,
    Bool.and_eq_true]
  have hc : ((N / 2 : Nat) : ℝ) = (((N / 2 : Nat) : ℤ) : ℝ) := (Int.cast_natCast _).symm
  rw [hc]
  exact interp_core (N : ℤ) ((N / 2 : Nat) : ℤ) v t

theorem interp_legacy_inside (N : Nat) (v : Int → ℝ) (u : ℝ) (h0 : 0 ≤ u) (h1 : u ≤ ((N : ℤ) - 1 : ℤ)) :
    interpTorchLegacy N v u = interpTorch N v u := by
  unfold interpTorchLegacy interpTorch
  simp only [mul_eq, sub_eq, add_eq, one_eq, zero_eq, ofInt_eq, floor_eq, leb_eq, Bool.and_eq_true]
  rw [if_pos ⟨h0, h1⟩, mul_one]

theorem interp_linear (N : Nat) (v w : Int → ℝ) (a b u : ℝ) :
    interpTorch N (fun i => a * v i + b * w i) u = a * interpTorch N v u + b * interpTorch N w u := by
  unfold interpTorch
  simp only [mul_eq, sub_eq, add_eq, one_eq, zero_eq, ofInt_eq, floor_eq, leb_eq, Bool.and_eq_true]
  ring

theorem npInterp_linear (N : Nat) (v w : Int → ℝ) (a b t : ℝ) :
    npInterp N (fun i => a * v i + b * w i) t = a * npInterp N v t + b * npInterp N w t := by
  rw [← interp_agree, ← interp_agree, ← interp_agree, interp_linear]


/-! ### filtered back-projection -/

theorem paddedSize_go_ge (N : Nat) : ∀ (fuel p : Nat), 64 ≤ p → 64 ≤ paddedSize.go N p fuel := by
  intro fuel
  induction fuel with
  | zero => intro p hp; simpa [paddedSize.go] using hp
  | succ k ih =>
    intro p hp
    unfold paddedSize.go
    split
    · exact hp
    · exact ih (2 * p) (by omega)

theorem paddedSize_ge (N : Nat) : 64 ≤ paddedSize N := paddedSize_go_ge N _ 64 (le_refl _)

theorem defaultTheta_agree (A : Nat) :
    ((List.range A).map fun i => (Num.ofNat i : ℝ) * (Num.ofNat 180 / Num.ofNat A))
      = (List.range A).map fun i => npLinspaceOpen (Num.zero : ℝ) (Num.ofNat 180) A i := by
  apply List.map_congr_left
  intro i _
  unfold npLinspaceOpen
  simp

theorem interpFun_agree :
    (fun (D : Nat) (v : Int → ℝ) (t : ℝ) => interpTorch D v (t + Num.ofNat (D / 2))) = npInterp := by
  funext D v t
  have := interp_agree D v t
  simpa using this

/-- **iradon_torch = skimage iradon on the model**, for every sinogram, angle set (given or
default), filter name and circle flag. -/
theorem iradonOut_agree (sino : List (List ℝ)) (thetas : Option (List ℝ)) (name : FilterName) (circle : Bool)
    (out : Nat) :
    iradonTorchOut sino thetas name circle out = iradonSkOut sino thetas name circle out := by
  unfold iradonTorchOut iradonSkOut
  simp only [fourierFilter_agree name _ (le_trans (by norm_num) (paddedSize_ge _)), defaultTheta_agree,
    interpFun_agree]

theorem iradon_agree (sino : List (List ℝ)) (thetas : Option (List ℝ)) (name : FilterName) (circle : Bool) :
    iradonTorch sino thetas name circle = iradonSk sino thetas name circle := by
  unfold iradonTorch iradonSk
  exact iradonOut_agree sino thetas name circle _


theorem backprojAt_linear (interp : Nat → (Int → ℝ) → ℝ → ℝ)
    (hlin : ∀ D v w a b t, interp D (fun i => a * v i + b * w i) t = a * interp D v t + b * interp D w t)
    (D : Nat) (l : List ((Int → ℝ) × (Int → ℝ) × ℝ)) (a b : ℝ) (radius r c : Nat) :
    backprojAt interp D (l.map fun q => (fun i => a * q.1 i + b * q.2.1 i, q.2.2)) radius r c
      = a * backprojAt interp D (l.map fun q => (q.1, q.2.2)) radius r c
        + b * backprojAt interp D (l.map fun q => (q.2.1, q.2.2)) radius r c := by
  unfold backprojAt
  simp only [sum_eq, List.map_map, Function.comp_def, hlin]
  exact sum_map_linear _ _ _ a b


/-! ### the pre-fix conventions: exact witnesses -/

theorem shiftIdx_even_zero (m : Nat) (hm : 1 ≤ m) : shiftIdx (2 * m) 0 = m := by
  unfold shiftIdx
  have : 2 * m / 2 = m := by omega
  rw [this]
  have : 0 + (2 * m - m) = m := by omega
  rw [this]
  exact Nat.mod_eq_of_lt (by omega)

/-- the fixed/scikit-image cosine window is 1 at the zero-frequency bin … -/
theorem cosine_sk_zero (m : Nat) (hm : 1 ≤ m) : (windowSk .cosine (2 * m) 0 : ℝ) = 1 := by
  simp only [windowSk, shiftIdx_even_zero m hm]
  unfold npLinspaceOpen
  have hm' : (m : ℝ) ≠ 0 := by exact_mod_cast (by omega : m ≠ 0)
  have : (Num.ofNat m : ℝ) * ((Num.pi - Num.zero) / Num.ofNat (2 * m)) + Num.zero = Real.pi / 2 := by
    simp; field_simp
  rw [this]; simp

/-- … the pre-fix window (`linspace(0, π, size)` with the end point) is not, for any even size -/
theorem cosine_legacy_zero_ne (m : Nat) (hm : 1 ≤ m) : (cosineWindowLegacy (2 * m) 0 : ℝ) ≠ 1 := by
  unfold cosineWindowLegacy
  rw [shiftIdx_even_zero m hm]
  unfold torchLinspace
  have h1 : ¬ (m < 2 * m / 2) := by omega
  rw [if_neg h1]
  have h2 : 2 * m - m - 1 = m - 1 := by omega
  rw [h2]
  have hc1 : ((2 * m - 1 : Nat) : ℝ) = 2 * (m : ℝ) - 1 := by
    rw [Nat.cast_sub (by omega)]; push_cast; ring
  have hc2 : ((m - 1 : Nat) : ℝ) = (m : ℝ) - 1 := by
    rw [Nat.cast_sub hm]; simp
  have hmr : (1 : ℝ) ≤ m := by exact_mod_cast hm
  simp only [sub_eq, mul_eq, div_eq, zero_eq, pi_eq, ofNat_eq, sin_eq, hc1, hc2]
  -- the angle is π - b with b = π (m-1)/(2m-1) ∈ [0, π/2)
  set b : ℝ := (Real.pi - 0) / (2 * (m : ℝ) - 1) * ((m : ℝ) - 1) with hb
  have hden : (0 : ℝ) < 2 * (m : ℝ) - 1 := by linarith
  have hb0 : 0 ≤ b := by
    rw [hb]; apply mul_nonneg
    · apply div_nonneg <;> linarith [Real.pi_pos]
    · linarith
  have hb1 : b < Real.pi / 2 := by
    rw [hb, sub_zero, div_mul_eq_mul_div, div_lt_iff₀ hden]
    nlinarith [Real.pi_pos]
  rw [Real.sin_pi_sub]
  intro hs
  have hcos : Real.cos (Real.pi / 2 - b) = 1 := by rw [Real.cos_pi_div_two_sub]; exact hs
  have := (Real.cos_eq_one_iff_of_lt_of_lt (by linarith [Real.pi_pos]) (by linarith [Real.pi_pos])).mp hcos
  linarith

theorem interp_legacy_counter :
    interpTorchLegacy 2 (fun i => if i = 1 then (1 : ℝ) else 0) 2 = 2 ∧
    interpTorch 2 (fun i => if i = 1 then (1 : ℝ) else 0) 2 = 0 := by
  constructor
  · unfold interpTorchLegacy clampI
    simp only [mul_eq, sub_eq, add_eq, one_eq, ofInt_eq, floor_eq]
    have : ⌊(2 : ℝ)⌋ = 2 := by
      have := Int.floor_intCast (R := ℝ) 2
      exact_mod_cast this
    simp only [this]
    norm_num
  · unfold interpTorch
    simp only [mul_eq, sub_eq, add_eq, one_eq, zero_eq, ofInt_eq, floor_eq, leb_eq, Bool.and_eq_true]
    norm_num

/-- a single bright pixel in row 0 of the 2×2 image (inside the reconstruction circle) -/
def pin : Int → Int → ℝ := fun r c => if r = 0 ∧ c = 1 then 1 else 0

theorem bilinear_nat (f : Int → Int → ℝ) (i j : Nat) : bilinear f ((i : ℝ)) ((j : ℝ)) = f i j := by
  have := bilinear_int f (i : Int) (j : Int)
  simpa using this

theorem radon_legacy_counter :
    radonLegacyAt pin 2 (0 : ℝ) 1 = 0 ∧ radonSkAt (masked pin 2) 2 (0 : ℝ) 1 = 1 := by
  have e0 := torchCoordLegacy_eq_reflect 2 (by norm_num) (0 : ℝ) 1 0 2 (by norm_num)
  have e1 := torchCoordLegacy_eq_reflect 2 (by norm_num) (0 : ℝ) 1 1 1 (by norm_num)
  have hr : List.range 2 = [0, 1] := by decide
  constructor
  · unfold radonLegacyAt
    rw [sum_eq, hr]
    simp only [List.map_cons, List.map_nil, e0, e1, skCoord_zero, bilinear_nat]
    simp [masked, inDisc, pin]
  · rw [radonSkAt_zero, hr]
    simp [masked, inDisc, pin]

theorem sum_range_reflect (N : Nat) (g : Nat → ℝ) :
    ((List.range N).map fun y => g (N - 1 - y)).sum = ((List.range N).map g).sum := by
  have h : (List.range N).map (fun y => N - 1 - y) = (List.range N).reverse := by
    have := List.reverse_range' (s := 0) (n := N)
    rw [← List.range_eq_range'] at this
    rw [this]
    simp
  have : ((List.range N).map fun y => g (N - 1 - y)) = ((List.range N).map (fun y => N - 1 - y)).map g := by
    simp [List.map_map, Function.comp_def]
  rw [this, h, List.map_reverse, List.sum_reverse]

/-- for odd sizes the pre-fix transform summed the same samples in reverse order: it agreed -/
theorem radonLegacyAt_eq_sk_odd (f : Int → Int → ℝ) (N : Nat) (hN : 2 ≤ N) (hodd : N % 2 = 1) (θ : ℝ) (x : Nat) :
    radonLegacyAt f N θ x = radonSkAt (masked f N) N θ x := by
  unfold radonLegacyAt radonSkAt
  rw [sum_eq, sum_eq]
  rw [← sum_range_reflect N (fun y => bilinear (masked f N) (skCoord N θ x y).1 (skCoord N θ x y).2)]
  congr 1
  apply List.map_congr_left
  intro y hy
  have hy' : y < N := List.mem_range.mp hy
  rw [torchCoordLegacy_eq_reflect N hN θ x y (N - 1 - y) (by omega)]

end QuantemModel.Radon
