import QuantemModel.Lemmas.AberrationAlias
import QuantemModel.Model.AberrationState
/-!
C12 (growth round 5) — the alias code as state: rejected calls are no-ops in every history, the
coefficients an accepted `probe_params` assignment stores are those of the hand model the
`defocus_alias_*` theorems are about, and only polar symbols ever reach the surface code through a
`HyperparameterState`, whatever sequence of operations ran before.
-/
namespace QuantemModel.Aberration
open QuantemModel QuantemModel.Generated.Aberration

section stateLemmas
variable {R : Type} [Num R]

/-! ### erasure: the error-aware loops agree with the loops of Model/Aberration.lean whenever they succeed -/

def eraseV : XVal R → Option R
  | .num x => some x
  | _ => none

def eraseTop : XTop R → PVal R
  | .leaf .none => .none
  | .leaf (.num x) => .num x
  | .leaf (.bad _) => .other
  | .dict items => .dict (items.map fun kv => (kv.1, eraseV kv.2))

theorem processStepX_ok (syms : List String) (aliases : List (String × String))
    (out o : List (String × R)) (k : String) (v : XVal R)
    (h : processStepX syms aliases out k v = .ok o) : o = processStep syms aliases out k (eraseV v) := by
  cases v with
  | none => simp only [processStepX] at h; injection h with h; subst h; rfl
  | num x => simp only [processStepX] at h; injection h with h; subst h; rfl
  | bad e =>
    simp only [processStepX] at h
    split at h
    · cases h
    · injection h with h; subst h; rfl

theorem processFromX_ok (syms : List String) (aliases : List (String × String)) :
    ∀ (l : List (String × XVal R)) (out o : List (String × R)),
      processFromX syms aliases out l = .ok o →
      o = processFrom syms aliases out (l.map fun kv => (kv.1, eraseV kv.2)) := by
  intro l
  induction l with
  | nil => intro out o h; simp only [processFromX] at h; injection h with h; subst h; rfl
  | cons hd tl ih =>
    intro out o h
    obtain ⟨k, v⟩ := hd
    simp only [processFromX] at h
    split at h
    · cases h
    · rename_i out' hs
      have := processStepX_ok syms aliases out out' k v hs
      subst this
      simp only [List.map_cons, processFrom]
      exact ih _ _ h

theorem processTopX_ok (syms : List String) (aliases : List (String × String)) :
    ∀ (l : List (String × XTop R)) (out o : List (String × R)),
      processTopX syms aliases out l = .ok o →
      o = processTop syms aliases out (l.map fun kv => (kv.1, eraseTop kv.2)) := by
  intro l
  induction l with
  | nil => intro out o h; simp only [processTopX] at h; injection h with h; subst h; rfl
  | cons hd tl ih =>
    intro out o h
    obtain ⟨k, v⟩ := hd
    cases v with
    | dict items =>
      simp only [processTopX] at h
      split at h
      · cases h
      · rename_i out' hs
        have := processFromX_ok syms aliases items out out' hs
        subst this
        simp only [List.map_cons, eraseTop, processTop]
        exact ih _ _ h
    | leaf lv =>
      simp only [processTopX] at h
      split at h
      · cases h
      · rename_i out' hs
        have hstep := processStepX_ok syms aliases out out' k lv hs
        subst hstep
        cases lv with
        | none => simp only [List.map_cons, eraseTop, processTop, eraseV, processStep]; exact ih _ _ h
        | num x => simp only [List.map_cons, eraseTop, processTop, eraseV]; exact ih _ _ h
        | bad e => simp only [List.map_cons, eraseTop, processTop, eraseV, processStep]; exact ih _ _ h

/-- an accepted assignment stores exactly what the hand model `probeParams` (the object of the
`defocus_alias_probe_params*` theorems) returns on the same dict with unconvertible values erased -/
theorem aberOf_eq_probeParams (defaults syms : List String) (aliases : List (String × String)) (mo : Option Nat)
    (p : List (String × XTop R)) (r : List (String × R))
    (hk : keysOk defaults syms aliases p = true) (h : aberOf syms aliases mo p = .ok r) :
    probeParams defaults syms aliases mo (p.map fun kv => (kv.1, eraseTop kv.2)) = .ok r := by
  unfold aberOf at h
  unfold probeParams
  have hk' : (p.map fun kv => (kv.1, eraseTop kv.2)).all
      (fun kv => defaults.contains kv.1 || syms.contains kv.1 || (aliasTarget aliases kv.1).isSome) = true := by
    unfold keysOk at hk
    rw [List.all_map]
    exact hk
  rw [if_pos hk']
  split at h
  · cases h
  · rename_i out hs
    have := processTopX_ok syms aliases p [] out hs
    subst this
    cases mo with
    | none => simpa using h
    | some m => simpa using h

/-! ### exception safety of the setter, in every history -/

/-- the assignments that are accepted (they do not depend on the state) -/
def accepted (defaults syms : List String) (aliases : List (String × String)) (mo : Option Nat)
    (p : List (String × XTop R)) : Bool :=
  keysOk defaults syms aliases p &&
    (match aberOf syms aliases mo p with | .ok _ => true | .error _ => false)

theorem assign_rejected (defaults syms : List String) (aliases : List (String × String)) (mo : Option Nat)
    (st : PState R) (p : List (String × XTop R)) (h : accepted defaults syms aliases mo p = false) :
    (PState.assign defaults syms aliases mo st p).2 = st ∧ (PState.assign defaults syms aliases mo st p).1 ≠ none := by
  unfold PState.assign
  unfold accepted at h
  by_cases hk : keysOk defaults syms aliases p = true
  · rw [if_pos hk]
    rw [hk, Bool.true_and] at h
    cases ha : aberOf syms aliases mo p with
    | error e => simp
    | ok a => rw [ha] at h; cases h
  · rw [if_neg hk]; simp

theorem assign_accepted (defaults syms : List String) (aliases : List (String × String)) (mo : Option Nat)
    (st : PState R) (p : List (String × XTop R)) (h : accepted defaults syms aliases mo p = true) :
    (PState.assign defaults syms aliases mo st p).1 = none ∧
    aberOf syms aliases mo p = .ok (PState.assign defaults syms aliases mo st p).2.aber := by
  unfold PState.assign
  unfold accepted at h
  simp only [Bool.and_eq_true] at h
  rw [if_pos h.1]
  cases ha : aberOf syms aliases mo p with
  | error e => rw [ha] at h; cases h.2
  | ok a => simp

theorem assign_result_iff (defaults syms : List String) (aliases : List (String × String)) (mo : Option Nat)
    (st : PState R) (p : List (String × XTop R)) :
    (PState.assign defaults syms aliases mo st p).1 = none ↔ accepted defaults syms aliases mo p = true := by
  constructor
  · intro h
    by_cases ha : accepted defaults syms aliases mo p = true
    · exact ha
    · have := (assign_rejected defaults syms aliases mo st p (by simpa using ha)).2
      exact absurd h this
  · intro h; exact (assign_accepted defaults syms aliases mo st p h).1

/-- rejected assignments can be deleted from any history: the final state is that of the accepted ones alone -/
theorem final_filter_accepted (defaults syms : List String) (aliases : List (String × String)) (mo : Option Nat) :
    ∀ (hist : List (List (String × XTop R))) (st : PState R),
      PState.final defaults syms aliases mo st hist
        = PState.final defaults syms aliases mo st (hist.filter (accepted defaults syms aliases mo)) := by
  intro hist
  induction hist with
  | nil => intro st; rfl
  | cons p rest ih =>
    intro st
    by_cases ha : accepted defaults syms aliases mo p = true
    · rw [List.filter_cons_of_pos ha]
      simp only [PState.final]
      exact ih _
    · have ha' : accepted defaults syms aliases mo p = false := by simpa using ha
      rw [List.filter_cons_of_neg (by simpa using ha)]
      simp only [PState.final]
      rw [(assign_rejected defaults syms aliases mo st p ha').1]
      exact ih _

theorem final_append (defaults syms : List String) (aliases : List (String × String)) (mo : Option Nat) :
    ∀ (h1 h2 : List (List (String × XTop R))) (st : PState R),
      PState.final defaults syms aliases mo st (h1 ++ h2)
        = PState.final defaults syms aliases mo (PState.final defaults syms aliases mo st h1) h2 := by
  intro h1
  induction h1 with
  | nil => intro h2 st; rfl
  | cons p rest ih => intro h2 st; simp only [List.cons_append, PState.final]; exact ih _ _

theorem final_all_rejected (defaults syms : List String) (aliases : List (String × String)) (mo : Option Nat) :
    ∀ (hist : List (List (String × XTop R))) (st : PState R),
      (∀ p ∈ hist, accepted defaults syms aliases mo p = false) →
      PState.final defaults syms aliases mo st hist = st := by
  intro hist
  induction hist with
  | nil => intro st _; rfl
  | cons p rest ih =>
    intro st h
    simp only [PState.final]
    rw [(assign_rejected defaults syms aliases mo st p (h p (by simp))).1]
    exact ih _ (fun q hq => h q (List.mem_cons_of_mem _ hq))

/-- after ANY history, the stored coefficients are those of the last accepted assignment -/
theorem final_aber_last_accepted (defaults syms : List String) (aliases : List (String × String)) (mo : Option Nat)
    (h1 h2 : List (List (String × XTop R))) (p : List (String × XTop R)) (st : PState R)
    (hp : accepted defaults syms aliases mo p = true)
    (h2r : ∀ q ∈ h2, accepted defaults syms aliases mo q = false) :
    aberOf syms aliases mo p = .ok (PState.final defaults syms aliases mo st (h1 ++ p :: h2)).aber := by
  rw [final_append]
  simp only [PState.final]
  rw [final_all_rejected defaults syms aliases mo h2 _ h2r]
  exact (assign_accepted defaults syms aliases mo _ p hp).2

/-! ### HyperparameterState: only polar symbols reach the surface code -/

/-- every key is a polar symbol -/
def Canon (syms : List String) (d : List (String × R)) : Prop := ∀ kv ∈ d, syms.contains kv.1 = true

theorem canon_nil (syms : List String) : Canon syms ([] : List (String × R)) := by
  intro kv h; cases h

theorem dset_canon (syms : List String) (k : String) (v : R) (hk : syms.contains k = true) :
    ∀ (d : List (String × R)), Canon syms d → Canon syms (dset d k v) := by
  intro d
  induction d with
  | nil => intro _ kv h; simp only [dset, List.mem_singleton] at h; subst h; exact hk
  | cons hd tl ih =>
    intro hc kv h
    obtain ⟨a, x⟩ := hd
    simp only [dset] at h
    split at h
    · rename_i hak
      simp only [List.mem_cons] at h
      rcases h with h | h
      · subst h; exact hc (a, x) (by simp)
      · exact hc kv (List.mem_cons_of_mem _ h)
    · simp only [List.mem_cons] at h
      rcases h with h | h
      · subst h; exact hc (a, x) (by simp)
      · exact ih (fun q hq => hc q (List.mem_cons_of_mem _ hq)) kv h

theorem aliasTarget_mem (aliases : List (String × String)) (k t : String) :
    aliasTarget aliases k = some t → (k, t) ∈ aliases := by
  induction aliases with
  | nil => intro h; cases h
  | cons hd tl ih =>
    obtain ⟨a, b⟩ := hd
    intro h
    simp only [aliasTarget] at h
    split at h
    · rename_i hak; injection h with h; subst h; subst hak; simp
    · exact List.mem_cons_of_mem _ (ih h)

/-- the tables are closed: every alias names a polar symbol, and C10 is one -/
structure TablesClosed (syms : List String) (aliases : List (String × String)) : Prop where
  alias_targets : ∀ at_ ∈ aliases, syms.contains at_.2 = true
  c10 : syms.contains "C10" = true

theorem processStep_canon (syms : List String) (aliases : List (String × String)) (ht : TablesClosed syms aliases)
    (out : List (String × R)) (k : String) (v : Option R) (hc : Canon syms out) :
    Canon syms (processStep syms aliases out k v) := by
  unfold processStep
  cases v with
  | none => exact hc
  | some x =>
    simp only
    split
    · rename_i h1; exact dset_canon syms k x h1 _ hc
    · split
      · exact dset_canon syms "C10" (-x) ht.c10 _ hc
      · split
        · rename_i t hat
          exact dset_canon syms t x (ht.alias_targets (k, t) (aliasTarget_mem _ _ _ hat)) _ hc
        · exact hc

theorem processFrom_canon (syms : List String) (aliases : List (String × String)) (ht : TablesClosed syms aliases) :
    ∀ (l : List (String × Option R)) (out : List (String × R)), Canon syms out →
      Canon syms (processFrom syms aliases out l) := by
  intro l
  induction l with
  | nil => intro out hc; exact hc
  | cons hd tl ih =>
    intro out hc
    obtain ⟨k, v⟩ := hd
    simp only [processFrom]
    exact ih _ (processStep_canon syms aliases ht out k v hc)

theorem validateX_canon (syms : List String) (aliases : List (String × String)) (ht : TablesClosed syms aliases)
    (l : List (String × XVal R)) (r : List (String × R)) (h : validateX syms aliases l = .ok r) : Canon syms r := by
  unfold validateX at h
  split at h
  · have := processFromX_ok syms aliases l [] r h
    subst this
    exact processFrom_canon syms aliases ht _ _ (canon_nil syms)
  · cases h

theorem dupdate_canon (syms : List String) :
    ∀ (b a : List (String × R)), Canon syms a → Canon syms b → Canon syms (dupdate a b) := by
  intro b
  induction b with
  | nil => intro a ha _; exact ha
  | cons hd tl ih =>
    intro a ha hb
    unfold dupdate
    simp only [List.foldl_cons]
    exact ih _ (dset_canon syms hd.1 hd.2 (hb hd (by simp)) _ ha) (fun q hq => hb q (List.mem_cons_of_mem _ hq))

def HState.Canon (syms : List String) (st : HState R) : Prop :=
  Aberration.Canon syms st.initial ∧ Aberration.Canon syms st.optimized

theorem current_canon (syms : List String) (aliases : List (String × String)) (ht : TablesClosed syms aliases)
    (st : HState R) (hs : HState.Canon syms st) (o : Option (List (String × XVal R))) (d : List (String × R))
    (h : HState.current syms aliases st o = .ok d) : Canon syms d := by
  unfold HState.current at h
  cases o with
  | none => simp only at h; injection h with h; subst h; exact dupdate_canon syms _ _ hs.1 hs.2
  | some ov =>
    simp only at h
    split at h
    · cases h
    · rename_i v hv
      injection h with h; subst h
      exact dupdate_canon syms _ _ (dupdate_canon syms _ _ hs.1 hs.2) (validateX_canon syms aliases ht ov v hv)

theorem create_canon (syms : List String) (aliases : List (String × String)) (ht : TablesClosed syms aliases)
    (ini : List (String × XVal R)) (st : HState R) (h : HState.create syms aliases ini = .ok st) :
    HState.Canon syms st := by
  unfold HState.create at h
  split at h
  · cases h
  · rename_i v hv
    injection h with h; subst h
    exact ⟨validateX_canon syms aliases ht ini v hv, canon_nil syms⟩

theorem step_canon (syms : List String) (aliases : List (String × String)) (ht : TablesClosed syms aliases)
    (st : HState R) (hs : HState.Canon syms st) (op : HOp R) :
    HState.Canon syms (HState.step syms aliases st op).2 := by
  have hclr : HState.Canon syms ({ st with optimized := [] } : HState R) := ⟨hs.1, canon_nil syms⟩
  cases op with
  | current o => exact hs
  | clearOptimized => exact hclr
  | clearAll => exact ⟨canon_nil syms, canon_nil syms⟩
  | search best fixed =>
    simp only [HState.step]
    split
    · exact hclr
    · split
      · exact hclr
      · rename_i vb hvb
        have h2 : HState.Canon syms ({ st with optimized := vb } : HState R) :=
          ⟨hs.1, validateX_canon syms aliases ht best vb hvb⟩
        split
        · exact h2
        · rename_i cur hcur
          exact ⟨hs.1, current_canon syms aliases ht _ h2 _ cur hcur⟩
  | crossCorrelation o fit =>
    simp only [HState.step]
    split
    · exact hclr
    · split
      · exact hclr
      · rename_i vf hvf
        exact ⟨hs.1, validateX_canon syms aliases ht fit vf hvf⟩

theorem final_canon (syms : List String) (aliases : List (String × String)) (ht : TablesClosed syms aliases) :
    ∀ (ops : List (HOp R)) (st : HState R), HState.Canon syms st →
      HState.Canon syms (HState.final syms aliases st ops) := by
  intro ops
  induction ops with
  | nil => intro st hs; exact hs
  | cons op rest ih =>
    intro st hs
    simp only [HState.final]
    exact ih _ (step_canon syms aliases ht st hs op)

/-! ### alias and symbol are the same input -/

theorem validateX_defocus_single (syms : List String) (aliases : List (String × String)) (x : R)
    (hs : syms.contains "defocus" = false) (ha : (aliasTarget aliases "defocus").isSome = true) :
    validateX syms aliases [("defocus", XVal.num x)] = .ok [("C10", -x)] := by
  unfold validateX
  have hall : ([("defocus", XVal.num x)] : List (String × XVal R)).all
      (fun kv => syms.contains kv.1 || (aliasTarget aliases kv.1).isSome) = true := by
    simp only [List.all_cons, List.all_nil, Bool.and_true, ha, Bool.or_true]
  rw [if_pos hall]
  simp only [processFromX, processStepX, processStep, hs, Bool.false_eq_true, if_false, ↓reduceIte, dset]

theorem validateX_symbol_single (syms : List String) (aliases : List (String × String)) (k : String) (y : R)
    (hk : syms.contains k = true) :
    validateX syms aliases [(k, XVal.num y)] = .ok [(k, y)] := by
  unfold validateX
  have hall : ([(k, XVal.num y)] : List (String × XVal R)).all
      (fun kv => syms.contains kv.1 || (aliasTarget aliases kv.1).isSome) = true := by
    simp only [List.all_cons, List.all_nil, Bool.and_true, hk, Bool.true_or]
  rw [if_pos hall]
  simp only [processFromX, processStepX, processStep, hk, ↓reduceIte, dset]

/-- with no fixed entries, a search write-back depends on the best-parameter dict only through its validated form -/
theorem step_search_nil_congr (syms : List String) (aliases : List (String × String)) (st : HState R)
    (b1 b2 : List (String × XVal R)) (h : validateX syms aliases b1 = validateX syms aliases b2) :
    HState.step syms aliases st (.search b1 []) = HState.step syms aliases st (.search b2 []) := by
  simp only [HState.step, HState.current, dupdateX, List.foldl_nil, h]

end stateLemmas

end QuantemModel.Aberration
