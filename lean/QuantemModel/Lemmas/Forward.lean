import QuantemModel.Model.Forward
import QuantemModel.Lemmas.PtychoOpsForward
import Mathlib.Tactic.Ring
import Mathlib.Tactic.Linarith
/-!
Helper lemmas for Props/C02.lean, part 1: the permutation algebra of `fftshift` / `ifftshift` /
`roll` on lists and rectangular images (any element type), and the index lemmas that relate the
FFT-ordered signed offsets `fftfreqInt` to natural-order centred coordinates.
-/
namespace QuantemModel.Forward
open QuantemModel QuantemModel.PtychoOps

/-! ### rotation of a list -/
/-- `x[s:] ++ x[:s]` -/
def rot {α : Type} (x : List α) (s : ℕ) : List α := x.drop s ++ x.take s

theorem fftshift_eq_rot {α : Type} (x : List α) : Dft.fftshift x = rot x (x.length - x.length / 2) := rfl
theorem ifftshift_eq_rot {α : Type} (x : List α) : Dft.ifftshift x = rot x (x.length / 2) := rfl

theorem rot_vbuild {β : Type} {N : ℕ} (g : ℕ → β) {s : ℕ} (hs : s ≤ N) :
    rot (vbuild N g) s = vbuild N (fun i => g ((i + s) % N)) := by
  apply List.ext_getElem
  · simp [rot, vbuild]; omega
  · intro i h1 h2
    have hi : i < N := by simpa [vbuild] using h2
    simp only [rot, vbuild]
    by_cases h : i < N - s
    · rw [List.getElem_append_left (by simp; omega)]
      simp only [List.getElem_drop, List.getElem_map, List.getElem_range]
      congr 1
      rw [Nat.mod_eq_of_lt (by omega)]; omega
    · rw [List.getElem_append_right (by simp; omega)]
      simp only [List.getElem_take, List.getElem_map, List.getElem_range, List.length_drop, List.length_map,
        List.length_range]
      have hmod : (i + s) % N = i - (N - s) := by
        rw [Nat.mod_eq_sub_mod (by omega), Nat.mod_eq_of_lt (by omega)]; omega
      rw [hmod]

/-- source index of `fftshift`: `fftshift(x)[i] = x[sh N i]` -/
def sh (N i : ℕ) : ℕ := (i + (N - N / 2)) % N
/-- source index of `ifftshift`: `ifftshift(x)[i] = x[ish N i]` -/
def ish (N i : ℕ) : ℕ := (i + N / 2) % N

theorem fftshift_vbuild {β : Type} (N : ℕ) (g : ℕ → β) :
    Dft.fftshift (vbuild N g) = vbuild N (fun i => g (sh N i)) := by
  rw [fftshift_eq_rot, vbuild_length, rot_vbuild g (Nat.sub_le _ _)]; rfl

theorem ifftshift_vbuild {β : Type} (N : ℕ) (g : ℕ → β) :
    Dft.ifftshift (vbuild N g) = vbuild N (fun i => g (ish N i)) := by
  rw [ifftshift_eq_rot, vbuild_length, rot_vbuild g (Nat.div_le_self _ _)]; rfl

theorem sh_lt {N i : ℕ} (hN : 0 < N) : sh N i < N := Nat.mod_lt _ hN
theorem ish_lt {N i : ℕ} (hN : 0 < N) : ish N i < N := Nat.mod_lt _ hN

theorem sh_ish {N i : ℕ} (hi : i < N) : sh N (ish N i) = i := by
  unfold sh ish
  rw [Nat.mod_add_mod]
  have : i + N / 2 + (N - N / 2) = i + N := by have := Nat.div_le_self N 2; omega
  rw [this, Nat.add_mod_right, Nat.mod_eq_of_lt hi]

theorem ish_sh {N i : ℕ} (hi : i < N) : ish N (sh N i) = i := by
  unfold sh ish
  rw [Nat.mod_add_mod]
  have : i + (N - N / 2) + N / 2 = i + N := by have := Nat.div_le_self N 2; omega
  rw [this, Nat.add_mod_right, Nat.mod_eq_of_lt hi]

/-! ### 2-D shifts on `build` -/
theorem fftshift2_build {β : Type} (nr nc : ℕ) (g : ℕ → ℕ → β) :
    fftshift2 (build nr nc g) = build nr nc (fun i j => g (sh nr i) (sh nc j)) := by
  unfold fftshift2 build
  rw [vbuild_map]
  have : (vbuild nr fun i => Dft.fftshift (vbuild nc (g i))) = vbuild nr fun i => vbuild nc (fun j => g i (sh nc j)) :=
    vbuild_congr fun i _ => fftshift_vbuild nc (g i)
  rw [this, fftshift_vbuild]

theorem ifftshift2_build {β : Type} (nr nc : ℕ) (g : ℕ → ℕ → β) :
    ifftshift2 (build nr nc g) = build nr nc (fun i j => g (ish nr i) (ish nc j)) := by
  unfold ifftshift2 build
  rw [vbuild_map]
  have : (vbuild nr fun i => Dft.ifftshift (vbuild nc (g i))) = vbuild nr fun i => vbuild nc (fun j => g i (ish nc j)) :=
    vbuild_congr fun i _ => ifftshift_vbuild nc (g i)
  rw [this, ifftshift_vbuild]

theorem rect_fftshift2 {β : Type} [Inhabited β] {nr nc : ℕ} {x : List (List β)} (h : Rect nr nc x) : Rect nr nc (fftshift2 x) := by
  obtain ⟨g, rfl⟩ := h.exists_build
  rw [fftshift2_build]; exact rect_build _ _ _

theorem rect_ifftshift2 {β : Type} [Inhabited β] {nr nc : ℕ} {x : List (List β)} (h : Rect nr nc x) : Rect nr nc (ifftshift2 x) := by
  obtain ⟨g, rfl⟩ := h.exists_build
  rw [ifftshift2_build]; exact rect_build _ _ _

/-- **fftshift ∘ ifftshift = id** on rectangular images of every size (even, odd, non-square) -/
theorem fftshift2_ifftshift2 {β : Type} [Inhabited β] {nr nc : ℕ} {x : List (List β)} (h : Rect nr nc x) :
    fftshift2 (ifftshift2 x) = x := by
  obtain ⟨g, rfl⟩ := h.exists_build
  rw [ifftshift2_build, fftshift2_build]
  exact build_congr fun i hi j hj => by rw [ish_sh hi, ish_sh hj]

/-- **ifftshift ∘ fftshift = id** -/
theorem ifftshift2_fftshift2 {β : Type} [Inhabited β] {nr nc : ℕ} {x : List (List β)} (h : Rect nr nc x) :
    ifftshift2 (fftshift2 x) = x := by
  obtain ⟨g, rfl⟩ := h.exists_build
  rw [fftshift2_build, ifftshift2_build]
  exact build_congr fun i hi j hj => by rw [sh_ish hi, sh_ish hj]

/-- pixelwise binary operations commute with the shifts -/
theorem zipWith2_fftshift2 {β γ δ : Type} [Inhabited β] [Inhabited γ] (f : β → γ → δ) {nr nc : ℕ}
    {a : List (List β)} {b : List (List γ)} (ha : Rect nr nc a) (hb : Rect nr nc b) :
    List.zipWith (List.zipWith f) (fftshift2 a) (fftshift2 b) = fftshift2 (List.zipWith (List.zipWith f) a b) := by
  obtain ⟨g, rfl⟩ := ha.exists_build
  obtain ⟨h, rfl⟩ := hb.exists_build
  rw [fftshift2_build, fftshift2_build, zipWith_build, zipWith_build, fftshift2_build]

theorem zipWith2_ifftshift2 {β γ δ : Type} [Inhabited β] [Inhabited γ] (f : β → γ → δ) {nr nc : ℕ}
    {a : List (List β)} {b : List (List γ)} (ha : Rect nr nc a) (hb : Rect nr nc b) :
    List.zipWith (List.zipWith f) (ifftshift2 a) (ifftshift2 b) = ifftshift2 (List.zipWith (List.zipWith f) a b) := by
  obtain ⟨g, rfl⟩ := ha.exists_build
  obtain ⟨h, rfl⟩ := hb.exists_build
  rw [ifftshift2_build, ifftshift2_build, zipWith_build, zipWith_build, ifftshift2_build]

/-- pixelwise maps commute with the shifts (any lists) -/
theorem fftshift_map {α β : Type} (f : α → β) (x : List α) : Dft.fftshift (x.map f) = (Dft.fftshift x).map f := by
  simp [Dft.fftshift, List.map_drop, List.map_take]

theorem ifftshift_map {α β : Type} (f : α → β) (x : List α) : Dft.ifftshift (x.map f) = (Dft.ifftshift x).map f := by
  simp [Dft.ifftshift, List.map_drop, List.map_take]

theorem fftshift2_map {α β : Type} (f : α → β) (x : List (List α)) :
    fftshift2 (x.map (·.map f)) = (fftshift2 x).map (·.map f) := by
  unfold fftshift2
  rw [← fftshift_map, List.map_map, List.map_map]
  congr 1
  apply List.map_congr_left
  intro r _
  exact fftshift_map f r

theorem ifftshift2_map {α β : Type} (f : α → β) (x : List (List α)) :
    ifftshift2 (x.map (·.map f)) = (ifftshift2 x).map (·.map f) := by
  unfold ifftshift2
  rw [← ifftshift_map, List.map_map, List.map_map]
  congr 1
  apply List.map_congr_left
  intro r _
  exact ifftshift_map f r

/-! ### FFT-ordered signed offsets versus natural-order centred coordinates -/

/-- **fftfreq ordering ↔ natural order**: the signed offset stored at FFT position `i` is the centred
coordinate of natural position `ish N i = (i + ⌊N/2⌋) mod N`, for every `N` (even and odd) -/
theorem fftfreqInt_eq_ish {N i : ℕ} (hi : i < N) :
    Dft.fftfreqInt N i = ((ish N i : ℕ) : ℤ) - ((N / 2 : ℕ) : ℤ) := by
  unfold Dft.fftfreqInt ish
  by_cases h : i + N / 2 < N
  · rw [Nat.mod_eq_of_lt h, if_pos (by omega)]
    push_cast; ring
  · have hmod : (i + N / 2) % N = i + N / 2 - N := by
      rw [Nat.mod_eq_sub_mod (by omega), Nat.mod_eq_of_lt (by omega)]
    rw [hmod, if_neg (by omega)]
    omega

/-- the same read from the centred side: natural position `j` holds the offset `j - ⌊N/2⌋`, which the
FFT order stores at position `sh N j` -/
theorem fftfreqInt_sh {N j : ℕ} (hj : j < N) :
    Dft.fftfreqInt N (sh N j) = (j : ℤ) - ((N / 2 : ℕ) : ℤ) := by
  rw [fftfreqInt_eq_ish (sh_lt (Nat.zero_lt_of_lt hj)), ish_sh hj]

/-! ### integer rolls -/
theorem roll_eq_rot {α : Type} (x : List α) (s : ℤ) (hN : x.length ≠ 0) :
    Dft.roll x s = rot x (x.length - (s % (x.length : ℤ)).toNat) := by
  unfold Dft.roll rot
  simp [hN]

/-- **roll ↔ ifftshift**: `np.roll(x, -(N // 2)) = ifftshift(x)` for every length -/
theorem roll_neg_half {β : Type} (N : ℕ) (g : ℕ → β) :
    Dft.roll (vbuild N g) (-((N / 2 : ℕ) : ℤ)) = Dft.ifftshift (vbuild N g) := by
  rcases Nat.eq_zero_or_pos N with h0 | hN
  · subst h0; simp [Dft.roll, Dft.ifftshift, vbuild]
  rw [roll_eq_rot _ _ (by simp; omega), ifftshift_eq_rot, vbuild_length]
  by_cases h2 : N / 2 = 0
  · rw [h2]
    have hl : (vbuild N g).length ≤ N := by simp
    simp [rot, List.drop_eq_nil_of_le hl, List.take_of_length_le hl]
  · have hlt : N / 2 < N := Nat.div_lt_self hN (by norm_num)
    have hmod : (-((N / 2 : ℕ) : ℤ)) % (N : ℤ) = ((N - N / 2 : ℕ) : ℤ) := by
      have e1 : (-((N / 2 : ℕ) : ℤ)) = ((N - N / 2 : ℕ) : ℤ) + (N : ℤ) * (-1) := by omega
      rw [e1, Int.add_mul_emod_self_left, Int.emod_eq_of_lt (by omega) (by omega)]
    rw [hmod, Int.toNat_natCast]
    congr 1; omega

/-- **shift by −⌊N/2⌋ then fftshift = identity** (1-D, every length) -/
theorem fftshift_roll_neg_half {β : Type} (N : ℕ) (g : ℕ → β) :
    Dft.fftshift (Dft.roll (vbuild N g) (-((N / 2 : ℕ) : ℤ))) = vbuild N g := by
  rw [roll_neg_half, ifftshift_vbuild, fftshift_vbuild]
  exact vbuild_congr fun i hi => by rw [ish_sh hi]

theorem roll2_neg_half {β : Type} {nr nc : ℕ} (g : ℕ → ℕ → β) :
    roll2 (build nr nc g) (-((nr / 2 : ℕ) : ℤ)) (-((nc / 2 : ℕ) : ℤ)) = ifftshift2 (build nr nc g) := by
  unfold roll2 ifftshift2 build
  rw [vbuild_map, vbuild_map]
  have : (vbuild nr fun i => Dft.roll (vbuild nc (g i)) (-((nc / 2 : ℕ) : ℤ)))
      = vbuild nr fun i => Dft.ifftshift (vbuild nc (g i)) := vbuild_congr fun i _ => roll_neg_half nc (g i)
  rw [this, roll_neg_half]

end QuantemModel.Forward

namespace QuantemModel.Forward
/-! ### scan positions inside the object box: the clip constraint is the identity -/
/-- the scan position is a valid pixel coordinate of the `H × W` object (`0 ≤ p ≤ shape − 1`) -/
def InBox (H W : ℕ) (p : ℚ × ℚ) : Prop := 0 ≤ p.1 ∧ p.1 ≤ (H : ℚ) - 1 ∧ 0 ≤ p.2 ∧ p.2 ≤ (W : ℚ) - 1

theorem clampRat_of_mem {x lo hi : ℚ} (h1 : lo ≤ x) (h2 : x ≤ hi) : clampRat x lo hi = x := by
  unfold clampRat
  rw [if_neg (not_lt.2 h1), if_neg (not_lt.2 h2)]

theorem clipPosition_of_inBox {H W : ℕ} {p : ℚ × ℚ} (h : InBox H W p) : clipPosition H W p = p := by
  obtain ⟨h1, h2, h3, h4⟩ := h
  unfold clipPosition
  rw [clampRat_of_mem h1 h2, clampRat_of_mem h3 h4]
end QuantemModel.Forward
