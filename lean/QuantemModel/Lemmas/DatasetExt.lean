import QuantemModel.Lemmas.Dataset
import QuantemModel.Model.DatasetExt
/- C03, growth 5 — helper lemmas about the input forms of Model/DatasetExt.lean. -/
namespace QuantemModel.DatasetExt
open QuantemModel.Nd QuantemModel.Resample QuantemModel.Dataset

theorem pyInt_intCast (n : Int) : pyInt (n : Rat) = n := by
  simp [pyInt]

theorem validateNdForm_length {v : NdForm} {n : Nat} {qs : List Rat} (h : validateNdForm v n = .ok qs) :
    qs.length = n := by
  cases v with
  | num q => simp [validateNdForm] at h; subst h; simp
  | boolScalar => simp [validateNdForm] at h
  | strScalar => simp [validateNdForm] at h
  | flat l =>
    simp only [validateNdForm] at h
    split at h
    · simp at h
    · rename_i hl; simp at h; subst h; simpa using hl
  | nested rows =>
    simp only [validateNdForm] at h
    split at h
    · simp at h
    · rename_i hl; simp at h; subst h; simpa using hl
  | nonNumeric len => simp only [validateNdForm] at h; split at h <;> simp at h
  | ragged => simp [validateNdForm] at h
  | other => simp [validateNdForm] at h

theorem validateNdForm_plain (v : NdInfo) (n : Nat) :
    validateNdForm (NdForm.ofNdInfo v) n = validateNdinfo v n := by
  cases v <;> simp [NdForm.ofNdInfo, validateNdForm, validateNdinfo]

theorem validateUnitsForm_plain (v : UnitsArg) (n : Nat) :
    validateUnitsForm (UnitsForm.ofArg v) n = validateUnits v n := by
  cases v <;> simp [UnitsForm.ofArg, validateUnitsForm, validateUnits, Function.comp_def, UEntry.toStr]

theorem setInplace_self {op : Op} {b : Bool} (h : op.inplace? = some b) : op.setInplace b = op := by
  cases op <;> simp [Op.inplace?] at h <;> simp [Op.setInplace, h]

theorem setInplace_inplace {op : Op} (b : Bool) (h : op.inplace? ≠ none) : (op.setInplace b).inplace? = some b := by
  cases op <;> simp [Op.inplace?] at h <;> simp [Op.setInplace, Op.inplace?]

theorem setInplace_WF {op : Op} (b : Bool) (h : op.WF) : (op.setInplace b).WF := by
  cases op <;> simp_all [Op.setInplace, Op.WF]

theorem stepX_reduces {d : Ds} {ox : OpX} {r : Ds × Option Ds} (h : stepX d ox = .ok r) :
    ∃ op : Op, (OpX.WF ox → op.WF) ∧ step d op = .ok r := by
  cases ox with
  | base op => exact ⟨op, id, h⟩
  | copyWith c => exact ⟨.copy, fun _ => trivial, h⟩
  | setOriginF v =>
    simp only [stepX, setNd] at h
    split at h
    · simp at h
    · rename_i qs hq
      refine ⟨.setOrigin (.list qs), fun _ => trivial, ?_⟩
      simp only [step]
      split at h
      · simp at h
      · rename_i r' hr; rw [hr]; simpa using h
  | setSamplingF v =>
    simp only [stepX, setNd] at h
    split at h
    · simp at h
    · rename_i qs hq
      refine ⟨.setSampling (.list qs), fun _ => trivial, ?_⟩
      simp only [step]
      split at h
      · simp at h
      · rename_i r' hr; rw [hr]; simpa using h
  | setUnitsF v =>
    simp only [stepX] at h
    split at h
    · simp at h
    · exact ⟨.setUnits _, fun _ => trivial, h⟩
  | setArrayF f sh dat k =>
    simp only [stepX] at h
    split at h
    · simp at h
    · rename_i sh' hs
      refine ⟨.setArray sh' dat k, ?_, h⟩
      intro hw
      have : sh' = sh := by
        cases f <;> simp only [ensureValidForm] at hs
        · simp at hs; exact hs.symm
        · split at hs
          · simp at hs
          · split at hs <;> simp at hs; exact hs.symm
        · simp at hs
        · simp at hs
      subst this; exact hw
  | cropF w ax ip =>
    simp only [stepX] at h
    split at h
    · simp at h
    · exact ⟨.crop _ _ _, fun _ => trivial, h⟩
  | binF f ax m b ip =>
    simp only [stepX] at h
    split at h
    · simp at h
    · split at h
      · simp at h
      · exact ⟨.bin _ _ _ _ _, fun _ => trivial, h⟩
  | resampleF arg ax ip =>
    simp only [stepX] at h
    split at h
    · simp at h
    · exact ⟨.resample _ _ _, fun _ => trivial, h⟩
  | getitemF ix => exact ⟨.getitem _, fun _ => trivial, h⟩

theorem fromArrayF_inv {cls : DsClass} {form : ArrayForm} {shape : List Nat} {data : Option (List Val)} {kind : Kind}
    {o s : Option NdForm} {u : Option UnitsForm} {d : Ds} (hd : dataOk shape data)
    (h : fromArrayF cls form shape data kind o s u = .ok d) :
    Inv d ∧ d.cls = cls ∧ d.kind = kind ∧ d.data = data := by
  simp only [fromArrayF] at h
  split at h
  · simp at h
  · rename_i sh hsh
    have hsh' : sh = shape := by
      cases form <;> simp only [ensureValidForm] at hsh
      · simp at hsh; exact hsh.symm
      · split at hsh
        · simp at hsh
        · split at hsh <;> simp at hsh; exact hsh.symm
      · simp at hsh
      · simp at hsh
    subst hsh'
    split at h
    · simp at h
    · rename_i shape' hreq
      split at h
      · simp at h
      · rename_i origin ho
        split at h
        · simp at h
        · rename_i sampling hs
          split at h
          · simp at h
          · rename_i units hu
            simp at h
            subst h
            have h1 := validateNdForm_length ho
            have h2 := validateNdForm_length hs
            have hfa : fromArray cls sh data kind (some (.list origin)) (some (.list sampling)) (some (.list units)) =
                .ok ⟨cls, shape', data, kind, origin, sampling, units⟩ := by
              have h3 : units.length = shape'.length := by
                cases hu' : u.getD (.seq ((defaultUnits cls shape'.length).map UEntry.str)) with
                | str s0 => rw [hu'] at hu; simp [validateUnitsForm] at hu; subst hu; simp
                | seq es =>
                  rw [hu'] at hu; simp only [validateUnitsForm] at hu
                  split at hu
                  · simp at hu
                  · rename_i hl; simp at hu; subst hu; simpa using hl
                | other => rw [hu'] at hu; simp [validateUnitsForm] at hu
              simp [fromArray, hreq, validateNdinfo, validateUnits, h1, h2, h3]
            exact ⟨fromArray_inv hd hfa, rfl, rfl, rfl⟩

end QuantemModel.DatasetExt
