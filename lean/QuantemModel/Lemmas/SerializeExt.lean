import QuantemModel.Model.SerializeExt
/-! helper lemmas for the history layer of the serializer model (C01) -/
namespace QuantemModel.Serialize

deriving instance DecidableEq for Except

theorem fsGet_fsSet_same (fs : Fs) (p : String) (s : Saved) : fsGet (fsSet fs p s) p = some s := by
  induction fs with
  | nil => simp [fsSet, fsGet]
  | cons x rest ih =>
    obtain ⟨q, t⟩ := x
    by_cases h : q = p
    · simp [fsSet, fsGet, h]
    · simp [fsSet, fsGet, h, ih]

theorem fsGet_fsSet_ne (fs : Fs) (p q : String) (s : Saved) (h : q ≠ p) :
    fsGet (fsSet fs p s) q = fsGet fs q := by
  induction fs with
  | nil =>
    have : ¬ p = q := fun e => h e.symm
    simp [fsSet, fsGet, this]
  | cons x rest ih =>
    obtain ⟨r, t⟩ := x
    by_cases h1 : r = p
    · subst h1
      have : ¬ r = q := fun e => h e.symm
      simp [fsSet, fsGet, this]
    · by_cases h2 : r = q
      · subst h2
        simp [fsSet, fsGet, h1]
      · simp [fsSet, fsGet, h1, h2, ih]

theorem hrun_append (fs : Fs) (xs ys : List HOp) :
    (hrun fs (xs ++ ys)).1 = (hrun (hrun fs xs).1 ys).1 := by
  induction xs generalizing fs with
  | nil => simp [hrun]
  | cons x rest ih => simp [hrun, ih]

/-- an accepted save writes exactly `resolvePath a` with store kind `resolveStore a` -/
theorem resolveSave_ok_eq (ex : String → Bool) (a : SaveArgs) (r : String × String)
    (h : resolveSave ex a = .ok r) : r = (resolveStore a, resolvePath a) := by
  unfold resolveSave at h
  split at h
  · cases h
  · simp only at h
    split at h
    · cases h
    · split at h
      · cases h
      · split at h
        · cases h
        · cases h; rfl

/-- an accepted save onto an existing target was called with `mode="o"` and a level in range -/
theorem resolveSave_ok_exists (ex : String → Bool) (a : SaveArgs) (r : String × String)
    (h : resolveSave ex a = .ok r) (hex : ex (resolvePath a) = true) :
    a.mode = "o" ∧ levelOk a.level = true := by
  unfold resolveSave at h
  split at h
  · cases h
  · rename_i hl
    simp only at h
    split at h
    · cases h
    · rename_i hm
      refine ⟨?_, by simpa using hl⟩
      simp only [hex, Bool.true_and, bne_iff_ne, ne_eq, Decidable.not_not] at hm
      exact hm

/-- a quiet call leaves an existing target as it is -/
theorem quiet_keeps (fs : Fs) (path : String) (s : Saved) (op : HOp)
    (hq : quietOn path op = true) (hs : fsGet fs path = some s) :
    fsGet (hstep fs op).1 path = some s := by
  cases op with
  | load p =>
    simp only [hstep]
    split
    · exact hs
    · split <;> exact hs
  | inspect p =>
    simp only [hstep]
    split <;> exact hs
  | saveRaises a =>
    simp only [hstep]
    split <;> exact hs
  | save v a =>
    simp only [hstep]
    split
    · exact hs
    · rename_i store p hok
      have hp := resolveSave_ok_eq _ _ _ hok
      have hp2 : p = resolvePath a := by cases hp; rfl
      by_cases hne : resolvePath a = path
      · -- same target: it exists, so the call needed mode "o" and a valid level
        have hex : (fun q => (fsGet fs q).isSome) (resolvePath a) = true := by simp [hne, hs]
        obtain ⟨hm, hl⟩ := resolveSave_ok_exists _ _ _ hok hex
        simp [quietOn, hne, hm, hl] at hq
      · simp only
        rw [fsGet_fsSet_ne _ _ _ _ (by rw [hp2]; exact fun e => hne e.symm)]
        exact hs

theorem quiet_run_keeps (fs : Fs) (path : String) (s : Saved) (ops : List HOp)
    (hq : ∀ op ∈ ops, quietOn path op = true) (hs : fsGet fs path = some s) :
    fsGet (hrun fs ops).1 path = some s := by
  induction ops generalizing fs with
  | nil => simpa [hrun] using hs
  | cons op rest ih =>
    simp only [hrun]
    apply ih
    · intro o ho; exact hq o (List.mem_cons_of_mem _ ho)
    · exact quiet_keeps fs path s op (hq op List.mem_cons_self) hs

end QuantemModel.Serialize
