import QuantemModel.Lemmas.UnwrapExtra
import QuantemModel.Model.UnwrapSession
/-!
C17 (growth 5): argument handling of the public entry points and histories of calls
(`Model/UnwrapSession.lean`).
-/
namespace QuantemModel.Unwrap
open QuantemModel

/-! ### histories of `union` calls, rejected ones included -/

/-- is the call `uf.union(e.i1, e.i2, e.inc)` accepted on an object over `N` pixels? -/
def InRange (N : Nat) (e : Edge) : Bool := decide (e.i1 < N) && decide (e.i2 < N)

open UF in
theorem ufHistory_spec {N : Nat} : ∀ (es : List Edge) (u : UF), WF u N →
    ∃ u', ufHistory u es = some (u', es.map fun e => !InRange N e) ∧
      unionAll u (es.filter (InRange N)) = some u' ∧ WF u' N := by
  intro es
  induction es with
  | nil => intro u hwf; exact ⟨u, rfl, rfl, hwf⟩
  | cons e es ih =>
    intro u hwf
    by_cases hr : InRange N e = true
    · have hr' := hr
      simp only [InRange, Bool.and_eq_true, decide_eq_true_eq] at hr'
      obtain ⟨u1, hu1, hwf1, _⟩ := union_step hwf e.inc hr'.1 hr'.2
      obtain ⟨u2, h2, hall2, hwf2⟩ := ih u1 hwf1
      refine ⟨u2, ?_, ?_, hwf2⟩
      · simp [ufHistory, ufStepPy, hwf.sp, hr'.1, hr'.2, hu1, h2, hr]
      · simp [hr, unionAll, hu1, hall2]
    · have hr' : ¬ (e.i1 < N ∧ e.i2 < N) := by
        simpa [InRange] using hr
      obtain ⟨u2, h2, hall2, hwf2⟩ := ih u hwf
      refine ⟨u2, ?_, ?_, hwf2⟩
      · have hc : (decide (e.i1 < N) && decide (e.i2 < N)) = false := by
          simpa [InRange] using hr
        simp [ufHistory, ufStepPy, hwf.sp, hc, h2, hr]
      · simp [hr, hall2]

/-! ### the worker's argument handling -/

theorem numel_pair (H W : Nat) : numel [H, W] = H * W := by
  simp [numel]

theorem broadcastShape_self_pair (H W : Nat) : broadcastShape [H, W] [H, W] = some [H, W] := by
  simp [broadcastShape, broadcastRev]

/-- a mask of exactly the grid's shape (any values) is accepted, and means what it says -/
theorem validateWorker_full (H W : Nat) (vals : List Bool) (wrap : Bool) :
    validateWorker [H, W] (some ⟨[H, W], vals⟩) wrap
      = .ok (H, W, fun i => vals.toArray.getD i false) := by
  have hany : (edgePairs H W wrap).any
      (fun p => decide (numel [H, W] ≤ p.1) || decide (numel [H, W] ≤ p.2)) = false := by
    rw [List.any_eq_false]
    intro p hp
    have := edgePairs_lt H W wrap p hp
    rw [numel_pair]
    simp only [Bool.or_eq_true, decide_eq_true_eq, not_or, Nat.not_le]
    exact this
  simp [validateWorker, broadcastShape_self_pair, hany]

/-- the last pixel occurs in some neighbour pair as soon as the grid has a pair at all -/
theorem last_pixel_in_pair (H W : Nat) (wrap : Bool) (h : wrap = true ∧ 1 ≤ H * W ∨ 2 ≤ H * W) :
    ∃ p ∈ edgePairs H W wrap, p.1 = H * W - 1 ∨ p.2 = H * W - 1 := by
  have hpos : 0 < H * W := by rcases h with h | h <;> omega
  have hH : 0 < H := Nat.pos_of_mul_pos_right hpos
  have hW : 0 < W := Nat.pos_of_mul_pos_left hpos
  cases wrap with
  | true =>
    refine ⟨(H * W - 1, ((H * W - 1) / W) * W + ((H * W - 1) % W + 1) % W), ?_, Or.inl rfl⟩
    unfold edgePairs
    simp only [if_true, List.mem_append, List.mem_map, List.mem_range]
    exact Or.inl ⟨H * W - 1, by omega, rfl⟩
  | false =>
    have h2 : 2 ≤ H * W := by
      rcases h with h | h
      · exact absurd h.1 (by simp)
      · exact h
    by_cases hW2 : 2 ≤ W
    · -- horizontal pair ending at the last pixel: (r, c) = (H-1, W-2)
      refine ⟨((H - 1) * W + (W - 2), (H - 1) * W + (W - 2) + 1), ?_, Or.inr ?_⟩
      · rw [mem_edgePairs_bounded]
        exact ⟨H - 1, W - 2, by omega, by omega, rfl, Or.inl ⟨by omega, by omega⟩⟩
      · have : (H - 1) * W + W = H * W := by
          have := Nat.succ_mul (H - 1) W
          have hh : (H - 1).succ = H := by omega
          rw [hh] at this
          omega
        show (H - 1) * W + (W - 2) + 1 = H * W - 1
        omega
    · -- W = 1: vertical pair (H-2, 0) — (H-1, 0)
      have hW1 : W = 1 := by omega
      subst hW1
      have hH2 : 2 ≤ H := by omega
      refine ⟨((H - 2) * 1 + 0, (H - 2 + 1) * 1 + 0), ?_, Or.inr ?_⟩
      · rw [mem_edgePairs_bounded]
        exact ⟨H - 2, 0, by omega, by omega, rfl, Or.inr ⟨by omega, rfl⟩⟩
      · show (H - 2 + 1) * 1 + 0 = H * 1 - 1
        omega

/-- a mask that broadcasts against the grid but has fewer elements is rejected with IndexError
(never silently broadcast), on every grid that has a neighbour pair at all -/
theorem validateWorker_small_mask (H W : Nat) (m : MaskArg) (wrap : Bool) (s : List Nat)
    (hb : broadcastShape m.shape [H, W] = some s) (hsmall : numel m.shape < H * W)
    (hgrid : wrap = true ∨ 2 ≤ H * W) :
    validateWorker [H, W] (some m) wrap = .error .indexError := by
  have hpair := last_pixel_in_pair H W wrap (by
    rcases hgrid with h | h
    · exact Or.inl ⟨h, by omega⟩
    · exact Or.inr h)
  have hany : (edgePairs H W wrap).any
      (fun p => decide (numel m.shape ≤ p.1) || decide (numel m.shape ≤ p.2)) = true := by
    rw [List.any_eq_true]
    obtain ⟨p, hp, hlast⟩ := hpair
    refine ⟨p, hp, ?_⟩
    simp only [Bool.or_eq_true, decide_eq_true_eq]
    rcases hlast with h | h
    · left; omega
    · right; omega
  simp [validateWorker, hb, hany]

/-! ### the sort returns a permutation -/

theorem sortedPairs_perm {R : Type} [Num R] (wrapf : R → R) (H W : Nat) (phi : Nat → R) (mask : Nat → Bool)
    (wrap : Bool) : (sortedPairs wrapf H W phi mask wrap).Perm (maskedPairs H W mask wrap) := by
  unfold sortedPairs sortPairs
  exact List.mergeSort_perm _ _

/-! ### boolean-mask assignment -/

theorem scatterVals_mismatch {α : Type} (count : Nat) (vals : List α) (h : vals.length ≠ count)
    (h1 : vals.length ≠ 1) : scatterVals count vals = .error .runtimeError := by
  match vals, h1, h with
  | [], _, h => simpa [scatterVals] using h
  | [_], h1, _ => simp at h1
  | _ :: _ :: _, _, h => simpa [scatterVals] using h

end QuantemModel.Unwrap
