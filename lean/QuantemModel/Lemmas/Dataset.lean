import QuantemModel.Model.Dataset
import QuantemModel.Lemmas.NdIndex
/-! Helper lemmas for Props/C03.lean: validators force the invariant, shape bookkeeping. -/
namespace QuantemModel.Dataset
open QuantemModel.Nd QuantemModel.Resample

theorem prod_replicate_one_append (k : Nat) (s : List Nat) :
    prod (List.replicate k 1 ++ s) = prod s := by
  induction k with
  | zero => simp
  | succ k ih => simp [List.replicate_succ, prod, ih]

theorem validateNdinfo_length {v : NdInfo} {n : Nat} {l : List Rat}
    (h : validateNdinfo v n = .ok l) : l.length = n := by
  unfold validateNdinfo at h
  split at h
  · simp at h; subst h; simp
  · split at h
    · simp at h
    · rename_i hne
      simp at h; subst h; simpa using hne
  · simp at h

theorem validateUnits_length {v : UnitsArg} {n : Nat} {l : List String}
    (h : validateUnits v n = .ok l) : l.length = n := by
  unfold validateUnits at h
  split at h
  · simp at h; subst h; simp
  · split at h
    · simp at h
    · rename_i hne
      simp at h; subst h; simpa using hne
  · simp at h

theorem validateNdinfo_list_self {l : List Rat} {n : Nat} (h : l.length = n) :
    validateNdinfo (.list l) n = .ok l := by
  simp [validateNdinfo, h]

theorem validateUnits_list_self {l : List String} {n : Nat} (h : l.length = n) :
    validateUnits (.list l) n = .ok l := by
  simp [validateUnits, h]

theorem ensureNdim_ok {s s' : List Nat} {k : Nat} (h : ensureNdim s k = .ok s') :
    s'.length = k ∧ prod s' = prod s := by
  unfold ensureNdim at h
  split at h
  · simp at h
  · rename_i hle
    simp at h; subst h
    constructor
    · simp; omega
    · exact prod_replicate_one_append _ _

theorem ensureNdim_self {s : List Nat} {k : Nat} (h : s.length = k) : ensureNdim s k = .ok s := by
  simp [ensureNdim, h]

theorem classOk_of_reqNdim {c : DsClass} {k : Nat} (h : c.reqNdim = some k) : classOk c k := by
  intro k' hk'; rw [h] at hk'; simp at hk'; exact hk'

theorem classOk_none {c : DsClass} (h : c.reqNdim = none) (n : Nat) : classOk c n := by
  intro k hk; rw [h] at hk; simp at hk

theorem classOk_registry (n : Nat) : classOk (registry n) n := by
  intro k hk
  unfold registry at hk
  split at hk <;> simp [DsClass.reqNdim] at hk <;> omega

/-- every successful construction establishes the invariant (the validators enforce it) -/
theorem fromArray_inv {cls : DsClass} {shape : List Nat} {data : Option (List Val)} {kind : Kind}
    {o s : Option NdInfo} {u : Option UnitsArg} {d : Ds}
    (hd : dataOk shape data) (h : fromArray cls shape data kind o s u = .ok d) : Inv d := by
  unfold fromArray at h
  split at h
  · simp at h
  · rename_i shape' hs
    simp only at h
    split at h
    · simp at h
    · rename_i origin ho
      split at h
      · simp at h
      · rename_i sampling hsa
        split at h
        · simp at h
        · rename_i units hu
          simp at h; subst h
          have hshape : (classOk cls shape'.length) ∧ prod shape' = prod shape := by
            unfold reqShape at hs
            split at hs
            · rename_i hreq
              simp at hs; subst hs
              exact ⟨classOk_none hreq _, rfl⟩
            · rename_i k hreq
              have := ensureNdim_ok hs
              exact ⟨by rw [this.1]; exact classOk_of_reqNdim hreq, this.2⟩
          refine ⟨validateNdinfo_length ho, validateNdinfo_length hsa, validateUnits_length hu, hshape.1, ?_⟩
          intro dat hdat
          simp only at hdat
          rw [hshape.2]; exact hd dat hdat

/-- what a successful construction returns -/
theorem fromArray_fields {cls : DsClass} {shape : List Nat} {data : Option (List Val)} {kind : Kind}
    {o s : Option NdInfo} {u : Option UnitsArg} {d : Ds}
    (h : fromArray cls shape data kind o s u = .ok d) :
    d.cls = cls ∧ d.data = data ∧ d.kind = kind ∧
      (∀ k, cls.reqNdim = some k → ensureNdim shape k = .ok d.shape) ∧
      (cls.reqNdim = none → d.shape = shape) := by
  unfold fromArray at h
  split at h
  · simp at h
  · rename_i shape' hs
    simp only at h
    split at h
    · simp at h
    · split at h
      · simp at h
      · split at h
        · simp at h
        · simp at h; subst h
          refine ⟨rfl, rfl, rfl, ?_, ?_⟩
          · intro k hk; simp only [reqShape, hk] at hs; exact hs
          · intro hk; simp only [reqShape, hk] at hs; simp at hs; exact hs.symm

theorem reqShape_self {c : DsClass} {shape : List Nat} (h : classOk c shape.length) :
    reqShape c shape = .ok shape := by
  unfold reqShape
  cases hc : c.reqNdim with
  | none => rfl
  | some k => simp only; exact ensureNdim_self (h k hc)

/-- under the invariant `copy` returns the dataset itself (field by field) -/
theorem copy_eq {d : Ds} (h : Inv d) : copy d = .ok d := by
  obtain ⟨ho, hs, hu, hc, _⟩ := h
  unfold Ds.ndim at ho hs hu hc
  unfold copy fromArray
  rw [reqShape_self hc]
  simp only [Option.getD_some]
  rw [validateNdinfo_list_self ho, validateNdinfo_list_self hs, validateUnits_list_self hu]

theorem setArray_inv {d r : Ds} {shape : List Nat} {data : Option (List Val)} {kind : Kind}
    (hi : Inv d) (hd : dataOk shape data) (h : setArray d shape data kind = .ok r) : Inv r := by
  unfold setArray at h
  split at h
  · simp at h
  · rename_i shape' hs
    simp at h; subst h
    obtain ⟨ho, hsa, hu, hc, _⟩ := hi
    have := ensureNdim_ok hs
    refine ⟨?_, ?_, ?_, ?_, ?_⟩ <;> simp only [Ds.ndim] at * <;> try (rw [this.1]; assumption)
    intro dat hdat; rw [this.2]; exact hd dat hdat

theorem setArray_same_ndim {d : Ds} {shape : List Nat} {data : Option (List Val)} {kind : Kind}
    (h : shape.length = d.ndim) :
    setArray d shape data kind = .ok { d with shape := shape, data := data, kind := kind } := by
  unfold setArray; rw [ensureNdim_self h]

theorem setOrigin_inv {d r : Ds} {v : NdInfo} (hi : Inv d) (h : setOrigin d v = .ok r) : Inv r := by
  unfold setOrigin at h
  split at h
  · simp at h
  · rename_i o ho
    simp at h; subst h
    obtain ⟨_, hsa, hu, hc, hd⟩ := hi
    exact ⟨validateNdinfo_length ho, hsa, hu, hc, hd⟩

theorem setSampling_inv {d r : Ds} {v : NdInfo} (hi : Inv d) (h : setSampling d v = .ok r) : Inv r := by
  unfold setSampling at h
  split at h
  · simp at h
  · rename_i o ho
    simp at h; subst h
    obtain ⟨hor, _, hu, hc, hd⟩ := hi
    exact ⟨hor, validateNdinfo_length ho, hu, hc, hd⟩

theorem setUnits_inv {d r : Ds} {v : UnitsArg} (hi : Inv d) (h : setUnits d v = .ok r) : Inv r := by
  unfold setUnits at h
  split at h
  · simp at h
  · rename_i o ho
    simp at h; subst h
    obtain ⟨hor, hsa, _, hc, hd⟩ := hi
    exact ⟨hor, hsa, validateUnits_length ho, hc, hd⟩

theorem setOrigin_list {d : Ds} {l : List Rat} (h : l.length = d.ndim) :
    setOrigin d (.list l) = .ok { d with origin := l } := by
  unfold setOrigin; rw [validateNdinfo_list_self h]

theorem setSampling_list {d : Ds} {l : List Rat} (h : l.length = d.ndim) :
    setSampling d (.list l) = .ok { d with sampling := l } := by
  unfold setSampling; rw [validateNdinfo_list_self h]

/-! ### shapes produced by the operations -/

theorem padWidthsOf_length {shape : List Nat} {arg : PadArg} {w : List (Nat × Nat)}
    (h : padWidthsOf shape arg = .ok w) : w.length = shape.length := by
  unfold padWidthsOf at h
  split at h
  · simp at h
  · simp at h
  · split at h
    · simp at h
    · simp at h; subst h; simp
  · split at h
    · simp at h; subst h; simp
    · simp at h
  · split at h
    · simp at h
    · split at h
      · rename_i hl
        simp at h; subst h; simpa using hl
      · split at h
        · simp at h; subst h; simp
        · simp at h
  · split at h
    · simp at h
    · rename_i hl
      simp at h; subst h
      simp only [List.length_zipWith]
      simp at hl
      omega

theorem padShape_length {shape : List Nat} {w : List (Nat × Nat)} (h : w.length = shape.length) :
    (padShape shape w).length = shape.length := by
  simp [padShape, h]

theorem facsPerAxis_length (nd : Nat) (d : List (Int × Int)) : (facsPerAxis nd d).length = nd := by
  simp [facsPerAxis]

theorem binShape_length (shape : List Nat) (nd : Nat) (d : List (Int × Int)) (h : shape.length = nd) :
    (binShape shape (facsPerAxis nd d)).length = nd := by
  simp [binShape, facsPerAxis_length, h]

theorem binCalib_length (o s : List Rat) (d : List (Int × Int)) :
    (binCalib o s d).1.length = o.length ∧ (binCalib o s d).2.length = s.length := by
  unfold binCalib
  induction d generalizing o s with
  | nil => simp
  | cons p t ih =>
    simp only [List.foldl_cons]
    have := ih (o.set p.1.toNat (binMeta (o.getD p.1.toNat 0) (s.getD p.1.toNat 0) p.2.toNat).1)
      (s.set p.1.toNat (binMeta (o.getD p.1.toNat 0) (s.getD p.1.toNat 0) p.2.toNat).2)
    simpa using this

theorem resampleShape_length (shape : List Nat) (pairs : List (Nat × Nat)) :
    (resampleShape shape pairs).length = shape.length := by
  unfold resampleShape
  induction pairs generalizing shape with
  | nil => simp
  | cons p t ih => simp only [List.foldl_cons]; rw [ih]; simp

theorem resampleCalib_length (shape : List Nat) (o s : List Rat) (pairs : List (Nat × Nat)) :
    (resampleCalib shape o s pairs).1.length = o.length ∧
      (resampleCalib shape o s pairs).2.length = s.length := by
  unfold resampleCalib
  suffices ∀ (acc : List Rat × List Rat),
      (pairs.foldl (fun (acc : List Rat × List Rat) (p : Nat × Nat) =>
        let m := resampleMeta (o.getD p.1 0) (s.getD p.1 0) (shape.getD p.1 0) p.2
        (acc.1.set p.1 m.1, acc.2.set p.1 m.2)) acc).1.length = acc.1.length ∧
      (pairs.foldl (fun (acc : List Rat × List Rat) (p : Nat × Nat) =>
        let m := resampleMeta (o.getD p.1 0) (s.getD p.1 0) (shape.getD p.1 0) p.2
        (acc.1.set p.1 m.1, acc.2.set p.1 m.2)) acc).2.length = acc.2.length from this (o, s)
  induction pairs with
  | nil => intro acc; simp
  | cons p t ih =>
    intro acc
    simp only [List.foldl_cons]
    have := ih (acc.1.set p.1 (resampleMeta (o.getD p.1 0) (s.getD p.1 0) (shape.getD p.1 0) p.2).1,
      acc.2.set p.1 (resampleMeta (o.getD p.1 0) (s.getD p.1 0) (shape.getD p.1 0) p.2).2)
    simpa using this

theorem padData_ok (d : Ds) (w : List (Nat × Nat)) : dataOk (padShape d.shape w) (padData d w) := by
  intro dat h
  unfold padData at h
  cases hd : d.data with
  | none => rw [hd] at h; simp at h
  | some x =>
    rw [hd] at h; simp at h; subst h
    exact build_data_length _ _

theorem planData_ok (d : Ds) (p : Plan) : dataOk p.shape (planData d p) := by
  intro dat h
  unfold planData at h
  cases hd : d.data with
  | none => rw [hd] at h; simp at h
  | some x =>
    rw [hd] at h; simp at h; subst h
    exact build_data_length _ _

theorem binData_ok (d : Ds) (facs : List Nat) (mean : Bool) (vol : Nat) :
    dataOk (binShape d.shape facs) (binData d facs mean vol) := by
  intro dat h
  unfold binData at h
  cases hd : d.data with
  | none => rw [hd] at h; simp at h
  | some x =>
    rw [hd] at h; simp at h; subst h
    split
    · simp [binNd, build_data_length]
    · simp [binNd, build_data_length]


/-! ### invariant under direct field updates -/

theorem inv_with_array {d : Ds} (hi : Inv d) {shape : List Nat} {data : Option (List Val)} (k : Kind)
    (hl : shape.length = d.ndim) (hd : dataOk shape data) :
    Inv { d with shape := shape, data := data, kind := k } := by
  obtain ⟨ho, hs, hu, hc, _⟩ := hi
  unfold Ds.ndim at *
  exact ⟨by simpa [Ds.ndim, hl] using ho, by simpa [Ds.ndim, hl] using hs, by simpa [Ds.ndim, hl] using hu,
    by simpa [Ds.ndim, hl] using hc, hd⟩

theorem inv_with_cal {d : Ds} (hi : Inv d) {o s : List Rat}
    (ho' : o.length = d.ndim) (hs' : s.length = d.ndim) :
    Inv { d with origin := o, sampling := s } := by
  obtain ⟨_, _, hu, hc, hd⟩ := hi
  exact ⟨ho', hs', hu, hc, hd⟩

/-! ### normal forms: every in-place-capable operation computes one result `a` and either
stores it in the receiver or returns it next to the untouched receiver -/

/-- the shape of "in-place ≡ copy": `f ip` is determined by `f true` -/
def NormalForm (d : Ds) (f : Bool → Except Err (Ds × Option Ds)) : Prop :=
  ∀ ip, f ip = match f true with
    | .error e => .error e
    | .ok (a, _) => if ip then .ok (a, none) else .ok (d, some a)

theorem pad_normal {d : Ds} (hi : Inv d) (arg : PadArg) : NormalForm d (pad d arg) := by
  intro ip
  cases ip with
  | true =>
    unfold pad
    split
    · rfl
    · simp
  | false =>
    unfold pad
    split
    · rfl
    · rename_i w hw
      simp only [copy_eq hi, Bool.false_eq_true, if_false, if_true]
      rw [setArray_same_ndim (by rw [padShape_length (padWidthsOf_length hw)]; rfl)]

theorem pad_inv {d a : Ds} {r : Option Ds} (hi : Inv d) {arg : PadArg}
    (h : pad d arg true = .ok (a, r)) : Inv a := by
  unfold pad at h
  split at h
  · simp at h
  · rename_i w hw
    simp at h
    obtain ⟨rfl, _⟩ := h
    exact inv_with_array hi d.kind (by rw [padShape_length (padWidthsOf_length hw)]; rfl) (padData_ok d w)

theorem crop_normal {d : Ds} (hi : Inv d) (ws : List (Int × Int)) (ax : AxesArg) :
    NormalForm d (crop d ws ax) := by
  intro ip
  cases ip with
  | true =>
    unfold crop
    split
    · rfl
    · split
      · rfl
      · simp only [if_true]
        split <;> simp
  | false =>
    unfold crop
    split
    · rfl
    · split
      · rfl
      · simp only [copy_eq hi, Bool.false_eq_true, if_false, if_true]
        split <;> simp

theorem crop_inv {d a : Ds} {r : Option Ds} (hi : Inv d) {ws : List (Int × Int)} {ax : AxesArg}
    (h : crop d ws ax true = .ok (a, r)) : Inv a := by
  unfold crop at h
  split at h
  · simp at h
  · split at h
    · simp at h
    · rename_i p hp
      simp only [if_true] at h
      split at h
      · simp at h
      · rename_i x hx
        simp at h
        obtain ⟨rfl, _⟩ := h
        exact setArray_inv hi (planData_ok d p) hx

theorem bin_side {d : Ds} (hi : Inv d) (dict : List (Int × Int)) :
    (binShape d.shape (facsPerAxis d.ndim dict)).length = d.ndim ∧
    (binCalib d.origin d.sampling dict).1.length = (binShape d.shape (facsPerAxis d.ndim dict)).length ∧
    (binCalib d.origin d.sampling dict).2.length = (binShape d.shape (facsPerAxis d.ndim dict)).length := by
  have hsh : (binShape d.shape (facsPerAxis d.ndim dict)).length = d.ndim := binShape_length _ _ _ rfl
  have hcal := binCalib_length d.origin d.sampling dict
  exact ⟨hsh, by rw [hcal.1, hi.1, hsh], by rw [hcal.2, hi.2.1, hsh]⟩

theorem bin_normal {d : Ds} (hi : Inv d) (f : FacArg) (ax : AxesArg) (m b : Bool) :
    NormalForm d (bin d f ax m b) := by
  intro ip
  cases ip with
  | true =>
    unfold bin
    split
    · rfl
    · split
      · rfl
      · split
        · rfl
        · split
          · rfl
          · simp
  | false =>
    unfold bin
    split
    · rfl
    · split
      · rfl
      · split
        · rfl
        · split
          · rfl
          · simp only [copy_eq hi, Bool.false_eq_true, if_false, if_true]
            rw [setArray_same_ndim (bin_side hi _).1]
            simp only
            rw [setSampling_list (by simp only [Ds.ndim]; exact (bin_side hi _).2.2)]
            simp only
            rw [setOrigin_list (by simp only [Ds.ndim]; exact (bin_side hi _).2.1)]

theorem bin_inv {d a : Ds} {r : Option Ds} (hi : Inv d) {f : FacArg} {ax : AxesArg} {m b : Bool}
    (h : bin d f ax m b true = .ok (a, r)) : Inv a := by
  unfold bin at h
  split at h
  · simp at h
  · split at h
    · simp at h
    · split at h
      · simp at h
      · split at h
        · simp at h
        · simp at h
          obtain ⟨rfl, _⟩ := h
          refine inv_with_cal (inv_with_array hi _ (bin_side hi _).1 (binData_ok d _ m _)) ?_ ?_
          · simp only [Ds.ndim]; exact (bin_side hi _).2.1
          · simp only [Ds.ndim]; exact (bin_side hi _).2.2

theorem resample_side {d : Ds} (hi : Inv d) (pairs : List (Nat × Nat)) :
    (resampleShape d.shape pairs).length = d.ndim ∧
    (resampleCalib d.shape d.origin d.sampling pairs).1.length = (resampleShape d.shape pairs).length ∧
    (resampleCalib d.shape d.origin d.sampling pairs).2.length = (resampleShape d.shape pairs).length := by
  have hsh : (resampleShape d.shape pairs).length = d.ndim := resampleShape_length _ _
  have hcal := resampleCalib_length d.shape d.origin d.sampling pairs
  exact ⟨hsh, by rw [hcal.1, hi.1, hsh], by rw [hcal.2, hi.2.1, hsh]⟩

theorem resample_normal {d : Ds} (hi : Inv d) (arg : RsArg) (ax : AxesArg) :
    NormalForm d (resample d arg ax) := by
  intro ip
  cases ip with
  | true =>
    unfold resample
    split
    · rfl
    · split
      · rfl
      · split
        · rfl
        · split
          · rfl
          · simp
  | false =>
    unfold resample
    split
    · rfl
    · split
      · rfl
      · split
        · rfl
        · split
          · rfl
          · simp only [copy_eq hi, Bool.false_eq_true, if_false, if_true]
            rw [setArray_same_ndim (resample_side hi _).1]
            simp only
            rw [setSampling_list (by simp only [Ds.ndim]; exact (resample_side hi _).2.2)]
            simp only
            rw [setOrigin_list (by simp only [Ds.ndim]; exact (resample_side hi _).2.1)]

theorem resample_inv {d a : Ds} {r : Option Ds} (hi : Inv d) {arg : RsArg} {ax : AxesArg}
    (h : resample d arg ax true = .ok (a, r)) : Inv a := by
  unfold resample at h
  split at h
  · simp at h
  · split at h
    · simp at h
    · split at h
      · simp at h
      · split at h
        · simp at h
        · simp at h
          obtain ⟨rfl, _⟩ := h
          refine inv_with_cal (inv_with_array (data := none) hi _ (resample_side hi _).1
            (by intro dat hd; simp at hd)) ?_ ?_
          · simp only [Ds.ndim]; exact (resample_side hi _).2.1
          · simp only [Ds.ndim]; exact (resample_side hi _).2.2

/-- a normal form transfers the invariant from the in-place result to both variants -/
theorem normal_inv {d : Ds} {f : Bool → Except Err (Ds × Option Ds)} (hn : NormalForm d f) (hi : Inv d)
    (hcore : ∀ a r, f true = .ok (a, r) → Inv a) {ip : Bool} {d' : Ds} {r : Option Ds}
    (h : f ip = .ok (d', r)) : Inv d' ∧ ∀ x, r = some x → Inv x := by
  rw [hn ip] at h
  cases hc : f true with
  | error e => rw [hc] at h; simp at h
  | ok p =>
    obtain ⟨a, r0⟩ := p
    rw [hc] at h
    simp only at h
    have ha := hcore a r0 hc
    cases ip with
    | true =>
      simp at h
      obtain ⟨rfl, rfl⟩ := h
      exact ⟨ha, by intro x hx; simp at hx⟩
    | false =>
      simp at h
      obtain ⟨rfl, rfl⟩ := h
      exact ⟨hi, by intro x hx; simp at hx; subst hx; exact ha⟩

theorem getitem_inv {d r : Ds} {ix : List Item} (h : getitem d ix = .ok r) : Inv r := by
  unfold getitem at h
  split at h
  · simp at h
  · split at h
    · simp at h
    · simp only at h
      split at h
      · simp at h
      · exact fromArray_inv (planData_ok d _) h


/-- construction from explicit calibration lists of the right length succeeds and returns
exactly those fields -/
theorem fromArray_lists_ok {cls : DsClass} {shape : List Nat} {data : Option (List Val)} {kind : Kind}
    {o s : List Rat} {u : List String} (hc : classOk cls shape.length)
    (ho : o.length = shape.length) (hs : s.length = shape.length) (hu : u.length = shape.length) :
    fromArray cls shape data kind (some (.list o)) (some (.list s)) (some (.list u)) =
      .ok ⟨cls, shape, data, kind, o, s, u⟩ := by
  unfold fromArray
  rw [reqShape_self hc]
  simp only [Option.getD_some]
  rw [validateNdinfo_list_self ho, validateNdinfo_list_self hs, validateUnits_list_self hu]

/-- the class `__getitem__` picks always matches the result dimensionality -/
theorem classOk_getitem {d : Ds} (hi : Inv d) (n : Nat) :
    classOk (if n = d.ndim then d.cls else registry n) n := by
  split
  · rename_i h; rw [h]; exact hi.2.2.2.1
  · exact classOk_registry n

/-! ### subclass methods returning datasets -/

theorem dpReduce_inv {d r : Ds} {k : DpKind} (h : dpReduce d k = .ok r) : Inv r := by
  unfold dpReduce at h
  split at h
  · simp at h
  · refine fromArray_inv ?_ h
    intro dat hdat
    cases k with
    | mean =>
      simp only at hdat
      cases hd : d.data with
      | none => rw [hd] at hdat; simp at hdat
      | some x =>
        rw [hd] at hdat; simp at hdat; subst hdat
        exact build_data_length _ _
    | max => simp at hdat
    | median => simp at hdat

theorem virtualImage_inv {d r : Ds} {ms : List Nat} {m : List Val} (h : virtualImage d ms m = .ok r) : Inv r := by
  unfold virtualImage at h
  split at h
  · simp at h
  · split at h
    · simp at h
    · refine fromArray_inv ?_ h
      intro dat hdat
      cases hd : d.data with
      | none => rw [hd] at hdat; simp at hdat
      | some x =>
        rw [hd] at hdat; simp at hdat; subst hdat
        exact build_data_length _ _

theorem frame_inv {d r : Ds} {k : Nat} (h : frame d k = .ok r) : Inv r := by
  unfold frame at h
  split at h
  · simp at h
  · split at h
    · exact getitem_inv h
    · simp at h

end QuantemModel.Dataset
