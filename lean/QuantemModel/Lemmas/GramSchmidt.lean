import QuantemModel.Lemmas.Constraints
/-!
The code's Gram–Schmidt (`orthoLoop` / `gramSchmidt` of Model/Constraints.lean) at ℝ:
inner-product algebra on lists, the loop invariant (orthonormal prefix), intensities, sorting.
Proved by induction on the mode list for the code's own recursion (sequential projection on
the running residual); Mathlib's `gramSchmidt` is not used.
-/
namespace QuantemModel.Constraints
open QuantemModel

/-- the inner product `⟨p, r⟩ = Σ conj(p_k) r_k` the code computes (`torch.sum(p.conj() * r)`), in ℂ -/
noncomputable def ip (p r : Vec ℝ) : ℂ := toC (cdot p r)

theorem ip_eq (p r : Vec ℝ) :
    ip p r = (List.zipWith (fun a b => (starRingEnd ℂ) (toC a) * toC b) p r).sum := by
  unfold ip cdot
  rw [cxSum_eq, List.map_zipWith]
  simp

theorem ip_nil_left (r : Vec ℝ) : ip [] r = 0 := by simp [ip_eq]
theorem ip_nil_right (p : Vec ℝ) : ip p [] = 0 := by simp [ip_eq]
theorem ip_cons (a b : Cx ℝ) (p r : Vec ℝ) :
    ip (a :: p) (b :: r) = (starRingEnd ℂ) (toC a) * toC b + ip p r := by simp [ip_eq]

theorem cdot_eq_zero_iff (p r : Vec ℝ) : cdot p r = Cx.zero ↔ ip p r = 0 := by
  unfold ip
  constructor
  · intro h; rw [h]; simp
  · intro h; apply toC_inj; rw [h]; simp

/-- `⟨p, r − c q⟩ = ⟨p, r⟩ − c ⟨p, q⟩` for the projection step -/
theorem ip_subProj (p : Vec ℝ) : ∀ (r q : Vec ℝ), r.length = q.length →
    ip p (subProj r q) = ip p r - ip q r * ip p q := by
  intro r q hlen
  unfold subProj
  simp only
  generalize toC (cdot q r) = c' at *
  have key : ∀ (c : Cx ℝ) (p r q : Vec ℝ), r.length = q.length →
      ip p (List.zipWith (fun ri qi => ri - c * qi) r q) = ip p r - toC c * ip p q := by
    intro c p
    induction p with
    | nil => intro r q _; simp [ip_nil_left]
    | cons a p ih =>
      intro r q hl
      cases r with
      | nil =>
        cases q with
        | nil => simp [ip_nil_right]
        | cons _ _ => simp at hl
      | cons b r =>
        cases q with
        | nil => simp at hl
        | cons d q =>
          simp only [List.zipWith_cons_cons, ip_cons, toC_sub, toC_mul]
          rw [ih r q (by simpa using hl)]
          ring
  exact key (cdot q r) p r q hlen

theorem ip_map_cdivR_right (n : ℝ) (p : Vec ℝ) : ∀ (r : Vec ℝ),
    ip p (r.map (cdivR · n)) = ip p r / (n : ℂ) := by
  induction p with
  | nil => intro r; simp [ip_nil_left]
  | cons a p ih =>
    intro r
    cases r with
    | nil => simp [ip_nil_right]
    | cons b r =>
      simp only [List.map_cons, ip_cons, toC_cdivR, ih r]
      ring

theorem ip_map_cdivR_left (n : ℝ) (p : Vec ℝ) : ∀ (r : Vec ℝ),
    ip (p.map (cdivR · n)) r = ip p r / (n : ℂ) := by
  induction p with
  | nil => intro r; simp [ip_nil_left]
  | cons a p ih =>
    intro r
    cases r with
    | nil => simp [ip_nil_right]
    | cons b r =>
      simp only [List.map_cons, ip_cons, toC_cdivR, ih r, map_div₀, Complex.conj_ofReal]
      ring

theorem ip_map_smul (a b : ℝ) (p : Vec ℝ) : ∀ (r : Vec ℝ),
    ip (p.map (Cx.smul a)) (r.map (Cx.smul b)) = ((a * b : ℝ) : ℂ) * ip p r := by
  induction p with
  | nil => intro r; simp [ip_nil_left]
  | cons x p ih =>
    intro r
    cases r with
    | nil => simp [ip_nil_right]
    | cons y r =>
      simp only [List.map_cons, ip_cons, toC_smul, ih r, map_mul, Complex.conj_ofReal]
      push_cast
      ring

theorem ip_conj (p : Vec ℝ) : ∀ (r : Vec ℝ), ip r p = (starRingEnd ℂ) (ip p r) := by
  induction p with
  | nil => intro r; simp [ip_nil_left, ip_nil_right]
  | cons a p ih =>
    intro r
    cases r with
    | nil => simp [ip_nil_left, ip_nil_right]
    | cons b r =>
      simp only [ip_cons, ih r, map_add, map_mul, Complex.conj_conj]
      ring

theorem ip_symm_zero {p r : Vec ℝ} (h : ip p r = 0) : ip r p = 0 := by
  rw [ip_conj, h]; simp

theorem norm2_eq (r : Vec ℝ) : norm2 r = (r.map fun z => z.re * z.re + z.im * z.im).sum := by
  unfold norm2
  rw [numSum_eq]

theorem norm2_nonneg (r : Vec ℝ) : 0 ≤ norm2 r := by
  rw [norm2_eq]
  apply List.sum_nonneg
  intro x hx
  simp only [List.mem_map] at hx
  obtain ⟨z, _, rfl⟩ := hx
  nlinarith [mul_self_nonneg z.re, mul_self_nonneg z.im]

theorem ip_self (r : Vec ℝ) : ip r r = ((norm2 r : ℝ) : ℂ) := by
  rw [norm2_eq]
  induction r with
  | nil => simp [ip_nil_left]
  | cons a r ih =>
    simp only [ip_cons, ih, List.map_cons, List.sum_cons]
    push_cast
    apply Complex.ext <;> simp [toC] <;> ring

theorem intensity_eq_norm2 (v : Vec ℝ) : intensity v = norm2 v := by
  unfold intensity
  rw [numSum_eq, norm2_eq]
  congr 1
  apply List.map_congr_left
  intro z _
  exact sq_abs z

theorem norm2_map_smul (n : ℝ) (q : Vec ℝ) : norm2 (q.map (Cx.smul n)) = n * n * norm2 q := by
  have h := ip_map_smul n n q q
  rw [ip_self, ip_self] at h
  exact_mod_cast h

theorem gsEps_pos : (0 : ℝ) < gsEps := by
  simp [gsEps]

theorem vnorm_mul_self (r : Vec ℝ) : vnorm r * vnorm r = norm2 r := by
  simp only [vnorm, NumReal.sqrt_eq]
  exact Real.mul_self_sqrt (norm2_nonneg r)

/-! ### lengths -/

theorem subProj_length (r q : Vec ℝ) (h : r.length = q.length) : (subProj r q).length = r.length := by
  simp [subProj, h]

theorem residual_length (P : Nat) : ∀ (qs : List (Vec ℝ)) (v : Vec ℝ),
    (∀ q ∈ qs, q.length = P) → v.length = P → (residual qs v).length = P := by
  intro qs
  induction qs with
  | nil => intro v _ hv; simpa [residual] using hv
  | cons q qs ih =>
    intro v hq hv
    simp only [residual, List.foldl_cons]
    apply ih
    · intro q' hq'; exact hq q' (by simp [hq'])
    · rw [subProj_length _ _ (by rw [hv, hq q (by simp)]), hv]

theorem normalize_length (r : Vec ℝ) : (normalize r).length = r.length := by
  simp [normalize]

/-! ### the projection loop -/

/-- projecting out vectors orthogonal to `p` does not change `⟨p, ·⟩` -/
theorem ip_residual_of_orth (P : Nat) (p : Vec ℝ) : ∀ (qs : List (Vec ℝ)) (w : Vec ℝ),
    (∀ q ∈ qs, q.length = P) → w.length = P → (∀ q ∈ qs, ip p q = 0) →
    ip p (residual qs w) = ip p w := by
  intro qs
  induction qs with
  | nil => intro w _ _ _; simp [residual]
  | cons q qs ih =>
    intro w hlen hw horth
    simp only [residual, List.foldl_cons]
    have hq : q.length = P := hlen q (by simp)
    have := ih (subProj w q) (fun q' hq' => hlen q' (by simp [hq']))
      (by rw [subProj_length _ _ (by rw [hw, hq]), hw]) (fun q' hq' => horth q' (by simp [hq']))
    simp only [residual] at this
    rw [this, ip_subProj p w q (by rw [hw, hq]), horth q (by simp)]
    ring

/-- the invariant of the outer loop: the probes produced so far are orthonormal -/
structure OrthoNormal (P : Nat) (qs : List (Vec ℝ)) : Prop where
  len : ∀ q ∈ qs, q.length = P
  unit : ∀ q ∈ qs, ip q q = 1
  orth : qs.Pairwise (fun p q => ip p q = 0)

theorem OrthoNormal.nil (P : Nat) : OrthoNormal P [] :=
  ⟨by simp, by simp, List.Pairwise.nil⟩

theorem OrthoNormal.tail {P : Nat} {q : Vec ℝ} {qs : List (Vec ℝ)} (h : OrthoNormal P (q :: qs)) :
    OrthoNormal P qs :=
  ⟨fun q' hq' => h.len q' (by simp [hq']), fun q' hq' => h.unit q' (by simp [hq']),
   (List.pairwise_cons.mp h.orth).2⟩

/-- after the inner loop the residual is orthogonal to every probe produced so far -/
theorem ip_residual_zero (P : Nat) : ∀ (qs : List (Vec ℝ)) (v : Vec ℝ),
    OrthoNormal P qs → v.length = P → ∀ q ∈ qs, ip q (residual qs v) = 0 := by
  intro qs
  induction qs with
  | nil => intro v _ _ q hq; simp at hq
  | cons q0 qs ih =>
    intro v hinv hv q hq
    have hq0 : q0.length = P := hinv.len q0 (by simp)
    have hv' : (subProj v q0).length = P := by rw [subProj_length _ _ (by rw [hv, hq0]), hv]
    have hres : residual (q0 :: qs) v = residual qs (subProj v q0) := by simp [residual]
    rw [hres]
    simp only [List.mem_cons] at hq
    rcases hq with rfl | hq
    · rw [ip_residual_of_orth P q qs (subProj v q) (fun q' hq' => hinv.len q' (by simp [hq'])) hv'
        (fun q' hq' => (List.pairwise_cons.mp hinv.orth).1 q' hq')]
      rw [ip_subProj q v q (by rw [hv, hq0]), hinv.unit q (by simp)]
      ring
    · exact ih (subProj v q0) hinv.tail hv' q hq

theorem clampedNorm_eq {r : Vec ℝ} (h : gsEps ≤ vnorm r) : clampedNorm r = vnorm r := by
  simp [clampedNorm, NumReal.max_eq, h]

theorem normalize_unit {r : Vec ℝ} (h : gsEps ≤ vnorm r) : ip (normalize r) (normalize r) = 1 := by
  unfold normalize
  simp only
  rw [clampedNorm_eq h, ip_map_cdivR_left, ip_map_cdivR_right, ip_self, ← vnorm_mul_self]
  have hpos : (0 : ℝ) < vnorm r := lt_of_lt_of_le gsEps_pos h
  have hne : ((vnorm r : ℝ) : ℂ) ≠ 0 := by exact_mod_cast hpos.ne'
  push_cast
  field_simp

/-- one step of the outer loop keeps the invariant (clamp inactive) -/
theorem OrthoNormal.step {P : Nat} {qs : List (Vec ℝ)} {v : Vec ℝ} (hinv : OrthoNormal P qs)
    (hv : v.length = P) (hc : gsEps ≤ vnorm (residual qs v)) :
    OrthoNormal P (qs ++ [normalize (residual qs v)]) := by
  refine ⟨?_, ?_, ?_⟩
  · intro q hq
    simp only [List.mem_append, List.mem_singleton] at hq
    rcases hq with hq | rfl
    · exact hinv.len q hq
    · rw [normalize_length, residual_length P qs v hinv.len hv]
  · intro q hq
    simp only [List.mem_append, List.mem_singleton] at hq
    rcases hq with hq | rfl
    · exact hinv.unit q hq
    · exact normalize_unit hc
  · rw [List.pairwise_append]
    refine ⟨hinv.orth, List.pairwise_singleton _ _, ?_⟩
    intro a ha b hb
    simp only [List.mem_singleton] at hb
    subst hb
    unfold normalize
    simp only
    rw [ip_map_cdivR_right, ip_residual_zero P qs v hinv hv a ha]
    simp

/-- **side condition of the Gram–Schmidt theorems**: at every step of the outer loop the norm of
the residual is at least the `clamp_min(1e-12)` threshold, so the clamp does nothing.  (It implies
that the modes are linearly independent: a dependent mode has residual 0.) -/
def ClampInactive : List (Vec ℝ) → List (Vec ℝ) → Prop
  | _, [] => True
  | qs, v :: rest =>
      gsEps ≤ vnorm (residual qs v) ∧ ClampInactive (qs ++ [normalize (residual qs v)]) rest

theorem orthoLoop_orthoNormal (P : Nat) : ∀ (rest qs : List (Vec ℝ)),
    OrthoNormal P qs → (∀ v ∈ rest, v.length = P) → ClampInactive qs rest →
    OrthoNormal P (orthoLoop qs rest) := by
  intro rest
  induction rest with
  | nil => intro qs h _ _; simpa [orthoLoop] using h
  | cons v rest ih =>
    intro qs hinv hlen hc
    simp only [orthoLoop]
    obtain ⟨hc1, hc2⟩ := hc
    exact ih _ (hinv.step (hlen v (by simp)) hc1) (fun v' hv' => hlen v' (by simp [hv'])) hc2

theorem orthoLoop_length : ∀ (rest qs : List (Vec ℝ)),
    (orthoLoop qs rest).length = qs.length + rest.length := by
  intro rest
  induction rest with
  | nil => intro qs; simp [orthoLoop]
  | cons v rest ih => intro qs; simp [orthoLoop, ih]; omega

/-! ### rescaling by the original norms -/

theorem intensity_rescaled {P : Nat} {q v : Vec ℝ} (hq : ip q q = 1) (_hv : v.length = P) :
    intensity (q.map (Cx.smul (vnorm v))) = intensity v := by
  rw [intensity_eq_norm2, intensity_eq_norm2, norm2_map_smul, vnorm_mul_self]
  have : norm2 q = 1 := by
    rw [ip_self] at hq
    exact_mod_cast hq
  rw [this, mul_one]

theorem orthoLoop_intensities (P : Nat) : ∀ (rest qs : List (Vec ℝ)) (ns : List ℝ),
    OrthoNormal P qs → (∀ v ∈ rest, v.length = P) → ClampInactive qs rest → qs.length = ns.length →
    (rescale (orthoLoop qs rest) (ns ++ rest.map vnorm)).map intensity
      = (rescale qs ns).map intensity ++ rest.map intensity := by
  intro rest
  induction rest with
  | nil => intro qs ns _ _ _ _; simp [orthoLoop]
  | cons v rest ih =>
    intro qs ns hinv hlen hc hl
    obtain ⟨hc1, hc2⟩ := hc
    have hstep := hinv.step (hlen v (by simp)) hc1
    simp only [orthoLoop]
    have e : ns ++ (v :: rest).map vnorm = (ns ++ [vnorm v]) ++ rest.map vnorm := by simp
    rw [e, ih _ (ns ++ [vnorm v]) hstep (fun v' hv' => hlen v' (by simp [hv'])) hc2 (by simp [hl])]
    unfold rescale
    rw [List.zipWith_append hl]
    simp only [List.zipWith_cons_cons, List.zipWith_nil_left, List.map_append, List.map_cons,
      List.map_nil, List.append_assoc, List.cons_append, List.nil_append]
    rw [intensity_rescaled (hstep.unit _ (by simp)) (hlen v (by simp))]

theorem pairwise_zipWith {α β γ : Type} (R : α → α → Prop) (R' : γ → γ → Prop) (f : α → β → γ)
    (hf : ∀ a b x y, R a b → R' (f a x) (f b y)) :
    ∀ (l : List α) (ns : List β), l.Pairwise R → (List.zipWith f l ns).Pairwise R' := by
  intro l
  induction l with
  | nil => intro ns _; simp
  | cons a l ih =>
    intro ns h
    cases ns with
    | nil => simp
    | cons x ns =>
      rw [List.pairwise_cons] at h
      simp only [List.zipWith_cons_cons, List.pairwise_cons]
      refine ⟨?_, ih ns h.2⟩
      intro c hc
      obtain ⟨b, hb, y, _, rfl⟩ := mem_zipWith_imp _ _ _ _ hc
      exact hf a b x y (h.1 b hb)

/-- the rescaled (unsorted) probes are mutually orthogonal and carry the input intensities in order -/
theorem gsUnsorted_spec (P : Nat) (vs : List (Vec ℝ)) (hlen : ∀ v ∈ vs, v.length = P)
    (hc : ClampInactive [] vs) :
    (gsUnsorted vs).Pairwise (fun p q => ip p q = 0) ∧
    (gsUnsorted vs).map intensity = vs.map intensity := by
  have hinv := orthoLoop_orthoNormal P vs [] (OrthoNormal.nil P) hlen hc
  constructor
  · unfold gsUnsorted rescale
    apply pairwise_zipWith (fun p q => ip p q = 0) _ _ _ _ _ hinv.orth
    intro a b x y hab
    rw [ip_map_smul, hab, mul_zero]
  · have := orthoLoop_intensities P vs [] [] (OrthoNormal.nil P) hlen hc rfl
    simpa [gsUnsorted, rescale] using this

theorem descLe_iff (a b : Vec ℝ) : descLe a b = true ↔ intensity b ≤ intensity a := by
  simp only [descLe, Bool.not_eq_true', Bool.eq_false_iff, ne_eq, NumReal.ltb_eq, not_lt]

end QuantemModel.Constraints
