import QuantemModel.Real.NumReal
import QuantemModel.Model.Aberration
import Mathlib.Analysis.SpecialFunctions.Trigonometric.Deriv
import Mathlib.Analysis.Calculus.Deriv.Pow
import Mathlib.Tactic.Ring
import Mathlib.Tactic.FieldSimp
import Mathlib.Tactic.Linarith
/-!
C12 — helper lemmas at ℝ: the carrier's power is Mathlib's, term-wise derivatives of the
specification `chi`, and the translated surface / polar gradients agree with the specification.
-/
namespace QuantemModel.Aberration
open QuantemModel QuantemModel.Generated.Aberration

theorem npow_eq (x : ℝ) (n : Nat) : npow x n = x ^ n := by
  induction n with
  | zero => simp [npow]
  | succ k ih => simp [npow, ih, pow_succ]

theorem pw_eq (x : ℝ) (n : Nat) : pw x n = x ^ n := by
  induction n with
  | zero => simp [pw]
  | succ k ih => simp [pw, ih, pow_succ]

/-- rewrite the carrier projections at ℝ into Mathlib notation -/
macro "num_real" : tactic =>
  `(tactic| simp only [NumReal.add_eq, NumReal.mul_eq, NumReal.sub_eq, NumReal.div_eq, NumReal.neg_eq,
      NumReal.ofRat_eq, NumReal.zero_eq, NumReal.one_eq, NumReal.two_eq, NumReal.cos_eq, NumReal.sin_eq,
      NumReal.pi_eq, NumReal.ofNat_eq, NumReal.sqrt_eq, npow_eq, pw_eq])

theorem hasDerivAt_sumOver {ι : Type} (l : List ι) (f : ι → ℝ → ℝ) (f' : ι → ℝ) (x : ℝ)
    (h : ∀ i ∈ l, HasDerivAt (f i) (f' i) x) :
    HasDerivAt (fun a => sumOver l (fun i => f i a)) (sumOver l f') x := by
  induction l with
  | nil => simpa [sumOver] using hasDerivAt_const x (0 : ℝ)
  | cons a t ih =>
    have h1 := h a (by simp)
    have h2 := ih (fun i hi => h i (by simp [hi]))
    show HasDerivAt (fun x => f a x + sumOver t (fun i => f i x)) (f' a + sumOver t f') x
    exact h1.fun_add h2

theorem term_hasDerivAt_alpha (n m : Nat) (C p0 α φ : ℝ) :
    HasDerivAt (fun a => term n m C p0 a φ) (termDAlpha n m C p0 α φ) α := by
  have h := ((hasDerivAt_pow (n + 1) α).div_const (((n + 1 : ℕ) : ℝ))).mul_const
    (C * Real.cos ((m : ℝ) * (φ - p0)))
  have hf : (fun a : ℝ => term n m C p0 a φ) =
      fun y => y ^ (n + 1) / ((n + 1 : ℕ) : ℝ) * (C * Real.cos ((m : ℝ) * (φ - p0))) := by
    funext a; simp only [term]; num_real
  have hv : termDAlpha n m C p0 α φ =
      ((n + 1 : ℕ) : ℝ) * α ^ (n + 1 - 1) / ((n + 1 : ℕ) : ℝ) * (C * Real.cos ((m : ℝ) * (φ - p0))) := by
    simp only [termDAlpha]; num_real
    have : ((n + 1 : ℕ) : ℝ) ≠ 0 := by positivity
    simp only [Nat.add_sub_cancel]
    field_simp
  rw [hf, hv]; exact h

theorem term_hasDerivAt_phi (n m : Nat) (C p0 α φ : ℝ) :
    HasDerivAt (fun p => term n m C p0 α p) (termDPhi n m C p0 α φ) φ := by
  have h0 : HasDerivAt (fun p : ℝ => (m : ℝ) * (p - p0)) ((m : ℝ) * 1) φ :=
    ((hasDerivAt_id φ).sub_const p0).const_mul (m : ℝ)
  have h := ((h0.cos).const_mul C).const_mul (α ^ (n + 1) / ((n + 1 : ℕ) : ℝ))
  have hf : (fun p : ℝ => term n m C p0 α p) =
      fun y => α ^ (n + 1) / ((n + 1 : ℕ) : ℝ) * (C * Real.cos ((m : ℝ) * (y - p0))) := by
    funext a; simp only [term]; num_real
  have hv : termDPhi n m C p0 α φ =
      α ^ (n + 1) / ((n + 1 : ℕ) : ℝ) * (C * (-Real.sin ((m : ℝ) * (φ - p0)) * ((m : ℝ) * 1))) := by
    simp only [termDPhi]; num_real; ring
  rw [hf, hv]; exact h

theorem chi_hasDerivAt_alpha (α φ lam : ℝ) (c : String → ℝ) :
    HasDerivAt (fun a => chi a φ lam c) (chiDAlpha α φ lam c) α := by
  unfold chi chiDAlpha
  exact (hasDerivAt_sumOver table _ _ α (fun t _ => term_hasDerivAt_alpha _ _ _ _ α φ)).const_mul _

theorem chi_hasDerivAt_phi (α φ lam : ℝ) (c : String → ℝ) :
    HasDerivAt (fun p => chi α p lam c) (chiDPhi α φ lam c) φ := by
  unfold chi chiDPhi
  exact (hasDerivAt_sumOver table _ _ φ (fun t _ => term_hasDerivAt_phi _ _ _ _ α φ)).const_mul _

theorem surface_eq_chi (α φ lam : ℝ) (c : String → ℝ) :
    aberration_surface α φ lam c = chi α φ lam c := by
  aberr_unfold
  simp only [chi, table, sumOver, term, phase0]
  num_real
  push_cast
  simp only [zero_mul, Real.cos_zero, one_mul, sub_zero, mul_one]
  ring

theorem dk_eq (α φ lam : ℝ) (c : String → ℝ) :
    (aberration_surface_polar_gradients α φ c).1 / lam = chiDAlpha α φ lam c := by
  aberr_unfold
  simp only [chiDAlpha, table, sumOver, termDAlpha, phase0]
  num_real
  push_cast
  simp only [zero_mul, Real.cos_zero, one_mul, sub_zero, mul_one]
  ring

theorem dphi_eq (α φ lam : ℝ) (c : String → ℝ) :
    α * (aberration_surface_polar_gradients α φ c).2 / lam = chiDPhi α φ lam c := by
  aberr_unfold
  simp only [chiDPhi, table, sumOver, termDPhi, phase0]
  num_real
  push_cast
  simp only [zero_mul, Real.sin_zero, one_mul, sub_zero, mul_zero, neg_zero]
  ring

/-- a guarded accumulation loses nothing when the increment vanishes whenever all guard keys read 0 -/
theorem guardAdd_eq (present : String → Bool) (c : String → ℝ) (hc : ∀ k, present k = false → c k = 0)
    (ks : List String) (x t : ℝ) (ht : (∀ k ∈ ks, c k = 0) → t = 0) :
    guardAdd (List.any ks present) x t = x + t := by
  unfold guardAdd
  by_cases h : List.any ks present = true
  · simp only [h, if_true]
  · have hz : ∀ k ∈ ks, c k = 0 := by
      intro k hk
      apply hc
      by_contra hp
      exact h (List.any_eq_true.mpr ⟨k, hk, by simpa using hp⟩)
    simp only [h, Bool.false_eq_true, if_false, ht hz, add_zero]

theorem guardSub_eq (present : String → Bool) (c : String → ℝ) (hc : ∀ k, present k = false → c k = 0)
    (ks : List String) (x t : ℝ) (ht : (∀ k ∈ ks, c k = 0) → t = 0) :
    guardSub (List.any ks present) x t = x - t := by
  unfold guardSub
  by_cases h : List.any ks present = true
  · simp only [h, if_true]
  · have hz : ∀ k ∈ ks, c k = 0 := by
      intro k hk
      apply hc
      by_contra hp
      exact h (List.any_eq_true.mpr ⟨k, hk, by simpa using hp⟩)
    simp only [h, Bool.false_eq_true, if_false, ht hz, sub_zero]

end QuantemModel.Aberration
