import Mathlib.RingTheory.RootsOfUnity.Complex
import Mathlib.Algebra.Ring.GeomSum
import Mathlib.Algebra.BigOperators.Intervals
import Mathlib.Analysis.SpecialFunctions.Trigonometric.Basic
/-!
# Shared spectral core over ℂ  (self-contained: Mathlib only, no model imports)

Discrete Fourier transform as the defining sums, indexed by `ℕ` over `Finset.range N`
(signals are functions `ℕ → ℂ`; only the values at `n < N` matter).  Conventions are
NumPy's: forward `X k = Σ_n x n · exp(-2πi·k·n/N)` (unnormalised), inverse with `1/N`.

Main statements (1-D, then lifted separably to 2-D with the suffix `2`):
* `e`, `e_add`, `e_neg`, `e_eq_one_iff`, `e_congr`, `norm_e`, `conj_e`  — roots of unity `e N j = exp(2πi·j/N)`
* `sum_e`                — orthogonality  `Σ_{n<N} e N (j·n) = if N ∣ j then N else 0`
* `idft_dft`, `dft_idft` — inversion
* `plancherel`, `parseval` — `Σ_k conj(X k)·Y k = N·Σ_n conj(x n)·y n`, `Σ_k ‖X k‖² = N·Σ_n ‖x n‖²`
* `idft_mul_ramp`        — modulation: multiplying the spectrum by `e N (-(k·s))` rolls the signal by `s`
* `shift_eq_roll`        — `idft (ramp_s · dft x) = roll s x`  (integer Fourier shift = circular roll)
* `dft_roll`             — shift theorem `dft (roll s x) k = e N (-(k·s)) · dft x k`
* `dft_congr`, `dft_add`, `dft_smul`, `dft2_smul`, `dft2_add`, `idft2_smul` — extensionality on `range N`, linearity
-/
namespace QuantemModel.Spectral
open Finset

/-- the primitive `N`-th root of unity `exp(2πi/N)` -/
noncomputable def ω (N : ℕ) : ℂ := Complex.exp (2 * Real.pi * Complex.I / N)

/-- `e N j = exp(2πi·j/N)` for an integer `j` -/
noncomputable def e (N : ℕ) (j : ℤ) : ℂ := ω N ^ j

theorem ω_ne_zero (N : ℕ) : ω N ≠ 0 := Complex.exp_ne_zero _

theorem ω_isPrimitiveRoot {N : ℕ} (hN : N ≠ 0) : IsPrimitiveRoot (ω N) N :=
  Complex.isPrimitiveRoot_exp N hN

theorem e_eq_exp (N : ℕ) (j : ℤ) : e N j = Complex.exp (2 * Real.pi * Complex.I * j / N) := by
  unfold e ω
  rw [← Complex.exp_int_mul]
  congr 1
  ring

/-- `e N j = exp(i·θ)` with the real angle `θ = 2π·j/N` -/
theorem e_eq_exp_ofReal (N : ℕ) (j : ℤ) :
    e N j = Complex.exp (((2 * Real.pi * j / N : ℝ) : ℂ) * Complex.I) := by
  rw [e_eq_exp]
  congr 1
  push_cast
  ring

@[simp] theorem e_zero (N : ℕ) : e N 0 = 1 := by simp [e]

theorem e_add (N : ℕ) (j k : ℤ) : e N (j + k) = e N j * e N k := zpow_add₀ (ω_ne_zero N) j k

theorem e_neg (N : ℕ) (j : ℤ) : e N (-j) = (e N j)⁻¹ := zpow_neg _ _

theorem e_sub (N : ℕ) (j k : ℤ) : e N (j - k) = e N j / e N k := zpow_sub₀ (ω_ne_zero N) j k

theorem e_ne_zero (N : ℕ) (j : ℤ) : e N j ≠ 0 := zpow_ne_zero _ (ω_ne_zero N)

theorem e_mul_neg_self (N : ℕ) (j : ℤ) : e N j * e N (-j) = 1 := by
  rw [← e_add]; simp

theorem e_mul_nat (N : ℕ) (j : ℤ) (n : ℕ) : e N (j * n) = e N j ^ n := by
  unfold e; rw [zpow_mul, zpow_natCast]

theorem e_eq_one_iff {N : ℕ} (hN : N ≠ 0) (j : ℤ) : e N j = 1 ↔ (N : ℤ) ∣ j :=
  (ω_isPrimitiveRoot hN).zpow_eq_one_iff_dvd j

/-- periodicity: `e N` only depends on the residue of `j` mod `N` -/
theorem e_congr {N : ℕ} (hN : N ≠ 0) {j k : ℤ} (h : (N : ℤ) ∣ j - k) : e N j = e N k := by
  have h1 : e N (j - k) = 1 := (e_eq_one_iff hN _).2 h
  have : e N j = e N (j - k) * e N k := by rw [← e_add]; congr 1; ring
  rw [this, h1, one_mul]

theorem e_emod {N : ℕ} (hN : N ≠ 0) (j : ℤ) : e N (j % N) = e N j :=
  e_congr hN (by
    have : j % (N : ℤ) - j = (N : ℤ) * (-(j / N)) := by
      have := Int.emod_add_mul_ediv j N
      linarith
    exact ⟨_, this⟩)

theorem e_add_mul_self {N : ℕ} (hN : N ≠ 0) (j m : ℤ) : e N (j + N * m) = e N j :=
  e_congr hN ⟨m, by ring⟩

theorem norm_e (N : ℕ) (j : ℤ) : ‖e N j‖ = 1 := by
  rw [e_eq_exp_ofReal]; exact Complex.norm_exp_ofReal_mul_I _

theorem conj_e (N : ℕ) (j : ℤ) : (starRingEnd ℂ) (e N j) = e N (-j) := by
  rw [e_eq_exp_ofReal, e_eq_exp_ofReal, ← Complex.exp_conj]
  congr 1
  simp only [map_mul, Complex.conj_ofReal, Complex.conj_I]
  push_cast
  ring

theorem normSq_e (N : ℕ) (j : ℤ) : Complex.normSq (e N j) = 1 := by
  rw [Complex.normSq_eq_norm_sq, norm_e]; norm_num

/-- **orthogonality** of the characters of `ℤ/N` -/
theorem sum_e {N : ℕ} (hN : N ≠ 0) (j : ℤ) :
    ∑ n ∈ range N, e N (j * n) = if (N : ℤ) ∣ j then (N : ℂ) else 0 := by
  split_ifs with h
  · have : ∀ n ∈ range N, e N (j * n) = 1 := by
      intro n _
      exact (e_eq_one_iff hN _).2 (Dvd.dvd.mul_right h _)
    rw [sum_congr rfl this]; simp
  · have hne : e N j ≠ 1 := fun hh => h ((e_eq_one_iff hN j).1 hh)
    have hgeom := geom_sum_mul (e N j) N
    have hpow : e N j ^ N = 1 := by
      rw [← e_mul_nat]; exact (e_eq_one_iff hN _).2 ⟨j, by ring⟩
    rw [hpow, sub_self] at hgeom
    have hsum : ∑ n ∈ range N, e N j ^ n = 0 := by
      rcases mul_eq_zero.1 hgeom with h0 | h0
      · exact h0
      · exact absurd (sub_eq_zero.1 h0) hne
    rw [← hsum]
    exact sum_congr rfl fun n _ => e_mul_nat N j n

/-- residues `< N` that are congruent mod `N` are equal -/
theorem eq_of_dvd_sub_of_lt {N a b : ℕ} (ha : a < N) (hb : b < N) (h : (N : ℤ) ∣ (a : ℤ) - b) : a = b := by
  obtain ⟨c, hc⟩ := h
  have hN : (0 : ℤ) < N := by exact_mod_cast Nat.zero_lt_of_lt ha
  have h1 : -(N : ℤ) < (a : ℤ) - b := by
    have : (b : ℤ) < N := by exact_mod_cast hb
    have : (0 : ℤ) ≤ a := Int.natCast_nonneg a
    linarith
  have h2 : (a : ℤ) - b < N := by
    have : (a : ℤ) < N := by exact_mod_cast ha
    have : (0 : ℤ) ≤ b := Int.natCast_nonneg b
    linarith
  have hc0 : c = 0 := by
    rw [hc] at h1 h2
    have h3 : -1 < c := by
      by_contra hcon
      have : c ≤ -1 := by omega
      nlinarith
    have h4 : c < 1 := by
      by_contra hcon
      have : 1 ≤ c := by omega
      nlinarith
    omega
  rw [hc0, mul_zero] at hc
  exact_mod_cast sub_eq_zero.1 hc

/-! ### 1-D DFT -/

/-- `np.fft.fft`: `X k = Σ_{n<N} x n · exp(-2πi·k·n/N)` -/
noncomputable def dft (N : ℕ) (x : ℕ → ℂ) (k : ℕ) : ℂ := ∑ n ∈ range N, x n * e N (-((k : ℤ) * n))

/-- `np.fft.ifft`: `x n = (1/N)·Σ_{k<N} X k · exp(+2πi·k·n/N)` -/
noncomputable def idft (N : ℕ) (X : ℕ → ℂ) (n : ℕ) : ℂ :=
  (N : ℂ)⁻¹ * ∑ k ∈ range N, X k * e N ((k : ℤ) * n)

theorem dft_congr {N : ℕ} {x y : ℕ → ℂ} (h : ∀ n < N, x n = y n) (k : ℕ) : dft N x k = dft N y k :=
  sum_congr rfl fun n hn => by rw [h n (mem_range.1 hn)]

theorem idft_congr {N : ℕ} {x y : ℕ → ℂ} (h : ∀ n < N, x n = y n) (k : ℕ) : idft N x k = idft N y k := by
  unfold idft; congr 1
  exact sum_congr rfl fun n hn => by rw [h n (mem_range.1 hn)]

theorem dft_add (N : ℕ) (x y : ℕ → ℂ) (k : ℕ) : dft N (fun n => x n + y n) k = dft N x k + dft N y k := by
  unfold dft; rw [← sum_add_distrib]; exact sum_congr rfl fun n _ => by ring

theorem dft_smul (N : ℕ) (c : ℂ) (x : ℕ → ℂ) (k : ℕ) : dft N (fun n => c * x n) k = c * dft N x k := by
  unfold dft; rw [mul_sum]; exact sum_congr rfl fun n _ => by ring

theorem idft_add (N : ℕ) (x y : ℕ → ℂ) (k : ℕ) : idft N (fun n => x n + y n) k = idft N x k + idft N y k := by
  unfold idft; rw [← mul_add, ← sum_add_distrib]; congr 1; exact sum_congr rfl fun n _ => by ring

theorem idft_smul (N : ℕ) (c : ℂ) (x : ℕ → ℂ) (k : ℕ) : idft N (fun n => c * x n) k = c * idft N x k := by
  unfold idft
  have : ∑ n ∈ range N, (fun n => c * x n) n * e N ((n : ℤ) * k) = c * ∑ n ∈ range N, x n * e N ((n : ℤ) * k) := by
    rw [mul_sum]; exact sum_congr rfl fun n _ => by simp only []; ring
  rw [this]; ring

/-- kernel of the composition: `Σ_{k<N} e(k·(a - b)) = N·[a = b]` for residues `a, b < N` -/
theorem sum_e_sub {N a b : ℕ} (ha : a < N) (hb : b < N) :
    ∑ k ∈ range N, e N ((k : ℤ) * ((a : ℤ) - b)) = if a = b then (N : ℂ) else 0 := by
  have hN : N ≠ 0 := Nat.ne_of_gt (Nat.zero_lt_of_lt ha)
  have : ∀ k ∈ range N, e N ((k : ℤ) * ((a : ℤ) - b)) = e N (((a : ℤ) - b) * (k : ℕ)) := by
    intro k _; congr 1; ring
  rw [sum_congr rfl this, sum_e hN]
  by_cases hab : a = b
  · subst hab; simp
  · rw [if_neg hab, if_neg]
    intro hd; exact hab (eq_of_dvd_sub_of_lt ha hb hd)

/-- **inversion**: `ifft(fft(x)) = x` on `range N` -/
theorem idft_dft {N : ℕ} (x : ℕ → ℂ) {n : ℕ} (hn : n < N) : idft N (dft N x) n = x n := by
  have hN : (N : ℂ) ≠ 0 := by exact_mod_cast Nat.ne_of_gt (Nat.zero_lt_of_lt hn)
  unfold idft dft
  have h1 : ∀ k ∈ range N, (∑ m ∈ range N, x m * e N (-((k : ℤ) * m))) * e N ((k : ℤ) * n)
      = ∑ m ∈ range N, x m * e N ((k : ℤ) * ((n : ℤ) - m)) := by
    intro k _
    rw [sum_mul]
    refine sum_congr rfl fun m _ => ?_
    rw [mul_assoc, ← e_add]; congr 2; ring
  rw [sum_congr rfl h1, sum_comm]
  have h2 : ∀ m ∈ range N, ∑ k ∈ range N, x m * e N ((k : ℤ) * ((n : ℤ) - m))
      = if n = m then x m * N else 0 := by
    intro m hm
    rw [← mul_sum, sum_e_sub hn (mem_range.1 hm)]
    split_ifs <;> simp
  rw [sum_congr rfl h2, sum_ite_eq, if_pos (mem_range.2 hn)]
  field_simp

/-- **inversion**: `fft(ifft(X)) = X` on `range N` -/
theorem dft_idft {N : ℕ} (X : ℕ → ℂ) {k : ℕ} (hk : k < N) : dft N (idft N X) k = X k := by
  have hN : (N : ℂ) ≠ 0 := by exact_mod_cast Nat.ne_of_gt (Nat.zero_lt_of_lt hk)
  unfold idft dft
  have h1 : ∀ n ∈ range N, ((N : ℂ)⁻¹ * ∑ l ∈ range N, X l * e N ((l : ℤ) * n)) * e N (-((k : ℤ) * n))
      = (N : ℂ)⁻¹ * ∑ l ∈ range N, X l * e N ((n : ℤ) * ((l : ℤ) - k)) := by
    intro n _
    rw [mul_assoc, sum_mul]
    congr 1
    refine sum_congr rfl fun l _ => ?_
    rw [mul_assoc, ← e_add]; congr 2; ring
  rw [sum_congr rfl h1, ← mul_sum, sum_comm]
  have h2 : ∀ l ∈ range N, ∑ n ∈ range N, X l * e N ((n : ℤ) * ((l : ℤ) - k))
      = if k = l then X l * N else 0 := by
    intro l hl
    rw [← mul_sum, sum_e_sub (mem_range.1 hl) hk]
    by_cases h : k = l
    · subst h; simp
    · rw [if_neg h, if_neg (fun hh => h hh.symm)]; simp
  rw [sum_congr rfl h2, sum_ite_eq, if_pos (mem_range.2 hk)]
  field_simp

/-- **Plancherel**: `Σ_k conj(X k)·Y k = N·Σ_n conj(x n)·y n` -/
theorem plancherel (N : ℕ) (x y : ℕ → ℂ) :
    ∑ k ∈ range N, (starRingEnd ℂ) (dft N x k) * dft N y k
      = N * ∑ n ∈ range N, (starRingEnd ℂ) (x n) * y n := by
  rcases Nat.eq_zero_or_pos N with hN | hN
  · subst hN; simp
  unfold dft
  have h1 : ∀ k ∈ range N,
      (starRingEnd ℂ) (∑ n ∈ range N, x n * e N (-((k : ℤ) * n))) * ∑ m ∈ range N, y m * e N (-((k : ℤ) * m))
      = ∑ n ∈ range N, ∑ m ∈ range N, (starRingEnd ℂ) (x n) * y m * e N ((k : ℤ) * ((n : ℤ) - m)) := by
    intro k _
    rw [map_sum, sum_mul_sum]
    refine sum_congr rfl fun n _ => sum_congr rfl fun m _ => ?_
    rw [map_mul, conj_e]
    have : e N ((k : ℤ) * ((n : ℤ) - m)) = e N (- -((k : ℤ) * n)) * e N (-((k : ℤ) * m)) := by
      rw [← e_add]; congr 1; ring
    rw [this]; ring
  rw [sum_congr rfl h1, sum_comm]
  have h2 : ∀ n ∈ range N, ∑ k ∈ range N, ∑ m ∈ range N,
      (starRingEnd ℂ) (x n) * y m * e N ((k : ℤ) * ((n : ℤ) - m)) = N * ((starRingEnd ℂ) (x n) * y n) := by
    intro n hn
    rw [sum_comm]
    have h3 : ∀ m ∈ range N, ∑ k ∈ range N, (starRingEnd ℂ) (x n) * y m * e N ((k : ℤ) * ((n : ℤ) - m))
        = if n = m then (starRingEnd ℂ) (x n) * y m * N else 0 := by
      intro m hm
      rw [← mul_sum, sum_e_sub (mem_range.1 hn) (mem_range.1 hm)]
      split_ifs <;> simp
    rw [sum_congr rfl h3, sum_ite_eq, if_pos hn]; ring
  rw [sum_congr rfl h2, mul_sum]

/-- **Parseval**: `Σ_k |X k|² = N·Σ_n |x n|²` -/
theorem parseval (N : ℕ) (x : ℕ → ℂ) :
    ∑ k ∈ range N, Complex.normSq (dft N x k) = N * ∑ n ∈ range N, Complex.normSq (x n) := by
  have h := plancherel N x x
  have hc : ∀ z : ℂ, (starRingEnd ℂ) z * z = (Complex.normSq z : ℂ) := fun z => by
    rw [mul_comm, Complex.mul_conj]
  simp only [hc] at h
  have : ((∑ k ∈ range N, Complex.normSq (dft N x k) : ℝ) : ℂ)
      = ((N * ∑ n ∈ range N, Complex.normSq (x n) : ℝ) : ℂ) := by
    push_cast; exact h
  exact_mod_cast this

/-- Parseval for the inverse transform: `N·Σ_n |ifft X n|² = Σ_k |X k|²` -/
theorem parseval_idft (N : ℕ) (X : ℕ → ℂ) :
    N * ∑ n ∈ range N, Complex.normSq (idft N X n) = ∑ k ∈ range N, Complex.normSq (X k) := by
  rw [← parseval]
  exact sum_congr rfl fun k hk => by rw [dft_idft X (mem_range.1 hk)]

/-! ### circular roll, modulation and the shift theorem -/

/-- index of `np.roll`: `(n - s) mod N` -/
def rollIdx (N : ℕ) (s : ℤ) (n : ℕ) : ℕ := (((n : ℤ) - s) % N).toNat

/-- `np.roll(x, s)` as a function: `roll N s x n = x ((n - s) mod N)` -/
def roll (N : ℕ) (s : ℤ) (x : ℕ → ℂ) (n : ℕ) : ℂ := x (rollIdx N s n)

theorem rollIdx_lt {N : ℕ} (hN : 0 < N) (s : ℤ) (n : ℕ) : rollIdx N s n < N := by
  unfold rollIdx
  have h0 : (0 : ℤ) ≤ ((n : ℤ) - s) % N := Int.emod_nonneg _ (by exact_mod_cast Nat.ne_of_gt hN)
  have h1 : ((n : ℤ) - s) % N < N := Int.emod_lt_of_pos _ (by exact_mod_cast hN)
  omega

theorem rollIdx_cast {N : ℕ} (hN : 0 < N) (s : ℤ) (n : ℕ) : ((rollIdx N s n : ℕ) : ℤ) = ((n : ℤ) - s) % N := by
  unfold rollIdx
  exact Int.toNat_of_nonneg (Int.emod_nonneg _ (by exact_mod_cast Nat.ne_of_gt hN))

/-- **modulation**: multiplying a spectrum by the integer phase ramp `exp(-2πi·k·s/N)` rolls the
inverse transform by `s` (termwise; no reindexing needed) -/
theorem idft_mul_ramp {N : ℕ} (hN : 0 < N) (X : ℕ → ℂ) (s : ℤ) (n : ℕ) :
    idft N (fun k => X k * e N (-((k : ℤ) * s))) n = idft N X (rollIdx N s n) := by
  have hN' : N ≠ 0 := Nat.ne_of_gt hN
  unfold idft
  congr 1
  refine sum_congr rfl fun k _ => ?_
  rw [mul_assoc, ← e_add, rollIdx_cast hN]
  congr 1
  apply e_congr hN'
  have : -((k : ℤ) * s) + (k : ℤ) * n - (k : ℤ) * (((n : ℤ) - s) % N)
      = (N : ℤ) * ((k : ℤ) * (((n : ℤ) - s) / N)) := by
    have := Int.emod_add_mul_ediv ((n : ℤ) - s) N
    linear_combination (-(k : ℤ)) * this
  exact ⟨_, this⟩

/-- **integer Fourier shift = circular roll**: `ifft(fft(x)·ramp_s) = roll(x, s)` -/
theorem shift_eq_roll {N : ℕ} (hN : 0 < N) (x : ℕ → ℂ) (s : ℤ) (n : ℕ) :
    idft N (fun k => dft N x k * e N (-((k : ℤ) * s))) n = roll N s x n := by
  rw [idft_mul_ramp hN, idft_dft x (rollIdx_lt hN s n)]; rfl

/-- **shift theorem**: `fft(roll(x, s)) k = exp(-2πi·k·s/N)·fft(x) k` -/
theorem dft_roll {N : ℕ} (hN : 0 < N) (x : ℕ → ℂ) (s : ℤ) {k : ℕ} (hk : k < N) :
    dft N (roll N s x) k = e N (-((k : ℤ) * s)) * dft N x k := by
  have h : ∀ n < N, roll N s x n = idft N (fun k => dft N x k * e N (-((k : ℤ) * s))) n :=
    fun n _ => (shift_eq_roll hN x s n).symm
  rw [dft_congr h, dft_idft _ hk, mul_comm]

theorem rollIdx_zero {N n : ℕ} (hn : n < N) : rollIdx N 0 n = n := by
  unfold rollIdx
  rw [sub_zero, Int.emod_eq_of_lt (Int.natCast_nonneg n) (by exact_mod_cast hn)]
  simp

/-! ### 2-D (separable) -/

/-- `np.fft.fft2`: `X k l = Σ_m Σ_n x m n · exp(-2πi·k·m/Nr) · exp(-2πi·l·n/Nc)`, as the
composition of 1-D transforms along each axis -/
noncomputable def dft2 (Nr Nc : ℕ) (x : ℕ → ℕ → ℂ) (k l : ℕ) : ℂ :=
  dft Nr (fun m => dft Nc (x m) l) k

noncomputable def idft2 (Nr Nc : ℕ) (X : ℕ → ℕ → ℂ) (m n : ℕ) : ℂ :=
  idft Nr (fun k => idft Nc (X k) n) m

theorem dft2_eq_sum (Nr Nc : ℕ) (x : ℕ → ℕ → ℂ) (k l : ℕ) :
    dft2 Nr Nc x k l
      = ∑ m ∈ range Nr, ∑ n ∈ range Nc, x m n * (e Nr (-((k : ℤ) * m)) * e Nc (-((l : ℤ) * n))) := by
  unfold dft2 dft
  refine sum_congr rfl fun m _ => ?_
  rw [sum_mul]
  exact sum_congr rfl fun n _ => by ring

theorem idft2_eq_sum (Nr Nc : ℕ) (X : ℕ → ℕ → ℂ) (m n : ℕ) :
    idft2 Nr Nc X m n
      = ((Nr : ℂ)⁻¹ * (Nc : ℂ)⁻¹) *
        ∑ k ∈ range Nr, ∑ l ∈ range Nc, X k l * (e Nr ((k : ℤ) * m) * e Nc ((l : ℤ) * n)) := by
  unfold idft2 idft
  rw [mul_assoc]
  congr 1
  rw [mul_sum]
  refine sum_congr rfl fun k _ => ?_
  rw [mul_assoc, sum_mul]
  congr 1
  exact sum_congr rfl fun l _ => by ring

theorem dft2_congr {Nr Nc : ℕ} {x y : ℕ → ℕ → ℂ} (h : ∀ m < Nr, ∀ n < Nc, x m n = y m n) (k l : ℕ) :
    dft2 Nr Nc x k l = dft2 Nr Nc y k l :=
  dft_congr (fun m hm => dft_congr (h m hm) l) k

theorem idft2_congr {Nr Nc : ℕ} {x y : ℕ → ℕ → ℂ} (h : ∀ m < Nr, ∀ n < Nc, x m n = y m n) (k l : ℕ) :
    idft2 Nr Nc x k l = idft2 Nr Nc y k l :=
  idft_congr (fun m hm => idft_congr (h m hm) l) k

theorem dft2_smul (Nr Nc : ℕ) (c : ℂ) (x : ℕ → ℕ → ℂ) (k l : ℕ) :
    dft2 Nr Nc (fun m n => c * x m n) k l = c * dft2 Nr Nc x k l := by
  unfold dft2
  have : (fun m => dft Nc (fun n => c * x m n) l) = fun m => c * dft Nc (x m) l := by
    funext m; exact dft_smul Nc c (x m) l
  rw [this, dft_smul]

theorem idft2_smul (Nr Nc : ℕ) (c : ℂ) (X : ℕ → ℕ → ℂ) (m n : ℕ) :
    idft2 Nr Nc (fun k l => c * X k l) m n = c * idft2 Nr Nc X m n := by
  unfold idft2
  have : (fun k => idft Nc (fun l => c * X k l) n) = fun k => c * idft Nc (X k) n := by
    funext k; exact idft_smul Nc c (X k) n
  rw [this, idft_smul]

theorem dft2_add (Nr Nc : ℕ) (x y : ℕ → ℕ → ℂ) (k l : ℕ) :
    dft2 Nr Nc (fun m n => x m n + y m n) k l = dft2 Nr Nc x k l + dft2 Nr Nc y k l := by
  unfold dft2
  have : (fun m => dft Nc (fun n => x m n + y m n) l) = fun m => dft Nc (x m) l + dft Nc (y m) l := by
    funext m; exact dft_add Nc (x m) (y m) l
  rw [this, dft_add]

/-- **2-D inversion** -/
theorem idft2_dft2 {Nr Nc : ℕ} (x : ℕ → ℕ → ℂ) {m n : ℕ} (hm : m < Nr) (hn : n < Nc) :
    idft2 Nr Nc (dft2 Nr Nc x) m n = x m n := by
  unfold idft2 dft2
  have h1 : ∀ k < Nr, idft Nc (fun l => dft Nr (fun m' => dft Nc (x m') l) k) n
      = dft Nr (fun m' => x m' n) k := by
    intro k _
    -- swap: the inner 1-D inverse acts on the column index `l`
    have hswap : ∀ l, dft Nr (fun m' => dft Nc (x m') l) k = dft Nc (fun n' => dft Nr (fun m' => x m' n') k) l := by
      intro l
      simp only [dft, sum_mul]
      rw [sum_comm]
      refine sum_congr rfl fun n' _ => sum_congr rfl fun m' _ => by ring
    simp only [hswap]
    exact idft_dft (fun n' => dft Nr (fun m' => x m' n') k) hn
  rw [idft_congr h1]
  exact idft_dft (fun m' => x m' n) hm

theorem dft2_idft2 {Nr Nc : ℕ} (X : ℕ → ℕ → ℂ) {k l : ℕ} (hk : k < Nr) (hl : l < Nc) :
    dft2 Nr Nc (idft2 Nr Nc X) k l = X k l := by
  unfold idft2 dft2
  have h1 : ∀ m < Nr, dft Nc (fun n => idft Nr (fun k' => idft Nc (X k') n) m) l
      = idft Nr (fun k' => X k' l) m := by
    intro m _
    have hswap : ∀ n, idft Nr (fun k' => idft Nc (X k') n) m = idft Nc (fun l' => idft Nr (fun k' => X k' l') m) n := by
      intro n
      unfold idft
      simp only [mul_sum, sum_mul]
      rw [sum_comm]
      refine sum_congr rfl fun l' _ => sum_congr rfl fun k' _ => by ring
    simp only [hswap]
    exact dft_idft (fun l' => idft Nr (fun k' => X k' l') m) hl
  rw [dft_congr h1]
  exact dft_idft (fun k' => X k' l) hk

/-- **2-D Parseval**: `Σ_{k,l} |X k l|² = Nr·Nc·Σ_{m,n} |x m n|²` -/
theorem parseval2 (Nr Nc : ℕ) (x : ℕ → ℕ → ℂ) :
    ∑ k ∈ range Nr, ∑ l ∈ range Nc, Complex.normSq (dft2 Nr Nc x k l)
      = (Nr * Nc : ℝ) * ∑ m ∈ range Nr, ∑ n ∈ range Nc, Complex.normSq (x m n) := by
  unfold dft2
  rw [sum_comm]
  have h1 : ∀ l ∈ range Nc, ∑ k ∈ range Nr, Complex.normSq (dft Nr (fun m => dft Nc (x m) l) k)
      = Nr * ∑ m ∈ range Nr, Complex.normSq (dft Nc (x m) l) := fun l _ => parseval Nr _
  rw [sum_congr rfl h1, ← mul_sum, sum_comm]
  have h2 : ∀ m ∈ range Nr, ∑ l ∈ range Nc, Complex.normSq (dft Nc (x m) l)
      = Nc * ∑ n ∈ range Nc, Complex.normSq (x m n) := fun m _ => parseval Nc _
  rw [sum_congr rfl h2, ← mul_sum, mul_assoc]

theorem parseval2_idft (Nr Nc : ℕ) (X : ℕ → ℕ → ℂ) :
    (Nr * Nc : ℝ) * ∑ m ∈ range Nr, ∑ n ∈ range Nc, Complex.normSq (idft2 Nr Nc X m n)
      = ∑ k ∈ range Nr, ∑ l ∈ range Nc, Complex.normSq (X k l) := by
  rw [← parseval2]
  exact sum_congr rfl fun k hk => sum_congr rfl fun l hl => by
    rw [dft2_idft2 X (mem_range.1 hk) (mem_range.1 hl)]

/-- `np.roll(x, (sr, sc), axis=(0,1))` -/
def roll2 (Nr Nc : ℕ) (sr sc : ℤ) (x : ℕ → ℕ → ℂ) (m n : ℕ) : ℂ := x (rollIdx Nr sr m) (rollIdx Nc sc n)

/-- **2-D integer Fourier shift = circular roll** -/
theorem shift2_eq_roll2 {Nr Nc : ℕ} (hr : 0 < Nr) (hc : 0 < Nc) (x : ℕ → ℕ → ℂ) (sr sc : ℤ) (m n : ℕ) :
    idft2 Nr Nc (fun k l => dft2 Nr Nc x k l * (e Nr (-((k : ℤ) * sr)) * e Nc (-((l : ℤ) * sc)))) m n
      = roll2 Nr Nc sr sc x m n := by
  unfold idft2
  have h1 : ∀ k < Nr, idft Nc (fun l => dft2 Nr Nc x k l * (e Nr (-((k : ℤ) * sr)) * e Nc (-((l : ℤ) * sc)))) n
      = idft Nc (dft2 Nr Nc x k) (rollIdx Nc sc n) * e Nr (-((k : ℤ) * sr)) := by
    intro k _
    have : ∀ l, dft2 Nr Nc x k l * (e Nr (-((k : ℤ) * sr)) * e Nc (-((l : ℤ) * sc)))
        = e Nr (-((k : ℤ) * sr)) * (dft2 Nr Nc x k l * e Nc (-((l : ℤ) * sc))) := fun l => by ring
    simp only [this]
    rw [idft_smul, idft_mul_ramp hc, mul_comm]
  rw [idft_congr h1, idft_mul_ramp hr]
  have := idft2_dft2 x (rollIdx_lt hr sr m) (rollIdx_lt hc sc n)
  unfold idft2 at this
  rw [this]; rfl

end QuantemModel.Spectral
