import QuantemModel.Lemmas.Aberration
/-!
C12 — every one of the 25 symbols individually: surface and gradients of the translated source on a
coefficient set holding a single table entry; column order of the Cartesian basis for an arbitrary label list.
-/
namespace QuantemModel.Aberration
open QuantemModel QuantemModel.Generated.Aberration

/-- the coefficient set holding ONE table entry: amplitude `C` (and azimuth `p0` when m ≠ 0), everything else absent/0 -/
def single (t : Nat × Nat × String × String) (C p0 : ℝ) : String → ℝ :=
  fun k => if k = t.2.2.1 then C else if t.2.1 ≠ 0 ∧ k = t.2.2.2 then p0 else 0

set_option maxHeartbeats 1600000 in
/-- for every one of the 14 table entries (25 symbols): surface and both polar gradients of the translated
source, evaluated on the coefficient set holding only that entry, are exactly that entry's term -/
theorem single_symbol_lemma :
    ∀ t ∈ table, ∀ (C p0 α φ lam : ℝ),
      aberration_surface α φ lam (single t C p0)
        = 2 * Real.pi / lam * term t.1 t.2.1 C (if t.2.1 = 0 then 0 else p0) α φ ∧
      (aberration_surface_polar_gradients α φ (single t C p0)).1
        = 2 * Real.pi * termDAlpha t.1 t.2.1 C (if t.2.1 = 0 then 0 else p0) α φ ∧
      α * (aberration_surface_polar_gradients α φ (single t C p0)).2
        = 2 * Real.pi * termDPhi t.1 t.2.1 C (if t.2.1 = 0 then 0 else p0) α φ := by
  intro t ht C p0 α φ lam
  simp only [table, List.mem_cons, List.not_mem_nil, or_false] at ht
  rcases ht with rfl | rfl | rfl | rfl | rfl | rfl | rfl | rfl | rfl | rfl | rfl | rfl | rfl | rfl <;>
  · refine ⟨?_, ?_, ?_⟩ <;>
    · aberr_unfold
      simp only [single, term, termDAlpha, termDPhi, String.reduceEq, if_true, if_false, ne_eq,
        OfNat.ofNat_ne_zero, one_ne_zero, not_false_eq_true, not_true_eq_false, true_and, false_and,
        and_self, and_false]
      num_real
      push_cast
      simp only [zero_mul, mul_zero, add_zero, zero_add, sub_zero, Real.cos_zero, Real.sin_zero, mul_one, one_mul,
        neg_zero]
      first | done | ring

theorem term_at_peak (n m : Nat) (C p : ℝ) : term n m C p 1 p = C / ((n + 1 : ℕ) : ℝ) := by
  simp only [term]; num_real; simp; ring

theorem termDAlpha_at_peak (n m : Nat) (C p : ℝ) : termDAlpha n m C p 1 p = C := by
  simp only [termDAlpha]; num_real; simp

theorem termDPhi_at_quarter (n m : Nat) (hm : m ≠ 0) (C p : ℝ) :
    termDPhi n m C p 1 (p + Real.pi / (2 * m)) = -(C * m) / ((n + 1 : ℕ) : ℝ) := by
  simp only [termDPhi]; num_real
  have hm' : (m : ℝ) ≠ 0 := Nat.cast_ne_zero.mpr hm
  rw [show (m : ℝ) * (p + Real.pi / (2 * m) - p) = Real.pi / 2 by field_simp; ring, Real.sin_pi_div_two]
  simp; ring

/-- **every symbol contributes**: a non-zero amplitude C_nm alone already makes the translated surface AND the
translated radial gradient non-zero somewhere, and (m ≠ 0) the azimuthal gradient too -/
theorem every_symbol_contributes_lemma :
    ∀ t ∈ table, ∀ (C p0 : ℝ), C ≠ 0 →
      (∃ α φ, aberration_surface α φ 1 (single t C p0) ≠ 0 ∧
        (aberration_surface_polar_gradients α φ (single t C p0)).1 ≠ 0) ∧
      (t.2.1 ≠ 0 → ∃ α φ, (aberration_surface_polar_gradients α φ (single t C p0)).2 ≠ 0) := by
  intro t ht C p0 hC
  have hpi := Real.pi_pos
  have hn : ((t.1 + 1 : ℕ) : ℝ) ≠ 0 := by positivity
  constructor
  · refine ⟨1, (if t.2.1 = 0 then 0 else p0), ?_, ?_⟩
    · rw [(single_symbol_lemma t ht C p0 1 _ 1).1, term_at_peak]
      positivity
    · rw [(single_symbol_lemma t ht C p0 1 _ 1).2.1, termDAlpha_at_peak]
      positivity
  · intro hm
    refine ⟨1, p0 + Real.pi / (2 * t.2.1), ?_⟩
    have h := (single_symbol_lemma t ht C p0 1 (p0 + Real.pi / (2 * t.2.1)) 1).2.2
    rw [one_mul, if_neg hm, termDPhi_at_quarter _ _ hm] at h
    rw [h]
    have hm' : (t.2.1 : ℝ) ≠ 0 := Nat.cast_ne_zero.mpr hm
    exact mul_ne_zero (by positivity) (div_ne_zero (neg_ne_zero.mpr (mul_ne_zero hC hm')) hn)
/-- the column that belongs to label `l`: entry of the 25-column basis at the position of `l` in the label table -/
def colOf : List String → List ℝ → String → ℝ
  | a :: as, c :: cs, l => if l = a then c else colOf as cs l
  | _, _, _ => 0

noncomputable def basisCol (α φ lam : ℝ) (l : String) : ℝ :=
  colOf CARTESIAN_LABELS (aberration_surface_cartesian_basis α φ lam) l

set_option maxHeartbeats 1600000 in
theorem basis_step_known (α φ lam : ℝ) :
    ∀ l ∈ CARTESIAN_LABELS, ∀ out : List ℝ,
      aberration_surface_cartesian_basis_list_step α φ lam out l = some (out ++ [basisCol α φ lam l]) := by
  intro l hl out
  simp only [CARTESIAN_LABELS, List.mem_cons, List.not_mem_nil, or_false] at hl
  rcases hl with rfl | rfl | rfl | rfl | rfl | rfl | rfl | rfl | rfl | rfl | rfl | rfl | rfl | rfl | rfl |
    rfl | rfl | rfl | rfl | rfl | rfl | rfl | rfl | rfl | rfl <;>
  simp only [aberration_surface_cartesian_basis_list_step, basisCol, colOf, CARTESIAN_LABELS,
    aberration_surface_cartesian_basis, String.reduceEq, if_true, if_false]

theorem basis_step_unknown (α φ lam : ℝ) (l : String) (hl : l ∉ CARTESIAN_LABELS) (out : List ℝ) :
    aberration_surface_cartesian_basis_list_step α φ lam out l = none := by
  simp only [CARTESIAN_LABELS, List.mem_cons, List.not_mem_nil, or_false, not_or] at hl
  simp only [aberration_surface_cartesian_basis_list_step, hl, if_false]

theorem basis_fold_known (α φ lam : ℝ) :
    ∀ (labels : List String) (acc : List ℝ), (∀ l ∈ labels, l ∈ CARTESIAN_LABELS) →
      List.foldlM (fun out label => aberration_surface_cartesian_basis_list_step α φ lam out label) acc labels
        = some (acc ++ labels.map (basisCol α φ lam)) := by
  intro labels
  induction labels with
  | nil => intro acc _; simp
  | cons l rest ih =>
    intro acc h
    rw [List.foldlM_cons, basis_step_known α φ lam l (h l (by simp))]
    simp only [Option.bind_eq_bind, Option.bind_some]
    rw [ih _ (fun x hx => h x (by simp [hx]))]
    simp

theorem basis_fold_unknown (α φ lam : ℝ) :
    ∀ (labels : List String) (acc : List ℝ), (∃ l ∈ labels, l ∉ CARTESIAN_LABELS) →
      List.foldlM (fun out label => aberration_surface_cartesian_basis_list_step α φ lam out label) acc labels = none := by
  intro labels
  induction labels with
  | nil => intro acc h; obtain ⟨l, hl, _⟩ := h; cases hl
  | cons l rest ih =>
    intro acc h
    rw [List.foldlM_cons]
    by_cases hk : l ∈ CARTESIAN_LABELS
    · rw [basis_step_known α φ lam l hk]
      simp only [Option.bind_eq_bind, Option.bind_some]
      apply ih
      obtain ⟨x, hx, hnx⟩ := h
      rcases List.mem_cons.mp hx with rfl | hx
      · exact absurd hk hnx
      · exact ⟨x, hx, hnx⟩
    · rw [basis_step_unknown α φ lam l hk]; rfl

end QuantemModel.Aberration
